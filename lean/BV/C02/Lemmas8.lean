/-
C02 helper lemmas, part 8: a history with at most `maxOrphans` block deliveries never evicts an orphan
(so the `evicted = []` hypothesis of `tip_is_best` is automatically met by such histories).
-/
import BV.C02.Lemmas7
namespace BV.C02
namespace Lemmas
open Spec

/-- orphan pool and eviction ghost unchanged -/
def SameOE (s s' : State) : Prop := s'.orphans = s.orphans ∧ s'.evicted = s.evicted

theorem sameOE_of_core {s s' : State} (h : SameCore s s') : SameOE s s' := ⟨h.2.1, h.2.2.1⟩

theorem connectBest_sameCore (s : State) (n : Node) : SameCore s (connectBest s n).1 := by
  unfold connectBest
  simp only []
  split
  · split
    · exact ⟨rfl, rfl, rfl, rfl, rfl⟩
    · split
      · exact ⟨rfl, rfl, rfl, rfl, rfl⟩
      · exact sameCore_setSt s _ _
  · split
    · exact SameCore.refl s
    · have hg := (sameChain_getReorgNodes s n).1
      generalize getReorgNodes s n = g at hg ⊢
      obtain ⟨s1, detach, attach⟩ := g
      simp only [] at hg ⊢
      have hr := reorganize_sameCore s1 detach attach
      generalize reorganize s1 detach attach = r at hr ⊢
      obtain ⟨s2, vr⟩ := r
      cases vr <;> exact hg.trans hr

theorem connectBest_sameOE_of (s s1 : State) (n : Node) (ho : s1.orphans = s.orphans) (he : s1.evicted = s.evicted) :
    SameOE s (connectBest s1 n).1 := by
  have h2 := sameOE_of_core (connectBest_sameCore s1 n)
  exact ⟨h2.1.trans ho, h2.2.trans he⟩

theorem maybeAccept_sameOE (s : State) (b : BlockAbs) : SameOE s (maybeAccept s b).1 := by
  unfold maybeAccept
  split
  · exact ⟨rfl, rfl⟩
  · split
    · exact ⟨rfl, rfl⟩
    · split
      · exact ⟨rfl, rfl⟩
      · split
        · exact ⟨rfl, rfl⟩
        · split
          · exact sameOE_of_core ((sameCore_setSt s _ _).trans (connectBest_sameCore _ _))
          · exact connectBest_sameOE_of s _ _ rfl rfl

theorem acceptKids_sameOE (s : State) (ks : List BlockAbs) (acc : List Hash) (e : Bool) :
    SameOE s (acceptKids s ks acc e).1 := by
  induction ks generalizing s acc e with
  | nil => exact ⟨rfl, rfl⟩
  | cons k ks ih =>
    unfold acceptKids
    have h1 := maybeAccept_sameOE s k
    generalize maybeAccept s k = r at h1 ⊢
    obtain ⟨s1, o⟩ := r
    cases o with
    | none => have := ih s1 acc true; exact ⟨this.1.trans h1.1, this.2.trans h1.2⟩
    | some m => have := ih s1 (acc ++ [k.hash]) e; exact ⟨this.1.trans h1.1, this.2.trans h1.2⟩

theorem drain_oe (f : Nat) (s : State) (q : List Hash) (e : Bool) :
    (drain f s q e).1.orphans.length ≤ s.orphans.length ∧ (drain f s q e).1.evicted = s.evicted := by
  induction f generalizing s q e with
  | zero => exact ⟨Nat.le_refl _, rfl⟩
  | succ f ih =>
    cases q with
    | nil => exact ⟨Nat.le_refl _, rfl⟩
    | cons h q' =>
      unfold drain
      simp only []
      have h1 := acceptKids_sameOE { s with orphans := s.orphans.filter (fun p => !(p.1.parent == h)) }
        ((s.orphans.filter (fun p => p.1.parent == h)).map (·.1)) [] e
      generalize acceptKids { s with orphans := s.orphans.filter (fun p => !(p.1.parent == h)) }
        ((s.orphans.filter (fun p => p.1.parent == h)).map (·.1)) [] e = r at h1 ⊢
      obtain ⟨s1, acc, e1⟩ := r
      have h2 := ih s1 (q' ++ acc) e1
      refine ⟨Nat.le_trans h2.1 ?_, h2.2.trans h1.2⟩
      rw [h1.1]
      exact List.length_filter_le _ _

def blockCount : List Op → Nat
  | [] => 0
  | .block _ :: r => blockCount r + 1
  | _ :: r => blockCount r

theorem addOrphan_small (s : State) (b : BlockAbs) (h : s.orphans.length + 1 ≤ maxOrphans) :
    (addOrphan s b).orphans.length = s.orphans.length + 1 ∧ (addOrphan s b).evicted = s.evicted := by
  unfold addOrphan addOrphanB
  simp only []
  have : ¬ (s.orphans.length + 1 > maxOrphans) := by omega
  simp only [this, if_false]
  simp

theorem processBlock_oe (s : State) (b : BlockAbs) (k : Nat) (hk : s.orphans.length ≤ k) (hk2 : k + 1 ≤ maxOrphans) :
    (processBlock s b).1.orphans.length ≤ k + 1 ∧ (processBlock s b).1.evicted = s.evicted := by
  unfold processBlock
  split
  · exact ⟨by show s.orphans.length ≤ k + 1; omega, rfl⟩
  · split
    · exact ⟨by show s.orphans.length ≤ k + 1; omega, rfl⟩
    · split
      · exact ⟨by show s.orphans.length ≤ k + 1; omega, rfl⟩
      · split
        · obtain ⟨a, c⟩ := addOrphan_small s b (by omega)
          exact ⟨by show (addOrphan s b).orphans.length ≤ k + 1; omega, c⟩
        · have h1 := maybeAccept_sameOE s b
          generalize maybeAccept s b = r at h1 ⊢
          obtain ⟨s1, o⟩ := r
          cases o with
          | none => exact ⟨by show s1.orphans.length ≤ k + 1; rw [h1.1]; omega, h1.2⟩
          | some m =>
            simp only []
            have h2 := drain_oe (s1.orphans.length + 1) s1 [b.hash] false
            generalize drain (s1.orphans.length + 1) s1 [b.hash] false = d at h2 ⊢
            obtain ⟨s2, e⟩ := d
            simp only [] at h2
            have h1o : s1.orphans = s.orphans := h1.1
            have h1e : s1.evicted = s.evicted := h1.2
            cases e
            · exact ⟨by have := h2.1; rw [h1o] at this; show s2.orphans.length ≤ k + 1; omega, h2.2.trans h1e⟩
            · exact ⟨by have := h2.1; rw [h1o] at this; show s2.orphans.length ≤ k + 1; omega, h2.2.trans h1e⟩

theorem processHeaderCore_oe (s : State) (b : BlockAbs) : SameOE s (processHeaderCore s b).1 := by
  unfold processHeaderCore
  split
  · exact ⟨rfl, rfl⟩
  · split
    · exact ⟨rfl, rfl⟩
    · split
      · split <;> exact ⟨rfl, rfl⟩
      · split <;> exact ⟨rfl, rfl⟩

theorem processHeader_oe (s : State) (b : BlockAbs) : SameOE s (processHeader s b).1 := by
  obtain ⟨x, hx⟩ := processHeader_shape s b
  rw [hx]
  exact processHeaderCore_oe s b

theorem runFrom_noEvict (ops : List Op) (s : State) (k : Nat) (hdo : deliveryOnly ops)
    (hk : s.orphans.length ≤ k) (hb : k + blockCount ops ≤ maxOrphans) (he : s.evicted = []) :
    (runFrom s ops).evicted = [] := by
  induction ops generalizing s k with
  | nil => exact he
  | cons o r ih =>
    cases o with
    | block b =>
      simp only [blockCount] at hb
      obtain ⟨a, c⟩ := processBlock_oe s b k hk (by omega)
      exact ih (step s (.block b)).1 (k + 1) hdo a (by omega) (c.trans he)
    | header b =>
      simp only [blockCount] at hb
      obtain ⟨a, c⟩ := processHeader_oe s b
      exact ih (step s (.header b)).1 k hdo (by show (processHeader s b).1.orphans.length ≤ k; rw [a]; exact hk) hb
        (c.trans he)
    | invalidate h c => exact absurd hdo (by simp [deliveryOnly])
    | reconsider h c => exact absurd hdo (by simp [deliveryOnly])

/-- at most `maxOrphans` (= 100) block deliveries: nothing is ever evicted -/
theorem run_noEvict (ops : List Op) (hdo : deliveryOnly ops) (hb : blockCount ops ≤ maxOrphans) :
    (run ops).evicted = [] :=
  runFrom_noEvict ops init 0 hdo (by simp [init]) (by omega) rfl

/-! ### the executable Spec used by the driver is sound for the relational Spec -/

/-- whatever `Spec.chainWork` computes is the work of a valid delivered chain avoiding `X` -/
theorem chainWork_sound (D : List BlockAbs) (X : List Hash) :
    ∀ (fuel : Nat) (h : Hash) (w : Nat), chainWork D X fuel h = some w → ValidChainEx D X h w := by
  intro fuel
  induction fuel with
  | zero => intro h w hw; simp [chainWork] at hw
  | succ f ih =>
    intro h w hw
    unfold chainWork at hw
    by_cases h0 : h = 0
    · subst h0
      simp at hw
      subst hw
      exact ValidChainEx.genesis
    · have h0' : (h == 0) = false := by simpa using h0
      simp only [h0', Bool.false_eq_true, if_false] at hw
      cases hx : X.contains h with
      | true =>
        simp only [hx, if_true] at hw
        cases hw
      | false =>
        simp only [hx, Bool.false_eq_true, if_false] at hw
        cases hf : D.find? (fun b => b.hash == h) with
        | none => simp [hf] at hw
        | some b =>
          simp only [hf] at hw
          have hbD : b ∈ D := List.mem_of_find?_eq_some hf
          have hbh : b.hash = h := by
            have := List.find?_some hf
            simpa using this
          cases hok : b.ok with
          | false => simp [hok] at hw
          | true =>
            simp only [hok, if_true] at hw
            cases hr : chainWork D X f b.parent with
            | none => simp [hr] at hw
            | some w' =>
              simp only [hr] at hw
              cases hw
              have := ValidChainEx.step hbD hok (by rw [hbh]; simpa using hx) (ih b.parent w' hr)
              rw [hbh] at this
              exact this

end Lemmas
end BV.C02

namespace BV.C02
namespace Lemmas
open Spec

/-! ### InvalidateBlock moves the active chain off the invalidated block -/

theorem filter_eq_self_of_all {α : Type} (p : α → Bool) (l : List α) (h : ∀ x ∈ l, p x = true) : l.filter p = l := by
  induction l with
  | nil => rfl
  | cons a r ih =>
    simp only [List.filter, h a (by simp)]
    rw [ih (fun x hx => h x (by simp [hx]))]

theorem takeWhile_all_of_length {α : Type} (p : α → Bool) (l : List α) (h : ¬ (l.takeWhile p).length < l.length) :
    ∀ x ∈ l, p x = true := by
  induction l with
  | nil => intro x hx; cases hx
  | cons a r ih =>
    by_cases ha : p a = true
    · simp only [List.takeWhile, ha, List.length_cons] at h
      intro x hx
      cases hx with
      | head => exact ha
      | tail _ hx' => exact ih (by omega) x hx'
    · have ha' : p a = false := by simpa using ha
      simp [List.takeWhile, ha'] at h

theorem mem_takeWhile_imp {α : Type} (p : α → Bool) (l : List α) {x : α} (h : x ∈ l.takeWhile p) : p x = true := by
  induction l with
  | nil => cases h
  | cons a r ih =>
    by_cases ha : p a = true
    · simp only [List.takeWhile, ha] at h
      cases h with
      | head => exact ha
      | tail _ h' => exact ih h'
    · have ha' : p a = false := by simpa using ha
      simp [List.takeWhile, ha'] at h

theorem foldl_setSt_status {l : List Hash} {f : Status → Status} (s : State) (k : Hash) (hk : k ∉ l) :
    ((l.foldl (fun s x => s.setSt x f) s).status k) = s.status k ∧
    (l.foldl (fun s x => s.setSt x f) s).best = s.best ∧ (l.foldl (fun s x => s.setSt x f) s).idx = s.idx := by
  induction l generalizing s with
  | nil => exact ⟨rfl, rfl, rfl⟩
  | cons a r ih =>
    simp only [List.foldl_cons]
    have hka : a ≠ k := by intro e; apply hk; simp [e]
    obtain ⟨h1, h2, h3⟩ := ih (s.setSt a f) (by intro hm; apply hk; simp [hm])
    refine ⟨?_, h2, h3⟩
    rw [h1, status_setSt]; simp [hka]

theorem not_mem_tail_dropWhile {l : List Hash} (hnd : l.Nodup) (h : Hash) :
    h ∉ l.drop ((l.takeWhile (· != h)).length + 1) := by
  induction l with
  | nil => simp
  | cons a r ih =>
    rw [List.nodup_cons] at hnd
    by_cases e : a = h
    · subst e
      have : ((a :: r).takeWhile (· != a)) = [] := by simp [List.takeWhile]
      rw [this]
      simpa using hnd.1
    · have e' : (a != h) = true := by simpa using e
      simp only [List.takeWhile, e', List.length_cons, List.drop_succ_cons]
      exact ih hnd.2

/-- Invalidating a block of the active chain (whose members are not marked invalid and occur once —
true after every delivery history, see `views_agree`) always ends with the invalidated block OFF the
active chain, whatever happens with the attempt to activate another tip. -/
theorem invalidate_excludes (s : State) (h : Hash) (c : Option Hash) (n : Node)
    (hl : lookup s.idx h = some n) (hh : n.height ≠ 0)
    (hnd : s.best.Nodup) (hk : ∀ x ∈ s.best, (s.status x).knownInvalid = false)
    (hb : s.best.contains h = true) :
    (invalidate s h c).1.best.contains h = false := by
  have hhb : h ∈ s.best := by simpa using hb
  have hkh : (s.status h).knownInvalid = false := hk h hhb
  unfold invalidate
  simp only [hl]
  have hh' : (n.height == 0) = false := by simpa using hh
  simp only [hh', Bool.false_eq_true, if_false, hkh]
  generalize hs0 : s.setSt h (fun t => { t with failed := true, valid := false }) = s0
  have hb0 : s0.best = s.best := by rw [← hs0]; rfl
  have hi0 : s0.idx = s.idx := by rw [← hs0]; rfl
  have hst0 : ∀ k, s0.status k = if h = k then { s.status h with failed := true, valid := false } else s.status k := by
    intro k; rw [← hs0, status_setSt]
  simp only [hb0, hb, Bool.not_true, Bool.false_eq_true, if_false]
  -- nothing is filtered out of the detach list
  have hfil : (s.best.takeWhile (· != h)).filter (fun x => !(s0.status x).knownInvalid) = s.best.takeWhile (· != h) := by
    apply filter_eq_self_of_all
    intro x hx
    have hxb : x ∈ s.best := (List.takeWhile_sublist _).subset hx
    have hxh : x ≠ h := by
      have := mem_takeWhile_imp _ _ hx
      simpa using this
    rw [hst0]; simp only [Ne.symm hxh, if_false]
    rw [hk x hxb]; rfl
  rw [hfil]
  generalize hab : s.best.takeWhile (· != h) = above
  have habh : h ∉ above := by
    rw [← hab]; intro hm
    have := mem_takeWhile_imp _ _ hm
    simp at this
  obtain ⟨hs1st, hs1b, hs1i⟩ := foldl_setSt_status (f := fun t => { t with invalidAnc := true, valid := false }) s0 h habh
  generalize (above.foldl (fun s x => s.setSt x (fun t => { t with invalidAnc := true, valid := false })) s0) = s1 at hs1st hs1b hs1i ⊢
  -- the detach step
  have hre : ∃ s2, reorganize s1 (above ++ [h]) [] = (s2, VR.ok) ∧
      s2.best = s1.best.drop (above ++ [h]).length ∧ (∀ k, s2.status k = s1.status k) := by
    refine ⟨(reorganize s1 (above ++ [h]) []).1, ?_, ?_, ?_⟩
    · simp [reorganize, verify]
    · simp [reorganize, verify]
    · intro k; simp [reorganize, verify, State.status]
  obtain ⟨s2, hre2, hb2', hst2'⟩ := hre
  rw [hre2]
  simp only []
  have hb2 : s2.best = s.best.drop ((s.best.takeWhile (· != h)).length + 1) := by
    rw [hb2']; simp only [hs1b, hb0, List.length_append, List.length_cons, List.length_nil, hab]
  have hnot2 : h ∉ s2.best := by rw [hb2]; exact not_mem_tail_dropWhile hnd h
  have hst2 : (s2.status h).knownInvalid = true := by
    rw [hst2', hs1st, hst0]; simp [Status.knownInvalid]
  have hfin : ∀ s' : State, s'.best = s2.best → s'.best.contains h = false := by
    intro s' e; rw [e]; simpa using hnot2
  split
  · exact hfin s2 rfl
  · rename_i t _
    split
    · exact hfin s2 rfl
    · -- the attempt to activate tip t
      have hsc := sameChain_getReorgNodes s2 t
      have hfe := flagExt_getReorgNodes s2 t
      -- the attach list never contains h
      have hatt : ∀ m ∈ (getReorgNodes s2 t).2.2, m.blk.hash ≠ h := by
        unfold getReorgNodes
        split
        · intro m hm; cases hm
        · simp only []
          split
          · intro m hm; cases hm
          · rename_i hgood
            intro m hm e
            have hm' : m ∈ branch s2.best s2.idx t.blk.hash := List.mem_reverse.mp hm
            have := takeWhile_all_of_length _ _ hgood m hm'
            rw [e, hst2] at this
            cases this
      generalize getReorgNodes s2 t = g at hsc hfe hatt ⊢
      obtain ⟨s3, detach, attach⟩ := g
      simp only [] at hsc hfe hatt ⊢
      unfold reorganize
      have hv := sameChain_verify s3 attach
      generalize verify s3 attach = vres at hv ⊢
      obtain ⟨s4, vr⟩ := vres
      cases vr with
      | rule => simp only []; exact hfin s4 (hv.2.1.trans hsc.2.1)
      | other => simp only []; exact hfin s4 (hv.2.1.trans hsc.2.1)
      | ok =>
        simp only []
        have hb4 : s4.best = s2.best := hv.2.1.trans hsc.2.1
        simp only [List.contains_eq_mem, List.mem_append, List.mem_reverse, List.mem_map, decide_eq_false_iff_not,
          not_or]
        refine ⟨?_, ?_⟩
        · rintro ⟨m, hm, e⟩; exact hatt m hm e
        · intro hm
          apply hnot2
          rw [← hb4]
          exact List.mem_of_mem_drop hm

theorem pathOK_nodup {U D : List BlockAbs} {s : State} (hc : CInv U D s) {l : List Hash} (hp : PathOK s l) :
    l.Nodup := by
  have hpl := fun l' (hp' : PathOK s l') => (pathOK_plain hc hp').2.2.1
  induction hp with
  | base => simp
  | @cons c p r n h0 hl hpar hd hv hr ih =>
    rw [List.nodup_cons]
    refine ⟨?_, ih⟩
    intro hm
    obtain ⟨j, hj⟩ := List.mem_iff_getElem?.mp hm
    obtain ⟨n1, hn1, hh1⟩ := hpl _ (PathOK.cons h0 hl hpar hd hv hr) 0 c (by simp)
    obtain ⟨n2, hn2, hh2⟩ := hpl _ hr j c hj
    rw [hn1] at hn2; cases hn2
    simp only [List.length_cons] at hh1 hh2
    omega

/-- after a delivery history, invalidating any non-genesis block of the active chain takes it off
the active chain -/
theorem run_invalidate_excludes (ops : List Op) (h : Hash) (c : Option Hash) (hdo : deliveryOnly ops)
    (hwf : WF (mentioned ops)) (hb : (run ops).best.contains h = true) (h0 : h ≠ 0) :
    (run (ops ++ [.invalidate h c])).best.contains h = false := by
  obtain ⟨D', _, hi⟩ := run_inv ops hdo hwf
  have hr : run (ops ++ [.invalidate h c]) = (step (run ops) (.invalidate h c)).1 := by
    unfold run; rw [runFrom_append]; rfl
  have hhb : h ∈ (run ops).best := by simpa using hb
  obtain ⟨_, _, _, hflags⟩ := pathOK_plain hi.c hi.c.path
  obtain ⟨n, hl⟩ := hi.c.dIdx h (hflags h hhb).1
  obtain ⟨_, p, _, _, hht⟩ := idxOK_node hi.c.idx hl h0
  have := invalidate_excludes (run ops) h c n hl (by omega) (pathOK_nodup hi.c hi.c.path)
    (fun x hx => (hflags x hx).2.2) hb
  rw [hr]
  simp only [step]
  generalize invalidate (run ops) h c = r at this ⊢
  obtain ⟨s1, ok⟩ := r
  cases ok <;> exact this

theorem processHeaderCore_lookup_mono (s : State) (b : BlockAbs) (h : Hash) (n : Node)
    (hl : lookup s.idx h = some n) : lookup (processHeaderCore s b).1.idx h = some n := by
  unfold processHeaderCore
  split
  · exact hl
  · split
    · exact hl
    · split
      · split <;> exact hl
      · rename_i hnone
        split
        · exact hl
        · exact lookup_cons_of_some hnone hl

theorem processHeader_lookup_mono (s : State) (b : BlockAbs) (h : Hash) (n : Node)
    (hl : lookup s.idx h = some n) : lookup (processHeader s b).1.idx h = some n := by
  obtain ⟨x, hx⟩ := processHeader_shape s b
  rw [hx]
  exact processHeaderCore_lookup_mono s b h n hl

/-- first-seen rule over any number of further deliveries -/
theorem runFrom_adv {U : List BlockAbs} (hwf : WF U) :
    ∀ (ops : List Op) (D : List BlockAbs) (s : State), deliveryOnly ops → (∀ x ∈ mentioned ops, x ∈ U) →
    (∀ x ∈ D, x ∈ U) → Inv U D [] [] s → Adv s (runFrom s ops) := by
  intro ops
  induction ops with
  | nil => intro D s _ _ _ _; exact adv_refl s
  | cons o r ih =>
    intro D s hdo hm hDU hi
    cases o with
    | block b =>
      have hbU : b ∈ U := hm b (by simp [mentioned])
      obtain ⟨h1, h2⟩ := processBlock_spec hwf hDU hbU hi
      have := ih (b :: D) (step s (.block b)).1 hdo
        (fun x hx => hm x (by simp [mentioned, hx]))
        (by intro x hx; simp only [List.mem_cons] at hx; rcases hx with hx | hx
            · subst hx; exact hbU
            · exact hDU x hx)
        h1
      exact adv_trans h2 this
    | header b =>
      have hbU : b ∈ U := hm b (by simp [mentioned])
      have h1 := processHeader_spec hwf hbU hi
      have h2 : Adv s (step s (.header b)).1 :=
        ⟨Or.inl (processHeader_best s b), fun h n hl => processHeader_lookup_mono s b h n hl⟩
      have := ih D (step s (.header b)).1 hdo (fun x hx => hm x (by simp [mentioned, hx])) hDU h1
      exact adv_trans h2 this
    | invalidate h c => exact absurd hdo (by simp [deliveryOnly])
    | reconsider h c => exact absurd hdo (by simp [deliveryOnly])

theorem run_first_seen_multi (ops more : List Op) (hdo : deliveryOnly (ops ++ more))
    (hwf : WF (mentioned (ops ++ more))) :
    (run (ops ++ more)).best = (run ops).best ∨
      (run ops).wsum (run ops).tip < (run (ops ++ more)).wsum (run (ops ++ more)).tip := by
  obtain ⟨hd1, hd2⟩ := deliveryOnly_append hdo
  have hm1 : ∀ x ∈ mentioned ops, x ∈ mentioned (ops ++ more) := by
    intro x hx; rw [mentioned_append]; exact List.mem_append_left _ hx
  have hm2 : ∀ x ∈ mentioned more, x ∈ mentioned (ops ++ more) := by
    intro x hx; rw [mentioned_append]; exact List.mem_append_right _ hx
  obtain ⟨D', h1, hi⟩ := run_inv_U hwf ops hd1 hm1
  have hDU : ∀ x ∈ D', x ∈ mentioned (ops ++ more) :=
    fun x hx => hm1 x (delivered_sub_mentioned ops x ((h1 x).mp hx))
  have hr : run (ops ++ more) = runFrom (run ops) more := by unfold run; rw [runFrom_append]
  rw [hr]
  exact (runFrom_adv hwf more D' (run ops) hd2 hm2 hDU hi).1

end Lemmas
end BV.C02
