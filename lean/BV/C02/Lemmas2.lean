/-
C02 helper lemmas, part 2: the index, branches, verification of an attach list.
-/
import BV.C02.Lemmas
namespace BV.C02
namespace Lemmas

/-! ### lookups in the insertion-ordered index -/

theorem lookup_hash {idx : List Node} {h : Hash} {n : Node} (hl : lookup idx h = some n) : n.blk.hash = h := by
  unfold lookup at hl
  have := List.find?_some hl
  simpa using this

theorem lookup_mem {idx : List Node} {h : Hash} {n : Node} (hl : lookup idx h = some n) : n ∈ idx := by
  unfold lookup at hl
  exact List.mem_of_find?_eq_some hl

theorem lookup_cons (n : Node) (rest : List Node) (h : Hash) :
    lookup (n :: rest) h = if n.blk.hash = h then some n else lookup rest h := by
  unfold lookup
  by_cases hk : n.blk.hash = h
  · simp [List.find?, hk]
  · have : (n.blk.hash == h) = false := by simpa using hk
    simp [List.find?, this, hk]

/-- a fresh node on top does not disturb older lookups -/
theorem lookup_cons_of_some {n : Node} {rest : List Node} {h : Hash} {x : Node}
    (hf : lookup rest n.blk.hash = none) (hl : lookup rest h = some x) : lookup (n :: rest) h = some x := by
  rw [lookup_cons]
  by_cases hk : n.blk.hash = h
  · rw [hk] at hf; rw [hf] at hl; cases hl
  · simp [hk, hl]

/-- the index is genesis-rooted, hashes are unique, every node's parent was indexed before it, and
cumulative work / height are the sums along the parent links; all blocks come from `U`. -/
inductive IdxOK (U : List BlockAbs) : List Node → Prop where
  | base : IdxOK U [genesisNode]
  | cons {n p : Node} {rest : List Node} : IdxOK U rest → n.blk.hash ≠ 0 → lookup rest n.blk.hash = none →
      n.blk ∈ U → lookup rest n.blk.parent = some p → n.workSum = p.workSum + n.blk.work →
      n.height = p.height + 1 → IdxOK U (n :: rest)

theorem idxOK_genesis {U : List BlockAbs} {idx : List Node} (h : IdxOK U idx) : lookup idx 0 = some genesisNode := by
  induction h with
  | base => rfl
  | cons _ hn _ _ _ _ _ ih =>
    rw [lookup_cons]
    simp [hn, ih]

theorem idxOK_node {U : List BlockAbs} {idx : List Node} (hi : IdxOK U idx) {h : Hash} {n : Node}
    (hl : lookup idx h = some n) (h0 : h ≠ 0) :
    n.blk ∈ U ∧ ∃ p, lookup idx n.blk.parent = some p ∧ n.workSum = p.workSum + n.blk.work ∧
      n.height = p.height + 1 := by
  induction hi with
  | base =>
    rw [lookup_cons] at hl
    by_cases hk : genesisNode.blk.hash = h
    · exact absurd hk.symm h0
    · simp [hk, lookup] at hl
  | @cons m p rest _ hm hf hu hp hw hh ih =>
    rw [lookup_cons] at hl
    by_cases hk : m.blk.hash = h
    · simp [hk] at hl
      subst hl
      exact ⟨hu, p, lookup_cons_of_some hf hp, hw, hh⟩
    · simp [hk] at hl
      obtain ⟨a, q, b, c, d⟩ := ih hl
      exact ⟨a, q, lookup_cons_of_some hf b, c, d⟩

theorem idxOK_genesis_only {U : List BlockAbs} {idx : List Node} (hi : IdxOK U idx) {n : Node}
    (hl : lookup idx 0 = some n) : n = genesisNode := by
  rw [idxOK_genesis hi] at hl; cases hl; rfl

/-! ### witnesses of invalidity, good paths -/

/-- some block on the path from `h` to genesis (inclusive) fails its connect-time check -/
inductive IW (idx : List Node) : Hash → Prop where
  | failed {h : Hash} {n : Node} : lookup idx h = some n → n.blk.connOk = false → IW idx h
  | anc {h : Hash} {n : Node} : lookup idx h = some n → IW idx n.blk.parent → IW idx h

/-- every block from `h` to genesis is stored with its data and passes its connect-time check -/
inductive GoodPath (s : State) : Hash → Prop where
  | gen : GoodPath s 0
  | step {h : Hash} {n : Node} : h ≠ 0 → lookup s.idx h = some n → (s.status h).data = true →
      n.blk.connOk = true → GoodPath s n.blk.parent → GoodPath s h

theorem iw_cons {n : Node} {rest : List Node} (hf : lookup rest n.blk.hash = none) {h : Hash}
    (hw : IW rest h) : IW (n :: rest) h := by
  induction hw with
  | failed hl hc => exact IW.failed (lookup_cons_of_some hf hl) hc
  | anc hl _ ih => exact IW.anc (lookup_cons_of_some hf hl) ih

theorem iw_not_good {U : List BlockAbs} {s : State} (hi : IdxOK U s.idx) {h : Hash} (hw : IW s.idx h) : ¬ GoodPath s h := by
  induction hw with
  | @failed h n hl hc =>
    intro hg
    cases hg with
    | gen =>
      have := idxOK_genesis_only hi hl
      subst this
      simp [genesisNode, genesisBlk] at hc
    | step _ hl' _ hc' _ =>
      rw [hl] at hl'; cases hl'
      rw [hc] at hc'; cases hc'
  | @anc h n hl _ ih =>
    intro hg
    cases hg with
    | gen =>
      have := idxOK_genesis_only hi hl
      subst this
      exact ih GoodPath.gen
    | step _ hl' _ _ hp =>
      rw [hl] at hl'; cases hl'
      exact ih hp

/-! ### segments of the tree: the branch between a node and the active chain -/

/-- `Seg idx h l f`: `l` lists the nodes from `h` down the parent links, `f` is the parent of the last -/
inductive Seg (idx : List Node) : Hash → List Node → Hash → Prop where
  | nil {h : Hash} : Seg idx h [] h
  | cons {h : Hash} {n : Node} {r : List Node} {f : Hash} :
      lookup idx h = some n → Seg idx n.blk.parent r f → Seg idx h (n :: r) f

theorem seg_cons_idx {n : Node} {rest : List Node} (hf : lookup rest n.blk.hash = none) {h f : Hash} {l : List Node}
    (hs : Seg rest h l f) : Seg (n :: rest) h l f := by
  induction hs with
  | nil => exact Seg.nil
  | cons hl _ ih => exact Seg.cons (lookup_cons_of_some hf hl) ih

theorem branch_spec {U : List BlockAbs} {idx : List Node} (hi : IdxOK U idx) (best : List Hash)
    (h0 : best.contains 0 = true) (h : Hash) (hh : (lookup idx h).isSome = true) :
    ∃ f, Seg idx h (branch best idx h) f ∧ best.contains f = true ∧
      ∀ m ∈ branch best idx h, best.contains m.blk.hash = false := by
  induction hi generalizing h with
  | base =>
    have : h = 0 := by
      rw [lookup_cons] at hh
      by_cases hk : genesisNode.blk.hash = h
      · exact hk.symm
      · simp [hk, lookup] at hh
    subst this
    refine ⟨0, ?_, h0, ?_⟩
    · simp only [branch, h0, ↓reduceIte]; exact Seg.nil
    · simp only [branch, h0, ↓reduceIte]; intro m hm; cases hm
  | @cons n p rest _ hn hf hu hp hw hht ih =>
    unfold branch
    by_cases hb : best.contains h = true
    · simp only [hb, if_true]
      exact ⟨h, Seg.nil, hb, by simp⟩
    · have hb' : best.contains h = false := by simpa using hb
      simp only [hb', Bool.false_eq_true, if_false]
      by_cases hk : n.blk.hash = h
      · have hk' : (n.blk.hash == h) = true := by simpa using hk
        simp only [hk', if_true]
        obtain ⟨f, hs, hfb, hm⟩ := ih n.blk.parent (by rw [hp]; rfl)
        refine ⟨f, ?_, hfb, ?_⟩
        · apply Seg.cons (n := n)
          · rw [lookup_cons]; simp [hk]
          · exact seg_cons_idx hf hs
        · intro m hm'
          cases hm' with
          | head => rw [hk]; exact hb'
          | tail _ hm'' => exact hm m hm''
      · have hk' : (n.blk.hash == h) = false := by simpa using hk
        simp only [hk', Bool.false_eq_true, if_false]
        have hh' : (lookup rest h).isSome = true := by
          rw [lookup_cons] at hh; simpa [hk] using hh
        obtain ⟨f, hs, hfb, hm⟩ := ih h hh'
        exact ⟨f, seg_cons_idx hf hs, hfb, hm⟩

theorem getLast?_cons_some {α : Type} (a : α) (r : List α) : ∃ x, (a :: r).getLast? = some x := by
  cases hx : (a :: r).getLast? with
  | none => simp at hx
  | some m => exact ⟨m, rfl⟩

theorem seg_fork {idx : List Node} {h f : Hash} {l : List Node} (hs : Seg idx h l f) :
    forkOf l h = f := by
  unfold forkOf
  induction hs with
  | nil => rfl
  | @cons h n r f hl hs ih =>
    cases r with
    | nil => cases hs; rfl
    | cons a r' =>
      have : (n :: a :: r').getLast? = (a :: r').getLast? := by simp [List.getLast?_cons_cons]
      obtain ⟨x, hx⟩ := getLast?_cons_some a r'
      rw [this, hx]
      rw [hx] at ih
      exact ih

theorem seg_head {idx : List Node} {h f : Hash} {n : Node} {l : List Node} (hs : Seg idx h (n :: l) f) :
    n.blk.hash = h ∧ lookup idx h = some n := by
  cases hs with
  | cons hl _ => exact ⟨lookup_hash hl, hl⟩

theorem seg_mem {idx : List Node} {h f : Hash} {l : List Node} (hs : Seg idx h l f) :
    ∀ m ∈ l, lookup idx m.blk.hash = some m := by
  induction hs with
  | nil => intro m hm; cases hm
  | cons hl _ ih =>
    intro m hm
    cases hm with
    | head => rw [lookup_hash hl]; exact hl
    | tail _ hm' => exact ih m hm'

/-- fork-first reading of a segment: each node's parent is the previous node (the first one's is `f`) -/
inductive Up (idx : List Node) : Hash → List Node → Prop where
  | nil {f : Hash} : Up idx f []
  | cons {f : Hash} {n : Node} {r : List Node} : lookup idx n.blk.hash = some n → n.blk.parent = f →
      Up idx n.blk.hash r → Up idx f (n :: r)

def topOf (f : Hash) (l : List Node) : Hash := match l.getLast? with | some m => m.blk.hash | none => f

theorem up_snoc {idx : List Node} {f : Hash} {l : List Node} (hu : Up idx f l) {x : Node}
    (hx : lookup idx x.blk.hash = some x) (hp : x.blk.parent = topOf f l) : Up idx f (l ++ [x]) := by
  induction hu with
  | nil => simp [topOf] at hp; exact Up.cons hx hp Up.nil
  | @cons f n r hl hpar hr ih =>
    have : topOf n.blk.hash r = topOf f (n :: r) := by
      unfold topOf
      cases r with
      | nil => simp
      | cons a r' =>
        obtain ⟨x, hx⟩ := getLast?_cons_some a r'
        have e : (n :: a :: r').getLast? = (a :: r').getLast? := by simp [List.getLast?_cons_cons]
        rw [e, hx]
    exact Up.cons hl hpar (ih (by rw [this]; exact hp))

theorem seg_up {idx : List Node} {h f : Hash} {l : List Node} (hs : Seg idx h l f) :
    Up idx f l.reverse ∧ topOf f l.reverse = h := by
  induction hs with
  | nil => exact ⟨Up.nil, rfl⟩
  | @cons h n r f hl hs ih =>
    obtain ⟨hu, ht⟩ := ih
    have hn := lookup_hash hl
    refine ⟨?_, ?_⟩
    · rw [List.reverse_cons]
      apply up_snoc hu
      · rw [hn]; exact hl
      · rw [ht]
    · rw [List.reverse_cons]; simp [topOf, hn]

/-! ### flag soundness -/

/-- status flags tell the truth about the oracle bits -/
structure FlagsSound (s : State) : Prop where
  vOk : ∀ h n, (s.status h).valid = true → lookup s.idx h = some n → n.blk.connOk = true
  kIW : ∀ h, (s.status h).knownInvalid = true → IW s.idx h

theorem fs_markValid {s : State} (hf : FlagsSound s) {h : Hash} {n : Node} (hl : lookup s.idx h = some n)
    (hc : n.blk.connOk = true) : FlagsSound (s.markValid h) := by
  constructor
  · intro k m hv hk
    unfold State.markValid at hv hk
    rw [status_setSt] at hv
    simp only [setSt_idx] at hk
    by_cases e : h = k
    · subst e; rw [hl] at hk; cases hk; exact hc
    · simp [e] at hv; exact hf.vOk k m hv hk
  · intro k hk
    unfold State.markValid at hk ⊢
    rw [status_setSt] at hk
    simp only [setSt_idx]
    by_cases e : h = k
    · subst e; simp [Status.knownInvalid] at hk
      exact hf.kIW h (by simpa [Status.knownInvalid] using hk)
    · simp [e] at hk; exact hf.kIW k hk

theorem fs_markFailed {s : State} (hf : FlagsSound s) {h : Hash} {n : Node} (hl : lookup s.idx h = some n)
    (hc : n.blk.connOk = false) : FlagsSound (s.markFailed h) := by
  constructor
  · intro k m hv hk
    unfold State.markFailed at hv hk
    rw [status_setSt] at hv
    simp only [setSt_idx] at hk
    by_cases e : h = k
    · subst e; simp at hv; exact hf.vOk h m hv hk
    · simp [e] at hv; exact hf.vOk k m hv hk
  · intro k hk
    unfold State.markFailed at hk ⊢
    rw [status_setSt] at hk
    simp only [setSt_idx]
    by_cases e : h = k
    · subst e; exact IW.failed hl hc
    · simp [e] at hk; exact hf.kIW k hk

theorem fs_markInvAnc {s : State} (hf : FlagsSound s) {h : Hash} (hw : IW s.idx h) : FlagsSound (s.markInvAnc h) := by
  constructor
  · intro k m hv hk
    unfold State.markInvAnc at hv hk
    rw [status_setSt] at hv
    simp only [setSt_idx] at hk
    by_cases e : h = k
    · subst e; simp at hv; exact hf.vOk h m hv hk
    · simp [e] at hv; exact hf.vOk k m hv hk
  · intro k hk
    unfold State.markInvAnc at hk ⊢
    rw [status_setSt] at hk
    simp only [setSt_idx]
    by_cases e : h = k
    · subst e; exact hw
    · simp [e] at hk; exact hf.kIW k hk

theorem markAll_idx (s : State) (l : List Hash) : (markAllInvAnc s l).idx = s.idx := (sameChain_markAll s l).1.1

theorem fs_markAll {s : State} (hf : FlagsSound s) {l : List Hash} (hw : ∀ x ∈ l, IW s.idx x) :
    FlagsSound (markAllInvAnc s l) := by
  induction l generalizing s with
  | nil => exact hf
  | cons h r ih =>
    unfold markAllInvAnc
    apply ih (fs_markInvAnc hf (hw h (by simp)))
    intro x hx
    show IW (s.markInvAnc h).idx x
    unfold State.markInvAnc; simp only [setSt_idx]
    exact hw x (by simp [hx])

theorem markAll_known (s : State) (l : List Hash) : ∀ x ∈ l, ((markAllInvAnc s l).status x).knownInvalid = true := by
  induction l generalizing s with
  | nil => intro x hx; cases hx
  | cons h r ih =>
    intro x hx
    unfold markAllInvAnc
    cases hx with
    | head =>
      apply (flagExt_markAll (s.markInvAnc h) r h).2.2.2
      unfold State.markInvAnc; rw [status_setSt]; simp [Status.knownInvalid]
    | tail _ hx' => exact ih _ x hx'

/-- every node of an upward chain that starts below an invalid point is invalid -/
theorem iw_up {idx : List Node} {f : Hash} {l : List Node} (hu : Up idx f l) (hw : IW idx f) :
    ∀ m ∈ l, IW idx m.blk.hash := by
  induction hu with
  | nil => intro m hm; cases hm
  | @cons f n r hl hp _ ih =>
    have hn : IW idx n.blk.hash := IW.anc hl (by rw [hp]; exact hw)
    intro m hm
    cases hm with
    | head => exact hn
    | tail _ hm' => exact ih hn m hm'

theorem verify_idx (s : State) (l : List Node) : (verify s l).1.idx = s.idx := (sameChain_verify s l).1.1

theorem fs_verify {s : State} (hf : FlagsSound s) {f : Hash} {l : List Node} (hu : Up s.idx f l) :
    FlagsSound (verify s l).1 := by
  induction l generalizing s f with
  | nil => exact hf
  | cons n r ih =>
    cases hu with
    | cons hl hp hr =>
      unfold verify
      split
      · exact hf
      · split
        · exact ih hf hr
        · split
          · rename_i hc
            apply ih (fs_markValid hf hl hc) (f := n.blk.hash)
            unfold State.markValid; simp only [setSt_idx]; exact hr
          · rename_i hc
            have hc' : n.blk.connOk = false := by simpa using hc
            apply fs_markAll (fs_markFailed hf hl hc')
            intro x hx
            unfold State.markFailed; simp only [setSt_idx]
            obtain ⟨m, hm, rfl⟩ := List.mem_map.mp hx
            exact iw_up hr (IW.failed hl hc') m hm

theorem verify_ok {s : State} {l : List Node} (h : (verify s l).2 = .ok) :
    ∀ m ∈ l, ((verify s l).1.status m.blk.hash).valid = true ∧ ((verify s l).1.status m.blk.hash).data = true := by
  induction l generalizing s with
  | nil => intro m hm; cases hm
  | cons n r ih =>
    unfold verify at h ⊢
    cases hdv : (s.status n.blk.hash).data with
    | false => simp [hdv] at h
    | true =>
      simp only [hdv, Bool.not_true, Bool.false_eq_true, if_false] at h ⊢
      cases hvv : (s.status n.blk.hash).valid with
      | true =>
        simp only [hvv, if_true] at h ⊢
        intro m hm
        cases hm with
        | head =>
          have := flagExt_verify s r n.blk.hash
          exact ⟨this.2.2.1 hvv, by rw [this.1]; exact hdv⟩
        | tail _ hm' => exact ih h m hm'
      | false =>
        simp only [hvv, Bool.false_eq_true, if_false] at h ⊢
        cases hcc : n.blk.connOk with
        | false => simp [hcc] at h
        | true =>
          simp only [hcc, if_true] at h ⊢
          intro m hm
          cases hm with
          | head =>
            have := flagExt_verify (s.markValid n.blk.hash) r n.blk.hash
            have h1 : ((s.markValid n.blk.hash).status n.blk.hash).valid = true := by
              unfold State.markValid; rw [status_setSt]; simp
            have h2 : ((s.markValid n.blk.hash).status n.blk.hash).data = true := by
              rw [(flagExt_markValid s n.blk.hash n.blk.hash).1]; exact hdv
            exact ⟨this.2.2.1 h1, by rw [this.1]; exact h2⟩
          | tail _ hm' => exact ih h m hm'

theorem verify_rule {s : State} {l : List Node} (h : (verify s l).2 = .rule) :
    ∃ m, l.getLast? = some m ∧ ((verify s l).1.status m.blk.hash).knownInvalid = true := by
  induction l generalizing s with
  | nil => simp [verify] at h
  | cons n r ih =>
    have lastc : ∀ (m : Node), r.getLast? = some m → (n :: r).getLast? = some m := by
      intro m hm
      cases r with
      | nil => cases hm
      | cons a r' => simpa [List.getLast?_cons_cons] using hm
    unfold verify at h ⊢
    cases hdv : (s.status n.blk.hash).data with
    | false => simp [hdv] at h
    | true =>
      simp only [hdv, Bool.not_true, Bool.false_eq_true, if_false] at h ⊢
      cases hvv : (s.status n.blk.hash).valid with
      | true =>
        simp only [hvv, if_true] at h ⊢
        obtain ⟨m, hm, hk⟩ := ih h
        exact ⟨m, lastc m hm, hk⟩
      | false =>
        simp only [hvv, Bool.false_eq_true, if_false] at h ⊢
        cases hcc : n.blk.connOk with
        | true =>
          simp only [hcc, if_true] at h ⊢
          obtain ⟨m, hm, hk⟩ := ih h
          exact ⟨m, lastc m hm, hk⟩
        | false =>
          simp only [Bool.false_eq_true, if_false]
          cases r with
          | nil =>
            refine ⟨n, rfl, ?_⟩
            simp only [List.map_nil, markAllInvAnc]
            unfold State.markFailed; rw [status_setSt]; simp [Status.knownInvalid]
          | cons a r' =>
            obtain ⟨m, hm⟩ := getLast?_cons_some a r'
            refine ⟨m, lastc m hm, ?_⟩
            apply markAll_known
            exact List.mem_map.mpr ⟨m, List.mem_of_getLast? hm, rfl⟩

theorem verify_not_other {s : State} {l : List Node} (hd : ∀ m ∈ l, (s.status m.blk.hash).data = true) :
    (verify s l).2 ≠ .other := by
  induction l generalizing s with
  | nil => simp [verify]
  | cons n r ih =>
    unfold verify
    have h1 := hd n (by simp)
    simp only [h1, Bool.not_true, Bool.false_eq_true, if_false]
    split
    · exact ih (fun m hm => hd m (by simp [hm]))
    · split
      · apply ih
        intro m hm
        rw [(flagExt_markValid s n.blk.hash m.blk.hash).1]
        exact hd m (by simp [hm])
      · simp

/-- if every node of the attach list passes its connect-time check, verification succeeds -/
theorem verify_all_ok {s : State} {l : List Node} (hd : ∀ m ∈ l, (s.status m.blk.hash).data = true)
    (hok : ∀ m ∈ l, m.blk.connOk = true) : (verify s l).2 = .ok := by
  induction l generalizing s with
  | nil => simp [verify]
  | cons a r ih =>
    unfold verify
    have h1 := hd a (by simp)
    simp only [h1, Bool.not_true, Bool.false_eq_true, if_false]
    split
    · exact ih (fun m hm => hd m (by simp [hm])) (fun m hm => hok m (by simp [hm]))
    · simp only [hok a (by simp), if_true]
      apply ih
      · intro m hm
        rw [(flagExt_markValid s a.blk.hash m.blk.hash).1]
        exact hd m (by simp [hm])
      · exact fun m hm => hok m (by simp [hm])

end Lemmas
end BV.C02
