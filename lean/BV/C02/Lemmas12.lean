/-
C02 helper lemmas, part 12: a clean restart (`restart`: only stored blocks are reloaded, the orphan pool
is empty, the best-header view restarts at the tip) keeps the safety invariant and the active chain.
-/
import BV.C02.Lemmas11
namespace BV.C02
namespace Lemmas
open Spec

theorem lookup_filter_none {idx : List Node} (p : Node → Bool) {h : Hash} (hl : lookup idx h = none) :
    lookup (idx.filter p) h = none := by
  induction idx with
  | nil => rfl
  | cons a r ih =>
    rw [lookup_cons] at hl
    by_cases e : a.blk.hash = h
    · simp [e] at hl
    · simp only [e, if_false] at hl
      simp only [List.filter]
      split
      · rw [lookup_cons]; simp only [e, if_false]; exact ih hl
      · exact ih hl

theorem lookup_filter_some {U : List BlockAbs} {idx : List Node} (hi : IdxOK U idx) (p : Node → Bool) {h : Hash} {n : Node}
    (hl : lookup idx h = some n) (hp : p n = true) : lookup (idx.filter p) h = some n := by
  induction hi with
  | base =>
    have hl' := hl
    rw [lookup_cons] at hl'
    by_cases e : genesisNode.blk.hash = h
    · simp only [e, if_true] at hl'
      cases hl'
      simp only [List.filter, hp]
      rw [lookup_cons]; simp [e]
    · simp [e, lookup] at hl'
  | @cons m q rest _ hm hf _ _ _ _ ih =>
    rw [lookup_cons] at hl
    by_cases e : m.blk.hash = h
    · simp only [e, if_true] at hl
      cases hl
      simp only [List.filter, hp]
      rw [lookup_cons]; simp [e]
    · simp only [e, if_false] at hl
      simp only [List.filter]
      split
      · rw [lookup_cons]; simp only [e, if_false]; exact ih hl
      · exact ih hl

theorem idxOK_filter_data {U D : List BlockAbs} {P : List BlockAbs} {s : State} (hs : SInv U D P s) :
    IdxOK U (s.idx.filter (fun n => (s.status n.blk.hash).data)) := by
  have hcl := hs.dClosed
  have hg := hs.gData
  have hidx := hs.idx
  generalize s.idx = idx at hidx hcl
  induction hidx with
  | base =>
    have : (s.status genesisNode.blk.hash).data = true := hg
    simp only [List.filter, this]
    exact IdxOK.base
  | @cons n p rest hr hn hf hu hp hw hh ih =>
    have hcl' : ∀ h m, (s.status h).data = true → lookup rest h = some m → h ≠ 0 → (s.status m.blk.parent).data = true := by
      intro h m hd hl h0
      exact hcl h m hd (lookup_cons_of_some hf hl) h0
    have ih' := ih hcl'
    simp only [List.filter]
    cases hd : (s.status n.blk.hash).data with
    | false => exact ih'
    | true =>
      simp only []
      have hpd : (s.status n.blk.parent).data = true :=
        hcl n.blk.hash n hd (by rw [lookup_cons]; simp) hn
      have hpp : (fun m : Node => (s.status m.blk.hash).data) p = true := by
        show (s.status p.blk.hash).data = true
        rw [lookup_hash hp]; exact hpd
      exact IdxOK.cons ih' hn (lookup_filter_none _ hf) hu (lookup_filter_some hr _ hp hpp) hw hh

theorem stOf_filter (st : List (Hash × Status)) (p : Hash → Bool) (h : Hash) :
    stOf (st.filter (fun q => p q.1)) h = if p h then stOf st h else {} := by
  induction st with
  | nil => simp [stOf]
  | cons a r ih =>
    obtain ⟨k, t⟩ := a
    simp only [List.filter]
    by_cases e : k = h
    · subst e
      cases hp : p k with
      | true => simp only [hp, stOf_cons, if_true]
      | false =>
        simp only [hp]
        rw [ih]; simp [hp]
    · cases hp : p k with
      | true =>
        simp only [stOf_cons, e, if_false]
        exact ih
      | false =>
        simp only []
        rw [ih, stOf_cons]; simp [e]

theorem status_restart (s : State) (k : Hash) :
    (restart s).status k = if (s.status k).data then s.status k else {} := by
  show stOf (s.st.filter (fun p => (s.status p.1).data)) k = _
  exact stOf_filter s.st (fun h => (s.status h).data) k

/-- a clean restart keeps the safety invariant, the active chain and the notification stream -/
theorem restart_safe {U D : List BlockAbs} {s : State} (hs : SInv U D [] s) :
    SInv U D [] (restart s) ∧ (restart s).best = s.best ∧ (restart s).notes = s.notes := by
  refine ⟨?_, rfl, rfl⟩
  have hst : ∀ k, (s.status k).data = true → (restart s).status k = s.status k := by
    intro k hk; rw [status_restart, hk]; rfl
  have hdat : ∀ k, ((restart s).status k).data = (s.status k).data := by
    intro k; rw [status_restart]
    cases hk : (s.status k).data <;> simp [hk]
  have hval : ∀ k, ((restart s).status k).valid = true → (s.status k).valid = true := by
    intro k hv; rw [status_restart] at hv
    cases hk : (s.status k).data with
    | true => simpa [hk] using hv
    | false => simp [hk] at hv
  have hlk : ∀ h n, lookup s.idx h = some n → (s.status h).data = true →
      lookup (restart s).idx h = some n := by
    intro h n hl hd
    show lookup (s.idx.filter (fun n => (s.status n.blk.hash).data)) h = some n
    apply lookup_filter_some hs.idx _ hl
    show (s.status n.blk.hash).data = true
    rw [lookup_hash hl]; exact hd
  have hlk' : ∀ h n, lookup (restart s).idx h = some n → lookup s.idx h = some n := by
    intro h n hl
    have hl' : lookup (s.idx.filter (fun n => (s.status n.blk.hash).data)) h = some n := hl
    have hm := lookup_mem hl'
    have hmem := (List.mem_filter.mp hm).1
    have := idxOK_lookup_of_mem hs.idx hmem
    rw [lookup_hash hl'] at this
    exact this
  constructor
  · exact idxOK_filter_data hs
  · rw [hdat]; exact hs.gData
  · intro h hh
    rw [hdat] at hh
    obtain ⟨n, hn⟩ := hs.dIdx h hh
    exact ⟨n, hlk h n hn hh⟩
  · intro h n hh hl h0
    rw [hdat] at hh ⊢
    exact hs.dClosed h n hh (hlk' h n hl) h0
  · intro h n hh hl h0
    rw [hdat] at hh
    exact hs.dD h n hh (hlk' h n hl) h0
  · intro h n hv hl
    exact hs.vOk h n (hval h hv) (hlk' h n hl)
  · show PathOK' (restart s) s.best
    have hbd := pathOK'_data hs.gData hs.path
    apply pathOK'_mono _ _ hs.path
    · intro h hh n hn; exact hlk h n hn (hbd h hh)
    · intro h _ hd; rw [hdat]; exact hd
  · intro w hw; unfold Pool restart at hw; simp at hw
  · unfold Pool restart; simp

/-- any history, a clean restart, any further history -/
theorem run_restart_safe (ops1 ops2 : List Op) (hwf : WF (mentioned (ops1 ++ ops2))) :
    ∃ D', (∀ x, x ∈ D' ↔ x ∈ delivered (ops1 ++ ops2)) ∧
      SInv (mentioned (ops1 ++ ops2)) D' [] (runFrom (restart (run ops1)) ops2) := by
  have hm1 : ∀ x ∈ mentioned ops1, x ∈ mentioned (ops1 ++ ops2) := by
    intro x hx; rw [mentioned_append]; exact List.mem_append_left _ hx
  have hm2 : ∀ x ∈ mentioned ops2, x ∈ mentioned (ops1 ++ ops2) := by
    intro x hx; rw [mentioned_append]; exact List.mem_append_right _ hx
  obtain ⟨D1, h1, hs1⟩ := run_safe hwf ops1 [] init hm1 (by intro x hx; cases hx) (sinv_init _)
  have hDU : ∀ x ∈ D1, x ∈ mentioned (ops1 ++ ops2) := by
    intro x hx
    have := (h1 x).mp hx
    simp only [List.not_mem_nil, false_or] at this
    exact hm1 x (delivered_sub_mentioned ops1 x this)
  obtain ⟨D2, h2, hs2⟩ := run_safe hwf ops2 D1 (restart (run ops1)) hm2 hDU (restart_safe hs1).1
  refine ⟨D2, ?_, hs2⟩
  intro x
  rw [h2, h1, delivered_append]
  simp

/-! ### the full invariant across a restart (blocks that were only pooled as orphans are forgotten) -/

theorem iw_filter {U D : List BlockAbs} {P : List BlockAbs} {s : State} (hs : SInv U D P s) {h : Hash}
    (hw : IW s.idx h) (hd : (s.status h).data = true) :
    IW (s.idx.filter (fun n => (s.status n.blk.hash).data)) h := by
  induction hw with
  | @failed h n hl hc =>
    refine IW.failed (lookup_filter_some hs.idx _ hl ?_) hc
    show (s.status n.blk.hash).data = true
    rw [lookup_hash hl]; exact hd
  | @anc h n hl _ ih =>
    have hl' : lookup (s.idx.filter (fun n => (s.status n.blk.hash).data)) h = some n := by
      refine lookup_filter_some hs.idx _ hl ?_
      show (s.status n.blk.hash).data = true
      rw [lookup_hash hl]; exact hd
    by_cases h0 : h = 0
    · subst h0
      have := idxOK_genesis_only hs.idx hl
      subst this
      exact IW.anc hl' (ih hd)
    · exact IW.anc hl' (ih (hs.dClosed h n hd hl h0))

theorem restart_inv {U D : List BlockAbs} {s : State} (hi : Inv U D [] [] s) :
    Inv U (D.filter (fun b => (s.status b.hash).data)) [] [] (restart s) := by
  have hs := sinv_of_inv hi
  obtain ⟨hsr, _, _⟩ := restart_safe hs
  have hdat : ∀ k, ((restart s).status k).data = (s.status k).data := by
    intro k; rw [status_restart]
    cases hk : (s.status k).data <;> simp [hk]
  have hstd : ∀ k, (s.status k).data = true → (restart s).status k = s.status k := by
    intro k hk; rw [status_restart, hk]; rfl
  have hlk : ∀ h n, lookup s.idx h = some n → (s.status h).data = true →
      lookup (restart s).idx h = some n := by
    intro h n hl hd
    show lookup (s.idx.filter (fun n => (s.status n.blk.hash).data)) h = some n
    apply lookup_filter_some hs.idx _ hl
    show (s.status n.blk.hash).data = true
    rw [lookup_hash hl]; exact hd
  have hlk' : ∀ h n, lookup (restart s).idx h = some n → lookup s.idx h = some n := by
    intro h n hl
    have hl' : lookup (s.idx.filter (fun n => (s.status n.blk.hash).data)) h = some n := hl
    have hm := lookup_mem hl'
    have hmem := (List.mem_filter.mp hm).1
    have := idxOK_lookup_of_mem hs.idx hmem
    rw [lookup_hash hl'] at this
    exact this
  have hgp : ∀ h, GoodPath (restart s) h → GoodPath s h := by
    intro h hg
    induction hg with
    | gen => exact GoodPath.gen
    | step h0 hl hd hc _ ih => exact GoodPath.step h0 (hlk' _ _ hl) (by rw [← hdat]; exact hd) hc ih
  have hbd := pathOK_data hi.c.gData hi.c.path
  refine ⟨⟨hsr.idx, hsr.gData, hsr.dIdx, hsr.dClosed, ?_, ⟨hsr.vOk, ?_⟩, ?_⟩, ?_, ?_, ?_, ?_, ?_⟩
  · intro h n hh hl h0
    have hh' : (s.status h).data = true := by rw [← hdat]; exact hh
    obtain ⟨a, b⟩ := hi.c.dD h n hh' (hlk' h n hl) h0
    refine ⟨List.mem_filter.mpr ⟨a, ?_⟩, b⟩
    show (s.status n.blk.hash).data = true
    rw [lookup_hash (hlk' h n hl)]; exact hh'
  · intro h hk
    have hd : (s.status h).data = true := by
      cases hx : (s.status h).data with
      | true => rfl
      | false => rw [status_restart, hx] at hk; simp [Status.knownInvalid] at hk
    rw [hstd h hd] at hk
    exact iw_filter hs (hi.c.fs.kIW h hk) hd
  · show PathOK (restart s) s.best
    apply pathOK_mono _ _ _ hi.c.path
    · intro h hh n hn; exact hlk h n hn (hbd h hh)
    · intro h _ hd; rw [hdat]; exact hd
    · intro h hh hv; rw [hstd h (hbd h hh)]; exact hv
  · intro h n hl hg
    have htip : (restart s).tip = s.tip := rfl
    have hz := hi.c.path
    have htd : (s.status s.tip).data = true := by
      cases hb : s.best with
      | nil => rw [hb] at hz; cases hz
      | cons t r =>
        have : s.tip = t := by unfold State.tip; rw [hb]; rfl
        rw [this]; exact hbd t (by rw [hb]; simp)
    have hw : (restart s).wsum (restart s).tip = s.wsum s.tip := by
      rw [htip]
      obtain ⟨m, hm⟩ := hi.c.dIdx s.tip htd
      rw [wsum_eq hm, wsum_eq (hlk _ _ hm htd)]
    rw [hw]
    exact hi.max h n (hlk' h n hl) (hgp h hg)
  · intro w hw; unfold Pool restart at hw; simp at hw
  · unfold Pool restart; simp
  · intro o ho; unfold restart at ho; simp at ho
  · intro b hb _
    left
    rw [hdat]
    exact (List.mem_filter.mp hb).2

/-- blocks of a delivery history that are stored (not merely pooled or rejected) at its end -/
def storedOf (ops : List Op) : List BlockAbs :=
  (delivered ops).filter (fun b => ((run ops).status b.hash).data)

/-- deliveries, a clean restart, more deliveries: the tip is the best chain of what survived the
restart (the stored blocks) plus what was delivered afterwards -/
theorem run_restart_isBest (ops1 ops2 : List Op) (hd1 : deliveryOnly ops1) (hd2 : deliveryOnly ops2)
    (hwf : WF (mentioned (ops1 ++ ops2)))
    (hev : (runFrom (restart (run ops1)) ops2).evicted = []) :
    IsBest (storedOf ops1 ++ delivered ops2) (runFrom (restart (run ops1)) ops2).tip := by
  have hm1 : ∀ x ∈ mentioned ops1, x ∈ mentioned (ops1 ++ ops2) := by
    intro x hx; rw [mentioned_append]; exact List.mem_append_left _ hx
  have hm2 : ∀ x ∈ mentioned ops2, x ∈ mentioned (ops1 ++ ops2) := by
    intro x hx; rw [mentioned_append]; exact List.mem_append_right _ hx
  obtain ⟨D1, h1, hi1⟩ := run_inv_U hwf ops1 hd1 hm1
  have hir := restart_inv hi1
  have hDU : ∀ x ∈ D1.filter (fun b => ((run ops1).status b.hash).data), x ∈ mentioned (ops1 ++ ops2) := by
    intro x hx
    exact hm1 x (delivered_sub_mentioned ops1 x ((h1 x).mp (List.mem_filter.mp hx).1))
  obtain ⟨D2, h2, hi2⟩ := run_spec hwf ops2 _ (restart (run ops1)) hd2 hm2 hDU hir
  have hDU2 : ∀ x ∈ D2, x ∈ mentioned (ops1 ++ ops2) := by
    intro x hx
    rcases (h2 x).mp hx with h | h
    · exact hDU x h
    · exact hm2 x (delivered_sub_mentioned ops2 x h)
  have hb := inv_isBest hwf hDU2 hi2 hev
  apply isBest_congr _ hb
  intro x
  rw [h2]
  unfold storedOf
  simp only [List.mem_append, List.mem_filter]
  constructor
  · rintro (⟨a, b⟩ | c)
    · exact Or.inl ⟨(h1 x).mp a, b⟩
    · exact Or.inr c
  · rintro (⟨a, b⟩ | c)
    · exact Or.inl ⟨(h1 x).mpr a, b⟩
    · exact Or.inr c

end Lemmas
end BV.C02
