/-
C02 helper lemmas, part 12: a clean restart (`restart`: only stored blocks are reloaded, the orphan pool
is empty, the best-header view restarts at the tip) keeps the safety invariant and the active chain.
-/
import BV.C02.Lemmas11
namespace BV.C02
namespace Lemmas
open Spec

theorem lookup_filter_none {idx : List Node} (p : Node → Bool) {h : Hash} (hl : lookup idx h = none) :
    lookup (idx.filter p) h = none := by
  induction idx with
  | nil => rfl
  | cons a r ih =>
    rw [lookup_cons] at hl
    by_cases e : a.blk.hash = h
    · simp [e] at hl
    · simp only [e, if_false] at hl
      simp only [List.filter]
      split
      · rw [lookup_cons]; simp only [e, if_false]; exact ih hl
      · exact ih hl

theorem lookup_filter_some {U : List BlockAbs} {idx : List Node} (hi : IdxOK U idx) (p : Node → Bool) {h : Hash} {n : Node}
    (hl : lookup idx h = some n) (hp : p n = true) : lookup (idx.filter p) h = some n := by
  induction hi with
  | base =>
    have hl' := hl
    rw [lookup_cons] at hl'
    by_cases e : genesisNode.blk.hash = h
    · simp only [e, if_true] at hl'
      cases hl'
      simp only [List.filter, hp]
      rw [lookup_cons]; simp [e]
    · simp [e, lookup] at hl'
  | @cons m q rest _ hm hf _ _ _ _ ih =>
    rw [lookup_cons] at hl
    by_cases e : m.blk.hash = h
    · simp only [e, if_true] at hl
      cases hl
      simp only [List.filter, hp]
      rw [lookup_cons]; simp [e]
    · simp only [e, if_false] at hl
      simp only [List.filter]
      split
      · rw [lookup_cons]; simp only [e, if_false]; exact ih hl
      · exact ih hl

theorem idxOK_filter_data {U D : List BlockAbs} {P : List BlockAbs} {s : State} (hs : SInv U D P s) :
    IdxOK U (s.idx.filter (fun n => (s.status n.blk.hash).data)) := by
  have hcl := hs.dClosed
  have hg := hs.gData
  have hidx := hs.idx
  generalize s.idx = idx at hidx hcl
  induction hidx with
  | base =>
    have : (s.status genesisNode.blk.hash).data = true := hg
    simp only [List.filter, this]
    exact IdxOK.base
  | @cons n p rest hr hn hf hu hp hw hh ih =>
    have hcl' : ∀ h m, (s.status h).data = true → lookup rest h = some m → h ≠ 0 → (s.status m.blk.parent).data = true := by
      intro h m hd hl h0
      exact hcl h m hd (lookup_cons_of_some hf hl) h0
    have ih' := ih hcl'
    simp only [List.filter]
    cases hd : (s.status n.blk.hash).data with
    | false => exact ih'
    | true =>
      simp only []
      have hpd : (s.status n.blk.parent).data = true :=
        hcl n.blk.hash n hd (by rw [lookup_cons]; simp) hn
      have hpp : (fun m : Node => (s.status m.blk.hash).data) p = true := by
        show (s.status p.blk.hash).data = true
        rw [lookup_hash hp]; exact hpd
      exact IdxOK.cons ih' hn (lookup_filter_none _ hf) hu (lookup_filter_some hr _ hp hpp) hw hh

/-- a clean restart keeps the safety invariant, the active chain and the notification stream -/
theorem restart_safe {U D : List BlockAbs} {s : State} (hs : SInv U D [] s) :
    SInv U D [] (restart s) ∧ (restart s).best = s.best ∧ (restart s).notes = s.notes := by
  refine ⟨?_, rfl, rfl⟩
  have hst : ∀ k, (restart s).status k = s.status k := fun k => rfl
  have hlk : ∀ h n, lookup s.idx h = some n → (s.status h).data = true →
      lookup (restart s).idx h = some n := by
    intro h n hl hd
    show lookup (s.idx.filter (fun n => (s.status n.blk.hash).data)) h = some n
    apply lookup_filter_some hs.idx _ hl
    show (s.status n.blk.hash).data = true
    rw [lookup_hash hl]; exact hd
  have hlk' : ∀ h n, lookup (restart s).idx h = some n → lookup s.idx h = some n := by
    intro h n hl
    have hl' : lookup (s.idx.filter (fun n => (s.status n.blk.hash).data)) h = some n := hl
    have hm := lookup_mem hl'
    have hmem := (List.mem_filter.mp hm).1
    have := idxOK_lookup_of_mem hs.idx hmem
    rw [lookup_hash hl'] at this
    exact this
  constructor
  · exact idxOK_filter_data hs
  · exact hs.gData
  · intro h hh
    obtain ⟨n, hn⟩ := hs.dIdx h hh
    exact ⟨n, hlk h n hn hh⟩
  · intro h n hh hl h0
    exact hs.dClosed h n hh (hlk' h n hl) h0
  · intro h n hh hl h0
    exact hs.dD h n hh (hlk' h n hl) h0
  · intro h n hv hl
    exact hs.vOk h n hv (hlk' h n hl)
  · show PathOK' (restart s) s.best
    have hbd := pathOK'_data hs.gData hs.path
    apply pathOK'_mono _ _ hs.path
    · intro h hh n hn; exact hlk h n hn (hbd h hh)
    · intro h _ hd; exact hd
  · intro w hw; unfold Pool restart at hw; simp at hw
  · unfold Pool restart; simp

/-- any history, a clean restart, any further history -/
theorem run_restart_safe (ops1 ops2 : List Op) (hwf : WF (mentioned (ops1 ++ ops2))) :
    ∃ D', (∀ x, x ∈ D' ↔ x ∈ delivered (ops1 ++ ops2)) ∧
      SInv (mentioned (ops1 ++ ops2)) D' [] (runFrom (restart (run ops1)) ops2) := by
  have hm1 : ∀ x ∈ mentioned ops1, x ∈ mentioned (ops1 ++ ops2) := by
    intro x hx; rw [mentioned_append]; exact List.mem_append_left _ hx
  have hm2 : ∀ x ∈ mentioned ops2, x ∈ mentioned (ops1 ++ ops2) := by
    intro x hx; rw [mentioned_append]; exact List.mem_append_right _ hx
  obtain ⟨D1, h1, hs1⟩ := run_safe hwf ops1 [] init hm1 (by intro x hx; cases hx) (sinv_init _)
  have hDU : ∀ x ∈ D1, x ∈ mentioned (ops1 ++ ops2) := by
    intro x hx
    have := (h1 x).mp hx
    simp only [List.not_mem_nil, false_or] at this
    exact hm1 x (delivered_sub_mentioned ops1 x this)
  obtain ⟨D2, h2, hs2⟩ := run_safe hwf ops2 D1 (restart (run ops1)) hm2 hDU (restart_safe hs1).1
  refine ⟨D2, ?_, hs2⟩
  intro x
  rw [h2, h1, delivered_append]
  simp

end Lemmas
end BV.C02
