/-
C02 helper lemmas, part 7: first-seen rule, agreement of the views, order independence,
InvalidateBlock / ReconsiderBlock (what is provable, and the counter-examples).
-/
import BV.C02.Lemmas6
namespace BV.C02
namespace Lemmas
open Spec

/-! ### histories -/

theorem runFrom_append (s : State) (a b : List Op) : runFrom s (a ++ b) = runFrom (runFrom s a) b := by
  induction a generalizing s with
  | nil => rfl
  | cons o r ih => exact ih _

theorem deliveryOnly_append {a b : List Op} (h : deliveryOnly (a ++ b)) : deliveryOnly a ∧ deliveryOnly b := by
  induction a with
  | nil => exact ⟨trivial, h⟩
  | cons o r ih =>
    cases o with
    | block x => exact ih h
    | header x => exact ih h
    | invalidate x c => exact absurd h (by simp [deliveryOnly])
    | reconsider x c => exact absurd h (by simp [deliveryOnly])

theorem mentioned_append (a b : List Op) : mentioned (a ++ b) = mentioned a ++ mentioned b := by
  induction a with
  | nil => rfl
  | cons o r ih => cases o <;> simp [mentioned, ih]

theorem delivered_append (a b : List Op) : delivered (a ++ b) = delivered a ++ delivered b := by
  induction a with
  | nil => rfl
  | cons o r ih => cases o <;> simp [delivered, ih]

theorem wf_sub {A B : List BlockAbs} (hs : ∀ x ∈ A, x ∈ B) (hw : WF B) : WF A :=
  ⟨fun a ha b hb e => hw.1 a (hs a ha) b (hs b hb) e, fun a ha => hw.2.1 a (hs a ha), fun a ha => hw.2.2 a (hs a ha)⟩

/-- invariant after `ops`, relative to a larger universe `U` -/
theorem run_inv_U {U : List BlockAbs} (hwf : WF U) (ops : List Op) (hdo : deliveryOnly ops)
    (hm : ∀ x ∈ mentioned ops, x ∈ U) :
    ∃ D', (∀ x, x ∈ D' ↔ x ∈ delivered ops) ∧ Inv U D' [] [] (run ops) := by
  obtain ⟨D', h1, h2⟩ := run_spec hwf ops [] init hdo hm (by intro x hx; cases hx) (inv_init _)
  exact ⟨D', by intro x; rw [h1]; simp, h2⟩

/-- first-seen rule: one more delivery leaves the active chain as it is or moves it to a chain with
strictly more cumulative work (so an equal-work chain never displaces the active one) -/
theorem step_first_seen (ops : List Op) (o : Op) (hdo : deliveryOnly (ops ++ [o]))
    (hwf : WF (mentioned (ops ++ [o]))) :
    (run (ops ++ [o])).best = (run ops).best ∨
      (run ops).wsum (run ops).tip < (run (ops ++ [o])).wsum (run (ops ++ [o])).tip := by
  obtain ⟨hd1, hd2⟩ := deliveryOnly_append hdo
  have hm : ∀ x ∈ mentioned ops, x ∈ mentioned (ops ++ [o]) := by
    intro x hx; rw [mentioned_append]; exact List.mem_append_left _ hx
  obtain ⟨D', h1, hi⟩ := run_inv_U hwf ops hd1 hm
  have hDU : ∀ x ∈ D', x ∈ mentioned (ops ++ [o]) :=
    fun x hx => hm x (delivered_sub_mentioned ops x ((h1 x).mp hx))
  have hr : run (ops ++ [o]) = (step (run ops) o).1 := by
    unfold run; rw [runFrom_append]; rfl
  rw [hr]
  cases o with
  | block b =>
    have hbU : b ∈ mentioned (ops ++ [Op.block b]) := by rw [mentioned_append]; simp [mentioned]
    exact (processBlock_spec hwf hDU hbU hi).2.1
  | header b => exact Or.inl (processHeader_best _ b)
  | invalidate h c => exact absurd hd2 (by simp [deliveryOnly])
  | reconsider h c => exact absurd hd2 (by simp [deliveryOnly])

/-! ### the views -/

theorem pathOK_good {U D : List BlockAbs} {s : State} (hc : CInv U D s) {l : List Hash} (hp : PathOK s l) :
    ∀ c ∈ l, GoodPath s c := by
  induction hp with
  | base => intro c hc'; simp at hc'; subst hc'; exact GoodPath.gen
  | @cons c p r n h0 hl hpar hd hv _ ih =>
    intro x hx
    cases hx with
    | head => exact GoodPath.step h0 hl hd (hc.fs.vOk c n hv hl) (by rw [hpar]; exact ih p (by simp))
    | tail _ hx' => exact ih x hx'

/-- what `PathOK` says in plain terms: the chain ends in genesis, consecutive entries are linked by
the parent pointer, the entry at position `i` (tip = 0) has height `length - 1 - i`, every entry is
stored, (non-genesis entries are) marked valid and none is marked invalid -/
theorem pathOK_plain {U D : List BlockAbs} {s : State} (hc : CInv U D s) {l : List Hash} (hp : PathOK s l) :
    l.getLast? = some 0 ∧
    (∀ i c p, l[i]? = some c → l[i + 1]? = some p → ∃ n, lookup s.idx c = some n ∧ n.blk.parent = p) ∧
    (∀ i c, l[i]? = some c → ∃ n, lookup s.idx c = some n ∧ n.height + i + 1 = l.length) ∧
    (∀ c ∈ l, (s.status c).data = true ∧ (c ≠ 0 → (s.status c).valid = true) ∧
      (s.status c).knownInvalid = false) := by
  have hgood := pathOK_good hc hp
  have hk : ∀ c ∈ l, (s.status c).knownInvalid = false := by
    intro c hcl
    cases hkk : (s.status c).knownInvalid with
    | false => rfl
    | true => exact absurd (hgood c hcl) (iw_not_good hc.idx (hc.fs.kIW c hkk))
  clear hgood
  induction hp with
  | base =>
    refine ⟨rfl, ?_, ?_, ?_⟩
    · intro i c p h1 h2
      cases i <;> simp at h2
    · intro i c h1
      cases i with
      | zero =>
        simp at h1; subst h1
        exact ⟨genesisNode, idxOK_genesis hc.idx, rfl⟩
      | succ j => simp at h1
    · intro c hcl
      simp at hcl; subst hcl
      exact ⟨hc.gData, fun h => absurd rfl h, hk 0 (by simp)⟩
  | @cons c p r n h0 hl hpar hd hv hr ih =>
    obtain ⟨i1, i2, i3, i4⟩ := ih (fun x hx => hk x (by simp [hx]))
    refine ⟨?_, ?_, ?_, ?_⟩
    · rw [List.getLast?_cons_cons]; exact i1
    · intro i x y h1 h2
      cases i with
      | zero =>
        simp at h1 h2; subst h1; subst h2
        exact ⟨n, hl, hpar⟩
      | succ j =>
        simp only [List.getElem?_cons_succ] at h1 h2
        exact i2 j x y h1 h2
    · intro i x h1
      cases i with
      | zero =>
        simp at h1; subst h1
        obtain ⟨_, q, hq, _, hh⟩ := idxOK_node hc.idx hl h0
        obtain ⟨q', hq', hh'⟩ := i3 0 p (by simp)
        rw [hpar] at hq
        rw [hq] at hq'; cases hq'
        refine ⟨n, hl, ?_⟩
        simp only [List.length_cons] at hh' ⊢
        omega
      | succ j =>
        simp only [List.getElem?_cons_succ] at h1
        obtain ⟨m, hm, hh⟩ := i3 j x h1
        refine ⟨m, hm, ?_⟩
        simp only [List.length_cons] at hh ⊢
        omega
    · intro x hx
      cases hx with
      | head => exact ⟨hd, fun _ => hv, hk c (by simp)⟩
      | tail _ hx' => exact i4 x hx'

/-- `ChainTips`: exactly the entry of the active tip is reported `active`, and it is present -/
theorem chainTips_active (s : State) (hne : s.best ≠ []) (n : Node) (hl : lookup s.idx s.tip = some n) :
    (∀ t ∈ chainTips s, t.2.2.2 = .active ↔ t.1 = s.tip) ∧
    (s.tip, n.height, 0, TipStatus.active) ∈ chainTips s := by
  have htb : s.best.contains s.tip = true := by
    unfold State.tip
    cases hb : s.best with
    | nil => exact absurd hb hne
    | cons a r => simp
  have hnh := lookup_hash hl
  have hbr : branch s.best s.idx s.tip = [] := by
    cases hi : s.idx with
    | nil => rfl
    | cons a r => unfold branch; simp only [htb, if_true]
  constructor
  · intro t ht
    unfold chainTips at ht
    simp only [List.mem_append, List.mem_map] at ht
    rcases ht with ⟨m, hm, rfl⟩ | ht
    · unfold inactiveTips at hm
      obtain ⟨_, hf⟩ := List.mem_filter.mp hm
      simp only [Bool.and_eq_true, Bool.not_eq_true'] at hf
      have hnc := hf.1
      have hne' : m.blk.hash ≠ s.tip := by
        intro e; rw [e, htb] at hnc; cases hnc
      simp only [hnc, Bool.false_eq_true, if_false]
      cases (s.status m.blk.hash).knownInvalid <;> cases (s.status m.blk.hash).data <;> simp [hne']
    · rw [hl] at ht
      simp only [List.mem_singleton] at ht
      subst ht
      simp only [hnh, htb, if_true]
  · unfold chainTips
    rw [hl]
    simp only [List.mem_append, List.mem_singleton]
    right
    simp only [hnh, htb, hbr, if_true, List.length_nil]

/-! ### order independence -/

theorem isBest_same_work {D : List BlockAbs} {t1 t2 : Hash} (h1 : IsBest D t1) (h2 : IsBest D t2) :
    ∃ w, ValidChain D t1 w ∧ ValidChain D t2 w := by
  obtain ⟨w1, v1, m1⟩ := h1
  obtain ⟨w2, v2, m2⟩ := h2
  have a := m1 t2 w2 v2
  have b := m2 t1 w1 v1
  have : w1 = w2 := by omega
  subst this
  exact ⟨w1, v1, v2⟩

/-! ### InvalidateBlock / ReconsiderBlock -/

theorem validChainEx_sub {D : List BlockAbs} {X : List Hash} {h : Hash} {w : Nat} (hv : ValidChainEx D X h w) :
    ValidChain D h w := by
  induction hv with
  | genesis => exact ValidChain.genesis
  | step hb hok _ _ ih => exact ValidChain.step hb hok ih

/-- the active chain, as a valid delivered chain that avoids `X`, when no member of the chain is in `X` -/
theorem path_validEx {U D : List BlockAbs} {s : State} (hc : CInv U D s) {X : List Hash} {l : List Hash}
    (hp : PathOK s l) (hx : ∀ c ∈ l, c ∉ X) : ValidChainEx D X (l.headD 0) (s.wsum (l.headD 0)) := by
  induction hp with
  | base =>
    have : s.wsum 0 = 0 := by rw [wsum_eq (idxOK_genesis hc.idx)]; rfl
    simp only [List.headD_cons]
    rw [this]; exact ValidChainEx.genesis
  | @cons c p r n h0 hl hpar hd hv _ ih =>
    have ih' := ih (fun x hx' => hx x (by simp [hx']))
    simp only [List.headD_cons] at ih' ⊢
    obtain ⟨hD, hpre⟩ := hc.dD c n hd hl h0
    have hco := hc.fs.vOk c n hv hl
    obtain ⟨_, q, hq, hw, _⟩ := idxOK_node hc.idx hl h0
    have hok : n.blk.ok = true := by unfold BlockAbs.ok; simp [hpre, hco]
    have h1 : ValidChainEx D X n.blk.parent (s.wsum p) := by rw [hpar]; exact ih'
    have hnx : n.blk.hash ∉ X := by rw [lookup_hash hl]; exact hx c (by simp)
    have h2 := ValidChainEx.step hD hok hnx h1
    rw [lookup_hash hl] at h2
    have : s.wsum c = s.wsum p + n.blk.work := by
      rw [wsum_eq hl, hw]
      rw [hpar] at hq
      rw [wsum_eq hq]
    rw [this]; exact h2

/-- invalidating a block that is not on the active chain leaves the active chain untouched -/
theorem invalidate_inactive_best (s : State) (h : Hash) (c : Option Hash)
    (hnb : s.best.contains h = false) : (invalidate s h c).1.best = s.best := by
  unfold invalidate
  split
  · rfl
  · split
    · rfl
    · split
      · rfl
      · simp only []
        have hb : (s.setSt h (fun t => { t with failed := true, valid := false })).best = s.best := rfl
        rw [hb]
        simp only [hnb, Bool.not_false, if_true]
        have := sameChain_foldl
          ((inactiveTips (s.setSt h (fun t => { t with failed := true, valid := false }))).filter
            (fun t => (ancestors (s.setSt h (fun t => { t with failed := true, valid := false })).idx t.blk.hash).contains h))
          (fun s t => ((t.blk.hash :: ancestors s.idx t.blk.hash).takeWhile (· != h)).foldl unmarkValidMarkInvAnc s)
          (fun s a => sameChain_foldl _ _ (fun s x => sameChain_unmark s x) s)
          (s.setSt h (fun t => { t with failed := true, valid := false }))
        exact this.2.1

theorem validChainEx_inv {D : List BlockAbs} {X : List Hash} {h : Hash} {w : Nat} (hv : ValidChainEx D X h w) :
    (h = 0 ∧ w = 0) ∨ ∃ b w', b ∈ D ∧ b.ok = true ∧ b.hash ∉ X ∧ b.hash = h ∧ w = w' + b.work ∧
      ValidChainEx D X b.parent w' := by
  cases hv with
  | genesis => exact Or.inl ⟨rfl, rfl⟩
  | @step b w' hb hok hx hp => exact Or.inr ⟨b, w', hb, hok, hx, rfl, rfl, hp⟩

theorem validChainEx_mono {D D' : List BlockAbs} {X : List Hash} (hs : ∀ x ∈ D, x ∈ D') {h : Hash} {w : Nat}
    (hv : ValidChainEx D X h w) : ValidChainEx D' X h w := by
  induction hv with
  | genesis => exact ValidChainEx.genesis
  | step hb hok hx _ ih => exact ValidChainEx.step (hs _ hb) hok hx ih

/-- after a delivery history, invalidating a block that is NOT on the active chain leaves the tip
where it is, and that tip is the best chain among those that avoid the invalidated block -/
theorem invalidate_inactive_isBestEx (ops : List Op) (h : Hash) (c : Option Hash) (hdo : deliveryOnly ops)
    (hwf : WF (mentioned ops)) (hev : (run ops).evicted = []) (hna : (run ops).best.contains h = false) :
    (run (ops ++ [.invalidate h c])).best = (run ops).best ∧
    IsBestEx (delivered ops) [h] (run (ops ++ [.invalidate h c])).tip := by
  obtain ⟨D', h1, hi⟩ := run_inv ops hdo hwf
  have hDU : ∀ x ∈ D', x ∈ mentioned ops := fun x hx => delivered_sub_mentioned ops x ((h1 x).mp hx)
  have hr : run (ops ++ [.invalidate h c]) = (step (run ops) (.invalidate h c)).1 := by
    unfold run; rw [runFrom_append]; rfl
  have hb : (run (ops ++ [.invalidate h c])).best = (run ops).best := by
    rw [hr]
    have := invalidate_inactive_best (run ops) h c hna
    simp only [step]
    generalize invalidate (run ops) h c = r at this ⊢
    obtain ⟨s1, ok⟩ := r
    cases ok <;> exact this
  refine ⟨hb, ?_⟩
  have ht : (run (ops ++ [.invalidate h c])).tip = (run ops).tip := by unfold State.tip; rw [hb]
  rw [ht]
  have hx : ∀ x ∈ (run ops).best, x ∉ [h] := by
    intro x hx he
    simp only [List.mem_singleton] at he
    subst he
    have : (run ops).best.contains x = true := by simpa using hx
    rw [hna] at this; cases this
  refine ⟨(run ops).wsum (run ops).tip, ?_, ?_⟩
  · exact validChainEx_mono (fun x hx => (h1 x).mp hx) (path_validEx hi.c hi.c.path hx)
  · intro k w hv
    have hv' : ValidChain D' k w := validChain_mono (fun x hx => (h1 x).mpr hx) (validChainEx_sub hv)
    obtain ⟨n, hl, hw, hg, _⟩ := valid_complete hwf hDU hi hev hv'
    rw [← hw]
    exact hi.max k n hl hg

/-- reconsidering a block that is marked valid changes nothing -/
theorem reconsider_valid_noop (s : State) (h : Hash) (c : Option Hash) (n : Node)
    (hl : lookup s.idx h = some n) (hv : (s.status h).valid = true) : (reconsider s h c).1 = s := by
  unfold reconsider
  simp only [hl, hv, if_true]

end Lemmas
end BV.C02
