/-
C02 helper lemmas, part 6: from the invariant to the Spec.
-/
import BV.C02.Lemmas5
namespace BV.C02
namespace Lemmas
open Spec

theorem validChain_mono {D D' : List BlockAbs} (hs : ∀ x ∈ D, x ∈ D') {h : Hash} {w : Nat}
    (hv : ValidChain D h w) : ValidChain D' h w := by
  induction hv with
  | genesis => exact ValidChain.genesis
  | step hb hok _ ih => exact ValidChain.step (hs _ hb) hok ih

/-- the active chain is a valid delivered chain whose work is the tip's recorded cumulative work -/
theorem path_valid {U D : List BlockAbs} {s : State} (hc : CInv U D s) {l : List Hash} (hp : PathOK s l) :
    ValidChain D (l.headD 0) (s.wsum (l.headD 0)) := by
  induction hp with
  | base =>
    have : s.wsum 0 = 0 := by
      rw [wsum_eq (idxOK_genesis hc.idx)]; rfl
    simp only [List.headD_cons]
    rw [this]; exact ValidChain.genesis
  | @cons c p r n h0 hl hpar hd hv _ ih =>
    simp only [List.headD_cons] at ih ⊢
    obtain ⟨hD, hpre⟩ := hc.dD c n hd hl h0
    have hco := hc.fs.vOk c n hv hl
    obtain ⟨_, q, hq, hw, _⟩ := idxOK_node hc.idx hl h0
    have hok : n.blk.ok = true := by unfold BlockAbs.ok; simp [hpre, hco]
    have h1 : ValidChain D n.blk.parent (s.wsum p) := by rw [hpar]; exact ih
    have h2 := ValidChain.step hD hok h1
    rw [lookup_hash hl] at h2
    have : s.wsum c = s.wsum p + n.blk.work := by
      rw [wsum_eq hl, hw]
      rw [hpar] at hq
      rw [wsum_eq hq]
    rw [this]; exact h2

theorem iw_not_valid {U D : List BlockAbs} {s : State} (hwf : WF U) (hDU : ∀ x ∈ D, x ∈ U) (hc : CInv U D s)
    {h : Hash} (hw : IW s.idx h) : ∀ w, ¬ ValidChain D h w := by
  induction hw with
  | @failed h n hl hcf =>
    intro w hv
    cases hv with
    | genesis =>
      have := idxOK_genesis_only hc.idx hl
      subst this
      simp [genesisNode, genesisBlk] at hcf
    | @step b w' hb hok hp =>
      have hbU := hDU b hb
      have hb0 := hwf.2.1 b hbU
      obtain ⟨hnU, _⟩ := idxOK_node hc.idx hl hb0
      have : n.blk = b := wf_eq hwf hnU hbU (lookup_hash hl)
      rw [this] at hcf
      unfold BlockAbs.ok at hok
      simp [hcf] at hok
  | @anc h n hl _ ih =>
    intro w hv
    cases hv with
    | genesis =>
      have := idxOK_genesis_only hc.idx hl
      subst this
      exact ih 0 ValidChain.genesis
    | @step b w' hb hok hp =>
      have hbU := hDU b hb
      have hb0 := hwf.2.1 b hbU
      obtain ⟨hnU, _⟩ := idxOK_node hc.idx hl hb0
      have : n.blk = b := wf_eq hwf hnU hbU (lookup_hash hl)
      rw [this] at ih
      exact ih w' hp

/-- every valid delivered chain is stored, indexed with its true cumulative work, and a good path -/
theorem valid_complete {U D : List BlockAbs} {s : State} (hwf : WF U) (hDU : ∀ x ∈ D, x ∈ U)
    (hi : Inv U D [] [] s) (hev : s.evicted = []) {h : Hash} {w : Nat} (hv : ValidChain D h w) :
    ∃ n, lookup s.idx h = some n ∧ n.workSum = w ∧ GoodPath s h ∧ (s.status h).data = true := by
  induction hv with
  | genesis =>
    exact ⟨genesisNode, idxOK_genesis hi.c.idx, rfl, GoodPath.gen, hi.c.gData⟩
  | @step b w' hb hok hp ih =>
    obtain ⟨p, hlp, hpw, hpg, hpd⟩ := ih
    have hbU := hDU b hb
    have hb0 := hwf.2.1 b hbU
    have hpre : b.preOk = true := by unfold BlockAbs.ok at hok; simp at hok; exact hok.1
    have hco : b.connOk = true := by unfold BlockAbs.ok at hok; simp at hok; exact hok.2
    have hpinv : (s.status b.parent).knownInvalid = true → False := by
      intro hk
      exact iw_not_valid hwf hDU hi.c (hi.c.fs.kIW _ hk) w' hp
    rcases hi.deliv b hb hpre with hd | hd | hd | hd | hd
    · obtain ⟨n, hl⟩ := hi.c.dIdx _ hd
      obtain ⟨hnU, q, hq, hw, _⟩ := idxOK_node hi.c.idx hl hb0
      have hnb : n.blk = b := wf_eq hwf hnU hbU (lookup_hash hl)
      rw [hnb] at hq hw
      rw [hlp] at hq; cases hq
      refine ⟨n, hl, by rw [hw, hpw], ?_, hd⟩
      exact GoodPath.step hb0 hl hd (by rw [hnb]; exact hco) (by rw [hnb]; exact hpg)
    · exfalso
      unfold Pool at hd
      simp only [List.append_nil, List.mem_map] at hd
      obtain ⟨o, ho, rfl⟩ := hd
      rcases hi.oPar o ho hpd with hk | hk
      · exact hpinv hk
      · cases hk
    · exact absurd hd (fun hk => hpinv hk)
    · rw [hev] at hd; cases hd
    · exfalso
      exact iw_not_valid hwf hDU hi.c (hi.c.fs.kIW _ hd) (w' + b.work) (ValidChain.step hb hok hp)

/-- the tip of a state satisfying the invariant (no orphan ever evicted) is a best tip for `D` -/
theorem inv_isBest {U D : List BlockAbs} {s : State} (hwf : WF U) (hDU : ∀ x ∈ D, x ∈ U)
    (hi : Inv U D [] [] s) (hev : s.evicted = []) : IsBest D s.tip := by
  refine ⟨s.wsum s.tip, path_valid hi.c hi.c.path, ?_⟩
  intro h w hv
  obtain ⟨n, hl, hw, hg, _⟩ := valid_complete hwf hDU hi hev hv
  rw [← hw]
  exact hi.max h n hl hg

theorem isBest_congr {D D' : List BlockAbs} (h : ∀ x, x ∈ D ↔ x ∈ D') {t : Hash} (hb : IsBest D t) : IsBest D' t := by
  obtain ⟨w, hv, hm⟩ := hb
  exact ⟨w, validChain_mono (fun x hx => (h x).mp hx) hv,
    fun k w' hk => hm k w' (validChain_mono (fun x hx => (h x).mpr hx) hk)⟩

theorem delivered_sub_mentioned (ops : List Op) : ∀ x ∈ delivered ops, x ∈ mentioned ops := by
  induction ops with
  | nil => intro x hx; cases hx
  | cons o r ih =>
    intro x hx
    cases o with
    | block b =>
      simp only [delivered, List.mem_cons] at hx
      simp only [mentioned, List.mem_cons]
      exact hx.imp id (ih x)
    | header b => simp only [mentioned, List.mem_cons]; exact Or.inr (ih x hx)
    | invalidate h c => exact ih x hx
    | reconsider h c => exact ih x hx

/-- the invariant after a whole delivery history -/
theorem run_inv (ops : List Op) (hdo : deliveryOnly ops) (hwf : WF (mentioned ops)) :
    ∃ D', (∀ x, x ∈ D' ↔ x ∈ delivered ops) ∧ Inv (mentioned ops) D' [] [] (run ops) := by
  obtain ⟨D', h1, h2⟩ := run_spec hwf ops [] init hdo (fun x hx => hx) (by intro x hx; cases hx) (inv_init _)
  exact ⟨D', by intro x; rw [h1]; simp, h2⟩

theorem run_isBest (ops : List Op) (hdo : deliveryOnly ops) (hwf : WF (mentioned ops))
    (hev : (run ops).evicted = []) : IsBest (delivered ops) (run ops).tip := by
  obtain ⟨D', h1, h2⟩ := run_inv ops hdo hwf
  have hDU : ∀ x ∈ D', x ∈ mentioned ops := fun x hx => delivered_sub_mentioned ops x ((h1 x).mp hx)
  exact isBest_congr h1 (inv_isBest hwf hDU h2 hev)

end Lemmas
end BV.C02
