import BV.Common.Loop
import BV.C02.Driver
/-! `drv_c02`: one case per input line `C02 <op> <args…>`, one canonical result line back.
Imports only core-only modules so that it links as a native executable. -/
def main : IO Unit := BV.Loop.run "C02" BV.C02.Driver.handle
