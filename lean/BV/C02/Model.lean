/-
C02 Model — `ChainCore`: executable mirror of btcd's chain-selection state machine (core-only).

Mirrors, function by function:

  blockchain/process.go   ProcessBlock, processOrphans, ProcessBlockHeader      → `processBlock`, `drain`, `processHeader`
  blockchain/accept.go    maybeAcceptBlock, maybeAcceptBlockHeader              → `maybeAccept`, `processHeader`
  blockchain/chain.go     connectBestChain, getReorganizeNodes, reorganizeChain,
                          verifyReorganizationValidity, connectBlock/disconnectBlock
                          (index + notification level), addOrphanBlock,
                          InvalidateBlock, ReconsiderBlock, ChainTips           → `connectBest`, `getReorgNodes`, `reorganize`,
                                                                                  `verify`, `connect`, `addOrphan`, `invalidate`,
                                                                                  `reconsider`, `chainTips`
  blockchain/blockindex.go blockStatus bits, InactiveTips                        → `Status`, `inactiveTips`

State representation (chosen so that everything is structural recursion over lists):
* `idx`   — the block index in insertion order, NEWEST FIRST; a node's parent is always further down
            the list (a header/block is only indexed when its parent is), genesis is the last element.
            Records are immutable (hash, parent, work, verdict bits, height, cumulative work).
* `st`    — status bits as an association list, newest binding first (`status` = first match).
* `best`  — the active chain, TIP FIRST, genesis last (`chainView`; also the persisted height index
            and `BestSnapshot`, which btcd updates in the same step).
* `orphans` — orphan pool in arrival order with the logical arrival time; `oldest` mirrors the cached
            `oldestOrphan` pointer (which can be stale); bound `maxOrphans`; wall-clock expiry (1 h) is
            not modelled. `evicted` remembers hashes dropped by the bound (ghost, for the theorems).
* `notes` — NTBlockConnected / NTBlockDisconnected notifications, newest first.
* `bestHdr` — tip of the best-header view (`bestHeader` chainView): moved only by ProcessBlockHeader.
-/
import BV.C02.Spec
namespace BV.C02

structure Status where
  data : Bool := false
  valid : Bool := false
  failed : Bool := false
  invalidAnc : Bool := false
  header : Bool := false
deriving DecidableEq, Repr, Inhabited

def Status.knownInvalid (t : Status) : Bool := t.failed || t.invalidAnc

/-- the `blockStatus` byte -/
def Status.toByte (t : Status) : Nat :=
  (if t.data then 1 else 0) + (if t.valid then 2 else 0) + (if t.failed then 4 else 0) +
  (if t.invalidAnc then 8 else 0) + (if t.header then 16 else 0)

structure Node where
  blk : BlockAbs
  height : Nat
  workSum : Nat
deriving Repr, Inhabited

inductive Note where
  | conn (h : Hash)
  | disc (h : Hash)
deriving DecidableEq, Repr, Inhabited

structure State where
  idx : List Node
  st : List (Hash × Status)
  best : List Hash
  orphans : List (BlockAbs × Nat)
  oldest : Option (Hash × Nat)
  clock : Nat
  evicted : List Hash
  notes : List Note
  bestHdr : Hash := 0
deriving Repr, Inhabited

def genesisBlk : BlockAbs := ⟨0, 0, 0, true, true, true, true⟩
def genesisNode : Node := ⟨genesisBlk, 0, 0⟩

def init : State :=
  { idx := [genesisNode], st := [(0, { data := true, valid := true })], best := [0],
    orphans := [], oldest := none, clock := 0, evicted := [], notes := [] }

def maxOrphans : Nat := 100

/-! ### lookups -/

def lookup (idx : List Node) (h : Hash) : Option Node := idx.find? (fun n => n.blk.hash == h)

def stOf (st : List (Hash × Status)) (h : Hash) : Status :=
  match st.find? (fun p => p.1 == h) with
  | some p => p.2
  | none => {}

def State.status (s : State) (h : Hash) : Status := stOf s.st h
def State.tip (s : State) : Hash := s.best.headD 0
def wsumOf (idx : List Node) (h : Hash) : Nat :=
  match lookup idx h with
  | some n => n.workSum
  | none => 0
def State.wsum (s : State) (h : Hash) : Nat := wsumOf s.idx h

def State.setSt (s : State) (h : Hash) (f : Status → Status) : State :=
  { s with st := (h, f (s.status h)) :: s.st }

def State.markValid (s : State) (h : Hash) : State := s.setSt h (fun t => { t with valid := true })
def State.markFailed (s : State) (h : Hash) : State := s.setSt h (fun t => { t with failed := true })
def State.markInvAnc (s : State) (h : Hash) : State := s.setSt h (fun t => { t with invalidAnc := true })
def State.markData (s : State) (h : Hash) : State := s.setSt h (fun t => { t with data := true })

def markAllInvAnc (s : State) : List Hash → State
  | [] => s
  | h :: r => markAllInvAnc (s.markInvAnc h) r

/-! ### connectBlock / reorganisation -/

/-- `connectBlock` at the index/notification level -/
def connect (s : State) (h : Hash) : State := { s with best := h :: s.best, notes := .conn h :: s.notes }

/-- the side branch ending in `h`: nodes from `h` down to the child of the fork point (first node of
`h`'s ancestry that is on `best`), `h` first. Structural over the insertion-ordered index. -/
def branch (best : List Hash) : List Node → Hash → List Node
  | [], _ => []
  | n :: rest, h =>
    if best.contains h then []
    else if n.blk.hash == h then n :: branch best rest n.blk.parent
    else branch best rest h

inductive VR where
  | ok | rule | other
deriving DecidableEq, Repr, Inhabited

/-- `verifyReorganizationValidity` on the attach list (fork child first): loads each block (fails
with a non-rule error when the data is missing), skips nodes already known valid, otherwise applies
the connect-time verdict; on a failure marks the node failed and the REST OF THE LIST invalidAncestor. -/
def verify (s : State) : List Node → State × VR
  | [] => (s, .ok)
  | n :: rest =>
    if !(s.status n.blk.hash).data then (s, .other)
    else if (s.status n.blk.hash).valid then verify s rest
    else if n.blk.connOk then verify (s.markValid n.blk.hash) rest
    else (markAllInvAnc (s.markFailed n.blk.hash) (rest.map (·.blk.hash)), .rule)

/-- the fork point of a branch: the parent of its last node (the node itself if the branch is empty) -/
def forkOf (br : List Node) (h : Hash) : Hash :=
  match br.getLast? with
  | some m => m.blk.parent
  | none => h

/-- `getReorganizeNodes`: (state with marks, detach hashes tip first, attach nodes fork child first);
both lists empty when the branch contains a known-invalid node (the nodes above it get invalidAncestor). -/
def getReorgNodes (s : State) (n : Node) : State × List Hash × List Node :=
  if (s.status n.blk.parent).knownInvalid then (s.markInvAnc n.blk.hash, [], [])
  else
    let br := branch s.best s.idx n.blk.hash
    let good := br.takeWhile (fun m => !(s.status m.blk.hash).knownInvalid)
    if good.length < br.length then (markAllInvAnc s (good.map (·.blk.hash)), [], [])
    else
      (s, s.best.takeWhile (· != forkOf br n.blk.hash), br.reverse)

/-- `reorganizeChain`: verify first; only if every attach node passes, disconnect `detach` (tip
first) and connect `attach`. On failure nothing but statuses changes. -/
def reorganize (s : State) (detach : List Hash) (attach : List Node) : State × VR :=
  match verify s attach with
  | (s1, .ok) =>
    ({ s1 with
        best := (attach.map (·.blk.hash)).reverse ++ s1.best.drop detach.length,
        notes := (attach.map (fun n => Note.conn n.blk.hash)).reverse ++
                 ((detach.map Note.disc).reverse ++ s1.notes) }, .ok)
  | (s1, r) => (s1, r)

/-- `connectBestChain`: `some isMainChain`, or `none` for a rule/other error. -/
def connectBest (s : State) (n : Node) : State × Option Bool :=
  let h := n.blk.hash
  if n.blk.parent == s.tip then
    if (s.status h).valid then (connect s h, some true)
    else if n.blk.connOk then (connect (s.markValid h) h, some true)
    else (s.markFailed h, none)
  else if n.workSum ≤ s.wsum s.tip then (s, some false)
  else
    match getReorgNodes s n with
    | (s1, detach, attach) =>
      match reorganize s1 detach attach with
      | (s2, .ok) => (s2, some true)
      | (s2, _) => (s2, none)

/-! ### acceptance -/

/-- `maybeAcceptBlock` -/
def maybeAccept (s : State) (b : BlockAbs) : State × Option Bool :=
  match lookup s.idx b.parent with
  | none => (s, none)
  | some p =>
    if (s.status b.parent).knownInvalid then (s, none)
    else if (s.status b.hash).knownInvalid then (s, none)   -- its own (header-only) node is known invalid
    else if !(b.hdrOk && b.ctxOk) then (s, none)
    else
      match lookup s.idx b.hash with
      | some n => connectBest (s.markData b.hash) n
      | none =>
        let n : Node := ⟨b, p.height + 1, p.workSum + b.work⟩
        connectBest { s with idx := n :: s.idx, st := (b.hash, { data := true, header := true }) :: s.st } n

/-- `addOrphanBlock` without the wall-clock expiry, for a pool bound `bound` (`maxOrphanBlocks` is an
internal tuning constant: the driver reads it from the tree, the theorems use the shipped value) -/
def addOrphanB (bound : Nat) (s : State) (b : BlockAbs) : State :=
  let cand := s.orphans.foldl (fun (o : Option (Hash × Nat)) p =>
      match o with
      | none => some (p.1.hash, p.2)
      | some (h, t) => if p.2 < t then some (p.1.hash, p.2) else some (h, t)) s.oldest
  let s1 : State := { s with oldest := cand }
  let s2 : State :=
    if s1.orphans.length + 1 > bound then
      match cand with
      | some (h, _) =>
        { s1 with orphans := s1.orphans.filter (fun p => p.1.hash != h),
                  evicted := if s1.orphans.any (fun p => p.1.hash == h) then h :: s1.evicted else s1.evicted,
                  oldest := none }
      | none => s1
    else s1
  { s2 with orphans := s2.orphans ++ [(b, s2.clock)], clock := s2.clock + 1 }

def addOrphan (s : State) (b : BlockAbs) : State := addOrphanB maxOrphans s b

/-- accept the orphans of one parent in arrival order; collects the hashes accepted without error
and whether any was rejected -/
def acceptKids : State → List BlockAbs → List Hash → Bool → State × List Hash × Bool
  | s, [], acc, e => (s, acc, e)
  | s, k :: ks, acc, e =>
    match maybeAccept s k with
    | (s1, none) => acceptKids s1 ks acc true
    | (s1, some _) => acceptKids s1 ks (acc ++ [k.hash]) e

/-- `processOrphans` (breadth first over accepted hashes), after the repair that keeps going when one
orphan is rejected; the flag reports whether some orphan was rejected -/
def drain : Nat → State → List Hash → Bool → State × Bool
  | 0, s, _, e => (s, e)
  | _ + 1, s, [], e => (s, e)
  | f + 1, s, h :: q, e =>
    let kids := (s.orphans.filter (fun p => p.1.parent == h)).map (·.1)
    let s0 : State := { s with orphans := s.orphans.filter (fun p => !(p.1.parent == h)) }
    match acceptKids s0 kids [] e with
    | (s1, acc, e1) => drain f s1 (q ++ acc) e1

inductive Res where
  | main | side | orphan | dup | rej | ok | fail
deriving DecidableEq, Repr, Inhabited

/-- `ProcessBlock` -/
def processBlock (s : State) (b : BlockAbs) : State × Res :=
  if (s.status b.hash).data then (s, .dup)
  else if s.orphans.any (fun p => p.1.hash == b.hash) then (s, .dup)
  else if !b.sane then (s, .rej)
  else
    if !(s.status b.parent).data then (addOrphan s b, .orphan)
    else
      match maybeAccept s b with
      | (s1, none) => (s1, .rej)
      | (s1, some m) =>
        match drain (s1.orphans.length + 1) s1 [b.hash] false with
        | (s2, true) => (s2, .rej)
        | (s2, false) => (s2, if m then .main else .side)

/-- index effect of `maybeAcceptBlockHeader`: rejected, or accepted (a header-only node is added when
the hash is new) -/
def processHeaderCore (s : State) (b : BlockAbs) : State × Res :=
  match lookup s.idx b.parent with
  | none => (s, .rej)
  | some p =>
    if (s.status b.parent).knownInvalid then (s, .rej)
    else
      match lookup s.idx b.hash with
      | some _ => if (s.status b.hash).knownInvalid then (s, .rej) else (s, .ok)
      | none =>
        if !b.hdrOk then (s, .rej)
        else ({ s with idx := ⟨b, p.height + 1, p.workSum + b.work⟩ :: s.idx,
                       st := (b.hash, { header := true }) :: s.st }, .ok)

/-! ### tips, invalidate, reconsider -/

/-- proper ancestors of `h`, parent first, down to genesis -/
def ancestors : List Node → Hash → List Hash
  | [], _ => []
  | n :: rest, h =>
    if n.blk.hash == h then (if h == 0 then [] else n.blk.parent :: ancestors rest n.blk.parent)
    else ancestors rest h

/-- `bestHeader.Contains(node)` -/
def hdrContains (s : State) (h : Hash) : Bool := h == s.bestHdr || (ancestors s.idx s.bestHdr).contains h

/-- `IsValidHeader`: on the best-header chain and not known invalid -/
def isValidHeader (s : State) (h : Hash) : Bool := hdrContains s h && !(s.status h).knownInvalid

/-- best-header part of `maybeAcceptBlockHeader` for an accepted header: already on the best-header
chain ⇒ main; extends its tip ⇒ new tip; more cumulative work than its tip ⇒ new tip; else side -/
def updateBestHdr (s : State) (b : BlockAbs) : State × Res :=
  if hdrContains s b.hash then (s, .main)
  else if b.parent == s.bestHdr then ({ s with bestHdr := b.hash }, .main)
  else if s.wsum b.hash ≤ s.wsum s.bestHdr then (s, .side)
  else ({ s with bestHdr := b.hash }, .main)

/-- `ProcessBlockHeader` -/
def processHeader (s : State) (b : BlockAbs) : State × Res :=
  match processHeaderCore s b with
  | (s1, .rej) => (s1, .rej)
  | (s1, _) =>
    -- a header whose node exists but is not on the best-header chain is checked again; this only
    -- matters for a block that was stored with BFFastAdd although its header fails the context checks
    if (lookup s.idx b.hash).isSome && !hdrContains s1 b.hash && !b.hdrOk then (s1, .rej)
    else updateBestHdr s1 b

/-- clean shutdown and restart on the same database (`initChainState`): only nodes whose data is
stored are persisted (with their statuses), the orphan pool is gone, the best-header view restarts
at the active tip.
Not an `Op` of the proved histories: used by the driver for the restart correspondence. -/
def restart (s : State) : State :=
  { s with idx := s.idx.filter (fun n => (s.status n.blk.hash).data),
           st := s.st.filter (fun p => (s.status p.1).data),
           orphans := [], oldest := none, bestHdr := s.tip }

/-- `GetOrphanRoot` -/
def orphanRoot (orphans : List (BlockAbs × Nat)) : Nat → Hash → Hash
  | 0, h => h
  | f + 1, h =>
    match orphans.find? (fun p => p.1.hash == h) with
    | none => h
    | some p =>
      match orphans.find? (fun q => q.1.hash == p.1.parent) with
      | none => h
      | some _ => orphanRoot orphans f p.1.parent

/-- `InactiveTips`: indexed nodes off the best chain that are not the parent of another such node
(index order, newest first) -/
def inactiveTips (s : State) : List Node :=
  s.idx.filter (fun n => !s.best.contains n.blk.hash &&
    !(s.idx.any (fun m => !s.best.contains m.blk.hash && m.blk.parent == n.blk.hash)))

def unmarkValidMarkInvAnc (s : State) (h : Hash) : State :=
  if (s.status h).knownInvalid then s
  else s.setSt h (fun t => { t with invalidAnc := true, valid := false })

/-- among `cands` (index order) the ones of maximal cumulative work -/
def maxWorkOf (cands : List Node) : List Node :=
  let m := (cands.map (·.workSum)).foldl max 0
  cands.filter (fun n => n.workSum == m)

/-- pick `choice` if it is one of `cands`, else the earliest-indexed (last) candidate -/
def pick (cands : List Node) (choice : Option Hash) : Option Node :=
  match choice with
  | some c => match cands.find? (fun n => n.blk.hash == c) with
    | some n => some n
    | none => cands.getLast?
  | none => cands.getLast?

/-- `InvalidateBlock`. Where btcd's result depends on map iteration order (several inactive tips of
equal, maximal work) `choice` names the tip that was taken. -/
def invalidate (s : State) (h : Hash) (choice : Option Hash) : State × Bool :=
  match lookup s.idx h with
  | none => (s, false)
  | some node =>
    if node.height == 0 then (s, false)
    else if (s.status h).knownInvalid then (s, true)
    else
      let s := s.setSt h (fun t => { t with failed := true, valid := false })
      if !s.best.contains h then
        let tips := (inactiveTips s).filter (fun t => (ancestors s.idx t.blk.hash).contains h)
        let s := tips.foldl (fun s t =>
          ((t.blk.hash :: ancestors s.idx t.blk.hash).takeWhile (· != h)).foldl unmarkValidMarkInvAnc s) s
        (s, true)
      else
        let above := (s.best.takeWhile (· != h)).filter (fun x => !(s.status x).knownInvalid)
        let s := above.foldl (fun s x => s.setSt x (fun t => { t with invalidAnc := true, valid := false })) s
        match reorganize s (above ++ [h]) [] with
        | (s, .ok) =>
          let cands := (inactiveTips s).filter (fun t => !(s.status t.blk.hash).knownInvalid)
          let top := maxWorkOf cands
          match pick top choice with
          | none => (s, true)
          | some t =>
            if s.wsum s.tip > t.workSum then (s, true)
            else
              match getReorgNodes s t with
              | (s1, detach, attach) =>
                match reorganize s1 detach attach with
                | (s2, r) => (s2, r == .ok)
        | (s, _) => (s, false)

/-- tips (inactive, then the active one) that descend from `h` -/
def descTips (s : State) (h : Hash) : List Node :=
  ((inactiveTips s) ++ (match lookup s.idx s.tip with | some n => [n] | none => [])).filter
    (fun t => (ancestors s.idx t.blk.hash).contains h)

/-- the tip `ReconsiderBlock` tries to activate: the named descendant tip, else the most-work one,
else (no descendant tips) the block itself -/
def reconsiderTarget (dts : List Node) (node : Node) (choice : Option Hash) : Node :=
  match choice with
  | some c => match dts.find? (fun n => n.blk.hash == c) with
    | some n => n
    | none => ((maxWorkOf dts).getLast?).getD node
  | none => ((maxWorkOf dts).getLast?).getD node

/-- `ReconsiderBlock`. btcd takes the LAST descendant tip in map iteration order; `choice` names it
(`none` = the most-work one). -/
def reconsider (s : State) (h : Hash) (choice : Option Hash) : State × Bool :=
  match lookup s.idx h with
  | none => (s, false)
  | some node =>
    if (s.status h).valid then (s, true)
    else
      let s := s.setSt h (fun t => { t with invalidAnc := false, failed := false })
      let dts := descTips s h
      let s := dts.foldl (fun s t =>
        ((t.blk.hash :: ancestors s.idx t.blk.hash).takeWhile (· != h)).foldl
          (fun s x => s.setSt x (fun t => { t with invalidAnc := false })) s) s
      let rt : Node := reconsiderTarget dts node choice
      if rt.workSum ≤ s.wsum s.tip then (s, true)
      else
        match getReorgNodes s rt with
        | (s1, detach, attach) =>
          match reorganize s1 detach attach with
          | (s2, _) => (s2, true)   -- a verification error means "reconsidered and found invalid": nil

/-! ### BFFastAdd (checkpointed sync: "several checks can be avoided")

`ProcessBlock(block, BFFastAdd)`: the header/block context checks are skipped, and a block that extends
the tip is connected without `checkConnectBlock`; the flag is passed on to the orphans drained by the
call. A reorganisation still verifies its attach list. These are by-design unchecked paths, so they
are NOT ops of the proved histories (Spec.Op); the driver uses them for the correspondence run. -/

def connectBestFast (s : State) (n : Node) : State × Option Bool :=
  let h := n.blk.hash
  if n.blk.parent == s.tip then
    (connect (s.markValid h) h, some true)
  else connectBest s n

def maybeAcceptFast (s : State) (b : BlockAbs) : State × Option Bool :=
  match lookup s.idx b.parent with
  | none => (s, none)
  | some p =>
    if (s.status b.parent).knownInvalid then (s, none)
    else if (s.status b.hash).knownInvalid then (s, none)
    else
      match lookup s.idx b.hash with
      | some n => connectBestFast (s.markData b.hash) n
      | none =>
        let n : Node := ⟨b, p.height + 1, p.workSum + b.work⟩
        connectBestFast { s with idx := n :: s.idx, st := (b.hash, { data := true, header := true }) :: s.st } n

def acceptKidsFast : State → List BlockAbs → List Hash → Bool → State × List Hash × Bool
  | s, [], acc, e => (s, acc, e)
  | s, k :: ks, acc, e =>
    match maybeAcceptFast s k with
    | (s1, none) => acceptKidsFast s1 ks acc true
    | (s1, some _) => acceptKidsFast s1 ks (acc ++ [k.hash]) e

def drainFast : Nat → State → List Hash → Bool → State × Bool
  | 0, s, _, e => (s, e)
  | _ + 1, s, [], e => (s, e)
  | f + 1, s, h :: q, e =>
    let kids := (s.orphans.filter (fun p => p.1.parent == h)).map (·.1)
    let s0 : State := { s with orphans := s.orphans.filter (fun p => !(p.1.parent == h)) }
    match acceptKidsFast s0 kids [] e with
    | (s1, acc, e1) => drainFast f s1 (q ++ acc) e1

def processBlockFast (s : State) (b : BlockAbs) : State × Res :=
  if (s.status b.hash).data then (s, .dup)
  else if s.orphans.any (fun p => p.1.hash == b.hash) then (s, .dup)
  else if !b.sane then (s, .rej)
  else
    if !(s.status b.parent).data then (addOrphan s b, .orphan)
    else
      match maybeAcceptFast s b with
      | (s1, none) => (s1, .rej)
      | (s1, some m) =>
        match drainFast (s1.orphans.length + 1) s1 [b.hash] false with
        | (s2, true) => (s2, .rej)
        | (s2, false) => (s2, if m then .main else .side)

/-- pooling a block when the pool is full, with the victim given from outside: WHICH orphan is dropped
on overflow is an internal policy (btcd: the oldest, through a pointer that can be stale, so possibly
none); the property only needs "at most one pooled orphan is dropped". `victim = none` drops nothing. -/
def addOrphanForced (s : State) (b : BlockAbs) (victim : Option Hash) : State :=
  let s2 : State := match victim with
    | some h => { s with orphans := s.orphans.filter (fun p => p.1.hash != h),
                         evicted := if s.orphans.any (fun p => p.1.hash == h) then h :: s.evicted else s.evicted,
                         oldest := none }
    | none => { s with oldest := none }
  { s2 with orphans := s2.orphans ++ [(b, s2.clock)], clock := s2.clock + 1 }

/-- `ProcessBlock` / `ProcessBlock(BFFastAdd)` for an arbitrary orphan-pool bound (driver only): the
bound matters only on the branch that pools the block; `forced` overrides the eviction policy -/
def processBlockB (bound : Nat) (fast : Bool) (forced : Option (Option Hash)) (s : State) (b : BlockAbs) : State × Res :=
  if !(s.status b.hash).data && !(s.orphans.any (fun p => p.1.hash == b.hash)) && b.sane &&
      !(s.status b.parent).data then
    match forced with
    | some v => if s.orphans.length + 1 > bound then (addOrphanForced s b v, .orphan) else (addOrphanB bound s b, .orphan)
    | none => (addOrphanB bound s b, .orphan)
  else if fast then processBlockFast s b else processBlock s b

/-- does delivering `b` pool it while the pool is full? -/
def overflows (bound : Nat) (s : State) (b : BlockAbs) : Bool :=
  !(s.status b.hash).data && !(s.orphans.any (fun p => p.1.hash == b.hash)) && b.sane &&
    !(s.status b.parent).data && s.orphans.length + 1 > bound

/-! ### the machine -/

def step (s : State) : Op → State × Res
  | .block b => processBlock s b
  | .header b => processHeader s b
  | .invalidate h c => match invalidate s h c with
    | (s1, true) => (s1, .ok)
    | (s1, false) => (s1, .fail)
  | .reconsider h c => match reconsider s h c with
    | (s1, true) => (s1, .ok)
    | (s1, false) => (s1, .fail)

def runFrom (s : State) : List Op → State
  | [] => s
  | o :: r => runFrom (step s o).1 r

def run (ops : List Op) : State := runFrom init ops

/-! ### views -/

/-- replay the notification stream (oldest first = `notes.reverse`) from genesis -/
def replay : List Note → List Hash
  | [] => [0]
  | .conn h :: older => h :: replay older
  | .disc _ :: older => (replay older).drop 1

inductive TipStatus where
  | active | invalid | validFork | unknown
deriving DecidableEq, Repr

/-- `ChainTips`: (hash, height, branch length, status), inactive tips then the active tip -/
def chainTips (s : State) : List (Hash × Nat × Nat × TipStatus) :=
  let one (n : Node) : Hash × Nat × Nat × TipStatus :=
    let t := s.status n.blk.hash
    (n.blk.hash, n.height, (branch s.best s.idx n.blk.hash).length,
      if s.best.contains n.blk.hash then .active
      else if t.knownInvalid then .invalid
      else if t.data then .validFork
      else .unknown)
  (inactiveTips s).map one ++ (match lookup s.idx s.tip with | some n => [one n] | none => [])

end BV.C02
