/-
C02 helper lemmas, part 9: a SAFETY invariant that survives every op, InvalidateBlock and
ReconsiderBlock included: the active chain is always a parent-linked path from genesis of stored blocks
that passed every check (so all views keep describing one valid chain), whatever was manually
invalidated or reconsidered. (The optimality half of the property needs sound invalid-flags and is
proved for delivery histories only, Lemmas3-6.)
-/
import BV.C02.Lemmas8
namespace BV.C02
namespace Lemmas
open Spec

/-- valid flags tell the truth -/
def VOk (s : State) : Prop := ∀ h n, (s.status h).valid = true → lookup s.idx h = some n → n.blk.connOk = true

/-- the active chain as a path of stored blocks that PASS their connect-time check (a statement about
the oracle bits, not about status flags: manual invalidation cannot disturb it) -/
inductive PathOK' (s : State) : List Hash → Prop where
  | base : PathOK' s [0]
  | cons {c p : Hash} {r : List Hash} {n : Node} : c ≠ 0 → lookup s.idx c = some n → n.blk.parent = p →
      (s.status c).data = true → n.blk.connOk = true → PathOK' s (p :: r) → PathOK' s (c :: p :: r)

theorem pathOK'_of {s : State} (hv : VOk s) {l : List Hash} (hp : PathOK s l) : PathOK' s l := by
  induction hp with
  | base => exact PathOK'.base
  | cons h0 hl hpar hd hval _ ih => exact PathOK'.cons h0 hl hpar hd (hv _ _ hval hl) ih

theorem pathOK'_mono {s s' : State} {l : List Hash}
    (hl : ∀ h ∈ l, ∀ n, lookup s.idx h = some n → lookup s'.idx h = some n)
    (hd : ∀ h ∈ l, (s.status h).data = true → (s'.status h).data = true) (hp : PathOK' s l) :
    PathOK' s' l := by
  induction hp with
  | base => exact PathOK'.base
  | cons h0 hlk hpar hdat hc _ ih =>
    refine PathOK'.cons h0 (hl _ (by simp) _ hlk) hpar (hd _ (by simp) hdat) hc ?_
    exact ih (fun h hh => hl h (by simp [hh])) (fun h hh => hd h (by simp [hh]))

theorem pathOK'_ext {s s' : State} (hi : s'.idx = s.idx) (hd : ∀ k, (s'.status k).data = (s.status k).data)
    {l : List Hash} (hp : PathOK' s l) : PathOK' s' l :=
  pathOK'_mono (fun h _ n hn => by rw [hi]; exact hn) (fun h _ hh => by rw [hd]; exact hh) hp

theorem pathOK'_zero {s : State} {l : List Hash} (hp : PathOK' s l) : l.contains 0 = true := by
  induction hp with
  | base => simp
  | cons _ _ _ _ _ _ ih => simp at ih ⊢; exact Or.inr ih

theorem pathOK'_data {s : State} (hg : (s.status 0).data = true) {l : List Hash} (hp : PathOK' s l) :
    ∀ c ∈ l, (s.status c).data = true := by
  induction hp with
  | base => intro c hc; simp at hc; subst hc; exact hg
  | cons _ _ _ hd _ _ ih =>
    intro c hc
    cases hc with
    | head => exact hd
    | tail _ hc' => exact ih c hc'

theorem pathOK'_dropWhile {s : State} {l : List Hash} (hp : PathOK' s l) (f : Hash) (hf : l.contains f = true) :
    ∃ tl, l.dropWhile (· != f) = f :: tl ∧ PathOK' s (f :: tl) := by
  induction hp with
  | base =>
    have : f = 0 := by simpa using hf
    subst this
    exact ⟨[], by simp [List.dropWhile], PathOK'.base⟩
  | @cons c p r n h0 hl hpar hd hv hr ih =>
    by_cases hc : c = f
    · subst hc
      exact ⟨p :: r, by simp [List.dropWhile], PathOK'.cons h0 hl hpar hd hv hr⟩
    · have hf' : (p :: r).contains f = true := by
        simp at hf ⊢
        rcases hf with h | h
        · exact absurd h.symm hc
        · exact h
      obtain ⟨tl, h1, h2⟩ := ih hf'
      refine ⟨tl, ?_, h2⟩
      have : (c != f) = true := by simpa using hc
      simp only [List.dropWhile, this]
      exact h1

theorem pathOK'_seg {s : State} {h f : Hash} {l : List Node} (hs : Seg s.idx h l f) {tl : List Hash}
    (hm : ∀ m ∈ l, (s.status m.blk.hash).data = true ∧ m.blk.connOk = true ∧ m.blk.hash ≠ 0)
    (hp : PathOK' s (f :: tl)) : PathOK' s (l.map (·.blk.hash) ++ f :: tl) := by
  induction hs with
  | nil => exact hp
  | @cons h n r f hl hs ih =>
    have ih' := ih (fun m hm' => hm m (by simp [hm'])) hp
    obtain ⟨t, ht⟩ := seg_list_head hs tl
    obtain ⟨h1, h2, h3⟩ := hm n (by simp)
    simp only [List.map_cons, List.cons_append]
    rw [ht] at ih' ⊢
    have hn := lookup_hash hl
    exact PathOK'.cons h3 (by rw [hn]; exact hl) rfl h1 h2 ih'

/-- any proper suffix of the chain is again a good chain -/
theorem pathOK'_drop {s : State} {l : List Hash} (hp : PathOK' s l) : ∀ k, k < l.length → PathOK' s (l.drop k) := by
  induction hp with
  | base => intro k hk; simp at hk; subst hk; exact PathOK'.base
  | @cons c p r n h0 hl hpar hd hv hr ih =>
    intro k hk
    cases k with
    | zero => exact PathOK'.cons h0 hl hpar hd hv hr
    | succ j =>
      simp only [List.drop_succ_cons]
      exact ih j (by simp only [List.length_cons] at hk ⊢; omega)

structure SInv (U D : List BlockAbs) (P : List BlockAbs) (s : State) : Prop where
  idx : IdxOK U s.idx
  gData : (s.status 0).data = true
  dIdx : ∀ h, (s.status h).data = true → ∃ n, lookup s.idx h = some n
  dClosed : ∀ h n, (s.status h).data = true → lookup s.idx h = some n → h ≠ 0 → (s.status n.blk.parent).data = true
  dD : ∀ h n, (s.status h).data = true → lookup s.idx h = some n → h ≠ 0 → n.blk ∈ D ∧ n.blk.preOk = true
  vOk : VOk s
  path : PathOK' s s.best
  wOK : ∀ w ∈ Pool s P, w ∈ D ∧ w.sane = true ∧ (s.status w.hash).data = false
  wND : ((Pool s P).map (·.hash)).Nodup

theorem sinv_of_inv {U D : List BlockAbs} {Q : List Hash} {P : List BlockAbs} {s : State} (hi : Inv U D Q P s) :
    SInv U D P s :=
  ⟨hi.c.idx, hi.c.gData, hi.c.dIdx, hi.c.dClosed, hi.c.dD, hi.c.fs.vOk, pathOK'_of hi.c.fs.vOk hi.c.path, hi.wOK, hi.wND⟩

/-- only the status table changed, data flags are the same, `best` is still a good path and valid
flags are still truthful: the safety invariant carries over -/
theorem sinv_transport {U D : List BlockAbs} {P : List BlockAbs} {s s' : State} (hs : SInv U D P s)
    (hc : SameCore s s') (hd : ∀ k, (s'.status k).data = (s.status k).data) (hv : VOk s')
    (hp : PathOK' s' s'.best) : SInv U D P s' := by
  have hi : s'.idx = s.idx := hc.1
  have hpool : Pool s' P = Pool s P := by unfold Pool; rw [hc.2.1]
  constructor
  · rw [hi]; exact hs.idx
  · rw [hd]; exact hs.gData
  · intro h hh; rw [hd] at hh; rw [hi]; exact hs.dIdx h hh
  · intro h n hh hl h0; rw [hd] at hh ⊢; rw [hi] at hl; exact hs.dClosed h n hh hl h0
  · intro h n hh hl h0; rw [hd] at hh; rw [hi] at hl; exact hs.dD h n hh hl h0
  · exact hv
  · exact hp
  · intro w hw; rw [hpool] at hw; rw [hd]; exact hs.wOK w hw
  · rw [hpool]; exact hs.wND

/-! ### valid flags stay truthful -/

theorem vOk_setSt_novalid {s : State} (hv : VOk s) (h : Hash) (f : Status → Status)
    (hf : ∀ t, (f t).valid = true → t.valid = true) : VOk (s.setSt h f) := by
  intro k n hk hl
  rw [status_setSt] at hk
  simp only [setSt_idx] at hl
  by_cases e : h = k
  · subst e; simp only [if_true] at hk; exact hv h n (hf _ hk) hl
  · simp only [e, if_false] at hk; exact hv k n hk hl

theorem vOk_markAll {s : State} (hv : VOk s) (l : List Hash) : VOk (markAllInvAnc s l) := by
  induction l generalizing s with
  | nil => exact hv
  | cons a r ih => exact ih (vOk_setSt_novalid hv a _ (fun t ht => ht))

theorem vOk_markValid {s : State} (hv : VOk s) {h : Hash} {n : Node} (hl : lookup s.idx h = some n)
    (hc : n.blk.connOk = true) : VOk (s.markValid h) := by
  intro k m hk hlm
  unfold State.markValid at hk hlm
  rw [status_setSt] at hk
  simp only [setSt_idx] at hlm
  by_cases e : h = k
  · subst e; rw [hl] at hlm; cases hlm; exact hc
  · simp only [e, if_false] at hk; exact hv k m hk hlm

theorem vOk_verify {s : State} (hv : VOk s) {l : List Node} (hl : ∀ m ∈ l, lookup s.idx m.blk.hash = some m) :
    VOk (verify s l).1 := by
  induction l generalizing s with
  | nil => exact hv
  | cons n r ih =>
    have hn := hl n (by simp)
    have hr : ∀ m ∈ r, lookup s.idx m.blk.hash = some m := fun m hm => hl m (by simp [hm])
    unfold verify
    split
    · exact hv
    · split
      · exact ih hv hr
      · split
        · rename_i hc
          exact ih (vOk_markValid hv hn hc) (by unfold State.markValid; simpa using hr)
        · exact vOk_markAll (s := s.markFailed n.blk.hash)
            (by unfold State.markFailed; exact vOk_setSt_novalid hv _ _ (fun t ht => ht)) _

theorem vOk_getReorgNodes {s : State} (hv : VOk s) (n : Node) : VOk (getReorgNodes s n).1 := by
  unfold getReorgNodes
  split
  · exact vOk_setSt_novalid hv _ _ (fun t ht => ht)
  · simp only []
    split
    · exact vOk_markAll hv _
    · exact hv

/-! ### reorganising to an arbitrary indexed node is safe -/

theorem pathOK_flagExt {s s' : State} (hc : SameCore s s') (hf : FlagExt s s') {l : List Hash} (hp : PathOK' s l) :
    PathOK' s' l := pathOK'_ext hc.1 (fun k => (hf k).1) hp

theorem seg_data' {U D : List BlockAbs} {P : List BlockAbs} {s : State} (hs : SInv U D P s) {h f : Hash} {l : List Node}
    (hseg : Seg s.idx h l f) (hd : (s.status h).data = true)
    (hz : ∀ m ∈ l, m.blk.hash ≠ 0) : ∀ m ∈ l, (s.status m.blk.hash).data = true := by
  induction hseg with
  | nil => intro m hm; cases hm
  | @cons h n r f hl hseg ih =>
    have hn := lookup_hash hl
    have h0 : h ≠ 0 := by rw [← hn]; exact hz n (by simp)
    have hp := hs.dClosed h n hd hl h0
    intro m hm
    cases hm with
    | head => rw [hn]; exact hd
    | tail _ hm' => exact ih hp (fun m hm'' => hz m (by simp [hm''])) m hm'

/-- `getReorganizeNodes` + `reorganizeChain` towards any indexed node keeps the safety invariant -/
theorem reorg_safe {U D : List BlockAbs} {P : List BlockAbs} {s : State} (hs : SInv U D P s) (t : Node)
    (hl : lookup s.idx t.blk.hash = some t) :
    SInv U D P (reorganize (getReorgNodes s t).1 (getReorgNodes s t).2.1 (getReorgNodes s t).2.2).1 := by
  have hz := pathOK'_zero hs.path
  obtain ⟨f, hseg, hfb, hmem⟩ := branch_spec hs.idx s.best hz t.blk.hash (by rw [hl]; rfl)
  -- the two "refused" outcomes and the proper one
  have refused : ∀ s1 : State, SameChain s s1 → FlagExt s s1 → VOk s1 → SInv U D P (reorganize s1 [] []).1 := by
    intro s1 hsc hfe hv1
    have hre : (reorganize s1 [] []).1 = { s1 with best := s1.best, notes := s1.notes } := by
      simp [reorganize, verify]
    rw [hre]
    have hp1 : PathOK' s1 s1.best := by rw [hsc.2.1]; exact pathOK_flagExt hsc.1 hfe hs.path
    exact sinv_transport hs hsc.1 (fun k => (hfe k).1) hv1 hp1
  unfold getReorgNodes
  split
  · exact refused _ (sameChain_setSt s _ _) (flagExt_markInvAnc s _) (vOk_setSt_novalid hs.vOk _ _ (fun t ht => ht))
  · simp only []
    split
    · exact refused _ (sameChain_markAll s _) (flagExt_markAll s _) (vOk_markAll hs.vOk _)
    · simp only []
      rw [seg_fork hseg]
      have hallin := seg_mem hseg
      have hallin' : ∀ m ∈ (branch s.best s.idx t.blk.hash).reverse, lookup s.idx m.blk.hash = some m :=
        fun m hm => hallin m (List.mem_reverse.mp hm)
      have hv1 := vOk_verify hs.vOk hallin'
      have hscv := sameChain_verify s (branch s.best s.idx t.blk.hash).reverse
      have hfev := flagExt_verify s (branch s.best s.idx t.blk.hash).reverse
      have hvok := @verify_ok s (branch s.best s.idx t.blk.hash).reverse
      unfold reorganize
      generalize verify s (branch s.best s.idx t.blk.hash).reverse = vres at hv1 hscv hfev hvok ⊢
      obtain ⟨s1, vr⟩ := vres
      have hp1 : PathOK' s1 s1.best := by rw [hscv.2.1]; exact pathOK_flagExt hscv.1 hfev hs.path
      cases vr with
      | rule => exact sinv_transport hs hscv.1 (fun k => (hfev k).1) hv1 hp1
      | other => exact sinv_transport hs hscv.1 (fun k => (hfev k).1) hv1 hp1
      | ok =>
        simp only []
        have hall := hvok rfl
        obtain ⟨tl, hdw, hptl⟩ := pathOK'_dropWhile hs.path f hfb
        have hbest' : ((branch s.best s.idx t.blk.hash).reverse.map (·.blk.hash)).reverse ++
            s1.best.drop (s.best.takeWhile (· != f)).length =
            (branch s.best s.idx t.blk.hash).map (·.blk.hash) ++ f :: tl := by
          rw [hscv.2.1, drop_takeWhile_length, hdw]
          simp [List.map_reverse]
        rw [hbest']
        generalize hs2 : ({ s1 with
            best := (branch s.best s.idx t.blk.hash).map (·.blk.hash) ++ f :: tl,
            notes := ((branch s.best s.idx t.blk.hash).reverse.map (fun n => Note.conn n.blk.hash)).reverse ++
              (((s.best.takeWhile (· != f)).map Note.disc).reverse ++ s1.notes) } : State) = s2
        have hi2 : s2.idx = s.idx := by rw [← hs2]; exact hscv.1.1
        have hst2 : ∀ k, s2.status k = s1.status k := fun k => by rw [← hs2]; rfl
        have hfe2 : FlagExt s s2 := fun k => by rw [hst2]; exact hfev k
        have hb2 : s2.best = (branch s.best s.idx t.blk.hash).map (·.blk.hash) ++ f :: tl := by rw [← hs2]
        have hsc2 : SameCore s s2 := by
          rw [← hs2]; exact ⟨hscv.1.1, hscv.1.2.1, hscv.1.2.2.1, hscv.1.2.2.2.1, hscv.1.2.2.2.2⟩
        have hv2 : VOk s2 := by
          intro k m hk hm; rw [hst2] at hk; rw [hi2] at hm
          exact hv1 k m hk (by rw [hscv.1.1]; exact hm)
        have hz' : ∀ m ∈ branch s.best s.idx t.blk.hash, m.blk.hash ≠ 0 :=
          fun m hm => contains_false_ne_zero hz (hmem m hm)
        have hp2 : PathOK' s2 s2.best := by
          rw [hb2]
          apply pathOK'_seg
          · rw [hi2]; exact hseg
          · intro m hm
            obtain ⟨v1, v2⟩ := hall m (List.mem_reverse.mpr hm)
            refine ⟨by rw [hst2]; exact v2, ?_, hz' m hm⟩
            exact hv1 m.blk.hash m v1 (by rw [hscv.1.1]; exact hallin m hm)
          · exact pathOK'_ext hi2 (fun k => (hfe2 k).1) hptl
        exact sinv_transport hs hsc2 (fun k => (hfe2 k).1) hv2 hp2

/-! ### connectBestChain -/

theorem connectBest_flagExt (s : State) (n : Node) : FlagExt s (connectBest s n).1 := by
  unfold connectBest
  simp only []
  split
  · split
    · exact fun k => ⟨rfl, rfl, id, id⟩
    · split
      · exact fun k => flagExt_markValid s _ k
      · exact flagExt_markFailed s _
  · split
    · exact FlagExt.refl s
    · have hg := flagExt_getReorgNodes s n
      generalize getReorgNodes s n = g at hg ⊢
      obtain ⟨s1, detach, attach⟩ := g
      simp only [] at hg ⊢
      have hr := reorganize_flagExt s1 detach attach
      generalize reorganize s1 detach attach = r at hr ⊢
      obtain ⟨s2, vr⟩ := r
      cases vr <;> exact hg.trans hr

theorem connectBest_safe {U D : List BlockAbs} {P : List BlockAbs} {s : State} {n : Node} (hs : SInv U D P s)
    (hl : lookup s.idx n.blk.hash = some n) (hd : (s.status n.blk.hash).data = true)
    (hnb : s.best.contains n.blk.hash = false) : SInv U D P (connectBest s n).1 := by
  have hz := pathOK'_zero hs.path
  have hn0 : n.blk.hash ≠ 0 := contains_false_ne_zero hz hnb
  have extend : ∀ s1 : State, SameChain s s1 → FlagExt s s1 → VOk s1 →
      (s1.status n.blk.hash).valid = true → n.blk.parent = s.tip → SInv U D P (connect s1 n.blk.hash) := by
    intro s1 hsc hfe hv1 hv hpt
    have hi : s1.idx = s.idx := hsc.1.1
    have hstc : ∀ k, (connect s1 n.blk.hash).status k = s1.status k := fun k => rfl
    have hfe' : FlagExt s (connect s1 n.blk.hash) := fun k => by rw [hstc]; exact hfe k
    have hcore : SameCore s (connect s1 n.blk.hash) := ⟨hi, hsc.1.2.1, hsc.1.2.2.1, hsc.1.2.2.2.1, hsc.1.2.2.2.2⟩
    have hvc : VOk (connect s1 n.blk.hash) := fun k m hk hm => hv1 k m hk hm
    refine sinv_transport hs hcore (fun k => (hfe' k).1) hvc ?_
    have hb : (connect s1 n.blk.hash).best = n.blk.hash :: s.best := by unfold connect; simp [hsc.2.1]
    rw [hb]
    have hci : (connect s1 n.blk.hash).idx = s.idx := hi
    have hps : PathOK' (connect s1 n.blk.hash) s.best := pathOK'_ext hci (fun k => (hfe' k).1) hs.path
    cases hbest : s.best with
    | nil => rw [hbest] at hps; cases hps
    | cons t r =>
      rw [hbest] at hps
      have ht : s.tip = t := by unfold State.tip; rw [hbest]; rfl
      refine PathOK'.cons hn0 (by rw [hci]; exact hl) (by rw [hpt, ht]) ?_ ?_ hps
      · rw [(hfe' _).1]; exact hd
      · exact hv1 n.blk.hash n hv (by rw [hi]; exact hl)
  unfold connectBest
  simp only []
  by_cases hpt : n.blk.parent = s.tip
  · have hpt' : (n.blk.parent == s.tip) = true := by simpa using hpt
    simp only [hpt', if_true]
    cases hv : (s.status n.blk.hash).valid with
    | true =>
      simp only [if_true]
      exact extend s (SameChain.refl s) (FlagExt.refl s) hs.vOk hv hpt
    | false =>
      simp only [Bool.false_eq_true, if_false]
      cases hcc : n.blk.connOk with
      | true =>
        simp only [if_true]
        have hv' : ((s.markValid n.blk.hash).status n.blk.hash).valid = true := by
          unfold State.markValid; rw [status_setSt]; simp
        exact extend (s.markValid n.blk.hash) (sameChain_setSt s _ _) (flagExt_markValid s _)
          (vOk_markValid hs.vOk hl hcc) hv' hpt
      | false =>
        simp only [Bool.false_eq_true, if_false]
        have hsc := sameChain_setSt s n.blk.hash (fun t => { t with failed := true })
        have hfe := flagExt_markFailed s n.blk.hash
        refine sinv_transport hs hsc.1 (fun k => (hfe k).1)
          (by unfold State.markFailed; exact vOk_setSt_novalid hs.vOk _ _ (fun t ht => ht)) ?_
        exact pathOK_flagExt hsc.1 hfe hs.path
  · have hpt' : (n.blk.parent == s.tip) = false := by simpa using hpt
    simp only [hpt', Bool.false_eq_true, if_false]
    split
    · exact hs
    · have := reorg_safe hs n hl
      generalize getReorgNodes s n = g at this ⊢
      obtain ⟨s1, detach, attach⟩ := g
      simp only [] at this ⊢
      generalize reorganize s1 detach attach = r at this ⊢
      obtain ⟨s2, vr⟩ := r
      cases vr <;> exact this

/-! ### maybeAcceptBlock -/

theorem store_safe {U D : List BlockAbs} {P : List BlockAbs} {s s1 : State} {n : Node}
    (hs : SInv U D (n.blk :: P) s)
    (hkp : (s.status n.blk.parent).data = true) (hpre : n.blk.preOk = true)
    (hln : lookup s1.idx n.blk.hash = some n)
    (hlk : ∀ h, h ≠ n.blk.hash → lookup s1.idx h = lookup s.idx h)
    (hio : IdxOK U s1.idx)
    (hst : ∀ h, h ≠ n.blk.hash → s1.status h = s.status h)
    (hsd : (s1.status n.blk.hash).data = true)
    (hv1 : VOk s1) (hb1 : s1.best = s.best) (ho1 : s1.orphans = s.orphans) :
    SInv U D P (connectBest s1 n).1 ∧ (connectBest s1 n).1.orphans = s.orphans ∧
    (∀ h, (s.status h).data = true → ((connectBest s1 n).1.status h).data = true) ∧
    ((connectBest s1 n).1.status n.blk.hash).data = true := by
  have hkPool : n.blk ∈ Pool s (n.blk :: P) := by unfold Pool; simp
  obtain ⟨hkD, hksane, hknd⟩ := hs.wOK n.blk hkPool
  have hnd0 := hs.wND
  unfold Pool at hnd0
  obtain ⟨hnd', hne⟩ := nodup_mid (l1 := s.orphans.map (·.1)) (l2 := P) (k := n.blk) hnd0
  have hdmono : ∀ h, (s.status h).data = true → (s1.status h).data = true := by
    intro h hh
    by_cases e : h = n.blk.hash
    · rw [e]; exact hsd
    · rw [hst h e]; exact hh
  have hbd : ∀ c ∈ s.best, (s.status c).data = true := pathOK'_data hs.gData hs.path
  have hbne : ∀ c ∈ s.best, c ≠ n.blk.hash := by
    intro c hc e; have := hbd c hc; rw [e, hknd] at this; cases this
  have hs1 : SInv U D P s1 := by
    constructor
    · exact hio
    · exact hdmono 0 hs.gData
    · intro h hh
      by_cases e : h = n.blk.hash
      · rw [e]; exact ⟨n, hln⟩
      · rw [hst h e] at hh; rw [hlk h e]; exact hs.dIdx h hh
    · intro h m hh hm h0
      by_cases e : h = n.blk.hash
      · rw [e, hln] at hm; cases hm; exact hdmono _ hkp
      · rw [hst h e] at hh; rw [hlk h e] at hm
        exact hdmono _ (hs.dClosed h m hh hm h0)
    · intro h m hh hm h0
      by_cases e : h = n.blk.hash
      · rw [e, hln] at hm; cases hm; exact ⟨hkD, hpre⟩
      · rw [hst h e] at hh; rw [hlk h e] at hm
        exact hs.dD h m hh hm h0
    · exact hv1
    · rw [hb1]
      apply pathOK'_mono _ _ hs.path
      · intro h hh m hm; rw [hlk h (hbne h hh)]; exact hm
      · intro h _ hd; exact hdmono h hd
    · intro w hw
      have hw1 : w ∈ s.orphans.map (·.1) ++ P := by unfold Pool at hw; rw [ho1] at hw; exact hw
      have hw' : w ∈ Pool s (n.blk :: P) := by
        unfold Pool; simp at hw1 ⊢; rcases hw1 with h | h
        · exact Or.inl h
        · exact Or.inr (Or.inr h)
      obtain ⟨a, b, c⟩ := hs.wOK w hw'
      refine ⟨a, b, ?_⟩
      rw [hst _ (hne w hw1)]; exact c
    · unfold Pool; rw [ho1]; exact hnd'
  have hnb : s1.best.contains n.blk.hash = false := by
    rw [hb1, mem_contains]; intro hc; exact hbne _ hc rfl
  have h2 := connectBest_safe hs1 hln hsd hnb
  have hfe := connectBest_flagExt s1 n
  have hsc := connectBest_sameCore s1 n
  refine ⟨h2, by rw [hsc.2.1, ho1], ?_, ?_⟩
  · intro h hh; rw [(hfe h).1]; exact hdmono h hh
  · rw [(hfe _).1]; exact hsd

theorem vOk_markData {s : State} (hv : VOk s) (h : Hash) : VOk (s.markData h) := by
  unfold State.markData
  exact vOk_setSt_novalid hv h _ (fun t ht => ht)

theorem maybeAccept_safe {U D : List BlockAbs} {P : List BlockAbs} {s : State} {k : BlockAbs}
    (hwf : WF U) (hDU : ∀ b ∈ D, b ∈ U) (hs : SInv U D (k :: P) s) (hkp : (s.status k.parent).data = true) :
    SInv U D P (maybeAccept s k).1 ∧ (maybeAccept s k).1.orphans = s.orphans ∧
    (∀ h, (s.status h).data = true → ((maybeAccept s k).1.status h).data = true) ∧
    ((maybeAccept s k).2.isSome = true → ((maybeAccept s k).1.status k.hash).data = true) := by
  have hkPool : k ∈ Pool s (k :: P) := by unfold Pool; simp
  obtain ⟨hkD, hksane, hknd⟩ := hs.wOK k hkPool
  have hkU := hDU k hkD
  have hk0 : k.hash ≠ 0 := hwf.2.1 k hkU
  have hnd0 := hs.wND
  unfold Pool at hnd0
  obtain ⟨hnd', hne⟩ := nodup_mid (l1 := s.orphans.map (·.1)) (l2 := P) (k := k) hnd0
  have hsub : ∀ w ∈ Pool s P, w ∈ Pool s (k :: P) := by
    intro w hw; unfold Pool at hw ⊢; simp at hw ⊢; rcases hw with h | h
    · exact Or.inl h
    · exact Or.inr (Or.inr h)
  have reject : SInv U D P s :=
    { hs with wOK := fun w hw => hs.wOK w (hsub w hw), wND := by unfold Pool; exact hnd' }
  obtain ⟨p, hlp⟩ := hs.dIdx k.parent hkp
  unfold maybeAccept
  simp only [hlp]
  split
  · exact ⟨reject, rfl, fun h hh => hh, by simp⟩
  · split
    · exact ⟨reject, rfl, fun h hh => hh, by simp⟩
    · split
      · exact ⟨reject, rfl, fun h hh => hh, by simp⟩
      · rename_i hhc
        have hhc' : (k.hdrOk && k.ctxOk) = true := by simpa using hhc
        have hpre : k.preOk = true := by
          unfold BlockAbs.preOk; simp only [Bool.and_eq_true] at hhc' ⊢; exact ⟨⟨hksane, hhc'.1⟩, hhc'.2⟩
        cases hlk : lookup s.idx k.hash with
        | some n =>
          simp only []
          obtain ⟨hnU, _⟩ := idxOK_node hs.idx hlk hk0
          have hnk : n.blk = k := wf_eq hwf hnU hkU (lookup_hash hlk)
          subst hnk
          obtain ⟨a, b, c, d⟩ := store_safe (s1 := s.markData n.blk.hash) hs hkp hpre hlk (fun h _ => rfl) hs.idx
            (by intro h hh; unfold State.markData; rw [status_setSt]; simp [Ne.symm hh])
            (by unfold State.markData; rw [status_setSt]; simp)
            (vOk_markData hs.vOk _) rfl rfl
          exact ⟨a, b, c, fun _ => d⟩
        | none =>
          simp only []
          generalize hn : (⟨k, p.height + 1, p.workSum + k.work⟩ : Node) = n
          have hnk : n.blk = k := by rw [← hn]
          subst hnk
          have hst1 : ∀ h, ({ s with idx := n :: s.idx, st := (n.blk.hash, ({ data := true, header := true } : Status)) :: s.st } : State).status h
              = if n.blk.hash = h then ({ data := true, header := true } : Status) else s.status h := by
            intro h; unfold State.status; simp only [stOf_cons]
          obtain ⟨a, b, c, d⟩ := store_safe
            (s1 := { s with idx := n :: s.idx, st := (n.blk.hash, ({ data := true, header := true } : Status)) :: s.st })
            hs hkp hpre
            (by show lookup (n :: s.idx) n.blk.hash = some n; rw [lookup_cons]; simp)
            (by intro h hh; show lookup (n :: s.idx) h = lookup s.idx h; rw [lookup_cons]; simp [Ne.symm hh])
            (by show IdxOK U (n :: s.idx)
                refine IdxOK.cons hs.idx hk0 hlk hkU hlp ?_ ?_
                · rw [← hn]
                · rw [← hn])
            (by intro h hh; rw [hst1]; simp [Ne.symm hh])
            (by rw [hst1]; simp)
            (by
              intro h m hv hm
              rw [hst1] at hv
              by_cases e : n.blk.hash = h
              · simp [e] at hv
              · simp only [e, if_false] at hv
                have hm' : lookup (n :: s.idx) h = some m := hm
                rw [lookup_cons] at hm'
                simp only [e, if_false] at hm'
                exact hs.vOk h m hv hm')
            rfl rfl
          exact ⟨a, b, c, fun _ => d⟩

/-! ### processOrphans, addOrphanBlock, ProcessBlock, ProcessBlockHeader -/

theorem acceptKids_safe {U D : List BlockAbs} (hwf : WF U) (hDU : ∀ b ∈ D, b ∈ U) :
    ∀ (ks : List BlockAbs) (s : State) (acc : List Hash) (e : Bool),
    SInv U D ks s → (∀ k ∈ ks, (s.status k.parent).data = true) → (∀ h ∈ acc, (s.status h).data = true) →
    SInv U D [] (acceptKids s ks acc e).1 ∧ (acceptKids s ks acc e).1.orphans = s.orphans ∧
    (∀ h, (s.status h).data = true → ((acceptKids s ks acc e).1.status h).data = true) ∧
    (∀ h ∈ (acceptKids s ks acc e).2.1, ((acceptKids s ks acc e).1.status h).data = true) := by
  intro ks
  induction ks with
  | nil => intro s acc e hs _ hacc; exact ⟨hs, rfl, fun h hh => hh, hacc⟩
  | cons k ks ih =>
    intro s acc e hs hpar hacc
    obtain ⟨h1, h2, h4, h5⟩ := maybeAccept_safe hwf hDU hs (hpar k (by simp))
    unfold acceptKids
    generalize maybeAccept s k = res at h1 h2 h4 h5 ⊢
    obtain ⟨s1, o⟩ := res
    simp only [] at h1 h2 h4 h5 ⊢
    cases o with
    | none =>
      simp only []
      obtain ⟨a, b, d, f⟩ := ih s1 acc true h1 (fun k' hk' => h4 _ (hpar k' (by simp [hk'])))
        (fun h hh => h4 _ (hacc h hh))
      exact ⟨a, b.trans h2, fun h hh => d h (h4 h hh), f⟩
    | some m =>
      simp only []
      obtain ⟨a, b, d, f⟩ := ih s1 (acc ++ [k.hash]) e h1
        (fun k' hk' => h4 _ (hpar k' (by simp [hk'])))
        (by
          intro h hh
          simp at hh
          rcases hh with hh | hh
          · exact h4 _ (hacc h hh)
          · rw [hh]; exact h5 rfl)
      exact ⟨a, b.trans h2, fun h hh => d h (h4 h hh), f⟩

theorem sinv_congr {U D : List BlockAbs} {P : List BlockAbs} {s s' : State} (hi : s'.idx = s.idx) (hst : s'.st = s.st)
    (hb : s'.best = s.best) (ho : s'.orphans = s.orphans) (hs : SInv U D P s) : SInv U D P s' := by
  have hss : ∀ k, s'.status k = s.status k := fun k => by unfold State.status; rw [hst]
  have hfe : FlagExt s s' := fun k => by rw [hss]; exact ⟨rfl, rfl, id, id⟩
  have hpool : Pool s' P = Pool s P := by unfold Pool; rw [ho]
  constructor
  · rw [hi]; exact hs.idx
  · rw [hss]; exact hs.gData
  · intro h hh; rw [hss] at hh; rw [hi]; exact hs.dIdx h hh
  · intro h n hh hl h0; rw [hss] at hh ⊢; rw [hi] at hl; exact hs.dClosed h n hh hl h0
  · intro h n hh hl h0; rw [hss] at hh; rw [hi] at hl; exact hs.dD h n hh hl h0
  · intro h n hv hl; rw [hss] at hv; rw [hi] at hl; exact hs.vOk h n hv hl
  · rw [hb]; exact pathOK'_ext hi (fun k => (hfe k).1) hs.path
  · intro w hw; rw [hpool] at hw; rw [hss]; exact hs.wOK w hw
  · rw [hpool]; exact hs.wND

theorem drain_safe {U D : List BlockAbs} (hwf : WF U) (hDU : ∀ b ∈ D, b ∈ U) :
    ∀ (f : Nat) (s : State) (q : List Hash) (e : Bool),
    SInv U D [] s → (∀ h ∈ q, (s.status h).data = true) → SInv U D [] (drain f s q e).1 := by
  intro f
  induction f with
  | zero => intro s q e hs _; exact hs
  | succ f ih =>
    intro s q e hs hqd
    cases q with
    | nil => exact hs
    | cons h q' =>
      unfold drain
      simp only []
      generalize hs0 : ({ s with orphans := s.orphans.filter (fun p => !(p.1.parent == h)) } : State) = s0
      have hi0 : s0.idx = s.idx := by rw [← hs0]
      have hst0 : s0.st = s.st := by rw [← hs0]
      have hb0 : s0.best = s.best := by rw [← hs0]
      have ho0 : s0.orphans = s.orphans.filter (fun p => !(p.1.parent == h)) := by rw [← hs0]
      have hss : ∀ k, s0.status k = s.status k := fun k => by unfold State.status; rw [hst0]
      have hfe : FlagExt s s0 := fun k => by rw [hss]; exact ⟨rfl, rfl, id, id⟩
      have hperm : (Pool s0 ((s.orphans.filter (fun p => p.1.parent == h)).map (·.1))).Perm (Pool s []) := by
        unfold Pool
        rw [ho0, List.append_nil, ← List.map_append]
        apply List.Perm.map
        exact List.perm_append_comm.trans (List.filter_append_perm _ _)
      have hinv0 : SInv U D ((s.orphans.filter (fun p => p.1.parent == h)).map (·.1)) s0 := by
        constructor
        · rw [hi0]; exact hs.idx
        · rw [hss]; exact hs.gData
        · intro x hh; rw [hss] at hh; rw [hi0]; exact hs.dIdx x hh
        · intro x n hh hl h0; rw [hss] at hh ⊢; rw [hi0] at hl; exact hs.dClosed x n hh hl h0
        · intro x n hh hl h0; rw [hss] at hh; rw [hi0] at hl; exact hs.dD x n hh hl h0
        · intro x n hv hl; rw [hss] at hv; rw [hi0] at hl; exact hs.vOk x n hv hl
        · rw [hb0]; exact pathOK'_ext hi0 (fun k => (hfe k).1) hs.path
        · intro w hw; rw [hss]; exact hs.wOK w (hperm.mem_iff.mp hw)
        · exact (hperm.map _).nodup_iff.mpr hs.wND
      have hkids : ∀ k ∈ (s.orphans.filter (fun p => p.1.parent == h)).map (·.1), (s0.status k.parent).data = true := by
        intro k hk
        obtain ⟨o, ho, rfl⟩ := List.mem_map.mp hk
        obtain ⟨_, ho2⟩ := List.mem_filter.mp ho
        have : o.1.parent = h := by simpa using ho2
        rw [hss, this]
        exact hqd h (by simp)
      obtain ⟨a, b, d, g⟩ := acceptKids_safe hwf hDU _ s0 [] e hinv0 hkids (by intro x hx; cases hx)
      generalize acceptKids s0 ((s.orphans.filter (fun p => p.1.parent == h)).map (·.1)) [] e = res at a b d g ⊢
      obtain ⟨s1, acc, e1⟩ := res
      simp only [] at a b d g ⊢
      apply ih s1 (q' ++ acc) e1 a
      intro x hx
      simp at hx
      rcases hx with hx | hx
      · apply d; rw [hss]; exact hqd x (by simp [hx])
      · exact g x hx

theorem processBlock_safe {U D : List BlockAbs} {s : State} {b : BlockAbs} (hwf : WF U) (hDU : ∀ x ∈ D, x ∈ U)
    (hbU : b ∈ U) (hs : SInv U D [] s) : SInv U (b :: D) [] (processBlock s b).1 := by
  have hDU' : ∀ x ∈ b :: D, x ∈ U := by
    intro x hx; simp only [List.mem_cons] at hx; rcases hx with hx | hx
    · subst hx; exact hbU
    · exact hDU x hx
  have hmono : SInv U (b :: D) [] s :=
    { hs with
      dD := fun h n hd hl h0 => ⟨List.mem_cons_of_mem _ (hs.dD h n hd hl h0).1, (hs.dD h n hd hl h0).2⟩,
      wOK := fun w hw => ⟨List.mem_cons_of_mem _ (hs.wOK w hw).1, (hs.wOK w hw).2⟩ }
  unfold processBlock
  cases hdat : (s.status b.hash).data with
  | true => simp only [if_true]; exact hmono
  | false =>
    simp only [Bool.false_eq_true, if_false]
    cases horp : s.orphans.any (fun p => p.1.hash == b.hash) with
    | true => simp only [if_true]; exact hmono
    | false =>
      simp only [Bool.false_eq_true, if_false]
      have hfresh : ∀ o ∈ s.orphans, o.1.hash ≠ b.hash := by
        intro o ho e
        have : s.orphans.any (fun p => p.1.hash == b.hash) = true := by
          simp only [List.any_eq_true]; exact ⟨o, ho, by simpa using e⟩
        rw [horp] at this; cases this
      cases hsane : b.sane with
      | false => simp only [Bool.not_false, if_true]; exact hmono
      | true =>
        simp only [Bool.not_true, Bool.false_eq_true, if_false]
        cases hpd : (s.status b.parent).data with
        | false =>
          simp only [Bool.not_false, if_true]
          obtain ⟨hidx, hst, hbest, keep, c, horph, hsub, _, _⟩ := addOrphan_shape s b
          generalize addOrphan s b = s' at hidx hst hbest horph ⊢
          have hss : ∀ k, s'.status k = s.status k := fun k => by unfold State.status; rw [hst]
          have hfe : FlagExt s s' := fun k => by rw [hss]; exact ⟨rfl, rfl, id, id⟩
          have hpool : Pool s' [] = keep.map (·.1) ++ [b] := by unfold Pool; rw [horph]; simp
          have hkm : ∀ o ∈ keep, o ∈ s.orphans := fun o ho => hsub.subset ho
          constructor
          · rw [hidx]; exact hs.idx
          · rw [hss]; exact hs.gData
          · intro x hh; rw [hss] at hh; rw [hidx]; exact hs.dIdx x hh
          · intro x n hh hl h0; rw [hss] at hh ⊢; rw [hidx] at hl; exact hs.dClosed x n hh hl h0
          · intro x n hh hl h0; rw [hss] at hh; rw [hidx] at hl; exact hmono.dD x n hh hl h0
          · intro x n hv hl; rw [hss] at hv; rw [hidx] at hl; exact hs.vOk x n hv hl
          · rw [hbest]; exact pathOK'_ext hidx (fun k => (hfe k).1) hs.path
          · intro w hw
            rw [hpool] at hw
            rw [hss]
            simp only [List.mem_append, List.mem_map, List.mem_singleton] at hw
            rcases hw with ⟨o, ho, rfl⟩ | rfl
            · exact hmono.wOK o.1 (by unfold Pool; simp; exact ⟨o.2, hkm o ho⟩)
            · exact ⟨by simp, hsane, hdat⟩
          · rw [hpool]
            simp only [List.map_append, List.map_map, List.map_cons, List.map_nil]
            rw [List.nodup_append]
            refine ⟨?_, by simp, ?_⟩
            · have h0 := hs.wND
              unfold Pool at h0
              simp only [List.append_nil, List.map_map] at h0
              exact List.Nodup.sublist (hsub.map _) h0
            · intro a ha x hx
              simp only [List.mem_singleton] at hx
              subst hx
              obtain ⟨o, ho, rfl⟩ := List.mem_map.mp ha
              exact hfresh o (hkm o ho)
        | true =>
          simp only [Bool.not_true, Bool.false_eq_true, if_false]
          have hsP : SInv U (b :: D) [b] s := by
            refine { hmono with wOK := ?_, wND := ?_ }
            · intro w hw
              unfold Pool at hw
              simp only [List.mem_append, List.mem_singleton] at hw
              rcases hw with hw | hw
              · exact hmono.wOK w (by unfold Pool; simpa using hw)
              · subst hw; exact ⟨by simp, hsane, hdat⟩
            · unfold Pool
              simp only [List.map_append, List.map_map, List.map_cons, List.map_nil]
              rw [List.nodup_append]
              refine ⟨?_, by simp, ?_⟩
              · have h0 := hs.wND
                unfold Pool at h0
                simpa using h0
              · intro a ha x hx
                simp only [List.mem_singleton] at hx
                subst hx
                obtain ⟨o, ho, rfl⟩ := List.mem_map.mp ha
                exact hfresh o ho
          obtain ⟨h1, h2, h4, h5⟩ := maybeAccept_safe hwf hDU' hsP hpd
          generalize maybeAccept s b = res at h1 h2 h4 h5 ⊢
          obtain ⟨s1, o⟩ := res
          simp only [] at h1 h2 h4 h5 ⊢
          cases o with
          | none => exact h1
          | some m =>
            simp only []
            have r1 := drain_safe hwf hDU' (s1.orphans.length + 1) s1 [b.hash] false h1
              (by intro x hx; simp only [List.mem_singleton] at hx; subst hx; exact h5 rfl)
            generalize drain (s1.orphans.length + 1) s1 [b.hash] false = dres at r1 ⊢
            obtain ⟨s2, e2⟩ := dres
            cases e2 <;> exact r1

theorem processHeaderCore_safe {U D : List BlockAbs} {s : State} {b : BlockAbs} (hwf : WF U)
    (hbU : b ∈ U) (hs : SInv U D [] s) : SInv U D [] (processHeaderCore s b).1 := by
  unfold processHeaderCore
  cases hlp : lookup s.idx b.parent with
  | none => exact hs
  | some p =>
    simp only []
    split
    · exact hs
    · cases hlb : lookup s.idx b.hash with
      | some n =>
        simp only []
        split <;> exact hs
      | none =>
        simp only []
        split
        · exact hs
        · have hb0 : b.hash ≠ 0 := hwf.2.1 b hbU
          generalize hn : (⟨b, p.height + 1, p.workSum + b.work⟩ : Node) = n
          have hnb : n.blk = b := by rw [← hn]
          generalize hs1 : ({ s with idx := n :: s.idx, st := (b.hash, ({ header := true } : Status)) :: s.st } : State) = s1
          have hidx1 : s1.idx = n :: s.idx := by rw [← hs1]
          have hbest1 : s1.best = s.best := by rw [← hs1]
          have horph1 : s1.orphans = s.orphans := by rw [← hs1]
          have hst1 : ∀ h, s1.status h = if b.hash = h then ({ header := true } : Status) else s.status h := by
            intro h; rw [← hs1]; unfold State.status; simp only [stOf_cons]
          have hnd : (s.status b.hash).data = false := by
            cases hd : (s.status b.hash).data with
            | false => rfl
            | true =>
              obtain ⟨m, hm⟩ := hs.dIdx _ hd
              rw [hlb] at hm; cases hm
          have hdat : ∀ h, (s1.status h).data = (s.status h).data := by
            intro h; rw [hst1]
            by_cases e : b.hash = h
            · subst e; simp [hnd]
            · simp [e]
          have hlk : ∀ h, h ≠ b.hash → lookup s1.idx h = lookup s.idx h := by
            intro h hh; rw [hidx1, lookup_cons, hnb]; simp [Ne.symm hh]
          have hlmono : ∀ h m, lookup s.idx h = some m → lookup s1.idx h = some m := by
            intro h m hm
            rw [hidx1]
            exact lookup_cons_of_some (by rw [hnb]; exact hlb) hm
          have hpool : Pool s1 [] = Pool s [] := by unfold Pool; rw [horph1]
          constructor
          · rw [hidx1]
            refine IdxOK.cons hs.idx (by rw [hnb]; exact hb0) (by rw [hnb]; exact hlb) (by rw [hnb]; exact hbU)
              (by rw [hnb]; exact hlp) ?_ ?_
            · rw [← hn]
            · rw [← hn]
          · rw [hdat]; exact hs.gData
          · intro h hh; rw [hdat] at hh
            obtain ⟨m, hm⟩ := hs.dIdx h hh
            exact ⟨m, hlmono h m hm⟩
          · intro h m hh hm h0
            rw [hdat] at hh ⊢
            have hne : h ≠ b.hash := by intro e; rw [e, hnd] at hh; cases hh
            rw [hlk h hne] at hm
            exact hs.dClosed h m hh hm h0
          · intro h m hh hm h0
            rw [hdat] at hh
            have hne : h ≠ b.hash := by intro e; rw [e, hnd] at hh; cases hh
            rw [hlk h hne] at hm
            exact hs.dD h m hh hm h0
          · intro h m hv hm
            rw [hst1] at hv
            by_cases e : b.hash = h
            · simp [e] at hv
            · simp only [e, if_false] at hv
              rw [hlk h (Ne.symm e)] at hm
              exact hs.vOk h m hv hm
          · rw [hbest1]
            apply pathOK'_mono _ _ hs.path
            · intro h _ m hm; exact hlmono h m hm
            · intro h _ hd; rw [hdat]; exact hd
          · intro w hw; rw [hpool] at hw; rw [hdat]; exact hs.wOK w hw
          · rw [hpool]; exact hs.wND

theorem processHeader_safe {U D : List BlockAbs} {s : State} {b : BlockAbs} (hwf : WF U)
    (hbU : b ∈ U) (hs : SInv U D [] s) : SInv U D [] (processHeader s b).1 := by
  obtain ⟨x, hx⟩ := processHeader_shape s b
  rw [hx]
  exact sinv_congr (s := (processHeaderCore s b).1) rfl rfl rfl rfl (processHeaderCore_safe hwf hbU hs)

/-! ### InvalidateBlock / ReconsiderBlock keep the safety invariant -/

/-- only flags changed; data flags untouched and no valid flag appeared -/
def DSame (s s' : State) : Prop :=
  SameCore s s' ∧ s'.best = s.best ∧ (∀ k, (s'.status k).data = (s.status k).data) ∧
  (∀ k, (s'.status k).valid = true → (s.status k).valid = true)

theorem DSame.refl (s : State) : DSame s s := ⟨SameCore.refl s, rfl, fun _ => rfl, fun _ h => h⟩
theorem DSame.trans {a b c : State} (h1 : DSame a b) (h2 : DSame b c) : DSame a c :=
  ⟨h1.1.trans h2.1, h2.2.1.trans h1.2.1, fun k => (h2.2.2.1 k).trans (h1.2.2.1 k), fun k h => h1.2.2.2 k (h2.2.2.2 k h)⟩

theorem dsame_setSt (s : State) (h : Hash) (f : Status → Status) (hd : ∀ t, (f t).data = t.data)
    (hv : ∀ t, (f t).valid = true → t.valid = true) : DSame s (s.setSt h f) := by
  refine ⟨sameCore_setSt s h f, rfl, ?_, ?_⟩
  · intro k; rw [status_setSt]; by_cases e : h = k
    · subst e; simp [hd]
    · simp [e]
  · intro k hk; rw [status_setSt] at hk; by_cases e : h = k
    · subst e; simp only [if_true] at hk; exact hv _ hk
    · simp only [e, if_false] at hk; exact hk

theorem dsame_foldl {α : Type} (l : List α) (g : State → α → State) (hg : ∀ s a, DSame s (g s a)) (s : State) :
    DSame s (l.foldl g s) := by
  induction l generalizing s with
  | nil => exact DSame.refl s
  | cons a r ih => exact (hg s a).trans (ih _)

theorem dsame_unmark (s : State) (h : Hash) : DSame s (unmarkValidMarkInvAnc s h) := by
  unfold unmarkValidMarkInvAnc
  split
  · exact DSame.refl s
  · exact dsame_setSt s h _ (fun _ => rfl) (fun t ht => by simp at ht)

theorem sinv_dsame {U D : List BlockAbs} {P : List BlockAbs} {s s' : State} (hs : SInv U D P s) (hd : DSame s s') :
    SInv U D P s' := by
  refine sinv_transport hs hd.1 hd.2.2.1 ?_ ?_
  · intro k n hk hl; rw [hd.1.1] at hl; exact hs.vOk k n (hd.2.2.2 k hk) hl
  · rw [hd.2.1]; exact pathOK'_ext hd.1.1 hd.2.2.1 hs.path

theorem idxOK_lookup_of_mem {U : List BlockAbs} {idx : List Node} (hi : IdxOK U idx) {m : Node} (hm : m ∈ idx) :
    lookup idx m.blk.hash = some m := by
  induction hi with
  | base => simp at hm; subst hm; rfl
  | @cons n p rest _ hn hf _ _ _ _ ih =>
    cases hm with
    | head => rw [lookup_cons]; simp
    | tail _ hm' => exact lookup_cons_of_some hf (ih hm')

theorem inactiveTips_mem (s : State) {m : Node} (hm : m ∈ inactiveTips s) : m ∈ s.idx := by
  unfold inactiveTips at hm
  exact (List.mem_filter.mp hm).1

theorem reconsiderTarget_mem (dts : List Node) (node : Node) (c : Option Hash) :
    reconsiderTarget dts node c = node ∨ reconsiderTarget dts node c ∈ dts := by
  have hlast : ((maxWorkOf dts).getLast?).getD node = node ∨ ((maxWorkOf dts).getLast?).getD node ∈ dts := by
    cases hg : (maxWorkOf dts).getLast? with
    | none => exact Or.inl rfl
    | some x =>
      right
      have : x ∈ maxWorkOf dts := List.mem_of_getLast? hg
      unfold maxWorkOf at this
      exact (List.mem_filter.mp this).1
  unfold reconsiderTarget
  cases c with
  | none => exact hlast
  | some c =>
    simp only []
    cases hf : dts.find? (fun n => n.blk.hash == c) with
    | none => exact hlast
    | some n => exact Or.inr (List.mem_of_find?_eq_some hf)

theorem reconsider_safe {U D : List BlockAbs} {s : State} (hs : SInv U D [] s) (h : Hash) (c : Option Hash) :
    SInv U D [] (reconsider s h c).1 := by
  unfold reconsider
  cases hl : lookup s.idx h with
  | none => exact hs
  | some node =>
    simp only []
    split
    · exact hs
    · have d0 := dsame_setSt s h (fun t => { t with invalidAnc := false, failed := false }) (fun _ => rfl) (fun t ht => ht)
      generalize (s.setSt h (fun t => { t with invalidAnc := false, failed := false })) = s0 at d0 ⊢
      have d1 := dsame_foldl (descTips s0 h)
        (fun s t => ((t.blk.hash :: ancestors s.idx t.blk.hash).takeWhile (· != h)).foldl
          (fun s x => s.setSt x (fun t => { t with invalidAnc := false })) s)
        (fun s a => dsame_foldl _ _
          (fun s x => dsame_setSt s x (fun t => { t with invalidAnc := false }) (fun _ => rfl) (fun t ht => ht)) s) s0
      have hdts : ∀ m ∈ descTips s0 h, lookup s0.idx m.blk.hash = some m := by
        intro m hm
        unfold descTips at hm
        have hm' := (List.mem_filter.mp hm).1
        simp only [List.mem_append] at hm'
        have hi0 : IdxOK U s0.idx := by rw [d0.1.1]; exact hs.idx
        rcases hm' with hm' | hm'
        · exact idxOK_lookup_of_mem hi0 (inactiveTips_mem s0 hm')
        · cases hlt : lookup s0.idx s0.tip with
          | none => rw [hlt] at hm'; cases hm'
          | some n =>
            rw [hlt] at hm'; simp only [List.mem_singleton] at hm'; subst hm'
            rw [lookup_hash hlt]; exact hlt
      generalize hdt : descTips s0 h = dts at d1 hdts ⊢
      generalize (dts.foldl (fun s t => ((t.blk.hash :: ancestors s.idx t.blk.hash).takeWhile (· != h)).foldl
          (fun s x => s.setSt x (fun t => { t with invalidAnc := false })) s) s0) = s1 at d1 ⊢
      have hs1 : SInv U D [] s1 := sinv_dsame hs (d0.trans d1)
      have hrt : lookup s1.idx (reconsiderTarget dts node c).blk.hash = some (reconsiderTarget dts node c) := by
        rw [d1.1.1]
        rcases reconsiderTarget_mem dts node c with e | e
        · rw [e, d0.1.1, lookup_hash hl]; exact hl
        · exact hdts _ e
      generalize reconsiderTarget dts node c = rt at hrt ⊢
      split
      · exact hs1
      · have := reorg_safe hs1 rt hrt
        generalize getReorgNodes s1 rt = g at this ⊢
        obtain ⟨s2, detach, attach⟩ := g
        simp only [] at this ⊢
        generalize reorganize s2 detach attach = r at this ⊢
        obtain ⟨s3, vr⟩ := r
        exact this

theorem tw_len {s : State} {l : List Hash} (hp : PathOK' s l) {h : Hash} (hm : h ∈ l) (h0 : h ≠ 0) :
    (l.takeWhile (· != h)).length + 1 < l.length := by
  induction hp with
  | base => simp at hm; exact absurd hm h0
  | @cons c p r n hc0 hl hpar hd hv hr ih =>
    by_cases e : c = h
    · subst e; simp [List.takeWhile]
    · have e' : (c != h) = true := by simpa using e
      have hm' : h ∈ p :: r := by
        cases hm with
        | head => exact absurd rfl e
        | tail _ hm'' => exact hm''
      have := ih hm'
      simp only [List.takeWhile, e', List.length_cons] at this ⊢
      omega

theorem pick_mem (cands : List Node) (c : Option Hash) (t : Node) (hp : pick cands c = some t) : t ∈ cands := by
  unfold pick at hp
  cases c with
  | none => exact List.mem_of_getLast? hp
  | some c =>
    simp only [] at hp
    cases hf : cands.find? (fun n => n.blk.hash == c) with
    | none => rw [hf] at hp; exact List.mem_of_getLast? hp
    | some n => rw [hf] at hp; cases hp; exact List.mem_of_find?_eq_some hf

theorem invalidate_safe {U D : List BlockAbs} {s : State} (hs : SInv U D [] s) (h : Hash) (c : Option Hash) :
    SInv U D [] (invalidate s h c).1 := by
  unfold invalidate
  cases hl : lookup s.idx h with
  | none => exact hs
  | some node =>
    simp only []
    split
    · exact hs
    · rename_i hh
      split
      · exact hs
      · have h0 : h ≠ 0 := by
          intro e; subst e
          have := idxOK_genesis_only hs.idx hl
          subst this
          simp [genesisNode] at hh
        have d0 := dsame_setSt s h (fun t => { t with failed := true, valid := false }) (fun _ => rfl)
          (fun t ht => by simp at ht)
        generalize (s.setSt h (fun t => { t with failed := true, valid := false })) = s0 at d0 ⊢
        split
        · apply sinv_dsame hs
          apply d0.trans
          exact dsame_foldl _ _ (fun s a => dsame_foldl _ _ (fun s x => dsame_unmark s x) s) s0
        · rename_i hb
          have hb' : s0.best.contains h = true := by simpa using hb
          have hhb : h ∈ s.best := by rw [d0.2.1] at hb'; simpa using hb'
          have d1 := dsame_foldl ((s0.best.takeWhile (· != h)).filter (fun x => !(s0.status x).knownInvalid))
            (fun s x => s.setSt x (fun t => { t with invalidAnc := true, valid := false }))
            (fun s a => dsame_setSt s a _ (fun _ => rfl) (fun t ht => by simp at ht)) s0
          have hablen : ((s0.best.takeWhile (· != h)).filter (fun x => !(s0.status x).knownInvalid)).length ≤
              (s.best.takeWhile (· != h)).length := by
            rw [d0.2.1]; exact List.length_filter_le _ _
          generalize ((s0.best.takeWhile (· != h)).filter (fun x => !(s0.status x).knownInvalid)) = above at d1 hablen ⊢
          generalize (above.foldl (fun s x => s.setSt x (fun t => { t with invalidAnc := true, valid := false })) s0) = s1 at d1 ⊢
          have hs1 : SInv U D [] s1 := sinv_dsame hs (d0.trans d1)
          have hre : ∃ s2, reorganize s1 (above ++ [h]) [] = (s2, VR.ok) ∧
              s2.best = s1.best.drop (above ++ [h]).length ∧ (∀ k, s2.status k = s1.status k) ∧ SameCore s1 s2 := by
            refine ⟨(reorganize s1 (above ++ [h]) []).1, ?_, ?_, ?_, ?_⟩
            · simp [reorganize, verify]
            · simp [reorganize, verify]
            · intro k; simp [reorganize, verify, State.status]
            · simp [reorganize, verify, SameCore]
          obtain ⟨s2, hre2, hb2, hst2, hsc2⟩ := hre
          rw [hre2]
          simp only []
          have hs2 : SInv U D [] s2 := by
            refine sinv_transport hs1 hsc2 (fun k => by rw [hst2]) ?_ ?_
            · intro k n hk hn; rw [hst2] at hk; rw [hsc2.1] at hn; exact hs1.vOk k n hk hn
            · rw [hb2]
              have hb1 : s1.best = s.best := (d0.trans d1).2.1
              have hlen := tw_len hs.path hhb h0
              have hp1 : PathOK' s2 s1.best := pathOK'_ext hsc2.1 (fun k => by rw [hst2]) hs1.path
              apply pathOK'_drop hp1
              rw [hb1]
              simp only [List.length_append, List.length_cons, List.length_nil]
              omega
          split
          · exact hs2
          · rename_i t hpick
            split
            · exact hs2
            · have htm : t ∈ s2.idx := by
                have h1 := pick_mem _ _ _ hpick
                unfold maxWorkOf at h1
                have h2 := (List.mem_filter.mp h1).1
                exact inactiveTips_mem s2 (List.mem_filter.mp h2).1
              have := reorg_safe hs2 t (idxOK_lookup_of_mem hs2.idx htm)
              generalize getReorgNodes s2 t = g at this ⊢
              obtain ⟨s3, detach, attach⟩ := g
              simp only [] at this ⊢
              generalize reorganize s3 detach attach = r at this ⊢
              obtain ⟨s4, vr⟩ := r
              exact this

/-! ### every history -/

theorem run_safe {U : List BlockAbs} (hwf : WF U) :
    ∀ (ops : List Op) (D : List BlockAbs) (s : State), (∀ x ∈ mentioned ops, x ∈ U) →
    (∀ x ∈ D, x ∈ U) → SInv U D [] s →
    ∃ D', (∀ x, x ∈ D' ↔ x ∈ D ∨ x ∈ delivered ops) ∧ SInv U D' [] (runFrom s ops) := by
  intro ops
  induction ops with
  | nil => intro D s _ _ hi; exact ⟨D, by simp [delivered], hi⟩
  | cons o r ih =>
    intro D s hm hDU hi
    cases o with
    | block b =>
      have hbU : b ∈ U := hm b (by simp [mentioned])
      have h1 := processBlock_safe hwf hDU hbU hi
      obtain ⟨D', hD', hi'⟩ := ih (b :: D) (step s (.block b)).1
        (fun x hx => hm x (by simp [mentioned, hx]))
        (by intro x hx; simp only [List.mem_cons] at hx; rcases hx with hx | hx
            · subst hx; exact hbU
            · exact hDU x hx)
        h1
      refine ⟨D', ?_, hi'⟩
      intro x
      rw [hD']
      simp only [List.mem_cons, delivered]
      constructor
      · rintro ((h | h) | h)
        · exact Or.inr (Or.inl h)
        · exact Or.inl h
        · exact Or.inr (Or.inr h)
      · rintro (h | h | h)
        · exact Or.inl (Or.inr h)
        · exact Or.inl (Or.inl h)
        · exact Or.inr h
    | header b =>
      have hbU : b ∈ U := hm b (by simp [mentioned])
      have h1 := processHeader_safe hwf hbU hi
      obtain ⟨D', hD', hi'⟩ := ih D (step s (.header b)).1
        (fun x hx => hm x (by simp [mentioned, hx])) hDU h1
      exact ⟨D', by intro x; rw [hD']; simp [delivered], hi'⟩
    | invalidate h c =>
      have h1 : SInv U D [] (step s (.invalidate h c)).1 := by
        have := invalidate_safe hi h c
        simp only [step]
        generalize invalidate s h c = r at this ⊢
        obtain ⟨s1, ok⟩ := r
        cases ok <;> exact this
      obtain ⟨D', hD', hi'⟩ := ih D (step s (.invalidate h c)).1 (fun x hx => hm x (by simpa [mentioned] using hx)) hDU h1
      exact ⟨D', by intro x; rw [hD']; simp [delivered], hi'⟩
    | reconsider h c =>
      have h1 : SInv U D [] (step s (.reconsider h c)).1 := by
        have := reconsider_safe hi h c
        simp only [step]
        generalize reconsider s h c = r at this ⊢
        obtain ⟨s1, ok⟩ := r
        cases ok <;> exact this
      obtain ⟨D', hD', hi'⟩ := ih D (step s (.reconsider h c)).1 (fun x hx => hm x (by simpa [mentioned] using hx)) hDU h1
      exact ⟨D', by intro x; rw [hD']; simp [delivered], hi'⟩

/-- the active chain as a valid delivered chain, from the safety invariant -/
theorem path_valid' {U D : List BlockAbs} {P : List BlockAbs} {s : State} (hc : SInv U D P s) {l : List Hash}
    (hp : PathOK' s l) : ValidChain D (l.headD 0) (s.wsum (l.headD 0)) := by
  induction hp with
  | base =>
    have : s.wsum 0 = 0 := by rw [wsum_eq (idxOK_genesis hc.idx)]; rfl
    simp only [List.headD_cons]
    rw [this]; exact ValidChain.genesis
  | @cons c p r n h0 hl hpar hd hco _ ih =>
    simp only [List.headD_cons] at ih ⊢
    obtain ⟨hD, hpre⟩ := hc.dD c n hd hl h0
    obtain ⟨_, q, hq, hw, _⟩ := idxOK_node hc.idx hl h0
    have hok : n.blk.ok = true := by unfold BlockAbs.ok; simp [hpre, hco]
    have h1 : ValidChain D n.blk.parent (s.wsum p) := by rw [hpar]; exact ih
    have h2 := ValidChain.step hD hok h1
    rw [lookup_hash hl] at h2
    have : s.wsum c = s.wsum p + n.blk.work := by
      rw [wsum_eq hl, hw]
      rw [hpar] at hq
      rw [wsum_eq hq]
    rw [this]; exact h2

/-- structural reading of `PathOK'` -/
theorem pathOK'_plain {U D : List BlockAbs} {P : List BlockAbs} {s : State} (hc : SInv U D P s) {l : List Hash}
    (hp : PathOK' s l) :
    l.getLast? = some 0 ∧
    (∀ i c p, l[i]? = some c → l[i + 1]? = some p → ∃ n, lookup s.idx c = some n ∧ n.blk.parent = p) ∧
    (∀ i c, l[i]? = some c → ∃ n, lookup s.idx c = some n ∧ n.height + i + 1 = l.length) ∧
    (∀ c ∈ l, (s.status c).data = true ∧ ∃ n, lookup s.idx c = some n ∧ n.blk.connOk = true) := by
  induction hp with
  | base =>
    refine ⟨rfl, ?_, ?_, ?_⟩
    · intro i c p h1 h2
      cases i <;> simp at h2
    · intro i c h1
      cases i with
      | zero =>
        simp at h1; subst h1
        exact ⟨genesisNode, idxOK_genesis hc.idx, rfl⟩
      | succ j => simp at h1
    · intro c hcl
      simp at hcl; subst hcl
      exact ⟨hc.gData, genesisNode, idxOK_genesis hc.idx, rfl⟩
  | @cons c p r n h0 hl hpar hd hv hr ih =>
    obtain ⟨i1, i2, i3, i4⟩ := ih
    refine ⟨?_, ?_, ?_, ?_⟩
    · rw [List.getLast?_cons_cons]; exact i1
    · intro i x y h1 h2
      cases i with
      | zero =>
        simp at h1 h2; subst h1; subst h2
        exact ⟨n, hl, hpar⟩
      | succ j =>
        simp only [List.getElem?_cons_succ] at h1 h2
        exact i2 j x y h1 h2
    · intro i x h1
      cases i with
      | zero =>
        simp at h1; subst h1
        obtain ⟨_, q, hq, _, hh⟩ := idxOK_node hc.idx hl h0
        obtain ⟨q', hq', hh'⟩ := i3 0 p (by simp)
        rw [hpar] at hq
        rw [hq] at hq'; cases hq'
        refine ⟨n, hl, ?_⟩
        simp only [List.length_cons] at hh' ⊢
        omega
      | succ j =>
        simp only [List.getElem?_cons_succ] at h1
        obtain ⟨m, hm, hh⟩ := i3 j x h1
        refine ⟨m, hm, ?_⟩
        simp only [List.length_cons] at hh ⊢
        omega
    · intro x hx
      cases hx with
      | head => exact ⟨hd, n, hl, hv⟩
      | tail _ hx' => exact i4 x hx'

theorem sinv_init (U : List BlockAbs) : SInv U [] [] init := sinv_of_inv (inv_init U)

/-- every history, manual invalidation and reconsideration included -/
theorem run_safe_all (ops : List Op) (hwf : WF (mentioned ops)) :
    ∃ D', (∀ x, x ∈ D' ↔ x ∈ delivered ops) ∧ SInv (mentioned ops) D' [] (run ops) := by
  obtain ⟨D', h1, h2⟩ := run_safe hwf ops [] init (fun x hx => hx) (by intro x hx; cases hx) (sinv_init _)
  exact ⟨D', by intro x; rw [h1]; simp, h2⟩

end Lemmas
end BV.C02
