/-
C02 helper lemmas, part 13: the index only grows (every history), hence the best-header tip is always
an indexed node; a block whose own node is known invalid is never accepted.
-/
import BV.C02.Lemmas12
namespace BV.C02
namespace Lemmas
open Spec

/-- indexed nodes stay indexed, unchanged -/
def LM (s s' : State) : Prop := ∀ h n, lookup s.idx h = some n → lookup s'.idx h = some n

theorem LM.refl (s : State) : LM s s := fun _ _ h => h
theorem LM.trans {a b c : State} (h1 : LM a b) (h2 : LM b c) : LM a c := fun h n hl => h2 h n (h1 h n hl)
theorem lm_of_idx {s s' : State} (h : s'.idx = s.idx) : LM s s' := fun _ _ hl => by rw [h]; exact hl

theorem lm_maybeAccept (s : State) (b : BlockAbs) : LM s (maybeAccept s b).1 := by
  unfold maybeAccept
  split
  · exact LM.refl s
  · split
    · exact LM.refl s
    · split
      · exact LM.refl s
      · split
        · exact LM.refl s
        · split
          · exact lm_of_idx ((connectBest_sameCore _ _).1.trans rfl)
          · rename_i hnone
            intro h n hl
            rw [(connectBest_sameCore _ _).1]
            exact lookup_cons_of_some hnone hl

theorem lm_acceptKids (s : State) (ks : List BlockAbs) (acc : List Hash) (e : Bool) : LM s (acceptKids s ks acc e).1 := by
  induction ks generalizing s acc e with
  | nil => exact LM.refl s
  | cons k ks ih =>
    unfold acceptKids
    have h1 := lm_maybeAccept s k
    generalize maybeAccept s k = r at h1 ⊢
    obtain ⟨s1, o⟩ := r
    cases o with
    | none => exact h1.trans (ih s1 acc true)
    | some m => exact h1.trans (ih s1 (acc ++ [k.hash]) e)

theorem lm_drain (f : Nat) (s : State) (q : List Hash) (e : Bool) : LM s (drain f s q e).1 := by
  induction f generalizing s q e with
  | zero => exact LM.refl s
  | succ f ih =>
    cases q with
    | nil => exact LM.refl s
    | cons h q' =>
      unfold drain
      simp only []
      have h1 := lm_acceptKids { s with orphans := s.orphans.filter (fun p => !(p.1.parent == h)) }
        ((s.orphans.filter (fun p => p.1.parent == h)).map (·.1)) [] e
      generalize acceptKids { s with orphans := s.orphans.filter (fun p => !(p.1.parent == h)) }
        ((s.orphans.filter (fun p => p.1.parent == h)).map (·.1)) [] e = r at h1 ⊢
      obtain ⟨s1, acc, e1⟩ := r
      exact LM.trans h1 (ih s1 (q' ++ acc) e1)

theorem lm_processBlock (s : State) (b : BlockAbs) : LM s (processBlock s b).1 := by
  unfold processBlock
  split
  · exact LM.refl s
  · split
    · exact LM.refl s
    · split
      · exact LM.refl s
      · split
        · exact lm_of_idx (addOrphan_shape s b).1
        · have h1 := lm_maybeAccept s b
          generalize maybeAccept s b = r at h1 ⊢
          obtain ⟨s1, o⟩ := r
          cases o with
          | none => exact h1
          | some m =>
            simp only []
            have h2 := lm_drain (s1.orphans.length + 1) s1 [b.hash] false
            generalize drain (s1.orphans.length + 1) s1 [b.hash] false = d at h2 ⊢
            obtain ⟨s2, e⟩ := d
            cases e <;> exact h1.trans h2

theorem idx_foldl {α : Type} (l : List α) (g : State → α → State) (hg : ∀ s a, (g s a).idx = s.idx) (s : State) :
    (l.foldl g s).idx = s.idx := by
  induction l generalizing s with
  | nil => rfl
  | cons a r ih => exact (ih (g s a)).trans (hg s a)

theorem idx_unmark (s : State) (h : Hash) : (unmarkValidMarkInvAnc s h).idx = s.idx := by
  unfold unmarkValidMarkInvAnc
  split <;> rfl

theorem idx_reorg (s : State) (t : Node) :
    (reorganize (getReorgNodes s t).1 (getReorgNodes s t).2.1 (getReorgNodes s t).2.2).1.idx = s.idx :=
  (reorganize_sameCore _ _ _).1.trans (sameChain_getReorgNodes s t).1.1

theorem idx_invalidate (s : State) (h : Hash) (c : Option Hash) : (invalidate s h c).1.idx = s.idx := by
  unfold invalidate
  split
  · rfl
  · split
    · rfl
    · split
      · rfl
      · simp only []
        split
        · exact (idx_foldl _ _ (fun s a => idx_foldl _ _ (fun s x => idx_unmark s x) s) _).trans rfl
        · have h1 : (s.setSt h (fun t => { t with failed := true, valid := false })).idx = s.idx := rfl
          generalize (s.setSt h (fun t => { t with failed := true, valid := false })) = s0 at h1 ⊢
          have h2 := idx_foldl
            ((s0.best.takeWhile (· != h)).filter (fun x => !(s0.status x).knownInvalid))
            (fun s x => s.setSt x (fun t => { t with invalidAnc := true, valid := false }))
            (fun s a => rfl) s0
          generalize ((s0.best.takeWhile (· != h)).filter (fun x => !(s0.status x).knownInvalid)) = above at h2 ⊢
          generalize (above.foldl (fun s x => s.setSt x (fun t => { t with invalidAnc := true, valid := false })) s0) = s1 at h2 ⊢
          have h3 := (reorganize_sameCore s1 (above ++ [h]) []).1
          generalize reorganize s1 (above ++ [h]) [] = r at h3 ⊢
          obtain ⟨s2, vr⟩ := r
          have h012 : s2.idx = s.idx := h3.trans (h2.trans h1)
          cases vr with
          | rule => exact h012
          | other => exact h012
          | ok =>
            simp only []
            split
            · exact h012
            · split
              · exact h012
              · rename_i t _ _
                have := idx_reorg s2 t
                generalize getReorgNodes s2 t = g at this ⊢
                obtain ⟨s3, detach, attach⟩ := g
                simp only [] at this ⊢
                exact this.trans h012

theorem idx_reconsider (s : State) (h : Hash) (c : Option Hash) : (reconsider s h c).1.idx = s.idx := by
  unfold reconsider
  split
  · rfl
  · split
    · rfl
    · simp only []
      have h1 : (s.setSt h (fun t => { t with invalidAnc := false, failed := false })).idx = s.idx := rfl
      generalize (s.setSt h (fun t => { t with invalidAnc := false, failed := false })) = s0 at h1 ⊢
      have h2 := idx_foldl (descTips s0 h)
        (fun s t => ((t.blk.hash :: ancestors s.idx t.blk.hash).takeWhile (· != h)).foldl
          (fun s x => s.setSt x (fun t => { t with invalidAnc := false })) s)
        (fun s a => idx_foldl _ (fun s x => s.setSt x (fun t => { t with invalidAnc := false })) (fun s x => rfl) s) s0
      generalize ((descTips s0 h).foldl (fun s t => ((t.blk.hash :: ancestors s.idx t.blk.hash).takeWhile (· != h)).foldl
          (fun s x => s.setSt x (fun t => { t with invalidAnc := false })) s) s0) = s1 at h2 ⊢
      generalize reconsiderTarget (descTips s0 h) _ c = rtn
      split
      · exact h2.trans h1
      · have := idx_reorg s1 rtn
        generalize getReorgNodes s1 rtn = g at this ⊢
        obtain ⟨s3, detach, attach⟩ := g
        simp only [] at this ⊢
        exact this.trans (h2.trans h1)

theorem lm_step (s : State) (o : Op) : LM s (step s o).1 := by
  cases o with
  | block b => exact lm_processBlock s b
  | header b => exact fun h n hl => processHeader_lookup_mono s b h n hl
  | invalidate h c =>
    simp only [step]
    have := idx_invalidate s h c
    generalize invalidate s h c = r at this ⊢
    obtain ⟨s1, ok⟩ := r
    cases ok <;> exact lm_of_idx this
  | reconsider h c =>
    simp only [step]
    have := idx_reconsider s h c
    generalize reconsider s h c = r at this ⊢
    obtain ⟨s1, ok⟩ := r
    cases ok <;> exact lm_of_idx this

/-- after an accepted header the header's node is indexed -/
theorem processHeaderCore_indexed (s : State) (b : BlockAbs) (h : (processHeaderCore s b).2 ≠ .rej) :
    ∃ n, lookup (processHeaderCore s b).1.idx b.hash = some n := by
  unfold processHeaderCore at h ⊢
  cases hp : lookup s.idx b.parent with
  | none => simp [hp] at h
  | some p =>
    simp only [hp] at h ⊢
    cases hk : (s.status b.parent).knownInvalid with
    | true => simp [hk] at h
    | false =>
      simp only [hk, Bool.false_eq_true, if_false] at h ⊢
      cases hb : lookup s.idx b.hash with
      | some n =>
        simp only [hb] at h ⊢
        cases hki : (s.status b.hash).knownInvalid with
        | true => simp [hki] at h
        | false => simp only [Bool.false_eq_true, if_false]; exact ⟨n, hb⟩
      | none =>
        simp only [hb] at h ⊢
        cases hh : b.hdrOk with
        | false => simp [hh] at h
        | true =>
          simp only [Bool.not_true, Bool.false_eq_true, if_false]
          exact ⟨⟨b, p.height + 1, p.workSum + b.work⟩, by rw [lookup_cons]; simp⟩

/-- the best-header tip is an indexed node -/
def HdrIdx (s : State) : Prop := ∃ n, lookup s.idx s.bestHdr = some n

theorem hdrIdx_processHeader (s : State) (b : BlockAbs) (hs : HdrIdx s) : HdrIdx (processHeader s b).1 := by
  obtain ⟨n0, hn0⟩ := hs
  have hc := processHeaderCore_hdr s b
  have hlm := processHeaderCore_lookup_mono s b s.bestHdr n0 hn0
  have hix := processHeaderCore_indexed s b
  unfold processHeader
  generalize processHeaderCore s b = r at hc hlm hix ⊢
  obtain ⟨s1, res⟩ := r
  simp only [] at hc hlm hix
  have hold : HdrIdx s1 := ⟨n0, by rw [hc]; exact hlm⟩
  have hupd : res ≠ .rej → HdrIdx (updateBestHdr s1 b).1 := by
    intro hr
    obtain ⟨nb, hnb⟩ := hix hr
    unfold updateBestHdr
    split
    · exact hold
    · split
      · exact ⟨nb, hnb⟩
      · split
        · exact hold
        · exact ⟨nb, hnb⟩
  cases res <;> first
    | exact hold
    | (simp only []; split
       · exact hold
       · exact hupd (by simp))

theorem hdrIdx_step (s : State) (o : Op) (hs : HdrIdx s) : HdrIdx (step s o).1 := by
  cases o with
  | header b => exact hdrIdx_processHeader s b hs
  | block b =>
    obtain ⟨n, hn⟩ := hs
    exact ⟨n, by rw [step_hdr_frame s (.block b) (by intro x hx; cases hx)]; exact lm_step s (.block b) _ n hn⟩
  | invalidate h c =>
    obtain ⟨n, hn⟩ := hs
    exact ⟨n, by rw [step_hdr_frame s (.invalidate h c) (by intro x hx; cases hx)]; exact lm_step s (.invalidate h c) _ n hn⟩
  | reconsider h c =>
    obtain ⟨n, hn⟩ := hs
    exact ⟨n, by rw [step_hdr_frame s (.reconsider h c) (by intro x hx; cases hx)]; exact lm_step s (.reconsider h c) _ n hn⟩

theorem hdrIdx_runFrom (ops : List Op) (s : State) (hs : HdrIdx s) : HdrIdx (runFrom s ops) := by
  induction ops generalizing s with
  | nil => exact hs
  | cons o r ih => exact ih _ (hdrIdx_step s o hs)

theorem hdrIdx_run (ops : List Op) : HdrIdx (run ops) := hdrIdx_runFrom ops init ⟨genesisNode, rfl⟩

/-- a block whose own index node is known invalid is refused without any effect -/
theorem maybeAccept_known_invalid (s : State) (b : BlockAbs) (hk : (s.status b.hash).knownInvalid = true) :
    maybeAccept s b = (s, none) := by
  unfold maybeAccept
  split
  · rfl
  · split
    · rfl
    · simp [hk]

end Lemmas
end BV.C02
