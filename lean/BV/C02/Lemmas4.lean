/-
C02 helper lemmas, part 4: the full invariant (index, flags, active chain, orphan pool, deliveries)
and its preservation by `maybeAcceptBlock`, `processOrphans`, `ProcessBlock`, `ProcessBlockHeader`.
-/
import BV.C02.Lemmas3
namespace BV.C02
namespace Lemmas
open Spec

/-- blocks waiting for their parent: the orphan pool plus the orphans currently being drained -/
def Pool (s : State) (P : List BlockAbs) : List BlockAbs := s.orphans.map (·.1) ++ P

/-- `Inv U D Q P s`: `U` all blocks ever mentioned, `D` blocks delivered so far, `Q` hashes whose
orphans still have to be drained, `P` orphans taken out of the pool but not yet processed. -/
structure Inv (U D : List BlockAbs) (Q : List Hash) (P : List BlockAbs) (s : State) : Prop where
  c : CInv U D s
  max : MaxAll s
  wOK : ∀ w ∈ Pool s P, w ∈ D ∧ w.sane = true ∧ (s.status w.hash).data = false
  wND : ((Pool s P).map (·.hash)).Nodup
  oPar : ∀ o ∈ s.orphans, (s.status o.1.parent).data = true →
    (s.status o.1.parent).knownInvalid = true ∨ o.1.parent ∈ Q
  deliv : ∀ b ∈ D, b.preOk = true → (s.status b.hash).data = true ∨ b ∈ Pool s P ∨
    (s.status b.parent).knownInvalid = true ∨ b.hash ∈ s.evicted ∨ (s.status b.hash).knownInvalid = true

theorem wf_eq {U : List BlockAbs} (hwf : WF U) {a b : BlockAbs} (ha : a ∈ U) (hb : b ∈ U) (h : a.hash = b.hash) : a = b :=
  hwf.1 a ha b hb h

theorem pathOK_mono {s s' : State} {l : List Hash}
    (hl : ∀ h ∈ l, ∀ n, lookup s.idx h = some n → lookup s'.idx h = some n)
    (hd : ∀ h ∈ l, (s.status h).data = true → (s'.status h).data = true)
    (hv : ∀ h ∈ l, (s.status h).valid = true → (s'.status h).valid = true) (hp : PathOK s l) :
    PathOK s' l := by
  induction hp with
  | base => exact PathOK.base
  | cons h0 hlk hpar hdat hval _ ih =>
    refine PathOK.cons h0 (hl _ (by simp) _ hlk) hpar (hd _ (by simp) hdat) (hv _ (by simp) hval) ?_
    exact ih (fun h hh => hl h (by simp [hh])) (fun h hh => hd h (by simp [hh])) (fun h hh => hv h (by simp [hh]))

/-- a node that just received its data (or a fresh header-only node) `x` lies on no good path of older nodes -/
theorem goodPath_back {s s1 : State} {x : Hash}
    (hlk : ∀ h, h ≠ x → lookup s1.idx h = lookup s.idx h)
    (hst : ∀ h, h ≠ x → (s1.status h).data = (s.status h).data)
    (hnp : ∀ h m, (s.status h).data = true → lookup s.idx h = some m → h ≠ 0 → m.blk.parent ≠ x)
    {h : Hash} (hg : GoodPath s1 h) (hx : h ≠ x) : GoodPath s h := by
  induction hg with
  | gen => exact GoodPath.gen
  | @step h n h0 hl hd hc hp ih =>
    rw [hlk h hx] at hl
    rw [hst h hx] at hd
    exact GoodPath.step h0 hl hd hc (ih (hnp h n hd hl h0))

theorem cinv_congr {U D : List BlockAbs} {s s' : State} (hi : s'.idx = s.idx) (hst : s'.st = s.st)
    (hb : s'.best = s.best) (hc : CInv U D s) : CInv U D s' := by
  have hs : ∀ k, s'.status k = s.status k := fun k => by unfold State.status; rw [hst]
  have hfe : FlagExt s s' := fun k => by rw [hs]; exact ⟨rfl, rfl, id, id⟩
  exact cinv_transport hc hi hfe (fs_congr hst hi hc.fs) (by rw [hb]; exact pathOK_ext hi hfe hc.path)

theorem maxAll_congr {s s' : State} (hi : s'.idx = s.idx) (hst : s'.st = s.st) (hb : s'.best = s.best)
    (hm : MaxAll s) : MaxAll s' := by
  have hs : ∀ k, s'.status k = s.status k := fun k => by unfold State.status; rw [hst]
  intro h n hl hg
  have : s'.wsum s'.tip = s.wsum s.tip := by unfold State.wsum State.tip; rw [hi, hb]
  rw [this]
  rw [hi] at hl
  exact hm h n hl (goodPath_ext hi.symm (fun k => by rw [hs]) hg)

theorem cinv_mono_D {U D D' : List BlockAbs} {s : State} (hs : ∀ b ∈ D, b ∈ D') (hc : CInv U D s) : CInv U D' s :=
  { hc with dD := fun h n hd hl h0 => ⟨hs _ (hc.dD h n hd hl h0).1, (hc.dD h n hd hl h0).2⟩ }

theorem nodup_mid {l1 l2 : List BlockAbs} {k : BlockAbs} (h : ((l1 ++ k :: l2).map (·.hash)).Nodup) :
    ((l1 ++ l2).map (·.hash)).Nodup ∧ ∀ w ∈ l1 ++ l2, w.hash ≠ k.hash := by
  simp only [List.map_append, List.map_cons] at h ⊢
  have h' := (List.perm_middle.nodup_iff).mp h
  rw [List.nodup_cons] at h'
  refine ⟨h'.2, ?_⟩
  intro w hw he
  apply h'.1
  rw [← he]
  rw [← List.map_append]
  exact List.mem_map.mpr ⟨w, hw, rfl⟩

/-! ### the first-seen rule across several steps -/

/-- the active chain is unchanged or strictly heavier, and indexed nodes stay indexed unchanged -/
def Adv (s s' : State) : Prop :=
  TipAdv s s' ∧ ∀ h n, lookup s.idx h = some n → lookup s'.idx h = some n

theorem adv_refl (s : State) : Adv s s := ⟨Or.inl rfl, fun _ _ h => h⟩

theorem wsum_mono {s s' : State} (hm : ∀ h n, lookup s.idx h = some n → lookup s'.idx h = some n) (h : Hash) :
    s.wsum h ≤ s'.wsum h ∧ (0 < s.wsum h → s'.wsum h = s.wsum h) := by
  unfold State.wsum wsumOf
  cases hl : lookup s.idx h with
  | none => simp
  | some n => rw [hm h n hl]; simp

theorem adv_trans {a b c : State} (h1 : Adv a b) (h2 : Adv b c) : Adv a c := by
  refine ⟨?_, fun h n hl => h2.2 h n (h1.2 h n hl)⟩
  rcases h1.1 with e1 | l1
  · rcases h2.1 with e2 | l2
    · exact Or.inl (e2.trans e1)
    · right
      have ht : b.tip = a.tip := by unfold State.tip; rw [e1]
      have := (wsum_mono h1.2 a.tip).1
      rw [ht] at l2
      omega
  · rcases h2.1 with e2 | l2
    · right
      have ht : c.tip = b.tip := by unfold State.tip; rw [e2]
      have := (wsum_mono h2.2 b.tip).2 (by omega)
      rw [ht, this]; exact l1
    · right; omega

/-! ### maybeAcceptBlock -/

theorem mem_contains {l : List Hash} {x : Hash} : l.contains x = false ↔ x ∉ l := by
  simp

/-- storing `k` (state `s1`) and then running `connectBestChain` re-establishes the invariant -/
theorem store_connect_spec {U D : List BlockAbs} {Q : List Hash} {P : List BlockAbs} {s s1 : State} {n : Node}
    (hwf : WF U) (hDU : ∀ b ∈ D, b ∈ U) (hi : Inv U D Q (n.blk :: P) s)
    (hkp : (s.status n.blk.parent).data = true) (hpk : (s.status n.blk.parent).knownInvalid = false)
    (hpre : n.blk.preOk = true)
    (hln : lookup s1.idx n.blk.hash = some n)
    (hlk : ∀ h, h ≠ n.blk.hash → lookup s1.idx h = lookup s.idx h)
    (hlmono : ∀ h m, lookup s.idx h = some m → lookup s1.idx h = some m)
    (hio : IdxOK U s1.idx)
    (hst : ∀ h, h ≠ n.blk.hash → s1.status h = s.status h)
    (hsd : (s1.status n.blk.hash).data = true)
    (hkm : (s.status n.blk.hash).knownInvalid = true → (s1.status n.blk.hash).knownInvalid = true)
    (hfs1 : FlagsSound s1) (hb1 : s1.best = s.best) (ho1 : s1.orphans = s.orphans) (he1 : s1.evicted = s.evicted) :
    Inv U D (if (connectBest s1 n).2.isSome then Q ++ [n.blk.hash] else Q) P (connectBest s1 n).1 ∧
    (connectBest s1 n).1.orphans = s.orphans ∧ (connectBest s1 n).1.evicted = s.evicted ∧
    (∀ h, (s.status h).data = true → ((connectBest s1 n).1.status h).data = true) ∧
    ((connectBest s1 n).2.isSome = true → ((connectBest s1 n).1.status n.blk.hash).data = true) ∧
    Adv s (connectBest s1 n).1 := by
  have hkPool : n.blk ∈ Pool s (n.blk :: P) := by unfold Pool; simp
  obtain ⟨hkD, hksane, hknd⟩ := hi.wOK n.blk hkPool
  have hkU := hDU n.blk hkD
  have hk0 : n.blk.hash ≠ 0 := hwf.2.1 n.blk hkU
  have hnd0 := hi.wND
  unfold Pool at hnd0
  obtain ⟨hnd', hne⟩ := nodup_mid (l1 := s.orphans.map (·.1)) (l2 := P) (k := n.blk) hnd0
  have hdmono : ∀ h, (s.status h).data = true → (s1.status h).data = true := by
    intro h hh
    by_cases e : h = n.blk.hash
    · rw [e]; exact hsd
    · rw [hst h e]; exact hh
  have hbd : ∀ c ∈ s.best, (s.status c).data = true := pathOK_data hi.c.gData hi.c.path
  have hbne : ∀ c ∈ s.best, c ≠ n.blk.hash := by
    intro c hc e; have := hbd c hc; rw [e, hknd] at this; cases this
  have hc1 : CInv U D s1 := by
    constructor
    · exact hio
    · exact hdmono 0 hi.c.gData
    · intro h hh
      by_cases e : h = n.blk.hash
      · rw [e]; exact ⟨n, hln⟩
      · rw [hst h e] at hh; rw [hlk h e]; exact hi.c.dIdx h hh
    · intro h m hh hm h0
      by_cases e : h = n.blk.hash
      · rw [e, hln] at hm; cases hm; exact hdmono _ hkp
      · rw [hst h e] at hh; rw [hlk h e] at hm
        exact hdmono _ (hi.c.dClosed h m hh hm h0)
    · intro h m hh hm h0
      by_cases e : h = n.blk.hash
      · rw [e, hln] at hm; cases hm; exact ⟨hkD, hpre⟩
      · rw [hst h e] at hh; rw [hlk h e] at hm
        exact hi.c.dD h m hh hm h0
    · exact hfs1
    · rw [hb1]
      apply pathOK_mono _ _ _ hi.c.path
      · intro h hh m hm; rw [hlk h (hbne h hh)]; exact hm
      · intro h _ hd; exact hdmono h hd
      · intro h hh hv; rw [hst h (hbne h hh)]; exact hv
  have hnb : s1.best.contains n.blk.hash = false := by
    rw [hb1, mem_contains]; intro hc; exact hbne _ hc rfl
  have hpne : n.blk.parent ≠ n.blk.hash := by
    intro e; rw [e, hknd] at hkp; cases hkp
  have hpk1 : (s1.status n.blk.parent).knownInvalid = false := by rw [hst _ hpne]; exact hpk
  have htipne : s.tip ≠ n.blk.hash := by
    have hz := hi.c.path
    cases hbest : s.best with
    | nil => rw [hbest] at hz; cases hz
    | cons t r =>
      have : s.tip = t := by unfold State.tip; rw [hbest]; rfl
      rw [this]; exact hbne t (by rw [hbest]; simp)
  have hw : s1.wsum s1.tip = s.wsum s.tip := by
    unfold State.wsum State.tip wsumOf
    rw [hb1]
    unfold State.tip at htipne
    rw [hlk _ htipne]
  have hmax1 : MaxExcept s1 n.blk.hash := by
    intro h m hx hm hg
    rw [hw]
    rw [hlk h hx] at hm
    apply hi.max h m hm
    apply goodPath_back hlk (fun h hh => by rw [hst h hh]) _ hg hx
    intro h' m' hd' hl' h0' e
    have := hi.c.dClosed h' m' hd' hl' h0'
    rw [e, hknd] at this; cases this
  obtain ⟨hc2, hmax2, hsc2, hfe2, hki2, hadv2⟩ := connectBest_spec hc1 hln hsd hnb hpk1 hmax1 (hwf.2.2 n.blk hkU)
  generalize connectBest s1 n = res at hc2 hmax2 hsc2 hfe2 hki2 hadv2 ⊢
  obtain ⟨s2, r⟩ := res
  simp only [] at hc2 hmax2 hsc2 hfe2 hki2 hadv2 ⊢
  have hadv : Adv s s2 := by
    refine ⟨?_, fun h m hm => by rw [hsc2.1]; exact hlmono h m hm⟩
    rcases hadv2 with e | l
    · exact Or.inl (e.trans hb1)
    · right; rw [← hw]; exact l
  have ho2 : s2.orphans = s.orphans := by rw [hsc2.2.1, ho1]
  have he2 : s2.evicted = s.evicted := by rw [hsc2.2.2.1, he1]
  have hd2 : ∀ h, (s2.status h).data = (s1.status h).data := fun h => (hfe2 h).1
  have hkmono : ∀ h, (s.status h).knownInvalid = true → (s2.status h).knownInvalid = true := by
    intro h hh
    apply (hfe2 h).2.2.2
    by_cases e : h = n.blk.hash
    · rw [e] at hh ⊢; exact hkm hh
    · rw [hst h e]; exact hh
  have hpool2 : Pool s2 P = s.orphans.map (·.1) ++ P := by unfold Pool; rw [ho2]
  refine ⟨⟨hc2, hmax2, ?_, ?_, ?_, ?_⟩, ho2, he2, ?_, ?_, hadv⟩
  · intro w hw
    rw [hpool2] at hw
    have hw' : w ∈ Pool s (n.blk :: P) := by
      unfold Pool; simp at hw ⊢; rcases hw with h | h
      · exact Or.inl h
      · exact Or.inr (Or.inr h)
    obtain ⟨a, b, c⟩ := hi.wOK w hw'
    refine ⟨a, b, ?_⟩
    rw [hd2, hst _ (hne w hw)]; exact c
  · rw [hpool2]; exact hnd'
  · intro o ho hd
    rw [ho2] at ho
    rw [hd2] at hd
    by_cases e : o.1.parent = n.blk.hash
    · cases hr : r with
      | none =>
        left; rw [e]; exact hki2 (by rw [hr])
      | some m =>
        right; simp [e]
    · rw [hst _ e] at hd
      rcases hi.oPar o ho hd with h | h
      · exact Or.inl (hkmono _ h)
      · right; split
        · simp [h]
        · exact h
  · intro b hb hpb
    rcases hi.deliv b hb hpb with h | h | h | h | h
    · left; rw [hd2]; exact hdmono _ h
    · unfold Pool at h; simp at h
      rcases h with h | h | h
      · right; left; rw [hpool2]; simp; exact Or.inl h
      · left; rw [h, hd2]; exact hsd
      · right; left; rw [hpool2]; simp; exact Or.inr h
    · right; right; left; exact hkmono _ h
    · right; right; right; left; rw [he2]; exact h
    · right; right; right; right; exact hkmono _ h
  · intro h hh; rw [hd2]; exact hdmono h hh
  · intro _; rw [hd2]; exact hsd

theorem fs_markData {s : State} (hf : FlagsSound s) (h : Hash) : FlagsSound (s.markData h) := by
  constructor
  · intro k m hv hk
    unfold State.markData at hv hk
    rw [status_setSt] at hv
    simp only [setSt_idx] at hk
    by_cases e : h = k
    · subst e; simp at hv; exact hf.vOk h m hv hk
    · simp [e] at hv; exact hf.vOk k m hv hk
  · intro k hk
    unfold State.markData at hk ⊢
    rw [status_setSt] at hk
    simp only [setSt_idx]
    by_cases e : h = k
    · subst e; exact hf.kIW h (by simpa [Status.knownInvalid] using hk)
    · simp [e] at hk; exact hf.kIW k hk

theorem iw_lookup {idx : List Node} {h : Hash} (hw : IW idx h) : ∃ n, lookup idx h = some n := by
  cases hw with
  | failed hl _ => exact ⟨_, hl⟩
  | anc hl _ => exact ⟨_, hl⟩

theorem maybeAccept_spec {U D : List BlockAbs} {Q : List Hash} {P : List BlockAbs} {s : State} {k : BlockAbs}
    (hwf : WF U) (hDU : ∀ b ∈ D, b ∈ U) (hi : Inv U D Q (k :: P) s) (hkp : (s.status k.parent).data = true) :
    Inv U D (if (maybeAccept s k).2.isSome then Q ++ [k.hash] else Q) P (maybeAccept s k).1 ∧
    (maybeAccept s k).1.orphans = s.orphans ∧ (maybeAccept s k).1.evicted = s.evicted ∧
    (∀ h, (s.status h).data = true → ((maybeAccept s k).1.status h).data = true) ∧
    ((maybeAccept s k).2.isSome = true → ((maybeAccept s k).1.status k.hash).data = true) ∧
    Adv s (maybeAccept s k).1 := by
  have hkPool : k ∈ Pool s (k :: P) := by unfold Pool; simp
  obtain ⟨hkD, hksane, hknd⟩ := hi.wOK k hkPool
  have hkU := hDU k hkD
  have hk0 : k.hash ≠ 0 := hwf.2.1 k hkU
  have hnd0 := hi.wND
  unfold Pool at hnd0
  obtain ⟨hnd', hne⟩ := nodup_mid (l1 := s.orphans.map (·.1)) (l2 := P) (k := k) hnd0
  have hsub : ∀ w ∈ Pool s P, w ∈ Pool s (k :: P) := by
    intro w hw; unfold Pool at hw ⊢; simp at hw ⊢; rcases hw with h | h
    · exact Or.inl h
    · exact Or.inr (Or.inr h)
  have reject : (k.preOk = true → (s.status k.parent).knownInvalid = true ∨ (s.status k.hash).knownInvalid = true) →
      Inv U D Q P s := by
    intro hrej
    refine ⟨hi.c, hi.max, fun w hw => hi.wOK w (hsub w hw), hnd', hi.oPar, ?_⟩
    intro b hb hpre
    rcases hi.deliv b hb hpre with h | h | h | h | h
    · exact Or.inl h
    · unfold Pool at h; simp at h
      rcases h with h | h | h
      · exact Or.inr (Or.inl (by unfold Pool; simp; exact Or.inl h))
      · subst h
        rcases hrej hpre with h' | h'
        · exact Or.inr (Or.inr (Or.inl h'))
        · exact Or.inr (Or.inr (Or.inr (Or.inr h')))
      · exact Or.inr (Or.inl (by unfold Pool; simp; exact Or.inr h))
    · exact Or.inr (Or.inr (Or.inl h))
    · exact Or.inr (Or.inr (Or.inr (Or.inl h)))
    · exact Or.inr (Or.inr (Or.inr (Or.inr h)))
  obtain ⟨p, hlp⟩ := hi.c.dIdx k.parent hkp
  unfold maybeAccept
  simp only [hlp]
  cases hpk : (s.status k.parent).knownInvalid with
  | true =>
    simp only [if_true]
    refine ⟨by simpa using reject (fun _ => Or.inl hpk), ?_⟩
    simp [adv_refl]
  | false =>
    simp only [Bool.false_eq_true, if_false]
    cases hkk : (s.status k.hash).knownInvalid with
    | true =>
      simp only [if_true]
      refine ⟨by simpa using reject (fun _ => Or.inr hkk), ?_⟩
      simp [adv_refl]
    | false =>
    simp only [Bool.false_eq_true, if_false]
    cases hhc : (k.hdrOk && k.ctxOk) with
    | false =>
      simp only [Bool.not_false, if_true]
      have hnp : k.preOk = true → (s.status k.parent).knownInvalid = true ∨ (s.status k.hash).knownInvalid = true := by
        intro hpre
        left
        unfold BlockAbs.preOk at hpre
        simp only [Bool.and_eq_true] at hpre
        simp [hpre.1.2, hpre.2] at hhc
      refine ⟨by simpa using reject hnp, ?_⟩
      simp [adv_refl]
    | true =>
      simp only [Bool.not_true, Bool.false_eq_true, if_false]
      have hpre : k.preOk = true := by
        unfold BlockAbs.preOk; simp only [Bool.and_eq_true] at hhc ⊢; exact ⟨⟨hksane, hhc.1⟩, hhc.2⟩
      cases hlk : lookup s.idx k.hash with
      | some n =>
        simp only []
        obtain ⟨hnU, _⟩ := idxOK_node hi.c.idx hlk hk0
        have hnk : n.blk = k := wf_eq hwf hnU hkU (lookup_hash hlk)
        subst hnk
        apply store_connect_spec hwf hDU hi hkp hpk hpre (s1 := s.markData n.blk.hash)
        · exact hlk
        · intro h _; rfl
        · intro h m hm; exact hm
        · exact hi.c.idx
        · intro h hh; unfold State.markData; rw [status_setSt]; simp [Ne.symm hh]
        · unfold State.markData; rw [status_setSt]; simp
        · intro hh; unfold State.markData; rw [status_setSt]; simpa [Status.knownInvalid] using hh
        · exact fs_markData hi.c.fs _
        · rfl
        · rfl
        · rfl
      | none =>
        simp only []
        generalize hn : (⟨k, p.height + 1, p.workSum + k.work⟩ : Node) = n
        have hnk : n.blk = k := by rw [← hn]
        subst hnk
        have hst1 : ∀ h, ({ s with idx := n :: s.idx, st := (n.blk.hash, ({ data := true, header := true } : Status)) :: s.st } : State).status h
            = if n.blk.hash = h then ({ data := true, header := true } : Status) else s.status h := by
          intro h; unfold State.status; simp only [stOf_cons]
        apply store_connect_spec hwf hDU hi hkp hpk hpre
          (s1 := { s with idx := n :: s.idx, st := (n.blk.hash, ({ data := true, header := true } : Status)) :: s.st })
        · show lookup (n :: s.idx) n.blk.hash = some n
          rw [lookup_cons]; simp
        · intro h hh
          show lookup (n :: s.idx) h = lookup s.idx h
          rw [lookup_cons]; simp [Ne.symm hh]
        · intro h m hm
          show lookup (n :: s.idx) h = some m
          exact lookup_cons_of_some hlk hm
        · show IdxOK U (n :: s.idx)
          refine IdxOK.cons hi.c.idx hk0 hlk hkU hlp ?_ ?_
          · rw [← hn]
          · rw [← hn]
        · intro h hh; rw [hst1]; simp [Ne.symm hh]
        · rw [hst1]; simp
        · intro hh
          obtain ⟨m, hm⟩ := iw_lookup (hi.c.fs.kIW _ hh)
          rw [hlk] at hm; cases hm
        · constructor
          · intro h m hv hm
            rw [hst1] at hv
            by_cases e : n.blk.hash = h
            · simp [e] at hv
            · simp only [e, if_false] at hv
              have hm' : lookup (n :: s.idx) h = some m := hm
              rw [lookup_cons] at hm'
              simp only [e, if_false] at hm'
              exact hi.c.fs.vOk h m hv hm'
          · intro h hkk
            rw [hst1] at hkk
            by_cases e : n.blk.hash = h
            · simp [e, Status.knownInvalid] at hkk
            · simp only [e, if_false] at hkk
              show IW (n :: s.idx) h
              exact iw_cons hlk (hi.c.fs.kIW h hkk)
        · rfl
        · rfl
        · rfl

end Lemmas
end BV.C02
