/-
C02 helper lemmas, part 10: ReconsiderBlock after a pure delivery history is harmless — it never
moves the active chain (nothing was manually invalidated, so there is nothing to re-include, and a
genuinely invalid block fails its re-validation again).
-/
import BV.C02.Lemmas9
namespace BV.C02
namespace Lemmas
open Spec

theorem goodPath_seg {s : State} {h f : Hash} {l : List Node} (hseg : Seg s.idx h l f) (hf : GoodPath s f)
    (hm : ∀ m ∈ l, (s.status m.blk.hash).data = true ∧ m.blk.connOk = true ∧ m.blk.hash ≠ 0) : GoodPath s h := by
  induction hseg with
  | nil => exact hf
  | @cons h n r f hl hseg ih =>
    have hn := lookup_hash hl
    obtain ⟨h1, h2, h3⟩ := hm n (by simp)
    rw [hn] at h1 h3
    exact GoodPath.step h3 hl h1 h2 (ih hf (fun m hm' => hm m (by simp [hm'])))

/-- reorganising towards a node that is not on a good path never changes the active chain -/
theorem reorg_best_same {U D : List BlockAbs} {P : List BlockAbs} {s : State} (hs : SInv U D P s)
    (hgb : ∀ c ∈ s.best, GoodPath s c) (t : Node) (hl : lookup s.idx t.blk.hash = some t)
    (hng : ¬ GoodPath s t.blk.hash) :
    (reorganize (getReorgNodes s t).1 (getReorgNodes s t).2.1 (getReorgNodes s t).2.2).1.best = s.best := by
  have hz := pathOK'_zero hs.path
  obtain ⟨f, hseg, hfb, hmem⟩ := branch_spec hs.idx s.best hz t.blk.hash (by rw [hl]; rfl)
  have refused : ∀ s1 : State, SameChain s s1 → (reorganize s1 [] []).1.best = s.best := by
    intro s1 hsc
    have : (reorganize s1 [] []).1.best = s1.best := by simp [reorganize, verify]
    rw [this]; exact hsc.2.1
  unfold getReorgNodes
  split
  · exact refused _ (sameChain_setSt s _ _)
  · simp only []
    split
    · exact refused _ (sameChain_markAll s _)
    · simp only []
      have hallin := seg_mem hseg
      have hallin' : ∀ m ∈ (branch s.best s.idx t.blk.hash).reverse, lookup s.idx m.blk.hash = some m :=
        fun m hm => hallin m (List.mem_reverse.mp hm)
      have hv1 := vOk_verify hs.vOk hallin'
      have hscv := sameChain_verify s (branch s.best s.idx t.blk.hash).reverse
      have hfev := flagExt_verify s (branch s.best s.idx t.blk.hash).reverse
      have hvok := @verify_ok s (branch s.best s.idx t.blk.hash).reverse
      unfold reorganize
      generalize verify s (branch s.best s.idx t.blk.hash).reverse = vres at hv1 hscv hfev hvok ⊢
      obtain ⟨s1, vr⟩ := vres
      cases vr with
      | rule => exact hscv.2.1
      | other => exact hscv.2.1
      | ok =>
        exfalso
        apply hng
        have hall := hvok rfl
        have hfg : GoodPath s f := hgb f (by simpa using hfb)
        apply goodPath_seg hseg hfg
        intro m hm
        obtain ⟨v1, v2⟩ := hall m (List.mem_reverse.mpr hm)
        refine ⟨by rw [← (hfev _).1]; exact v2, ?_, contains_false_ne_zero hz (hmem m hm)⟩
        exact hv1 m.blk.hash m v1 (by rw [hscv.1.1]; exact hallin m hm)

/-- after a delivery history, ReconsiderBlock (of any block, with any map-order choice) leaves the
active chain exactly where it is -/
theorem reconsider_keeps_best {U D : List BlockAbs} {s : State} (hi : Inv U D [] [] s) (h : Hash) (c : Option Hash) :
    (reconsider s h c).1.best = s.best := by
  have hs := sinv_of_inv hi
  unfold reconsider
  cases hl : lookup s.idx h with
  | none => rfl
  | some node =>
    simp only []
    split
    · rfl
    · have d0 := dsame_setSt s h (fun t => { t with invalidAnc := false, failed := false }) (fun _ => rfl) (fun t ht => ht)
      generalize (s.setSt h (fun t => { t with invalidAnc := false, failed := false })) = s0 at d0 ⊢
      have d1 := dsame_foldl (descTips s0 h)
        (fun s t => ((t.blk.hash :: ancestors s.idx t.blk.hash).takeWhile (· != h)).foldl
          (fun s x => s.setSt x (fun t => { t with invalidAnc := false })) s)
        (fun s a => dsame_foldl _ _
          (fun s x => dsame_setSt s x (fun t => { t with invalidAnc := false }) (fun _ => rfl) (fun t ht => ht)) s) s0
      have hdts : ∀ m ∈ descTips s0 h, lookup s0.idx m.blk.hash = some m := by
        intro m hm
        unfold descTips at hm
        have hm' := (List.mem_filter.mp hm).1
        simp only [List.mem_append] at hm'
        have hi0 : IdxOK U s0.idx := by rw [d0.1.1]; exact hs.idx
        rcases hm' with hm' | hm'
        · exact idxOK_lookup_of_mem hi0 (inactiveTips_mem s0 hm')
        · cases hlt : lookup s0.idx s0.tip with
          | none => rw [hlt] at hm'; cases hm'
          | some n =>
            rw [hlt] at hm'; simp only [List.mem_singleton] at hm'; subst hm'
            rw [lookup_hash hlt]; exact hlt
      generalize hdt : descTips s0 h = dts at d1 hdts ⊢
      generalize (dts.foldl (fun s t => ((t.blk.hash :: ancestors s.idx t.blk.hash).takeWhile (· != h)).foldl
          (fun s x => s.setSt x (fun t => { t with invalidAnc := false })) s) s0) = s1 at d1 ⊢
      have d01 := d0.trans d1
      have hs1 : SInv U D [] s1 := sinv_dsame hs d01
      have hrt : lookup s1.idx (reconsiderTarget dts node c).blk.hash = some (reconsiderTarget dts node c) := by
        rw [d1.1.1]
        rcases reconsiderTarget_mem dts node c with e | e
        · rw [e, d0.1.1, lookup_hash hl]; exact hl
        · exact hdts _ e
      generalize reconsiderTarget dts node c = rt at hrt ⊢
      split
      · exact d01.2.1
      · rename_i hgt
        have hws : s1.wsum s1.tip = s.wsum s.tip := by
          unfold State.wsum State.tip; rw [d01.1.1, d01.2.1]
        have hng : ¬ GoodPath s1 rt.blk.hash := by
          intro hg
          have hg' : GoodPath s rt.blk.hash := goodPath_ext d01.1.1.symm (fun k => (d01.2.2.1 k).symm) hg
          have := hi.max rt.blk.hash rt (by rw [← d01.1.1]; exact hrt) hg'
          rw [hws] at hgt
          exact hgt this
        have hgb : ∀ x ∈ s1.best, GoodPath s1 x := by
          intro x hx
          rw [d01.2.1] at hx
          exact goodPath_ext d01.1.1 d01.2.2.1 (pathOK_good hi.c hi.c.path x hx)
        have := reorg_best_same hs1 hgb rt hrt hng
        generalize getReorgNodes s1 rt = g at this ⊢
        obtain ⟨s2, detach, attach⟩ := g
        simp only [] at this ⊢
        generalize reorganize s2 detach attach = r at this ⊢
        obtain ⟨s3, vr⟩ := r
        exact this.trans d01.2.1

theorem run_reconsider_keeps_best (ops : List Op) (h : Hash) (c : Option Hash) (hdo : deliveryOnly ops)
    (hwf : WF (mentioned ops)) (hev : (run ops).evicted = []) :
    (run (ops ++ [.reconsider h c])).best = (run ops).best ∧
    IsBest (delivered ops) (run (ops ++ [.reconsider h c])).tip := by
  obtain ⟨D', h1, hi⟩ := run_inv ops hdo hwf
  have hr : run (ops ++ [.reconsider h c]) = (step (run ops) (.reconsider h c)).1 := by
    unfold run; rw [runFrom_append]; rfl
  have hb : (run (ops ++ [.reconsider h c])).best = (run ops).best := by
    rw [hr]
    have := reconsider_keeps_best hi h c
    simp only [step]
    generalize reconsider (run ops) h c = r at this ⊢
    obtain ⟨s1, ok⟩ := r
    cases ok <;> exact this
  refine ⟨hb, ?_⟩
  have ht : (run (ops ++ [.reconsider h c])).tip = (run ops).tip := by unfold State.tip; rw [hb]
  rw [ht]
  exact run_isBest ops hdo hwf hev

end Lemmas
end BV.C02
