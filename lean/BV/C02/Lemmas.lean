/-
C02 helper lemmas, part 1: status/lookup algebra, frame properties of the sub-procedures,
"a failed reorganisation changes nothing but statuses", and "the notification stream replays to the
active chain" (for every op, including invalidate / reconsider). Core-only.
-/
import BV.C02.Model
namespace BV.C02
namespace Lemmas

/-! ### status algebra -/

theorem stOf_cons (k : Hash) (t : Status) (st : List (Hash × Status)) (h : Hash) :
    stOf ((k, t) :: st) h = if k = h then t else stOf st h := by
  unfold stOf
  by_cases hk : k = h
  · subst hk; simp [List.find?]
  · have : (k == h) = false := by simpa using hk
    simp [List.find?, this, hk]

theorem status_setSt (s : State) (h : Hash) (f : Status → Status) (k : Hash) :
    (s.setSt h f).status k = if h = k then f (s.status h) else s.status k := by
  unfold State.setSt State.status
  simp only [stOf_cons]

@[simp] theorem setSt_idx (s : State) (h : Hash) (f) : (s.setSt h f).idx = s.idx := rfl
@[simp] theorem setSt_best (s : State) (h : Hash) (f) : (s.setSt h f).best = s.best := rfl
@[simp] theorem setSt_notes (s : State) (h : Hash) (f) : (s.setSt h f).notes = s.notes := rfl
@[simp] theorem setSt_orphans (s : State) (h : Hash) (f) : (s.setSt h f).orphans = s.orphans := rfl
@[simp] theorem setSt_evicted (s : State) (h : Hash) (f) : (s.setSt h f).evicted = s.evicted := rfl

/-- everything except the status table -/
def SameCore (s s' : State) : Prop :=
  s'.idx = s.idx ∧ s'.orphans = s.orphans ∧ s'.evicted = s.evicted ∧ s'.oldest = s.oldest ∧ s'.clock = s.clock

/-- everything except the status table, the active chain and the notifications -/
theorem SameCore.refl (s : State) : SameCore s s := ⟨rfl, rfl, rfl, rfl, rfl⟩
theorem SameCore.trans {a b c : State} (h1 : SameCore a b) (h2 : SameCore b c) : SameCore a c := by
  obtain ⟨a1, a2, a3, a4, a5⟩ := h1
  obtain ⟨b1, b2, b3, b4, b5⟩ := h2
  exact ⟨b1.trans a1, b2.trans a2, b3.trans a3, b4.trans a4, b5.trans a5⟩

theorem sameCore_setSt (s : State) (h : Hash) (f) : SameCore s (s.setSt h f) := ⟨rfl, rfl, rfl, rfl, rfl⟩

/-- the status table only gained flags: data/header untouched, valid and known-invalid monotone -/
def FlagExt (s s' : State) : Prop :=
  ∀ k, (s'.status k).data = (s.status k).data ∧ (s'.status k).header = (s.status k).header ∧
    ((s.status k).valid = true → (s'.status k).valid = true) ∧
    ((s.status k).knownInvalid = true → (s'.status k).knownInvalid = true)

theorem FlagExt.refl (s : State) : FlagExt s s := fun _ => ⟨rfl, rfl, id, id⟩
theorem FlagExt.trans {a b c : State} (h1 : FlagExt a b) (h2 : FlagExt b c) : FlagExt a c := fun k => by
  obtain ⟨a1, a2, a3, a4⟩ := h1 k
  obtain ⟨b1, b2, b3, b4⟩ := h2 k
  exact ⟨b1.trans a1, b2.trans a2, fun h => b3 (a3 h), fun h => b4 (a4 h)⟩

theorem flagExt_markValid (s : State) (h : Hash) : FlagExt s (s.markValid h) := fun k => by
  unfold State.markValid
  rw [status_setSt]
  by_cases hk : h = k
  · subst hk; simp [Status.knownInvalid]
  · simp [hk]

theorem flagExt_markFailed (s : State) (h : Hash) : FlagExt s (s.markFailed h) := fun k => by
  unfold State.markFailed
  rw [status_setSt]
  by_cases hk : h = k
  · subst hk; simp [Status.knownInvalid]
  · simp [hk]

theorem flagExt_markInvAnc (s : State) (h : Hash) : FlagExt s (s.markInvAnc h) := fun k => by
  unfold State.markInvAnc
  rw [status_setSt]
  by_cases hk : h = k
  · subst hk; simp [Status.knownInvalid]
  · simp [hk]

theorem flagExt_markAll (s : State) (l : List Hash) : FlagExt s (markAllInvAnc s l) := by
  induction l generalizing s with
  | nil => exact FlagExt.refl s
  | cons h r ih => exact (flagExt_markInvAnc s h).trans (ih _)

/-- the chain, the notifications and the core are untouched -/
def SameChain (s s' : State) : Prop := SameCore s s' ∧ s'.best = s.best ∧ s'.notes = s.notes

theorem SameChain.refl (s : State) : SameChain s s := ⟨SameCore.refl s, rfl, rfl⟩
theorem SameChain.trans {a b c : State} (h1 : SameChain a b) (h2 : SameChain b c) : SameChain a c :=
  ⟨h1.1.trans h2.1, h2.2.1.trans h1.2.1, h2.2.2.trans h1.2.2⟩
theorem sameChain_setSt (s : State) (h : Hash) (f) : SameChain s (s.setSt h f) := ⟨sameCore_setSt s h f, rfl, rfl⟩

theorem sameChain_markAll (s : State) (l : List Hash) : SameChain s (markAllInvAnc s l) := by
  induction l generalizing s with
  | nil => exact SameChain.refl s
  | cons h r ih => exact (sameChain_setSt s h _).trans (ih _)

theorem sameChain_verify (s : State) (l : List Node) : SameChain s (verify s l).1 := by
  induction l generalizing s with
  | nil => exact SameChain.refl s
  | cons n r ih =>
    unfold verify
    split
    · exact SameChain.refl s
    · split
      · exact ih s
      · split
        · exact (sameChain_setSt s _ _).trans (ih _)
        · exact (sameChain_setSt s _ _).trans (sameChain_markAll _ _)

theorem flagExt_verify (s : State) (l : List Node) : FlagExt s (verify s l).1 := by
  induction l generalizing s with
  | nil => exact FlagExt.refl s
  | cons n r ih =>
    unfold verify
    split
    · exact FlagExt.refl s
    · split
      · exact ih s
      · split
        · exact (flagExt_markValid s _).trans (ih _)
        · exact (flagExt_markFailed s _).trans (flagExt_markAll _ _)

theorem sameChain_getReorgNodes (s : State) (n : Node) : SameChain s (getReorgNodes s n).1 := by
  unfold getReorgNodes
  split
  · exact sameChain_setSt s _ _
  · simp only []
    split
    · exact sameChain_markAll _ _
    · exact SameChain.refl s

theorem flagExt_getReorgNodes (s : State) (n : Node) : FlagExt s (getReorgNodes s n).1 := by
  unfold getReorgNodes
  split
  · exact flagExt_markInvAnc s _
  · simp only []
    split
    · exact flagExt_markAll _ _
    · exact FlagExt.refl s

/-! ### a failed reorganisation changes nothing but statuses -/

theorem reorganize_fail (s : State) (detach : List Hash) (attach : List Node)
    (h : (reorganize s detach attach).2 ≠ .ok) : SameChain s (reorganize s detach attach).1 := by
  unfold reorganize at h ⊢
  have hv := sameChain_verify s attach
  generalize verify s attach = r at h hv ⊢
  obtain ⟨s1, vr⟩ := r
  cases vr with
  | ok => simp at h
  | rule => exact hv
  | other => exact hv

theorem reorganize_sameCore (s : State) (detach : List Hash) (attach : List Node) :
    SameCore s (reorganize s detach attach).1 := by
  unfold reorganize
  have hv := (sameChain_verify s attach).1
  generalize verify s attach = r at hv ⊢
  obtain ⟨s1, vr⟩ := r
  cases vr <;> exact hv

theorem reorganize_flagExt (s : State) (detach : List Hash) (attach : List Node) :
    FlagExt s (reorganize s detach attach).1 := by
  unfold reorganize
  have hv := flagExt_verify s attach
  generalize verify s attach = r at hv ⊢
  obtain ⟨s1, vr⟩ := r
  cases vr <;> exact hv

/-- `connectBestChain` that ends in an error leaves the active chain, the notifications, the index
and the orphan pool exactly as they were: only status bits change. -/
theorem connectBest_fail (s : State) (n : Node) (h : (connectBest s n).2 = none) :
    SameChain s (connectBest s n).1 := by
  unfold connectBest at h ⊢
  simp only [] at h ⊢
  split
  · split
    · rename_i h1 h2; simp [h1, h2] at h
    · split
      · rename_i h1 h2 h3; simp [h1, h2, h3] at h
      · exact sameChain_setSt s _ _
  · split
    · rename_i h1 h2; simp [h1, h2] at h
    · rename_i h1 h2
      have hg := sameChain_getReorgNodes s n
      generalize getReorgNodes s n = g at h hg ⊢
      obtain ⟨s1, detach, attach⟩ := g
      simp only [] at h hg ⊢
      have hr := reorganize_fail s1 detach attach
      generalize reorganize s1 detach attach = r at h hr ⊢
      obtain ⟨s2, vr⟩ := r
      cases vr with
      | ok => simp [h1, h2] at h
      | rule => exact hg.trans (hr (by simp))
      | other => exact hg.trans (hr (by simp))

/-! ### notifications replay to the active chain -/

theorem replay_disc (l : List Hash) (ns : List Note) :
    replay ((l.map Note.disc).reverse ++ ns) = (replay ns).drop l.length := by
  induction l generalizing ns with
  | nil => simp
  | cons h r ih =>
    simp only [List.map_cons, List.reverse_cons, List.append_assoc, List.singleton_append, List.length_cons]
    rw [ih]
    simp [replay]

theorem replay_conn (l : List Hash) (ns : List Note) :
    replay ((l.map Note.conn).reverse ++ ns) = l.reverse ++ replay ns := by
  induction l generalizing ns with
  | nil => simp
  | cons h r ih =>
    simp only [List.map_cons, List.reverse_cons, List.append_assoc, List.singleton_append]
    rw [ih]
    simp [replay]

/-- `Rep s`: replaying all notifications from genesis gives the active chain -/
def Rep (s : State) : Prop := replay s.notes = s.best

theorem rep_of_sameChain {s s' : State} (h : SameChain s s') (hr : Rep s) : Rep s' := by
  unfold Rep at *; rw [h.2.2, h.2.1]; exact hr

theorem rep_connect (s : State) (h : Hash) (hr : Rep s) : Rep (connect s h) := by
  unfold Rep connect at *; simp [replay, hr]

theorem rep_reorganize (s : State) (detach : List Hash) (attach : List Node) (hr : Rep s) :
    Rep (reorganize s detach attach).1 := by
  unfold reorganize
  have hv := sameChain_verify s attach
  generalize verify s attach = r at hv ⊢
  obtain ⟨s1, vr⟩ := r
  have h1 : Rep s1 := rep_of_sameChain hv hr
  cases vr with
  | ok =>
    unfold Rep at *
    simp only []
    have : (attach.map (fun n => Note.conn n.blk.hash)) = (attach.map (·.blk.hash)).map Note.conn := by
      simp [List.map_map]
    rw [this, replay_conn, replay_disc, h1]
  | rule => exact h1
  | other => exact h1

theorem rep_connectBest (s : State) (n : Node) (hr : Rep s) : Rep (connectBest s n).1 := by
  unfold connectBest
  simp only []
  split
  · split
    · exact rep_connect s _ hr
    · split
      · exact rep_connect _ _ (rep_of_sameChain (sameChain_setSt s _ _) hr)
      · exact rep_of_sameChain (sameChain_setSt s _ _) hr
  · split
    · exact hr
    · have hg := sameChain_getReorgNodes s n
      generalize getReorgNodes s n = g at hg ⊢
      obtain ⟨s1, detach, attach⟩ := g
      simp only [] at hg ⊢
      have hr1 : Rep s1 := rep_of_sameChain hg hr
      have := rep_reorganize s1 detach attach hr1
      generalize reorganize s1 detach attach = r at this ⊢
      obtain ⟨s2, vr⟩ := r
      cases vr <;> exact this

theorem rep_maybeAccept (s : State) (b : BlockAbs) (hr : Rep s) : Rep (maybeAccept s b).1 := by
  unfold maybeAccept
  split
  · exact hr
  · split
    · exact hr
    · split
      · exact hr
      · split
        · exact hr
        · split
          · exact rep_connectBest _ _ (rep_of_sameChain (sameChain_setSt s _ _) hr)
          · apply rep_connectBest
            unfold Rep at *; exact hr

theorem rep_acceptKids (s : State) (ks : List BlockAbs) (acc : List Hash) (e : Bool) (hr : Rep s) :
    Rep (acceptKids s ks acc e).1 := by
  induction ks generalizing s acc e with
  | nil => exact hr
  | cons k ks ih =>
    unfold acceptKids
    have := rep_maybeAccept s k hr
    generalize maybeAccept s k = r at this ⊢
    obtain ⟨s1, o⟩ := r
    cases o <;> exact ih _ _ _ this

theorem rep_drain (f : Nat) (s : State) (q : List Hash) (e : Bool) (hr : Rep s) : Rep (drain f s q e).1 := by
  induction f generalizing s q e with
  | zero => exact hr
  | succ f ih =>
    cases q with
    | nil => exact hr
    | cons h q =>
      unfold drain
      simp only []
      have h0 : Rep { s with orphans := s.orphans.filter (fun p => !(p.1.parent == h)) } := hr
      have := rep_acceptKids _ ((s.orphans.filter (fun p => p.1.parent == h)).map (·.1)) [] e h0
      generalize acceptKids _ ((s.orphans.filter (fun p => p.1.parent == h)).map (·.1)) [] e = r at this ⊢
      obtain ⟨s1, acc, e1⟩ := r
      exact ih _ _ _ this

theorem rep_addOrphan (s : State) (b : BlockAbs) (hr : Rep s) : Rep (addOrphan s b) := by
  unfold addOrphan addOrphanB Rep at *
  simp only []
  split
  · split <;> exact hr
  · exact hr

theorem rep_processBlock (s : State) (b : BlockAbs) (hr : Rep s) : Rep (processBlock s b).1 := by
  unfold processBlock
  split
  · exact hr
  · split
    · exact hr
    · split
      · exact hr
      · split
        · exact rep_addOrphan s b hr
        · have := rep_maybeAccept s b hr
          generalize maybeAccept s b = r at this ⊢
          obtain ⟨s1, o⟩ := r
          cases o with
          | none => exact this
          | some m =>
            simp only []
            have hd := rep_drain (s1.orphans.length + 1) s1 [b.hash] false this
            generalize drain (s1.orphans.length + 1) s1 [b.hash] false = d at hd ⊢
            obtain ⟨s2, e⟩ := d
            cases e <;> exact hd

theorem rep_processHeaderCore (s : State) (b : BlockAbs) (hr : Rep s) : Rep (processHeaderCore s b).1 := by
  unfold processHeaderCore
  split
  · exact hr
  · split
    · exact hr
    · split
      · split <;> exact hr
      · split
        · exact hr
        · unfold Rep at *; exact hr

/-- `ProcessBlockHeader` = its index effect, then possibly a new best-header tip -/
theorem processHeader_shape (s : State) (b : BlockAbs) :
    ∃ x, (processHeader s b).1 = { (processHeaderCore s b).1 with bestHdr := x } := by
  unfold processHeader
  generalize processHeaderCore s b = r
  obtain ⟨s1, res⟩ := r
  have hself : s1 = { s1 with bestHdr := s1.bestHdr } := by cases s1; rfl
  have hupd : ∃ x, (updateBestHdr s1 b).1 = { s1 with bestHdr := x } := by
    unfold updateBestHdr
    split
    · exact ⟨s1.bestHdr, hself⟩
    · split
      · exact ⟨b.hash, rfl⟩
      · split
        · exact ⟨s1.bestHdr, hself⟩
        · exact ⟨b.hash, rfl⟩
  cases res <;> first
    | exact ⟨s1.bestHdr, hself⟩
    | (simp only []; split
       · exact ⟨s1.bestHdr, hself⟩
       · exact hupd)

theorem rep_processHeader (s : State) (b : BlockAbs) (hr : Rep s) : Rep (processHeader s b).1 := by
  obtain ⟨x, hx⟩ := processHeader_shape s b
  rw [hx]
  exact rep_processHeaderCore s b hr

theorem rep_foldl_setSt {α : Type} (l : List α) (g : State → α → State)
    (hg : ∀ s a, SameChain s (g s a)) (s : State) (hr : Rep s) : Rep (l.foldl g s) := by
  induction l generalizing s with
  | nil => exact hr
  | cons a r ih => exact ih _ (rep_of_sameChain (hg s a) hr)

theorem sameChain_foldl {α : Type} (l : List α) (g : State → α → State)
    (hg : ∀ s a, SameChain s (g s a)) (s : State) : SameChain s (l.foldl g s) := by
  induction l generalizing s with
  | nil => exact SameChain.refl s
  | cons a r ih => exact (hg s a).trans (ih _)

theorem sameChain_unmark (s : State) (h : Hash) : SameChain s (unmarkValidMarkInvAnc s h) := by
  unfold unmarkValidMarkInvAnc
  split
  · exact SameChain.refl s
  · exact sameChain_setSt s _ _

theorem rep_invalidate (s : State) (h : Hash) (c : Option Hash) (hr : Rep s) : Rep (invalidate s h c).1 := by
  unfold invalidate
  split
  · exact hr
  · split
    · exact hr
    · split
      · exact hr
      · simp only []
        split
        · apply rep_foldl_setSt
          · intro s a
            exact sameChain_foldl _ _ (fun s x => sameChain_unmark s x) s
          · exact rep_of_sameChain (sameChain_setSt s _ _) hr
        · have h1 : Rep (s.setSt h (fun t => { t with failed := true, valid := false })) :=
            rep_of_sameChain (sameChain_setSt s _ _) hr
          generalize (s.setSt h (fun t => { t with failed := true, valid := false })) = s0 at h1 ⊢
          have h2 := rep_foldl_setSt
            ((s0.best.takeWhile (· != h)).filter (fun x => !(s0.status x).knownInvalid))
            (fun s x => s.setSt x (fun t => { t with invalidAnc := true, valid := false }))
            (fun s a => sameChain_setSt s a _) s0 h1
          generalize ((s0.best.takeWhile (· != h)).filter (fun x => !(s0.status x).knownInvalid)) = above at h2 ⊢
          generalize (above.foldl (fun s x => s.setSt x (fun t => { t with invalidAnc := true, valid := false })) s0) = s1 at h2 ⊢
          have h3 := rep_reorganize s1 (above ++ [h]) [] h2
          generalize reorganize s1 (above ++ [h]) [] = r at h3 ⊢
          obtain ⟨s2, vr⟩ := r
          cases vr with
          | rule => exact h3
          | other => exact h3
          | ok =>
            simp only []
            split
            · exact h3
            · split
              · exact h3
              · rename_i t _ _
                have hg := sameChain_getReorgNodes s2 t
                generalize getReorgNodes s2 t = g at hg ⊢
                obtain ⟨s3, detach, attach⟩ := g
                simp only [] at hg ⊢
                exact rep_reorganize s3 detach attach (rep_of_sameChain hg h3)

theorem rep_reconsider (s : State) (h : Hash) (c : Option Hash) (hr : Rep s) : Rep (reconsider s h c).1 := by
  unfold reconsider
  split
  · exact hr
  · split
    · exact hr
    · simp only []
      have h1 : Rep (s.setSt h (fun t => { t with invalidAnc := false, failed := false })) :=
        rep_of_sameChain (sameChain_setSt s _ _) hr
      generalize (s.setSt h (fun t => { t with invalidAnc := false, failed := false })) = s0 at h1 ⊢
      have h2 := rep_foldl_setSt (descTips s0 h)
        (fun s t => ((t.blk.hash :: ancestors s.idx t.blk.hash).takeWhile (· != h)).foldl
          (fun s x => s.setSt x (fun t => { t with invalidAnc := false })) s)
        (fun s a => sameChain_foldl _ _ (fun s x => sameChain_setSt s x _) s) s0 h1
      generalize ((descTips s0 h).foldl (fun s t => ((t.blk.hash :: ancestors s.idx t.blk.hash).takeWhile (· != h)).foldl
          (fun s x => s.setSt x (fun t => { t with invalidAnc := false })) s) s0) = s1 at h2 ⊢
      generalize reconsiderTarget (descTips s0 h) _ c = rtn
      split
      · exact h2
      · have hg := sameChain_getReorgNodes s1 rtn
        generalize getReorgNodes s1 rtn = g at hg ⊢
        obtain ⟨s3, detach, attach⟩ := g
        simp only [] at hg ⊢
        exact rep_reorganize s3 detach attach (rep_of_sameChain hg h2)

theorem rep_step (s : State) (o : Op) (hr : Rep s) : Rep (step s o).1 := by
  cases o with
  | block b => exact rep_processBlock s b hr
  | header b => exact rep_processHeader s b hr
  | invalidate h c =>
    simp only [step]
    have := rep_invalidate s h c hr
    generalize invalidate s h c = r at this ⊢
    obtain ⟨s1, ok⟩ := r
    cases ok <;> exact this
  | reconsider h c =>
    simp only [step]
    have := rep_reconsider s h c hr
    generalize reconsider s h c = r at this ⊢
    obtain ⟨s1, ok⟩ := r
    cases ok <;> exact this

theorem rep_runFrom (s : State) (ops : List Op) (hr : Rep s) : Rep (runFrom s ops) := by
  induction ops generalizing s with
  | nil => exact hr
  | cons o r ih => exact ih _ (rep_step s o hr)

theorem rep_run (ops : List Op) : Rep (run ops) := rep_runFrom init ops (by unfold Rep init; rfl)

end Lemmas
end BV.C02
