/-
C02: concrete histories used by Props.lean — the counter-examples for the invalidate / reconsider
clause (known findings F-C02-a, F-C02-b) and a sample history for the non-vacuity examples.
-/
import BV.C02.Model
namespace BV.C02

def vb (i p : Nat) : BlockAbs := ⟨i, p, 1, true, true, true, true⟩

/-- F-C02-a: G–A1..A5 active, C3–C4 off A2, D1–D3 off genesis; invalidate A1 -/
def witnessA : List Op :=
  [.block (vb 1 0), .block (vb 2 1), .block (vb 3 2), .block (vb 4 3), .block (vb 5 4),
   .block (vb 6 2), .block (vb 7 6), .block (vb 8 0), .block (vb 9 8), .block (vb 10 9),
   .invalidate 1 none]

/-- F-C02-b: A1–A4, B1→{B2a},{B2b→B3b}; invalidate B1, invalidate A3, reconsider B1 with the
implementation's map-order choice falling on the short branch B2a -/
def witnessB : List Op :=
  [.block (vb 1 0), .block (vb 2 1), .block (vb 3 2), .block (vb 4 3), .block (vb 5 0),
   .block (vb 6 5), .block (vb 7 5), .block (vb 8 7),
   .invalidate 5 none, .invalidate 3 none, .reconsider 5 (some 6)]

/-- a history with a fork, an orphan detour, a duplicate, a header, and an invalid-at-connect block -/
def sampleOps : List Op :=
  [.block (vb 3 2), .header (vb 1 0), .block (vb 1 0), .block (vb 2 1), .block (vb 2 1),
   .block (vb 4 0), .block ⟨5, 3, 1, true, true, true, false⟩, .block (vb 6 4), .block (vb 7 6), .block (vb 8 7)]

end BV.C02
