/-
C02 helper lemmas, part 3: the chain-core invariant and its preservation by `connectBestChain`.
-/
import BV.C02.Lemmas2
namespace BV.C02
namespace Lemmas

/-! ### the active chain as a path -/

/-- `best` (tip first) is a parent-linked path down to genesis whose blocks are stored and marked valid -/
inductive PathOK (s : State) : List Hash → Prop where
  | base : PathOK s [0]
  | cons {c p : Hash} {r : List Hash} {n : Node} : c ≠ 0 → lookup s.idx c = some n → n.blk.parent = p →
      (s.status c).data = true → (s.status c).valid = true → PathOK s (p :: r) → PathOK s (c :: p :: r)

theorem pathOK_ext {s s' : State} (hi : s'.idx = s.idx) (hf : FlagExt s s') {l : List Hash} (hp : PathOK s l) :
    PathOK s' l := by
  induction hp with
  | base => exact PathOK.base
  | cons h0 hl hpar hd hv _ ih =>
    refine PathOK.cons h0 (by rw [hi]; exact hl) hpar ?_ ((hf _).2.2.1 hv) ih
    rw [(hf _).1]; exact hd

theorem pathOK_zero {s : State} {l : List Hash} (hp : PathOK s l) : l.contains 0 = true := by
  induction hp with
  | base => simp
  | cons _ _ _ _ _ _ ih => simp at ih ⊢; exact Or.inr ih

theorem pathOK_data {s : State} (hg : (s.status 0).data = true) {l : List Hash} (hp : PathOK s l) :
    ∀ c ∈ l, (s.status c).data = true := by
  induction hp with
  | base => intro c hc; simp at hc; subst hc; exact hg
  | cons _ _ _ hd _ _ ih =>
    intro c hc
    cases hc with
    | head => exact hd
    | tail _ hc' => exact ih c hc'

theorem pathOK_dropWhile {s : State} {l : List Hash} (hp : PathOK s l) (f : Hash) (hf : l.contains f = true) :
    ∃ tl, l.dropWhile (· != f) = f :: tl ∧ PathOK s (f :: tl) := by
  induction hp with
  | base =>
    have : f = 0 := by simpa using hf
    subst this
    exact ⟨[], by simp [List.dropWhile], PathOK.base⟩
  | @cons c p r n h0 hl hpar hd hv hr ih =>
    by_cases hc : c = f
    · subst hc
      exact ⟨p :: r, by simp [List.dropWhile], PathOK.cons h0 hl hpar hd hv hr⟩
    · have hf' : (p :: r).contains f = true := by
        simp at hf ⊢
        rcases hf with h | h
        · exact absurd h.symm hc
        · exact h
      obtain ⟨tl, h1, h2⟩ := ih hf'
      refine ⟨tl, ?_, h2⟩
      have : (c != f) = true := by simpa using hc
      simp only [List.dropWhile, this]
      exact h1

theorem drop_takeWhile_length {α : Type} (p : α → Bool) (l : List α) :
    l.drop (l.takeWhile p).length = l.dropWhile p := by
  induction l with
  | nil => rfl
  | cons a r ih =>
    by_cases h : p a = true
    · simp [List.takeWhile, List.dropWhile, h, ih]
    · have h' : p a = false := by simpa using h
      simp [List.takeWhile, List.dropWhile, h']

theorem seg_list_head {idx : List Node} {h f : Hash} {l : List Node} (hs : Seg idx h l f) (tl : List Hash) :
    ∃ t, l.map (·.blk.hash) ++ f :: tl = h :: t := by
  cases hs with
  | nil => exact ⟨tl, rfl⟩
  | @cons _ n r _ hl _ => exact ⟨r.map (·.blk.hash) ++ f :: tl, by simp [lookup_hash hl]⟩

theorem pathOK_seg {s : State} {h f : Hash} {l : List Node} (hs : Seg s.idx h l f) {tl : List Hash}
    (hm : ∀ m ∈ l, (s.status m.blk.hash).data = true ∧ (s.status m.blk.hash).valid = true ∧ m.blk.hash ≠ 0)
    (hp : PathOK s (f :: tl)) : PathOK s (l.map (·.blk.hash) ++ f :: tl) := by
  induction hs with
  | nil => exact hp
  | @cons h n r f hl hs ih =>
    have ih' := ih (fun m hm' => hm m (by simp [hm'])) hp
    obtain ⟨t, ht⟩ := seg_list_head hs tl
    obtain ⟨h1, h2, h3⟩ := hm n (by simp)
    simp only [List.map_cons, List.cons_append]
    rw [ht] at ih' ⊢
    have hn := lookup_hash hl
    exact PathOK.cons h3 (by rw [hn]; exact hl) rfl h1 h2 ih'

/-! ### good paths under status extension -/

theorem goodPath_ext {s s' : State} (hi : s'.idx = s.idx) (hd : ∀ k, (s'.status k).data = (s.status k).data)
    {h : Hash} (hg : GoodPath s h) : GoodPath s' h := by
  induction hg with
  | gen => exact GoodPath.gen
  | step h0 hl hdat hc _ ih => exact GoodPath.step h0 (by rw [hi]; exact hl) (by rw [hd]; exact hdat) hc ih

theorem goodPath_inv {s : State} {h : Hash} (hg : GoodPath s h) (h0 : h ≠ 0) :
    ∃ n, lookup s.idx h = some n ∧ (s.status h).data = true ∧ n.blk.connOk = true ∧ GoodPath s n.blk.parent := by
  cases hg with
  | gen => exact absurd rfl h0
  | step _ hl hd hc hp => exact ⟨_, hl, hd, hc, hp⟩

theorem fs_congr {s s' : State} (hst : s'.st = s.st) (hi : s'.idx = s.idx) (hf : FlagsSound s) : FlagsSound s' := by
  have hs : ∀ k, s'.status k = s.status k := fun k => by unfold State.status; rw [hst]
  constructor
  · intro h n hv hl; rw [hs] at hv; rw [hi] at hl; exact hf.vOk h n hv hl
  · intro h hk; rw [hs] at hk; rw [hi]; exact hf.kIW h hk

/-! ### the chain-core invariant -/

structure CInv (U D : List BlockAbs) (s : State) : Prop where
  idx : IdxOK U s.idx
  gData : (s.status 0).data = true
  dIdx : ∀ h, (s.status h).data = true → ∃ n, lookup s.idx h = some n
  dClosed : ∀ h n, (s.status h).data = true → lookup s.idx h = some n → h ≠ 0 → (s.status n.blk.parent).data = true
  dD : ∀ h n, (s.status h).data = true → lookup s.idx h = some n → h ≠ 0 → n.blk ∈ D ∧ n.blk.preOk = true
  fs : FlagsSound s
  path : PathOK s s.best

def MaxExcept (s : State) (x : Hash) : Prop :=
  ∀ h n, h ≠ x → lookup s.idx h = some n → GoodPath s h → n.workSum ≤ s.wsum s.tip

def MaxAll (s : State) : Prop :=
  ∀ h n, lookup s.idx h = some n → GoodPath s h → n.workSum ≤ s.wsum s.tip

theorem cinv_transport {U D : List BlockAbs} {s s' : State} (hc : CInv U D s) (hi : s'.idx = s.idx)
    (hf : FlagExt s s') (hfs : FlagsSound s') (hp : PathOK s' s'.best) : CInv U D s' := by
  have hd : ∀ k, (s'.status k).data = (s.status k).data := fun k => (hf k).1
  constructor
  · rw [hi]; exact hc.idx
  · rw [hd]; exact hc.gData
  · intro h hh; rw [hd] at hh; rw [hi]; exact hc.dIdx h hh
  · intro h n hh hl h0; rw [hd] at hh ⊢; rw [hi] at hl; exact hc.dClosed h n hh hl h0
  · intro h n hh hl h0; rw [hd] at hh; rw [hi] at hl; exact hc.dD h n hh hl h0
  · exact hfs
  · exact hp

theorem takeWhile_split {α : Type} (p : α → Bool) (l : List α) (h : (l.takeWhile p).length < l.length) :
    ∃ k rest, l = l.takeWhile p ++ k :: rest ∧ p k = false := by
  induction l with
  | nil => simp at h
  | cons a r ih =>
    by_cases ha : p a = true
    · simp only [List.takeWhile, ha, List.length_cons] at h ⊢
      obtain ⟨k, rest, h1, h2⟩ := ih (by omega)
      exact ⟨k, rest, by simp only [List.cons_append]; rw [← h1], h2⟩
    · have ha' : p a = false := by simpa using ha
      exact ⟨a, r, by simp [List.takeWhile, ha'], ha'⟩

theorem seg_iw_above {idx : List Node} {l1 l2 : List Node} {k : Node} {h f : Hash}
    (hs : Seg idx h (l1 ++ k :: l2) f) (hw : IW idx k.blk.hash) : IW idx h ∧ ∀ x ∈ l1, IW idx x.blk.hash := by
  induction l1 generalizing h with
  | nil =>
    simp only [List.nil_append] at hs
    have := (seg_head hs).1
    exact ⟨by rw [← this]; exact hw, by intro x hx; cases hx⟩
  | cons a l1' ih =>
    simp only [List.cons_append] at hs
    cases hs with
    | cons hl hs' =>
      obtain ⟨h1, h2⟩ := ih hs'
      have ha : IW idx h := IW.anc hl h1
      refine ⟨ha, ?_⟩
      intro x hx
      cases hx with
      | head => rw [lookup_hash hl]; exact ha
      | tail _ hx' => exact h2 x hx'

theorem seg_data {U D : List BlockAbs} {s : State} (hc : CInv U D s) {h f : Hash} {l : List Node}
    (hs : Seg s.idx h l f) (hd : (s.status h).data = true)
    (hz : ∀ m ∈ l, m.blk.hash ≠ 0) : ∀ m ∈ l, (s.status m.blk.hash).data = true := by
  induction hs with
  | nil => intro m hm; cases hm
  | @cons h n r f hl hs ih =>
    have hn := lookup_hash hl
    have h0 : h ≠ 0 := by rw [← hn]; exact hz n (by simp)
    have hp := hc.dClosed h n hd hl h0
    intro m hm
    cases hm with
    | head => rw [hn]; exact hd
    | tail _ hm' => exact ih hp (fun m hm'' => hz m (by simp [hm''])) m hm'

theorem wsum_eq {s : State} {h : Hash} {n : Node} (hl : lookup s.idx h = some n) : s.wsum h = n.workSum := by
  unfold State.wsum wsumOf; rw [hl]

theorem contains_false_ne_zero {l : List Hash} (h0 : l.contains 0 = true) {x : Hash} (hx : l.contains x = false) : x ≠ 0 := by
  intro e; subst e; rw [h0] at hx; cases hx

/-- the first-seen rule, one step: the active chain is unchanged or its cumulative work strictly grew -/
def TipAdv (s s' : State) : Prop := s'.best = s.best ∨ s.wsum s.tip < s'.wsum s'.tip

/-- the result of `connectBestChain` for a freshly stored node -/
theorem connectBest_spec {U D : List BlockAbs} {s : State} {n : Node} (hc : CInv U D s)
    (hl : lookup s.idx n.blk.hash = some n) (hd : (s.status n.blk.hash).data = true)
    (hnb : s.best.contains n.blk.hash = false) (hpk : (s.status n.blk.parent).knownInvalid = false)
    (hmax : MaxExcept s n.blk.hash) (hwork : 0 < n.blk.work) :
    CInv U D (connectBest s n).1 ∧ MaxAll (connectBest s n).1 ∧ SameCore s (connectBest s n).1 ∧
      FlagExt s (connectBest s n).1 ∧
      ((connectBest s n).2 = none → ((connectBest s n).1.status n.blk.hash).knownInvalid = true) ∧
      TipAdv s (connectBest s n).1 := by
  have hz := pathOK_zero hc.path
  have hn0 : n.blk.hash ≠ 0 := contains_false_ne_zero hz hnb
  obtain ⟨hnU, p, hlp, hws, _⟩ := idxOK_node hc.idx hl hn0
  -- generic facts about extending the tip
  have extend : ∀ s1 : State, SameChain s s1 → FlagExt s s1 → FlagsSound s1 →
      (s1.status n.blk.hash).valid = true → n.blk.parent = s.tip →
      CInv U D (connect s1 n.blk.hash) ∧ MaxAll (connect s1 n.blk.hash) ∧ SameCore s (connect s1 n.blk.hash) ∧
        FlagExt s (connect s1 n.blk.hash) ∧ TipAdv s (connect s1 n.blk.hash) := by
    intro s1 hsc hfe hfs hv hpt
    have hi : s1.idx = s.idx := hsc.1.1
    have hpath1 : PathOK s1 s1.best := by rw [hsc.2.1]; exact pathOK_ext hi hfe hc.path
    have hcon : (connect s1 n.blk.hash).idx = s.idx := hi
    have hstc : ∀ k, (connect s1 n.blk.hash).status k = s1.status k := fun k => rfl
    have hfe' : FlagExt s (connect s1 n.blk.hash) := fun k => by rw [hstc]; exact hfe k
    have hp' : PathOK (connect s1 n.blk.hash) (connect s1 n.blk.hash).best := by
      have hb : (connect s1 n.blk.hash).best = n.blk.hash :: s.best := by unfold connect; simp [hsc.2.1]
      rw [hb]
      have hps : PathOK (connect s1 n.blk.hash) s.best := pathOK_ext hcon hfe' hc.path
      cases hbest : s.best with
      | nil => rw [hbest] at hps; cases hps
      | cons t r =>
        rw [hbest] at hps
        have ht : s.tip = t := by unfold State.tip; rw [hbest]; rfl
        refine PathOK.cons hn0 (by rw [hcon]; exact hl) (by rw [hpt, ht]) ?_ ?_ hps
        · rw [(hfe' _).1]; exact hd
        · rw [hstc]; exact hv
    have hadv : TipAdv s (connect s1 n.blk.hash) := by
      right
      have htip : (connect s1 n.blk.hash).tip = n.blk.hash := rfl
      have hw : (connect s1 n.blk.hash).wsum n.blk.hash = n.workSum := by
        apply wsum_eq; rw [hcon]; exact hl
      have hwt : s.wsum s.tip = p.workSum := by rw [← hpt]; exact wsum_eq hlp
      rw [htip, hw, hwt]; omega
    refine ⟨cinv_transport hc hcon hfe' (fs_congr (s := s1) (s' := connect s1 n.blk.hash) rfl rfl hfs) hp', ?_, ?_, hfe', hadv⟩
    · intro h m hlm hg
      have htip : (connect s1 n.blk.hash).tip = n.blk.hash := rfl
      have hw : (connect s1 n.blk.hash).wsum n.blk.hash = n.workSum := by
        apply wsum_eq; rw [hcon]; exact hl
      rw [htip, hw]
      rw [hcon] at hlm
      by_cases e : h = n.blk.hash
      · subst e; rw [hl] at hlm; cases hlm; exact Nat.le_refl _
      · have hg' : GoodPath s h := goodPath_ext hcon.symm (fun k => ((hfe' k).1).symm) hg
        have := hmax h m e hlm hg'
        have hwt : s.wsum s.tip = p.workSum := by rw [← hpt]; exact wsum_eq hlp
        omega
    · exact ⟨hi, hsc.1.2.1, hsc.1.2.2.1, hsc.1.2.2.2.1, hsc.1.2.2.2.2⟩
  -- generic facts when only flags changed and the new node cannot be on a good path
  have flagsOnly : ∀ s1 : State, SameChain s s1 → FlagExt s s1 → FlagsSound s1 →
      (¬ GoodPath s1 n.blk.hash) → CInv U D s1 ∧ MaxAll s1 ∧ SameCore s s1 ∧ FlagExt s s1 ∧ TipAdv s s1 := by
    intro s1 hsc hfe hfs hng
    have hi : s1.idx = s.idx := hsc.1.1
    have hpath1 : PathOK s1 s1.best := by rw [hsc.2.1]; exact pathOK_ext hi hfe hc.path
    refine ⟨cinv_transport hc hi hfe hfs hpath1, ?_, hsc.1, hfe, Or.inl hsc.2.1⟩
    intro h m hlm hg
    have hw : s1.wsum s1.tip = s.wsum s.tip := by
      unfold State.wsum State.tip; rw [hi, hsc.2.1]
    rw [hw]
    by_cases e : h = n.blk.hash
    · subst e; exact absurd hg hng
    · rw [hi] at hlm
      exact hmax h m e hlm (goodPath_ext hi.symm (fun k => ((hfe k).1).symm) hg)
  unfold connectBest
  simp only []
  by_cases hpt : n.blk.parent = s.tip
  · have hpt' : (n.blk.parent == s.tip) = true := by simpa using hpt
    simp only [hpt', if_true]
    cases hv : (s.status n.blk.hash).valid with
    | true =>
      simp only [if_true]
      obtain ⟨a, b, c, d, e⟩ := extend s (SameChain.refl s) (FlagExt.refl s) hc.fs hv hpt
      exact ⟨a, b, c, d, by simp, e⟩
    | false =>
      simp only [Bool.false_eq_true, if_false]
      cases hcc : n.blk.connOk with
      | true =>
        simp only [if_true]
        have hv' : ((s.markValid n.blk.hash).status n.blk.hash).valid = true := by
          unfold State.markValid; rw [status_setSt]; simp
        obtain ⟨a, b, c, d, e⟩ := extend (s.markValid n.blk.hash) (sameChain_setSt s _ _) (flagExt_markValid s _)
          (fs_markValid hc.fs hl hcc) hv' hpt
        exact ⟨a, b, c, d, by simp, e⟩
      | false =>
        simp only [Bool.false_eq_true, if_false]
        have hng : ¬ GoodPath (s.markFailed n.blk.hash) n.blk.hash := by
          intro hg
          obtain ⟨m, hl', _, hc', _⟩ := goodPath_inv hg hn0
          have : (s.markFailed n.blk.hash).idx = s.idx := rfl
          rw [this, hl] at hl'; cases hl'
          rw [hcc] at hc'; cases hc'
        obtain ⟨a, b, c, d, e⟩ := flagsOnly (s.markFailed n.blk.hash) (sameChain_setSt s _ _) (flagExt_markFailed s _)
          (fs_markFailed hc.fs hl hcc) hng
        refine ⟨a, b, c, d, fun _ => ?_, e⟩
        unfold State.markFailed; rw [status_setSt]; simp [Status.knownInvalid]
  · have hpt' : (n.blk.parent == s.tip) = false := by simpa using hpt
    simp only [hpt', Bool.false_eq_true, if_false]
    by_cases hle : n.workSum ≤ s.wsum s.tip
    · simp only [hle, if_true]
      refine ⟨hc, ?_, SameCore.refl s, FlagExt.refl s, by simp, Or.inl rfl⟩
      intro h m hlm hg
      by_cases e : h = n.blk.hash
      · subst e; rw [hl] at hlm; cases hlm; exact hle
      · exact hmax h m e hlm hg
    · simp only [hle, if_false]
      -- the reorganisation attempt
      obtain ⟨f, hseg, hfb, hmem⟩ := branch_spec hc.idx s.best hz n.blk.hash (by rw [hl]; rfl)
      unfold getReorgNodes
      simp only [hpk, Bool.false_eq_true, if_false]
      -- the branch starts with n
      have hbr : ∃ r, branch s.best s.idx n.blk.hash = n :: r := by
        cases hb : branch s.best s.idx n.blk.hash with
        | nil =>
          rw [hb] at hseg
          cases hseg
          rw [hnb] at hfb; cases hfb
        | cons a r =>
          rw [hb] at hseg
          have := (seg_head hseg).2
          rw [hl] at this; cases this
          exact ⟨r, rfl⟩
      obtain ⟨r, hbr⟩ := hbr
      by_cases hgood : ((branch s.best s.idx n.blk.hash).takeWhile (fun m => !(s.status m.blk.hash).knownInvalid)).length
          < (branch s.best s.idx n.blk.hash).length
      · simp only [hgood, if_true]
        obtain ⟨k, rest, hsplit, hk⟩ := takeWhile_split _ _ hgood
        have hk' : (s.status k.blk.hash).knownInvalid = true := by simpa using hk
        rw [hsplit] at hseg
        obtain ⟨hiwn, hiw⟩ := seg_iw_above hseg (hc.fs.kIW _ hk')
        generalize ((branch s.best s.idx n.blk.hash).takeWhile (fun m => !(s.status m.blk.hash).knownInvalid)) = good at hiw ⊢
        have hfs1 : FlagsSound (markAllInvAnc s (good.map (·.blk.hash))) := by
          apply fs_markAll hc.fs
          intro x hx
          obtain ⟨m, hm, rfl⟩ := List.mem_map.mp hx
          exact hiw m hm
        have hsc1 := sameChain_markAll s (good.map (·.blk.hash))
        have hng : ¬ GoodPath (markAllInvAnc s (good.map (·.blk.hash))) n.blk.hash := by
          apply iw_not_good (U := U)
          · rw [hsc1.1.1]; exact hc.idx
          · rw [hsc1.1.1]; exact hiwn
        obtain ⟨a, b, c, d, e⟩ := flagsOnly _ hsc1 (flagExt_markAll s _) hfs1 hng
        -- reorganize with empty lists is the identity
        have hre : reorganize (markAllInvAnc s (good.map (·.blk.hash))) [] [] =
            ({ (markAllInvAnc s (good.map (·.blk.hash))) with
                best := (markAllInvAnc s (good.map (·.blk.hash))).best,
                notes := (markAllInvAnc s (good.map (·.blk.hash))).notes }, .ok) := by
          simp [reorganize, verify]
        rw [hre]
        simp only []
        exact ⟨a, b, c, d, by simp, e⟩
      · simp only [hgood, if_false]
        have hfork := seg_fork hseg
        rw [hfork]
        -- facts about the attach list
        have hz' : ∀ m ∈ branch s.best s.idx n.blk.hash, m.blk.hash ≠ 0 :=
          fun m hm => contains_false_ne_zero hz (hmem m hm)
        have hdat := seg_data hc hseg hd hz'
        have hdatr : ∀ m ∈ (branch s.best s.idx n.blk.hash).reverse, (s.status m.blk.hash).data = true :=
          fun m hm => hdat m (List.mem_reverse.mp hm)
        obtain ⟨hup, _⟩ := seg_up hseg
        have hfsv := fs_verify hc.fs hup
        have hscv := sameChain_verify s (branch s.best s.idx n.blk.hash).reverse
        have hfev := flagExt_verify s (branch s.best s.idx n.blk.hash).reverse
        have hno := verify_not_other hdatr
        have hvok := @verify_ok s (branch s.best s.idx n.blk.hash).reverse
        have hvrule := @verify_rule s (branch s.best s.idx n.blk.hash).reverse
        unfold reorganize
        generalize hve : verify s (branch s.best s.idx n.blk.hash).reverse = vres at hfsv hscv hfev hno hvok hvrule ⊢
        obtain ⟨s1, vr⟩ := vres
        have hi1 : s1.idx = s.idx := hscv.1.1
        cases vr with
        | other => exact absurd rfl hno
        | rule =>
          simp only []
          obtain ⟨m, hm, hkm⟩ := hvrule rfl
          have hmn : m = n := by
            rw [hbr] at hm
            simp at hm
            exact hm.symm
          subst hmn
          have hng : ¬ GoodPath s1 m.blk.hash := by
            apply iw_not_good (U := U)
            · rw [hi1]; exact hc.idx
            · exact hfsv.kIW _ hkm
          obtain ⟨a, b, c, d, e⟩ := flagsOnly s1 hscv hfev hfsv hng
          exact ⟨a, b, c, d, fun _ => hkm, e⟩
        | ok =>
          simp only []
          have hall := hvok rfl
          -- the new chain
          obtain ⟨tl, hdw, hptl⟩ := pathOK_dropWhile hc.path f hfb
          have hbest' : ((branch s.best s.idx n.blk.hash).reverse.map (·.blk.hash)).reverse ++
              s1.best.drop (s.best.takeWhile (· != f)).length =
              (branch s.best s.idx n.blk.hash).map (·.blk.hash) ++ f :: tl := by
            rw [hscv.2.1, drop_takeWhile_length, hdw]
            simp [List.map_reverse]
          rw [hbest']
          generalize hs2 : ({ s1 with
              best := (branch s.best s.idx n.blk.hash).map (·.blk.hash) ++ f :: tl,
              notes := ((branch s.best s.idx n.blk.hash).reverse.map (fun n => Note.conn n.blk.hash)).reverse ++
                (((s.best.takeWhile (· != f)).map Note.disc).reverse ++ s1.notes) } : State) = s2
          have hi2 : s2.idx = s.idx := by rw [← hs2]; exact hi1
          have hst2 : ∀ k, s2.status k = s1.status k := fun k => by rw [← hs2]; rfl
          have hfe2 : FlagExt s s2 := fun k => by rw [hst2]; exact hfev k
          have hfs2 : FlagsSound s2 := fs_congr (by rw [← hs2]) (by rw [← hs2]) hfsv
          have hb2 : s2.best = (branch s.best s.idx n.blk.hash).map (·.blk.hash) ++ f :: tl := by rw [← hs2]
          have hp2 : PathOK s2 s2.best := by
            rw [hb2]
            apply pathOK_seg
            · rw [hi2]; exact hseg
            · intro m hm
              obtain ⟨v1, v2⟩ := hall m (List.mem_reverse.mpr hm)
              exact ⟨by rw [hst2]; exact v2, by rw [hst2]; exact v1, hz' m hm⟩
            · exact pathOK_ext hi2 hfe2 hptl
          have htip : s2.tip = n.blk.hash := by
            unfold State.tip; rw [hb2, hbr]; rfl
          have hw : s2.wsum n.blk.hash = n.workSum := by apply wsum_eq; rw [hi2]; exact hl
          refine ⟨cinv_transport hc hi2 hfe2 hfs2 hp2, ?_, ?_, hfe2, by simp, Or.inr (by rw [htip, hw]; omega)⟩
          · intro h m hlm hg
            rw [htip, hw]
            rw [hi2] at hlm
            by_cases e : h = n.blk.hash
            · subst e; rw [hl] at hlm; cases hlm; exact Nat.le_refl _
            · have := hmax h m e hlm (goodPath_ext hi2.symm (fun k => ((hfe2 k).1).symm) hg)
              omega
          · rw [← hs2]
            exact ⟨hi1, hscv.1.2.1, hscv.1.2.2.1, hscv.1.2.2.2.1, hscv.1.2.2.2.2⟩

end Lemmas
end BV.C02
