/-
C02 Spec — "the active chain is the most-work fully-valid chain" stated directly (core-only).

Shared by C01/C04 through `BV.C02.Model` (the `ChainCore` machine): this file only fixes the abstract
block, the operations of a history, and what "best chain" means for a set of delivered blocks.

Abstraction. A block is its hash, its parent's hash, its own work and four *verdict bits* that say
whether the block passes each stage of validation **in the context of its own ancestors**:

* `sane`   — context-free sanity of the full block (`checkBlockSanity`; merkle root, sizes, …),
* `hdrOk`  — the header's contextual checks (`CheckBlockHeaderContext`: difficulty, median time, …),
* `ctxOk`  — the block's remaining contextual checks (`checkBlockContext`: finality, BIP34, …),
* `connOk` — the connect-time checks (`checkConnectBlock`: inputs, amounts, scripts, coinbase value).

C02 is about chain *selection*: the bits are oracle bits carried on the block; what they mean is C01's
subject. Because each verdict depends only on the block and its own ancestor chain, one bit per block
is exactly the information the selection logic consumes. Hash 0 is the genesis block.
-/
namespace BV.C02

abbrev Hash := Nat

/-- abstract block (also used for a header delivery, which reads `hash parent work hdrOk` only) -/
structure BlockAbs where
  hash : Hash
  parent : Hash
  work : Nat
  sane : Bool
  hdrOk : Bool
  ctxOk : Bool
  connOk : Bool
deriving DecidableEq, Repr, Inhabited

/-- passes everything that is checked before the block is stored -/
def BlockAbs.preOk (b : BlockAbs) : Bool := b.sane && b.hdrOk && b.ctxOk
/-- fully valid in the context of its own ancestors -/
def BlockAbs.ok (b : BlockAbs) : Bool := b.preOk && b.connOk

/-- one step of a history. `invalidate`/`reconsider` carry an optional *choice*: the chain tip the
implementation picked where its outcome depends on Go map iteration order (read back from the
implementation's own output; `none` = the most-work candidate). -/
inductive Op where
  | block (b : BlockAbs)
  | header (b : BlockAbs)
  | invalidate (h : Hash) (choice : Option Hash)
  | reconsider (h : Hash) (choice : Option Hash)
deriving Repr, Inhabited

namespace Spec

/-- blocks delivered with their data so far -/
def delivered : List Op → List BlockAbs
  | [] => []
  | .block b :: r => b :: delivered r
  | _ :: r => delivered r

/-- every block or header that ever appeared in the history -/
def mentioned : List Op → List BlockAbs
  | [] => []
  | .block b :: r => b :: mentioned r
  | .header b :: r => b :: mentioned r
  | _ :: r => mentioned r

/-- `ValidChain D h w`: `h` is the tip of a chain from genesis all of whose blocks were delivered
(are in `D`) and are fully valid; `w` is its cumulative work (genesis counts 0). -/
inductive ValidChain (D : List BlockAbs) : Hash → Nat → Prop where
  | genesis : ValidChain D 0 0
  | step {b : BlockAbs} {w : Nat} :
      b ∈ D → b.ok = true → ValidChain D b.parent w → ValidChain D b.hash (w + b.work)

/-- `t` is a best tip for `D`: a valid delivered chain ends in `t`, and no valid delivered chain has
more work. (Which of several equal-work best tips is active is settled by the first-seen rule:
the active tip only ever changes to a chain with strictly more work.) -/
def IsBest (D : List BlockAbs) (t : Hash) : Prop :=
  ∃ w, ValidChain D t w ∧ ∀ h w', ValidChain D h w' → w' ≤ w

/-- hashes currently excluded by a manual invalidation (history oldest first): `invalidate h` adds
`h`, `reconsider h` removes it -/
def excludedFrom (X : List Hash) : List Op → List Hash
  | [] => X
  | .invalidate h _ :: r => excludedFrom (h :: X.filter (· != h)) r
  | .reconsider h _ :: r => excludedFrom (X.filter (· != h)) r
  | _ :: r => excludedFrom X r

def excluded (ops : List Op) : List Hash := excludedFrom [] ops

/-- valid delivered chains that avoid every block of `X` -/
inductive ValidChainEx (D : List BlockAbs) (X : List Hash) : Hash → Nat → Prop where
  | genesis : ValidChainEx D X 0 0
  | step {b : BlockAbs} {w : Nat} :
      b ∈ D → b.ok = true → b.hash ∉ X → ValidChainEx D X b.parent w → ValidChainEx D X b.hash (w + b.work)

/-- best tip among the valid delivered chains that avoid `X` -/
def IsBestEx (D : List BlockAbs) (X : List Hash) (t : Hash) : Prop :=
  ∃ w, ValidChainEx D X t w ∧ ∀ h w', ValidChainEx D X h w' → w' ≤ w

/-- hashes identify blocks (collision-freeness of the block hash, an explicit hypothesis), no
delivered block claims the genesis hash, and every block has positive work (C09). -/
def WF (bs : List BlockAbs) : Prop :=
  (∀ a ∈ bs, ∀ b ∈ bs, a.hash = b.hash → a = b) ∧ (∀ a ∈ bs, a.hash ≠ 0) ∧ (∀ a ∈ bs, 0 < a.work)

instance (bs : List BlockAbs) : Decidable (WF bs) := by unfold WF; exact inferInstance

/-- the history consists of deliveries only (no InvalidateBlock / ReconsiderBlock) -/
def deliveryOnly : List Op → Prop
  | [] => True
  | .block _ :: r => deliveryOnly r
  | .header _ :: r => deliveryOnly r
  | _ :: _ => False

instance deliveryOnlyDec : (ops : List Op) → Decidable (deliveryOnly ops)
  | [] => isTrue trivial
  | .block _ :: r => deliveryOnlyDec r
  | .header _ :: r => deliveryOnlyDec r
  | .invalidate _ _ :: _ => isFalse (fun h => h)
  | .reconsider _ _ :: _ => isFalse (fun h => h)

/-! Executable counterpart used by the driver to answer from the Spec: cumulative work of the valid
delivered chain ending in `h`, if there is one (`fuel` bounds the walk to genesis). `excl` lists
hashes that are currently excluded by a manual invalidation. -/
def chainWork (D : List BlockAbs) (excl : List Hash) : Nat → Hash → Option Nat
  | 0, _ => none
  | fuel + 1, h =>
    if h == 0 then some 0
    else if excl.contains h then none
    else match D.find? (fun b => b.hash == h) with
      | none => none
      | some b =>
        if b.ok then
          match chainWork D excl fuel b.parent with
          | some w => some (w + b.work)
          | none => none
        else none

/-- the greatest cumulative work of a valid delivered chain that avoids `excl` -/
def bestWork (D : List BlockAbs) (excl : List Hash) : Nat :=
  (D.map (fun b => (chainWork D excl (D.length + 1) b.hash).getD 0)).foldl max 0

end Spec
end BV.C02
