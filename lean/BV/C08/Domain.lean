/-
C08: the domain `wf` of the transaction codec, unfolded to an explicit, readable predicate. Core-only.
-/
import BV.C08.Lemmas
namespace BV.C08
open BV.Codec

theorem p256_4 : (256 : Nat) ^ 4 = 2 ^ 32 := by decide
theorem p256_8 : (256 : Nat) ^ 8 = 2 ^ 64 := by decide

theorem varBytesPooled_wf_iff (max : Nat) (l : Bytes) (hmax : max < 2 ^ 64) :
    (varBytesPooled max).wf l ↔ l.length ≤ max := by
  simp only [varBytesPooled, imap, seqDep, BV.Codec.guard, varint, bytesN, decide_eq_true_eq]
  constructor
  · rintro ⟨⟨⟨_, h2⟩, _⟩, _⟩; exact h2
  · intro h1; exact ⟨⟨⟨by omega, h1⟩, trivial⟩, trivial⟩

theorem script_wf_iff (s : Bytes) : script.wf s ↔ s.length ≤ maxWitnessItemSize :=
  varBytesPooled_wf_iff _ s (by decide)

theorem txIn_wf_iff (i : TxIn) : txIn.wf i ↔ TxInOk i := by
  have h4 := p256_4
  simp only [txIn, seq, seqDep, hash32, bytesN, u32le, uintLE, TxInOk, script_wf_iff, h4]

theorem txOut_wf_iff (o : TxOut) : txOut.wf o ↔ TxOutOk o := by
  have h8 := p256_8
  simp only [txOut, seq, seqDep, u64le, uintLE, TxOutOk, script_wf_iff, h8]

theorem witness_wf_iff (w : Witness) : witness.wf w ↔ WitnessOk w := by
  unfold witness WitnessOk
  rw [listOf_wf_iff _ _ _ _ (by decide)]
  simp only [script_wf_iff]

theorem txIns_wf_iff (l : List TxIn) : txIns.wf l ↔ l.length ≤ maxTxInPerMessage ∧ ∀ i ∈ l, TxInOk i := by
  unfold txIns
  rw [listOf_wf_iff _ _ _ _ (by decide)]
  simp only [txIn_wf_iff]

theorem txOuts_wf_iff (l : List TxOut) : txOuts.wf l ↔ l.length ≤ maxTxOutPerMessage ∧ ∀ o ∈ l, TxOutOk o := by
  unfold txOuts
  rw [listOf_wf_iff _ _ _ _ (by decide)]
  simp only [txOut_wf_iff]

theorem eq_replicate_nil_iff (ws : List Witness) (n : Nat) :
    ws = List.replicate n [] ↔ ws.length = n ∧ ws.any (fun w => !w.isEmpty) = false := by
  constructor
  · rintro rfl; exact ⟨by simp, any_replicate_nil n⟩
  · rintro ⟨hl, ha⟩
    subst hl
    induction ws with
    | nil => rfl
    | cons w ws ih =>
      simp only [List.any_cons, Bool.or_eq_false_iff, Bool.not_eq_eq_eq_not, Bool.not_false,
        List.isEmpty_iff] at ha
      obtain ⟨hw, hrest⟩ := ha
      subst hw
      rw [List.length_cons, List.replicate_succ]
      exact congrArg _ (ih hrest)

theorem txBodyBase_wf_iff (b : TxBody) :
    txBodyBase.wf b ↔ txIns.wf b.1 ∧ txOuts.wf b.2.1 ∧ b.2.2.2 < 2 ^ 32 ∧
      b.2.2.1.length = b.1.length ∧ hasWitness b = false := by
  obtain ⟨ins, outs, wits, lock⟩ := b
  have h4 := p256_4
  simp only [txBodyBase, imap, seq, seqDep, u32le, uintLE, h4, hasWitness, Prod.mk.injEq, true_and, and_true]
  rw [eq_comm, eq_replicate_nil_iff]
  constructor
  · rintro ⟨⟨h1, h2, h3⟩, h4, h5⟩; exact ⟨h1, h2, h3, h4, h5⟩
  · rintro ⟨h1, h2, h3, h4, h5⟩; exact ⟨⟨h1, h2, h3⟩, h4, h5⟩

theorem txBodyWit_wf_iff (b : TxBody) :
    txBodyWit.wf b ↔ txIns.wf b.1 ∧ txOuts.wf b.2.1 ∧ b.2.2.2 < 2 ^ 32 ∧
      b.2.2.1.length = b.1.length ∧ (∀ w ∈ b.2.2.1, WitnessOk w) ∧ hasWitness b = true := by
  obtain ⟨ins, outs, wits, lock⟩ := b
  have h4 := p256_4
  simp only [txBodyWit, BV.Codec.guard, imap, seq, seqDep, magic, listN, u32le, uintLE, h4, witness_wf_iff,
    true_and, and_true]
  constructor
  · rintro ⟨⟨h1, h2, ⟨h3, h5⟩, h6⟩, h7⟩; exact ⟨h1, h2, h6, h3, h5, h7⟩
  · rintro ⟨h1, h2, h6, h3, h5, h7⟩; exact ⟨⟨h1, h2, ⟨h3, h5⟩, h6⟩, h7⟩

theorem hasWitness_false_ok (b : TxBody) (h : hasWitness b = false) : ∀ w ∈ b.2.2.1, WitnessOk w := by
  intro w hw
  have : w = [] := by
    unfold hasWitness at h
    have := List.any_eq_false.mp h w hw
    simpa using this
  subst this
  exact ⟨Nat.zero_le _, fun x hx => by cases hx⟩

theorem hasWitness_inputs (b : TxBody) (hl : b.2.2.1.length = b.1.length) (h : hasWitness b = true) :
    b.1 ≠ [] := by
  intro hnil
  rw [hnil] at hl
  have : b.2.2.1 = [] := List.eq_nil_of_length_eq_zero hl
  simp [hasWitness, this] at h

/-- the domain of the transaction codec, in words (Spec.TxDomain) -/
theorem tx_wf_iff (e : TxEnc) (t : Tx) : (tx e).wf t ↔ TxDomain e t := by
  obtain ⟨v, b⟩ := t
  have h4 := p256_4
  have hb : (tx e).wf (v, b) ↔ v < 2 ^ 32 ∧ (txBody e).wf b ∧ totalScript b ≤ scriptSlabSize := by
    simp only [tx, charge, BV.Codec.guard, seq, seqDep, u32le, uintLE, h4, decide_eq_true_eq]
    constructor
    · rintro ⟨⟨h1, h2⟩, h3⟩; exact ⟨h1, h2, h3⟩
    · rintro ⟨h1, h2, h3⟩; exact ⟨⟨h1, h2⟩, h3⟩
  rw [hb]
  unfold TxDomain
  cases e with
  | base =>
    simp only [txBody, txBodyBase_wf_iff, txIns_wf_iff, txOuts_wf_iff]
    constructor
    · rintro ⟨h1, ⟨⟨h2, h3⟩, ⟨h4, h5⟩, h6, h7, h8⟩, h9⟩
      exact ⟨h1, h2, h3, h4, h5, h7, hasWitness_false_ok b h8, h6, h9, h8⟩
    · rintro ⟨h1, h2, h3, h4, h5, h7, _, h6, h9, h8⟩
      exact ⟨h1, ⟨⟨h2, h3⟩, ⟨h4, h5⟩, h6, h7, h8⟩, h9⟩
  | witness =>
    simp only [txBody, txBodyWitEnc, alt]
    cases hw : hasWitness b with
    | true =>
      simp only [if_true, txBodyWit_wf_iff, txIns_wf_iff, txOuts_wf_iff, hw]
      constructor
      · rintro ⟨h1, ⟨⟨h2, h3⟩, ⟨h4, h5⟩, h6, h7, h8, _⟩, h9⟩
        exact ⟨h1, h2, h3, h4, h5, h7, h8, h6, h9, hasWitness_inputs b h7 hw⟩
      · rintro ⟨h1, h2, h3, h4, h5, h7, h8, h6, h9, _⟩
        exact ⟨h1, ⟨⟨h2, h3⟩, ⟨h4, h5⟩, h6, h7, h8, trivial⟩, h9⟩
    | false =>
      simp only [Bool.false_eq_true, if_false, BV.Codec.guard, txBodyBase_wf_iff, txIns_wf_iff,
        txOuts_wf_iff, hw, Bool.not_eq_eq_eq_not, Bool.not_true, List.isEmpty_eq_false_iff]
      constructor
      · rintro ⟨h1, ⟨⟨⟨h2, h3⟩, ⟨h4, h5⟩, h6, h7, _⟩, h10⟩, h9⟩
        exact ⟨h1, h2, h3, h4, h5, h7, hasWitness_false_ok b hw, h6, h9, h10⟩
      · rintro ⟨h1, h2, h3, h4, h5, h7, _, h6, h9, h10⟩
        exact ⟨h1, ⟨⟨⟨h2, h3⟩, ⟨h4, h5⟩, h6, h7, trivial⟩, h10⟩, h9⟩

theorem witLen_replicate_nil' (n : Nat) : witLen (List.replicate n ([] : Witness)) = 0 := by
  induction n with
  | zero => rfl
  | succ n ih => simp [List.replicate_succ, witLen, sumLen, ih]

/-- stripping the witness data of a transaction of either domain lands in the base-encoding domain -/
theorem stripWitness_domain (e : TxEnc) (t : Tx) (h : TxDomain e t) : TxDomain .base (stripWitness t) := by
  obtain ⟨h1, h2, h3, h4, h5, _, _, h8, h9, _⟩ := h
  refine ⟨h1, h2, h3, h4, h5, by simp [stripWitness], ?_, h8, ?_, ?_⟩
  · intro w hw
    have : w = [] := by
      simp only [stripWitness] at hw
      exact (List.mem_replicate.mp hw).2
    subst this
    exact ⟨Nat.zero_le _, fun x hx => by cases hx⟩
  · have : totalScript (stripWitness t).2 ≤ totalScript t.2 := by
      simp only [totalScript, stripWitness, witLen_replicate_nil']
      omega
    omega
  · show hasWitness (stripWitness t).2 = false
    simp only [hasWitness, stripWitness]
    exact any_replicate_nil _

/-- `SerializeNoWitness` writes the same bytes for a transaction and for its stripped form -/
theorem enc_base_strip (t : Tx) : (tx .base).enc t = (tx .base).enc (stripWitness t) := rfl

theorem blockHeader_wf_iff (h : BlockHeader) : blockHeader.wf h ↔ HeaderOk h := by
  have h4 := p256_4
  simp only [blockHeader, seq, seqDep, hash32, bytesN, u32le, uintLE, HeaderOk, h4]

theorem block_wf_iff (e : TxEnc) (b : Block) :
    (block e).wf b ↔ HeaderOk b.1 ∧ b.2.length ≤ maxTxPerBlock ∧ ∀ t ∈ b.2, TxDomain e t := by
  unfold block
  simp only [seq, seqDep, blockHeader_wf_iff]
  rw [listOf_wf_iff _ _ _ _ (by decide)]
  simp only [tx_wf_iff]

end BV.C08
