/-
C08: allocation bounds of every message decoder (`AllocB c A B`: at most `A + B·|input|` bytes are
requested from the allocator, whatever counts and lengths the input claims). Core-only.
-/
import BV.Common.CodecAlloc
import BV.C08.Lemmas
namespace BV.C08
open BV.Codec

/-- restate an inferred bound with closed numerals -/
macro "alloc_by_inference" : tactic =>
  `(tactic| exact AllocB.weaken _ _ inferInstance (by decide) (by decide))

instance : AllocB hash32 0 0 := inferInstanceAs (AllocB (bytesN 32) 0 0)
instance : ConsumesC hash32 32 := inferInstanceAs (ConsumesC (bytesN 32) 32)
instance blockHeader_alloc : AllocB blockHeader 0 0 := by unfold blockHeader; alloc_by_inference
instance : ConsumesC blockHeader 80 := by
  unfold blockHeader; exact ⟨Consumes.mono (inferInstance : ConsumesC _ _).h (by decide)⟩
instance : AllocB script 0 0 := inferInstanceAs (AllocB (varBytesPooled _) 0 0)
instance : ConsumesC script 1 := inferInstanceAs (ConsumesC (varBytesPooled _) 1)
instance : AllocB txIn 0 0 := by unfold txIn; alloc_by_inference
instance : ConsumesC txIn 41 := by
  unfold txIn; exact ⟨Consumes.mono (inferInstance : ConsumesC _ _).h (by decide)⟩
instance : AllocB txOut 0 0 := by unfold txOut; alloc_by_inference
instance : ConsumesC txOut 9 := by
  unfold txOut; exact ⟨Consumes.mono (inferInstance : ConsumesC _ _).h (by decide)⟩

/-- one witness stack: 24-byte slice headers, every item costs at least its length byte -/
instance witness_alloc : AllocB witness (maxWitnessItemsPerInput * 24) 24 := by
  unfold witness; alloc_by_inference
instance : ConsumesC witness 1 := by unfold witness; infer_instance
/-- 104 bytes of `TxIn` + pointer per input, each input is at least 41 bytes on the wire -/
instance txIns_alloc : AllocB txIns (maxTxInPerMessage * 104) 3 := by unfold txIns; alloc_by_inference
instance : ConsumesC txIns 1 := by unfold txIns; infer_instance
/-- 40 bytes of `TxOut` + pointer per output, each output is at least 9 bytes on the wire -/
instance txOuts_alloc : AllocB txOuts (maxTxOutPerMessage * 40) 5 := by unfold txOuts; alloc_by_inference
instance : ConsumesC txOuts 1 := by unfold txOuts; infer_instance

/-- the largest single claim inside a transaction: `maxTxOutPerMessage` outputs of 40 bytes -/
def txA : Nat := maxTxOutPerMessage * 40

instance txBodyBase_alloc : AllocB txBodyBase txA 24 := by
  unfold txBodyBase
  exact AllocB.weaken _ _ (AllocB.imap inferInstance _ _ (fun a _ => rfl)) (by decide) (by decide)
instance : ConsumesC txBodyBase 6 := by
  unfold txBodyBase; exact ⟨Consumes.mono (inferInstance : ConsumesC _ _).h (by decide)⟩

instance txBodyWit_alloc : AllocB txBodyWit txA 24 := by
  unfold txBodyWit
  have h := AllocB.imap
    (c := seq (magic [0x00, 0x01]) (seqDep txIns (fun ins => seq txOuts (seq (listN ins.length witness) u32le))))
    inferInstance (fun p => p.2) (fun b => ((), b)) (fun a _ => rfl)
  exact ⟨txBodyWit_lawful, guard_allocLaw _ _ h.lawful (h.law.weaken (by decide) (by decide))⟩

instance txBodyWitEnc_alloc : AllocB txBodyWitEnc txA 24 :=
  ⟨txBodyWitEnc_lawful, by
    unfold txBodyWitEnc
    exact alt_allocLaw _ _ txBodyWit_alloc.law
      (guard_allocLaw _ _ txBodyBase_lawful txBodyBase_alloc.law)⟩

instance txBody_alloc (e : TxEnc) : AllocB (txBody e) txA 24 := by
  cases e
  · exact txBodyBase_alloc
  · exact txBodyWitEnc_alloc

/-! the final `make([]byte, totalScriptSize)` is paid by the script bytes that were read -/

theorem sumLen_le_encList_script (w : List Bytes) : sumLen w ≤ (encList script w).length := by
  induction w with
  | nil => simp [sumLen, encList]
  | cons x xs ih =>
    simp only [sumLen, encList, List.length_append]
    have : x.length ≤ (script.enc x).length := by
      simp [script, varBytesPooled, imap, seqDep, BV.Codec.guard, bytesN]
    omega

theorem witLen_le_encList (ws : List Witness) : witLen ws ≤ (encList witness ws).length := by
  induction ws with
  | nil => simp [witLen, encList]
  | cons w ws ih =>
    simp only [witLen, encList, List.length_append]
    have : sumLen w ≤ (witness.enc w).length := by
      have := sumLen_le_encList_script w
      simp only [witness, listOf, imap, seqDep, charge, BV.Codec.guard, listN, List.length_append]
      omega
    omega

theorem sumLen_ins_le (ins : List TxIn) :
    sumLen (ins.map (fun i => i.2.2.1)) ≤ (encList txIn ins).length := by
  induction ins with
  | nil => simp [sumLen, encList]
  | cons x xs ih =>
    simp only [List.map_cons, sumLen, encList, List.length_append]
    have : x.2.2.1.length ≤ (txIn.enc x).length := by
      simp only [txIn, seq, seqDep, script, varBytesPooled, imap, BV.Codec.guard, bytesN, List.length_append]
      omega
    omega

theorem sumLen_outs_le (outs : List TxOut) :
    sumLen (outs.map (fun o => o.2)) ≤ (encList txOut outs).length := by
  induction outs with
  | nil => simp [sumLen, encList]
  | cons x xs ih =>
    simp only [List.map_cons, sumLen, encList, List.length_append]
    have : x.2.length ≤ (txOut.enc x).length := by
      simp only [txOut, seq, seqDep, script, varBytesPooled, imap, BV.Codec.guard, bytesN, List.length_append]
      omega
    omega

theorem witLen_replicate_nil (n : Nat) : witLen (List.replicate n ([] : Witness)) = 0 := by
  induction n with
  | zero => rfl
  | succ n ih => simp [List.replicate_succ, witLen, sumLen, ih]

theorem txBodyBase_enc_len (b : TxBody) :
    sumLen (b.1.map (fun i => i.2.2.1)) + sumLen (b.2.1.map (fun o => o.2)) ≤ (txBodyBase.enc b).length := by
  have h1 := sumLen_ins_le b.1
  have h2 := sumLen_outs_le b.2.1
  simp only [txBodyBase, imap, seq, seqDep, txIns, txOuts, listOf, charge, BV.Codec.guard, listN,
    List.length_append]
  omega

theorem totalScript_le_base (b : TxBody) (h : txBodyBase.wf b) : totalScript b ≤ (txBodyBase.enc b).length := by
  have e2 : b.2.2.1 = List.replicate b.1.length [] := by
    have := congrArg (fun x => x.2.2.1) h.2
    exact this.symm
  have := txBodyBase_enc_len b
  unfold totalScript
  rw [e2, witLen_replicate_nil]
  omega

theorem totalScript_le_wit (b : TxBody) : totalScript b ≤ (txBodyWit.enc b).length := by
  have h1 := sumLen_ins_le b.1
  have h2 := sumLen_outs_le b.2.1
  have h3 := witLen_le_encList b.2.2.1
  unfold totalScript
  simp only [txBodyWit, imap, seq, seqDep, txIns, txOuts, listOf, charge, BV.Codec.guard, listN, magic,
    List.length_append]
  omega

theorem totalScript_le_enc (e : TxEnc) (b : TxBody) (h : (txBody e).wf b) :
    totalScript b ≤ ((txBody e).enc b).length := by
  cases e with
  | base => exact totalScript_le_base b h
  | witness =>
    simp only [txBody, txBodyWitEnc, alt] at h ⊢
    split
    · exact totalScript_le_wit b
    · rename_i hw
      simp only [hw, if_false, Bool.false_eq_true] at h
      exact totalScript_le_base b h.1

/-- MsgTx.BtcDecode: at most `txA + 25·|input|` bytes, whatever the input claims -/
instance tx_alloc (e : TxEnc) : AllocB (tx e) txA 25 :=
  ⟨tx_lawful e, by
    unfold tx
    have hl : Lawful (BV.Codec.guard (seq u32le (txBody e)) (fun t => totalScript t.2 ≤ scriptSlabSize) .tooBig) :=
      inferInstance
    have ha : AllocB (BV.Codec.guard (seq u32le (txBody e)) (fun t => totalScript t.2 ≤ scriptSlabSize) .tooBig)
        txA 24 := AllocB.weaken _ _ inferInstance (by decide) (by decide)
    refine charge_allocLaw _ 1 hl ha.law ?_
    intro b t r hd
    obtain ⟨eb, w⟩ := hl.enc_dec b t r hd
    have hw : (txBody e).wf t.2 := w.1.2
    have := totalScript_le_enc e t.2 hw
    rw [eb]
    simp only [BV.Codec.guard, seq, seqDep, List.length_append, Nat.one_mul]
    omega⟩
theorem txIns_enc_pos (l : List TxIn) : 1 ≤ (txIns.enc l).length := by
  have := varintEnc_pos l.length
  simp only [txIns, listOf, imap, seqDep, charge, BV.Codec.guard, varint, List.length_append]; omega

theorem txOuts_enc_pos (l : List TxOut) : 1 ≤ (txOuts.enc l).length := by
  have := varintEnc_pos l.length
  simp only [txOuts, listOf, imap, seqDep, charge, BV.Codec.guard, varint, List.length_append]; omega

theorem txBodyBase_enc_ge (b : TxBody) : 6 ≤ (txBodyBase.enc b).length := by
  have h1 := txIns_enc_pos b.1
  have h2 := txOuts_enc_pos b.2.1
  simp only [txBodyBase, imap, seq, seqDep, List.length_append, u32le, uintLE, length_leBytes]
  omega

theorem txBodyWit_enc_ge (b : TxBody) : 6 ≤ (txBodyWit.enc b).length := by
  have h1 := txIns_enc_pos b.1
  have h2 := txOuts_enc_pos b.2.1
  simp only [txBodyWit, imap, seq, seqDep, BV.Codec.guard, magic, List.length_append, u32le, uintLE,
    length_leBytes, List.length_cons, List.length_nil]
  omega

/-- a transaction is at least 10 bytes on the wire (`minTxPayload`) -/
instance (e : TxEnc) : ConsumesC (tx e) 10 := by
  refine ⟨consumes_of_size (tx_lawful e) 10 ?_⟩
  intro t _
  have h6 : 6 ≤ ((txBody e).enc t.2).length := by
    cases e with
    | base => exact txBodyBase_enc_ge t.2
    | witness =>
      simp only [txBody, txBodyWitEnc, alt]
      split
      · exact txBodyWit_enc_ge t.2
      · exact txBodyBase_enc_ge t.2
  simp only [tx, charge, BV.Codec.guard, seq, seqDep, List.length_append, u32le, uintLE, length_leBytes]
  omega

/-- MsgBlock.BtcDecode -/
instance block_alloc (e : TxEnc) : AllocB (block e) (maxTxPerBlock * 72 + txA) 33 := by
  unfold block; alloc_by_inference

/-! ### the other messages -/

instance : AllocB invVect 0 0 := by unfold invVect; alloc_by_inference
instance : ConsumesC invVect 36 := by unfold invVect; infer_instance
instance invList_alloc : AllocB invList (MaxInvPerMsg * 44) 2 := by unfold invList; alloc_by_inference
instance : AllocB headerEntry 0 0 := by
  unfold headerEntry
  exact AllocB.weaken _ _ (AllocB.imap inferInstance _ _ (fun a _ => rfl)) (by decide) (by decide)
instance : ConsumesC headerEntry 81 := by
  unfold headerEntry; exact ⟨Consumes.mono (inferInstance : ConsumesC _ _).h (by decide)⟩
instance headers_alloc : AllocB headers (MaxBlockHeadersPerMsg * 112) 2 := by unfold headers; alloc_by_inference
instance getBlocks_alloc : AllocB getBlocks (MaxBlockLocatorsPerMsg * 40) 2 := by
  unfold getBlocks; alloc_by_inference
instance : AllocB netAddrNoTs 0 0 := by unfold netAddrNoTs; alloc_by_inference
instance : ConsumesC netAddrNoTs 26 := by unfold netAddrNoTs; infer_instance
instance (pver : Nat) : AllocB (netAddr pver) 0 0 := by unfold netAddr; alloc_by_inference
instance (pver : Nat) : ConsumesC (netAddr pver) 26 := by
  unfold netAddr
  refine ⟨?_⟩
  split
  · exact Consumes.mono (inferInstance : ConsumesC (seq u32le netAddrNoTs) _).h (by decide)
  · exact Consumes.mono (inferInstance : ConsumesC (seq (konst 0) netAddrNoTs) _).h (by decide)
instance addr_alloc (pver : Nat) : AllocB (addr pver) (MaxAddrPerMsg * 104) 4 := by
  unfold addr
  split
  · alloc_by_inference
  · alloc_by_inference
instance : AllocB netAddrV2 maxAddrV2Size 1 := by unfold netAddrV2; alloc_by_inference
instance : ConsumesC netAddrV2 9 := by
  unfold netAddrV2; exact ⟨Consumes.mono (inferInstance : ConsumesC _ _).h (by decide)⟩
instance addrV2_alloc : AllocB addrV2 (MaxV2AddrPerMsg * 104 + maxAddrV2Size) 13 := by
  unfold addrV2; alloc_by_inference
instance : AllocB userAgent MaxMessagePayload 1 := by unfold userAgent; alloc_by_inference
instance : AllocB boolByte 0 0 := by
  unfold boolByte
  refine AllocB.weaken _ _ (AllocB.imap inferInstance _ _ ?_) (by decide) (by decide)
  intro a h
  have h2 : a ≤ 1 := by simpa using h.2
  have : a = 0 ∨ a = 1 := by omega
  rcases this with rfl | rfl <;> rfl
instance version_alloc (pver : Nat) : AllocB (version pver) MaxMessagePayload 1 := by
  unfold version; alloc_by_inference
instance ping_alloc (pver : Nat) : AllocB (ping pver) 0 0 := by unfold ping; alloc_by_inference
instance {α : Type} (c : Codec α) (A B : Nat) [AllocB c A B] : AllocB (never c) A B := by
  unfold never; infer_instance
instance pong_alloc (pver : Nat) : AllocB (pong pver) 0 0 := by unfold pong; alloc_by_inference
instance feeFilter_alloc (pver : Nat) : AllocB (feeFilter pver) 0 0 := by unfold feeFilter; alloc_by_inference
instance : AllocB varStr MaxMessagePayload 1 := by unfold varStr; infer_instance
instance rejectBody_alloc : AllocB rejectBody MaxMessagePayload 1 := by
  unfold rejectBody
  exact AllocB.weaken _ _ (AllocB.imap inferInstance _ _ (fun a _ => rfl)) (by decide) (by decide)
instance reject_alloc (pver : Nat) : AllocB (reject pver) MaxMessagePayload 1 := by
  unfold reject; alloc_by_inference
instance filterLoadBody_alloc : AllocB filterLoadBody MaxFilterLoadFilterSize 1 := by
  unfold filterLoadBody; alloc_by_inference
instance filterLoad_alloc (pver : Nat) : AllocB (filterLoad pver) MaxFilterLoadFilterSize 1 := by
  unfold filterLoad; alloc_by_inference
instance filterAdd_alloc (pver : Nat) : AllocB (filterAdd pver) MaxFilterAddDataSize 1 := by
  unfold filterAdd; alloc_by_inference
instance emptyMsg_alloc : AllocB emptyMsg 0 0 := by unfold emptyMsg; infer_instance
instance emptyFrom_alloc (pver gate : Nat) : AllocB (emptyFrom pver gate) 0 0 := by
  unfold emptyFrom; alloc_by_inference
instance merkleBlockBody_alloc : AllocB merkleBlockBody (maxTxPerBlock * 40) 2 := by
  unfold merkleBlockBody; alloc_by_inference
instance merkleBlock_alloc (pver : Nat) : AllocB (merkleBlock pver) (maxTxPerBlock * 40) 2 := by
  unfold merkleBlock; alloc_by_inference
instance cfilter_alloc : AllocB cfilter MaxCFilterDataSize 1 := by unfold cfilter; alloc_by_inference
instance cfheaders_alloc : AllocB cfheaders (MaxCFHeadersPerMsg * 40) 2 := by unfold cfheaders; alloc_by_inference
instance cfcheckpt_alloc : AllocB cfcheckpt (maxCFHeadersLen * 40) 2 := by unfold cfcheckpt; alloc_by_inference
instance getcfilters_alloc : AllocB getcfilters 0 0 := by unfold getcfilters; alloc_by_inference
instance getcfcheckpt_alloc : AllocB getcfcheckpt 0 0 := by unfold getcfcheckpt; alloc_by_inference

/-! ### message framing -/

theorem framedPayload_allocLaw : AllocLaw framedPayload MaxProtocolMessageLength 1 := by
  unfold framedPayload
  refine imap_allocLaw _ _ ?_
  have hl : ∀ n, Lawful (seq (bytesN 4) (bytesN n)) := fun n => inferInstance
  have h := charged_prefix_allocLaw
    (c1 := lenField)
    (c2 := fun n => seq (bytesN 4) (bytesN n)) (fun n => n) (A := 0) (B := 0) MaxProtocolMessageLength 1
    inferInstance hl (allocLaw_zero (fun _ => rfl))
    (fun n => (inferInstance : AllocB (seq (bytesN 4) (bytesN n)) _ _).law.weaken (by decide) (by decide))
    (fun b n r hd => guardedCount_dec_le (c := u32le) _ _ b n r hd)
    (fun n b x r hd => by
      have := (inferInstance : ConsumesC (seq (bytesN 4) (bytesN n)) _).h b x r hd
      omega)
  have h' : AllocLaw _ MaxProtocolMessageLength 1 := h.weaken (by decide) (by decide)
  exact guard_allocLaw _ _ (seqDep_lawful inferInstance hl) h'

instance frame_alloc : AllocB frame MaxProtocolMessageLength 1 := by
  unfold frame
  have : AllocB framedPayload MaxProtocolMessageLength 1 := ⟨framedPayload_lawful, framedPayload_allocLaw⟩
  alloc_by_inference

theorem framedPayload_alloc_le (x : Bytes) : framedPayload.alloc x ≤ MaxProtocolMessageLength := by
  have hz : ∀ (n : Nat) (r : Bytes), (seq (bytesN 4) (bytesN n)).alloc r = 0 := by
    intro n r
    simp only [seq, seqDep, bytesN, Nat.zero_add]
    split <;> rfl
  have h0 : lenField.alloc x = 0 := rfl
  simp only [framedPayload, imap, BV.Codec.guard, seqDep, charge, h0, Nat.zero_add]
  cases hd : lenField.dec x with
  | error e => simp
  | ok p =>
    obtain ⟨n, r⟩ := p
    have hn := guardedCount_dec_le (c := u32le) _ _ x n r hd
    simp only [hz]
    omega

/-- the payload buffer is never larger than `MaxProtocolMessageLength`, whatever the header says -/
theorem frame_alloc_le (b : Bytes) : frame.alloc b ≤ MaxProtocolMessageLength := by
  simp only [frame, seq, seqDep]
  have h0 : ∀ x, u32le.alloc x = 0 := fun _ => rfl
  have h1 : ∀ x, (bytesN 12).alloc x = 0 := fun _ => rfl
  simp only [h0, h1, Nat.zero_add]
  split
  · exact Nat.zero_le _
  · split
    · exact Nat.zero_le _
    · exact framedPayload_alloc_le _

end BV.C08
