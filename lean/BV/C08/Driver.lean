/- C08 line-protocol driver (core-only).

  C08 varint <hex>                      ReadVarInt on the bytes
  C08 wvarint <n>                       WriteVarInt / VarIntSerializeSize
  C08 dec <kind> <pver> <b|w> <hex>     BtcDecode of one payload (rest reported)
  C08 msg <pver> <net> <b|w> <hex>      ReadMessageWithEncodingN on a byte stream
  C08 txbytes <hex> / blockbytes <hex>  btcutil.NewTxFromBytes / NewBlockFromBytes
  C08 blk <ctor> <hex> <op,op,…>        btcutil.Block built by <ctor>, then a sequence of accessor calls
  C08 utx <ctor> <hex> <op,op,…>        btcutil.Tx likewise
-/
import BV.Common.Hex
import BV.Common.Sha256
import BV.C08.Model
namespace BV.C08.Driver
open BV.Hex BV.Codec BV.C08

class Dump (α : Type) where
  dump : α → String
open Dump

instance : Dump Nat := ⟨toString⟩
instance : Dump Bool := ⟨fun b => if b then "1" else "0"⟩
instance : Dump Unit := ⟨fun _ => "u"⟩
instance (priority := high) : Dump Bytes := ⟨listToHexTok⟩
instance {α β : Type} [Dump α] [Dump β] : Dump (α × β) := ⟨fun p => dump p.1 ++ "," ++ dump p.2⟩
instance {α : Type} [Dump α] : Dump (List α) :=
  ⟨fun l => "[" ++ ";".intercalate (l.map dump) ++ "]"⟩

def allocTok (n : Nat) : String :=
  if n ≤ allocK * MaxMessagePayload then " a=ok" else s!" a=EXCESS({n})"

/-- the Go decoders that accept more than the canonical layout, packaged with the canonical encoder -/
def versionGo (pver : Nat) : Codec VersionVal := { version pver with dec := versionDecGo }
def addrV2Go : Codec (List NetAddrV2) := { addrV2 with dec := addrV2DecGo }

def txExtra (t : Tx) : String :=
  s!" size={(tx .witness).size t}/{(tx .base).size t} txid={listToHex (txid t)} wtxid={listToHex (wtxid t)}"

def blockExtra (b : Block) : String :=
  s!" size={(block .witness).size b}/{(block .base).size b} hash={listToHex (blockHash b.1)} txids=" ++
    String.join (b.2.map (fun t => listToHex (txid t)))

/-- kind → payload codec, `MaxPayloadLength(pver)`, extra observation; continuation-passing because the
value types differ -/
def withKind (kind : String) (pver : Nat) (e : TxEnc)
    (k : ∀ {α : Type} [Dump α], Codec α → Nat → (α → String) → String) : Option String :=
  let no {α : Type} : α → String := fun _ => ""
  let mpl := maxPayload kind pver
  match kind with
  | "header" => some (k blockHeader 80 no)
  | "tx" => some (k (tx e) mpl txExtra)
  | "block" => some (k (block e) mpl blockExtra)
  | "inv" | "getdata" | "notfound" => some (k invList mpl no)
  | "headers" => some (k headers mpl no)
  | "getblocks" | "getheaders" => some (k getBlocks mpl no)
  | "addr" => some (k (addr pver) mpl no)
  | "addrv2" => some (k addrV2Go mpl no)
  | "version" => some (k (versionGo pver) mpl no)
  | "ping" => some (k (ping pver) mpl no)
  | "pong" => some (k (pong pver) mpl no)
  | "reject" => some (k (reject pver) mpl no)
  | "feefilter" => some (k (feeFilter pver) mpl no)
  | "filterload" => some (k (filterLoad pver) mpl no)
  | "filteradd" => some (k (filterAdd pver) mpl no)
  | "filterclear" => some (k (emptyFrom pver BIP0037Version) mpl no)
  | "mempool" => some (k (emptyFrom pver BIP0035Version) mpl no)
  | "sendheaders" => some (k (emptyFrom pver SendHeadersVersion) mpl no)
  | "sendaddrv2" => some (k (emptyFrom pver AddrV2Version) mpl no)
  | "wtxidrelay" => some (k (emptyFrom pver AddrV2Version) mpl no)
  | "verack" | "getaddr" => some (k emptyMsg mpl no)
  | "merkleblock" => some (k (merkleBlock pver) mpl no)
  | "cfilter" => some (k cfilter mpl no)
  | "cfheaders" => some (k cfheaders mpl no)
  | "cfcheckpt" => some (k cfcheckpt mpl no)
  | "getcfilters" | "getcfheaders" => some (k getcfilters mpl no)
  | "getcfcheckpt" => some (k getcfcheckpt mpl no)
  | _ => none

/-- commands `makeEmptyMessage` knows ("header" is not a message) -/
def isCommand (kind : String) : Bool := kind != "header"

def runDec {α : Type} [Dump α] (b : Bytes) (c : Codec α) (mpl : Nat) (extra : α → String) : String :=
  match c.dec b with
  | .error _ => "err" ++ allocTok (c.alloc b)
  | .ok (a, r) =>
    s!"ok {dump a} {listToHexTok (c.enc a)} {r.length} mpl={mpl} canon=1" ++ allocTok (c.alloc b) ++ extra a

def runMsg {α : Type} [Dump α] (kind : String) (net : Nat) (b : Bytes) (c : Codec α) (mpl : Nat)
    (_ : α → String) : String :=
  let cmd := kind.toUTF8.toList
  -- payload allocation + what the payload decoder allocates
  let al := readMessageAlloc c b
  match readMessage c mpl net cmd b with
  | .error _ => "err" ++ allocTok al
  | .ok (a, r) =>
    s!"ok {kind} {dump a} {listToHex (writeMessage c net cmd a)} {r.length} canon=1" ++ allocTok al

def trimZeros (b : Bytes) : Bytes := (b.reverse.dropWhile (· == 0)).reverse

def parseEnc? (s : String) : Option TxEnc :=
  if s == "b" then some .base else if s == "w" then some .witness else none

def bytesToString (b : Bytes) : String := String.fromUTF8! (ByteArray.mk b.toArray)

def isPlainAscii (b : Bytes) : Bool := b.all (fun x => 0x61 ≤ x ∧ x ≤ 0x7a || (0x30 ≤ x ∧ x ≤ 0x39))

/-! ### stateful accessor sequences on btcutil.Block / btcutil.Tx

Every observation is answered from the pure specification (serialization with / without witness data,
txid / wtxid, transaction offsets); the only state is what the caller set (height, index). Whatever a
cache does, an answer may not depend on which accessors were called before. -/

def txObs (t : Tx) (idx : Int) : String :=
  s!"{listToHex (txid t)}:{listToHex (wtxid t)}:{if hasWitness t.2 then 1 else 0}:{idx}"

def txLocs (b : Block) : List String :=
  let start := 80 + varintSize b.2.length
  (b.2.foldl (fun (acc : Nat × List String) t =>
    let sz := (tx .witness).size t
    (acc.1 + sz, s!"{acc.1}:{sz}" :: acc.2)) (start, [])).2.reverse

def idxOf? (s : String) : Option Int := (s.drop 1).toString.toInt?

def blkStep (b : Block) (height : Int) (op : String) : Int × String :=
  if op == "B" then (height, "B=" ++ listToHex ((block .witness).enc b))
  else if op == "N" then (height, "N=" ++ listToHex ((block .base).enc b))
  else if op == "H" then (height, "H=" ++ listToHex (blockHash b.1))
  else if op == "G" then (height, if height < 0 then "G=unknown" else s!"G={height}")
  else if op == "L" then (height, "L=" ++ ";".intercalate (txLocs b))
  else if op == "T" then
    (height, "T=" ++ ";".intercalate ((List.range b.2.length).zip b.2 |>.map (fun p => txObs p.2 p.1)))
  else if op.startsWith "S" then
    match idxOf? op with
    | some n => (n, op)
    | none => (height, "bad-op")
  else if op.startsWith "t" || op.startsWith "h" then
    match idxOf? op with
    | some i =>
      if i < 0 ∨ i ≥ b.2.length then (height, op ++ "=oor") else
      match b.2[i.toNat]? with
      | some t =>
        if op.startsWith "t" then (height, op ++ "=" ++ txObs t i) else (height, op ++ "=" ++ listToHex (txid t))
      | none => (height, op ++ "=oor")
    | none => (height, "bad-op")
  else (height, "bad-op")

def blkRun (b : Block) (ops : List String) : String :=
  let r := ops.foldl (fun (acc : Int × List String) op =>
    let (h, o) := blkStep b acc.1 op
    (h, o :: acc.2)) ((-1 : Int), [])
  "|".intercalate r.2.reverse

def utxStep (t : Tx) (idx : Int) (op : String) : Int × String :=
  if op == "H" then (idx, "H=" ++ listToHex (txid t))
  else if op == "W" then (idx, "W=" ++ listToHex (wtxid t))
  else if op == "X" then (idx, s!"X={if hasWitness t.2 then 1 else 0}")
  else if op == "I" then (idx, if idx < 0 then "I=unknown" else s!"I={idx}")
  else if op == "M" then (idx, "M=" ++ listToHex ((tx .witness).enc t))
  else if op.startsWith "S" then
    match idxOf? op with
    | some n => (n, op)
    | none => (idx, "bad-op")
  else (idx, "bad-op")

def utxRun (t : Tx) (ops : List String) : String :=
  let r := ops.foldl (fun (acc : Int × List String) op =>
    let (h, o) := utxStep t acc.1 op
    (h, o :: acc.2)) ((-1 : Int), [])
  "|".intercalate r.2.reverse

/-! ### helper APIs of MsgTx / MsgBlock, v2 framing, value semantics of results -/

def runDecQ {α : Type} [Dump α] (b : Bytes) (c : Codec α) (_ : Nat) (extra : α → String) : String :=
  match c.dec b with
  | .error _ => "err"
  | .ok (a, r) => s!"ok {dump a} {listToHexTok (c.enc a)} {r.length}" ++ extra a

/-- `PkScriptLocs`: start of every pkScript inside `Serialize()` -/
def pkScriptLocs (t : Tx) : List Nat :=
  let ins := t.2.1
  let outs := t.2.2.1
  let n0 := 4 + (if hasWitness t.2 then 2 else 0) + varintSize ins.length + sizeList txIn ins + varintSize outs.length
  (outs.foldl (fun (acc : Nat × List Nat) o =>
    let at_ := acc.1 + 8 + varintSize o.2.length
    (at_ + o.2.length, at_ :: acc.2)) (n0, [])).2.reverse

def natList (l : List Nat) : String := if l.isEmpty then "-" else ",".intercalate (l.map toString)

def txApi (t : Tx) : String :=
  let locs := natList (pkScriptLocs t)
  s!"ok nw={listToHex ((tx .base).enc t)} ss={(tx .base).size t} dnw=ok locs={locs} cplocs={locs} copy=deep " ++
  s!"txid={listToHex (txid t).reverse} alias=none " ++
  s!"sz={sizeList txIn t.2.1}/{sizeList txOut t.2.2.1}/{sizeList witness t.2.2.2.1}"

def blkApi (b : Block) : String :=
  let nw := (block .base).enc b
  s!"ok nwlen={nw.length} nwh={listToHex (BV.Sha256.hash2List nw)} ss={(block .base).size b} dnw=ok " ++
  s!"locs={";".intercalate (txLocs b)} hash={listToHex (blockHash b.1)} " ++
  s!"txh={String.join (b.2.map (fun t => listToHex (txid t)))} copy=deep " ++
  s!"clear={listToHex (blockHeader.enc b.1 ++ [0])} add=same"

def runPrim {α : Type} [Dump α] (c : Codec α) (b : Bytes) : String :=
  match c.dec b with
  | .error _ => "err"
  | .ok (a, r) => s!"ok {dump a} {listToHexTok (c.enc a)} {r.length}"

/-- `NetAddressV2FromBytes`: the network id is chosen by the length (and the OnionCat / IPv4-mapped prefixes) -/
def addrV2FromBytes (a : Bytes) : Option (Nat × Bytes) :=
  if a.length = 4 then some (1, a)
  else if a.length = 16 then
    if a.take 6 = onionCatPrefix then some (3, a.drop 6)
    else if a.take 12 = ipv4MappedPrefix then some (1, a.drop 12)
    else some (2, a)
  else if a.length = 10 then some (3, a)
  else if a.length = 32 then some (4, a)
  else none

/-- how many `Add…` calls a message accepts -/
def addCap (kind : String) : Option Nat :=
  if kind = "inv" ∨ kind = "getdata" ∨ kind = "notfound" then some MaxInvPerMsg
  else if kind = "headers" then some MaxBlockHeadersPerMsg
  else if kind = "getblocks" ∨ kind = "getheaders" then some MaxBlockLocatorsPerMsg
  else if kind = "addr" then some MaxAddrPerMsg
  else if kind = "cfheaders" then some MaxCFHeadersPerMsg
  else if kind = "merkleblock" then some maxTxPerBlock
  else none

/-! ### values built through constructors: nil vs empty-but-non-nil containers are the same value -/

def shape? (s : String) : Option Bytes := if s == "n" || s == "-" then some [] else hexToList? s

def parseWit? (s : String) : Option Witness :=
  if s == "n" || s == "e" then some [] else (s.splitOn ".").mapM shape?

def parseIn? (s : String) : Option (TxIn × Witness) :=
  match s.splitOn ":" with
  | [h, i, sc, sq, w] => do
    let h ← hexToList? h
    let i ← i.toNat?
    let sc ← shape? sc
    let sq ← sq.toNat?
    let w ← parseWit? w
    pure ((h, i, sc, sq), w)
  | _ => none

def parseOut? (s : String) : Option TxOut :=
  match s.splitOn ":" with
  | [v, sc] => do
    let v ← v.toNat?
    let sc ← shape? sc
    pure (v, sc)
  | _ => none

def parseList? {α : Type} (f : String → Option α) (s : String) : Option (List α) :=
  if s == "n" || s == "e" then some [] else (s.splitOn ";").mapM f

def mkTx (t : Tx) : String :=
  let ser := (tx .witness).enc t
  let rt := match decodeAll (tx .witness) ser with
    | .error _ => "err"
    | .ok t' => if dump t' == dump t then "ok" else "differs"
  s!"ser={listToHex ser} nw={listToHex ((tx .base).enc t)} size={(tx .witness).size t}/{(tx .base).size t} " ++
  s!"hw={if hasWitness t.2 then 1 else 0} locs={natList (pkScriptLocs t)} txid={listToHex (txid t)} " ++
  s!"wtxid={listToHex (wtxid t)} copy=eq util=agree rt={rt}"

def handle0 : List String → String
  | ["mktx", ver, lock, ins, outs] =>
    match ver.toNat?, lock.toNat?, parseList? parseIn? ins, parseList? parseOut? outs with
    | some v, some l, some is, some os => mkTx (v, is.map (·.1), os, is.map (·.2), l)
    | _, _, _, _ => "bad-op"
  | ["reuse", kind, pver, h] =>
    match pver.toNat?, hexToList? h with
    | some pver, some b =>
      if kind == "tx" then
        match (tx .witness).dec b with
        | .error _ => "err"
        | .ok (t, r) => s!"ok {dump t} w={listToHexTok ((tx .witness).enc t)} b={listToHexTok ((tx .base).enc t)} {r.length} stable"
      else if kind == "block" then
        match (block .witness).dec b with
        | .error _ => "err"
        | .ok (t, r) => s!"ok {dump t} w={listToHexTok ((block .witness).enc t)} b={listToHexTok ((block .base).enc t)} {r.length} stable"
      else
        (withKind kind pver .base (fun c _ _ =>
          match c.dec b with
          | .error _ => "err"
          | .ok (a, r) => s!"ok {dump a} w={listToHexTok (c.enc a)} b={listToHexTok (c.enc a)} {r.length} stable")).getD "bad-op"
    | _, _ => "bad-op"
  | ["varstr", h] => match hexToList? h with
    | some b => runPrim varStr b
    | none => "bad-op"
  | ["varbytes", mx, h] => match mx.toNat?, hexToList? h with
    | some mx, some b => runPrim (varBytes mx) b
    | _, _ => "bad-op"
  | ["txout", h] => match hexToList? h with
    | some b => runPrim txOut b
    | none => "bad-op"
  | ["outpoint", hash, idx] => match hexToList? hash, idx.toNat? with
    | some hs, some i => listToHex ((seq hash32 u32le).enc (hs, i))
    | _, _ => "bad-op"
  | ["addcap", kind] => match addCap kind with
    | some n =>
      if kind = "inv" ∨ kind = "headers" ∨ kind = "getblocks" ∨ kind = "addr" ∨ kind = "cfheaders"
      then s!"{n} len={n} enc-ok" else s!"{n}"
    | none => "bad-op"
  | ["fromv2", a, port] => match hexToList? a, port.toNat? with
    | some a, some port => match addrV2FromBytes a with
      | some (id, raw) => listToHex (addrV2.enc [(1231006505, 1033, id, raw, port)])
      | none => "err"
    | _, _ => "bad-op"
  | ["txapi", h] => match hexToList? h with
    | some bs => match decodeAll (tx .witness) bs with
      | .error _ => "err"
      | .ok t => txApi t
    | none => "bad-op"
  | ["blkapi", h] => match hexToList? h with
    | some bs => match decodeAll (block .witness) bs with
      | .error _ => "err"
      | .ok b => blkApi b
    | none => "bad-op"
  | ["multi", _, subs] =>
    "#".intercalate ((subs.splitOn "|").map (fun sub =>
      match sub.splitOn "/" with
      | [kind, pver, e, h] =>
        match pver.toNat?, parseEnc? e, hexToList? h with
        | some pver, some e, some b => (withKind kind pver e (fun c mpl extra => runDecQ b c mpl extra)).getD "bad-op"
        | _, _, _ => "bad-op"
      | _ => "bad-op"))
  | ["v2", pver, e, h] =>
    match pver.toNat?, parseEnc? e, hexToList? h with
    | some pver, some e, some b =>
      match b with
      | [] => "err"
      | x :: _ =>
        let sel : Option (String × Bytes) :=
          if x = 0 then
            if lenLt b 13 then none else
            let cmd := trimZeros ((b.drop 1).take 12)
            if isPlainAscii cmd then some (bytesToString cmd, b.take 13) else none
          else (v2CmdOf x.toNat).map (fun c => (c, [x]))
        match sel with
        | none => "err"
        | some (kind, pre) =>
          if !isCommand kind then "err" else
          (withKind kind pver e (fun c mpl _ =>
            match readV2 c mpl pre b with
            | .error _ => "err"
            | .ok a => s!"ok {kind} {dump a} {listToHex (writeV2 c kind.toUTF8.toList (v2IdOf kind) a)} canon=1")).getD "err"
    | _, _, _ => "bad-op"
  | ["blk", _, h, ops] => match hexToList? h with
    | some bs => match decodeAll (block .witness) bs with
      | .error _ => "err"
      | .ok b => blkRun b (ops.splitOn ",")
    | none => "bad-op"
  | ["utx", _, h, ops] => match hexToList? h with
    | some bs => match decodeAll (tx .witness) bs with
      | .error _ => "err"
      | .ok t => utxRun t (ops.splitOn ",")
    | none => "bad-op"
  | ["varint", h] => match hexToList? h with
    | some b => match varint.dec b with
      | .error _ => "err"
      | .ok (v, r) => s!"ok {v} {listToHexTok r} {listToHex (varint.enc v)} {varint.size v}"
    | none => "bad-op"
  | ["wvarint", n] => match n.toNat? with
    | some v => if v < 2 ^ 64 then s!"{listToHex (varint.enc v)} {varint.size v}" else "bad-op"
    | none => "bad-op"
  | ["dec", kind, pver, e, h] =>
    match pver.toNat?, parseEnc? e, hexToList? h with
    | some pver, some e, some b =>
      (withKind kind pver e (fun c mpl extra => runDec b c mpl extra)).getD "bad-op"
    | _, _, _ => "bad-op"
  | ["msg", pver, net, e, h] =>
    match pver.toNat?, net.toNat?, parseEnc? e, hexToList? h with
    | some pver, some net, some e, some b =>
      if lenLt b 24 then "err a=ok" else
      let cmd := trimZeros ((b.drop 4).take 12)
      if !isPlainAscii cmd then "err" ++ allocTok (frame.alloc b) else
      let kind := bytesToString cmd
      if !isCommand kind then "err" ++ allocTok (frame.alloc b) else
      (withKind kind pver e (fun c mpl extra => runMsg kind net b c mpl extra)).getD
        ("err" ++ allocTok (frame.alloc b))
    | _, _, _, _ => "bad-op"
  | ["encrefused", _, _, _] => "in-domain"   -- the generator only asks when the model says encodable
  | ["txbytes", h] => match hexToList? h with
    | some b => match decodeAll (tx .witness) b with
      | .error _ => "err"
      | .ok t => s!"ok{txExtra t}"
    | none => "bad-op"
  | ["blockbytes", h] => match hexToList? h with
    | some b => match decodeAll (block .witness) b with
      | .error _ => "err"
      | .ok t => s!"ok{blockExtra t}"
    | none => "bad-op"
  | _ => "bad-op"

/-- `api`: every exported Read*/Write* entry point of message.go answers like the primary one -/
def handle : List String → String
  | ["api", pver, net, h] => handle0 ["msg", pver, net, "b", h] ++ " api=agree"
  | l => handle0 l

end BV.C08.Driver
