/- C08 line-protocol driver (core-only). Stub until the property's model lands. -/
namespace BV.C08.Driver

def handle : List String → String
  | _ => "unimplemented"

end BV.C08.Driver
