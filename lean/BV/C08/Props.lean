/-
C08 property theorems: the wire encoding is a canonical bijection (three value laws for every
message, every protocol version, both transaction encodings), identifiers are round-trip invariant,
message framing, pinned constants. Helper lemmas are in Lemmas.lean / Common/CodecLemmas.lean.
-/
import BV.C08.Lemmas
import BV.C08.Alloc
import BV.C08.Domain
import BV.C08.Gates
import BV.C08.Tolerant
import BV.Generated.C08
namespace BV.C08
open BV.Codec

/-! ### variable length integers (common.go) -/

/-- `ReadVarInt (WriteVarInt v ++ r) = (v, r)` for every uint64. -/
theorem varint_roundtrip (v : Nat) (r : Bytes) (h : v < 2 ^ 64) :
    varintDec (varintEnc v ++ r) = .ok (v, r) := varint_dec_enc v r h

/-- canonicity: whatever `ReadVarInt` accepts is the minimal encoding of the value it returns
(non-minimal forms are rejected), and the value is a uint64. -/
theorem varint_canonical (b : Bytes) (v : Nat) (r : Bytes) (h : varintDec b = .ok (v, r)) :
    b = varintEnc v ++ r ∧ v < 2 ^ 64 := varint_enc_dec b v r h

/-- `VarIntSerializeSize` is the length of the encoding. -/
theorem varint_size (v : Nat) : varintSize v = (varintEnc v).length := varintSize_eq v

example : varintDec [0xfd, 0xfc, 0x00] = .error .nonCanonical := by decide
example : varintDec (varintEnc 0x10000 ++ [7]) = .ok (0x10000, [7]) := by decide

/-! ### block header, transactions, blocks -/

theorem blockHeader_laws : Lawful blockHeader := blockHeader_lawful

/-- both transaction encodings obey the three laws on their stated domain `(tx e).wf` -/
theorem tx_laws (e : TxEnc) : Lawful (tx e) := tx_lawful e

theorem tx_roundtrip (e : TxEnc) (t : Tx) (r : Bytes) (h : (tx e).wf t) :
    (tx e).dec ((tx e).enc t ++ r) = .ok (t, r) := (tx_lawful e).dec_enc t r h

theorem tx_canonical (e : TxEnc) (b : Bytes) (t : Tx) (r : Bytes) (h : (tx e).dec b = .ok (t, r)) :
    b = (tx e).enc t ++ r ∧ (tx e).wf t := (tx_lawful e).enc_dec b t r h

/-- `SerializeSize` (witness) / `SerializeSizeStripped` (base) equal the encoded lengths -/
theorem tx_size (e : TxEnc) (t : Tx) (h : (tx e).wf t) : (tx e).size t = ((tx e).enc t).length :=
  (tx_lawful e).size_eq t h

theorem block_laws (e : TxEnc) : Lawful (block e) := block_lawful e

/-- the domain of both transaction encodings in plain terms (`Spec.TxDomain`): field ranges, count caps,
one witness stack per input, the 4 MiB script pool, and — the restriction BIP144 forces — no witness
data under the base encoding resp. at least one input under the witness encoding. -/
theorem tx_domain (e : TxEnc) (t : Tx) : (tx e).wf t ↔ TxDomain e t := tx_wf_iff e t

theorem block_domain (e : TxEnc) (b : Block) :
    (block e).wf b ↔ HeaderOk b.1 ∧ b.2.length ≤ maxTxPerBlock ∧ ∀ t ∈ b.2, TxDomain e t := block_wf_iff e b

/-- the domain is inhabited: a one-input one-output transaction with a witness item -/
example : TxDomain .witness (2, [(List.replicate 32 7, 1, [0x51], 0xffffffff)], [(5000, [0x51])], [[[1, 2]]], 0) := by
  refine ⟨by decide, by decide, ?_, by decide, ?_, rfl, ?_, by decide, by decide, by decide⟩
  · intro i hi; simp at hi; subst hi; exact ⟨rfl, by decide, by decide, by decide⟩
  · intro o ho; simp at ho; subst ho; exact ⟨by decide, by decide⟩
  · intro w hw; simp at hw; subst hw
    refine ⟨by decide, ?_⟩
    intro x hx; simp at hx; subst hx; decide

/-- The domain restriction of BIP144, stated: under the witness encoding a transaction in the domain
has at least one input … -/
theorem tx_witness_domain_inputs (t : Tx) (h : (tx .witness).wf t) : t.2.1 ≠ [] := by
  have hb : txBodyWitEnc.wf t.2 := h.1.2
  unfold txBodyWitEnc alt at hb
  simp only at hb
  split at hb
  · rename_i hw
    intro hnil
    have hlen : t.2.2.2.1.length = t.2.1.length := hb.1.1.2.2.2.1.1
    rw [hnil] at hlen
    have : t.2.2.2.1 = [] := List.eq_nil_of_length_eq_zero hlen
    simp [hasWitness, this] at hw
  · intro hnil
    have := hb.2
    simp [hnil] at this

/-- … and under the base encoding it carries no witness data. -/
theorem tx_base_domain_noWitness (t : Tx) (h : (tx .base).wf t) : hasWitness t.2 = false :=
  txBodyBase_wf_noWitness t.2 h.1.2

set_option synthInstance.maxSize 4000 in
/-- the excluded point: a transaction without inputs and without witness data, written in the witness
encoding (which for it is the base layout), does not decode back — its zero input count reads as
the BIP144 marker. Same in Bitcoin Core; recorded, not a finding. -/
theorem tx_zero_inputs_not_representable :
    (tx .witness).dec ((tx .witness).enc (1, [], [], [], 0)) = .error .badValue := by decide

/-- `DeserializeNoWitness(SerializeNoWitness(t))` is `t` without its witness data, for every transaction of
either domain; the txid is the same (`txid_ignores_witness`). -/
theorem noWitness_roundtrip (e : TxEnc) (t : Tx) (r : Bytes) (h : (tx e).wf t) :
    (tx .base).dec ((tx .base).enc t ++ r) = .ok (stripWitness t, r) ∧ txid (stripWitness t) = txid t := by
  have hd := stripWitness_domain e t ((tx_wf_iff e t).mp h)
  have hw := (tx_wf_iff .base (stripWitness t)).mpr hd
  rw [enc_base_strip]
  exact ⟨(tx_lawful .base).dec_enc _ r hw, rfl⟩

/-- `SerializeSizeStripped` is the length of `SerializeNoWitness` -/
theorem sizeStripped_eq (e : TxEnc) (t : Tx) (h : (tx e).wf t) :
    (tx .base).size t = ((tx .base).enc t).length := by
  have hd := stripWitness_domain e t ((tx_wf_iff e t).mp h)
  have hw := (tx_wf_iff .base (stripWitness t)).mpr hd
  have := (tx_lawful .base).size_eq _ hw
  rw [enc_base_strip]
  exact this

/-- `TxLoc` / `DeserializeTxLoc`: transaction i of a block occupies `[start, start + len)` of the serialized
block, with `start = 80 + |varint count| + Σ lengths of the earlier transactions` and `len` its own encoded
length (= `SerializeSize` on the domain, `tx_size`). -/
theorem txLoc_slice (e : TxEnc) (hdr : BlockHeader) (pre post : List Tx) (x : Tx) (hh : blockHeader.wf hdr) :
    (((block e).enc (hdr, pre ++ x :: post)).drop
        (80 + varintSize (pre ++ x :: post).length + (encList (tx e) pre).length)).take ((tx e).enc x).length
      = (tx e).enc x := block_tx_slice e hdr pre post x hh

/-- `PkScriptLocs`: the script of an output is found at offset
`4 + (2 iff the transaction serializes with the witness marker) + |inputs| + |output count| + |earlier outputs| + 8 +
|script length prefix|` of `Serialize()`, for every transaction (the marker term is `HasWitness`, which is what
the repaired `PkScriptLocs` uses — F-C08-g). -/
theorem pkScriptLocs_slice (v : Nat) (ins : List TxIn) (pre post : List TxOut) (o : TxOut) (wits : List Witness)
    (lock : Nat) :
    let t : Tx := (v, ins, pre ++ o :: post, wits, lock)
    (((tx .witness).enc t).drop (pkScriptLoc t pre o)).take o.2.length = o.2 :=
  pkScript_slice v ins pre post o wits lock

/-- Go's `SerializeSize` formula: with witness data the full serialization is the stripped one plus the two
marker/flag bytes plus the witness stacks — as encoded lengths and as the size functions -/
theorem serializeSize_formula (t : Tx) (h : hasWitness t.2 = true) :
    ((tx .witness).enc t).length = ((tx .base).enc t).length + 2 + (encList witness t.2.2.2.1).length ∧
    (tx .witness).size t = (tx .base).size t + 2 + sizeList witness t.2.2.2.1 :=
  ⟨witness_enc_length t h, witness_size_formula t h⟩

/-- hence the two encodings of a transaction coincide exactly when it carries no witness data -/
theorem encodings_coincide_iff (t : Tx) : (tx .witness).enc t = (tx .base).enc t ↔ hasWitness t.2 = false := by
  constructor
  · intro he
    cases hw : hasWitness t.2 with
    | false => rfl
    | true =>
      have := witness_enc_length t hw
      rw [he] at this
      omega
  · intro hw
    simp only [tx, charge, BV.Codec.guard, seq, seqDep, txBody, txBodyWitEnc, alt, hw]
    rfl

/-- the command field: a command without trailing NUL, zero-padded to 12 bytes, is read back unchanged by the
trailing-zero trim of `readMessageHeader` -/
theorem command_field_roundtrip (cmd : Bytes) (h : cmd.getLast? ≠ some 0) :
    ((padCommand cmd).reverse.dropWhile (· == 0)).reverse = cmd := trimRight_pad cmd _ h

/-! ### identifiers -/

/-- `TxHash` does not look at witness data -/
theorem txid_ignores_witness (v : Nat) (ins : List TxIn) (outs : List TxOut) (w w' : List Witness) (l : Nat) :
    txid (v, ins, outs, w, l) = txid (v, ins, outs, w', l) := rfl

/-- identifiers are unchanged by encode → decode, in either encoding -/
theorem txid_roundtrip_invariant (e : TxEnc) (t t' : Tx) (r r' : Bytes) (h : (tx e).wf t)
    (hd : (tx e).dec ((tx e).enc t ++ r) = .ok (t', r')) :
    txid t' = txid t ∧ wtxid t' = wtxid t := by
  rw [(tx_lawful e).dec_enc t r h] at hd
  injection hd with hd; injection hd with h1 _
  subst h1; exact ⟨rfl, rfl⟩

/-- identifiers are unchanged by decode → encode → decode: equal bytes give equal ids, and the
re-encoding of whatever decoded is the same bytes -/
theorem txid_decode_encode_invariant (e : TxEnc) (b r : Bytes) (t : Tx) (hd : (tx e).dec b = .ok (t, r)) :
    (tx e).dec ((tx e).enc t ++ r) = .ok (t, r) := by
  have := (tx_lawful e).enc_dec b t r hd
  exact (tx_lawful e).dec_enc t r this.2

/-- without witness data the wtxid is the txid -/
theorem wtxid_eq_txid_of_noWitness (t : Tx) (h : hasWitness t.2 = false) : wtxid t = txid t := by
  unfold wtxid txid tx
  simp only [charge, BV.Codec.guard, seq, seqDep, txBody, txBodyWitEnc, alt, h]
  rfl

/-- `BlockHash` depends on the 80 header bytes only and survives the round trip -/
theorem blockHash_roundtrip_invariant (e : TxEnc) (b b' : Block) (r r' : Bytes) (h : (block e).wf b)
    (hd : (block e).dec ((block e).enc b ++ r) = .ok (b', r')) : blockHash b'.1 = blockHash b.1 := by
  rw [(block_lawful e).dec_enc b r h] at hd
  injection hd with hd; injection hd with h1 _
  subst h1; rfl

/-- `btcutil.NewTxFromBytes` / `NewBlockFromBytes`: accepted iff the bytes are exactly the encoding
of a value in the domain (trailing bytes rejected) -/
theorem txFromBytes_iff (b : Bytes) (t : Tx) :
    decodeAll (tx .witness) b = .ok t ↔ (b = (tx .witness).enc t ∧ (tx .witness).wf t) := by
  constructor
  · exact enc_of_decodeAll (tx_lawful .witness) b t
  · rintro ⟨rfl, hw⟩; exact decodeAll_enc (tx_lawful .witness) t hw

theorem blockFromBytes_iff (b : Bytes) (t : Block) :
    decodeAll (block .witness) b = .ok t ↔ (b = (block .witness).enc t ∧ (block .witness).wf t) := by
  constructor
  · exact enc_of_decodeAll (block_lawful .witness) b t
  · rintro ⟨rfl, hw⟩; exact decodeAll_enc (block_lawful .witness) t hw

/-! ### every other message, at every protocol version -/

theorem inv_laws : Lawful invList := invList_lawful
theorem headers_laws : Lawful headers := headers_lawful
theorem getBlocks_laws : Lawful getBlocks := getBlocks_lawful
theorem netAddr_laws (pver : Nat) : Lawful (netAddr pver) := netAddr_lawful pver
theorem addr_laws (pver : Nat) : Lawful (addr pver) := addr_lawful pver
theorem addrV2_laws : Lawful addrV2 := addrV2_lawful
theorem version_laws (pver : Nat) : Lawful (version pver) := version_lawful pver
theorem ping_laws (pver : Nat) : Lawful (ping pver) := ping_lawful pver
theorem pong_laws (pver : Nat) : Lawful (pong pver) := pong_lawful pver
theorem reject_laws (pver : Nat) : Lawful (reject pver) := reject_lawful pver
theorem feeFilter_laws (pver : Nat) : Lawful (feeFilter pver) := feeFilter_lawful pver
theorem filterLoad_laws (pver : Nat) : Lawful (filterLoad pver) := filterLoad_lawful pver
theorem filterAdd_laws (pver : Nat) : Lawful (filterAdd pver) := filterAdd_lawful pver
theorem emptyFrom_laws (pver gate : Nat) : Lawful (emptyFrom pver gate) := emptyFrom_lawful pver gate
theorem emptyMsg_laws : Lawful emptyMsg := emptyMsg_lawful
theorem merkleBlock_laws (pver : Nat) : Lawful (merkleBlock pver) := merkleBlock_lawful pver
theorem cfilter_laws : Lawful cfilter := cfilter_lawful
theorem cfheaders_laws : Lawful cfheaders := cfheaders_lawful
theorem cfcheckpt_laws : Lawful cfcheckpt := cfcheckpt_lawful
theorem getcfilters_laws : Lawful getcfilters := getcfilters_lawful
theorem getcfcheckpt_laws : Lawful getcfcheckpt := getcfcheckpt_lawful

/-- version gates: a message that does not exist below its gate decodes from nothing there
(pong, reject, feefilter, filterload/filteradd/filterclear/merkleblock, mempool, sendheaders,
sendaddrv2/wtxidrelay) -/
theorem version_gates (pver : Nat) (b : Bytes) :
    (pver ≤ BIP0031Version → ∃ e, (pong pver).dec b = .error e) ∧
    (pver < RejectVersion → ∃ e, (reject pver).dec b = .error e) ∧
    (pver < FeeFilterVersion → ∃ e, (feeFilter pver).dec b = .error e) ∧
    (pver < BIP0037Version → (∃ e, (filterLoad pver).dec b = .error e) ∧ (∃ e, (filterAdd pver).dec b = .error e) ∧
        (∃ e, (merkleBlock pver).dec b = .error e) ∧ (∃ e, (emptyFrom pver BIP0037Version).dec b = .error e)) ∧
    (pver < BIP0035Version → ∃ e, (emptyFrom pver BIP0035Version).dec b = .error e) ∧
    (pver < SendHeadersVersion → ∃ e, (emptyFrom pver SendHeadersVersion).dec b = .error e) ∧
    (pver < AddrV2Version → ∃ e, (emptyFrom pver AddrV2Version).dec b = .error e) := message_gates pver b

/-- ping carries a nonce exactly from BIP0031 on -/
theorem ping_gate (pver : Nat) (n : Nat) :
    (ping pver).enc n = if pver > BIP0031Version then leBytes 8 n else [] := by
  unfold ping; split <;> rfl

/-- the address timestamp exists exactly from `NetAddressTimeVersion` on (30 vs 26 bytes) -/
theorem netAddr_gate (pver : Nat) (a : NetAddr) (h : (netAddr pver).wf a) :
    ((netAddr pver).enc a).length = if pver ≥ NetAddressTimeVersion then 30 else 26 :=
  netAddr_timestamp_gate pver a h

/-- below `MultipleAddressVersion` an addr message holds at most one address (encoder and, since
the repair F-C08-d, decoder) -/
theorem addr_gate (pver : Nat) (hp : pver < MultipleAddressVersion) (l : List NetAddr)
    (h : (addr pver).wf l) : l.length ≤ 1 := addr_count_gate pver hp l h

/-- below `BIP0037Version` the version message has no relay flag (relay is on) -/
theorem version_relay (pver : Nat) (hp : pver < BIP0037Version) (v : VersionVal)
    (h : (version pver).wf v) : v.2.2.2.2.2.2.2.2 = true := version_relay_gate pver hp v h

/-- messages in the domain fit their `MaxPayloadLength`, so `WriteMessage` never refuses them -/
theorem payload_fits_inv (l : List InvVect) (h : invList.wf l) (pver : Nat) :
    (invList.enc l).length ≤ maxPayload "inv" pver := inv_fits l h pver
theorem payload_fits_headers (l : List BlockHeader) (h : headers.wf l) (pver : Nat) :
    (headers.enc l).length ≤ maxPayload "headers" pver := headers_fits l h pver
theorem payload_fits_version (pver : Nat) (v : VersionVal) (h : (version pver).wf v) :
    ((version pver).enc v).length ≤ maxPayload "version" pver := version_fits pver v h
theorem payload_fits_getblocks (m : Nat × List Bytes × Bytes) (h : getBlocks.wf m) (pver : Nat) :
    (getBlocks.enc m).length ≤ maxPayload "getblocks" pver := getBlocks_fits m h pver

/-! ### message framing (24-byte header, checksum, limits) -/

theorem frame_laws : Lawful frame := frame_lawful

/-- `ReadMessage (WriteMessage m ++ rest) = (m, rest)` for any payload codec obeying the laws, when
the encoded payload respects the protocol-wide and the per-message limit. -/
theorem readMessage_writeMessage {α : Type} (c : Codec α) (hc : Lawful c) (maxPayload net : Nat) (cmd : Bytes)
    (a : α) (r : Bytes) (hw : c.wf a) (hnet : net < 2 ^ 32) (hcmd : cmd.length ≤ CommandSize)
    (hlen : (c.enc a).length ≤ MaxProtocolMessageLength) (hmax : (c.enc a).length ≤ maxPayload) :
    readMessage c maxPayload net cmd (writeMessage c net cmd a ++ r) = .ok (a, r) := by
  have hwf : frame.wf (net, padCommand cmd, c.enc a) := by
    have h256 : (256 : Nat) ^ 4 = 2 ^ 32 := by decide
    refine ⟨?_, ?_, ?_⟩
    · show net < 256 ^ 4
      omega
    · show (padCommand cmd).length = 12
      simp [padCommand, CommandSize] at hcmd ⊢; omega
    · have hck : (checksum (c.enc a)).length = 4 := by simp [checksum]
      refine ⟨⟨⟨⟨?_, by simpa using hlen⟩, hck, rfl⟩, by simp⟩, rfl⟩
      have : MaxProtocolMessageLength < 256 ^ 4 := by decide
      show (c.enc a).length < 256 ^ 4
      omega
  unfold readMessage writeMessage
  rw [frame_lawful.dec_enc _ r hwf]
  simp only [ne_eq, not_true_eq_false, if_false]
  have : ¬ (c.enc a).length > maxPayload := by omega
  simp only [this, if_false, decodeAll_enc hc a hw]

/-- canonicity of a whole message: whatever `ReadMessage` accepts is byte-for-byte what
`WriteMessage` produces for the decoded value. -/
theorem readMessage_canonical {α : Type} (c : Codec α) (hc : Lawful c) (maxPayload net : Nat) (cmd : Bytes)
    (b : Bytes) (a : α) (r : Bytes) (h : readMessage c maxPayload net cmd b = .ok (a, r)) :
    b = writeMessage c net cmd a ++ r ∧ c.wf a ∧ (c.enc a).length ≤ maxPayload := by
  unfold readMessage at h
  split at h
  · cases h
  · rename_i n cm payload r' hd
    split at h
    · cases h
    · rename_i hn
      split at h
      · cases h
      · rename_i hcm
        split at h
        · cases h
        · rename_i hl
          split at h
          · cases h
          · rename_i a' hda
            injection h with h; injection h with h1 h2
            subst h1 h2
            obtain ⟨e, _⟩ := frame_lawful.enc_dec _ _ _ hd
            obtain ⟨ep, wa⟩ := enc_of_decodeAll hc _ _ hda
            have hn' : n = net := by simpa using hn
            have hcm' : cm = padCommand cmd := by simpa using hcm
            subst hn' hcm' ep
            exact ⟨e, wa, by omega⟩

/-! ### v2 transport framing -/

/-- `ReadV2MessageN (WriteV2MessageN m) = m`, for the short-id form and for the 12-byte form alike -/
theorem readV2_writeV2 {α : Type} (c : Codec α) (hc : Lawful c) (maxPayload : Nat) (cmd : Bytes) (id : Option Nat)
    (a : α) (hw : c.wf a) (hlen : (c.enc a).length ≤ MaxProtocolMessageLength)
    (hmax : (c.enc a).length ≤ maxPayload) :
    readV2 c maxPayload (v2Prefix cmd id) (writeV2 c cmd id a) = .ok a := by
  unfold readV2 writeV2
  have h1 : ¬ (c.enc a).length > MaxProtocolMessageLength := by omega
  have h2 : ¬ (c.enc a).length > maxPayload := by omega
  simp only [List.take_left, ne_eq, not_true_eq_false, if_false, List.drop_left, h1, h2]
  exact decodeAll_enc hc a hw

/-- canonicity under a fixed prefix form: what `ReadV2MessageN` accepts is exactly what `WriteV2MessageN`
writes with that prefix for the decoded value. (That the 12-byte form of a command owning a short id is
also accepted, and re-written in the short form, is finding F-C08-f.) -/
theorem readV2_canonical {α : Type} (c : Codec α) (hc : Lawful c) (maxPayload : Nat) (cmd : Bytes) (id : Option Nat)
    (b : Bytes) (a : α) (h : readV2 c maxPayload (v2Prefix cmd id) b = .ok a) :
    b = writeV2 c cmd id a ∧ c.wf a ∧ (c.enc a).length ≤ maxPayload := by
  unfold readV2 at h
  split at h
  · cases h
  · rename_i hp
    simp only [] at h
    split at h
    · cases h
    · split at h
      · cases h
      · rename_i hl
        obtain ⟨e, w⟩ := enc_of_decodeAll hc _ _ h
        have hp' : b.take (v2Prefix cmd id).length = v2Prefix cmd id := by simpa using hp
        refine ⟨?_, w, by rw [← e]; omega⟩
        unfold writeV2
        have hh := List.take_append_drop (v2Prefix cmd id).length b
        rw [hp', e] at hh
        exact hh.symm

/-- the short-id table is a bijection between its ids and its commands -/
theorem v2Table_bijective : ∀ p ∈ v2Table, v2IdOf p.2 = some p.1 ∧ v2CmdOf p.1 = some p.2 := by decide

/-- a v2 plaintext is one message: the payload decoder sees at most `MaxProtocolMessageLength` bytes when the
length check passes, so its requests stay below the fixed multiple -/
theorem v2_alloc_bounded {α : Type} {c : Codec α} {A B : Nat} (h : AllocB c A B)
    (hK : A + B * MaxProtocolMessageLength ≤ allocK * MaxMessagePayload) (pre b : Bytes)
    (hlen : (b.drop pre.length).length ≤ MaxProtocolMessageLength) :
    c.alloc (b.drop pre.length) ≤ allocK * MaxMessagePayload := by
  have h1 := h.bound (b.drop pre.length)
  have h2 : B * (b.drop pre.length).length ≤ B * MaxProtocolMessageLength := Nat.mul_le_mul_left _ hlen
  omega

/-! ### hostile bytes: no panic, bounded allocation

`alloc` counts the bytes a decoder requests from the allocator on an input (successful or not), charged
where the Go code calls `make` after accepting a count (`count * sizeof element`, the element sizes of
the 64-bit build). Every decoder obeys `alloc b ≤ A + B·|b|` with constants fixed per message; with
`|b| ≤ MaxProtocolMessageLength` (what `ReadMessage` admits) that is below `allocK · MaxMessagePayload`. -/

/-- the decoders are total: every input is answered by a value or an error, nothing else
(the model has no panic outcome; that the Go decoders do not panic either is what the correspondence
run observes on every malformed input). -/
theorem decode_total {α : Type} (c : Codec α) (b : Bytes) :
    (∃ a r, c.dec b = .ok (a, r)) ∨ (∃ e, c.dec b = .error e) := by
  cases h : c.dec b with
  | error e => exact Or.inr ⟨e, rfl⟩
  | ok p => exact Or.inl ⟨p.1, p.2, rfl⟩

/-- whatever decodes leaves a suffix of the input: decoders never read past or invent bytes -/
theorem decode_rest_suffix {α : Type} (c : Codec α) (hc : Lawful c) (b : Bytes) (a : α) (r : Bytes)
    (h : c.dec b = .ok (a, r)) : r.length ≤ b.length := shrinks_of_lawful hc b a r h

theorem tx_alloc_linear (e : TxEnc) (b : Bytes) : (tx e).alloc b ≤ txA + 25 * b.length :=
  (tx_alloc e).bound b

theorem block_alloc_linear (e : TxEnc) (b : Bytes) :
    (block e).alloc b ≤ (maxTxPerBlock * 72 + txA) + 33 * b.length := (block_alloc e).bound b

/-- from the linear law to the fixed multiple, for inputs `ReadMessage` can hand to a payload decoder -/
theorem alloc_le_K {α : Type} {c : Codec α} {A B : Nat} (h : AllocB c A B)
    (hK : A + B * MaxProtocolMessageLength ≤ allocK * MaxMessagePayload) (b : Bytes)
    (hb : b.length ≤ MaxProtocolMessageLength) : c.alloc b ≤ allocK * MaxMessagePayload := by
  have h1 := h.bound b
  have h2 : B * b.length ≤ B * MaxProtocolMessageLength := Nat.mul_le_mul_left _ hb
  omega

theorem tx_alloc_bounded (e : TxEnc) (b : Bytes) (hb : b.length ≤ MaxProtocolMessageLength) :
    (tx e).alloc b ≤ allocK * MaxMessagePayload := alloc_le_K (tx_alloc e) (by decide) b hb

theorem block_alloc_bounded (e : TxEnc) (b : Bytes) (hb : b.length ≤ MaxProtocolMessageLength) :
    (block e).alloc b ≤ allocK * MaxMessagePayload := alloc_le_K (block_alloc e) (by decide) b hb

/-- a whole message from an arbitrary byte stream of ANY length: payload buffer + payload decoder stay
below the fixed multiple, because the header's length field is capped before the buffer is made. -/
theorem message_alloc_bounded {α : Type} {c : Codec α} {A B : Nat} (h : AllocB c A B)
    (hK : MaxProtocolMessageLength + (A + B * MaxProtocolMessageLength) ≤ allocK * MaxMessagePayload)
    (b : Bytes) : readMessageAlloc c b ≤ allocK * MaxMessagePayload := by
  unfold readMessageAlloc
  have h1 := frame_alloc_le b
  split
  · rename_i n cm pl r hd
    have hw := (frame_lawful.enc_dec _ _ _ hd).2
    have hlen : pl.length ≤ MaxProtocolMessageLength := by
      have h2 : framedPayload.wf pl := hw.2.2
      have h3 := h2.1.1.1.2
      simpa using h3
    have h4 := h.bound pl
    have h5 : B * pl.length ≤ B * MaxProtocolMessageLength := Nat.mul_le_mul_left _ hlen
    omega
  · omega

theorem msg_alloc_tx (e : TxEnc) (b : Bytes) : readMessageAlloc (tx e) b ≤ allocK * MaxMessagePayload :=
  message_alloc_bounded (tx_alloc e) (by decide) b
theorem msg_alloc_block (e : TxEnc) (b : Bytes) : readMessageAlloc (block e) b ≤ allocK * MaxMessagePayload :=
  message_alloc_bounded (block_alloc e) (by decide) b
theorem msg_alloc_inv (b : Bytes) : readMessageAlloc invList b ≤ allocK * MaxMessagePayload :=
  message_alloc_bounded invList_alloc (by decide) b
theorem msg_alloc_headers (b : Bytes) : readMessageAlloc headers b ≤ allocK * MaxMessagePayload :=
  message_alloc_bounded headers_alloc (by decide) b
theorem msg_alloc_getBlocks (b : Bytes) : readMessageAlloc getBlocks b ≤ allocK * MaxMessagePayload :=
  message_alloc_bounded getBlocks_alloc (by decide) b
theorem msg_alloc_addr (pver : Nat) (b : Bytes) : readMessageAlloc (addr pver) b ≤ allocK * MaxMessagePayload :=
  message_alloc_bounded (addr_alloc pver) (by decide) b
theorem msg_alloc_addrV2 (b : Bytes) : readMessageAlloc addrV2 b ≤ allocK * MaxMessagePayload :=
  message_alloc_bounded addrV2_alloc (by decide) b
theorem msg_alloc_version (pver : Nat) (b : Bytes) :
    readMessageAlloc (version pver) b ≤ allocK * MaxMessagePayload :=
  message_alloc_bounded (version_alloc pver) (by decide) b
theorem msg_alloc_reject (pver : Nat) (b : Bytes) :
    readMessageAlloc (reject pver) b ≤ allocK * MaxMessagePayload :=
  message_alloc_bounded (reject_alloc pver) (by decide) b
theorem msg_alloc_filterLoad (pver : Nat) (b : Bytes) :
    readMessageAlloc (filterLoad pver) b ≤ allocK * MaxMessagePayload :=
  message_alloc_bounded (filterLoad_alloc pver) (by decide) b
theorem msg_alloc_filterAdd (pver : Nat) (b : Bytes) :
    readMessageAlloc (filterAdd pver) b ≤ allocK * MaxMessagePayload :=
  message_alloc_bounded (filterAdd_alloc pver) (by decide) b
theorem msg_alloc_merkleBlock (pver : Nat) (b : Bytes) :
    readMessageAlloc (merkleBlock pver) b ≤ allocK * MaxMessagePayload :=
  message_alloc_bounded (merkleBlock_alloc pver) (by decide) b
theorem msg_alloc_cfilter (b : Bytes) : readMessageAlloc cfilter b ≤ allocK * MaxMessagePayload :=
  message_alloc_bounded cfilter_alloc (by decide) b
theorem msg_alloc_cfheaders (b : Bytes) : readMessageAlloc cfheaders b ≤ allocK * MaxMessagePayload :=
  message_alloc_bounded cfheaders_alloc (by decide) b
theorem msg_alloc_cfcheckpt (b : Bytes) : readMessageAlloc cfcheckpt b ≤ allocK * MaxMessagePayload :=
  message_alloc_bounded cfcheckpt_alloc (by decide) b
/-- ping, pong, feefilter, getcf*, and the empty messages allocate nothing beyond the payload buffer -/
theorem msg_alloc_small (pver gate : Nat) (b : Bytes) :
    readMessageAlloc (ping pver) b ≤ allocK * MaxMessagePayload ∧
    readMessageAlloc (pong pver) b ≤ allocK * MaxMessagePayload ∧
    readMessageAlloc (feeFilter pver) b ≤ allocK * MaxMessagePayload ∧
    readMessageAlloc getcfilters b ≤ allocK * MaxMessagePayload ∧
    readMessageAlloc getcfcheckpt b ≤ allocK * MaxMessagePayload ∧
    readMessageAlloc (emptyFrom pver gate) b ≤ allocK * MaxMessagePayload ∧
    readMessageAlloc emptyMsg b ≤ allocK * MaxMessagePayload :=
  ⟨message_alloc_bounded (ping_alloc pver) (by decide) b, message_alloc_bounded (pong_alloc pver) (by decide) b,
   message_alloc_bounded (feeFilter_alloc pver) (by decide) b, message_alloc_bounded getcfilters_alloc (by decide) b,
   message_alloc_bounded getcfcheckpt_alloc (by decide) b,
   message_alloc_bounded (emptyFrom_alloc pver gate) (by decide) b,
   message_alloc_bounded emptyMsg_alloc (by decide) b⟩

/-! ### the tolerant decoders (findings F-C08-a, F-C08-b)

`versionDecGo` / `addrV2DecGo` are the Go decoders as they are (Model). Round trip holds for them in
full (`*_go_roundtrip`); canonicity holds for the canonical codecs (`version_laws`, `addrV2_laws`), i.e.
for the Go decoders restricted to inputs the canonical decoder accepts (`*_canonicity_partial`), and
is refuted for the Go decoders on all inputs (`*_canonicity_full_fails`). -/

/-- every version message in the domain decodes back to itself with the Go decoder, at every pver -/
theorem version_go_roundtrip (pver : Nat) (v : VersionVal) (hw : (version pver).wf v) :
    versionDecGo ((version pver).enc v) = .ok (v, []) := versionDecGo_enc pver v hw

/-- every addrv2 message in the domain (kept networks) decodes back to itself with the Go decoder -/
theorem addrV2_go_roundtrip (l : List NetAddrV2) (hw : addrV2.wf l) :
    addrV2DecGo (addrV2.enc l) = .ok (l, []) := addrV2DecGo_enc l hw

/-- canonicity for version, partial: on a payload the canonical decoder accepts in full, the Go decoder
returns the same value and the payload is its encoding. What is missing for the full statement is
exactly F-C08-a (payloads only the Go decoder accepts). -/
theorem version_canonicity_partial (pver : Nat) (b : Bytes) (v : VersionVal)
    (h : (version pver).dec b = .ok (v, [])) :
    versionDecGo b = .ok (v, []) ∧ b = (version pver).enc v := by
  obtain ⟨e, w⟩ := (version_lawful pver).enc_dec b v [] h
  simp only [List.append_nil] at e
  exact ⟨by rw [e]; exact versionDecGo_enc pver v w, e⟩

/-- canonicity for addrv2, partial: same shape; the missing part is F-C08-b. -/
theorem addrV2_canonicity_partial (b : Bytes) (l : List NetAddrV2) (h : addrV2.dec b = .ok (l, [])) :
    addrV2DecGo b = .ok (l, []) ∧ b = addrV2.enc l := by
  obtain ⟨e, w⟩ := addrV2_lawful.enc_dec b l [] h
  simp only [List.append_nil] at e
  exact ⟨by rw [e]; exact addrV2DecGo_enc l w, e⟩


set_option synthInstance.maxSize 4000 in
/-- F-C08-a: `MsgVersion.BtcDecode` accepts a payload that ends after `AddrYou` (46 bytes); the
re-encoding of what it returns has 85 bytes or more, so decode → encode is not the identity. -/
theorem version_canonicity_full_fails :
    ¬ ∀ (b : Bytes) (v : VersionVal) (r : Bytes), versionDecGo b = .ok (v, r) → b = (version 70016).enc v ++ r := by
  intro h
  have := h (List.replicate 46 0) ((0, 0, 0, zeroNetAddr, zeroNetAddr, 0, [], 0, true)) [] (by decide)
  exact absurd (congrArg List.length this) (by decide)

set_option synthInstance.maxSize 4000 in
/-- F-C08-b: `MsgAddrV2.BtcDecode` drops an entry of a network it does not keep (here id 5, I2P). -/
theorem addrV2_canonicity_full_fails :
    ¬ ∀ (b : Bytes) (v : List NetAddrV2) (r : Bytes), addrV2DecGo b = .ok (v, r) → b = addrV2.enc v ++ r := by
  intro h
  have := h ([1, 0, 0, 0, 0, 0, 5, 32] ++ List.replicate 34 0) [] [] (by decide)
  exact absurd (congrArg List.length this) (by decide)

/-! ### pinned constants (regenerated from the compiled tree on every run) -/

theorem pin_MaxMessagePayload : Generated.C08.MaxMessagePayload = MaxMessagePayload := by decide
theorem pin_MaxProtocolMessageLength : Generated.C08.MaxProtocolMessageLength = MaxProtocolMessageLength := by decide
theorem pin_MaxVarIntPayload : Generated.C08.MaxVarIntPayload = MaxVarIntPayload := by decide
theorem pin_header : Generated.C08.MessageHeaderSize = MessageHeaderSize ∧ Generated.C08.CommandSize = CommandSize := by decide
theorem pin_tx_limits : Generated.C08.maxTxInPerMessage = maxTxInPerMessage ∧
    Generated.C08.maxTxOutPerMessage = maxTxOutPerMessage ∧ Generated.C08.maxTxPerBlock = maxTxPerBlock ∧
    Generated.C08.maxWitnessItemsPerInput = maxWitnessItemsPerInput ∧
    Generated.C08.maxWitnessItemSize = maxWitnessItemSize ∧ Generated.C08.scriptSlabSize = scriptSlabSize ∧
    Generated.C08.MaxBlockPayload = MaxBlockPayload := by decide
theorem pin_counts : Generated.C08.MaxInvPerMsg = MaxInvPerMsg ∧
    Generated.C08.MaxBlockHeadersPerMsg = MaxBlockHeadersPerMsg ∧
    Generated.C08.MaxBlockLocatorsPerMsg = MaxBlockLocatorsPerMsg ∧ Generated.C08.MaxAddrPerMsg = MaxAddrPerMsg ∧
    Generated.C08.MaxV2AddrPerMsg = MaxV2AddrPerMsg ∧ Generated.C08.maxAddrV2Size = maxAddrV2Size ∧
    Generated.C08.MaxUserAgentLen = MaxUserAgentLen ∧ Generated.C08.MaxFilterLoadHashFuncs = MaxFilterLoadHashFuncs ∧
    Generated.C08.MaxFilterLoadFilterSize = MaxFilterLoadFilterSize ∧
    Generated.C08.MaxFilterAddDataSize = MaxFilterAddDataSize ∧
    Generated.C08.maxFlagsPerMerkleBlock = maxFlagsPerMerkleBlock ∧
    Generated.C08.MaxCFilterDataSize = MaxCFilterDataSize ∧ Generated.C08.MaxCFHeadersPerMsg = MaxCFHeadersPerMsg ∧
    Generated.C08.maxCFHeadersLen = maxCFHeadersLen := by decide
theorem pin_gates : Generated.C08.MultipleAddressVersion = MultipleAddressVersion ∧
    Generated.C08.NetAddressTimeVersion = NetAddressTimeVersion ∧ Generated.C08.BIP0031Version = BIP0031Version ∧
    Generated.C08.BIP0035Version = BIP0035Version ∧ Generated.C08.BIP0037Version = BIP0037Version ∧
    Generated.C08.RejectVersion = RejectVersion ∧ Generated.C08.BIP0111Version = BIP0111Version ∧
    Generated.C08.SendHeadersVersion = SendHeadersVersion ∧ Generated.C08.FeeFilterVersion = FeeFilterVersion ∧
    Generated.C08.AddrV2Version = AddrV2Version ∧ Generated.C08.ProtocolVersion = ProtocolVersion := by decide
theorem pin_bip144 : Generated.C08.TxFlagMarker = 0 ∧ Generated.C08.WitnessFlag = 1 := by decide
theorem pin_v2Table : Generated.C08.v2Ids = v2Table.map (fun p => (p.1 : Int)) ∧
    Generated.C08.v2Commands = v2Table.map (fun p => p.2) := by decide
theorem pin_commands : Generated.C08.commands = commands := by decide
theorem pin_maxPayload_current :
    Generated.C08.maxPayloadCurrent = commands.map (fun c => (maxPayload c ProtocolVersion : Int)) := by decide
theorem pin_maxPayload_v0 :
    Generated.C08.maxPayloadV0 = commands.map (fun c => (maxPayload c 0 : Int)) := by decide

end BV.C08
