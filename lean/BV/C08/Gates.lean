/-
C08: protocol-version gates and MaxPayloadLength adequacy. Core-only.
-/
import BV.C08.Lemmas
namespace BV.C08
open BV.Codec

/-- a codec behind a closed gate decodes nothing -/
theorem never_dec {α : Type} (c : Codec α) (b : Bytes) : ∃ e, (never c).dec b = .error e := by
  simp only [never, BV.Codec.guard]
  split
  · exact ⟨_, rfl⟩
  · exact ⟨_, rfl⟩

/-- … and has an empty domain -/
theorem never_wf {α : Type} (c : Codec α) (a : α) : ¬ (never c).wf a := by
  intro h; exact absurd h.2 (by simp)

theorem gated_dec {α : Type} (p : Prop) [Decidable p] (c : Codec α) (hp : ¬ p) (b : Bytes) :
    ∃ e, (if p then c else never c).dec b = .error e := by
  simp only [hp, if_false]; exact never_dec c b

/-! ### encoded length of counted lists with fixed-size items -/

theorem encList_len_fixed {α : Type} (c : Codec α) (k : Nat) (l : List α)
    (h : ∀ x ∈ l, (c.enc x).length = k) : (encList c l).length = l.length * k := by
  induction l with
  | nil => simp [encList]
  | cons x xs ih =>
    simp only [encList, List.length_append, List.length_cons, h x (by simp),
      ih (fun y hy => h y (by simp [hy])), Nat.succ_mul]
    omega

theorem listOf_enc_len {α : Type} (max esz : Nat) (c : Codec α) (l : List α) :
    ((listOf max esz c).enc l).length = varintSize l.length + (encList c l).length := by
  simp only [listOf, imap, seqDep, charge, BV.Codec.guard, varint, listN, List.length_append, varintSize_eq]

theorem varintSize_le (n : Nat) : varintSize n ≤ 9 := by
  unfold varintSize; split
  · omega
  · split
    · omega
    · split <;> omega

theorem hash32_enc_len (x : Bytes) (h : hash32.wf x) : (hash32.enc x).length = 32 := h

theorem invVect_enc_len (x : InvVect) (h : invVect.wf x) : (invVect.enc x).length = 36 := by
  have h2 : x.2.length = 32 := h.2
  simp [invVect, seq, seqDep, u32le, uintLE, hash32, bytesN, h2]

theorem blockHeader_enc_len (x : BlockHeader) (h : blockHeader.wf x) : (blockHeader.enc x).length = 80 := by
  have h1 : x.2.1.length = 32 := h.2.1
  have h2 : x.2.2.1.length = 32 := h.2.2.1
  simp [blockHeader, seq, seqDep, u32le, uintLE, hash32, bytesN, h1, h2]

/-- every inventory message in the domain fits `MaxPayloadLength` -/
theorem inv_fits (l : List InvVect) (h : invList.wf l) (pver : Nat) :
    (invList.enc l).length ≤ maxPayload "inv" pver := by
  have hw := (listOf_wf_iff MaxInvPerMsg eszInvVect invVect l (by decide)).mp h
  have hl := encList_len_fixed invVect 36 l (fun x hx => invVect_enc_len x (hw.2 x hx))
  have hv := varintSize_le l.length
  have hmax : l.length ≤ 50000 := hw.1
  unfold invList
  rw [listOf_enc_len, hl]
  show _ ≤ 9 + 50000 * 36
  omega

/-- every headers message in the domain fits `MaxPayloadLength` -/
theorem headers_fits (l : List BlockHeader) (h : headers.wf l) (pver : Nat) :
    (headers.enc l).length ≤ maxPayload "headers" pver := by
  have hw := (listOf_wf_iff MaxBlockHeadersPerMsg eszHeader headerEntry l (by decide)).mp h
  have hl := encList_len_fixed headerEntry 81 l (fun x hx => by
    have hx' := hw.2 x hx
    have : blockHeader.wf x := hx'.1.1
    have := blockHeader_enc_len x this
    simp only [headerEntry, imap, seq, seqDep, magic, List.length_append, this]
    rfl)
  have hv := varintSize_le l.length
  have hmax : l.length ≤ 2000 := hw.1
  unfold headers
  rw [listOf_enc_len, hl]
  show _ ≤ 9 + 81 * 2000
  omega

/-- a locator message in the domain fits `MaxPayloadLength` -/
theorem getBlocks_fits (m : Nat × List Bytes × Bytes) (h : getBlocks.wf m) (pver : Nat) :
    (getBlocks.enc m).length ≤ maxPayload "getblocks" pver := by
  obtain ⟨v, l, stop⟩ := m
  have hl0 : (listOf MaxBlockLocatorsPerMsg eszHash hash32).wf l := h.2.1
  have hs : stop.length = 32 := h.2.2
  have hw := (listOf_wf_iff MaxBlockLocatorsPerMsg eszHash hash32 l (by decide)).mp hl0
  have hl := encList_len_fixed hash32 32 l (fun x hx => hash32_enc_len x (hw.2 x hx))
  have hv := varintSize_le l.length
  have hmax : l.length ≤ 500 := hw.1
  have hs' : (hash32.enc stop).length = 32 := hs
  simp only [getBlocks, seq, seqDep, List.length_append, listOf_enc_len, hl, hs', u32le, uintLE, length_leBytes]
  show _ ≤ 4 + 9 + 500 * 32 + 32
  omega

/-! ### transaction locations inside a serialized block (`TxLoc`, `DeserializeTxLoc`) -/

theorem encList_append {α : Type} (c : Codec α) (l1 l2 : List α) :
    encList c (l1 ++ l2) = encList c l1 ++ encList c l2 := by
  induction l1 with
  | nil => rfl
  | cons x xs ih => simp [encList, ih]

theorem drop_take_mid (a m z : Bytes) : ((a ++ (m ++ z)).drop a.length).take m.length = m := by
  simp

/-- the bytes of the i-th transaction sit at offset `80 + |count| + Σ earlier lengths` of the block -/
theorem block_tx_slice (e : TxEnc) (hdr : BlockHeader) (pre post : List Tx) (x : Tx) (hh : blockHeader.wf hdr) :
    (((block e).enc (hdr, pre ++ x :: post)).drop
        (80 + varintSize (pre ++ x :: post).length + (encList (tx e) pre).length)).take ((tx e).enc x).length
      = (tx e).enc x := by
  have hl := blockHeader_enc_len hdr hh
  have e1 : (block e).enc (hdr, pre ++ x :: post) =
      (blockHeader.enc hdr ++ varintEnc (pre ++ x :: post).length ++ encList (tx e) pre) ++
        ((tx e).enc x ++ encList (tx e) post) := by
    simp only [block, seq, seqDep, listOf, imap, charge, BV.Codec.guard, varint, listN, encList_append, encList,
      List.append_assoc]
  have e2 : 80 + varintSize (pre ++ x :: post).length + (encList (tx e) pre).length =
      (blockHeader.enc hdr ++ varintEnc (pre ++ x :: post).length ++ encList (tx e) pre).length := by
    simp only [List.length_append, hl, varintSize_eq]
  rw [e1, e2]
  exact drop_take_mid _ _ _

/-! ### `PkScriptLocs`: where an output script sits inside `Serialize()` -/

/-- offset of the pkScript of output `o` (preceded by the outputs `pre`) in the witness-encoding serialization -/
def pkScriptLoc (t : Tx) (pre : List TxOut) (o : TxOut) : Nat :=
  4 + (if hasWitness t.2 then 2 else 0) + (txIns.enc t.2.1).length + varintSize t.2.2.1.length +
    (encList txOut pre).length + 8 + varintSize o.2.length

theorem txOuts_enc_split (pre post : List TxOut) (o : TxOut) :
    txOuts.enc (pre ++ o :: post) =
      (varintEnc (pre ++ o :: post).length ++ encList txOut pre ++ leBytes 8 o.1 ++ varintEnc o.2.length) ++
        (o.2 ++ encList txOut post) := by
  simp only [txOuts, listOf, imap, seqDep, charge, BV.Codec.guard, varint, listN, encList_append, encList,
    txOut, seq, u64le, uintLE, script, varBytesPooled, bytesN, List.append_assoc]

theorem pkScript_slice (v : Nat) (ins : List TxIn) (pre post : List TxOut) (o : TxOut) (wits : List Witness)
    (lock : Nat) :
    let t : Tx := (v, ins, pre ++ o :: post, wits, lock)
    (((tx .witness).enc t).drop (pkScriptLoc t pre o)).take o.2.length = o.2 := by
  intro t
  have hs := txOuts_enc_split pre post o
  cases hw : hasWitness t.2 with
  | true =>
    have e1 : (tx .witness).enc t =
        (leBytes 4 v ++ [0, 1] ++ txIns.enc ins ++
          (varintEnc (pre ++ o :: post).length ++ encList txOut pre ++ leBytes 8 o.1 ++ varintEnc o.2.length)) ++
        (o.2 ++ (encList txOut post ++ (encList witness wits ++ leBytes 4 lock))) := by
      simp only [tx, charge, BV.Codec.guard, seq, seqDep, txBody, txBodyWitEnc, alt, hw, if_true, txBodyWit, imap,
        magic, u32le, uintLE, listN, t, hs, List.append_assoc, List.cons_append, List.nil_append]
    have e2 : pkScriptLoc t pre o =
        (leBytes 4 v ++ [0, 1] ++ txIns.enc ins ++
          (varintEnc (pre ++ o :: post).length ++ encList txOut pre ++ leBytes 8 o.1 ++ varintEnc o.2.length)).length := by
      simp only [pkScriptLoc, hw, if_true, List.length_append, length_leBytes, varintSize_eq, t,
        List.length_cons, List.length_nil]
      omega
    rw [e1, e2]
    exact drop_take_mid _ _ _
  | false =>
    have e1 : (tx .witness).enc t =
        (leBytes 4 v ++ txIns.enc ins ++
          (varintEnc (pre ++ o :: post).length ++ encList txOut pre ++ leBytes 8 o.1 ++ varintEnc o.2.length)) ++
        (o.2 ++ (encList txOut post ++ leBytes 4 lock)) := by
      simp only [tx, charge, BV.Codec.guard, seq, seqDep, txBody, txBodyWitEnc, alt, hw, if_false,
        Bool.false_eq_true, txBodyBase, imap, u32le, uintLE, t, hs, List.append_assoc]
    have e2 : pkScriptLoc t pre o =
        (leBytes 4 v ++ txIns.enc ins ++
          (varintEnc (pre ++ o :: post).length ++ encList txOut pre ++ leBytes 8 o.1 ++ varintEnc o.2.length)).length := by
      simp only [pkScriptLoc, hw, if_false, Bool.false_eq_true, List.length_append, length_leBytes, varintSize_eq, t]
      omega
    rw [e1, e2]
    exact drop_take_mid _ _ _

/-! ### `SerializeSize = baseSize + 2 + Σ witness sizes` -/

theorem witness_enc_length (t : Tx) (h : hasWitness t.2 = true) :
    ((tx .witness).enc t).length = ((tx .base).enc t).length + 2 + (encList witness t.2.2.2.1).length := by
  simp only [tx, charge, BV.Codec.guard, seq, seqDep, txBody, txBodyWitEnc, alt, h, if_true, txBodyWit, txBodyBase,
    imap, magic, listN, List.length_append, List.length_cons, List.length_nil]
  omega

theorem witness_size_formula (t : Tx) (h : hasWitness t.2 = true) :
    (tx .witness).size t = (tx .base).size t + 2 + sizeList witness t.2.2.2.1 := by
  simp only [tx, charge, BV.Codec.guard, seq, seqDep, txBody, txBodyWitEnc, alt, h, if_true, txBodyWit, txBodyBase,
    imap, magic, listN, List.length_cons, List.length_nil]
  omega

/-! ### the 12-byte command field -/

theorem trimRight_pad (cmd : Bytes) (k : Nat) (h : cmd.getLast? ≠ some 0) :
    ((cmd ++ List.replicate k 0).reverse.dropWhile (· == 0)).reverse = cmd := by
  rw [List.reverse_append, List.reverse_replicate]
  have h1 : ∀ (k : Nat) (l : Bytes), (List.replicate k (0 : UInt8) ++ l).dropWhile (· == 0) = l.dropWhile (· == 0) := by
    intro k l
    induction k with
    | zero => rfl
    | succ k ih => simp [List.replicate_succ, ih]
  rw [h1]
  cases hr : cmd.reverse with
  | nil => simp [List.reverse_eq_nil_iff.mp hr]
  | cons x xs =>
    have hx : x ≠ 0 := by
      intro hx0
      have : cmd.getLast? = some x := by
        rw [List.getLast?_eq_head?_reverse, hr]; rfl
      rw [hx0] at this; exact h this
    have : (x == 0) = false := by simpa using hx
    simp only [List.dropWhile_cons, this]
    have := congrArg List.reverse hr
    simpa using this.symm

theorem netAddrNoTs_enc_len (a : NetAddrNoTs) (h : netAddrNoTs.wf a) : (netAddrNoTs.enc a).length = 26 := by
  have hip : a.2.1.length = 16 := h.2.1
  simp [netAddrNoTs, seq, seqDep, u64le, u16be, uintLE, uintBE, bytesN, hip]

/-- every version message in the domain fits `MaxPayloadLength` at its protocol version -/
theorem version_fits (pver : Nat) (v : VersionVal) (h : (version pver).wf v) :
    ((version pver).enc v).length ≤ maxPayload "version" pver := by
  obtain ⟨pv, sv, ts, you, me, nonce, ua, last, relay⟩ := v
  obtain ⟨_, _, _, w4, w5, _, w7, _, _⟩ := h
  have h4 := netAddrNoTs_enc_len you w4
  have h5 := netAddrNoTs_enc_len me w5
  have hua : ua.length ≤ 256 := by
    have := w7.2
    simp only [MaxUserAgentLen] at this
    exact of_decide_eq_true this
  have hv := varintSize_le ua.length
  have hv3 : varintSize ua.length ≤ 3 := by
    unfold varintSize
    split
    · omega
    · split
      · omega
      · omega
  have hrel : ((if pver ≥ BIP0037Version then boolByte else konst true).enc relay).length ≤ 1 := by
    split
    · cases relay <;> simp [boolByte, imap, BV.Codec.guard, u8, uintLE, leBytes]
    · simp [konst]
  have hmp : 350 ≤ maxPayload "version" pver := by
    simp only [maxPayload, maxNetAddressPayload, MaxVarIntPayload, MaxUserAgentLen, if_true]
    split <;> omega
  simp only [version, seq, seqDep, List.length_append, h4, h5, u32le, u64le, uintLE, length_leBytes, userAgent,
    BV.Codec.guard, varBytes, imap, charge, varint, bytesN, ← varintSize_eq] at hrel ⊢
  omega

/-! ### gates -/

/-- the network address carries its timestamp exactly from `NetAddressTimeVersion` on -/
theorem netAddr_timestamp_gate (pver : Nat) (a : NetAddr) (h : (netAddr pver).wf a) :
    ((netAddr pver).enc a).length = if pver ≥ NetAddressTimeVersion then 30 else 26 := by
  have hip : a.2.2.1.length = 16 := h.2.2.1
  unfold netAddr
  split
  · simp [seq, seqDep, netAddrNoTs, u32le, u64le, u16be, uintLE, uintBE, bytesN, hip]
  · simp [seq, seqDep, netAddrNoTs, konst, u64le, u16be, uintLE, uintBE, bytesN, hip]

/-- below `MultipleAddressVersion` an addr message holds at most one address -/
theorem addr_count_gate (pver : Nat) (hp : pver < MultipleAddressVersion) (l : List NetAddr)
    (h : (addr pver).wf l) : l.length ≤ 1 := by
  unfold addr at h
  simp only [hp, if_true] at h
  exact ((listOf_wf_iff 1 eszNetAddr (netAddr pver) l (by decide)).mp h).1

/-- the relay flag is on the wire exactly from `BIP0037Version` on -/
theorem version_relay_gate (pver : Nat) (hp : pver < BIP0037Version) (v : VersionVal)
    (h : (version pver).wf v) : v.2.2.2.2.2.2.2.2 = true := by
  have : ¬ pver ≥ BIP0037Version := by omega
  have h8 := h.2.2.2.2.2.2.2.2
  simp only [this, if_false] at h8
  exact h8

/-- messages that do not exist below their gate: nothing decodes there -/
theorem message_gates (pver : Nat) (b : Bytes) :
    (pver ≤ BIP0031Version → ∃ e, (pong pver).dec b = .error e) ∧
    (pver < RejectVersion → ∃ e, (reject pver).dec b = .error e) ∧
    (pver < FeeFilterVersion → ∃ e, (feeFilter pver).dec b = .error e) ∧
    (pver < BIP0037Version → (∃ e, (filterLoad pver).dec b = .error e) ∧ (∃ e, (filterAdd pver).dec b = .error e) ∧
        (∃ e, (merkleBlock pver).dec b = .error e) ∧ (∃ e, (emptyFrom pver BIP0037Version).dec b = .error e)) ∧
    (pver < BIP0035Version → ∃ e, (emptyFrom pver BIP0035Version).dec b = .error e) ∧
    (pver < SendHeadersVersion → ∃ e, (emptyFrom pver SendHeadersVersion).dec b = .error e) ∧
    (pver < AddrV2Version → ∃ e, (emptyFrom pver AddrV2Version).dec b = .error e) := by
  refine ⟨?_, ?_, ?_, ?_, ?_, ?_, ?_⟩
  · intro h; exact gated_dec _ _ (by omega) b
  · intro h; exact gated_dec _ _ (by omega) b
  · intro h; exact gated_dec _ _ (by omega) b
  · intro h
    exact ⟨gated_dec _ _ (by omega) b, gated_dec _ _ (by omega) b, gated_dec _ _ (by omega) b,
      gated_dec _ _ (by omega) b⟩
  · intro h; exact gated_dec _ _ (by omega) b
  · intro h; exact gated_dec _ _ (by omega) b
  · intro h; exact gated_dec _ _ (by omega) b

end BV.C08
