/-
C08 helper lemmas: lawfulness of every message codec (by instance resolution over the combinator
instances of `CodecLemmas`), the BIP144 alternative, framing. Core-only.
-/
import BV.Common.CodecLemmas
import BV.C08.Model
namespace BV.C08
open BV.Codec

instance : Lawful hash32 := bytesN_lawful 32
instance blockHeader_lawful : Lawful blockHeader := by unfold blockHeader; infer_instance
instance : Lawful script := varBytesPooled_lawful _
instance txIn_lawful : Lawful txIn := by unfold txIn; infer_instance
instance txOut_lawful : Lawful txOut := by unfold txOut; infer_instance
instance witness_lawful : Lawful witness := by unfold witness; infer_instance
instance txIns_lawful : Lawful txIns := by unfold txIns; infer_instance
instance txOuts_lawful : Lawful txOuts := by unfold txOuts; infer_instance

instance txBodyBase_lawful : Lawful txBodyBase := by
  unfold txBodyBase
  exact imap_lawful inferInstance (fun a _ => rfl)

instance txBodyWit_lawful : Lawful txBodyWit := by
  unfold txBodyWit
  exact guard_lawful _ _ (imap_lawful inferInstance (fun a _ => rfl))

theorem any_replicate_nil (n : Nat) :
    (List.replicate n ([] : Witness)).any (fun w => !w.isEmpty) = false := by
  induction n with
  | zero => rfl
  | succ n ih => simp [List.replicate_succ, ih]

theorem txBodyBase_wf_noWitness (b : TxBody) (h : txBodyBase.wf b) : hasWitness b = false := by
  obtain ⟨_, e⟩ := h
  have e2 : b.2.2.1 = List.replicate b.1.length [] := by
    have := congrArg (fun x => x.2.2.1) e
    exact this.symm
  unfold hasWitness
  rw [e2]; exact any_replicate_nil _

theorem txBodyBase_enc_head (b : TxBody) (r : Bytes) (h : txBodyBase.wf b) (hne : b.1.isEmpty = false) :
    startsWithZero (txBodyBase.enc b ++ r) = false := by
  have hlen : b.1.length < 2 ^ 64 := by
    have : maxTxInPerMessage < 2 ^ 64 := by decide
    have := ((listOf_wf_iff maxTxInPerMessage 104 txIn b.1 this).mp h.1.1).1
    have h2 : maxTxInPerMessage < 2 ^ 64 := by decide
    omega
  have hpos : b.1.length ≠ 0 := by
    intro c; have := List.eq_nil_of_length_eq_zero c; simp [this] at hne
  have henc : txBodyBase.enc b ++ r = varintEnc b.1.length ++
      (encList txIn b.1 ++ (txOuts.enc b.2.1 ++ u32le.enc b.2.2.2) ++ r) := by
    simp [txBodyBase, imap, seq, seqDep, txIns, listOf, charge, BV.Codec.guard, varint, listN]
  have key := varintEnc_head_zero b.1.length
    (encList txIn b.1 ++ (txOuts.enc b.2.1 ++ u32le.enc b.2.2.2) ++ r) hlen
  unfold startsWithZero
  rw [henc]
  simp only [beq_eq_false_iff_ne, ne_eq]
  intro c
  exact hpos (key.mp c)

instance txBodyWitEnc_lawful : Lawful txBodyWitEnc := by
  unfold txBodyWitEnc
  refine alt_lawful txBodyWit_lawful (guard_lawful _ _ txBodyBase_lawful) ?_ ?_ ?_ ?_
  · intro a h; exact h.2
  · intro a h; exact txBodyBase_wf_noWitness a h.1
  · intro a r _
    simp [txBodyWit, BV.Codec.guard, imap, seq, seqDep, magic, startsWithZero]
  · intro a r h
    have hne : a.1.isEmpty = false := by
      have := h.2; simpa using this
    exact txBodyBase_enc_head a r h.1 hne

instance txBody_lawful (e : TxEnc) : Lawful (txBody e) := by
  cases e
  · exact txBodyBase_lawful
  · exact txBodyWitEnc_lawful

instance tx_lawful (e : TxEnc) : Lawful (tx e) := by unfold tx; infer_instance
instance block_lawful (e : TxEnc) : Lawful (block e) := by unfold block; infer_instance

instance invVect_lawful : Lawful invVect := by unfold invVect; infer_instance
instance invList_lawful : Lawful invList := by unfold invList; infer_instance
instance headerEntry_lawful : Lawful headerEntry := by
  unfold headerEntry
  exact imap_lawful inferInstance (fun a _ => rfl)
instance headers_lawful : Lawful headers := by unfold headers; infer_instance
instance getBlocks_lawful : Lawful getBlocks := by unfold getBlocks; infer_instance
instance netAddrNoTs_lawful : Lawful netAddrNoTs := by unfold netAddrNoTs; infer_instance
instance netAddr_lawful (pver : Nat) : Lawful (netAddr pver) := by unfold netAddr; infer_instance
instance addr_lawful (pver : Nat) : Lawful (addr pver) := by unfold addr; infer_instance
instance netAddrV2_lawful : Lawful netAddrV2 := by unfold netAddrV2; infer_instance
instance addrV2_lawful : Lawful addrV2 := by unfold addrV2; infer_instance
instance userAgent_lawful : Lawful userAgent := by unfold userAgent; infer_instance

instance boolByte_lawful : Lawful boolByte := by
  unfold boolByte
  refine imap_lawful inferInstance ?_
  intro a h
  have h2 : a ≤ 1 := by simpa using h.2
  have : a = 0 ∨ a = 1 := by omega
  rcases this with rfl | rfl <;> rfl

instance version_lawful (pver : Nat) : Lawful (version pver) := by unfold version; infer_instance
instance ping_lawful (pver : Nat) : Lawful (ping pver) := by unfold ping; infer_instance
instance never_lawful {α : Type} (c : Codec α) [Lawful c] : Lawful (never c) := by
  unfold never; infer_instance
instance pong_lawful (pver : Nat) : Lawful (pong pver) := by unfold pong; infer_instance
instance feeFilter_lawful (pver : Nat) : Lawful (feeFilter pver) := by unfold feeFilter; infer_instance
instance varStr_lawful : Lawful varStr := by unfold varStr; infer_instance
instance rejectBody_lawful : Lawful rejectBody := by
  unfold rejectBody
  exact imap_lawful inferInstance (fun a _ => rfl)
instance reject_lawful (pver : Nat) : Lawful (reject pver) := by unfold reject; infer_instance
instance filterLoadBody_lawful : Lawful filterLoadBody := by unfold filterLoadBody; infer_instance
instance filterLoad_lawful (pver : Nat) : Lawful (filterLoad pver) := by unfold filterLoad; infer_instance
instance filterAdd_lawful (pver : Nat) : Lawful (filterAdd pver) := by unfold filterAdd; infer_instance
instance emptyMsg_lawful : Lawful emptyMsg := by unfold emptyMsg; infer_instance
instance emptyFrom_lawful (pver gate : Nat) : Lawful (emptyFrom pver gate) := by
  unfold emptyFrom; infer_instance
instance merkleBlockBody_lawful : Lawful merkleBlockBody := by unfold merkleBlockBody; infer_instance
instance merkleBlock_lawful (pver : Nat) : Lawful (merkleBlock pver) := by unfold merkleBlock; infer_instance
instance cfilter_lawful : Lawful cfilter := by unfold cfilter; infer_instance
instance cfheaders_lawful : Lawful cfheaders := by unfold cfheaders; infer_instance
instance cfcheckpt_lawful : Lawful cfcheckpt := by unfold cfcheckpt; infer_instance
instance getcfilters_lawful : Lawful getcfilters := by unfold getcfilters; infer_instance
instance getcfcheckpt_lawful : Lawful getcfcheckpt := by unfold getcfcheckpt; infer_instance

/-! ### framing -/

instance lenField_lawful : Lawful lenField := by unfold lenField; infer_instance

instance framedPayload_lawful : Lawful framedPayload := by
  unfold framedPayload
  refine imap_lawful inferInstance ?_
  rintro ⟨n, ck, pl⟩ h
  have hlen : pl.length = n := h.1.2.2
  have hck : ck = checksum pl := by simpa using h.2
  simp [hlen, hck]

instance frame_lawful : Lawful frame := by unfold frame; infer_instance

end BV.C08
