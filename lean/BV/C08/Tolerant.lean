/-
C08: the Go decoders that accept more than the canonical layout (`versionDecGo`, `addrV2DecGo`) agree
with the canonical codecs on everything the encoders produce. Core-only.
-/
import BV.C08.Lemmas
namespace BV.C08
open BV.Codec

theorem isEmpty_append_of_pos {a b : Bytes} (h : 0 < a.length) : (a ++ b).isEmpty = false := by
  cases a with
  | nil => simp at h
  | cons x xs => rfl

/-- `MsgVersion.BtcDecode` returns exactly the value `MsgVersion.BtcEncode` was given, at every
protocol version (payload read to its end, as `ReadMessage` does). -/
theorem versionDecGo_enc (pver : Nat) (v : VersionVal) (hw : (version pver).wf v) :
    versionDecGo ((version pver).enc v) = .ok (v, []) := by
  obtain ⟨pv, sv, ts, you, me, nonce, ua, last, relay⟩ := v
  obtain ⟨w1, w2, w3, w4, w5, w6, w7, w8, w9⟩ := hw
  -- the tail after the fixed prefix
  have hrel : ∃ R5 : Bytes, R5 = (if pver ≥ BIP0037Version then boolByte else konst true).enc relay := ⟨_, rfl⟩
  obtain ⟨R5, hR5⟩ := hrel
  have henc : (version pver).enc (pv, sv, ts, you, me, nonce, ua, last, relay) =
      (seq u32le (seq u64le (seq u64le netAddrNoTs))).enc (pv, sv, ts, you) ++
        (netAddrNoTs.enc me ++ (u64le.enc nonce ++ (userAgent.enc ua ++ (u32le.enc last ++ R5)))) := by
    simp only [version, seq, seqDep, List.append_assoc, hR5]
  have hP : Lawful (seq u32le (seq u64le (seq u64le netAddrNoTs))) := inferInstance
  have hPw : (seq u32le (seq u64le (seq u64le netAddrNoTs))).wf (pv, sv, ts, you) := ⟨w1, w2, w3, w4⟩
  have lenMe : 0 < (netAddrNoTs.enc me).length := by
    simp only [netAddrNoTs, seq, seqDep, u64le, uintLE, List.length_append, length_leBytes]
    omega
  have lenNonce : 0 < (u64le.enc nonce).length := by simp [u64le, uintLE]
  have lenUa : 0 < (userAgent.enc ua).length := by
    have := varintEnc_head_zero ua.length [] (by
      have h := w7.1
      have := (varBytes_wf_iff MaxMessagePayload ua (by decide)).mp h
      have : MaxMessagePayload < 2 ^ 64 := by decide
      omega)
    simp only [userAgent, BV.Codec.guard, varBytes, imap, seqDep, charge, varint, List.length_append]
    have hv : 1 ≤ (varintEnc ua.length).length := by
      rw [← varintSize_eq]; unfold varintSize
      split
      · omega
      · split
        · omega
        · split <;> omega
    omega
  have lenLast : 0 < (u32le.enc last).length := by simp [u32le, uintLE]
  unfold versionDecGo
  rw [henc, hP.dec_enc _ _ hPw]
  simp only [isEmpty_append_of_pos lenMe, Bool.false_eq_true, if_false,
    netAddrNoTs_lawful.dec_enc me _ w5,
    isEmpty_append_of_pos lenNonce, (uintLE_lawful 8).dec_enc nonce _ w6, u64le,
    isEmpty_append_of_pos lenUa, userAgent_lawful.dec_enc ua _ w7]
  have h32 := (uintLE_lawful 4).dec_enc last R5 w8
  have lenLast' : 0 < (leBytes 4 last).length := by simp
  have e32 : (uintLE 4).enc last = leBytes 4 last := rfl
  simp only [u32le, e32] at lenLast ⊢
  simp only [isEmpty_append_of_pos lenLast', Bool.false_eq_true, if_false]
  rw [show leBytes 4 last ++ R5 = (uintLE 4).enc last ++ R5 from rfl, h32]
  -- the relay byte
  by_cases hp : pver ≥ BIP0037Version
  · simp only [hp, if_true] at hR5 w9
    have hb : relay = true ∨ relay = false := by cases relay <;> simp
    rcases hb with rfl | rfl
    · have : R5 = [1] := by rw [hR5]; rfl
      subst this; rfl
    · have : R5 = [0] := by rw [hR5]; rfl
      subst this; rfl
  · simp only [hp, if_false] at hR5 w9
    have : R5 = [] := by rw [hR5]; rfl
    subst this
    have : relay = true := w9
    subst this; rfl

/-! ### addrv2 -/

theorem netAddrV2DecGo_enc (x : NetAddrV2) (rest : Bytes) (hw : netAddrV2.wf x) :
    netAddrV2DecGo (netAddrV2.enc x ++ rest) = .ok (some x, rest) := by
  obtain ⟨ts, sv, id, a, port⟩ := x
  obtain ⟨w1, ⟨w2, w3, w4, w5⟩, wk⟩ := hw
  have hlen512 : a.length ≤ maxAddrV2Size := (varBytes_wf_iff maxAddrV2Size a (by decide)).mp w4
  -- the four header fields, then address and port
  have hH : Lawful (seq u32le (seq varint (seq u8 varint))) := inferInstance
  have hHw : (seq u32le (seq varint (seq u8 varint))).wf (ts, sv, id, a.length) :=
    ⟨w1, w2, w3, by show a.length < 2 ^ 64; have : maxAddrV2Size < 2 ^ 64 := by decide
                    omega⟩
  have henc : netAddrV2.enc (ts, sv, id, a, port) ++ rest =
      (seq u32le (seq varint (seq u8 varint))).enc (ts, sv, id, a.length) ++
        ((seq (bytesN a.length) u16be).enc (a, port) ++ rest) := by
    simp only [netAddrV2, seq, seqDep, BV.Codec.guard, varBytes, imap, charge, bytesN, varint,
      List.append_assoc]
  have hA : Lawful (seq (bytesN a.length) u16be) := inferInstance
  have hAw : (seq (bytesN a.length) u16be).wf (a, port) := ⟨rfl, w5⟩
  have hdA := hA.dec_enc (a, port) rest hAw
  unfold netAddrV2DecGo
  rw [henc, hH.dec_enc _ _ hHw]
  -- what `addrV2Kept` says
  simp only [addrV2Kept, Bool.and_eq_true, Bool.or_eq_true, decide_eq_true_eq, Bool.not_eq_true',
    Bool.and_eq_false_iff, decide_eq_false_iff_not, Bool.or_eq_false_iff, not_or] at wk
  obtain ⟨⟨hid, hl⟩, hnot⟩ := wk
  have hid' : id = 1 ∨ id = 2 ∨ id = 3 ∨ id = 4 := by
    rcases hid with ((h | h) | h) | h
    · exact Or.inl h
    · exact Or.inr (Or.inl h)
    · exact Or.inr (Or.inr (Or.inl h))
    · exact Or.inr (Or.inr (Or.inr h))
  rcases hid' with rfl | rfl | rfl | rfl
  · have h4 : a.length = 4 := by simpa [addrV2Len] using hl
    rw [h4] at hdA ⊢
    simp [hdA]
  · have h16 : a.length = 16 := by simpa [addrV2Len] using hl
    rw [h16] at hdA ⊢
    have hn : ¬ (List.take 6 a = onionCatPrefix ∨ List.take 12 a = ipv4MappedPrefix) := by
      rcases hnot with h | h
      · exact absurd rfl h
      · intro hc; rcases hc with hc | hc
        · exact h.1 hc
        · exact h.2 hc
    simp [hdA, hn]
  · have h10 : a.length = 10 := by simpa [addrV2Len] using hl
    rw [h10] at hdA ⊢
    simp [hdA]
  · have h32 : a.length = 32 := by simpa [addrV2Len] using hl
    rw [h32] at hdA ⊢
    simp [hdA]

theorem addrV2ListGo_enc (l : List NetAddrV2) (rest : Bytes) (hw : ∀ x ∈ l, netAddrV2.wf x) :
    addrV2ListGo l.length (encList netAddrV2 l ++ rest) = .ok (l, rest) := by
  induction l with
  | nil => rfl
  | cons x xs ih =>
    have hx := netAddrV2DecGo_enc x (encList netAddrV2 xs ++ rest) (hw x (by simp))
    have := ih (fun y hy => hw y (by simp [hy]))
    simp only [List.length_cons, addrV2ListGo, encList, List.append_assoc, hx, this]

/-- `MsgAddrV2.BtcDecode` returns exactly the list `MsgAddrV2.BtcEncode` was given (kept networks) -/
theorem addrV2DecGo_enc (l : List NetAddrV2) (hw : addrV2.wf l) :
    addrV2DecGo (addrV2.enc l) = .ok (l, []) := by
  have h := (listOf_wf_iff MaxV2AddrPerMsg eszNetAddrV2 netAddrV2 l (by decide)).mp hw
  have henc : addrV2.enc l = varintEnc l.length ++ (encList netAddrV2 l ++ []) := by
    simp [addrV2, listOf, imap, seqDep, charge, BV.Codec.guard, varint, listN]
  have hv := varint_dec_enc l.length (encList netAddrV2 l ++ []) (by
    have : MaxV2AddrPerMsg < 2 ^ 64 := by decide
    omega)
  unfold addrV2DecGo
  rw [henc]
  have hv' : varint.dec (varintEnc l.length ++ (encList netAddrV2 l ++ [])) =
      .ok (l.length, encList netAddrV2 l ++ []) := hv
  rw [hv']
  have : ¬ l.length > MaxV2AddrPerMsg := by omega
  simp only [this, if_false]
  exact addrV2ListGo_enc l [] h.2

end BV.C08
