/-
C08 Spec — protocol constants and the value shapes of the Bitcoin P2P wire format.
Values are nested tuples of `Nat` (unsigned field as written on the wire; Go's int32/int64 fields are
the two's-complement reading of the same bits), `Bytes` (hashes, scripts, strings) and lists.
Core-only.
-/
import BV.Common.Codec
namespace BV.C08
open BV.Codec

/-! ### limits (pinned against the compiled tree by `Generated.C08`) -/
def MaxMessagePayload : Nat := 33554432          -- 32 MiB
def MaxProtocolMessageLength : Nat := 4000000
def MaxVarIntPayload : Nat := 9
def MessageHeaderSize : Nat := 24
def CommandSize : Nat := 12
def MaxBlockPayload : Nat := 4000000
def maxTxInPerMessage : Nat := 818401            -- MaxMessagePayload / 41 + 1
def maxTxOutPerMessage : Nat := 3728271          -- MaxMessagePayload / 9 + 1
def maxTxPerBlock : Nat := 400001                -- MaxBlockPayload / 10 + 1
def maxWitnessItemsPerInput : Nat := 4000000
def maxWitnessItemSize : Nat := 4000000
def scriptSlabSize : Nat := 4194304
def MaxInvPerMsg : Nat := 50000
def MaxBlockHeadersPerMsg : Nat := 2000
def MaxBlockLocatorsPerMsg : Nat := 500
def MaxAddrPerMsg : Nat := 1000
def MaxV2AddrPerMsg : Nat := 1000
def maxAddrV2Size : Nat := 512
def MaxUserAgentLen : Nat := 256
def MaxFilterLoadHashFuncs : Nat := 50
def MaxFilterLoadFilterSize : Nat := 36000
def MaxFilterAddDataSize : Nat := 520
def maxFlagsPerMerkleBlock : Nat := 50000        -- maxTxPerBlock / 8
def MaxCFilterDataSize : Nat := 262144
def MaxCFHeadersPerMsg : Nat := 2000
def maxCFHeadersLen : Nat := 100000

/-- the fixed multiple of the allocation clause: a decode requests at most `allocK * MaxMessagePayload` bytes -/
def allocK : Nat := 12

/-! ### bytes the MODEL charges per element when a decoder calls `make` after accepting a count
(nominal: struct size of the 64-bit build at the time of writing + the 8-byte pointer kept in the message's
slice). These are internal quantities of the implementation, so they are NOT pinned against the tree: the
allocation theorems are statements about the model's charge points, and the tie to real memory is the heap
growth measured on the Go side for every case against the same multiple `allocK`. -/
def eszTxIn : Nat := 104        -- TxIn 96 + pointer
def eszTxOut : Nat := 40        -- TxOut 32 + pointer
def eszWitnessItem : Nat := 24  -- slice header
def eszTx : Nat := 72           -- MsgTx 64 + pointer
def eszInvVect : Nat := 44      -- InvVect 36 + pointer
def eszHeader : Nat := 112      -- BlockHeader 104 + pointer
def eszHash : Nat := 40         -- Hash 32 + pointer
def eszNetAddr : Nat := 104     -- NetAddress 64 + pointer + 16-byte IP backing array (+ slack)
def eszNetAddrV2 : Nat := 104   -- NetAddressV2 56 + pointer + address object (<= 40)

/-! ### protocol version gates -/
def MultipleAddressVersion : Nat := 209
def NetAddressTimeVersion : Nat := 31402
def BIP0031Version : Nat := 60000
def BIP0035Version : Nat := 60002
def BIP0037Version : Nat := 70001
def RejectVersion : Nat := 70002
def BIP0111Version : Nat := 70011
def SendHeadersVersion : Nat := 70012
def FeeFilterVersion : Nat := 70013
def AddrV2Version : Nat := 70016
def ProtocolVersion : Nat := 70016

/-! ### value shapes -/
/-- version, prev block, merkle root, timestamp, bits, nonce -/
abbrev BlockHeader := Nat × Bytes × Bytes × Nat × Nat × Nat
/-- previous outpoint hash, index, signature script, sequence -/
abbrev TxIn := Bytes × Nat × Bytes × Nat
/-- value, pkScript -/
abbrev TxOut := Nat × Bytes
abbrev Witness := List Bytes
/-- inputs, outputs, one witness stack per input, lock time -/
abbrev TxBody := List TxIn × List TxOut × List Witness × Nat
/-- version, body -/
abbrev Tx := Nat × TxBody
abbrev Block := BlockHeader × List Tx
/-- type, hash -/
abbrev InvVect := Nat × Bytes
/-- services, ip (16 bytes), port -/
abbrev NetAddrNoTs := Nat × Bytes × Nat
/-- timestamp (0 when the version has none), services, ip, port -/
abbrev NetAddr := Nat × Nat × Bytes × Nat
/-- timestamp, services, network id, address, port -/
abbrev NetAddrV2 := Nat × Nat × Nat × Bytes × Nat

def hasWitness (b : TxBody) : Bool := b.2.2.1.any (fun w => !w.isEmpty)

def sumLen : List Bytes → Nat
  | [] => 0
  | x :: xs => x.length + sumLen xs

def witLen : List Witness → Nat
  | [] => 0
  | w :: ws => sumLen w + witLen ws

/-- bytes of script data a transaction brings (all land in one `scriptSlabSize` pool while decoding) -/
def totalScript (b : TxBody) : Nat :=
  sumLen (b.1.map (fun i => i.2.2.1)) + sumLen (b.2.1.map (fun o => o.2)) + witLen b.2.2.1

inductive TxEnc | base | witness
  deriving DecidableEq, Repr

/-- the transaction without its witness data (what `SerializeNoWitness` describes) -/
def stripWitness (t : Tx) : Tx := (t.1, t.2.1, t.2.2.1, List.replicate t.2.1.length [], t.2.2.2.2)

/-! ### the explicit domain of a transaction (what `(tx e).wf` unfolds to; `Props.tx_wf_iff`) -/

def TxInOk (i : TxIn) : Prop :=
  i.1.length = 32 ∧ i.2.1 < 2 ^ 32 ∧ i.2.2.1.length ≤ maxWitnessItemSize ∧ i.2.2.2 < 2 ^ 32

def TxOutOk (o : TxOut) : Prop := o.1 < 2 ^ 64 ∧ o.2.length ≤ maxWitnessItemSize

def WitnessOk (w : Witness) : Prop :=
  w.length ≤ maxWitnessItemsPerInput ∧ ∀ x ∈ w, x.length ≤ maxWitnessItemSize

def HeaderOk (h : BlockHeader) : Prop :=
  h.1 < 2 ^ 32 ∧ h.2.1.length = 32 ∧ h.2.2.1.length = 32 ∧ h.2.2.2.1 < 2 ^ 32 ∧ h.2.2.2.2.1 < 2 ^ 32 ∧
  h.2.2.2.2.2 < 2 ^ 32

/-- field ranges, count caps, one witness stack per input, script pool, and the encoding's own
restriction: no witness data under the base encoding; at least one input under the witness encoding
(BIP144 cannot represent a transaction without inputs). -/
def TxDomain (e : TxEnc) (t : Tx) : Prop :=
  t.1 < 2 ^ 32 ∧
  t.2.1.length ≤ maxTxInPerMessage ∧ (∀ i ∈ t.2.1, TxInOk i) ∧
  t.2.2.1.length ≤ maxTxOutPerMessage ∧ (∀ o ∈ t.2.2.1, TxOutOk o) ∧
  t.2.2.2.1.length = t.2.1.length ∧ (∀ w ∈ t.2.2.2.1, WitnessOk w) ∧
  t.2.2.2.2 < 2 ^ 32 ∧
  totalScript t.2 ≤ scriptSlabSize ∧
  (match e with
   | .base => hasWitness t.2 = false
   | .witness => t.2.1 ≠ [])

end BV.C08
