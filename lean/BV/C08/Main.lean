import BV.Common.Loop
import BV.C08.Driver
/-! `drv_c08`: one case per input line `C08 <op> <args…>`, one canonical result line back.
Imports only core-only modules so that it links as a native executable. -/
def main : IO Unit := BV.Loop.run "C08" BV.C08.Driver.handle
