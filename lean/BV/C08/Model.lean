/-
C08 Model — every wire message as a term of the codec algebra, mirroring `BtcEncode`/`BtcDecode`
of /repo/wire (file per message named in the doc-comments). Core-only.
-/
import BV.Common.Sha256
import BV.C08.Spec
namespace BV.C08
open BV.Codec

def hash32 : Codec Bytes := bytesN 32

/-- blockheader.go: readBlockHeaderBuf / writeBlockHeaderBuf -/
def blockHeader : Codec BlockHeader :=
  seq u32le (seq hash32 (seq hash32 (seq u32le (seq u32le u32le))))

/-! ### msgtx.go -/

/-- readScriptBuf: ≤ maxWitnessItemSize, lands in the script pool -/
def script : Codec Bytes := varBytesPooled maxWitnessItemSize

/-- readTxInBuf -/
def txIn : Codec TxIn := seq hash32 (seq u32le (seq script u32le))

/-- readTxOutBuf -/
def txOut : Codec TxOut := seq u64le script

/-- one witness stack: count ≤ maxWitnessItemsPerInput, `make([][]byte, count)` -/
def witness : Codec Witness := listOf maxWitnessItemsPerInput eszWitnessItem script

def txIns : Codec (List TxIn) := listOf maxTxInPerMessage eszTxIn txIn
def txOuts : Codec (List TxOut) := listOf maxTxOutPerMessage eszTxOut txOut

/-- inputs, outputs, lock time; no witness data (every stack empty) -/
def txBodyBase : Codec TxBody :=
  imap (seq txIns (seq txOuts u32le))
    (fun p => (p.1, p.2.1, List.replicate p.1.length [], p.2.2))
    (fun b => (b.1, b.2.1, b.2.2.2))

/-- BIP144 layout after the version: `00 01`, inputs, outputs, one stack per input, lock time;
`errSuperfluousWitnessRecord` when every stack is empty. -/
def txBodyWit : Codec TxBody :=
  guard
    (imap (seq (magic [0x00, 0x01])
            (seqDep txIns (fun ins => seq txOuts (seq (listN ins.length witness) u32le))))
      (fun p => p.2) (fun b => ((), b)))
    hasWitness

def startsWithZero (b : Bytes) : Bool := b.head? == some 0

/-- body under `WitnessEncoding`: the byte after the version decides (a zero input count is read as
the BIP144 marker), hence a body without witness data must have at least one input. -/
def txBodyWitEnc : Codec TxBody :=
  alt hasWitness startsWithZero txBodyWit (guard txBodyBase (fun b => !b.1.isEmpty))

def txBody : TxEnc → Codec TxBody
  | .base => txBodyBase
  | .witness => txBodyWitEnc

/-- MsgTx.BtcDecode / BtcEncode; all scripts of one transaction share the 4 MiB script pool -/
def tx (e : TxEnc) : Codec Tx :=
  charge (guard (seq u32le (txBody e)) (fun t => totalScript t.2 ≤ scriptSlabSize) .tooBig)
    (fun t => totalScript t.2)

/-- msgblock.go -/
def block (e : TxEnc) : Codec Block := seq blockHeader (listOf maxTxPerBlock eszTx (tx e))

/-- `TxHash`: double SHA-256 of the serialization without witness data -/
def txid (t : Tx) : Bytes :=
  BV.Sha256.hash2List (u32le.enc t.1 ++ txBodyBase.enc t.2)

/-- `WitnessHash`: double SHA-256 of the full serialization (equals `txid` without witness data) -/
def wtxid (t : Tx) : Bytes :=
  BV.Sha256.hash2List ((tx .witness).enc t)

/-- `BlockHash`: double SHA-256 of the 80-byte header -/
def blockHash (h : BlockHeader) : Bytes := BV.Sha256.hash2List (blockHeader.enc h)

/-! ### inventory, headers, locators -/

def invVect : Codec InvVect := seq u32le hash32
/-- msginv.go / msggetdata.go / msgnotfound.go -/
def invList : Codec (List InvVect) := listOf MaxInvPerMsg eszInvVect invVect

/-- msgheaders.go: each header is followed by a transaction count that must be zero -/
def headerEntry : Codec BlockHeader :=
  imap (seq blockHeader (magic [0x00])) (fun p => p.1) (fun h => (h, ()))
def headers : Codec (List BlockHeader) := listOf MaxBlockHeadersPerMsg eszHeader headerEntry

/-- msggetblocks.go / msggetheaders.go: protocol version, locator hashes, stop hash -/
def getBlocks : Codec (Nat × List Bytes × Bytes) :=
  seq u32le (seq (listOf MaxBlockLocatorsPerMsg eszHash hash32) hash32)

/-! ### addresses -/

/-- netaddress.go without timestamp (version message) -/
def netAddrNoTs : Codec NetAddrNoTs := seq u64le (seq (bytesN 16) u16be)

/-- netaddress.go with the timestamp gate -/
def netAddr (pver : Nat) : Codec NetAddr :=
  seq (if pver ≥ NetAddressTimeVersion then u32le else konst 0) netAddrNoTs

/-- msgaddr.go; one address at most before MultipleAddressVersion (encoder and, since the fix, decoder) -/
def addr (pver : Nat) : Codec (List NetAddr) :=
  listOf (if pver < MultipleAddressVersion then 1 else MaxAddrPerMsg) eszNetAddr (netAddr pver)

/-- address length demanded for a network id that btcd keeps (ipv4, ipv6, torv2, torv3) -/
def addrV2Len (id : Nat) : Nat :=
  if id = 1 then 4 else if id = 2 then 16 else if id = 3 then 10 else 32

def onionCatPrefix : Bytes := [0xfd, 0x87, 0xd8, 0x7e, 0xeb, 0x43]
def ipv4MappedPrefix : Bytes := [0, 0, 0, 0, 0, 0, 0, 0, 0, 0, 0xff, 0xff]

/-- entries that `readNetAddressV2` returns (everything else is skipped or an error) -/
def addrV2Kept (a : Nat × Nat × Bytes × Nat) : Bool :=
  let id := a.2.1
  (id = 1 || id = 2 || id = 3 || id = 4) && a.2.2.1.length = addrV2Len id &&
  !(id = 2 && (a.2.2.1.take 6 = onionCatPrefix || a.2.2.1.take 12 = ipv4MappedPrefix))

/-- netaddressv2.go, the canonical part: time, services (varint), network id 1..4, address of the
id's length, port (big endian) -/
def netAddrV2 : Codec NetAddrV2 :=
  seq u32le (guard (seq varint (seq u8 (seq (varBytes maxAddrV2Size) u16be))) addrV2Kept)

/-- msgaddrv2.go restricted to kept entries -/
def addrV2 : Codec (List NetAddrV2) := listOf MaxV2AddrPerMsg eszNetAddrV2 netAddrV2

/-! ### version -/

def userAgent : Codec Bytes := guard (varBytes MaxMessagePayload) (fun s => s.length ≤ MaxUserAgentLen) .tooBig

/-- a boolean written as one byte 0/1 -/
def boolByte : Codec Bool :=
  imap (guard u8 (fun n => n ≤ 1)) (fun n => n != 0) (fun b => if b then 1 else 0)

/-- msgversion.go, the full (canonical) form: protocol version, services, timestamp, addrYou, addrMe,
nonce, user agent, last block, relay flag (only from BIP0037Version on; `true` = relay, i.e.
`!DisableRelayTx`). -/
def version (pver : Nat) : Codec (Nat × Nat × Nat × NetAddrNoTs × NetAddrNoTs × Nat × Bytes × Nat × Bool) :=
  seq u32le (seq u64le (seq u64le (seq netAddrNoTs (seq netAddrNoTs (seq u64le (seq userAgent
    (seq u32le (if pver ≥ BIP0037Version then boolByte else konst true))))))))

/-! ### small messages -/

/-- msgping.go -/
def ping (pver : Nat) : Codec Nat := if pver > BIP0031Version then u64le else konst 0

/-- a codec that rejects everything (message invalid at this protocol version) -/
def never {α : Type} (c : Codec α) : Codec α := guard c (fun _ => false)

/-- msgpong.go -/
def pong (pver : Nat) : Codec Nat := if pver > BIP0031Version then u64le else never u64le

/-- msgfeefilter.go -/
def feeFilter (pver : Nat) : Codec Nat := if pver ≥ FeeFilterVersion then u64le else never u64le

def varStr : Codec Bytes := varBytes MaxMessagePayload

def cmdBlock : Bytes := [0x62, 0x6c, 0x6f, 0x63, 0x6b]
def cmdTx : Bytes := [0x74, 0x78]

/-- msgreject.go: command, code, reason, and the hash only for block/tx rejections -/
def rejectBody : Codec (Bytes × Nat × Bytes × Bytes) :=
  imap (seqDep varStr (fun cmd => seq u8 (seq varStr
      (if cmd = cmdBlock ∨ cmd = cmdTx then hash32 else konst []))))
    id id
def reject (pver : Nat) : Codec (Bytes × Nat × Bytes × Bytes) :=
  if pver ≥ RejectVersion then rejectBody else never rejectBody

/-- msgfilterload.go: filter, hash funcs (≤ 50), tweak, flags -/
def filterLoadBody : Codec (Bytes × Nat × Nat × Nat) :=
  guard (seq (varBytes MaxFilterLoadFilterSize) (seq u32le (seq u32le u8)))
    (fun m => m.2.1 ≤ MaxFilterLoadHashFuncs) .tooBig
def filterLoad (pver : Nat) := if pver ≥ BIP0037Version then filterLoadBody else never filterLoadBody

/-- msgfilteradd.go -/
def filterAdd (pver : Nat) : Codec Bytes :=
  if pver ≥ BIP0037Version then varBytes MaxFilterAddDataSize else never (varBytes MaxFilterAddDataSize)

/-- empty payload (verack, getaddr, mempool, filterclear, sendheaders, sendaddrv2, wtxidrelay) -/
def emptyMsg : Codec Unit := konst ()

/-- msgfilterclear.go / msgmempool.go: invalid below the version gate -/
def emptyFrom (pver gate : Nat) : Codec Unit := if pver ≥ gate then emptyMsg else never emptyMsg

/-- msgmerkleblock.go: header, transaction count, hashes, flag bytes -/
def merkleBlockBody : Codec (BlockHeader × Nat × List Bytes × Bytes) :=
  seq blockHeader (seq u32le (seq (listOf maxTxPerBlock eszHash hash32) (varBytes maxFlagsPerMerkleBlock)))
def merkleBlock (pver : Nat) := if pver ≥ BIP0037Version then merkleBlockBody else never merkleBlockBody

/-- msgcfilter.go: filter type, block hash, data -/
def cfilter : Codec (Nat × Bytes × Bytes) := seq u8 (seq hash32 (varBytes MaxCFilterDataSize))
/-- msgcfheaders.go: filter type, stop hash, previous filter header, filter hashes -/
def cfheaders : Codec (Nat × Bytes × Bytes × List Bytes) :=
  seq u8 (seq hash32 (seq hash32 (listOf MaxCFHeadersPerMsg eszHash hash32)))
/-- msgcfcheckpt.go: filter type, stop hash, filter headers -/
def cfcheckpt : Codec (Nat × Bytes × List Bytes) := seq u8 (seq hash32 (listOf maxCFHeadersLen eszHash hash32))
/-- msggetcfilters.go / msggetcfheaders.go: filter type, start height, stop hash -/
def getcfilters : Codec (Nat × Nat × Bytes) := seq u8 (seq u32le hash32)
/-- msggetcfcheckpt.go: filter type, stop hash -/
def getcfcheckpt : Codec (Nat × Bytes) := seq u8 hash32

/-! ### message framing (message.go) -/

/-- first four bytes of the double SHA-256 (the zero padding never shows: the hash has 32 bytes; it
makes the length 4 hold by construction, whatever the hash function) -/
def checksum (payload : Bytes) : Bytes := (BV.Sha256.hash2List payload ++ [0, 0, 0, 0]).take 4

/-- the length field of the message header, accepted up to `MaxProtocolMessageLength` -/
def lenField : Codec Nat := guard u32le (fun n => n ≤ MaxProtocolMessageLength) .tooBig

/-- length (≤ MaxProtocolMessageLength), checksum, payload; the checksum must match. The payload
buffer (`make([]byte, hdr.length)`) is charged as soon as the length is accepted. -/
def framedPayload : Codec Bytes :=
  imap (guard (seqDep (charge lenField (fun n => n)) (fun n => seq (bytesN 4) (bytesN n)))
          (fun p => p.2.1 = checksum p.2.2))
    (fun p => p.2.2) (fun pl => (pl.length, checksum pl, pl))

/-- the 24-byte header + payload: network magic, 12-byte command field, payload -/
def frame : Codec (Nat × Bytes × Bytes) := seq u32le (seq (bytesN 12) framedPayload)

/-- command string zero-padded to 12 bytes -/
def padCommand (cmd : Bytes) : Bytes := cmd ++ List.replicate (CommandSize - cmd.length) 0

/-- `WriteMessageWithEncodingN` for a message with payload codec `c` -/
def writeMessage {α : Type} (c : Codec α) (net : Nat) (cmd : Bytes) (a : α) : Bytes :=
  frame.enc (net, padCommand cmd, c.enc a)

/-- `ReadMessageWithEncodingN` once the command has selected the payload codec `c` and its
`MaxPayloadLength`: magic, command, per-message limit, checksum, full consumption. -/
def readMessage {α : Type} (c : Codec α) (maxPayload net : Nat) (cmd : Bytes) (b : Bytes) :
    Except DErr (α × Bytes) :=
  match frame.dec b with
  | .error e => .error e
  | .ok ((n, cm, payload), r) =>
    if n ≠ net then .error .badValue
    else if cm ≠ padCommand cmd then .error .badValue
    else if payload.length > maxPayload then .error .tooBig
    else match decodeAll c payload with
      | .error e => .error e
      | .ok a => .ok (a, r)

/-- bytes requested while reading one message: the payload buffer, then whatever the payload decoder asks for -/
def readMessageAlloc {α : Type} (c : Codec α) (b : Bytes) : Nat :=
  frame.alloc b + match frame.dec b with
    | .ok ((_, _, pl), _) => c.alloc pl
    | .error _ => 0

/-! ### command table (message.go: makeEmptyMessage, MaxPayloadLength of every message) -/

def commands : List String :=
  ["version", "verack", "getaddr", "addr", "addrv2", "getblocks", "inv", "getdata", "notfound", "block",
   "tx", "getheaders", "headers", "ping", "pong", "mempool", "filteradd", "filterclear", "filterload",
   "merkleblock", "reject", "sendheaders", "feefilter", "getcfilters", "getcfheaders", "getcfcheckpt",
   "cfilter", "cfheaders", "cfcheckpt", "sendaddrv2", "wtxidrelay"]

def maxNetAddressPayload (pver : Nat) : Nat := if pver ≥ NetAddressTimeVersion then 30 else 26

/-- `MaxPayloadLength(pver)` of the message with this command -/
def maxPayload (cmd : String) (pver : Nat) : Nat :=
  if cmd = "version" then 33 + maxNetAddressPayload pver * 2 + MaxVarIntPayload + MaxUserAgentLen
  else if cmd = "addr" then
    (if pver < MultipleAddressVersion then MaxVarIntPayload + maxNetAddressPayload pver
     else MaxVarIntPayload + MaxAddrPerMsg * maxNetAddressPayload pver)
  else if cmd = "addrv2" then 3 + MaxV2AddrPerMsg * 531
  else if cmd = "getblocks" ∨ cmd = "getheaders" then 4 + MaxVarIntPayload + MaxBlockLocatorsPerMsg * 32 + 32
  else if cmd = "inv" ∨ cmd = "getdata" ∨ cmd = "notfound" then MaxVarIntPayload + MaxInvPerMsg * 36
  else if cmd = "block" ∨ cmd = "tx" ∨ cmd = "merkleblock" then MaxBlockPayload
  else if cmd = "headers" then MaxVarIntPayload + 81 * MaxBlockHeadersPerMsg
  else if cmd = "ping" ∨ cmd = "pong" then (if pver > BIP0031Version then 8 else 0)
  else if cmd = "filteradd" then 3 + MaxFilterAddDataSize
  else if cmd = "filterload" then 3 + MaxFilterLoadFilterSize + 9
  else if cmd = "reject" then (if pver ≥ RejectVersion then MaxProtocolMessageLength else 0)
  else if cmd = "feefilter" then 8
  else if cmd = "getcfilters" ∨ cmd = "getcfheaders" then 37
  else if cmd = "getcfcheckpt" then 33
  else if cmd = "cfilter" then 5 + MaxCFilterDataSize + 32 + 1
  else if cmd = "cfheaders" then 1 + 32 + 32 + MaxVarIntPayload + 32 * MaxCFHeadersPerMsg
  else if cmd = "cfcheckpt" then 1 + 32 + 5 + maxCFHeadersLen * 32
  else 0

/-! ### v2 transport framing (message.go: WriteV2MessageN / ReadV2MessageN, BIP324 short message ids) -/

/-- `v2Messages`: short id of a command, if it has one -/
def v2Table : List (Nat × String) :=
  [(1, "addr"), (2, "block"), (5, "feefilter"), (6, "filteradd"), (7, "filterclear"), (8, "filterload"),
   (9, "getblocks"), (11, "getdata"), (12, "getheaders"), (13, "headers"), (14, "inv"), (15, "mempool"),
   (16, "merkleblock"), (17, "notfound"), (18, "ping"), (19, "pong"), (21, "tx"), (22, "getcfilters"),
   (23, "cfilter"), (24, "getcfheaders"), (25, "cfheaders"), (26, "getcfcheckpt"), (27, "cfcheckpt"),
   (28, "addrv2")]

def v2IdOf (cmd : String) : Option Nat := (v2Table.find? (fun p => p.2 == cmd)).map (·.1)
def v2CmdOf (id : Nat) : Option String := (v2Table.find? (fun p => p.1 == id)).map (·.2)

/-- the v2 message-type prefix: one byte short id, or `00` + the 12-byte command field -/
def v2Prefix (cmd : Bytes) (id : Option Nat) : Bytes :=
  match id with
  | some i => [UInt8.ofNat i]
  | none => 0 :: padCommand cmd

/-- `WriteV2MessageN` for a message with payload codec `c` -/
def writeV2 {α : Type} (c : Codec α) (cmd : Bytes) (id : Option Nat) (a : α) : Bytes :=
  v2Prefix cmd id ++ c.enc a

/-- `ReadV2MessageN` once the prefix has selected the payload codec and its `MaxPayloadLength`; `pre` is the
prefix that was read (short id or long form). The whole plaintext is one message: trailing bytes are an error. -/
def readV2 {α : Type} (c : Codec α) (maxPayload : Nat) (pre : Bytes) (b : Bytes) : Except DErr α :=
  if b.take pre.length ≠ pre then .error .badValue else
  let payload := b.drop pre.length
  if payload.length > MaxProtocolMessageLength then .error .tooBig
  else if payload.length > maxPayload then .error .tooBig
  else decodeAll c payload

/-! ### the two tolerant decoders of the Go code (accept more than the canonical layout)

`MsgVersion.BtcDecode` stops quietly when the buffer ends after `AddrYou` (later fields keep their
zero value), reads the relay byte whenever one is left, whatever the protocol version, and takes any
non-zero byte as `true`. `MsgAddrV2.BtcDecode` drops entries of networks it does not keep. Both are
modelled here as they are; `Props` relates them to the canonical codecs above. -/

abbrev VersionVal := Nat × Nat × Nat × NetAddrNoTs × NetAddrNoTs × Nat × Bytes × Nat × Bool

def zeroNetAddr : NetAddrNoTs := (0, List.replicate 16 0, 0)

def versionDecGo (b : Bytes) : Except DErr (VersionVal × Bytes) :=
  match (seq u32le (seq u64le (seq u64le netAddrNoTs))).dec b with
  | .error e => .error e
  | .ok ((pv, sv, ts, you), r1) =>
    if r1.isEmpty then .ok ((pv, sv, ts, you, zeroNetAddr, 0, [], 0, true), r1) else
    match netAddrNoTs.dec r1 with
    | .error e => .error e
    | .ok (me, r2) =>
      if r2.isEmpty then .ok ((pv, sv, ts, you, me, 0, [], 0, true), r2) else
      match u64le.dec r2 with
      | .error e => .error e
      | .ok (nonce, r3) =>
        if r3.isEmpty then .ok ((pv, sv, ts, you, me, nonce, [], 0, true), r3) else
        match userAgent.dec r3 with
        | .error e => .error e
        | .ok (ua, r4) =>
          if r4.isEmpty then .ok ((pv, sv, ts, you, me, nonce, ua, 0, true), r4) else
          match u32le.dec r4 with
          | .error e => .error e
          | .ok (last, r5) =>
            match r5 with
            | [] => .ok ((pv, sv, ts, you, me, nonce, ua, last, true), [])
            | x :: r6 => .ok ((pv, sv, ts, you, me, nonce, ua, last, x != 0), r6)

/-- `readNetAddressV2`: `none` = `ErrSkippedNetworkID` -/
def netAddrV2DecGo (b : Bytes) : Except DErr (Option NetAddrV2 × Bytes) :=
  match (seq u32le (seq varint (seq u8 varint))).dec b with
  | .error e => .error e
  | .ok ((ts, sv, id, sz), r) =>
    if id < 1 ∨ id > 6 then
      if sz > maxAddrV2Size then .error .badValue else
      match (bytesN (sz + 2)).dec r with
      | .error e => .error e
      | .ok (_, r') => .ok (none, r')
    else
      let want := if id = 1 then 4 else if id = 2 then 16 else if id = 3 then 10
        else if id = 4 then 32 else if id = 5 then 32 else 16
      if sz ≠ want then .error .badValue else
      match (seq (bytesN want) u16be).dec r with
      | .error e => .error e
      | .ok ((a, port), r') =>
        if id = 5 ∨ id = 6 then .ok (none, r')
        else if id = 2 ∧ (a.take 6 = onionCatPrefix ∨ a.take 12 = ipv4MappedPrefix) then .ok (none, r')
        else .ok (some (ts, sv, id, a, port), r')

def addrV2ListGo : Nat → Bytes → Except DErr (List NetAddrV2 × Bytes)
  | 0, b => .ok ([], b)
  | n+1, b => match netAddrV2DecGo b with
    | .error e => .error e
    | .ok (x, r) => match addrV2ListGo n r with
      | .error e => .error e
      | .ok (xs, r') => .ok ((match x with | none => xs | some v => v :: xs), r')

/-- `MsgAddrV2.BtcDecode` -/
def addrV2DecGo (b : Bytes) : Except DErr (List NetAddrV2 × Bytes) :=
  match varint.dec b with
  | .error e => .error e
  | .ok (n, r) => if n > MaxV2AddrPerMsg then .error .tooBig else addrV2ListGo n r

end BV.C08
