/- C09 helper lemmas, part 7: `ProcessBlockHeader` over arbitrary header sequences. -/
import BV.C09.Lemmas4
import BV.C09.Lemmas6
namespace BV.C09.Lemmas
open BV.C09 BV.C09.Spec

def ValidTargets (p : Params) (l : List Hdr) : Prop :=
  ∀ h ∈ l, 0 < compactToBig h.bits ∧ compactToBig h.bits ≤ p.powLimit

theorem l7_verdict_ok (p : Params) (chain : List Hdr) (h : Hdr) (hok : headerVerdict p chain h = .ok) :
    (0 < compactToBig h.bits ∧ compactToBig h.bits ≤ p.powLimit) ∧
      checkBlockHeaderContext p chain h false = .ok := by
  unfold headerVerdict at hok
  by_cases hr : compactToBig h.bits ≤ 0 ∨ compactToBig h.bits > p.powLimit
  · rw [if_pos hr] at hok; cases hok
  · rw [if_neg hr] at hok
    refine ⟨by omega, ?_⟩
    cases hc : checkBlockHeaderContext p chain h false <;> rw [hc] at hok <;> first | rfl | cases hok

theorem l7_verdict_ok_iff (p : Params) (chain : List Hdr) (h : Hdr) :
    headerVerdict p chain h = .ok ↔
      (0 < compactToBig h.bits ∧ compactToBig h.bits ≤ p.powLimit) ∧
        checkBlockHeaderContext p chain h false = .ok := by
  constructor
  · exact l7_verdict_ok p chain h
  · intro ⟨hr, hc⟩
    unfold headerVerdict
    rw [if_neg (by omega), hc]

theorem l7_ctx_ok_nonempty (p : Params) (chain : List Hdr) (h : Hdr)
    (hok : checkBlockHeaderContext p chain h false = .ok) :
    chain ≠ [] ∧ h.time > calcPastMedianTime chain := by
  cases chain with
  | nil => simp [checkBlockHeaderContext] at hok
  | cons prev rest =>
    exact ⟨by simp, ((l5_ctx_ok_iff p prev rest h).mp hok).2.1⟩

/-- the chain after processing is the old chain extended (tip-first) by exactly the accepted headers; these
    have valid targets, and the time-stamp rule is preserved -/
theorem l7_process_ext (p : Params) (hs : List Hdr) : ∀ chain : List Hdr,
    ∃ ext, (processHeaders p chain hs).1 = ext ++ chain ∧ ValidTargets p ext ∧
      (TimesValid chain → TimesValid (ext ++ chain)) ∧
      ext.length = ((processHeaders p chain hs).2.filter (· = .ok)).length ∧
      (processHeaders p chain hs).2.length = hs.length := by
  induction hs with
  | nil =>
    intro chain
    refine ⟨[], by simp [processHeaders], ?_, by simp, by simp [processHeaders],
      by simp [processHeaders]⟩
    intro h hh; cases hh
  | cons h hs ih =>
    intro chain
    by_cases hok : headerVerdict p chain h = .ok
    · obtain ⟨ext, he, hv, ht, hl, hn⟩ := ih (h :: chain)
      have hvo := l7_verdict_ok p chain h hok
      have hne := l7_ctx_ok_nonempty p chain h hvo.2
      refine ⟨ext ++ [h], ?_, ?_, ?_, ?_, ?_⟩
      · simp only [processHeaders, hok, if_true]
        rw [he]; simp
      · intro x hx
        rcases List.mem_append.mp hx with hx | hx
        · exact hv x hx
        · simp at hx; subst hx; exact hvo.1
      · intro htc
        have : TimesValid (h :: chain) := ⟨fun _ => hne.2, htc⟩
        have := ht this
        simpa using this
      · simp only [processHeaders, hok, if_true, List.length_append, List.length_cons, List.length_nil]
        rw [hl]; simp [List.filter_cons]
      · simp only [processHeaders, hok, if_true, List.length_cons]; rw [hn]
    · obtain ⟨ext, he, hv, ht, hl, hn⟩ := ih chain
      refine ⟨ext, ?_, hv, ht, ?_, ?_⟩
      · simp only [processHeaders, hok, if_false]; exact he
      · simp only [processHeaders, hok, if_false]
        rw [hl]; simp [List.filter_cons, hok]
      · simp only [processHeaders, hok, if_false, List.length_cons]; rw [hn]

theorem l7_work (p : Params) (chain hs : List Hdr) (hlim : p.powLimit < 2 ^ 256) :
    workSum chain + ((processHeaders p chain hs).2.filter (· = .ok)).length ≤
      workSum (processHeaders p chain hs).1 := by
  obtain ⟨ext, he, hv, _, hl, _⟩ := l7_process_ext p hs chain
  rw [he, workSum_append, ← hl]
  have := workSum_ge_length ext (fun h hh => ⟨(hv h hh).1, by have := (hv h hh).2; omega⟩)
  omega

theorem l7_mtp (p : Params) (chain hs : List Hdr) (hne : chain ≠ []) (hv : TimesValid chain) :
    calcPastMedianTime chain ≤ calcPastMedianTime (processHeaders p chain hs).1 ∧
      TimesValid (processHeaders p chain hs).1 := by
  obtain ⟨ext, he, _, ht, _, _⟩ := l7_process_ext p hs chain
  rw [he]
  exact ⟨l6_mtp_monotone_chain ext chain hne (ht hv), ht hv⟩

end BV.C09.Lemmas
