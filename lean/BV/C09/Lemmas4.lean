/- C09 helper lemmas, part 4: work monotonicity, work sums, Core's 256-bit retarget, exact subsidy total. -/
import BV.C09.Lemmas2
namespace BV.C09.Lemmas
open BV.C09 BV.C09.Spec

/-! ### (C) work -/

theorem calcWork_antitone (b1 b2 : Nat) (h1 : 0 < compactToBig b1)
    (h12 : compactToBig b1 ≤ compactToBig b2) : calcWork b2 ≤ calcWork b1 := by
  unfold calcWork
  simp only [show ¬ compactToBig b1 ≤ 0 by omega, show ¬ compactToBig b2 ≤ 0 by omega, if_false]
  apply Nat.div_le_div_left
  · omega
  · omega

theorem workSum_append (ext chain : List Hdr) :
    workSum (ext ++ chain) = workSum ext + workSum chain := by
  induction ext with
  | nil => simp [workSum]
  | cons h rest ih =>
    simp only [List.cons_append, workSum, ih]
    omega

theorem workSum_eq_sum (chain : List Hdr) :
    workSum chain = (chain.map (fun h => calcWork h.bits)).sum := by
  induction chain with
  | nil => simp [workSum]
  | cons h rest ih =>
    simp only [workSum, List.map_cons, List.sum_cons, ih]
    omega

theorem l4_workSum_pos (ext : List Hdr) (hne : ext ≠ [])
    (hv : ∀ h ∈ ext, 0 < compactToBig h.bits ∧ compactToBig h.bits < 2^256) :
    0 < workSum ext := by
  cases ext with
  | nil => exact absurd rfl hne
  | cons h rest =>
    have hh := hv h List.mem_cons_self
    have := calcWork_pos h.bits hh.1 hh.2
    simp only [workSum]
    omega

theorem workSum_strict_mono_chain (ext chain : List Hdr) (hne : ext ≠ [])
    (hv : ∀ h ∈ ext, 0 < compactToBig h.bits ∧ compactToBig h.bits < 2^256) :
    workSum chain < workSum (ext ++ chain) := by
  rw [workSum_append]
  have := l4_workSum_pos ext hne hv
  omega

theorem workSum_ge_length (chain : List Hdr)
    (hv : ∀ h ∈ chain, 0 < compactToBig h.bits ∧ compactToBig h.bits < 2^256) :
    chain.length ≤ workSum chain := by
  induction chain with
  | nil => simp [workSum]
  | cons h rest ih =>
    have hh := hv h List.mem_cons_self
    have hp := calcWork_pos h.bits hh.1 hh.2
    have := ih (fun x hx => hv x (List.mem_cons_of_mem _ hx))
    simp only [workSum, List.length_cons]
    omega

/-! ### (D) retarget vs Core's 256-bit arithmetic -/

theorem l4_clamp_bounds (x lo hi : Int) (h : lo ≤ hi) : lo ≤ clamp x lo hi ∧ clamp x lo hi ≤ hi := by
  unfold clamp
  split
  · omega
  · split <;> omega

theorem retargetCore_eq (old actual tMin tMax T lim : Int) (h0 : 0 ≤ old) (hol : old ≤ lim)
    (hmin : 0 ≤ tMin) (hmm : tMin ≤ tMax) (hw : lim * tMax < 2^256) :
    retargetCore old actual tMin tMax T lim = retarget old actual tMin tMax T lim := by
  unfold retargetCore retarget
  have hc := l4_clamp_bounds actual tMin tMax hmm
  have hcn : 0 ≤ clamp actual tMin tMax := by omega
  have hp0 : 0 ≤ old * clamp actual tMin tMax := Int.mul_nonneg h0 hcn
  have hp1 : old * clamp actual tMin tMax ≤ lim * tMax :=
    Int.mul_le_mul hol hc.2 hcn (by omega)
  have hmod : (old * clamp actual tMin tMax) % 2^256 = old * clamp actual tMin tMax :=
    Int.emod_eq_of_lt hp0 (by omega)
  simp only [hmod]

theorem retargetCore_wraps :
    retargetCore (2^255 - 1) 4838400 302400 4838400 1209600 (2^255 - 1) ≠
      retarget (2^255 - 1) 4838400 302400 4838400 1209600 (2^255 - 1) := by
  decide

/-! ### (G) subsidy -/

theorem halvingSum_33 : halvingSum 33 = 9999999989 := by decide

theorem l4_halvingSum_33_total : 210000 * halvingSum 33 = MAINNET_TOTAL := by
  rw [halvingSum_33]; decide

theorem l4_base_div_zero (q : Nat) (h : 33 ≤ q) : BASE_SUBSIDY / 2^q = 0 := by
  apply Nat.div_eq_of_lt
  calc BASE_SUBSIDY < 2 ^ 33 := by decide
    _ ≤ 2 ^ q := Nat.pow_le_pow_right (by decide) h

theorem halvingSum_stable (q : Nat) (h : 33 ≤ q) : halvingSum q = halvingSum 33 := by
  obtain ⟨k, rfl⟩ := Nat.exists_eq_add_of_le h
  induction k with
  | zero => rfl
  | succ k ih =>
    have e : 33 + (k + 1) = (33 + k) + 1 := by omega
    rw [e, halvingSum, ih (by omega), l4_base_div_zero (33 + k) (by omega)]
    omega

theorem total_subsidy_exact (N : Nat) (h : 33 * 210000 ≤ N) :
    totalSubsidy 210000 N = MAINNET_TOTAL := by
  have hN : N = 210000 * (N / 210000) + N % 210000 := (Nat.div_add_mod N 210000).symm
  have hq : 33 ≤ N / 210000 := by omega
  rw [hN, total_eq 210000 (by decide) _ _ (Nat.mod_lt _ (by decide)),
    halvingSum_stable _ hq, l4_base_div_zero _ hq, l4_halvingSum_33_total]
  omega

theorem totalSubsidy_mono (I N M : Nat) (h : N ≤ M) : totalSubsidy I N ≤ totalSubsidy I M := by
  obtain ⟨k, rfl⟩ := Nat.exists_eq_add_of_le h
  induction k with
  | zero => exact Nat.le_refl _
  | succ k ih =>
    have e : N + (k + 1) = (N + k) + 1 := by omega
    rw [e, totalSubsidy]
    have := ih (by omega)
    omega

theorem total_subsidy_le_exact (N : Nat) : totalSubsidy 210000 N ≤ MAINNET_TOTAL := by
  by_cases h : 33 * 210000 ≤ N
  · rw [total_subsidy_exact N h]; exact Nat.le_refl _
  · have := totalSubsidy_mono 210000 N (33 * 210000) (by omega)
    rw [total_subsidy_exact (33 * 210000) (Nat.le_refl _)] at this
    exact this

theorem l4_halvingSum_32 : halvingSum 32 = 9999999988 := by decide

theorem total_subsidy_lt_before (N : Nat) (h : N < 33 * 210000) :
    totalSubsidy 210000 N < MAINNET_TOTAL := by
  have hm := totalSubsidy_mono 210000 N (210000 * 32 + 209999) (by omega)
  have he := total_eq 210000 (by decide) 32 209999 (by decide)
  rw [l4_halvingSum_32] at he
  have hb : BASE_SUBSIDY / 2^32 = 1 := by decide
  rw [hb] at he
  have ht : MAINNET_TOTAL = 2099999997690000 := rfl
  omega

end BV.C09.Lemmas
