/- C09 helper lemmas, part 3: median-time-past monotonicity, compact normal forms. -/
import BV.C09.Lemmas2
namespace BV.C09.Lemmas
open BV.C09 BV.C09.Spec

/-! ### (B) median time past is monotone -/

theorem l3_filter_partition (p : Int → Bool) (l : List Int) :
    (l.filter p).length + (l.filter (fun x => !p x)).length = l.length := by
  induction l with
  | nil => rfl
  | cons x xs ih =>
    simp only [List.filter_cons]
    cases p x <;> simp <;> omega

theorem l3_filter_mono (p q : Int → Bool) (l : List Int) (h : ∀ x, p x = true → q x = true) :
    (l.filter p).length ≤ (l.filter q).length := by
  induction l with
  | nil => simp
  | cons x xs ih =>
    simp only [List.filter_cons]
    have hx := h x
    cases hp : p x <;> cases hq : q x <;> simp [hp, hq] at hx ⊢ <;> omega

theorem l3_filter_take (p : Int → Bool) (l : List Int) (k : Nat) :
    (l.filter p).length ≤ ((l.take k).filter p).length + (l.length - k) := by
  have h := List.take_append_drop k l
  have : (l.filter p).length = ((l.take k).filter p).length + ((l.drop k).filter p).length := by
    conv => lhs; rw [← h, List.filter_append, List.length_append]
  rw [this]
  have := List.length_filter_le p (l.drop k)
  rw [List.length_drop] at this
  omega

theorem mtp_monotone (h : Hdr) (chain : List Hdr) (hne : chain ≠ [])
    (ht : h.time > calcPastMedianTime chain) :
    calcPastMedianTime chain ≤ calcPastMedianTime (h :: chain) := by
  have h1 := mtp_is_median chain hne
  have h2 := mtp_is_median (h :: chain) (by simp)
  simp only [MEDIAN_TIME_SPAN] at h1 h2
  generalize hm : calcPastMedianTime chain = m at *
  generalize hm' : calcPastMedianTime (h :: chain) = m' at *
  generalize hts : (chain.take 11).map (·.time) = ts at *
  have hts' : ((h :: chain).take 11).map (·.time) = h.time :: ts.take 10 := by
    rw [← hts, ← List.map_take, List.take_take]
    simp
  rw [hts'] at h2
  have hn : 0 < ts.length := by
    rw [← hts]
    cases chain with
    | nil => exact absurd rfl hne
    | cons a b => simp
  have hn11 : ts.length ≤ 11 := by
    rw [← hts]; simp; omega
  apply Int.not_lt.mp
  intro hlt
  have hpart := l3_filter_partition (fun x => decide (x < m)) ts
  have htk := l3_filter_take (fun x => !decide (x < m)) ts 10
  have hmono := l3_filter_mono (fun x => !decide (x < m)) (fun x => decide (x > m')) (ts.take 10)
    (by intro x hx; simp at hx ⊢; omega)
  have h2c := h2.2.2
  rw [List.filter_cons] at h2c
  simp only [show (decide (h.time > m')) = true by simp; omega, if_true, List.length_cons,
    List.length_take] at h2c
  have h1b := h1.2.1
  omega

/-! ### (A) compact normal forms -/

/-- the image of `bigToCompact` on positive numbers of at most 254 bytes -/
def normalForm (c : Nat) : Prop :=
  let e := c / 2^24
  let m := c % 2^24
  e < 256 ∧ m < 0x800000 ∧
   ((3 ≤ e ∧ 0x8000 ≤ m) ∨ (e = 2 ∧ m % 256 = 0 ∧ 0x8000 ≤ m) ∨ (e = 1 ∧ m % 65536 = 0 ∧ 0 < m))
instance (c : Nat) : Decidable (normalForm c) := by unfold normalForm; infer_instance

theorem l3_byteLen_one (m : Nat) (h1 : 0 < m) (h2 : m < 256) : byteLen m = 1 := by
  rw [byteLen_pos h1]
  have : m / 256 = 0 := by omega
  rw [this, byteLen_zero]

theorem l3_byteLen_two (m : Nat) (h1 : 256 ≤ m) (h2 : m < 65536) : byteLen m = 2 := by
  rw [byteLen_pos (by omega), byteLen_pos (by omega)]
  have : m / 256 / 256 = 0 := by omega
  rw [this, byteLen_zero]

theorem l3_mant3_mul (m k : Nat) (hb : byteLen m ≤ 3) :
    mant3 (m * 256 ^ k) (byteLen m + k) = m * 256 ^ (3 - byteLen m) := by
  unfold mant3
  generalize byteLen m = b at *
  split
  · rename_i h
    rw [Nat.mul_assoc, ← Nat.pow_add]
    have : k + (3 - (b + k)) = 3 - b := by omega
    rw [this]
  · rename_i h
    have e1 : k = (3 - b) + (b + k - 3) := by omega
    conv => lhs; lhs; rw [e1, Nat.pow_add, ← Nat.mul_assoc]
    exact Nat.mul_div_cancel _ (Nat.pow_pos (by decide))

theorem l3_b2c_mul (m k : Nat) (hm : 0 < m) (hb : byteLen m ≤ 3) (hk : byteLen m + k ≤ 254) :
    bigToCompact ((m * 256 ^ k : Nat) : Int) =
      (if m * 256 ^ (3 - byteLen m) / 0x800000 % 2 = 1
        then (byteLen m + k + 1) * 2 ^ 24 + m * 256 ^ (3 - byteLen m) / 256
        else (byteLen m + k) * 2 ^ 24 + m * 256 ^ (3 - byteLen m)) := by
  have hpos : 0 < m * 256 ^ k := Nat.mul_pos hm (Nat.pow_pos (by decide))
  rw [b2c_pos _ hpos (by rw [byteLen_mul_pow _ _ hm]; exact hk), byteLen_mul_pow _ _ hm,
    l3_mant3_mul m k hb]

theorem l3_c2b_pack (e m : Nat) (hm : m < 2 ^ 23) :
    compactToBig (e * 2 ^ 24 + m) =
      ((if e ≤ 3 then m / 256 ^ (3 - e) else m * 256 ^ (e - 3) : Nat) : Int) := by
  rw [compactToBig_eq_spec, compactValue_pack e m hm]

theorem b2c_c2b_nf2 (e m : Nat) (he : 3 ≤ e) (he' : e < 256)
    (hm : 0x008000 ≤ m) (hm' : m < 0x010000) :
    bigToCompact (compactToBig (e * 2^24 + m)) = e * 2^24 + m := by
  rw [l3_c2b_pack e m (by omega)]
  have hv : (if e ≤ 3 then m / 256 ^ (3 - e) else m * 256 ^ (e - 3)) = m * 256 ^ (e - 3) := by
    have : ¬ e ≤ 3 ∨ e = 3 := by omega
    rcases this with h | h
    · simp [h]
    · subst h; simp
  rw [hv]
  have hbl := l3_byteLen_two m (by omega) (by omega)
  rw [l3_b2c_mul m (e - 3) (by omega) (by omega) (by omega), hbl]
  simp only [show 3 - 2 = 1 by rfl, Nat.pow_one]
  have hbit : m * 256 / 0x800000 % 2 = 1 := by omega
  rw [if_pos hbit]
  omega

theorem b2c_c2b_small2 (k : Nat) (hk : 0x80 ≤ k) (hk' : k < 0x8000) :
    bigToCompact (compactToBig (2 * 2^24 + k * 256)) = 2 * 2^24 + k * 256 := by
  rw [l3_c2b_pack 2 (k * 256) (by omega)]
  simp only [show (2 : Nat) ≤ 3 by decide, if_true, show 3 - 2 = 1 by rfl, Nat.pow_one]
  rw [Nat.mul_div_cancel _ (by decide : 0 < 256)]
  have h0 := l3_b2c_mul k 0
  simp only [Nat.pow_zero, Nat.mul_one, Nat.add_zero] at h0
  by_cases h1 : k < 256
  · have hbl := l3_byteLen_one k (by omega) h1
    rw [h0 (by omega) (by omega) (by omega), hbl]
    simp only [show 3 - 1 = 2 by rfl]
    have hbit : k * 256 ^ 2 / 0x800000 % 2 = 1 := by omega
    rw [if_pos hbit]
    omega
  · have hbl := l3_byteLen_two k (by omega) (by omega)
    rw [h0 (by omega) (by omega) (by omega), hbl]
    simp only [show 3 - 2 = 1 by rfl, Nat.pow_one]
    have hbit : ¬ (k * 256 / 0x800000 % 2 = 1) := by omega
    rw [if_neg hbit]

theorem b2c_c2b_small1 (k : Nat) (hk : 1 ≤ k) (hk' : k < 0x80) :
    bigToCompact (compactToBig (1 * 2^24 + k * 65536)) = 1 * 2^24 + k * 65536 := by
  rw [l3_c2b_pack 1 (k * 65536) (by omega)]
  simp only [show (1 : Nat) ≤ 3 by decide, if_true, show 3 - 1 = 2 by rfl,
    show 256 ^ 2 = 65536 by decide]
  rw [Nat.mul_div_cancel _ (by decide : 0 < 65536)]
  have h0 := l3_b2c_mul k 0
  simp only [Nat.pow_zero, Nat.mul_one, Nat.add_zero] at h0
  have hbl := l3_byteLen_one k (by omega) (by omega)
  rw [h0 (by omega) (by omega) (by omega), hbl]
  simp only [show 3 - 1 = 2 by rfl, show 256 ^ 2 = 65536 by decide]
  have hbit : ¬ (k * 65536 / 0x800000 % 2 = 1) := by omega
  rw [if_neg hbit]

theorem b2c_c2b_normal (c : Nat) (h : normalForm c) : bigToCompact (compactToBig c) = c := by
  unfold normalForm at h
  simp only [] at h
  obtain ⟨he, hm, hcase⟩ := h
  have hc : c = c / 2 ^ 24 * 2 ^ 24 + c % 2 ^ 24 := by omega
  generalize c / 2 ^ 24 = e at *
  generalize c % 2 ^ 24 = m at *
  subst hc
  rcases hcase with ⟨h3, hm1⟩ | ⟨h2, hmod, hm1⟩ | ⟨h1, hmod, hm1⟩
  · by_cases hbig : 0x010000 ≤ m
    · exact b2c_c2b e m h3 he hbig hm
    · exact b2c_c2b_nf2 e m h3 he hm1 (by omega)
  · subst h2
    have hmk : m = m / 256 * 256 := by omega
    rw [hmk]
    exact b2c_c2b_small2 (m / 256) (by omega) (by omega)
  · subst h1
    have hmk : m = m / 65536 * 65536 := by omega
    rw [hmk]
    exact b2c_c2b_small1 (m / 65536) (by omega) (by omega)

theorem l3_mant3_ge (a : Nat) (ha : 0 < a) : 0x10000 ≤ mant3 a (byteLen a) := by
  unfold mant3
  have hb := byteLen_bounds a ha
  have hepos : 1 ≤ byteLen a := by rw [byteLen_pos ha]; omega
  split
  · rename_i h3
    have : 256 ^ (byteLen a - 1) * 256 ^ (3 - byteLen a) ≤ a * 256 ^ (3 - byteLen a) :=
      Nat.mul_le_mul_right _ hb.1
    rw [← Nat.pow_add] at this
    have e : byteLen a - 1 + (3 - byteLen a) = 2 := by omega
    rw [e] at this
    exact this
  · rename_i h3
    exact (shift_top3 a _ (by omega) rfl ha).1

theorem b2c_is_normal (a : Nat) (ha : 0 < a) (hlen : byteLen a ≤ 254) :
    normalForm (bigToCompact (a : Int)) := by
  rw [b2c_pos a ha hlen]
  have hlt := mant3_lt a ha
  have hge := l3_mant3_ge a ha
  have hepos : 1 ≤ byteLen a := by rw [byteLen_pos ha]; omega
  have hsmall1 : byteLen a = 1 → mant3 a (byteLen a) = a * 65536 := by
    intro h; rw [h]; unfold mant3; simp
  have hsmall2 : byteLen a = 2 → mant3 a (byteLen a) = a * 256 := by
    intro h; rw [h]; unfold mant3; simp
  generalize byteLen a = b at *
  generalize mant3 a b = M at *
  unfold normalForm
  simp only []
  split
  · rename_i hs
    have e1 : ((b + 1) * 2 ^ 24 + M / 256) / 2 ^ 24 = b + 1 := by omega
    have e2 : ((b + 1) * 2 ^ 24 + M / 256) % 2 ^ 24 = M / 256 := by omega
    rw [e1, e2]
    refine ⟨by omega, by omega, ?_⟩
    by_cases h1 : b = 1
    · have := hsmall1 h1
      right; left; omega
    · left; omega
  · rename_i hs
    have e1 : (b * 2 ^ 24 + M) / 2 ^ 24 = b := by omega
    have e2 : (b * 2 ^ 24 + M) % 2 ^ 24 = M := by omega
    rw [e1, e2]
    refine ⟨by omega, by omega, ?_⟩
    by_cases h1 : b = 1
    · have := hsmall1 h1
      right; right; omega
    · by_cases h2 : b = 2
      · have := hsmall2 h2
        right; left; omega
      · left; omega

theorem b2c_idempotent (a : Nat) (ha : 0 < a) (hlen : byteLen a ≤ 254) :
    bigToCompact (compactToBig (bigToCompact (a : Int))) = bigToCompact (a : Int) :=
  b2c_c2b_normal _ (b2c_is_normal a ha hlen)

theorem normal_pos (c : Nat) (h : normalForm c) : 0 < compactToBig c := by
  unfold normalForm at h
  simp only [] at h
  obtain ⟨he, hm, hcase⟩ := h
  have hc : c = c / 2 ^ 24 * 2 ^ 24 + c % 2 ^ 24 := by omega
  generalize c / 2 ^ 24 = e at *
  generalize c % 2 ^ 24 = m at *
  subst hc
  rw [l3_c2b_pack e m (by omega)]
  rcases hcase with ⟨h3, hm1⟩ | ⟨h2, hmod, hm1⟩ | ⟨h1, hmod, hm1⟩
  · have hv : (if e ≤ 3 then m / 256 ^ (3 - e) else m * 256 ^ (e - 3)) = m * 256 ^ (e - 3) := by
      have : ¬ e ≤ 3 ∨ e = 3 := by omega
      rcases this with h | h
      · simp [h]
      · subst h; simp
    rw [hv]
    have : 0 < m * 256 ^ (e - 3) := Nat.mul_pos (by omega) (Nat.pow_pos (by decide))
    omega
  · subst h2
    simp only [show (2 : Nat) ≤ 3 by decide, if_true, show 3 - 2 = 1 by rfl, Nat.pow_one]
    omega
  · subst h1
    simp only [show (1 : Nat) ≤ 3 by decide, if_true, show 3 - 1 = 2 by rfl,
      show 256 ^ 2 = 65536 by decide]
    omega

end BV.C09.Lemmas
