/- C09 helper lemmas, part 5: branches of `calcNextRequiredDifficulty` (min-difficulty / BIP94 interplay,
   totality), header context / sanity verdicts, `calcEasiestDifficulty`. -/
import BV.C09.Lemmas2
namespace BV.C09.Lemmas
open BV.C09 BV.C09.Spec

/-! ### calcNextRequiredDifficulty: remaining branches -/

theorem l5_genesis (p : Params) (t : Int) :
    calcNextRequiredDifficulty p [] t = some p.powLimitBits := by
  unfold calcNextRequiredDifficulty
  by_cases h : p.noRetarget = true <;> simp [h]

theorem l5_mindiff_on_time (p : Params) (last : Hdr) (rest : List Hdr) (t : Int)
    (hnr : p.noRetarget = false) (hr : p.reduceMinDiff = true)
    (hb : Int.tmod ((rest.length : Int) + 1) p.blocksPerRetarget ≠ 0)
    (ht : t ≤ last.time + p.minDiffReductionTime) :
    calcNextRequiredDifficulty p (last :: rest) t = some (findPrevTestNetDifficulty p (last :: rest)) := by
  have : ¬ (t > last.time + p.minDiffReductionTime) := by omega
  simp [calcNextRequiredDifficulty, hnr, hr, hb, this]

/-- on a retarget boundary neither the min-difficulty switch, nor its reduction time, nor the new block's
    time stamp plays any role -/
theorem l5_boundary_ignores_mindiff (p : Params) (last : Hdr) (rest : List Hdr) (t t' : Int) (b : Bool) (x : Int)
    (hb : Int.tmod ((rest.length : Int) + 1) p.blocksPerRetarget = 0) :
    calcNextRequiredDifficulty { p with reduceMinDiff := b, minDiffReductionTime := x } (last :: rest) t' =
      calcNextRequiredDifficulty p (last :: rest) t := by
  unfold calcNextRequiredDifficulty
  simp only [Params.blocksPerRetarget, Params.minSpan, Params.maxSpan] at hb ⊢
  simp only [hb, ne_eq, not_true_eq_false, if_false]
  rfl

/-- BIP94: with at least two blocks per period the retarget does not look at the bits of the period's
    last block (which may be a min-difficulty block) -/
theorem l5_bip94_ignores_last_bits (p : Params) (last : Hdr) (rest : List Hdr) (t : Int) (b' : Nat)
    (h94 : p.enforceBIP94 = true) (h2 : 2 ≤ p.blocksPerRetarget)
    (hb : Int.tmod ((rest.length : Int) + 1) p.blocksPerRetarget = 0) :
    calcNextRequiredDifficulty p ({ last with bits := b' } :: rest) t =
      calcNextRequiredDifficulty p (last :: rest) t := by
  unfold calcNextRequiredDifficulty
  simp only [hb, ne_eq, not_true_eq_false, if_false, h94, if_true]
  obtain ⟨k, hk⟩ : ∃ k : Nat, (p.blocksPerRetarget - 1).toNat = k + 1 := ⟨(p.blocksPerRetarget - 2).toNat, by omega⟩
  simp only [hk, List.getElem?_cons_succ]

theorem l5_walkback_non_limit (p : Params) (last : Hdr) (rest : List Hdr) (h : last.bits ≠ p.powLimitBits) :
    findPrevTestNetDifficulty p (last :: rest) = last.bits := by
  simp [findPrevTestNetDifficulty, h]

theorem l5_walkback_boundary (p : Params) (last : Hdr) (rest : List Hdr)
    (h : Int.tmod (rest.length : Int) p.blocksPerRetarget = 0) :
    findPrevTestNetDifficulty p (last :: rest) = last.bits := by
  simp [findPrevTestNetDifficulty, h]

theorem l5_walkback_mem (p : Params) (chain : List Hdr) :
    findPrevTestNetDifficulty p chain = p.powLimitBits ∨
      ∃ h ∈ chain, findPrevTestNetDifficulty p chain = h.bits := by
  induction chain with
  | nil => left; simp [findPrevTestNetDifficulty]
  | cons a rest ih =>
    unfold findPrevTestNetDifficulty
    by_cases hc : Int.tmod (rest.length : Int) p.blocksPerRetarget ≠ 0 ∧ a.bits = p.powLimitBits
    · rw [if_pos hc]
      rcases ih with h | ⟨x, hx, he⟩
      · exact Or.inl h
      · exact Or.inr ⟨x, List.mem_cons_of_mem _ hx, he⟩
    · rw [if_neg hc]; exact Or.inr ⟨a, List.mem_cons_self, rfl⟩

/-- with a positive number of blocks per period the function is total (the AssertError is unreachable on a
    history that starts at genesis) -/
theorem l5_total (p : Params) (chain : List Hdr) (t : Int) (hbpr : 0 < p.blocksPerRetarget) :
    (calcNextRequiredDifficulty p chain t).isSome = true := by
  unfold calcNextRequiredDifficulty
  by_cases hnr : p.noRetarget = true
  · simp [hnr]
  · simp only [hnr, Bool.false_eq_true, if_false]
    cases chain with
    | nil => simp
    | cons last rest =>
      simp only []
      by_cases hb : Int.tmod ((rest.length : Int) + 1) p.blocksPerRetarget = 0
      · simp only [hb, ne_eq, not_true_eq_false, if_false]
        have hd := Int.dvd_of_tmod_eq_zero hb
        have hle := Int.le_of_dvd (by omega) hd
        have hlt : (p.blocksPerRetarget - 1).toNat < (last :: rest).length := by
          simp only [List.length_cons]; omega
        rw [if_neg (by omega), List.getElem?_eq_getElem hlt]
        simp
      · simp only [hb, ne_eq, not_false_eq_true, if_true]
        by_cases hr : p.reduceMinDiff = true
        · simp only [hr, if_true]
          by_cases ht : t > last.time + p.minDiffReductionTime <;> simp [ht]
        · simp [hr]

/-! ### header context and sanity verdicts -/

theorem l5_ctx_ok_iff (p : Params) (prev : Hdr) (rest : List Hdr) (h : Hdr) :
    checkBlockHeaderContext p (prev :: rest) h false = .ok ↔
      calcNextRequiredDifficulty p (prev :: rest) h.time = some h.bits ∧
      calcPastMedianTime (prev :: rest) < h.time ∧
      (p.enforceBIP94 = true →
        assertNoTimeWarp (((prev :: rest).length : Nat) : Int) p.blocksPerRetarget h.time prev.time = true) := by
  unfold checkBlockHeaderContext
  simp only [Bool.false_eq_true, if_false]
  cases hreq : calcNextRequiredDifficulty p (prev :: rest) h.time with
  | none => simp
  | some b =>
    simp only [Option.some.injEq]
    by_cases hb : h.bits = b
    · subst hb
      simp only [ne_eq, not_true_eq_false, if_false, true_and]
      by_cases hm : h.time > calcPastMedianTime (prev :: rest)
      · simp only [hm, not_true_eq_false, if_false]
        by_cases h94 : p.enforceBIP94 = true
        · simp only [h94, Bool.true_and, forall_const]
          cases hw : assertNoTimeWarp (((prev :: rest).length : Nat) : Int) p.blocksPerRetarget h.time prev.time <;>
            simp [hm]
        · simp [h94, hm]
      · simp only [hm, not_false_eq_true, if_true]
        constructor
        · intro hx; cases hx
        · intro hx; first | exact absurd hx.1 hm | exact hx.1.elim
    · simp only [ne_eq, hb, not_false_eq_true, if_true]
      constructor
      · intro hx; cases hx
      · intro hx; exact absurd hx.1.symm hb

theorem l5_ctx_fast (p : Params) (prev : Hdr) (rest : List Hdr) (h : Hdr) :
    checkBlockHeaderContext p (prev :: rest) h true = .ok := by
  simp [checkBlockHeaderContext]

theorem l5_powflags_ok_iff (bits : Nat) (hash : List UInt8) (lim : Int) (np : Bool) :
    checkProofOfWorkFlags bits hash lim np = .ok ↔
      0 < compactToBig bits ∧ compactToBig bits ≤ lim ∧
      (np = true ∨ (hashToBig hash : Int) ≤ compactToBig bits) := by
  unfold checkProofOfWorkFlags
  simp only []
  by_cases h1 : compactToBig bits ≤ 0
  · simp only [h1, if_true]; constructor
    · intro h; cases h
    · intro h; omega
  · by_cases h2 : compactToBig bits > lim
    · simp only [h1, h2, if_true, if_false]; constructor
      · intro h; cases h
      · intro h; omega
    · simp only [h1, h2, if_false]
      cases np with
      | true => simp; omega
      | false =>
        by_cases h3 : (hashToBig hash : Int) > compactToBig bits
        · simp [h3]
        · simp [h3]; omega

theorem l5_powflags_false (bits : Nat) (hash : List UInt8) (lim : Int) :
    checkProofOfWorkFlags bits hash lim false = checkProofOfWork bits hash lim := by
  unfold checkProofOfWorkFlags checkProofOfWork
  simp

theorem l5_sanity_ok_iff (bits : Nat) (hash : List UInt8) (lim : Int) (np : Bool) (sec nsec adj : Int) :
    checkBlockHeaderSanity bits hash lim np sec nsec adj = .ok ↔
      checkProofOfWorkFlags bits hash lim np = .ok ∧ nsec = 0 ∧ sec ≤ adj + MAX_TIME_OFFSET := by
  unfold checkBlockHeaderSanity
  cases hp : checkProofOfWorkFlags bits hash lim np with
  | badTarget => simp
  | highHash => simp
  | ok =>
    simp only [true_and]
    by_cases hn : nsec = 0
    · simp only [hn, ne_eq, not_true_eq_false, if_false, true_and]
      by_cases hs : sec > adj + MAX_TIME_OFFSET
      · simp [hs]
      · simp [hs]; omega
    · simp [hn]

/-! ### calcEasiestDifficulty -/

/-- the loop multiplies `k` times, where `k` is the number of iterations whose guard held -/
theorem l5_easiestLoop_spec (adj maxSpan lim : Int) (fuel : Nat) (d t : Int) :
    ∃ k : Nat, k ≤ fuel ∧ easiestLoop adj maxSpan lim fuel d t = t * adj ^ k ∧
      (∀ j : Nat, j < k → d - j * maxSpan > 0 ∧ t * adj ^ j < lim) ∧
      (k = fuel ∨ ¬ (d - k * maxSpan > 0 ∧ t * adj ^ k < lim)) := by
  induction fuel generalizing d t with
  | zero => exact ⟨0, Nat.le_refl _, by simp [easiestLoop], by intro j hj; omega, Or.inl rfl⟩
  | succ fuel ih =>
    unfold easiestLoop
    by_cases hg : d > 0 ∧ t < lim
    · rw [if_pos hg]
      obtain ⟨k, hk, he, hall, hstop⟩ := ih (d - maxSpan) (t * adj)
      refine ⟨k + 1, by omega, ?_, ?_, ?_⟩
      · rw [he, Int.pow_succ, Int.mul_assoc, Int.mul_comm adj]
      · intro j hj
        cases j with
        | zero => simpa using hg
        | succ j =>
          have := hall j (by omega)
          have e1 : d - ((j + 1 : Nat) : Int) * maxSpan = d - maxSpan - (j : Int) * maxSpan := by
            rw [Int.natCast_succ, Int.add_mul]; omega
          have e2 : t * adj ^ (j + 1) = t * adj * adj ^ j := by
            rw [Int.pow_succ, Int.mul_assoc, Int.mul_comm (adj ^ j)]
          rw [e1, e2]; exact this
      · rcases hstop with h | h
        · left; omega
        · right
          have e1 : d - ((k + 1 : Nat) : Int) * maxSpan = d - maxSpan - (k : Int) * maxSpan := by
            rw [Int.natCast_succ, Int.add_mul]; omega
          have e2 : t * adj ^ (k + 1) = t * adj * adj ^ k := by
            rw [Int.pow_succ, Int.mul_assoc, Int.mul_comm (adj ^ k)]
          rw [e1, e2]; exact h
    · rw [if_neg hg]
      exact ⟨0, by omega, by simp, by intro j hj; omega, Or.inr (by simpa using hg)⟩

theorem l5_easiestLoop_nonneg (adj maxSpan lim : Int) (fuel : Nat) (d t : Int) (ht : 0 ≤ t) (ha : 0 ≤ adj) :
    0 ≤ easiestLoop adj maxSpan lim fuel d t := by
  induction fuel generalizing d t with
  | zero => simpa [easiestLoop] using ht
  | succ fuel ih =>
    unfold easiestLoop
    split
    · exact ih _ _ (Int.mul_nonneg ht ha)
    · exact ht

/-- with `maxSpan ≥ 1` the fuel `d.toNat` is never exhausted while the guard still holds -/
theorem l5_easiestLoop_fuel (adj maxSpan lim : Int) (hs : 1 ≤ maxSpan) (fuel : Nat) (d t : Int)
    (hf : d ≤ fuel) :
    easiestLoop adj maxSpan lim (fuel + 1) d t = easiestLoop adj maxSpan lim fuel d t := by
  induction fuel generalizing d t with
  | zero =>
    have : ¬ (d > 0 ∧ t < lim) := by omega
    simp [easiestLoop, this]
  | succ fuel ih =>
    rw [easiestLoop]
    conv => rhs; rw [easiestLoop]
    by_cases hg : d > 0 ∧ t < lim
    · rw [if_pos hg, if_pos hg]
      exact ih _ _ (by omega)
    · rw [if_neg hg, if_neg hg]

theorem l5_byteLen_le_of_lt_pow (a k : Nat) (h : a < 256 ^ k) : byteLen a ≤ k := by
  by_cases ha : a = 0
  · subst ha; rw [byteLen_zero]; omega
  · have hb := (byteLen_bounds a (Nat.pos_of_ne_zero ha)).1
    by_cases hc : byteLen a ≤ k
    · exact hc
    · exfalso
      have : 256 ^ k ≤ 256 ^ (byteLen a - 1) := Nat.pow_le_pow_right (by decide) (by omega)
      omega

/-- the answer of `calcEasiestDifficulty` decodes to a target that never exceeds the proof-of-work limit -/
theorem l5_easiest_le_limit (p : Params) (bits : Nat) (d : Int)
    (hlim : 0 < p.powLimit) (hlen : p.powLimit < 256 ^ 254)
    (hbits : compactToBig p.powLimitBits ≤ p.powLimit)
    (ht : 0 ≤ compactToBig bits) (ha : 0 ≤ p.adjFactor) :
    compactToBig (calcEasiestDifficulty p bits d) ≤ p.powLimit := by
  unfold calcEasiestDifficulty
  split
  · exact hbits
  · simp only []
    have hnn := l5_easiestLoop_nonneg p.adjFactor p.maxSpan p.powLimit d.toNat d (compactToBig bits) ht ha
    generalize easiestLoop p.adjFactor p.maxSpan p.powLimit d.toNat d (compactToBig bits) = v at hnn
    have key : ∀ w : Int, 0 ≤ w → w ≤ p.powLimit → compactToBig (bigToCompact w) ≤ p.powLimit := by
      intro w hw hwl
      by_cases hz : w = 0
      · subst hz
        have : compactToBig (bigToCompact 0) = 0 := by decide
        omega
      · obtain ⟨a, rfl⟩ := Int.eq_ofNat_of_zero_le hw
        have hpos : 0 < a := by omega
        have hal : a < 256 ^ 254 := by
          have : ((a : Nat) : Int) < ((256 ^ 254 : Nat) : Int) := by
            rw [Int.natCast_pow]; exact Int.lt_of_le_of_lt hwl hlen
          exact Int.ofNat_lt.mp this
        have := (c2b_b2c_trunc a hpos (l5_byteLen_le_of_lt_pow a 254 hal)).1
        omega
    split
    · exact key _ (by omega) (Int.le_refl _)
    · exact key _ hnn (by omega)

end BV.C09.Lemmas
