/-
C09 Spec — the protocol definitions, stated directly (Bitcoin Core's
arith_uint256::SetCompact/GetCompact, GetBlockProof, CalculateNextWorkRequired,
GetMedianTimePast, GetBlockSubsidy). Core-only.
-/
namespace BV.C09.Spec

/-- protocol constants (pinned against the code's values in Props) -/
def BASE_SUBSIDY : Nat := 5000000000
def MEDIAN_TIME_SPAN : Nat := 11
def MAX_TIMEWARP : Int := 600
def MAX_MONEY : Nat := 2100000000000000
/-- everything that is ever issued on a 210000-block halving schedule -/
def MAINNET_TOTAL : Nat := 2099999997690000

/-- N = (-1)^sign * mantissa * 256^(exponent-3) (integer part). -/
def compactValue (c : Nat) : Int :=
  let m := c % 2^23
  let e := c / 2^24
  let mag : Nat := if e ≤ 3 then m / 256^(3 - e) else m * 256^(e - 3)
  if (c / 2^23) % 2 = 1 then -(mag : Int) else (mag : Int)

/-- number of base-256 digits -/
def byteLen (n : Nat) : Nat := if h : n = 0 then 0 else byteLen (n / 256) + 1
decreasing_by omega

/-- work = floor(2^256 / (target+1)) for positive targets, 0 otherwise -/
def work (target : Int) : Nat :=
  if target ≤ 0 then 0 else 2^256 / (target.toNat + 1)

/-- clamp a timespan into [lo, hi] -/
def clamp (x lo hi : Int) : Int := if x < lo then lo else if x > hi then hi else x

/-- new target of a retarget: old * clamp(actual) / T capped at powLimit (truncated division). -/
def retarget (old : Int) (actual tMin tMax T : Int) (powLimit : Int) : Int :=
  let n := Int.tdiv (old * clamp actual tMin tMax) T
  if n > powLimit then powLimit else n

/-- Bitcoin Core's `CalculateNextWorkRequired` computes `bnNew *= nActualTimespan` in `arith_uint256`,
    i.e. the product wraps modulo 2^256 before the division. -/
def retargetCore (old : Int) (actual tMin tMax T : Int) (powLimit : Int) : Int :=
  let n := Int.tdiv ((old * clamp actual tMin tMax) % 2^256) T
  if n > powLimit then powLimit else n

/-- maximum distance of a header time stamp into the future (seconds) -/
def MAX_TIME_OFFSET : Int := 7200

/-- network-adjusted time: the local clock is never moved by 70 minutes or more; at most 200 samples -/
def MAX_ALLOWED_OFFSET : Int := 4200
def MAX_MEDIAN_TIME_ENTRIES : Nat := 200

/-- subsidy at a non-negative height -/
def subsidy (height interval : Nat) : Nat :=
  if interval = 0 then BASE_SUBSIDY else BASE_SUBSIDY / 2^(height / interval)

def totalSubsidy (interval : Nat) : Nat → Nat
  | 0 => 0
  | n+1 => totalSubsidy interval n + subsidy n interval

/-- partial sums of the halving series -/
def halvingSum : Nat → Nat
  | 0 => 0
  | q+1 => halvingSum q + BASE_SUBSIDY / 2^q

end BV.C09.Spec
