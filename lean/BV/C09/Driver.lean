/- C09 line-protocol driver (core-only). -/
import BV.Common.Hex
import BV.Common.Sha256
import BV.C09.Model
namespace BV.C09.Driver
open BV.Hex

def signedHex (i : Int) : String :=
  if i < 0 then "-" ++ natToHex i.natAbs else natToHex i.natAbs

def parseSignedHex? (s : String) : Option Int :=
  if s.startsWith "-" then (hexToNat? (s.drop 1).toString).map (fun n => -(n : Int))
  else (hexToNat? s).map (fun n => (n : Int))

def hex8 (n : Nat) : String :=
  let s := natToHex n
  String.ofList (List.replicate (8 - s.length) '0') ++ s

def parseBool? (s : String) : Option Bool :=
  if s == "1" then some true else if s == "0" then some false else none

def parseHdr? (s : String) : Option Hdr :=
  match s.splitOn ":" with
  | [t, b] => do
    let t ← t.toInt?
    let b ← hexToNat? b
    pure ⟨t, b⟩
  | _ => none

def parseParams? : List String → Option (Params × List String)
  | pl :: plb :: nr :: rmd :: mdrt :: tts :: ttpb :: af :: b94 :: rest => do
    let pl ← hexToNat? pl
    let plb ← hexToNat? plb
    let nr ← parseBool? nr
    let rmd ← parseBool? rmd
    let mdrt ← mdrt.toInt?
    let tts ← tts.toInt?
    let ttpb ← ttpb.toInt?
    let af ← af.toInt?
    let b94 ← parseBool? b94
    pure (⟨pl, plb, nr, rmd, mdrt, tts, ttpb, af, b94⟩, rest)
  | _ => none

/-- number of failing clauses of the header checks (target range when `range`, difficulty, MTP, BIP94) -/
def ctxFailCount (p : Params) (chain : List Hdr) (h : Hdr) (range : Bool) : Nat :=
  let t := compactToBig h.bits
  (if range && decide (t ≤ 0 ∨ t > p.powLimit) then 1 else 0) +
  (match calcNextRequiredDifficulty p chain h.time with
    | some b => if h.bits ≠ b then 1 else 0
    | none => 0) +
  (if h.time > calcPastMedianTime chain then 0 else 1) +
  (match chain with
    | prev :: _ => if p.enforceBIP94 && !assertNoTimeWarp (chain.length : Int) p.blocksPerRetarget h.time prev.time then 1 else 0
    | [] => 0)

def verdictStr : Verdict → String
  | .ok => "ok" | .badTarget => "badTarget" | .badDifficulty => "badDifficulty"
  | .timeTooOld => "timeTooOld" | .timeWarp => "timeWarp" | .assert => "assert" | .panic => "panic"

/-- `processHeaders` with the multi-failure coarsening applied to the printed verdicts -/
def phdrStrings (p : Params) : List Hdr → List Hdr → List String
  | _, [] => []
  | chain, h :: hs =>
    let v := headerVerdict p chain h
    let s := if v ≠ .ok && v ≠ .assert && v ≠ .panic && ctxFailCount p chain h true ≥ 2 then "reject:multi" else verdictStr v
    s :: phdrStrings p (if v = .ok then h :: chain else chain) hs

def ctxStr (p : Params) (chain : List Hdr) (h : Hdr) : String :=
  let r := checkBlockHeaderContext p chain h false
  if r ≠ .ok && r ≠ .assert && r ≠ .panic && ctxFailCount p chain h false ≥ 2 then "reject:multi" else
  match r with
  | .ok => "ok" | .badDifficulty => "badDifficulty" | .timeTooOld => "timeTooOld"
  | .timeWarp => "timeWarp" | .assert => "assert" | .panic => "panic"

/-- required bits / context verdict / MTP for header `h` on `chain` -/
def triple (p : Params) (chain : List Hdr) (h : Hdr) : String :=
  (match calcNextRequiredDifficulty p chain h.time with | some b => hex8 b | none => "assert")
    ++ "/" ++ ctxStr p chain h ++ "/" ++ toString (calcPastMedianTime chain)

def parseItem? (s : String) : Option (Nat × Hdr) :=
  match s.splitOn ":" with
  | [d, t, b] => do
    let d ← d.toNat?
    let t ← t.toInt?
    let b ← hexToNat? b
    pure (d, ⟨t, b⟩)
  | _ => none

def ptreeStrings (p : Params) : List (List Hdr) → List (Nat × Hdr) → List String
  | _, [] => []
  | known, (i, h) :: hs =>
    match known[i]? with
    | none => "panic" :: ptreeStrings p known hs
    | some chain =>
      let v := headerVerdict p chain h
      let s := if v ≠ .ok && v ≠ .assert && v ≠ .panic && ctxFailCount p chain h true ≥ 2 then "reject:multi" else verdictStr v
      s :: ptreeStrings p (if v = .ok then known ++ [h :: chain] else known) hs

def handleNext (rest : List String) : String :=
  match parseParams? rest with
  | some (p, newTime :: hdrs) =>
    match newTime.toInt?, hdrs.mapM parseHdr? with
    | some t, some hs =>
      match calcNextRequiredDifficulty p hs t with
      | some b => hex8 b
      | none => "assert"
    | _, _ => "bad-op"
  | _ => "bad-op"

def handleMtp (ts : List String) : String :=
  match ts.mapM (fun (s : String) => s.toInt?) with
  | some (t :: ts) => toString (calcPastMedianTime ((t :: ts).map (fun t => ⟨t, 0⟩)))
  | _ => "bad-op"

def handle : List String → String
  | ["c2b", c] => match hexToNat? c with
    | some c => signedHex (compactToBig c)
    | none => "bad-op"
  | ["b2c", n] => match parseSignedHex? n with
    | some n => hex8 (bigToCompact n)
    | none => "bad-op"
  | ["work", c] => match hexToNat? c with
    | some c => natToHex (calcWork c)
    | none => "bad-op"
  | ["pow", header, lim] =>
    match hexToList? header, hexToNat? lim with
    | some hd, some l =>
      if hd.length ≠ 80 then "bad-op" else
      let bits := leToNat ((hd.drop 72).take 4)
      match checkProofOfWork bits (BV.Sha256.hash2List hd) l with
      | .ok => "ok" | .badTarget => "badTarget" | .highHash => "highHash"
    | _, _ => "bad-op"
  | ["h2b", h] => match hexToList? h with
    | some bs => if bs.length ≠ 32 then "bad-op" else natToHex (hashToBig bs)
    | none => "bad-op"
  | "hctx" :: rest =>
    match parseParams? rest with
    | some (p, fast :: _skipcp :: _impl :: hb :: ht :: hdrs) =>
      match parseBool? fast, hexToNat? hb, ht.toInt?, hdrs.mapM parseHdr? with
      | some fast, some hb, some ht, some hs =>
        let r := checkBlockHeaderContext p hs ⟨ht, hb⟩ fast
        if r ≠ .ok && r ≠ .assert && r ≠ .panic && ctxFailCount p hs ⟨ht, hb⟩ false ≥ 2 then "reject:multi" else
        match r with
        | .ok => "ok" | .badDifficulty => "badDifficulty" | .timeTooOld => "timeTooOld"
        | .timeWarp => "timeWarp" | .assert => "assert" | .panic => "panic"
      | _, _, _, _ => "bad-op"
    | _ => "bad-op"
  | ["hsan", header, lim, nopow, nsec, adj] =>
    match hexToList? header, hexToNat? lim, parseBool? nopow, nsec.toInt?, adj.toInt? with
    | some hd, some l, some np, some ns, some adj =>
      if hd.length ≠ 80 then "bad-op" else
      let bits := leToNat ((hd.drop 72).take 4)
      let sec : Int := leToNat ((hd.drop 68).take 4)
      let hash := BV.Sha256.hash2List hd
      -- the property fixes accept/reject; WHICH error is reported when several clauses fail is not
      -- protocol-defined, so such cases answer with the class of all admissible rejections
      let t := compactToBig bits
      let nfail := (if t ≤ 0 ∨ t > l then 1 else 0) + (if !np && decide ((hashToBig hash : Int) > t) then 1 else 0)
        + (if ns ≠ 0 then 1 else 0) + (if sec > adj + Spec.MAX_TIME_OFFSET then 1 else 0)
      if nfail ≥ 2 then "reject:multi" else
      match checkBlockHeaderSanity bits hash l np sec ns adj with
      | .ok => "ok" | .badTarget => "badTarget" | .highHash => "highHash"
      | .invalidTime => "invalidTime" | .timeTooNew => "timeTooNew"
    | _, _, _, _, _ => "bad-op"
  | "worksum" :: bs =>
    match bs.mapM hexToNat? with
    | some (b :: bs) => natToHex (workSum ((b :: bs).map (fun b => ⟨0, b⟩)))
    | _ => "bad-op"
  | "easiest" :: rest =>
    match parseParams? rest with
    | some (p, [bits, d]) =>
      match hexToNat? bits, d.toInt? with
      | some b, some d => hex8 (calcEasiestDifficulty p b d)
      | _, _ => "bad-op"
    | _ => "bad-op"
  | "wpar" :: cs =>
    match cs.mapM hexToNat? with
    | some cs => " ".intercalate (cs.map (fun c =>
        natToHex (calcWork c) ++ "/" ++ hex8 (bigToCompact (compactToBig c))))
    | none => "bad-op"
  | ["ctxparams", tts, ttpb, af] =>
    match tts.toInt?, ttpb.toInt?, af.toInt? with
    | some tts, some ttpb, some af =>
      let p : Params := ⟨2^255 - 1, 0x207fffff, true, false, 0, tts, ttpb, af, false⟩
      match calcNextRequiredDifficulty p [⟨0, 0x207fffff⟩] 1 with
      | some b => s!"{p.blocksPerRetarget} {p.minSpan} {p.maxSpan} {hex8 b}"
      | none => "assert"
    | _, _, _ => "bad-op"
  | "phdr" :: rest =>
    match parseParams? rest with
    | some (p, g :: hdrs) =>
      match parseHdr? g, hdrs.mapM parseHdr? with
      | some g, some hs =>
        ",".intercalate (phdrStrings p [g] hs)
      | _, _ => "bad-op"
    | _ => "bad-op"
  | "adj" :: samples =>
    match samples.mapM (fun (s : String) => match s.splitOn ":" with
        | [id, o] => o.toInt?.map (fun o => (id, o))
        | _ => none) with
    | some ss => ",".intercalate ((MedianTime.run MedianTime.new ss).map toString)
    | none => "bad-op"
  | "reuse" :: rest =>
    match parseParams? rest with
    | some (p, items :: hdrs) =>
      match (items.splitOn ",").mapM parseItem?, hdrs.mapM parseHdr? with
      | some its, some hs => ",".intercalate (its.map (fun (d, h) => triple p (hs.drop d) h))
      | _, _ => "bad-op"
    | _ => "bad-op"
  | "hfork" :: rest =>
    match parseParams? rest with
    | some (p, hb :: ht :: depth :: toks) =>
      let main := toks.takeWhile (· != "|")
      let side := (toks.dropWhile (· != "|")).drop 1
      match hexToNat? hb, ht.toInt?, depth.toNat?, main.mapM parseHdr?, side.mapM parseHdr? with
      | some hb, some ht, some d, some m, some sd => triple p (sd ++ m.drop d) ⟨ht, hb⟩
      | _, _, _, _, _ => "bad-op"
    | _ => "bad-op"
  | "ptree" :: rest =>
    match parseParams? rest with
    | some (p, g :: hdrs) =>
      match parseHdr? g, hdrs.mapM parseItem? with
      | some g, some hs => ",".intercalate (ptreeStrings p [[g]] hs)
      | _, _ => "bad-op"
    | _ => "bad-op"
  | "nextn" :: rest => handleNext rest
  | "mtpn" :: ts => handleMtp ts
  | "next" :: rest => handleNext rest
  | "mtp" :: ts => handleMtp ts
  | ["warp", h, bpr, ht, pt] =>
    match h.toInt?, bpr.toInt?, ht.toInt?, pt.toInt? with
    | some h, some bpr, some ht, some pt => if assertNoTimeWarp h bpr ht pt then "1" else "0"
    | _, _, _, _ => "bad-op"
  | ["subsidy", h, i] =>
    match h.toInt?, i.toInt? with
    | some h, some i => toString (calcBlockSubsidy h i)
    | _, _ => "bad-op"
  | _ => "bad-op"

end BV.C09.Driver
