/- C09 line-protocol driver (core-only). -/
import BV.Common.Hex
import BV.Common.Sha256
import BV.C09.Model
namespace BV.C09.Driver
open BV.Hex

def signedHex (i : Int) : String :=
  if i < 0 then "-" ++ natToHex i.natAbs else natToHex i.natAbs

def parseSignedHex? (s : String) : Option Int :=
  if s.startsWith "-" then (hexToNat? (s.drop 1).toString).map (fun n => -(n : Int))
  else (hexToNat? s).map (fun n => (n : Int))

def hex8 (n : Nat) : String :=
  let s := natToHex n
  String.ofList (List.replicate (8 - s.length) '0') ++ s

def parseBool? (s : String) : Option Bool :=
  if s == "1" then some true else if s == "0" then some false else none

def parseHdr? (s : String) : Option Hdr :=
  match s.splitOn ":" with
  | [t, b] => do
    let t ← t.toInt?
    let b ← hexToNat? b
    pure ⟨t, b⟩
  | _ => none

def parseParams? : List String → Option (Params × List String)
  | pl :: plb :: nr :: rmd :: mdrt :: tts :: ttpb :: af :: b94 :: rest => do
    let pl ← hexToNat? pl
    let plb ← hexToNat? plb
    let nr ← parseBool? nr
    let rmd ← parseBool? rmd
    let mdrt ← mdrt.toInt?
    let tts ← tts.toInt?
    let ttpb ← ttpb.toInt?
    let af ← af.toInt?
    let b94 ← parseBool? b94
    pure (⟨pl, plb, nr, rmd, mdrt, tts, ttpb, af, b94⟩, rest)
  | _ => none

def handle : List String → String
  | ["c2b", c] => match hexToNat? c with
    | some c => signedHex (compactToBig c)
    | none => "bad-op"
  | ["b2c", n] => match parseSignedHex? n with
    | some n => hex8 (bigToCompact n)
    | none => "bad-op"
  | ["work", c] => match hexToNat? c with
    | some c => natToHex (calcWork c)
    | none => "bad-op"
  | ["pow", header, lim] =>
    match hexToList? header, hexToNat? lim with
    | some hd, some l =>
      if hd.length ≠ 80 then "bad-op" else
      let bits := leToNat ((hd.drop 72).take 4)
      match checkProofOfWork bits (BV.Sha256.hash2List hd) l with
      | .ok => "ok" | .badTarget => "badTarget" | .highHash => "highHash"
    | _, _ => "bad-op"
  | "next" :: rest =>
    match parseParams? rest with
    | some (p, newTime :: hdrs) =>
      match newTime.toInt?, hdrs.mapM parseHdr? with
      | some t, some hs =>
        match calcNextRequiredDifficulty p hs t with
        | some b => hex8 b
        | none => "assert"
      | _, _ => "bad-op"
    | _ => "bad-op"
  | "mtp" :: ts =>
    match ts.mapM (fun (s : String) => s.toInt?) with
    | some (t :: ts) => toString (calcPastMedianTime ((t :: ts).map (fun t => ⟨t, 0⟩)))
    | _ => "bad-op"
  | ["warp", h, bpr, ht, pt] =>
    match h.toInt?, bpr.toInt?, ht.toInt?, pt.toInt? with
    | some h, some bpr, some ht, some pt => if assertNoTimeWarp h bpr ht pt then "1" else "0"
    | _, _, _, _ => "bad-op"
  | ["subsidy", h, i] =>
    match h.toInt?, i.toInt? with
    | some h, some i => toString (calcBlockSubsidy h i)
    | _, _ => "bad-op"
  | _ => "bad-op"

end BV.C09.Driver
