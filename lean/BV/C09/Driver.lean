/- C09 line-protocol driver (core-only). -/
import BV.Common.Hex
import BV.Common.Sha256
import BV.C09.Model
namespace BV.C09.Driver
open BV.Hex

def signedHex (i : Int) : String :=
  if i < 0 then "-" ++ natToHex i.natAbs else natToHex i.natAbs

def parseSignedHex? (s : String) : Option Int :=
  if s.startsWith "-" then (hexToNat? (s.drop 1).toString).map (fun n => -(n : Int))
  else (hexToNat? s).map (fun n => (n : Int))

def hex8 (n : Nat) : String :=
  let s := natToHex n
  String.ofList (List.replicate (8 - s.length) '0') ++ s

def parseBool? (s : String) : Option Bool :=
  if s == "1" then some true else if s == "0" then some false else none

def parseHdr? (s : String) : Option Hdr :=
  match s.splitOn ":" with
  | [t, b] => do
    let t ← t.toInt?
    let b ← hexToNat? b
    pure ⟨t, b⟩
  | _ => none

def parseParams? : List String → Option (Params × List String)
  | pl :: plb :: nr :: rmd :: mdrt :: tts :: ttpb :: af :: b94 :: rest => do
    let pl ← hexToNat? pl
    let plb ← hexToNat? plb
    let nr ← parseBool? nr
    let rmd ← parseBool? rmd
    let mdrt ← mdrt.toInt?
    let tts ← tts.toInt?
    let ttpb ← ttpb.toInt?
    let af ← af.toInt?
    let b94 ← parseBool? b94
    pure (⟨pl, plb, nr, rmd, mdrt, tts, ttpb, af, b94⟩, rest)
  | _ => none

def handleNext (rest : List String) : String :=
  match parseParams? rest with
  | some (p, newTime :: hdrs) =>
    match newTime.toInt?, hdrs.mapM parseHdr? with
    | some t, some hs =>
      match calcNextRequiredDifficulty p hs t with
      | some b => hex8 b
      | none => "assert"
    | _, _ => "bad-op"
  | _ => "bad-op"

def handleMtp (ts : List String) : String :=
  match ts.mapM (fun (s : String) => s.toInt?) with
  | some (t :: ts) => toString (calcPastMedianTime ((t :: ts).map (fun t => ⟨t, 0⟩)))
  | _ => "bad-op"

def handle : List String → String
  | ["c2b", c] => match hexToNat? c with
    | some c => signedHex (compactToBig c)
    | none => "bad-op"
  | ["b2c", n] => match parseSignedHex? n with
    | some n => hex8 (bigToCompact n)
    | none => "bad-op"
  | ["work", c] => match hexToNat? c with
    | some c => natToHex (calcWork c)
    | none => "bad-op"
  | ["pow", header, lim] =>
    match hexToList? header, hexToNat? lim with
    | some hd, some l =>
      if hd.length ≠ 80 then "bad-op" else
      let bits := leToNat ((hd.drop 72).take 4)
      match checkProofOfWork bits (BV.Sha256.hash2List hd) l with
      | .ok => "ok" | .badTarget => "badTarget" | .highHash => "highHash"
    | _, _ => "bad-op"
  | ["h2b", h] => match hexToList? h with
    | some bs => if bs.length ≠ 32 then "bad-op" else natToHex (hashToBig bs)
    | none => "bad-op"
  | "hctx" :: rest =>
    match parseParams? rest with
    | some (p, fast :: _skipcp :: _impl :: hb :: ht :: hdrs) =>
      match parseBool? fast, hexToNat? hb, ht.toInt?, hdrs.mapM parseHdr? with
      | some fast, some hb, some ht, some hs =>
        match checkBlockHeaderContext p hs ⟨ht, hb⟩ fast with
        | .ok => "ok" | .badDifficulty => "badDifficulty" | .timeTooOld => "timeTooOld"
        | .timeWarp => "timeWarp" | .assert => "assert" | .panic => "panic"
      | _, _, _, _ => "bad-op"
    | _ => "bad-op"
  | ["hsan", header, lim, nopow, nsec, adj] =>
    match hexToList? header, hexToNat? lim, parseBool? nopow, nsec.toInt?, adj.toInt? with
    | some hd, some l, some np, some ns, some adj =>
      if hd.length ≠ 80 then "bad-op" else
      let bits := leToNat ((hd.drop 72).take 4)
      let sec : Int := leToNat ((hd.drop 68).take 4)
      match checkBlockHeaderSanity bits (BV.Sha256.hash2List hd) l np sec ns adj with
      | .ok => "ok" | .badTarget => "badTarget" | .highHash => "highHash"
      | .invalidTime => "invalidTime" | .timeTooNew => "timeTooNew"
    | _, _, _, _, _ => "bad-op"
  | "worksum" :: bs =>
    match bs.mapM hexToNat? with
    | some (b :: bs) => natToHex (workSum ((b :: bs).map (fun b => ⟨0, b⟩)))
    | _ => "bad-op"
  | "easiest" :: rest =>
    match parseParams? rest with
    | some (p, [bits, d]) =>
      match hexToNat? bits, d.toInt? with
      | some b, some d => hex8 (calcEasiestDifficulty p b d)
      | _, _ => "bad-op"
    | _ => "bad-op"
  | "wpar" :: cs =>
    match cs.mapM hexToNat? with
    | some cs => " ".intercalate (cs.map (fun c =>
        natToHex (calcWork c) ++ "/" ++ hex8 (bigToCompact (compactToBig c))))
    | none => "bad-op"
  | ["ctxparams", tts, ttpb, af] =>
    match tts.toInt?, ttpb.toInt?, af.toInt? with
    | some tts, some ttpb, some af =>
      let p : Params := ⟨2^255 - 1, 0x207fffff, true, false, 0, tts, ttpb, af, false⟩
      match calcNextRequiredDifficulty p [⟨0, 0x207fffff⟩] 1 with
      | some b => s!"{p.blocksPerRetarget} {p.minSpan} {p.maxSpan} {hex8 b}"
      | none => "assert"
    | _, _, _ => "bad-op"
  | "phdr" :: rest =>
    match parseParams? rest with
    | some (p, g :: hdrs) =>
      match parseHdr? g, hdrs.mapM parseHdr? with
      | some g, some hs =>
        ",".intercalate ((processHeaders p [g] hs).2.map (fun v => match v with
          | .ok => "ok" | .badTarget => "badTarget" | .badDifficulty => "badDifficulty"
          | .timeTooOld => "timeTooOld" | .timeWarp => "timeWarp" | .assert => "assert" | .panic => "panic"))
      | _, _ => "bad-op"
    | _ => "bad-op"
  | "adj" :: samples =>
    match samples.mapM (fun (s : String) => match s.splitOn ":" with
        | [id, o] => o.toInt?.map (fun o => (id, o))
        | _ => none) with
    | some ss => ",".intercalate ((MedianTime.run MedianTime.new ss).map toString)
    | none => "bad-op"
  | "nextn" :: rest => handleNext rest
  | "mtpn" :: ts => handleMtp ts
  | "next" :: rest => handleNext rest
  | "mtp" :: ts => handleMtp ts
  | ["warp", h, bpr, ht, pt] =>
    match h.toInt?, bpr.toInt?, ht.toInt?, pt.toInt? with
    | some h, some bpr, some ht, some pt => if assertNoTimeWarp h bpr ht pt then "1" else "0"
    | _, _, _, _ => "bad-op"
  | ["subsidy", h, i] =>
    match h.toInt?, i.toInt? with
    | some h, some i => toString (calcBlockSubsidy h i)
    | _, _ => "bad-op"
  | _ => "bad-op"

end BV.C09.Driver
