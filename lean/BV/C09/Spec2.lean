/- C09 Spec, part 2 (separate file so that the executable model does not depend on it):
   Bitcoin Core's `arith_uint256::GetCompact` for positive numbers. Core-only. -/
import BV.C09.Spec
namespace BV.C09.Spec

/-- `GetCompact(false)`: size in bytes, the three most significant bytes (shifted up for short numbers),
    moved down by one byte when bit 23 would read as the sign. -/
def getCompact (a : Nat) : Nat :=
  let size := byteLen a
  let c := if size ≤ 3 then a * 256 ^ (3 - size) else a / 256 ^ (size - 3)
  if c / 0x800000 % 2 = 1 then (size + 1) * 2 ^ 24 + c / 256 else size * 2 ^ 24 + c

end BV.C09.Spec
