/- C09 helper lemmas, part 6: consequences for whole histories (MTP along a chain obeying the time-stamp
   rule), injectivity of the decoder on normal compacts, subsidy halving, hash range. -/
import BV.C09.Lemmas3
import BV.C09.Lemmas5
namespace BV.C09.Lemmas
open BV.C09 BV.C09.Spec

/-- every header of the (tip-first) history is later than the median time past of its ancestors -/
def TimesValid : List Hdr → Prop
  | [] => True
  | h :: rest => (rest ≠ [] → h.time > calcPastMedianTime rest) ∧ TimesValid rest

theorem l6_timesValid_append (ext base : List Hdr) (h : TimesValid (ext ++ base)) : TimesValid base := by
  induction ext with
  | nil => simpa using h
  | cons a ext ih => exact ih h.2

/-- along any history obeying the time-stamp rule the median time past of a descendant is never smaller
    than that of an ancestor -/
theorem l6_mtp_monotone_chain (ext base : List Hdr) (hb : base ≠ []) (hv : TimesValid (ext ++ base)) :
    calcPastMedianTime base ≤ calcPastMedianTime (ext ++ base) := by
  induction ext with
  | nil => simp
  | cons a ext ih =>
    have hne : ext ++ base ≠ [] := by
      intro h; exact hb (List.append_eq_nil_iff.mp h).2
    have h1 := ih hv.2
    have h2 := mtp_monotone a (ext ++ base) hne (hv.1 hne)
    exact Int.le_trans h1 h2

theorem l6_c2b_inj_normal (c1 c2 : Nat) (h1 : normalForm c1) (h2 : normalForm c2)
    (h : compactToBig c1 = compactToBig c2) : c1 = c2 := by
  rw [← b2c_c2b_normal c1 h1, ← b2c_c2b_normal c2 h2, h]

theorem l6_hashToBig_lt (h : List UInt8) : hashToBig h < 256 ^ h.length := by
  induction h with
  | nil => simp [hashToBig]
  | cons b t ih =>
    have hb : b.toNat < 256 := UInt8.toNat_lt b
    have e : hashToBig (b :: t) = hashToBig t * 256 + b.toNat := rfl
    rw [e, List.length_cons, Nat.pow_succ]
    have : hashToBig t + 1 ≤ 256 ^ t.length := ih
    have := Nat.mul_le_mul_right 256 this
    omega

theorem l6_subsidy_halving (h I : Nat) (hI : 0 < I) : subsidy (h + I) I = subsidy h I / 2 := by
  unfold subsidy
  simp only [Nat.ne_of_gt hI, if_false]
  rw [Nat.add_div_right _ hI, Nat.pow_succ, Nat.div_div_eq_div_mul]

theorem l6_subsidy_antitone (h h' I : Nat) (hh : h ≤ h') : subsidy h' I ≤ subsidy h I := by
  unfold subsidy
  by_cases hI : I = 0
  · simp [hI]
  · simp only [hI, if_false]
    apply Nat.div_le_div_left
    · exact Nat.pow_le_pow_right (by decide) (Nat.div_le_div_right hh)
    · exact Nat.pow_pos (by decide)

theorem l6_subsidy_zero_iff (h I : Nat) (hI : 0 < I) : subsidy h I = 0 ↔ 33 * I ≤ h := by
  unfold subsidy
  simp only [Nat.ne_of_gt hI, if_false]
  have hq : 33 * I ≤ h ↔ 33 ≤ h / I := by
    rw [Nat.le_div_iff_mul_le hI]
  rw [hq]
  constructor
  · intro hz
    by_cases hc : 33 ≤ h / I
    · exact hc
    · exfalso
      have hle : 2 ^ (h / I) ≤ 2 ^ 32 := Nat.pow_le_pow_right (by decide) (by omega)
      have hb : 2 ^ 32 ≤ BASE_SUBSIDY := by decide
      have : 0 < BASE_SUBSIDY / 2 ^ (h / I) := Nat.div_pos (by omega) (Nat.pow_pos (by decide))
      omega
  · intro hc
    apply Nat.div_eq_of_lt
    calc BASE_SUBSIDY < 2 ^ 33 := by decide
      _ ≤ 2 ^ (h / I) := Nat.pow_le_pow_right (by decide) hc

/-- an accepted header keeps the median time past monotone -/
theorem l6_accepted_mtp (p : Params) (prev : Hdr) (rest : List Hdr) (h : Hdr)
    (hok : checkBlockHeaderContext p (prev :: rest) h false = .ok) :
    calcPastMedianTime (prev :: rest) ≤ calcPastMedianTime (h :: prev :: rest) :=
  mtp_monotone h (prev :: rest) (by simp) ((l5_ctx_ok_iff p prev rest h).mp hok).2.1

/-- the bits required on a retarget boundary are a normal compact whenever the new target is positive -/
theorem l6_retarget_bits_normal (v : Int) (hv : 0 < v) (hlen : v < 256 ^ 254) :
    normalForm (bigToCompact v) := by
  obtain ⟨a, rfl⟩ := Int.eq_ofNat_of_zero_le (Int.le_of_lt hv)
  have hal : a < 256 ^ 254 := by
    have : ((a : Nat) : Int) < ((256 ^ 254 : Nat) : Int) := by rw [Int.natCast_pow]; exact hlen
    exact Int.ofNat_lt.mp this
  exact b2c_is_normal a (by omega) (l5_byteLen_le_of_lt_pow a 254 hal)

end BV.C09.Lemmas
