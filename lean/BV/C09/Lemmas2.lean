/- C09 helper lemmas, part 2: BigToCompact as truncation to 3 significant bytes. -/
import BV.C09.Lemmas
namespace BV.C09.Lemmas
open BV.C09 BV.C09.Spec

theorem byteLen_bounds (n : Nat) (h : 0 < n) : 256 ^ (byteLen n - 1) ≤ n ∧ n < 256 ^ byteLen n := by
  induction n using Nat.strongRecOn with
  | _ n ih =>
    rw [byteLen_pos h]
    by_cases hq : n / 256 = 0
    · rw [hq, byteLen_zero]; simp; omega
    · have hq' : 0 < n / 256 := Nat.pos_of_ne_zero hq
      have := ih (n / 256) (by omega) hq'
      have hb : byteLen (n / 256) ≥ 1 := by rw [byteLen_pos hq']; omega
      constructor
      · have e : byteLen (n / 256) + 1 - 1 = (byteLen (n / 256) - 1) + 1 := by omega
        rw [e, Nat.pow_succ]
        have := this.1
        omega
      · rw [Nat.pow_succ]
        have := this.2
        omega

theorem shift_top3 (a : Nat) (e : Nat) (he : 3 < e) (hbl : byteLen a = e) (ha : 0 < a) :
    0x010000 ≤ a / 256 ^ (e - 3) ∧ a / 256 ^ (e - 3) < 0x1000000 := by
  have hb := byteLen_bounds a ha
  rw [hbl] at hb
  have hpos : 0 < 256 ^ (e - 3) := Nat.pow_pos (by decide)
  constructor
  · rw [Nat.le_div_iff_mul_le hpos]
    have : 256 ^ (e - 1) = 0x010000 * 256 ^ (e - 3) := by
      have : e - 1 = 2 + (e - 3) := by omega
      rw [this, Nat.pow_add]
    omega
  · rw [Nat.div_lt_iff_lt_mul hpos]
    have : 256 ^ e = 0x1000000 * 256 ^ (e - 3) := by
      have : e = 3 + (e - 3) := by omega
      conv => lhs; rw [this, Nat.pow_add]
    omega


/-- the three most significant base-256 digits of `a` (shifted up when `a` is shorter) -/
def mant3 (a e : Nat) : Nat := if e ≤ 3 then a * 256 ^ (3 - e) else a / 256 ^ (e - 3)

theorem mant3_lt (a : Nat) (ha : 0 < a) : mant3 a (byteLen a) < 0x1000000 := by
  unfold mant3
  have hb := byteLen_bounds a ha
  split
  · rename_i h3
    have : a * 256 ^ (3 - byteLen a) < 256 ^ byteLen a * 256 ^ (3 - byteLen a) :=
      Nat.mul_lt_mul_of_pos_right hb.2 (Nat.pow_pos (by decide))
    rw [← Nat.pow_add] at this
    have e : byteLen a + (3 - byteLen a) = 3 := by omega
    rw [e] at this
    exact this
  · rename_i h3
    exact (shift_top3 a _ (by omega) rfl ha).2

theorem pack_or (e m : Nat) (hm : m < 2 ^ 24) (he : e < 256) :
    ((e <<< 24) % 2 ^ 32) ||| m = e * 2 ^ 24 + m := by
  have : (e <<< 24) % 2 ^ 32 = e <<< 24 := by rw [Nat.shiftLeft_eq]; omega
  rw [this, ← Nat.shiftLeft_add_eq_or_of_lt hm, Nat.shiftLeft_eq]

/-- closed form of `bigToCompact` on positive numbers of at most 254 bytes -/
theorem b2c_pos (a : Nat) (ha : 0 < a) (hlen : byteLen a ≤ 254) :
    bigToCompact (a : Int) =
      (if mant3 a (byteLen a) / 0x800000 % 2 = 1
        then (byteLen a + 1) * 2 ^ 24 + mant3 a (byteLen a) / 256
        else byteLen a * 2 ^ 24 + mant3 a (byteLen a)) := by
  have hlt := mant3_lt a ha
  unfold bigToCompact
  have hne : (a : Int) ≠ 0 := by omega
  have hnn : ¬ (a : Int) < 0 := by omega
  simp only [hne, if_false, Int.natAbs_natCast, hnn]
  have hm0 : (if byteLen a ≤ 3 then ((a % 2 ^ 64 % 2 ^ 32) <<< (8 * (3 - byteLen a))) % 2 ^ 32
      else (((a : Int) >>> (8 * (byteLen a - 3))).natAbs % 2 ^ 64) % 2 ^ 32) = mant3 a (byteLen a) := by
    unfold mant3 at *
    by_cases h3 : byteLen a ≤ 3
    · simp only [h3, if_true] at hlt ⊢
      have hb := byteLen_bounds a ha
      have ha24 : a < 2 ^ 24 := by
        calc a < 256 ^ byteLen a := hb.2
          _ ≤ 256 ^ 3 := Nat.pow_le_pow_right (by decide) h3
          _ = 2 ^ 24 := by decide
      have : a % 2 ^ 64 % 2 ^ 32 = a := by omega
      rw [this, Nat.shiftLeft_eq, two_pow_8k]
      omega
    · simp only [h3, if_false] at hlt ⊢
      rw [Int.shiftRight_eq_div_pow, two_pow_8k]
      have : ((a : Int) / ((256 ^ (byteLen a - 3) : Nat) : Int)).natAbs = a / 256 ^ (byteLen a - 3) := by
        rw [← Int.natCast_ediv, Int.natAbs_natCast]
      rw [this]; omega
  rw [hm0]
  by_cases hs : mant3 a (byteLen a) / 0x800000 % 2 = 1
  · simp only [hs, if_true]
    rw [Nat.shiftRight_eq_div_pow]
    exact pack_or _ _ (by omega) (by omega)
  · simp only [hs, if_false]
    exact pack_or _ _ (by omega) (by omega)

theorem compactValue_pack (e m : Nat) (hm : m < 2 ^ 23) :
    compactValue (e * 2 ^ 24 + m) = ((if e ≤ 3 then m / 256 ^ (3 - e) else m * 256 ^ (e - 3) : Nat) : Int) := by
  unfold compactValue
  have a1 : (e * 2^24 + m) % 2^23 = m := by omega
  have a2 : (e * 2^24 + m) / 2^24 = e := by omega
  have a3 : (e * 2^24 + m) / 2^23 % 2 = 0 := by omega
  simp only [a1, a2, a3, Nat.zero_ne_one, if_false]

/-- `BigToCompact` keeps the three most significant bytes: decoding the result gives `a` rounded down
    by less than `256^(len-2)`. -/
theorem c2b_b2c_trunc (a : Nat) (ha : 0 < a) (hlen : byteLen a ≤ 254) :
    compactToBig (bigToCompact (a : Int)) ≤ (a : Int) ∧
    (a : Int) - compactToBig (bigToCompact (a : Int)) < ((256 ^ (byteLen a - 2) : Nat) : Int) := by
  rw [b2c_pos a ha hlen, compactToBig_eq_spec]
  have hlt := mant3_lt a ha
  have hb := byteLen_bounds a ha
  have hepos : 1 ≤ byteLen a := by rw [byteLen_pos ha]; omega
  generalize he : byteLen a = e at *
  by_cases hs : mant3 a e / 0x800000 % 2 = 1
  · simp only [hs, if_true]
    rw [compactValue_pack _ _ (by omega)]
    unfold mant3 at *
    by_cases h3 : e ≤ 3
    · simp only [h3, if_true] at hs hlt ⊢
      by_cases h33 : e = 3
      · subst h33
        simp only [Nat.sub_self, Nat.pow_zero, Nat.mul_one] at hs hlt ⊢
        simp only [show ¬ (3 + 1 ≤ 3) by omega, if_false, show 3 + 1 - 3 = 1 by rfl, Nat.pow_one]
        constructor
        · have := Nat.div_mul_le_self a 256; omega
        · have := Nat.mod_lt a (by decide : 0 < 256)
          have := Nat.div_add_mod a 256; omega
      · have hle : e + 1 ≤ 3 := by omega
        simp only [hle, if_true]
        have e1 : 3 - e = (3 - (e + 1)) + 1 := by omega
        have : a * 256 ^ (3 - e) / 256 / 256 ^ (3 - (e + 1)) = a := by
          rw [e1, Nat.pow_succ, ← Nat.mul_assoc, Nat.mul_div_cancel _ (by decide : 0 < 256),
            Nat.mul_div_cancel _ (Nat.pow_pos (by decide))]
        rw [this]
        have : 0 < 256 ^ (e - 2) := Nat.pow_pos (by decide)
        omega
    · simp only [h3, if_false] at hs hlt ⊢
      simp only [show ¬ (e + 1 ≤ 3) by omega, if_false]
      have e1 : e + 1 - 3 = (e - 3) + 1 := by omega
      have e2 : e - 2 = (e - 3) + 1 := by omega
      rw [e1, e2, Nat.div_div_eq_div_mul, ← Nat.pow_succ]
      have hP : 0 < 256 ^ (e - 3 + 1) := Nat.pow_pos (by decide)
      generalize 256 ^ (e - 3 + 1) = P at hP ⊢
      have h1 := Nat.div_mul_le_self a P
      have h2 := Nat.mod_lt a hP
      have h3' := Nat.div_add_mod a P
      have h4 := Nat.mul_comm P (a / P)
      generalize a / P * P = Q at *
      constructor <;> omega
  · simp only [hs, if_false]
    rw [compactValue_pack _ _ (by omega)]
    unfold mant3 at *
    by_cases h3 : e ≤ 3
    · simp only [h3, if_true] at hs hlt ⊢
      rw [Nat.mul_div_cancel _ (Nat.pow_pos (by decide))]
      have : 0 < 256 ^ (e - 2) := Nat.pow_pos (by decide)
      omega
    · simp only [h3, if_false] at hs hlt ⊢
      constructor
      · have := Nat.div_mul_le_self a (256 ^ (e - 3)); omega
      · have h1 := Nat.mod_lt a (Nat.pow_pos (n := e - 3) (by decide : 0 < 256))
        have h2 := Nat.div_add_mod a (256 ^ (e - 3))
        have h3' := Nat.mul_comm (256 ^ (e - 3)) (a / 256 ^ (e - 3))
        have h4 : 256 ^ (e - 3) ≤ 256 ^ (e - 2) := Nat.pow_le_pow_right (by decide) (by omega)
        omega

end BV.C09.Lemmas
