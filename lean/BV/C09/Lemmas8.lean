/- C09 helper lemmas, part 8: network-adjusted time (`medianTime` in mediantime.go). -/
import BV.C09.Lemmas
namespace BV.C09.Lemmas
open BV.C09 BV.C09.Spec

theorem l8_dup (m : MedianTime) (id : String) (o : Int) (h : m.ids.contains id = true) :
    m.addSample id o = m := by
  unfold MedianTime.addSample; rw [if_pos h]

/-- the offsets kept after one more sample -/
def l8_offs (m : MedianTime) (o : Int) : List Int :=
  (if m.offsets.length = MAX_MEDIAN_TIME_ENTRIES then m.offsets.drop 1 else m.offsets) ++ [Int.tdiv o 1000]

def l8_med (m : MedianTime) (o : Int) : Int := (sortInts (l8_offs m o)).getD ((l8_offs m o).length / 2) 0

theorem l8_unfold (m : MedianTime) (id : String) (o : Int) (h : m.ids.contains id = false) :
    m.addSample id o =
      { ids := id :: m.ids, offsets := l8_offs m o,
        offset := if (l8_offs m o).length < 5 ∨ (l8_offs m o).length % 2 ≠ 1 then m.offset
                  else (if (l8_med m o).natAbs < 4200 then l8_med m o else 0) } := by
  unfold MedianTime.addSample
  have hh : ¬ (m.ids.contains id = true) := by rw [h]; exact Bool.false_ne_true
  rw [if_neg hh]
  show (if (l8_offs m o).length < 5 ∨ (l8_offs m o).length % 2 ≠ 1 then _ else _) = _
  by_cases hc : (l8_offs m o).length < 5 ∨ (l8_offs m o).length % 2 ≠ 1
  · rw [if_pos hc, if_pos hc]; rfl
  · rw [if_neg hc, if_neg hc]; rfl

theorem l8_offsets (m : MedianTime) (id : String) (o : Int) (h : m.ids.contains id = false) :
    (m.addSample id o).offsets = l8_offs m o := by
  rw [l8_unfold m id o h]

theorem l8_offs_len (m : MedianTime) (o : Int) (hl : m.offsets.length ≤ MAX_MEDIAN_TIME_ENTRIES) :
    (l8_offs m o).length ≤ MAX_MEDIAN_TIME_ENTRIES ∧
      (m.offsets.length = MAX_MEDIAN_TIME_ENTRIES → (l8_offs m o).length = MAX_MEDIAN_TIME_ENTRIES) := by
  unfold l8_offs
  have e : MAX_MEDIAN_TIME_ENTRIES = 200 := rfl
  rw [e] at hl ⊢
  by_cases hc : m.offsets.length = 200
  · rw [if_pos hc]
    simp only [List.length_append, List.length_drop, List.length_cons, List.length_nil]
    omega
  · rw [if_neg hc]
    simp only [List.length_append, List.length_cons, List.length_nil]
    omega

theorem l8_len (m : MedianTime) (id : String) (o : Int) (hl : m.offsets.length ≤ MAX_MEDIAN_TIME_ENTRIES) :
    (m.addSample id o).offsets.length ≤ MAX_MEDIAN_TIME_ENTRIES ∧
      (m.offsets.length = MAX_MEDIAN_TIME_ENTRIES → (m.addSample id o).offsets.length = MAX_MEDIAN_TIME_ENTRIES) := by
  by_cases h : m.ids.contains id = true
  · rw [l8_dup m id o h]; exact ⟨hl, fun x => x⟩
  · have h' : m.ids.contains id = false := by simpa using h
    rw [l8_offsets m id o h']
    exact l8_offs_len m o hl

/-- the offset never moves the clock by 70 minutes or more -/
theorem l8_bounded (m : MedianTime) (id : String) (o : Int) (hb : m.offset.natAbs < 4200) :
    (m.addSample id o).offset.natAbs < 4200 := by
  by_cases h : m.ids.contains id = true
  · rw [l8_dup m id o h]; exact hb
  · have h' : m.ids.contains id = false := by simpa using h
    rw [l8_unfold m id o h']
    simp only []
    split
    · exact hb
    · split
      · assumption
      · decide

/-- once 200 samples are stored the offset is frozen (Core's behaviour, mirrored on purpose) -/
theorem l8_frozen (m : MedianTime) (id : String) (o : Int)
    (hl : m.offsets.length = MAX_MEDIAN_TIME_ENTRIES) : (m.addSample id o).offset = m.offset := by
  by_cases h : m.ids.contains id = true
  · rw [l8_dup m id o h]
  · have h' : m.ids.contains id = false := by simpa using h
    rw [l8_unfold m id o h']
    have := (l8_offs_len m o (Nat.le_of_eq hl)).2 hl
    unfold MAX_MEDIAN_TIME_ENTRIES at this
    simp [this]

/-- fewer than five samples, or an even number: no update -/
theorem l8_no_update (m : MedianTime) (id : String) (o : Int) (h : m.ids.contains id = false)
    (hn : (l8_offs m o).length < 5 ∨ (l8_offs m o).length % 2 ≠ 1) :
    (m.addSample id o).offset = m.offset := by
  rw [l8_unfold m id o h]; simp only [hn, if_true]

/-- an update sets the offset to the median of the stored offsets, or to 0 when that median is out of range -/
theorem l8_update (m : MedianTime) (id : String) (o : Int) (h : m.ids.contains id = false)
    (h5 : 5 ≤ (l8_offs m o).length) (hodd : (l8_offs m o).length % 2 = 1) :
    (m.addSample id o).offset = (if (l8_med m o).natAbs < 4200 then l8_med m o else 0) ∧
      l8_med m o ∈ l8_offs m o ∧
      ((l8_offs m o).filter (· < l8_med m o)).length ≤ (l8_offs m o).length / 2 ∧
      ((l8_offs m o).filter (· > l8_med m o)).length ≤ (l8_offs m o).length / 2 := by
  have hperm := sortInts_perm (l8_offs m o)
  have hk : (l8_offs m o).length / 2 < (sortInts (l8_offs m o)).length := by rw [hperm.length_eq]; omega
  have hm : l8_med m o = (sortInts (l8_offs m o))[(l8_offs m o).length / 2] := by
    show (sortInts (l8_offs m o)).getD ((l8_offs m o).length / 2) 0 = _
    rw [List.getD_eq_getElem?_getD, List.getElem?_eq_getElem hk]; rfl
  have hmed := median_of_sorted (sortInts (l8_offs m o)) (sortInts_sorted _) _ hk _ hm
  refine ⟨?_, ?_, ?_, ?_⟩
  · rw [l8_unfold m id o h]
    have hn : ¬ ((l8_offs m o).length < 5 ∨ (l8_offs m o).length % 2 ≠ 1) := by omega
    simp only [hn, if_false]
  · rw [hm]; exact hperm.mem_iff.mp (List.getElem_mem hk)
  · rw [← (hperm.filter _).length_eq]; exact hmed.1
  · rw [← (hperm.filter _).length_eq]
    have := hmed.2; rw [hperm.length_eq] at this; omega

/-- every offset reported along any sample sequence is within the cap -/
theorem l8_run_bounded (ss : List (String × Int)) : ∀ m : MedianTime, m.offset.natAbs < 4200 →
    ∀ x ∈ MedianTime.run m ss, x.natAbs < 4200 := by
  induction ss with
  | nil => intro m _ x hx; simp [MedianTime.run] at hx
  | cons s ss ih =>
    intro m hb x hx
    obtain ⟨id, o⟩ := s
    simp only [MedianTime.run, List.mem_cons] at hx
    rcases hx with rfl | hx
    · exact l8_bounded m id o hb
    · exact ih _ (l8_bounded m id o hb) x hx

end BV.C09.Lemmas
