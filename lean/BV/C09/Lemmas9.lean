/- C09 helper lemmas, part 9: `BigToCompact` = Core's `GetCompact`. -/
import BV.C09.Lemmas2
import BV.C09.Spec2
namespace BV.C09.Lemmas
open BV.C09 BV.C09.Spec

theorem l9_b2c_eq_getCompact (a : Nat) (ha : 0 < a) (hlen : byteLen a ≤ 254) :
    bigToCompact (a : Int) = getCompact a := by
  rw [b2c_pos a ha hlen]; rfl

end BV.C09.Lemmas
