/- C09 helper lemmas. -/
import BV.C09.Model
namespace BV.C09.Lemmas
open BV.C09 BV.C09.Spec

theorem two_pow_8k (k : Nat) : 2 ^ (8 * k) = 256 ^ k := by
  rw [Nat.pow_mul]

theorem compactToBig_eq_spec (c : Nat) : compactToBig c = compactValue c := by
  unfold compactToBig compactValue
  simp only [Nat.shiftRight_eq_div_pow, Nat.shiftLeft_eq, two_pow_8k]

theorem byteLen_pos {n : Nat} (h : 0 < n) : byteLen n = byteLen (n / 256) + 1 := by
  rw [byteLen]; simp [Nat.ne_of_gt h]

theorem byteLen_zero : byteLen 0 = 0 := by rw [byteLen]; simp

theorem byteLen_mul_pow (m k : Nat) (hm : 0 < m) : byteLen (m * 256 ^ k) = byteLen m + k := by
  induction k with
  | zero => simp
  | succ k ih =>
    have hpos : 0 < m * 256 ^ (k+1) := Nat.mul_pos hm (Nat.pow_pos (by decide))
    rw [byteLen_pos hpos]
    have : m * 256 ^ (k+1) / 256 = m * 256 ^ k := by
      rw [Nat.pow_succ, ← Nat.mul_assoc, Nat.mul_div_cancel _ (by decide : 0 < 256)]
    rw [this, ih]; omega

theorem byteLen_three (m : Nat) (h1 : 0x010000 ≤ m) (h2 : m < 0x1000000) : byteLen m = 3 := by
  rw [byteLen_pos (by omega), byteLen_pos (by omega), byteLen_pos (by omega)]
  have : m / 256 / 256 / 256 = 0 := by omega
  rw [this, byteLen_zero]

theorem b2c_c2b (e m : Nat) (he : 3 ≤ e) (he' : e < 256)
    (hm : 0x010000 ≤ m) (hm' : m < 0x800000) :
    bigToCompact (compactToBig (e * 2^24 + m)) = e * 2^24 + m := by
  have hval : compactToBig (e * 2^24 + m) = ((m * 256 ^ (e - 3) : Nat) : Int) := by
    rw [compactToBig_eq_spec]; unfold compactValue
    have a1 : (e * 2^24 + m) % 2^23 = m := by omega
    have a2 : (e * 2^24 + m) / 2^24 = e := by omega
    have a3 : (e * 2^24 + m) / 2^23 % 2 = 0 := by omega
    simp only [a1, a2, a3]
    have : ¬ e ≤ 3 ∨ e = 3 := by omega
    rcases this with h | h
    · simp [h]
    · subst h; simp
  rw [hval]
  have hpos : 0 < m * 256 ^ (e - 3) := Nat.mul_pos (by omega) (Nat.pow_pos (by decide))
  have hbl : byteLen (m * 256 ^ (e - 3)) = e := by
    rw [byteLen_mul_pow _ _ (by omega), byteLen_three m hm (by omega)]; omega
  unfold bigToCompact
  have hne : ((m * 256 ^ (e - 3) : Nat) : Int) ≠ 0 := by omega
  simp only [hne, if_false, Int.natAbs_natCast, hbl]
  have hnn : ¬ ((m * 256 ^ (e - 3) : Nat) : Int) < 0 := by omega
  simp only [hnn, if_false]
  by_cases h3 : e ≤ 3
  · have : e = 3 := by omega
    subst this
    simp only [Nat.sub_self, Nat.pow_zero, Nat.mul_one, Nat.mul_zero, Nat.shiftLeft_zero, Nat.le_refl, if_true]
    have m1 : m % 2^64 % 2^32 % 2^32 = m := by omega
    rw [m1]
    have m2 : m / 0x00800000 % 2 = 0 := by omega
    simp only [m2]
    simp only [Nat.zero_ne_one, if_false]
    have : (3 <<< 24) % 2^32 = 3 <<< 24 := by decide
    rw [this, ← Nat.shiftLeft_add_eq_or_of_lt (by omega : m < 2^24)]
    simp [Nat.shiftLeft_eq]
  · simp only [h3, if_false]
    have hs : ((m * 256 ^ (e - 3) : Nat) : Int) >>> (8 * (e - 3)) = (m : Int) := by
      rw [Int.shiftRight_eq_div_pow]
      rw [two_pow_8k]
      rw [Int.natCast_mul]
      exact Int.mul_ediv_cancel _ (by have := Nat.pow_pos (n := e - 3) (by decide : 0 < 256); omega)
    simp only [hs, Int.natAbs_natCast]
    have m1 : m % 2^64 % 2^32 = m := by omega
    simp only [m1]
    have m2 : m / 0x00800000 % 2 = 0 := by omega
    simp only [m2, Nat.zero_ne_one, if_false]
    have : (e <<< 24) % 2^32 = e <<< 24 := by
      rw [Nat.shiftLeft_eq]; omega
    rw [this, ← Nat.shiftLeft_add_eq_or_of_lt (by omega : m < 2^24)]
    simp [Nat.shiftLeft_eq]

theorem calcWork_pos (bits : Nat) (h0 : 0 < compactToBig bits) (h1 : compactToBig bits < 2^256) :
    0 < calcWork bits := by
  unfold calcWork
  simp only [show ¬ compactToBig bits ≤ 0 by omega, if_false]
  apply Nat.div_pos
  · have : (compactToBig bits).toNat < 2^256 := by omega
    omega
  · omega


theorem retarget_eq_spec (p : Params) (last : Hdr) (rest : List Hdr) (t : Int) (first : Hdr)
    (hnr : p.noRetarget = false)
    (hb : Int.tmod ((rest.length : Int) + 1) p.blocksPerRetarget = 0)
    (hd : 0 ≤ p.blocksPerRetarget - 1)
    (hf : (last :: rest)[(p.blocksPerRetarget - 1).toNat]? = some first) :
    calcNextRequiredDifficulty p (last :: rest) t =
      some (bigToCompact (retarget
        (if p.enforceBIP94 then compactValue first.bits else compactValue last.bits)
        (last.time - first.time) p.minSpan p.maxSpan p.targetTimespan p.powLimit)) := by
  unfold calcNextRequiredDifficulty
  simp only [hnr, Bool.false_eq_true, if_false, hb, ne_eq, not_true_eq_false,
    show ¬ (p.blocksPerRetarget - 1 < 0) by omega, hf]
  unfold retarget clamp
  simp only [compactToBig_eq_spec]

theorem tdiv_mono {a b T : Int} (ha : 0 ≤ a) (hab : a ≤ b) (hT : 0 < T) : Int.tdiv a T ≤ Int.tdiv b T := by
  rw [Int.tdiv_eq_ediv_of_nonneg ha, Int.tdiv_eq_ediv_of_nonneg (by omega)]
  exact Int.ediv_le_ediv hT hab

theorem retarget_clamped (old actual tMin tMax T lim : Int)
    (hold : 0 ≤ old) (hT : 0 < T) (h0 : 0 ≤ tMin) (hmm : tMin ≤ tMax) :
    retarget old actual tMin tMax T lim ≤ lim ∧
    (retarget old actual tMin tMax T lim = lim ∨
      (Int.tdiv (old * tMin) T ≤ retarget old actual tMin tMax T lim ∧
       retarget old actual tMin tMax T lim ≤ Int.tdiv (old * tMax) T)) := by
  unfold retarget
  have hc1 : tMin ≤ clamp actual tMin tMax := by
    unfold clamp
    split
    · omega
    · split <;> omega
  have hc2 : clamp actual tMin tMax ≤ tMax := by
    unfold clamp
    split
    · omega
    · split <;> omega
  simp only []
  split
  · exact ⟨Int.le_refl _, Or.inl rfl⟩
  · refine ⟨by omega, Or.inr ⟨?_, ?_⟩⟩
    · exact tdiv_mono (Int.mul_nonneg hold h0) (Int.mul_le_mul_of_nonneg_left hc1 hold) hT
    · exact tdiv_mono (Int.mul_nonneg hold (by omega)) (Int.mul_le_mul_of_nonneg_left hc2 hold) hT

theorem walkback_spec (p : Params) (chain : List Hdr) :
    findPrevTestNetDifficulty p chain =
      match (withHeights chain).find? (fun (h, ht) =>
          !(decide (Int.tmod (ht : Int) p.blocksPerRetarget ≠ 0) && h.bits == p.powLimitBits)) with
      | some (h, _) => h.bits
      | none => p.powLimitBits := by
  induction chain with
  | nil => simp [findPrevTestNetDifficulty, withHeights]
  | cons h rest ih =>
    unfold findPrevTestNetDifficulty withHeights
    by_cases hc : Int.tmod (rest.length : Int) p.blocksPerRetarget ≠ 0 ∧ h.bits = p.powLimitBits
    · rw [if_pos hc, ih, List.find?_cons_of_neg]
      have a := hc.1
      have b := hc.2
      simp [a, b]
    · simp only [hc, if_false]
      rw [List.find?_cons_of_pos]
      simp only [ne_eq, Bool.not_eq_true', Bool.and_eq_false_iff, decide_eq_false_iff_not, Decidable.not_not, beq_eq_false_iff_ne]
      by_cases h1 : Int.tmod (rest.length : Int) p.blocksPerRetarget = 0
      · exact Or.inl h1
      · exact Or.inr (fun h2 => hc ⟨h1, h2⟩)

theorem subsidy_eq_spec (h i : Nat) (hi : 0 < i) :
    calcBlockSubsidy (h : Int) (i : Int) = subsidy h i := by
  unfold calcBlockSubsidy subsidy
  have h1 : ¬ ((i : Int) = 0) := by omega
  have h2 : ¬ (i = 0) := by omega
  simp only [h1, h2, if_false]
  have hq : Int.tdiv (h : Int) (i : Int) = ((h / i : Nat) : Int) := by
    rw [Int.tdiv_eq_ediv_of_nonneg (by omega)]; rfl
  rw [hq]
  have hnn : ¬ (((h / i : Nat) : Int) < 0) := Int.not_lt.mpr (Int.natCast_nonneg _)
  rw [if_neg hnn, Int.toNat_natCast]
  by_cases hge : h / i ≥ 64
  · rw [if_pos hge]
    have : BASE_SUBSIDY < 2 ^ (h / i) := by
      calc BASE_SUBSIDY < 2 ^ 64 := by decide
        _ ≤ 2 ^ (h / i) := Nat.pow_le_pow_right (by decide) hge
    exact (Nat.div_eq_of_lt this).symm
  · rw [if_neg hge, Nat.shiftRight_eq_div_pow]

theorem halvingSum_bound (q : Nat) : halvingSum q + 2 * (BASE_SUBSIDY / 2^q) ≤ 2 * BASE_SUBSIDY := by
  induction q with
  | zero => simp [halvingSum]
  | succ q ih =>
    unfold halvingSum
    have : BASE_SUBSIDY / 2^(q+1) = BASE_SUBSIDY / 2^q / 2 := by
      rw [Nat.pow_succ, Nat.div_div_eq_div_mul]
    rw [this]; omega

theorem total_eq (I : Nat) (hI : 0 < I) (q r : Nat) (hr : r < I) :
    totalSubsidy I (I * q + r) = I * halvingSum q + r * (BASE_SUBSIDY / 2^q) := by
  induction q generalizing r with
  | zero =>
    induction r with
    | zero => simp [totalSubsidy, halvingSum]
    | succ r ih =>
      have := ih (by omega)
      simp only [Nat.mul_zero, Nat.zero_add] at this ⊢
      rw [totalSubsidy, this]
      unfold subsidy
      simp only [Nat.ne_of_gt hI, if_false, Nat.div_eq_of_lt (by omega : r < I), halvingSum]
      rw [Nat.add_mul]; omega
  | succ q ihq =>
    induction r with
    | zero =>
      have h := ihq (I - 1) (by omega)
      have e1 : I * (q + 1) + 0 = (I * q + (I - 1)) + 1 := by rw [Nat.mul_succ]; omega
      rw [e1, totalSubsidy, h]
      unfold subsidy
      have hdiv : (I * q + (I - 1)) / I = q := by
        rw [Nat.mul_add_div hI, Nat.div_eq_of_lt (by omega)]; omega
      simp only [Nat.ne_of_gt hI, if_false, hdiv, halvingSum, Nat.zero_mul, Nat.add_zero]
      rw [Nat.mul_add]
      have : (I - 1) * (BASE_SUBSIDY / 2 ^ q) + BASE_SUBSIDY / 2 ^ q = I * (BASE_SUBSIDY / 2 ^ q) := by
        conv => rhs; rw [show I = (I - 1) + 1 by omega, Nat.add_mul, Nat.one_mul]
      omega
    | succ r ih =>
      have := ih (by omega)
      have e1 : I * (q + 1) + (r + 1) = (I * (q+1) + r) + 1 := by omega
      rw [e1, totalSubsidy, this]
      unfold subsidy
      have hdiv : (I * (q+1) + r) / I = q + 1 := by
        rw [Nat.mul_add_div hI, Nat.div_eq_of_lt (by omega)]
      simp only [Nat.ne_of_gt hI, if_false, hdiv]
      rw [Nat.add_mul]; omega

theorem total_subsidy_le (N I : Nat) (hI : 0 < I) (hI' : I ≤ 210000) :
    totalSubsidy I N ≤ MAX_MONEY := by
  have hN : N = I * (N / I) + N % I := (Nat.div_add_mod N I).symm
  rw [hN, total_eq I hI _ _ (Nat.mod_lt _ hI)]
  have hb := halvingSum_bound (N / I)
  have hr : N % I < I := Nat.mod_lt _ hI
  have h1 : N % I * (BASE_SUBSIDY / 2 ^ (N / I)) ≤ I * (BASE_SUBSIDY / 2 ^ (N / I)) :=
    Nat.mul_le_mul_right _ (by omega)
  have h2 : I * halvingSum (N / I) + I * (BASE_SUBSIDY / 2 ^ (N / I)) ≤ I * (2 * BASE_SUBSIDY) := by
    rw [← Nat.mul_add]; exact Nat.mul_le_mul_left _ (by omega)
  have h3 : I * (2 * BASE_SUBSIDY) ≤ 210000 * (2 * BASE_SUBSIDY) := Nat.mul_le_mul_right _ hI'
  have h4 : 210000 * (2 * BASE_SUBSIDY) = MAX_MONEY := by decide
  omega


theorem insertSorted_perm (x : Int) (l : List Int) : (insertSorted x l).Perm (x :: l) := by
  induction l with
  | nil => exact List.Perm.refl _
  | cons y ys ih =>
    unfold insertSorted
    split
    · exact List.Perm.refl _
    · exact (List.Perm.cons y ih).trans (List.Perm.swap x y ys)

theorem sortInts_perm (l : List Int) : (sortInts l).Perm l := by
  induction l with
  | nil => exact List.Perm.refl _
  | cons x xs ih =>
    show (insertSorted x (sortInts xs)).Perm (x :: xs)
    exact (insertSorted_perm x _).trans (List.Perm.cons x ih)

theorem insertSorted_sorted (x : Int) (l : List Int) (h : l.Pairwise (· ≤ ·)) :
    (insertSorted x l).Pairwise (· ≤ ·) := by
  induction l with
  | nil => simp [insertSorted]
  | cons y ys ih =>
    unfold insertSorted
    have hy := List.pairwise_cons.mp h
    split
    · rename_i hxy
      refine List.pairwise_cons.mpr ⟨?_, h⟩
      intro a ha
      rcases List.mem_cons.mp ha with rfl | ha
      · exact hxy
      · exact Int.le_trans hxy (hy.1 a ha)
    · rename_i hxy
      refine List.pairwise_cons.mpr ⟨?_, ih hy.2⟩
      intro a ha
      have := (insertSorted_perm x ys).mem_iff.mp ha
      rcases List.mem_cons.mp this with rfl | ha
      · omega
      · exact hy.1 a ha

theorem sortInts_sorted (l : List Int) : (sortInts l).Pairwise (· ≤ ·) := by
  induction l with
  | nil => simp [sortInts]
  | cons x xs ih => exact insertSorted_sorted x _ ih

theorem median_split (a b : List Int) (m : Int) (hp : (a ++ m :: b).Pairwise (· ≤ ·)) :
    ((a ++ m :: b).filter (· < m)).length ≤ a.length ∧
    ((a ++ m :: b).filter (· > m)).length ≤ b.length := by
  have hp' := List.pairwise_append.mp hp
  have htail := List.pairwise_cons.mp hp'.2.1
  constructor
  · rw [List.filter_append]
    have : (m :: b).filter (· < m) = [] := by
      rw [List.filter_eq_nil_iff]
      intro x hx
      rcases List.mem_cons.mp hx with rfl | hx
      · simp
      · have := htail.1 x hx; simp; omega
    rw [this, List.append_nil]
    exact List.length_filter_le _ _
  · rw [List.filter_append]
    have h1 : a.filter (· > m) = [] := by
      rw [List.filter_eq_nil_iff]
      intro x hx
      have := hp'.2.2 x hx m (List.mem_cons_self)
      simp; omega
    rw [h1, List.nil_append, List.filter_cons]
    simp only [gt_iff_lt, Int.lt_irrefl, decide_false, Bool.false_eq_true, if_false]
    exact List.length_filter_le _ _

theorem median_of_sorted (s : List Int) (hs : s.Pairwise (· ≤ ·)) (k : Nat) (hk : k < s.length)
    (m : Int) (hm : m = s[k]) :
    (s.filter (· < m)).length ≤ k ∧ (s.filter (· > m)).length ≤ s.length - (k + 1) := by
  have hsplit : s = s.take k ++ m :: s.drop (k+1) := by
    rw [hm, List.getElem_cons_drop]; exact (List.take_append_drop k s).symm
  have hp : (s.take k ++ m :: s.drop (k+1)).Pairwise (· ≤ ·) := by rw [← hsplit]; exact hs
  have := median_split _ _ _ hp
  rw [← hsplit] at this
  rw [List.length_take, List.length_drop] at this
  omega

theorem mtp_is_median (chain : List Hdr) (hne : chain ≠ []) :
    let ts := (chain.take MEDIAN_TIME_SPAN).map (·.time)
    let m := calcPastMedianTime chain
    m ∈ ts ∧ (ts.filter (· < m)).length ≤ ts.length / 2 ∧
      (ts.filter (· > m)).length ≤ (ts.length - 1) / 2 := by
  intro ts m
  have hlen : 0 < ts.length := by
    cases chain with
    | nil => exact absurd rfl hne
    | cons a b => simp [ts, MEDIAN_TIME_SPAN]
  have hperm := sortInts_perm ts
  have hsl : (sortInts ts).length = ts.length := hperm.length_eq
  have hk : ts.length / 2 < (sortInts ts).length := by omega
  have hm : m = (sortInts ts)[ts.length / 2] := by
    show (sortInts ts).getD (ts.length / 2) 0 = _
    rw [List.getD_eq_getElem?_getD, List.getElem?_eq_getElem hk]; rfl
  have hmed := median_of_sorted (sortInts ts) (sortInts_sorted ts) (ts.length / 2) hk m hm
  refine ⟨?_, ?_, ?_⟩
  · rw [hm]; exact hperm.mem_iff.mp (List.getElem_mem hk)
  · rw [← (hperm.filter _).length_eq]; exact hmed.1
  · rw [← (hperm.filter _).length_eq]
    have := hmed.2; omega

end BV.C09.Lemmas
