/- C09 helper lemmas, part 11: `ProcessBlockHeader` over header TREES (explicit parents, side branches). -/
import BV.C09.Lemmas7
namespace BV.C09.Lemmas
open BV.C09 BV.C09.Spec

def GoodChain (c : List Hdr) : Prop := c ≠ [] ∧ TimesValid c

/-- every known chain stays non-empty and obeys the time-stamp rule, whatever is offered on whatever branch -/
theorem l11_tree_good (p : Params) (hs : List (Nat × Hdr)) : ∀ known : List (List Hdr),
    (∀ c ∈ known, GoodChain c) → ∀ c ∈ (processTree p known hs).1, GoodChain c := by
  induction hs with
  | nil => intro known hk c hc; exact hk c (by simpa [processTree] using hc)
  | cons ih' hs ih =>
    obtain ⟨i, h⟩ := ih'
    intro known hk c hc
    unfold processTree at hc
    cases hki : known[i]? with
    | none => rw [hki] at hc; exact ih known hk c hc
    | some chain =>
      rw [hki] at hc
      simp only [] at hc
      by_cases hok : headerVerdict p chain h = .ok
      · rw [if_pos hok] at hc
        apply ih (known ++ [h :: chain]) _ c hc
        intro c' hc'
        rcases List.mem_append.mp hc' with hm | hm
        · exact hk c' hm
        · simp at hm; subst hm
          have hmem : chain ∈ known := List.mem_of_getElem? hki
          have hvo := l7_verdict_ok p chain h hok
          have hne := l7_ctx_ok_nonempty p chain h hvo.2
          exact ⟨by simp, ⟨fun _ => hne.2, (hk chain hmem).2⟩⟩
      · rw [if_neg hok] at hc
        exact ih known hk c hc

/-- the known chains only grow: the result is the old list followed by chains `h :: parent` where the parent
    is itself known in the result, `h` has a target in (0, powLimit] and strictly more cumulative work than
    its parent -/
theorem l11_tree_grows (p : Params) (hlim : p.powLimit < 2 ^ 256) (hs : List (Nat × Hdr)) :
    ∀ known : List (List Hdr), ∃ added, (processTree p known hs).1 = known ++ added ∧
      ∀ c ∈ added, ∃ h par, c = h :: par ∧ par ∈ known ++ added ∧
        (0 < compactToBig h.bits ∧ compactToBig h.bits ≤ p.powLimit) ∧ workSum par < workSum c := by
  induction hs with
  | nil => intro known; exact ⟨[], by simp [processTree], by intro c hc; cases hc⟩
  | cons ih' hs ih =>
    obtain ⟨i, h⟩ := ih'
    intro known
    unfold processTree
    cases hki : known[i]? with
    | none => simp only []; exact ih known
    | some chain =>
      simp only []
      by_cases hok : headerVerdict p chain h = .ok
      · rw [if_pos hok]
        obtain ⟨added, he, hall⟩ := ih (known ++ [h :: chain])
        refine ⟨(h :: chain) :: added, by rw [he]; simp, ?_⟩
        intro c hc
        rcases List.mem_cons.mp hc with rfl | hc
        · have hvo := l7_verdict_ok p chain h hok
          refine ⟨h, chain, rfl, ?_, hvo.1, ?_⟩
          · exact List.mem_append_left _ (List.mem_of_getElem? hki)
          · have := calcWork_pos h.bits hvo.1.1 (by have := hvo.1.2; omega)
            show workSum chain < workSum chain + calcWork h.bits
            omega
        · obtain ⟨h', par, e, hp, hv, hw⟩ := hall c hc
          refine ⟨h', par, e, ?_, hv, hw⟩
          rcases List.mem_append.mp hp with hp | hp
          · rcases List.mem_append.mp hp with hp | hp
            · exact List.mem_append_left _ hp
            · simp at hp; subst hp; exact List.mem_append_right _ List.mem_cons_self
          · exact List.mem_append_right _ (List.mem_cons_of_mem _ hp)
      · rw [if_neg hok]; exact ih known

end BV.C09.Lemmas
