/- C09 helper lemmas, part 10: locality (answers on a branch depend only on the branch's own last period /
   last 11 headers and on its height), subsidy never returns. -/
import BV.C09.Lemmas6
namespace BV.C09.Lemmas
open BV.C09 BV.C09.Spec

theorem l10_mtp_local (l r r' : List Hdr) (hl : MEDIAN_TIME_SPAN ≤ l.length) :
    calcPastMedianTime (l ++ r) = calcPastMedianTime (l ++ r') := by
  unfold calcPastMedianTime
  rw [List.take_append_of_le_length hl, List.take_append_of_le_length hl]

/-- walk-back: if some header of `l` sits on a retarget boundary, the walk never leaves `l` -/
theorem l10_walkback_witness (p : Params) (l : List Hdr) :
    ∀ r r' : List Hdr, r.length = r'.length →
      (∃ k : Nat, k < l.length ∧ Int.tmod ((r.length + k : Nat) : Int) p.blocksPerRetarget = 0) →
      findPrevTestNetDifficulty p (l ++ r) = findPrevTestNetDifficulty p (l ++ r') := by
  induction l with
  | nil => intro r r' _ ⟨k, hk, _⟩; simp at hk
  | cons a l ih =>
    intro r r' hlen ⟨k, hk, hz⟩
    simp only [List.cons_append]
    unfold findPrevTestNetDifficulty
    have e : ((l ++ r).length : Int) = ((l ++ r').length : Int) := by
      simp only [List.length_append, hlen]
    rw [e]
    by_cases hc : Int.tmod ((l ++ r').length : Int) p.blocksPerRetarget ≠ 0 ∧ a.bits = p.powLimitBits
    · rw [if_pos hc, if_pos hc]
      apply ih r r' hlen
      refine ⟨k, ?_, hz⟩
      simp only [List.length_cons] at hk
      by_cases hkl : k = l.length
      · exfalso
        apply hc.1
        rw [← e]
        have : ((l ++ r).length : Int) = ((r.length + k : Nat) : Int) := by
          simp only [List.length_append, hkl]; omega
        rw [this]; exact hz
      · omega
    · rw [if_neg hc, if_neg hc]

theorem l10_boundary_exists (b : Int) (hb : 0 < b) (n : Nat) :
    ∃ k : Nat, (k : Int) < b ∧ Int.tmod ((n + k : Nat) : Int) b = 0 := by
  by_cases h0 : (n : Int) % b = 0
  · refine ⟨0, by simpa using hb, ?_⟩
    rw [Int.tmod_eq_emod_of_nonneg (by omega)]; simpa using h0
  · have h1 : 0 ≤ (n : Int) % b := Int.emod_nonneg _ (by omega)
    have h2 : (n : Int) % b < b := Int.emod_lt_of_pos _ hb
    refine ⟨(b - (n : Int) % b).toNat, by omega, ?_⟩
    rw [Int.tmod_eq_emod_of_nonneg (by omega)]
    have e : ((n + (b - (n : Int) % b).toNat : Nat) : Int) = b * ((n : Int) / b + 1) := by
      have := Int.emod_add_mul_ediv (n : Int) b
      rw [Int.mul_add, Int.mul_one]
      push_cast
      rw [Int.toNat_of_nonneg (by omega)]
      omega
    rw [e, Int.mul_emod_right]

/-- The required difficulty on a branch depends only on the branch's last `blocksPerRetarget` headers and
    on its height: what lies below (where it forked from) is irrelevant. -/
theorem l10_calcNext_local (p : Params) (hbpr : 0 < p.blocksPerRetarget) (l r r' : List Hdr) (t : Int)
    (hlen : r.length = r'.length) (hl : p.blocksPerRetarget ≤ (l.length : Int)) :
    calcNextRequiredDifficulty p (l ++ r) t = calcNextRequiredDifficulty p (l ++ r') t := by
  cases l with
  | nil => simp at hl; omega
  | cons a l =>
    simp only [List.cons_append]
    unfold calcNextRequiredDifficulty
    have e : ((l ++ r).length : Int) = ((l ++ r').length : Int) := by
      simp only [List.length_append, hlen]
    simp only []
    rw [e]
    have hidx : (p.blocksPerRetarget - 1).toNat < (a :: l).length := by
      simp only [List.length_cons] at hl ⊢; omega
    have hg : (a :: (l ++ r))[(p.blocksPerRetarget - 1).toNat]? = (a :: (l ++ r'))[(p.blocksPerRetarget - 1).toNat]? := by
      rw [← List.cons_append, ← List.cons_append, List.getElem?_append_left hidx, List.getElem?_append_left hidx]
    rw [hg]
    have hw : findPrevTestNetDifficulty p (a :: (l ++ r)) = findPrevTestNetDifficulty p (a :: (l ++ r')) := by
      rw [← List.cons_append, ← List.cons_append]
      apply l10_walkback_witness p (a :: l) r r' hlen
      obtain ⟨k, hk, hz⟩ := l10_boundary_exists p.blocksPerRetarget hbpr r.length
      exact ⟨k, by omega, hz⟩
    rw [hw]

theorem l10_subsidy_never_returns (h h' I : Nat) (hh : h ≤ h') (hz : subsidy h I = 0) : subsidy h' I = 0 := by
  have := l6_subsidy_antitone h h' I hh; omega

/-- the Go function itself (shift count ≥ 64, int heights): nothing is ever paid from era 33 on -/
theorem l10_calcBlockSubsidy_zero (h I : Nat) (hI : 0 < I) (hq : 33 * I ≤ h) :
    calcBlockSubsidy (h : Int) (I : Int) = 0 := by
  rw [subsidy_eq_spec h I hI]; exact (l6_subsidy_zero_iff h I hI).mpr hq

end BV.C09.Lemmas
