/-
C09 Model — executable mirror of
  blockchain/internal/workmath/difficulty.go  (CompactToBig, BigToCompact, CalcWork, HashToBig)
  blockchain/difficulty.go                    (calcNextRequiredDifficulty, findPrevTestNetDifficulty)
  blockchain/blockindex.go                    (CalcPastMedianTime)
  blockchain/validate.go                      (CalcBlockSubsidy, checkProofOfWork, assertNoTimeWarp)
uint32 values are `Nat`s below 2^32 (`% 2^32` is written where Go truncates).
Core-only.
-/
import BV.C09.Spec
namespace BV.C09

/-- `CompactToBig` -/
def compactToBig (c : Nat) : Int :=
  let mantissa := c % 0x00800000          -- compact & 0x007fffff
  let isNegative := (c / 0x00800000) % 2 = 1
  let exponent := c / 0x01000000          -- compact >> 24
  let bn : Nat :=
    if exponent ≤ 3 then mantissa >>> (8 * (3 - exponent))
    else mantissa <<< (8 * (exponent - 3))
  if isNegative then -(bn : Int) else (bn : Int)

/-- `BigToCompact`; `len(n.Bytes())` is `Spec.byteLen |n|`, `Bits()[0]` the low 64-bit word. -/
def bigToCompact (n : Int) : Nat :=
  if n = 0 then 0 else
  let a := n.natAbs
  let exponent := Spec.byteLen a
  let mantissa0 : Nat :=
    if exponent ≤ 3 then ((a % 2^64 % 2^32) <<< (8 * (3 - exponent))) % 2^32
    else ((n >>> (8 * (exponent - 3))).natAbs % 2^64) % 2^32   -- big.Int.Rsh is an arithmetic (floor) shift
  let (mantissa, exponent) :=
    if (mantissa0 / 0x00800000) % 2 = 1 then (mantissa0 >>> 8, exponent + 1) else (mantissa0, exponent)
  let compact := ((exponent <<< 24) % 2^32) ||| mantissa
  if n < 0 then compact ||| 0x00800000 else compact

/-- `CalcWork` -/
def calcWork (bits : Nat) : Nat :=
  let d := compactToBig bits
  if d ≤ 0 then 0 else 2^256 / (d.toNat + 1)

/-- `HashToBig`: the 32 hash bytes read as a little-endian number -/
def hashToBig (h : List UInt8) : Nat := h.foldr (fun b acc => acc * 256 + b.toNat) 0

inductive PowResult | ok | badTarget | highHash
  deriving DecidableEq, Repr

/-- `checkProofOfWork` (flags = none) -/
def checkProofOfWork (bits : Nat) (hash : List UInt8) (powLimit : Int) : PowResult :=
  let target := compactToBig bits
  if target ≤ 0 then .badTarget
  else if target > powLimit then .badTarget
  else if (hashToBig hash : Int) > target then .highHash
  else .ok

structure Params where
  powLimit : Int
  powLimitBits : Nat
  noRetarget : Bool
  reduceMinDiff : Bool
  minDiffReductionTime : Int      -- seconds
  targetTimespan : Int            -- seconds
  targetTimePerBlock : Int        -- seconds
  adjFactor : Int
  enforceBIP94 : Bool
  deriving Repr

def Params.blocksPerRetarget (p : Params) : Int := Int.tdiv p.targetTimespan p.targetTimePerBlock
def Params.minSpan (p : Params) : Int := Int.tdiv p.targetTimespan p.adjFactor
def Params.maxSpan (p : Params) : Int := p.targetTimespan * p.adjFactor

/-- a header as the difficulty code sees it -/
structure Hdr where
  time : Int
  bits : Nat
  deriving Repr, DecidableEq

/-- `findPrevTestNetDifficulty`. `chain` is tip-first; the tip has height `chain.length - 1`. -/
def findPrevTestNetDifficulty (p : Params) : List Hdr → Nat
  | [] => p.powLimitBits
  | h :: rest =>
    let height : Int := rest.length
    if Int.tmod height p.blocksPerRetarget ≠ 0 ∧ h.bits = p.powLimitBits then
      findPrevTestNetDifficulty p rest
    else h.bits

/-- `calcNextRequiredDifficulty`; `none` is the AssertError (ancestor unavailable). -/
def calcNextRequiredDifficulty (p : Params) (chain : List Hdr) (newTime : Int) : Option Nat :=
  if p.noRetarget then some p.powLimitBits else
  match chain with
  | [] => some p.powLimitBits
  | last :: rest =>
    let height : Int := rest.length
    if Int.tmod (height + 1) p.blocksPerRetarget ≠ 0 then
      if p.reduceMinDiff then
        if newTime > last.time + p.minDiffReductionTime then some p.powLimitBits
        else some (findPrevTestNetDifficulty p chain)
      else some last.bits
    else
      let dist := p.blocksPerRetarget - 1
      if dist < 0 then none else
      match chain[dist.toNat]? with
      | none => none
      | some first =>
        let actual := last.time - first.time
        let adjusted := if actual < p.minSpan then p.minSpan
                        else if actual > p.maxSpan then p.maxSpan else actual
        let oldTarget := if p.enforceBIP94 then compactToBig first.bits else compactToBig last.bits
        let newTarget := Int.tdiv (oldTarget * adjusted) p.targetTimespan
        let newTarget := if newTarget > p.powLimit then p.powLimit else newTarget
        some (bigToCompact newTarget)

/-- tip-first chain paired with heights -/
def withHeights : List Hdr → List (Hdr × Nat)
  | [] => []
  | h :: r => (h, r.length) :: withHeights r

/-- insertion sort, ascending (what `sort.Sort(timeSorter)` computes) -/
def insertSorted (x : Int) : List Int → List Int
  | [] => [x]
  | y :: ys => if x ≤ y then x :: y :: ys else y :: insertSorted x ys
def sortInts (l : List Int) : List Int := l.foldr insertSorted []

/-- `CalcPastMedianTime`; `chain` tip-first, non-empty. -/
def calcPastMedianTime (chain : List Hdr) : Int :=
  let ts := (chain.take Spec.MEDIAN_TIME_SPAN).map (·.time)
  (sortInts ts).getD (ts.length / 2) 0

/-- `assertNoTimeWarp` : true = ok -/
def assertNoTimeWarp (blockHeight blocksPerRetarget headerTime prevTime : Int) : Bool :=
  if Int.tmod blockHeight blocksPerRetarget ≠ 0 then true
  else !(headerTime < prevTime - Spec.MAX_TIMEWARP)

/-- `CalcBlockSubsidy`; height is an int32, interval an int32, shift count `uint(q)`. -/
def calcBlockSubsidy (height interval : Int) : Nat :=
  if interval = 0 then Spec.BASE_SUBSIDY else
  let q := Int.tdiv height interval
  if q < 0 then 0                       -- uint(negative) ≥ 64 ⇒ Go yields 0
  else if q.toNat ≥ 64 then 0           -- shift count ≥ width ⇒ 0
  else Spec.BASE_SUBSIDY >>> q.toNat

/-- `blockNode.workSum` (`initBlockNode`): the parent's sum plus the node's own work. Tip-first chain. -/
def workSum : List Hdr → Nat
  | [] => 0
  | h :: rest => workSum rest + calcWork h.bits

/-- `checkProofOfWork` with the `BFNoPoWCheck` flag as a parameter -/
def checkProofOfWorkFlags (bits : Nat) (hash : List UInt8) (powLimit : Int) (noPowCheck : Bool) : PowResult :=
  let target := compactToBig bits
  if target ≤ 0 then .badTarget
  else if target > powLimit then .badTarget
  else if !noPowCheck && decide ((hashToBig hash : Int) > target) then .highHash
  else .ok

inductive SanityResult | ok | badTarget | highHash | invalidTime | timeTooNew
  deriving DecidableEq, Repr

/-- `CheckBlockHeaderSanity`: PoW clause, whole-second clause (`nsec` = sub-second part of the
    header's time stamp), not more than two hours after the adjusted time. -/
def checkBlockHeaderSanity (bits : Nat) (hash : List UInt8) (powLimit : Int) (noPowCheck : Bool)
    (sec nsec adjusted : Int) : SanityResult :=
  match checkProofOfWorkFlags bits hash powLimit noPowCheck with
  | .badTarget => .badTarget
  | .highHash => .highHash
  | .ok =>
    if nsec ≠ 0 then .invalidTime
    else if sec > adjusted + Spec.MAX_TIME_OFFSET then .timeTooNew
    else .ok

inductive CtxResult | ok | badDifficulty | timeTooOld | timeWarp | assert | panic
  deriving DecidableEq, Repr

/-- `CheckBlockHeaderContext`, difficulty and time-stamp clauses (version and checkpoint clauses are
    other properties' subject). `chain` is the tip-first history ending in `prevNode`; `h` the new header. -/
def checkBlockHeaderContext (p : Params) (chain : List Hdr) (h : Hdr) (fastAdd : Bool) : CtxResult :=
  match chain with
  | [] => .panic                         -- prevNode.Height() on a nil interface
  | prev :: _ =>
    if fastAdd then .ok else
    match calcNextRequiredDifficulty p chain h.time with
    | none => .assert
    | some b =>
      if h.bits ≠ b then .badDifficulty
      else if ¬ (h.time > calcPastMedianTime chain) then .timeTooOld
      else if p.enforceBIP94 && !assertNoTimeWarp (chain.length : Int) p.blocksPerRetarget h.time prev.time
        then .timeWarp
      else .ok

/-- `medianTime` (mediantime.go): ids seen, offsets in arrival order, current offset (seconds) -/
structure MedianTime where
  ids : List String
  offsets : List Int
  offset : Int
  deriving Repr

def MedianTime.new : MedianTime := ⟨[], [], 0⟩

/-- `AddTimeSample`; `offMs` is `timeVal - now` in milliseconds (the code truncates it to whole seconds
    towards zero). Mirrors Core's behaviour of updating only on an odd number (≥ 5) of samples. -/
def MedianTime.addSample (m : MedianTime) (id : String) (offMs : Int) : MedianTime :=
  if m.ids.contains id then m else
  let offs := (if m.offsets.length = Spec.MAX_MEDIAN_TIME_ENTRIES then m.offsets.drop 1 else m.offsets)
                ++ [Int.tdiv offMs 1000]
  let n := offs.length
  if n < 5 ∨ n % 2 ≠ 1 then { ids := id :: m.ids, offsets := offs, offset := m.offset } else
  let median := (sortInts offs).getD (n / 2) 0
  { ids := id :: m.ids, offsets := offs,
    offset := if median.natAbs < Spec.MAX_ALLOWED_OFFSET.toNat then median else 0 }

/-- the offsets reported after each sample of a sequence -/
def MedianTime.run : MedianTime → List (String × Int) → List Int
  | _, [] => []
  | m, (id, o) :: rest => let m' := m.addSample id o; m'.offset :: MedianTime.run m' rest

inductive Verdict | ok | badTarget | badDifficulty | timeTooOld | timeWarp | assert | panic
  deriving DecidableEq, Repr

/-- `maybeAcceptBlockHeader` for a header whose hash meets its own target and whose time stamp is not in
    the future: target range (sanity), then the context clauses. -/
def headerVerdict (p : Params) (chain : List Hdr) (h : Hdr) : Verdict :=
  if compactToBig h.bits ≤ 0 ∨ compactToBig h.bits > p.powLimit then .badTarget else
  match checkBlockHeaderContext p chain h false with
  | .ok => .ok
  | .badDifficulty => .badDifficulty
  | .timeTooOld => .timeTooOld
  | .timeWarp => .timeWarp
  | .assert => .assert
  | .panic => .panic

/-- `ProcessBlockHeader` over a sequence of headers, each built on the current header tip (oldest first):
    accepted headers extend the chain, rejected ones leave it unchanged. -/
def processHeaders (p : Params) : List Hdr → List Hdr → List Hdr × List Verdict
  | chain, [] => (chain, [])
  | chain, h :: hs =>
    let v := headerVerdict p chain h
    let r := processHeaders p (if v = .ok then h :: chain else chain) hs
    (r.1, v :: r.2)

/-- `ProcessBlockHeader` with explicit parents: `known` are the header chains known so far (tip-first; entry 0
    is the genesis chain), each offered header names its parent by index; an accepted header adds a new known
    chain (main or side branch alike), a rejected one adds nothing. -/
def processTree (p : Params) : List (List Hdr) → List (Nat × Hdr) → List (List Hdr) × List Verdict
  | known, [] => (known, [])
  | known, (i, h) :: hs =>
    match known[i]? with
    | none =>
      let r := processTree p known hs
      (r.1, .panic :: r.2)               -- unknown parent (ErrPreviousBlockUnknown; never generated)
    | some chain =>
      let v := headerVerdict p chain h
      let r := processTree p (if v = .ok then known ++ [h :: chain] else known) hs
      (r.1, v :: r.2)

/-- the loop of `calcEasiestDifficulty`: `for durationVal > 0 && newTarget < powLimit` -/
def easiestLoop (adj maxSpan powLimit : Int) : Nat → Int → Int → Int
  | 0, _, t => t
  | fuel+1, d, t =>
    if d > 0 ∧ t < powLimit then easiestLoop adj maxSpan powLimit fuel (d - maxSpan) (t * adj) else t

/-- `BlockChain.calcEasiestDifficulty` (checkpoint-era sanity bound); `duration` in seconds.
    The Go loop terminates when `maxSpan ≥ 1`; `duration.toNat` iterations then suffice. -/
def calcEasiestDifficulty (p : Params) (bits : Nat) (duration : Int) : Nat :=
  if p.reduceMinDiff && decide (duration > p.minDiffReductionTime) then p.powLimitBits else
  let t := easiestLoop p.adjFactor p.maxSpan p.powLimit duration.toNat duration (compactToBig bits)
  bigToCompact (if t > p.powLimit then p.powLimit else t)

end BV.C09
