/-
C09 property theorems. Only statements of the property + non-vacuity examples live here;
helper lemmas are in Lemmas.lean.
-/
import BV.C09.Lemmas
import BV.C09.Lemmas2
import BV.Generated.C09
namespace BV.C09
open Spec

/-! ### compact ⇄ big -/

/-- `CompactToBig` equals the protocol formula for every 32-bit compact value (indeed every Nat). -/
theorem compactToBig_eq_spec (c : Nat) : compactToBig c = compactValue c :=
  Lemmas.compactToBig_eq_spec c

/-- Round trip on normalised positive compacts: exponent 3..255, top mantissa byte non-zero, sign clear. -/
theorem bigToCompact_compactToBig (e m : Nat) (he : 3 ≤ e) (he' : e < 256)
    (hm : 0x010000 ≤ m) (hm' : m < 0x800000) :
    bigToCompact (compactToBig (e * 2^24 + m)) = e * 2^24 + m :=
  Lemmas.b2c_c2b e m he he' hm hm'

example : bigToCompact (compactToBig 0x1b0404cb) = 0x1b0404cb := by
  have := bigToCompact_compactToBig 0x1b 0x0404cb (by decide) (by decide) (by decide) (by decide)
  simpa using this

/-- `BigToCompact` then `CompactToBig` on any positive target of at most 254 bytes (every 256-bit target)
    rounds down, by less than `256^(len-2)`: exactly the three most significant bytes survive
    (two when the top bit would collide with the sign bit). -/
theorem compactToBig_bigToCompact_trunc (a : Nat) (ha : 0 < a) (hlen : byteLen a ≤ 254) :
    compactToBig (bigToCompact (a : Int)) ≤ (a : Int) ∧
    (a : Int) - compactToBig (bigToCompact (a : Int)) < ((256 ^ (byteLen a - 2) : Nat) : Int) :=
  Lemmas.c2b_b2c_trunc a ha hlen

/-- every 256-bit number has at most 32 ≤ 254 bytes: the hypothesis above covers all targets -/
theorem byteLen_le_of_lt (a : Nat) (h : a < 2 ^ 256) : byteLen a ≤ 32 := by
  by_cases ha : a = 0
  · subst ha; rw [Lemmas.byteLen_zero]; omega
  · have hb := (Lemmas.byteLen_bounds a (Nat.pos_of_ne_zero ha)).1
    by_cases hc : byteLen a ≤ 32
    · exact hc
    · exfalso
      have : 256 ^ 32 ≤ 256 ^ (byteLen a - 1) := Nat.pow_le_pow_right (by decide) (by omega)
      have e : (256 : Nat) ^ 32 = 2 ^ 256 := by decide
      omega

example : byteLen (2^224 - 1) ≤ 254 := by
  have := byteLen_le_of_lt (2^224 - 1) (by decide); omega

/-! ### work -/

/-- Work of a positive target not above 2^256-1 is positive. -/
theorem calcWork_pos (bits : Nat) (h0 : 0 < compactToBig bits) (h1 : compactToBig bits < 2^256) :
    0 < calcWork bits := Lemmas.calcWork_pos bits h0 h1

/-- `CalcWork` equals the protocol definition `floor(2^256 / (target+1))`. -/
theorem calcWork_eq_spec (bits : Nat) : calcWork bits = work (compactValue bits) := by
  unfold calcWork work; rw [compactToBig_eq_spec]

/-- Cumulative work strictly increases along any chain of valid-target headers. -/
theorem workSum_strict_mono (acc : Nat) (bits : Nat)
    (h0 : 0 < compactToBig bits) (h1 : compactToBig bits < 2^256) :
    acc < acc + calcWork bits := by
  have := calcWork_pos bits h0 h1; omega

example : 0 < compactToBig 0x1d00ffff ∧ compactToBig 0x1d00ffff < 2^256 := by decide

/-! ### proof-of-work check -/

/-- `checkProofOfWork` accepts iff 0 < target ≤ powLimit and hash ≤ target. -/
theorem pow_check_iff (bits : Nat) (hash : List UInt8) (lim : Int) :
    checkProofOfWork bits hash lim = .ok ↔
      0 < compactValue bits ∧ compactValue bits ≤ lim ∧ (hashToBig hash : Int) ≤ compactValue bits := by
  rw [← compactToBig_eq_spec]
  unfold checkProofOfWork
  simp only []
  by_cases h1 : compactToBig bits ≤ 0
  · simp only [h1, if_true]; constructor
    · intro h; cases h
    · intro h; omega
  · by_cases h2 : compactToBig bits > lim
    · simp only [h1, h2, if_true, if_false]; constructor
      · intro h; cases h
      · intro h; omega
    · by_cases h3 : (hashToBig hash : Int) > compactToBig bits
      · simp only [h1, h2, h3, if_true, if_false]; constructor
        · intro h; cases h
        · intro h; omega
      · simp only [h1, h2, h3, if_false]; constructor
        · intro _; omega
        · intro _; trivial

/-! ### retarget -/

/-- The retarget branch of the model computes `Spec.retarget`, then compacts it. -/
theorem retarget_eq_spec (p : Params) (last : Hdr) (rest : List Hdr) (t : Int) (first : Hdr)
    (hnr : p.noRetarget = false)
    (hb : Int.tmod ((rest.length : Int) + 1) p.blocksPerRetarget = 0)
    (hd : 0 ≤ p.blocksPerRetarget - 1)
    (hf : (last :: rest)[(p.blocksPerRetarget - 1).toNat]? = some first) :
    calcNextRequiredDifficulty p (last :: rest) t =
      some (bigToCompact (retarget
        (if p.enforceBIP94 then compactValue first.bits else compactValue last.bits)
        (last.time - first.time) p.minSpan p.maxSpan p.targetTimespan p.powLimit)) :=
  Lemmas.retarget_eq_spec p last rest t first hnr hb hd hf

/-- 4x clamp (general factor): the un-capped new target lies between old·min/T and old·max/T,
    and the result never exceeds powLimit. -/
theorem retarget_clamped (old actual tMin tMax T lim : Int)
    (hold : 0 ≤ old) (hT : 0 < T) (h0 : 0 ≤ tMin) (hmm : tMin ≤ tMax) :
    retarget old actual tMin tMax T lim ≤ lim ∧
    (retarget old actual tMin tMax T lim = lim ∨
      (Int.tdiv (old * tMin) T ≤ retarget old actual tMin tMax T lim ∧
       retarget old actual tMin tMax T lim ≤ Int.tdiv (old * tMax) T)) :=
  Lemmas.retarget_clamped old actual tMin tMax T lim hold hT h0 hmm

/-- Off-boundary, no min-difficulty rule: the required bits are the previous block's bits. -/
theorem no_retarget_off_boundary (p : Params) (last : Hdr) (rest : List Hdr) (t : Int)
    (hnr : p.noRetarget = false) (hr : p.reduceMinDiff = false)
    (hb : Int.tmod ((rest.length : Int) + 1) p.blocksPerRetarget ≠ 0) :
    calcNextRequiredDifficulty p (last :: rest) t = some last.bits := by
  simp [calcNextRequiredDifficulty, hnr, hr, hb]

/-- No-retarget networks always require powLimitBits. -/
theorem noRetarget_const (p : Params) (chain : List Hdr) (t : Int) (h : p.noRetarget = true) :
    calcNextRequiredDifficulty p chain t = some p.powLimitBits := by
  simp [calcNextRequiredDifficulty, h]

/-- Testnet min-difficulty rule: more than the reduction time after the tip ⇒ powLimitBits. -/
theorem mindiff_late_block (p : Params) (last : Hdr) (rest : List Hdr) (t : Int)
    (hnr : p.noRetarget = false) (hr : p.reduceMinDiff = true)
    (hb : Int.tmod ((rest.length : Int) + 1) p.blocksPerRetarget ≠ 0)
    (ht : t > last.time + p.minDiffReductionTime) :
    calcNextRequiredDifficulty p (last :: rest) t = some p.powLimitBits := by
  simp [calcNextRequiredDifficulty, hnr, hr, hb, ht]

/-- The walk-back returns the bits of the most recent ancestor that is on a retarget
    boundary or does not carry powLimitBits (powLimitBits if none). -/
theorem mindiff_walkback_spec (p : Params) (chain : List Hdr) :
    findPrevTestNetDifficulty p chain =
      match (withHeights chain).find? (fun (h, ht) =>
          !(decide (Int.tmod (ht : Int) p.blocksPerRetarget ≠ 0) && h.bits == p.powLimitBits)) with
      | some (h, _) => h.bits
      | none => p.powLimitBits :=
  Lemmas.walkback_spec p chain

/-! ### median time past -/

/-- MTP is an element of the last ≤ 11 timestamps with at most ⌊n/2⌋ elements strictly
    smaller and at most ⌊(n-1)/2⌋ strictly greater: the (upper) median. -/
theorem mtp_is_median (chain : List Hdr) (hne : chain ≠ []) :
    let ts := (chain.take MEDIAN_TIME_SPAN).map (·.time)
    let m := calcPastMedianTime chain
    m ∈ ts ∧ (ts.filter (· < m)).length ≤ ts.length / 2 ∧
      (ts.filter (· > m)).length ≤ (ts.length - 1) / 2 :=
  Lemmas.mtp_is_median chain hne

/-! ### subsidy -/

/-- `CalcBlockSubsidy` equals the protocol schedule on non-negative heights and positive intervals. -/
theorem subsidy_eq_spec (h i : Nat) (hi : 0 < i) :
    calcBlockSubsidy (h : Int) (i : Int) = subsidy h i := Lemmas.subsidy_eq_spec h i hi

/-- Total issuance never exceeds 21 million coins, for every height and every interval ≤ 210000. -/
theorem total_subsidy_le (N I : Nat) (hI : 0 < I) (hI' : I ≤ 210000) :
    totalSubsidy I N ≤ MAX_MONEY := Lemmas.total_subsidy_le N I hI hI'

/-- interval 0 (synthetic parameter sets) pays 50 BTC forever: excluded from the cap. -/
theorem subsidy_interval_zero (h : Int) : calcBlockSubsidy h 0 = BASE_SUBSIDY := by
  simp [calcBlockSubsidy]

/-! ### BIP94 -/
theorem timewarp_iff (h bpr ht pt : Int) :
    assertNoTimeWarp h bpr ht pt = true ↔ (Int.tmod h bpr ≠ 0 ∨ pt - 600 ≤ ht) := by
  unfold assertNoTimeWarp MAX_TIMEWARP
  by_cases hb : Int.tmod h bpr = 0 <;> simp [hb] <;> omega

/-! ### pinning of regenerated facts (T2): a changed constant in /repo breaks these -/

theorem pin_baseSubsidy : Generated.C09.baseSubsidy = (BASE_SUBSIDY : Int) := by decide
theorem pin_medianTimeBlocks : Generated.C09.medianTimeBlocks = (MEDIAN_TIME_SPAN : Int) := by decide
theorem pin_maxTimeWarp : Generated.C09.maxTimeWarpSecs = MAX_TIMEWARP := by decide
theorem pin_maxTimeOffset : Generated.C09.maxTimeOffsetSeconds = 7200 := by decide
theorem pin_main :
    Generated.C09.main_powLimit = 2^224 - 1 ∧ Generated.C09.main_powLimitBits = 0x1d00ffff ∧
    Generated.C09.main_subsidyInterval = 210000 ∧ Generated.C09.main_targetTimespan = 1209600 ∧
    Generated.C09.main_targetTimePerBlock = 600 ∧ Generated.C09.main_adjFactor = 4 ∧
    Generated.C09.main_noRetarget = false ∧ Generated.C09.main_reduceMinDiff = false ∧
    Generated.C09.main_enforceBIP94 = false := by decide
theorem pin_testnets :
    Generated.C09.test3_powLimit = 2^224 - 1 ∧ Generated.C09.test3_reduceMinDiff = true ∧
    Generated.C09.test3_minDiffReductionTime = 1200 ∧ Generated.C09.test3_enforceBIP94 = false ∧
    Generated.C09.test4_powLimit = 2^224 - 1 ∧ Generated.C09.test4_reduceMinDiff = true ∧
    Generated.C09.test4_minDiffReductionTime = 1200 ∧ Generated.C09.test4_enforceBIP94 = true ∧
    Generated.C09.test3_subsidyInterval = 210000 ∧ Generated.C09.test4_subsidyInterval = 210000 := by decide
theorem pin_other_nets :
    Generated.C09.reg_powLimit = 2^255 - 1 ∧ Generated.C09.reg_powLimitBits = 0x207fffff ∧
    Generated.C09.reg_noRetarget = true ∧ Generated.C09.reg_subsidyInterval = 150 ∧
    Generated.C09.sim_powLimit = 2^255 - 1 ∧ Generated.C09.sim_powLimitBits = 0x207fffff ∧
    Generated.C09.sig_powLimit = 0x0377ae * 2^216 ∧ Generated.C09.sig_powLimitBits = 0x1e0377ae ∧
    Generated.C09.sig_subsidyInterval = 210000 ∧ Generated.C09.sim_subsidyInterval = 210000 := by decide
/-- every shipped powLimit is the value of its powLimitBits and is below 2^256 (so work is positive) -/
theorem pin_powLimitBits_consistent :
    compactToBig 0x1d00ffff ≤ Generated.C09.main_powLimit ∧
    compactToBig 0x207fffff ≤ Generated.C09.reg_powLimit ∧
    compactToBig 0x1e0377ae = Generated.C09.sig_powLimit ∧
    Generated.C09.reg_powLimit < 2^256 := by decide

end BV.C09
