/-
C09 property theorems. Only statements of the property + non-vacuity examples live here;
helper lemmas are in Lemmas.lean.
-/
import BV.C09.Lemmas
import BV.C09.Lemmas2
import BV.C09.Lemmas3
import BV.C09.Lemmas4
import BV.C09.Lemmas5
import BV.C09.Lemmas6
import BV.C09.Lemmas7
import BV.C09.Lemmas8
import BV.C09.Lemmas9
import BV.C09.Lemmas10
import BV.C09.Lemmas11
import BV.Generated.C09
namespace BV.C09
open Spec

/-! ### compact ⇄ big -/

/-- `CompactToBig` equals the protocol formula for every 32-bit compact value (indeed every Nat). -/
theorem compactToBig_eq_spec (c : Nat) : compactToBig c = compactValue c :=
  Lemmas.compactToBig_eq_spec c

/-- Round trip on normalised positive compacts: exponent 3..255, top mantissa byte non-zero, sign clear. -/
theorem bigToCompact_compactToBig (e m : Nat) (he : 3 ≤ e) (he' : e < 256)
    (hm : 0x010000 ≤ m) (hm' : m < 0x800000) :
    bigToCompact (compactToBig (e * 2^24 + m)) = e * 2^24 + m :=
  Lemmas.b2c_c2b e m he he' hm hm'

example : bigToCompact (compactToBig 0x1b0404cb) = 0x1b0404cb := by
  have := bigToCompact_compactToBig 0x1b 0x0404cb (by decide) (by decide) (by decide) (by decide)
  simpa using this

/-- `BigToCompact` equals Bitcoin Core's `GetCompact` on every positive number of at most 254 bytes
    (every 256-bit target). -/
theorem bigToCompact_eq_spec (a : Nat) (ha : 0 < a) (hlen : byteLen a ≤ 254) :
    bigToCompact (a : Int) = getCompact a := Lemmas.l9_b2c_eq_getCompact a ha hlen

/-- Round trip on the second normal form `0x008000 ≤ mantissa < 0x010000` (mainnet's `0x1d00ffff`): the
    encoder produces it whenever the third significant byte would set the sign bit. -/
theorem bigToCompact_compactToBig_nf2 (e m : Nat) (he : 3 ≤ e) (he' : e < 256)
    (hm : 0x008000 ≤ m) (hm' : m < 0x010000) :
    bigToCompact (compactToBig (e * 2^24 + m)) = e * 2^24 + m :=
  Lemmas.b2c_c2b_nf2 e m he he' hm hm'

example : bigToCompact (compactToBig 0x1d00ffff) = 0x1d00ffff := by
  have := bigToCompact_compactToBig_nf2 0x1d 0x00ffff (by decide) (by decide) (by decide) (by decide)
  simpa using this

/-- `Lemmas.normalForm c` (decidable): exponent < 256, sign clear, and the mantissa is either ≥ 0x8000 with
    exponent ≥ 3, or a shifted one/two-byte value for exponents 1 and 2. Every normal compact is a fixed
    point of decode-then-encode … -/
theorem bigToCompact_compactToBig_normal (c : Nat) (h : Lemmas.normalForm c) :
    bigToCompact (compactToBig c) = c := Lemmas.b2c_c2b_normal c h

/-- … and the encoder only ever produces normal compacts (positive numbers of at most 254 bytes, which
    includes every 256-bit target): `normalForm` is exactly the image of `BigToCompact`. -/
theorem bigToCompact_is_normal (a : Nat) (ha : 0 < a) (hlen : byteLen a ≤ 254) :
    Lemmas.normalForm (bigToCompact (a : Int)) := Lemmas.b2c_is_normal a ha hlen

/-- Hence encoding is idempotent through the decoder: a retargeted `bits` value decodes and re-encodes
    to itself, so header bits compare equal iff their targets do. -/
theorem bigToCompact_idempotent (a : Nat) (ha : 0 < a) (hlen : byteLen a ≤ 254) :
    bigToCompact (compactToBig (bigToCompact (a : Int))) = bigToCompact (a : Int) :=
  Lemmas.b2c_idempotent a ha hlen

/-- The decoder is injective on normal compacts: two required-bits values are equal iff their targets are. -/
theorem compactToBig_injective_on_normal (c1 c2 : Nat) (h1 : Lemmas.normalForm c1) (h2 : Lemmas.normalForm c2)
    (h : compactToBig c1 = compactToBig c2) : c1 = c2 := Lemmas.l6_c2b_inj_normal c1 c2 h1 h2 h

/-- The bits computed by a retarget (any positive new target below 256^254) are a normal compact. -/
theorem retarget_bits_normal (v : Int) (hv : 0 < v) (hlen : v < 256 ^ 254) :
    Lemmas.normalForm (bigToCompact v) := Lemmas.l6_retarget_bits_normal v hv hlen

/-- normal compacts decode to positive numbers -/
theorem normalForm_pos (c : Nat) (h : Lemmas.normalForm c) : 0 < compactToBig c := Lemmas.normal_pos c h

/-- every shipped powLimitBits is normal -/
example : Lemmas.normalForm 0x1d00ffff ∧ Lemmas.normalForm 0x207fffff ∧ Lemmas.normalForm 0x1e0377ae := by decide

/-- `BigToCompact` then `CompactToBig` on any positive target of at most 254 bytes (every 256-bit target)
    rounds down, by less than `256^(len-2)`: exactly the three most significant bytes survive
    (two when the top bit would collide with the sign bit). -/
theorem compactToBig_bigToCompact_trunc (a : Nat) (ha : 0 < a) (hlen : byteLen a ≤ 254) :
    compactToBig (bigToCompact (a : Int)) ≤ (a : Int) ∧
    (a : Int) - compactToBig (bigToCompact (a : Int)) < ((256 ^ (byteLen a - 2) : Nat) : Int) :=
  Lemmas.c2b_b2c_trunc a ha hlen

/-- every 256-bit number has at most 32 ≤ 254 bytes: the hypothesis above covers all targets -/
theorem byteLen_le_of_lt (a : Nat) (h : a < 2 ^ 256) : byteLen a ≤ 32 := by
  by_cases ha : a = 0
  · subst ha; rw [Lemmas.byteLen_zero]; omega
  · have hb := (Lemmas.byteLen_bounds a (Nat.pos_of_ne_zero ha)).1
    by_cases hc : byteLen a ≤ 32
    · exact hc
    · exfalso
      have : 256 ^ 32 ≤ 256 ^ (byteLen a - 1) := Nat.pow_le_pow_right (by decide) (by omega)
      have e : (256 : Nat) ^ 32 = 2 ^ 256 := by decide
      omega

example : byteLen (2^224 - 1) ≤ 254 := by
  have := byteLen_le_of_lt (2^224 - 1) (by decide); omega

/-! ### work -/

/-- Work of a positive target not above 2^256-1 is positive. -/
theorem calcWork_pos (bits : Nat) (h0 : 0 < compactToBig bits) (h1 : compactToBig bits < 2^256) :
    0 < calcWork bits := Lemmas.calcWork_pos bits h0 h1

/-- `CalcWork` equals the protocol definition `floor(2^256 / (target+1))`. -/
theorem calcWork_eq_spec (bits : Nat) : calcWork bits = work (compactValue bits) := by
  unfold calcWork work; rw [compactToBig_eq_spec]

/-- Cumulative work strictly increases along any chain of valid-target headers. -/
theorem workSum_strict_mono (acc : Nat) (bits : Nat)
    (h0 : 0 < compactToBig bits) (h1 : compactToBig bits < 2^256) :
    acc < acc + calcWork bits := by
  have := calcWork_pos bits h0 h1; omega

example : 0 < compactToBig 0x1d00ffff ∧ compactToBig 0x1d00ffff < 2^256 := by decide

/-- A smaller (harder) target never has less work. -/
theorem calcWork_antitone (b1 b2 : Nat) (h1 : 0 < compactToBig b1) (h12 : compactToBig b1 ≤ compactToBig b2) :
    calcWork b2 ≤ calcWork b1 := Lemmas.calcWork_antitone b1 b2 h1 h12

/-- `blockNode.workSum` is the sum of the per-block work over the chain … -/
theorem workSum_eq_sum (chain : List Hdr) :
    workSum chain = (chain.map (fun h => calcWork h.bits)).sum := Lemmas.workSum_eq_sum chain

theorem workSum_append (ext chain : List Hdr) : workSum (ext ++ chain) = workSum ext + workSum chain :=
  Lemmas.workSum_append ext chain

/-- … and strictly increases along ANY non-empty extension by valid-target headers (induction over the
    extension): a descendant always has strictly more cumulative work than its ancestor. -/
theorem workSum_chain_strict_mono (ext chain : List Hdr) (hne : ext ≠ [])
    (hv : ∀ h ∈ ext, 0 < compactToBig h.bits ∧ compactToBig h.bits < 2^256) :
    workSum chain < workSum (ext ++ chain) := Lemmas.workSum_strict_mono_chain ext chain hne hv

/-- every valid-target block contributes at least one unit of work -/
theorem workSum_ge_length (chain : List Hdr)
    (hv : ∀ h ∈ chain, 0 < compactToBig h.bits ∧ compactToBig h.bits < 2^256) :
    chain.length ≤ workSum chain := Lemmas.workSum_ge_length chain hv

example : ∀ h ∈ [(⟨0, 0x1d00ffff⟩ : Hdr)], 0 < compactToBig h.bits ∧ compactToBig h.bits < 2^256 := by
  intro h hh; simp at hh; subst hh; decide

/-! ### proof-of-work check -/

/-- `HashToBig` of an n-byte hash is below 256^n (below 2^256 for block hashes). -/
theorem hashToBig_lt (h : List UInt8) : hashToBig h < 256 ^ h.length := Lemmas.l6_hashToBig_lt h


/-- `checkProofOfWork` accepts iff 0 < target ≤ powLimit and hash ≤ target. -/
theorem pow_check_iff (bits : Nat) (hash : List UInt8) (lim : Int) :
    checkProofOfWork bits hash lim = .ok ↔
      0 < compactValue bits ∧ compactValue bits ≤ lim ∧ (hashToBig hash : Int) ≤ compactValue bits := by
  rw [← compactToBig_eq_spec]
  unfold checkProofOfWork
  simp only []
  by_cases h1 : compactToBig bits ≤ 0
  · simp only [h1, if_true]; constructor
    · intro h; cases h
    · intro h; omega
  · by_cases h2 : compactToBig bits > lim
    · simp only [h1, h2, if_true, if_false]; constructor
      · intro h; cases h
      · intro h; omega
    · by_cases h3 : (hashToBig hash : Int) > compactToBig bits
      · simp only [h1, h2, h3, if_true, if_false]; constructor
        · intro h; cases h
        · intro h; omega
      · simp only [h1, h2, h3, if_false]; constructor
        · intro _; omega
        · intro _; trivial

/-! ### retarget -/

/-- The retarget branch of the model computes `Spec.retarget`, then compacts it. -/
theorem retarget_eq_spec (p : Params) (last : Hdr) (rest : List Hdr) (t : Int) (first : Hdr)
    (hnr : p.noRetarget = false)
    (hb : Int.tmod ((rest.length : Int) + 1) p.blocksPerRetarget = 0)
    (hd : 0 ≤ p.blocksPerRetarget - 1)
    (hf : (last :: rest)[(p.blocksPerRetarget - 1).toNat]? = some first) :
    calcNextRequiredDifficulty p (last :: rest) t =
      some (bigToCompact (retarget
        (if p.enforceBIP94 then compactValue first.bits else compactValue last.bits)
        (last.time - first.time) p.minSpan p.maxSpan p.targetTimespan p.powLimit)) :=
  Lemmas.retarget_eq_spec p last rest t first hnr hb hd hf

/-- 4x clamp (general factor): the un-capped new target lies between old·min/T and old·max/T,
    and the result never exceeds powLimit. -/
theorem retarget_clamped (old actual tMin tMax T lim : Int)
    (hold : 0 ≤ old) (hT : 0 < T) (h0 : 0 ≤ tMin) (hmm : tMin ≤ tMax) :
    retarget old actual tMin tMax T lim ≤ lim ∧
    (retarget old actual tMin tMax T lim = lim ∨
      (Int.tdiv (old * tMin) T ≤ retarget old actual tMin tMax T lim ∧
       retarget old actual tMin tMax T lim ≤ Int.tdiv (old * tMax) T)) :=
  Lemmas.retarget_clamped old actual tMin tMax T lim hold hT h0 hmm

/-- Off-boundary, no min-difficulty rule: the required bits are the previous block's bits. -/
theorem no_retarget_off_boundary (p : Params) (last : Hdr) (rest : List Hdr) (t : Int)
    (hnr : p.noRetarget = false) (hr : p.reduceMinDiff = false)
    (hb : Int.tmod ((rest.length : Int) + 1) p.blocksPerRetarget ≠ 0) :
    calcNextRequiredDifficulty p (last :: rest) t = some last.bits := by
  simp [calcNextRequiredDifficulty, hnr, hr, hb]

/-- No-retarget networks always require powLimitBits. -/
theorem noRetarget_const (p : Params) (chain : List Hdr) (t : Int) (h : p.noRetarget = true) :
    calcNextRequiredDifficulty p chain t = some p.powLimitBits := by
  simp [calcNextRequiredDifficulty, h]

/-- Bitcoin Core computes the product in `arith_uint256` (wraps mod 2^256), btcd in `big.Int`. When the
    old target is a valid one (`0 ≤ old ≤ powLimit`) and `powLimit · maxTimespan < 2^256`, no wrap happens and
    the two agree. -/
theorem retarget_agrees_with_core (old actual tMin tMax T lim : Int) (h0 : 0 ≤ old) (hol : old ≤ lim)
    (hmin : 0 ≤ tMin) (hmm : tMin ≤ tMax) (hw : lim * tMax < 2^256) :
    retargetCore old actual tMin tMax T lim = retarget old actual tMin tMax T lim :=
  Lemmas.retargetCore_eq old actual tMin tMax T lim h0 hol hmin hmm hw

/-- The side condition matters: with the regtest/simnet limit 2^255-1 and mainnet timing the 256-bit
    product wraps (Core never gets there: regtest has `fPowNoRetargeting`, simnet does not exist in Core). -/
theorem retarget_core_wrap_witness :
    retargetCore (2^255 - 1) 4838400 302400 4838400 1209600 (2^255 - 1) ≠
      retarget (2^255 - 1) 4838400 302400 4838400 1209600 (2^255 - 1) := Lemmas.retargetCore_wraps

/-- The side condition holds on every shipped network that retargets and exists in Core
    (mainnet, testnet3, testnet4, signet): `powLimit · (targetTimespan · adjFactor) < 2^256`, and the
    clamp interval is well-formed. Regtest never retargets. -/
theorem pin_no_wrap_shipped :
    Generated.C09.main_powLimit * (Generated.C09.main_targetTimespan * Generated.C09.main_adjFactor) < 2^256 ∧
    Generated.C09.test3_powLimit * (Generated.C09.test3_targetTimespan * Generated.C09.test3_adjFactor) < 2^256 ∧
    Generated.C09.test4_powLimit * (Generated.C09.test4_targetTimespan * Generated.C09.test4_adjFactor) < 2^256 ∧
    Generated.C09.sig_powLimit * (Generated.C09.sig_targetTimespan * Generated.C09.sig_adjFactor) < 2^256 ∧
    Generated.C09.reg_noRetarget = true ∧
    (0 ≤ Int.tdiv Generated.C09.main_targetTimespan Generated.C09.main_adjFactor ∧
      Int.tdiv Generated.C09.main_targetTimespan Generated.C09.main_adjFactor ≤
        Generated.C09.main_targetTimespan * Generated.C09.main_adjFactor) := by decide

/-- Simnet (btcd only) is the one shipped retargeting network whose product can exceed 2^256: there is no
    Core behaviour to agree with, and btcd's `big.Int` arithmetic is exact. -/
theorem pin_simnet_product_exceeds :
    Generated.C09.sim_noRetarget = false ∧
    2^256 ≤ Generated.C09.sim_powLimit * (Generated.C09.sim_targetTimespan * Generated.C09.sim_adjFactor) := by
  decide

/-- The model's retarget branch therefore equals Core's wrapped computation under the stated side
    conditions (the old target is that of an accepted block, i.e. `≤ powLimit`). -/
theorem retarget_model_eq_core (p : Params) (last : Hdr) (rest : List Hdr) (t : Int) (first : Hdr)
    (hnr : p.noRetarget = false)
    (hb : Int.tmod ((rest.length : Int) + 1) p.blocksPerRetarget = 0)
    (hd : 0 ≤ p.blocksPerRetarget - 1)
    (hf : (last :: rest)[(p.blocksPerRetarget - 1).toNat]? = some first)
    (hmin : 0 ≤ p.minSpan) (hmm : p.minSpan ≤ p.maxSpan) (hw : p.powLimit * p.maxSpan < 2^256)
    (h0 : 0 ≤ (if p.enforceBIP94 then compactValue first.bits else compactValue last.bits))
    (hol : (if p.enforceBIP94 then compactValue first.bits else compactValue last.bits) ≤ p.powLimit) :
    calcNextRequiredDifficulty p (last :: rest) t =
      some (bigToCompact (retargetCore
        (if p.enforceBIP94 then compactValue first.bits else compactValue last.bits)
        (last.time - first.time) p.minSpan p.maxSpan p.targetTimespan p.powLimit)) := by
  rw [retarget_eq_spec p last rest t first hnr hb hd hf,
    retarget_agrees_with_core _ _ _ _ _ _ h0 hol hmin hmm hw]

/-- The genesis rule: the first block after an empty history must carry powLimitBits. -/
theorem genesis_rule (p : Params) (t : Int) : calcNextRequiredDifficulty p [] t = some p.powLimitBits :=
  Lemmas.l5_genesis p t

/-- With at least one block per period the computation is total: the AssertError
    ("unable to obtain previous retarget block") is unreachable on a history that starts at genesis. -/
theorem calcNext_total (p : Params) (chain : List Hdr) (t : Int) (hbpr : 0 < p.blocksPerRetarget) :
    (calcNextRequiredDifficulty p chain t).isSome = true := Lemmas.l5_total p chain t hbpr

/-- BIP94 (testnet4): the retarget starts from the bits of the FIRST block of the closing period. -/
theorem bip94_uses_first_block (p : Params) (last : Hdr) (rest : List Hdr) (t : Int) (first : Hdr)
    (hnr : p.noRetarget = false) (h94 : p.enforceBIP94 = true)
    (hb : Int.tmod ((rest.length : Int) + 1) p.blocksPerRetarget = 0)
    (hd : 0 ≤ p.blocksPerRetarget - 1)
    (hf : (last :: rest)[(p.blocksPerRetarget - 1).toNat]? = some first) :
    calcNextRequiredDifficulty p (last :: rest) t =
      some (bigToCompact (retarget (compactValue first.bits)
        (last.time - first.time) p.minSpan p.maxSpan p.targetTimespan p.powLimit)) := by
  rw [retarget_eq_spec p last rest t first hnr hb hd hf, h94]; rfl

/-- … so under BIP94 (≥ 2 blocks per period) a min-difficulty block closing the period has no influence
    on the next period's target. -/
theorem bip94_ignores_last_bits (p : Params) (last : Hdr) (rest : List Hdr) (t : Int) (b' : Nat)
    (h94 : p.enforceBIP94 = true) (h2 : 2 ≤ p.blocksPerRetarget)
    (hb : Int.tmod ((rest.length : Int) + 1) p.blocksPerRetarget = 0) :
    calcNextRequiredDifficulty p ({ last with bits := b' } :: rest) t =
      calcNextRequiredDifficulty p (last :: rest) t := Lemmas.l5_bip94_ignores_last_bits p last rest t b' h94 h2 hb

/-- The first block of a period never benefits from the min-difficulty exception: on a boundary the result
    is independent of `reduceMinDiff`, of the reduction time and of the new block's time stamp. -/
theorem boundary_ignores_mindiff (p : Params) (last : Hdr) (rest : List Hdr) (t t' : Int) (b : Bool) (x : Int)
    (hb : Int.tmod ((rest.length : Int) + 1) p.blocksPerRetarget = 0) :
    calcNextRequiredDifficulty { p with reduceMinDiff := b, minDiffReductionTime := x } (last :: rest) t' =
      calcNextRequiredDifficulty p (last :: rest) t := Lemmas.l5_boundary_ignores_mindiff p last rest t t' b x hb

/-- Testnet rule, block in time: the walk-back value is required. -/
theorem mindiff_on_time_block (p : Params) (last : Hdr) (rest : List Hdr) (t : Int)
    (hnr : p.noRetarget = false) (hr : p.reduceMinDiff = true)
    (hb : Int.tmod ((rest.length : Int) + 1) p.blocksPerRetarget ≠ 0)
    (ht : t ≤ last.time + p.minDiffReductionTime) :
    calcNextRequiredDifficulty p (last :: rest) t = some (findPrevTestNetDifficulty p (last :: rest)) :=
  Lemmas.l5_mindiff_on_time p last rest t hnr hr hb ht

/-- The walk-back stops at once on a block that does not carry powLimitBits … -/
theorem walkback_non_limit (p : Params) (last : Hdr) (rest : List Hdr) (h : last.bits ≠ p.powLimitBits) :
    findPrevTestNetDifficulty p (last :: rest) = last.bits := Lemmas.l5_walkback_non_limit p last rest h

/-- … and on the first block of a period, whatever its bits (it never crosses a retarget boundary). -/
theorem walkback_boundary (p : Params) (last : Hdr) (rest : List Hdr)
    (h : Int.tmod (rest.length : Int) p.blocksPerRetarget = 0) :
    findPrevTestNetDifficulty p (last :: rest) = last.bits := Lemmas.l5_walkback_boundary p last rest h

/-- The walk-back answers with the bits of a block of the history, or powLimitBits. -/
theorem walkback_mem (p : Params) (chain : List Hdr) :
    findPrevTestNetDifficulty p chain = p.powLimitBits ∨
      ∃ h ∈ chain, findPrevTestNetDifficulty p chain = h.bits := Lemmas.l5_walkback_mem p chain

/-- Locality (side branches): the required difficulty on a branch depends only on the branch's own last
    `blocksPerRetarget` headers and on its height — never on what lies below them, e.g. on the main chain the
    branch forked from, or on another branch of the same height. -/
theorem calcNext_local (p : Params) (hbpr : 0 < p.blocksPerRetarget) (l r r' : List Hdr) (t : Int)
    (hlen : r.length = r'.length) (hl : p.blocksPerRetarget ≤ (l.length : Int)) :
    calcNextRequiredDifficulty p (l ++ r) t = calcNextRequiredDifficulty p (l ++ r') t :=
  Lemmas.l10_calcNext_local p hbpr l r r' t hlen hl

/-- Testnet min-difficulty rule: more than the reduction time after the tip ⇒ powLimitBits. -/
theorem mindiff_late_block (p : Params) (last : Hdr) (rest : List Hdr) (t : Int)
    (hnr : p.noRetarget = false) (hr : p.reduceMinDiff = true)
    (hb : Int.tmod ((rest.length : Int) + 1) p.blocksPerRetarget ≠ 0)
    (ht : t > last.time + p.minDiffReductionTime) :
    calcNextRequiredDifficulty p (last :: rest) t = some p.powLimitBits := by
  simp [calcNextRequiredDifficulty, hnr, hr, hb, ht]

/-- The walk-back returns the bits of the most recent ancestor that is on a retarget
    boundary or does not carry powLimitBits (powLimitBits if none). -/
theorem mindiff_walkback_spec (p : Params) (chain : List Hdr) :
    findPrevTestNetDifficulty p chain =
      match (withHeights chain).find? (fun (h, ht) =>
          !(decide (Int.tmod (ht : Int) p.blocksPerRetarget ≠ 0) && h.bits == p.powLimitBits)) with
      | some (h, _) => h.bits
      | none => p.powLimitBits :=
  Lemmas.walkback_spec p chain

/-! ### median time past -/

/-- MTP is an element of the last ≤ 11 timestamps with at most ⌊n/2⌋ elements strictly
    smaller and at most ⌊(n-1)/2⌋ strictly greater: the (upper) median. -/
theorem mtp_is_median (chain : List Hdr) (hne : chain ≠ []) :
    let ts := (chain.take MEDIAN_TIME_SPAN).map (·.time)
    let m := calcPastMedianTime chain
    m ∈ ts ∧ (ts.filter (· < m)).length ≤ ts.length / 2 ∧
      (ts.filter (· > m)).length ≤ (ts.length - 1) / 2 :=
  Lemmas.mtp_is_median chain hne

/-- Locality: the MTP depends only on the branch's own last 11 headers. -/
theorem mtp_local (l r r' : List Hdr) (hl : MEDIAN_TIME_SPAN ≤ l.length) :
    calcPastMedianTime (l ++ r) = calcPastMedianTime (l ++ r') := Lemmas.l10_mtp_local l r r' hl

/-- Under the time-stamp rule (a new header must be later than the MTP of its parent) the median time
    past never decreases along a chain. -/
theorem mtp_monotone (h : Hdr) (chain : List Hdr) (hne : chain ≠ [])
    (ht : h.time > calcPastMedianTime chain) :
    calcPastMedianTime chain ≤ calcPastMedianTime (h :: chain) := Lemmas.mtp_monotone h chain hne ht

example : (⟨5, 0⟩ : Hdr).time > calcPastMedianTime [⟨4, 0⟩, ⟨3, 0⟩] := by decide

/-- For every header history obeying the time-stamp rule (`Lemmas.TimesValid`: each header is later than
    the MTP of its ancestors) the MTP of any descendant is at least the MTP of any of its ancestors. -/
theorem mtp_monotone_along_chain (ext base : List Hdr) (hb : base ≠ [])
    (hv : Lemmas.TimesValid (ext ++ base)) :
    calcPastMedianTime base ≤ calcPastMedianTime (ext ++ base) := Lemmas.l6_mtp_monotone_chain ext base hb hv

example : Lemmas.TimesValid [⟨5, 0⟩, ⟨4, 0⟩, ⟨3, 0⟩] := by
  refine ⟨fun _ => by decide, fun _ => by decide, fun h => absurd rfl h, trivial⟩

/-! ### header context / sanity verdicts (`CheckBlockHeaderContext`, `CheckBlockHeaderSanity`) -/

/-- A header passes the difficulty and time-stamp clauses of `CheckBlockHeaderContext` iff its bits are the
    required ones, its time is after the parent's MTP and (BIP94 networks) it is no time-warp block. -/
theorem header_context_ok_iff (p : Params) (prev : Hdr) (rest : List Hdr) (h : Hdr) :
    checkBlockHeaderContext p (prev :: rest) h false = .ok ↔
      calcNextRequiredDifficulty p (prev :: rest) h.time = some h.bits ∧
      calcPastMedianTime (prev :: rest) < h.time ∧
      (p.enforceBIP94 = true →
        assertNoTimeWarp (((prev :: rest).length : Nat) : Int) p.blocksPerRetarget h.time prev.time = true) :=
  Lemmas.l5_ctx_ok_iff p prev rest h

/-- A header accepted by the context check keeps the MTP monotone. -/
theorem accepted_header_mtp_monotone (p : Params) (prev : Hdr) (rest : List Hdr) (h : Hdr)
    (hok : checkBlockHeaderContext p (prev :: rest) h false = .ok) :
    calcPastMedianTime (prev :: rest) ≤ calcPastMedianTime (h :: prev :: rest) :=
  Lemmas.l6_accepted_mtp p prev rest h hok

/-- `BFFastAdd` skips all three clauses. -/
theorem header_context_fast_add (p : Params) (prev : Hdr) (rest : List Hdr) (h : Hdr) :
    checkBlockHeaderContext p (prev :: rest) h true = .ok := Lemmas.l5_ctx_fast p prev rest h

/-- `checkProofOfWork` with flags: the hash clause is dropped exactly under `BFNoPoWCheck`. -/
theorem pow_flags_ok_iff (bits : Nat) (hash : List UInt8) (lim : Int) (np : Bool) :
    checkProofOfWorkFlags bits hash lim np = .ok ↔
      0 < compactValue bits ∧ compactValue bits ≤ lim ∧
      (np = true ∨ (hashToBig hash : Int) ≤ compactValue bits) := by
  rw [← compactToBig_eq_spec]; exact Lemmas.l5_powflags_ok_iff bits hash lim np

theorem pow_flags_none (bits : Nat) (hash : List UInt8) (lim : Int) :
    checkProofOfWorkFlags bits hash lim false = checkProofOfWork bits hash lim :=
  Lemmas.l5_powflags_false bits hash lim

/-- `CheckBlockHeaderSanity` accepts iff the PoW clause holds, the time stamp has whole-second precision
    and it is at most two hours ahead of the adjusted time. -/
theorem header_sanity_ok_iff (bits : Nat) (hash : List UInt8) (lim : Int) (np : Bool) (sec nsec adj : Int) :
    checkBlockHeaderSanity bits hash lim np sec nsec adj = .ok ↔
      checkProofOfWorkFlags bits hash lim np = .ok ∧ nsec = 0 ∧ sec ≤ adj + MAX_TIME_OFFSET :=
  Lemmas.l5_sanity_ok_iff bits hash lim np sec nsec adj

/-! ### network-adjusted time (`NewMedianTime` / `AddTimeSample` / `Offset` / `AdjustedTime`) -/

/-- A second sample from a known source is ignored. -/
theorem adjtime_duplicate_ignored (m : MedianTime) (id : String) (o : Int) (h : m.ids.contains id = true) :
    m.addSample id o = m := Lemmas.l8_dup m id o h

/-- For every sequence of samples, every reported offset is strictly within ±70 minutes. -/
theorem adjtime_offset_bounded (ss : List (String × Int)) :
    ∀ x ∈ MedianTime.run MedianTime.new ss, x.natAbs < 4200 :=
  Lemmas.l8_run_bounded ss MedianTime.new (by decide)

/-- At most 200 offsets are stored, and 200 stay 200. -/
theorem adjtime_entries_capped (m : MedianTime) (id : String) (o : Int)
    (hl : m.offsets.length ≤ MAX_MEDIAN_TIME_ENTRIES) :
    (m.addSample id o).offsets.length ≤ MAX_MEDIAN_TIME_ENTRIES ∧
      (m.offsets.length = MAX_MEDIAN_TIME_ENTRIES →
        (m.addSample id o).offsets.length = MAX_MEDIAN_TIME_ENTRIES) := Lemmas.l8_len m id o hl

/-- Once 200 samples are stored the offset never changes again (Core's behaviour, mirrored on purpose:
    the update needs an odd count and 200 is even). -/
theorem adjtime_frozen_at_cap (m : MedianTime) (id : String) (o : Int)
    (hl : m.offsets.length = MAX_MEDIAN_TIME_ENTRIES) : (m.addSample id o).offset = m.offset :=
  Lemmas.l8_frozen m id o hl

/-- Fewer than five stored offsets, or an even number: the offset is left alone. -/
theorem adjtime_no_update (m : MedianTime) (id : String) (o : Int) (h : m.ids.contains id = false)
    (hn : (Lemmas.l8_offs m o).length < 5 ∨ (Lemmas.l8_offs m o).length % 2 ≠ 1) :
    (m.addSample id o).offset = m.offset := Lemmas.l8_no_update m id o h hn

/-- Otherwise the new offset is the median of the stored offsets (`Lemmas.l8_offs`: the previous ones, minus
    the oldest when 200 were stored, plus the new one truncated to whole seconds), or 0 if that median is
    70 minutes or more off. -/
theorem adjtime_update_is_median (m : MedianTime) (id : String) (o : Int) (h : m.ids.contains id = false)
    (h5 : 5 ≤ (Lemmas.l8_offs m o).length) (hodd : (Lemmas.l8_offs m o).length % 2 = 1) :
    (m.addSample id o).offset = (if (Lemmas.l8_med m o).natAbs < 4200 then Lemmas.l8_med m o else 0) ∧
      Lemmas.l8_med m o ∈ Lemmas.l8_offs m o ∧
      ((Lemmas.l8_offs m o).filter (· < Lemmas.l8_med m o)).length ≤ (Lemmas.l8_offs m o).length / 2 ∧
      ((Lemmas.l8_offs m o).filter (· > Lemmas.l8_med m o)).length ≤ (Lemmas.l8_offs m o).length / 2 :=
  Lemmas.l8_update m id o h h5 hodd

/-- Consequently an accepted header is never more than 3 h 10 min ahead of the local clock, whatever the
    peers reported. -/
theorem header_time_bound (bits : Nat) (hash : List UInt8) (lim : Int) (np : Bool) (sec nsec now off : Int)
    (hoff : off.natAbs < 4200)
    (hok : checkBlockHeaderSanity bits hash lim np sec nsec (now + off) = .ok) : sec < now + 11400 := by
  have h := ((header_sanity_ok_iff bits hash lim np sec nsec (now + off)).mp hok).2.2
  unfold MAX_TIME_OFFSET at h
  omega

example : MedianTime.run MedianTime.new [("a", 7000), ("b", 7000), ("c", -1999), ("d", 7000), ("e", 7999)]
    = [0, 0, 0, 0, 7] := by decide

/-! ### whole header histories through `ProcessBlockHeader` -/

/-- A header (whose hash meets its own target and whose time is not in the future) is accepted iff its
    target is in `(0, powLimit]` and the context clauses hold. -/
theorem header_verdict_ok_iff (p : Params) (chain : List Hdr) (h : Hdr) :
    headerVerdict p chain h = .ok ↔
      (0 < compactToBig h.bits ∧ compactToBig h.bits ≤ p.powLimit) ∧
        checkBlockHeaderContext p chain h false = .ok := Lemmas.l7_verdict_ok_iff p chain h

/-- Whatever sequence of headers is offered, the resulting chain is the old one extended by exactly the
    accepted headers; every accepted header has a target in `(0, powLimit]`; the time-stamp rule is kept. -/
theorem process_headers_extends (p : Params) (chain hs : List Hdr) :
    ∃ ext, (processHeaders p chain hs).1 = ext ++ chain ∧ Lemmas.ValidTargets p ext ∧
      (Lemmas.TimesValid chain → Lemmas.TimesValid (ext ++ chain)) ∧
      ext.length = ((processHeaders p chain hs).2.filter (· = .ok)).length ∧
      (processHeaders p chain hs).2.length = hs.length := Lemmas.l7_process_ext p hs chain

/-- Cumulative work grows by at least one unit per accepted header, for every offered header sequence
    (strictly increasing along any chain of accepted headers). -/
theorem process_headers_work (p : Params) (chain hs : List Hdr) (hlim : p.powLimit < 2 ^ 256) :
    workSum chain + ((processHeaders p chain hs).2.filter (· = .ok)).length ≤
      workSum (processHeaders p chain hs).1 := Lemmas.l7_work p chain hs hlim

/-- … and the median time past never goes back. -/
theorem process_headers_mtp (p : Params) (chain hs : List Hdr) (hne : chain ≠ [])
    (hv : Lemmas.TimesValid chain) :
    calcPastMedianTime chain ≤ calcPastMedianTime (processHeaders p chain hs).1 ∧
      Lemmas.TimesValid (processHeaders p chain hs).1 := Lemmas.l7_mtp p chain hs hne hv

/-- Header TREES (every offered header names its parent; side branches grow next to the main branch): every
    known chain stays non-empty and obeys the time-stamp rule, whatever is offered on whatever branch. -/
theorem process_tree_good (p : Params) (hs : List (Nat × Hdr)) (known : List (List Hdr))
    (hk : ∀ c ∈ known, Lemmas.GoodChain c) : ∀ c ∈ (processTree p known hs).1, Lemmas.GoodChain c :=
  Lemmas.l11_tree_good p hs known hk

/-- The set of known chains only grows, each new chain is `h :: parent` with a parent that is itself known,
    a target in (0, powLimit] and strictly more cumulative work than the parent — on every branch. -/
theorem process_tree_grows (p : Params) (hlim : p.powLimit < 2 ^ 256) (hs : List (Nat × Hdr))
    (known : List (List Hdr)) :
    ∃ added, (processTree p known hs).1 = known ++ added ∧
      ∀ c ∈ added, ∃ h par, c = h :: par ∧ par ∈ known ++ added ∧
        (0 < compactToBig h.bits ∧ compactToBig h.bits ≤ p.powLimit) ∧ workSum par < workSum c :=
  Lemmas.l11_tree_grows p hlim hs known

example : ∀ c ∈ [[(⟨1296688602, 0x207fffff⟩ : Hdr)]], Lemmas.GoodChain c := by
  intro c hc; simp at hc; subst hc; exact ⟨by simp, fun h => absurd rfl h, trivial⟩

/-- a chain consisting of a genesis header alone satisfies the hypotheses -/
example : ([⟨1296688602, 0x207fffff⟩] : List Hdr) ≠ [] ∧ Lemmas.TimesValid [⟨1296688602, 0x207fffff⟩] :=
  ⟨by simp, fun h => absurd rfl h, trivial⟩

/-! ### calcEasiestDifficulty (checkpoint-era lower bound on claimed work) -/

/-- The loop multiplies the target by the adjustment factor once per elapsed maximal retarget timespan,
    stopping as soon as the duration is used up or the limit is reached: the result is `t · adj^k` where
    `k` is exactly the number of iterations whose guard held. -/
theorem easiestLoop_spec (adj maxSpan lim : Int) (fuel : Nat) (d t : Int) :
    ∃ k : Nat, k ≤ fuel ∧ easiestLoop adj maxSpan lim fuel d t = t * adj ^ k ∧
      (∀ j : Nat, j < k → d - j * maxSpan > 0 ∧ t * adj ^ j < lim) ∧
      (k = fuel ∨ ¬ (d - k * maxSpan > 0 ∧ t * adj ^ k < lim)) :=
  Lemmas.l5_easiestLoop_spec adj maxSpan lim fuel d t

/-- With `maxSpan ≥ 1` (every shipped network) the model's fuel is never the reason to stop: one more unit
    of fuel changes nothing, i.e. the Go `for` loop terminates with the same value. -/
theorem easiestLoop_fuel_enough (adj maxSpan lim : Int) (hs : 1 ≤ maxSpan) (fuel : Nat) (d t : Int)
    (hf : d ≤ fuel) :
    easiestLoop adj maxSpan lim (fuel + 1) d t = easiestLoop adj maxSpan lim fuel d t :=
  Lemmas.l5_easiestLoop_fuel adj maxSpan lim hs fuel d t hf

/-- The easiest difficulty never decodes to a target above the proof-of-work limit. -/
theorem easiest_le_limit (p : Params) (bits : Nat) (d : Int)
    (hlim : 0 < p.powLimit) (hlen : p.powLimit < 256 ^ 254)
    (hbits : compactToBig p.powLimitBits ≤ p.powLimit)
    (ht : 0 ≤ compactToBig bits) (ha : 0 ≤ p.adjFactor) :
    compactToBig (calcEasiestDifficulty p bits d) ≤ p.powLimit :=
  Lemmas.l5_easiest_le_limit p bits d hlim hlen hbits ht ha

/-! ### subsidy -/

/-- `CalcBlockSubsidy` equals the protocol schedule on non-negative heights and positive intervals. -/
theorem subsidy_eq_spec (h i : Nat) (hi : 0 < i) :
    calcBlockSubsidy (h : Int) (i : Int) = subsidy h i := Lemmas.subsidy_eq_spec h i hi

/-- Total issuance never exceeds 21 million coins, for every height and every interval ≤ 210000. -/
theorem total_subsidy_le (N I : Nat) (hI : 0 < I) (hI' : I ≤ 210000) :
    totalSubsidy I N ≤ MAX_MONEY := Lemmas.total_subsidy_le N I hI hI'

/-- The subsidy halves every `I` blocks, never increases with the height, and is zero exactly from the
    34th era on. -/
theorem subsidy_halving (h I : Nat) (hI : 0 < I) : subsidy (h + I) I = subsidy h I / 2 :=
  Lemmas.l6_subsidy_halving h I hI
theorem subsidy_antitone (h h' I : Nat) (hh : h ≤ h') : subsidy h' I ≤ subsidy h I :=
  Lemmas.l6_subsidy_antitone h h' I hh
theorem subsidy_zero_iff (h I : Nat) (hI : 0 < I) : subsidy h I = 0 ↔ 33 * I ≤ h :=
  Lemmas.l6_subsidy_zero_iff h I hI

/-- Once the subsidy is zero it never comes back (no epoch, however extreme, pays again) … -/
theorem subsidy_never_returns (h h' I : Nat) (hh : h ≤ h') (hz : subsidy h I = 0) : subsidy h' I = 0 :=
  Lemmas.l10_subsidy_never_returns h h' I hh hz
/-- … and the Go function (shift counts ≥ 64 included) pays nothing from era 33 on, for every interval. -/
theorem calcBlockSubsidy_zero_from_era_33 (h I : Nat) (hI : 0 < I) (hq : 33 * I ≤ h) :
    calcBlockSubsidy (h : Int) (I : Int) = 0 := Lemmas.l10_calcBlockSubsidy_zero h I hI hq

/-- Total issuance is monotone in the height. -/
theorem totalSubsidy_mono (I N M : Nat) (h : N ≤ M) : totalSubsidy I N ≤ totalSubsidy I M :=
  Lemmas.totalSubsidy_mono I N M h

/-- The 33 paying eras of the 210000-block schedule sum to 9 999 999 989 satoshi per block position. -/
theorem halvingSum_33 : halvingSum 33 = 9999999989 := Lemmas.halvingSum_33

/-- Exact mainnet issuance: from height 33·210000 on, exactly 2 099 999 997 690 000 satoshi exist … -/
theorem total_subsidy_exact (N : Nat) (h : 33 * 210000 ≤ N) : totalSubsidy 210000 N = MAINNET_TOTAL :=
  Lemmas.total_subsidy_exact N h

/-- … never more at any height … -/
theorem total_subsidy_le_exact (N : Nat) : totalSubsidy 210000 N ≤ MAINNET_TOTAL :=
  Lemmas.total_subsidy_le_exact N

/-- … and strictly less before (era 32 still pays one satoshi per block). -/
theorem total_subsidy_lt_before (N : Nat) (h : N < 33 * 210000) : totalSubsidy 210000 N < MAINNET_TOTAL :=
  Lemmas.total_subsidy_lt_before N h

example : MAINNET_TOTAL = 2099999997690000 ∧ MAINNET_TOTAL < MAX_MONEY := by decide

/-- interval 0 (synthetic parameter sets) pays 50 BTC forever: excluded from the cap. -/
theorem subsidy_interval_zero (h : Int) : calcBlockSubsidy h 0 = BASE_SUBSIDY := by
  simp [calcBlockSubsidy]

/-! ### BIP94 -/
theorem timewarp_iff (h bpr ht pt : Int) :
    assertNoTimeWarp h bpr ht pt = true ↔ (Int.tmod h bpr ≠ 0 ∨ pt - 600 ≤ ht) := by
  unfold assertNoTimeWarp MAX_TIMEWARP
  by_cases hb : Int.tmod h bpr = 0 <;> simp [hb] <;> omega

/-! ### pinning of regenerated facts (T2): a changed constant in /repo breaks these -/

theorem pin_baseSubsidy : Generated.C09.baseSubsidy = (BASE_SUBSIDY : Int) := by decide
theorem pin_medianTimeBlocks : Generated.C09.medianTimeBlocks = (MEDIAN_TIME_SPAN : Int) := by decide
theorem pin_maxTimeWarp : Generated.C09.maxTimeWarpSecs = MAX_TIMEWARP := by decide
theorem pin_maxTimeOffset : Generated.C09.maxTimeOffsetSeconds = MAX_TIME_OFFSET := by decide
theorem pin_adjusted_time :
    Generated.C09.maxAllowedOffsetSecs = MAX_ALLOWED_OFFSET ∧
    Generated.C09.maxMedianTimeEntries = (MAX_MEDIAN_TIME_ENTRIES : Int) := by decide
theorem pin_main :
    Generated.C09.main_powLimit = 2^224 - 1 ∧ Generated.C09.main_powLimitBits = 0x1d00ffff ∧
    Generated.C09.main_subsidyInterval = 210000 ∧ Generated.C09.main_targetTimespan = 1209600 ∧
    Generated.C09.main_targetTimePerBlock = 600 ∧ Generated.C09.main_adjFactor = 4 ∧
    Generated.C09.main_noRetarget = false ∧ Generated.C09.main_reduceMinDiff = false ∧
    Generated.C09.main_enforceBIP94 = false := by decide
theorem pin_testnets :
    Generated.C09.test3_powLimit = 2^224 - 1 ∧ Generated.C09.test3_reduceMinDiff = true ∧
    Generated.C09.test3_minDiffReductionTime = 1200 ∧ Generated.C09.test3_enforceBIP94 = false ∧
    Generated.C09.test4_powLimit = 2^224 - 1 ∧ Generated.C09.test4_reduceMinDiff = true ∧
    Generated.C09.test4_minDiffReductionTime = 1200 ∧ Generated.C09.test4_enforceBIP94 = true ∧
    Generated.C09.test3_subsidyInterval = 210000 ∧ Generated.C09.test4_subsidyInterval = 210000 := by decide
theorem pin_other_nets :
    Generated.C09.reg_powLimit = 2^255 - 1 ∧ Generated.C09.reg_powLimitBits = 0x207fffff ∧
    Generated.C09.reg_noRetarget = true ∧ Generated.C09.reg_subsidyInterval = 150 ∧
    Generated.C09.sim_powLimit = 2^255 - 1 ∧ Generated.C09.sim_powLimitBits = 0x207fffff ∧
    Generated.C09.sig_powLimit = 0x0377ae * 2^216 ∧ Generated.C09.sig_powLimitBits = 0x1e0377ae ∧
    Generated.C09.sig_subsidyInterval = 210000 ∧ Generated.C09.sim_subsidyInterval = 210000 := by decide
/-- retarget timing of every shipped network: two weeks, ten minutes, factor 4 (2016 blocks per period) -/
theorem pin_timing_all_nets :
    [Generated.C09.main_targetTimespan, Generated.C09.test3_targetTimespan, Generated.C09.test4_targetTimespan,
     Generated.C09.sig_targetTimespan, Generated.C09.reg_targetTimespan, Generated.C09.sim_targetTimespan]
      = List.replicate 6 1209600 ∧
    [Generated.C09.main_targetTimePerBlock, Generated.C09.test3_targetTimePerBlock,
     Generated.C09.test4_targetTimePerBlock, Generated.C09.sig_targetTimePerBlock,
     Generated.C09.reg_targetTimePerBlock, Generated.C09.sim_targetTimePerBlock] = List.replicate 6 600 ∧
    [Generated.C09.main_adjFactor, Generated.C09.test3_adjFactor, Generated.C09.test4_adjFactor,
     Generated.C09.sig_adjFactor, Generated.C09.reg_adjFactor, Generated.C09.sim_adjFactor] = List.replicate 6 4 := by
  decide
/-- the rule switches of every shipped network -/
theorem pin_switches_all_nets :
    [Generated.C09.main_noRetarget, Generated.C09.test3_noRetarget, Generated.C09.test4_noRetarget,
     Generated.C09.sig_noRetarget, Generated.C09.reg_noRetarget, Generated.C09.sim_noRetarget]
      = [false, false, false, false, true, false] ∧
    [Generated.C09.main_reduceMinDiff, Generated.C09.test3_reduceMinDiff, Generated.C09.test4_reduceMinDiff,
     Generated.C09.sig_reduceMinDiff, Generated.C09.reg_reduceMinDiff, Generated.C09.sim_reduceMinDiff]
      = [false, true, true, false, true, true] ∧
    [Generated.C09.main_enforceBIP94, Generated.C09.test3_enforceBIP94, Generated.C09.test4_enforceBIP94,
     Generated.C09.sig_enforceBIP94, Generated.C09.reg_enforceBIP94, Generated.C09.sim_enforceBIP94]
      = [false, false, true, false, false, false] ∧
    [Generated.C09.test3_minDiffReductionTime, Generated.C09.test4_minDiffReductionTime,
     Generated.C09.reg_minDiffReductionTime, Generated.C09.sim_minDiffReductionTime] = List.replicate 4 1200 ∧
    Generated.C09.test3_powLimitBits = 0x1d00ffff ∧ Generated.C09.test4_powLimitBits = 0x1d00ffff := by decide
/-- every genesis block carries its network's powLimitBits (the genesis rule of the model), and the
    genesis time stamps are the published ones -/
theorem pin_genesis :
    Generated.C09.main_genesisBits = Generated.C09.main_powLimitBits ∧
    Generated.C09.test3_genesisBits = Generated.C09.test3_powLimitBits ∧
    Generated.C09.test4_genesisBits = Generated.C09.test4_powLimitBits ∧
    Generated.C09.sig_genesisBits = Generated.C09.sig_powLimitBits ∧
    Generated.C09.reg_genesisBits = Generated.C09.reg_powLimitBits ∧
    Generated.C09.sim_genesisBits = Generated.C09.sim_powLimitBits ∧
    Generated.C09.main_genesisTime = 1231006505 ∧ Generated.C09.test3_genesisTime = 1296688602 ∧
    Generated.C09.test4_genesisTime = 1714777860 ∧ Generated.C09.sig_genesisTime = 1598918400 ∧
    Generated.C09.reg_genesisTime = 1296688602 ∧ Generated.C09.sim_genesisTime = 1401292357 := by decide
/-- every shipped powLimit is the value of its powLimitBits and is below 2^256 (so work is positive) -/
theorem pin_powLimitBits_consistent :
    compactToBig 0x1d00ffff ≤ Generated.C09.main_powLimit ∧
    compactToBig 0x207fffff ≤ Generated.C09.reg_powLimit ∧
    compactToBig 0x1e0377ae = Generated.C09.sig_powLimit ∧
    Generated.C09.reg_powLimit < 2^256 := by decide

end BV.C09
