import BV.Common.Loop
import BV.C09.Driver
/-! `drv_c09`: one case per input line `C09 <op> <args…>`, one canonical result line back.
Imports only core-only modules so that it links as a native executable. -/
def main : IO Unit := BV.Loop.run "C09" BV.C09.Driver.handle
