/-
C01 helper lemmas: the decision procedure against the conjunction of the rule predicates.
-/
import BV.C01.Model
namespace BV.C01.Lemmas
open BV.C01

theorem mem_all (r : Rule) : r ∈ Rule.all := by
  cases r <;> simp [Rule.all]

theorem firstViolation_none (d : Desc) : firstViolation d = none ↔ ∀ r : Rule, ruleOk r d = true := by
  unfold firstViolation
  rw [List.find?_eq_none]
  constructor
  · intro h r
    have := h r (mem_all r)
    simpa using this
  · intro h r _
    simp [h r]

theorem validBlock_ok_iff (d : Desc) : validBlock d = .ok () ↔ Valid d := by
  unfold validBlock Valid
  rw [← firstViolation_none]
  cases h : firstViolation d <;> simp

theorem validBlock_error (d : Desc) (r : Rule) (h : validBlock d = .error r) : ruleOk r d = false := by
  unfold validBlock at h
  cases hf : firstViolation d with
  | none => rw [hf] at h; cases h
  | some r' =>
    rw [hf] at h
    have hr : r' = r := by cases h; rfl
    subst hr
    unfold firstViolation at hf
    have := List.find?_some hf
    simpa using this

end BV.C01.Lemmas
