/-
C01 helper lemmas: the decision procedure against the conjunction of the rule predicates.
-/
import BV.C01.Model
import BV.C01.ChainLemmas
namespace BV.C01.Lemmas
open BV.C01

theorem mem_all (r : Rule) : r ∈ Rule.all := by
  cases r <;> simp [Rule.all]

theorem firstViolation_none (d : Desc) : firstViolation d = none ↔ ∀ r : Rule, ruleOk r d = true := by
  unfold firstViolation
  rw [List.find?_eq_none]
  constructor
  · intro h r
    have := h r (mem_all r)
    simpa using this
  · intro h r _
    simp [h r]

theorem validBlock_ok_iff (d : Desc) : validBlock d = .ok () ↔ Valid d := by
  unfold validBlock Valid
  rw [← firstViolation_none]
  cases h : firstViolation d <;> simp

theorem validBlock_error (d : Desc) (r : Rule) (h : validBlock d = .error r) : ruleOk r d = false := by
  unfold validBlock at h
  cases hf : firstViolation d with
  | none => rw [hf] at h; cases h
  | some r' =>
    rw [hf] at h
    have hr : r' = r := by cases h; rfl
    subst hr
    unfold firstViolation at hf
    have := List.find?_some hf
    simpa using this

/-! ### the three stages at which btcd applies the rules, and the oracle they induce -/

theorem stage_lt (r : Rule) : stage r = 0 ∨ stage r = 1 ∨ stage r = 2 := by
  cases r <;> simp [stage]

theorem stageOk_of_valid (d : Desc) (h : Valid d) (k : Nat) : stageOk k d = true := by
  unfold stageOk
  rw [List.all_eq_true]
  intro r _
  simp [h r]

theorem valid_of_stages (d : Desc) (h0 : stageOk 0 d = true) (h1 : stageOk 1 d = true)
    (h2 : stageOk 2 d = true) : Valid d := by
  intro r
  unfold stageOk at h0 h1 h2
  rw [List.all_eq_true] at h0 h1 h2
  have m := mem_all r
  rcases stage_lt r with e | e | e
  · have := h0 r m; simpa [e] using this
  · have := h1 r m; simpa [e] using this
  · have := h2 r m; simpa [e] using this

open Chain in
/-- the oracle induced by a derivation `D` of the description from a block and its own ancestor list -/
def oracleOf {β : Type} (D : List (Blk β) → Blk β → Desc) : Oracle β :=
  { sane := fun b => stageOk 0 (D [] b)
    ctxOk := fun anc b => stageOk 1 (D anc b)
    connOk := fun anc b => stageOk 2 (D anc b) }

/-- the sanity stage does not look at the context part of the description -/
def ContextFree {β : Type} (D : List (Chain.Blk β) → Chain.Blk β → Desc) : Prop :=
  ∀ anc b, stageOk 0 (D anc b) = stageOk 0 (D [] b)

open Chain in
theorem oracle_all_iff {β : Type} (D : List (Blk β) → Blk β → Desc) (hD : ContextFree D)
    (anc : List (Blk β)) (b : Blk β) :
    ((oracleOf D).sane b = true ∧ (oracleOf D).ctxOk anc b = true ∧ (oracleOf D).connOk anc b = true) ↔
      validBlock (D anc b) = .ok () := by
  rw [validBlock_ok_iff]
  unfold oracleOf
  simp only []
  constructor
  · rintro ⟨h0, h1, h2⟩
    rw [← hD anc b] at h0
    exact valid_of_stages _ h0 h1 h2
  · intro h
    refine ⟨?_, stageOk_of_valid _ h 1, stageOk_of_valid _ h 2⟩
    rw [← hD anc b]
    exact stageOk_of_valid _ h 0

open Chain in
/-- every block of `l` (tip first) except the final genesis block is valid on its own suffix -/
def AllValid {β : Type} (D : List (Blk β) → Blk β → Desc) (g : Blk β) : List (Blk β) → Prop
  | [] => False
  | b :: rest => (rest = [] ∧ b = g) ∨ (validBlock (D rest b) = .ok () ∧ AllValid D g rest)

open Chain in
theorem allValid_of_chainOk {β : Type} (D : List (Blk β) → Blk β → Desc) (hD : ContextFree D) (g : Blk β) :
    ∀ l, ChainOk (oracleOf D) g l → AllValid D g l
  | [], h => h
  | b :: rest, h => by
    rcases h with h | ⟨h0, h1, h2, h3⟩
    · exact Or.inl h
    · exact Or.inr ⟨(oracle_all_iff D hD rest b).mp ⟨h0, h1, h2⟩, allValid_of_chainOk D hD g rest h3⟩

open Chain in
theorem chainOk_of_allValid {β : Type} (D : List (Blk β) → Blk β → Desc) (hD : ContextFree D) (g : Blk β) :
    ∀ l, AllValid D g l → ChainOk (oracleOf D) g l
  | [], h => h
  | b :: rest, h => by
    rcases h with h | ⟨hv, hr⟩
    · exact Or.inl h
    · have := (oracle_all_iff D hD rest b).mpr hv
      exact Or.inr ⟨this.1, this.2.1, this.2.2, chainOk_of_allValid D hD g rest hr⟩

end BV.C01.Lemmas
