/-
C01 chain machine — the block-acceptance state machine of btcd with the rule checks as oracles.

Mirrors  process.go  ProcessBlock / processOrphans,
         accept.go   maybeAcceptBlock,
         chain.go    connectBestChain, getReorganizeNodes, reorganizeChain / verifyReorganizationValidity,
         blockindex.go status bits (valid, validate-failed, invalid-ancestor).

The three oracles stand for checkBlockSanity (context free), checkBlockContext and checkConnectBlock.
The latter two receive the block's OWN ancestor list (parent first, genesis last): the utxo view that
checkConnectBlock works on is the fold of exactly those blocks (that equality is property C03).
`Node.anc` is a ghost field: the ancestor path recorded when the node entered the index.
Core-only, executable.
-/
namespace BV.C01.Chain

structure Blk (β : Type) where
  hash : Nat
  parent : Nat
  work : Nat
  body : β

structure Oracle (β : Type) where
  sane : Blk β → Bool
  ctxOk : List (Blk β) → Blk β → Bool
  connOk : List (Blk β) → Blk β → Bool

structure Node (β : Type) where
  blk : Blk β
  anc : List (Blk β)
  workSum : Nat
  valid : Bool
  failed : Bool
  invalidAnc : Bool

structure State (β : Type) where
  nodes : List (Node β)       -- the block index, insertion ordered
  best : List (Blk β)         -- the active chain, tip first, genesis last
  orphans : List (Blk β)

inductive Verdict
  | mainChain | sideChain | orphan | duplicate | rejSanity | rejParentInvalid | rejContext | rejConnect
  deriving DecidableEq, Repr

def Verdict.isReject : Verdict → Bool
  | .duplicate | .rejSanity | .rejParentInvalid | .rejContext | .rejConnect => true
  | _ => false

variable {β : Type}

def init (g : Blk β) : State β :=
  { nodes := [⟨g, [], g.work, true, false, false⟩], best := [g], orphans := [] }

def lookup (s : State β) (h : Nat) : Option (Node β) := s.nodes.find? (fun n => n.blk.hash == h)

def setValid (n : Node β) : Node β := { n with valid := true }
def setFailed (n : Node β) : Node β := { n with failed := true }
def setInvAnc (n : Node β) : Node β := { n with invalidAnc := true }

/-- update the status of the node(s) with hash `h` -/
def mark (f : Node β → Node β) (h : Nat) (s : State β) : State β :=
  { s with nodes := s.nodes.map (fun n => if n.blk.hash == h then f n else n) }

def onBest (s : State β) (h : Nat) : Bool := s.best.any (fun b => b.hash == h)

/-- `getReorganizeNodes`: walk from the new node towards the fork point; at the first known-invalid node stop
    and mark everything walked over so far (its descendants) as having an invalid ancestor. -/
def preCheck (s : State β) : List (Blk β) → State β × Bool
  | [] => (s, false)
  | a :: rest =>
    if onBest s a.hash then (s, false)
    else match lookup s a.hash with
      | none => (s, false)
      | some m =>
        if m.failed || m.invalidAnc then (s, true)
        else
          let r := preCheck s rest
          if r.2 then (mark setInvAnc a.hash r.1, true) else (r.1, false)

/-- `verifyReorganizationValidity`: the attach nodes are checked oldest first; a node already known valid is
    skipped, a failing one is marked failed and every later one gets the invalid-ancestor mark. -/
def verifyPath (O : Oracle β) (s : State β) : List (Blk β) → State β × Bool
  | [] => (s, true)
  | a :: rest =>
    if onBest s a.hash then (s, true)
    else
      let r := verifyPath O s rest
      if !r.2 then (mark setInvAnc a.hash r.1, false)
      else match lookup r.1 a.hash with
        | none => (r.1, false)
        | some m =>
          if m.valid then (r.1, true)
          else if O.connOk m.anc m.blk then (mark setValid a.hash r.1, true)
          else (mark setFailed a.hash r.1, false)

/-- `connectBestChain` for a node that has just been indexed -/
def connectBest (O : Oracle β) (s : State β) (n : Node β) : State β × Verdict :=
  match s.best with
  | [] => (s, .sideChain)
  | t :: _ =>
    if n.blk.parent == t.hash then
      -- extends the active chain
      if O.connOk n.anc n.blk then
        ({ mark setValid n.blk.hash s with best := n.blk :: n.anc }, .mainChain)
      else (mark setFailed n.blk.hash s, .rejConnect)
    else match lookup s t.hash with
      | none => (s, .sideChain)
      | some tn =>
        if n.workSum ≤ tn.workSum then (s, .sideChain)
        else
          let pc := preCheck s (n.blk :: n.anc)
          if pc.2 then (pc.1, .sideChain)     -- btcd reports "main chain" here although nothing is connected
          else
            let v := verifyPath O pc.1 (n.blk :: n.anc)
            if v.2 then ({ v.1 with best := n.blk :: n.anc }, .mainChain) else (v.1, .rejConnect)

/-- `maybeAcceptBlock`.  The duplicate guard is redundant in reachable states (btcd relies on the test in
    ProcessBlock); it makes "index hashes are distinct" an invariant of `accept` alone. -/
def accept (O : Oracle β) (s : State β) (b : Blk β) : State β × Verdict :=
  if (lookup s b.hash).isSome then (s, .duplicate)
  else match lookup s b.parent with
    | none => (s, .orphan)
    | some p =>
      if p.failed || p.invalidAnc then (s, .rejParentInvalid)
      else
        let anc := p.blk :: p.anc
        if !O.ctxOk anc b then (s, .rejContext)
        else
          let n : Node β := ⟨b, anc, p.workSum + b.work, false, false, false⟩
          connectBest O { s with nodes := s.nodes ++ [n] } n

/-- accept the orphans in `kids` one after the other; returns the hashes of those that were accepted -/
def acceptAll (O : Oracle β) : State β → List (Blk β) → State β × List Nat
  | s, [] => (s, [])
  | s, k :: ks =>
    let r := accept O s k
    let r2 := acceptAll O r.1 ks
    (r2.1, if r.2.isReject then r2.2 else k.hash :: r2.2)

/-- `processOrphans`: work list of accepted hashes whose waiting children are accepted in turn -/
def processOrphans (O : Oracle β) : Nat → State β → List Nat → State β
  | 0, s, _ => s
  | _ + 1, s, [] => s
  | fuel + 1, s, h :: hs =>
    let kids := s.orphans.filter (fun o => o.parent == h)
    let s1 := { s with orphans := s.orphans.filter (fun o => !(o.parent == h)) }
    let r := acceptAll O s1 kids
    processOrphans O fuel r.1 (hs ++ r.2)

/-- `ProcessBlock` -/
def step (O : Oracle β) (s : State β) (b : Blk β) : State β × Verdict :=
  if (lookup s b.hash).isSome || s.orphans.any (fun o => o.hash == b.hash) then (s, .duplicate)
  else if !O.sane b then (s, .rejSanity)
  else if (lookup s b.parent).isNone then ({ s with orphans := s.orphans ++ [b] }, .orphan)
  else
    let r := accept O s b
    if r.2.isReject then r
    else (processOrphans O (r.1.orphans.length + 1) r.1 [b.hash], r.2)

def run (O : Oracle β) (g : Blk β) (bs : List (Blk β)) : State β :=
  bs.foldl (fun s b => (step O s b).1) (init g)

end BV.C01.Chain
