/-
C01 — the accumulating loops of validate.go, with Go's int64 wrap-around, against the declarative
rule predicates of the Spec.

  CheckTransactionSanity   output loop   (negative / > MaxSatoshi / running total < 0 / running total > MaxSatoshi)
  CheckTransactionInputs   input loop    (amount range, running total < previous || > MaxSatoshi)
  checkBlockSanity / checkConnectBlock  sigop accumulators  (total < previous || total > MaxBlockSigOpsCost)
  checkConnectBlock        fee accumulator (total < previous)
-/
import BV.C01.Spec
namespace BV.C01.Loops
open BV.C01

/-- two's-complement wrap of an int64 addition result -/
def wrap64 (x : Int) : Int := (x + 2 ^ 63) % 2 ^ 64 - 2 ^ 63

/-- `last := acc; acc += x; if acc < last || acc > limit { return err }` for every x -/
def accLoop (limit : Int) : List Int → Int → Bool
  | [], _ => true
  | x :: xs, acc =>
    let acc' := wrap64 (acc + x)
    if acc' < acc || acc' > limit then false else accLoop limit xs acc'

theorem wrap64_small (x : Int) (h0 : 0 ≤ x) (h1 : x < 2 ^ 63) : wrap64 x = x := by
  unfold wrap64; omega

theorem wrap64_over (x : Int) (h0 : 2 ^ 63 ≤ x) (h1 : x < 2 ^ 64) : wrap64 x = x - 2 ^ 64 := by
  unfold wrap64; omega

theorem sumInt_nonneg : ∀ (xs : List Int), (∀ x ∈ xs, 0 ≤ x) → 0 ≤ sumInt xs
  | [], _ => by simp [sumInt]
  | x :: xs, h => by
    have h1 := h x List.mem_cons_self
    have h2 := sumInt_nonneg xs (fun y hy => h y (List.mem_cons_of_mem _ hy))
    simp only [sumInt, List.foldr_cons] at h2 ⊢
    omega

theorem sumInt_cons (x : Int) (xs : List Int) : sumInt (x :: xs) = x + sumInt xs := by
  simp [sumInt]

/-- The early-exit accumulator with overflow guard decides exactly "the total stays within the limit",
    for non-negative int64 summands. -/
theorem accLoop_eq (limit : Int) (hl : limit < 2 ^ 63) :
    ∀ (xs : List Int) (acc : Int), 0 ≤ acc → acc ≤ limit → (∀ x ∈ xs, 0 ≤ x ∧ x < 2 ^ 63) →
      accLoop limit xs acc = decide (acc + sumInt xs ≤ limit)
  | [], acc, _, h1, _ => by simp [accLoop, sumInt, h1]
  | x :: xs, acc, h0, h1, hx => by
    have hx0 := hx x List.mem_cons_self
    have hrest : ∀ y ∈ xs, 0 ≤ y ∧ y < 2 ^ 63 := fun y hy => hx y (List.mem_cons_of_mem _ hy)
    have hs := sumInt_nonneg xs (fun y hy => (hrest y hy).1)
    unfold accLoop
    dsimp only
    rw [sumInt_cons]
    by_cases hov : acc + x < 2 ^ 63
    · rw [wrap64_small (acc + x) (by omega) hov]
      by_cases hlim : acc + x > limit
      · have : (decide (acc + x < acc) || decide (acc + x > limit)) = true := by simp [hlim]
        simp only [this, if_true]
        symm; apply decide_eq_false; omega
      · have hcond : (decide (acc + x < acc) || decide (acc + x > limit)) = false := by
          simp only [Bool.or_eq_false_iff, decide_eq_false_iff_not]; omega
        rw [hcond]
        simp only [Bool.false_eq_true, if_false]
        rw [accLoop_eq limit hl xs (acc + x) (by omega) (by omega) hrest]
        exact decide_eq_decide.mpr ⟨fun h => by omega, fun h => by omega⟩
    · rw [wrap64_over (acc + x) (by omega) (by omega)]
      have : (decide (acc + x - 2 ^ 64 < acc) || decide (acc + x - 2 ^ 64 > limit)) = true := by
        simp only [Bool.or_eq_true, decide_eq_true_eq]; left; omega
      simp only [this, if_true]
      symm; apply decide_eq_false; omega

/-! ### CheckTransactionSanity: the output loop -/

def goOutputs : List Int → Int → Bool
  | [], _ => true
  | v :: vs, total =>
    if v < 0 then false
    else if v > MAX_MONEY then false
    else
      let total' := wrap64 (total + v)
      if total' < 0 then false else if total' > MAX_MONEY then false else goOutputs vs total'

theorem all_money_nonneg (vs : List Int) (ha : vs.all moneyRange = true) : 0 ≤ sumInt vs := by
  apply sumInt_nonneg
  intro y hy
  have := (List.all_eq_true.mp ha) y hy
  simp only [moneyRange, Bool.and_eq_true, decide_eq_true_eq] at this
  exact this.1

theorem goOutputs_eq : ∀ (vs : List Int) (total : Int), 0 ≤ total → total ≤ 2100000000000000 →
    goOutputs vs total = (vs.all moneyRange && decide (total + sumInt vs ≤ 2100000000000000))
  | [], total, _, h1 => by simp [goOutputs, sumInt, h1]
  | v :: vs, total, h0, h1 => by
    unfold goOutputs
    rw [sumInt_cons, List.all_cons]
    unfold MAX_MONEY
    by_cases hv0 : v < 0
    · have hm : moneyRange v = false := by
        unfold moneyRange MAX_MONEY; rw [Bool.and_eq_false_iff]; left; exact decide_eq_false (by omega)
      rw [if_pos hv0, hm]; rfl
    · by_cases hv1 : v > 2100000000000000
      · have hm : moneyRange v = false := by
          unfold moneyRange MAX_MONEY; rw [Bool.and_eq_false_iff]; right; exact decide_eq_false (by omega)
        rw [if_neg hv0, if_pos hv1, hm]; rfl
      · rw [if_neg hv0, if_neg hv1]
        dsimp only
        rw [wrap64_small (total + v) (by omega) (by omega)]
        have hm : moneyRange v = true := by
          unfold moneyRange MAX_MONEY; rw [Bool.and_eq_true]
          exact ⟨decide_eq_true (by omega), decide_eq_true (by omega)⟩
        rw [hm, Bool.true_and]
        by_cases hlim : total + v > 2100000000000000
        · rw [if_neg (by omega), if_pos hlim]
          cases ha : vs.all moneyRange with
          | false => rfl
          | true =>
            have := all_money_nonneg vs ha
            rw [Bool.true_and]
            symm; apply decide_eq_false; omega
        · rw [if_neg (by omega), if_neg hlim]
          rw [goOutputs_eq vs (total + v) (by omega) (by omega)]
          congr 1
          exact decide_eq_decide.mpr ⟨fun h => by omega, fun h => by omega⟩

/-- the output loop of `CheckTransactionSanity` accepts exactly when every output value and their sum are in the
    money range (the clause of rule `outValue` for one transaction) -/
theorem outputs_loop_is_rule (t : TxFacts) :
    goOutputs t.outs 0 = (t.outs.all moneyRange && moneyRange t.outSum) := by
  rw [goOutputs_eq t.outs 0 (by omega) (by omega)]
  unfold TxFacts.outSum
  cases ha : t.outs.all moneyRange with
  | false => rfl
  | true =>
    have h0 := all_money_nonneg t.outs ha
    simp only [Bool.true_and, moneyRange, MAX_MONEY, Int.zero_add]
    have : decide (0 ≤ sumInt t.outs) = true := decide_eq_true h0
    rw [this, Bool.true_and]
    exact decide_eq_decide.mpr Iff.rfl

/-! ### sigop and fee accumulators -/

/-- `checkConnectBlock`'s sigop loop over the per-transaction costs -/
def goSigops (costs : List Int) : Bool := accLoop MAX_BLOCK_SIGOPS_COST costs 0

theorem sigops_loop_is_rule (costs : List Int) (h : ∀ c ∈ costs, 0 ≤ c ∧ c < 2 ^ 63) :
    goSigops costs = decide (sumInt costs ≤ MAX_BLOCK_SIGOPS_COST) := by
  unfold goSigops
  rw [accLoop_eq MAX_BLOCK_SIGOPS_COST (by unfold MAX_BLOCK_SIGOPS_COST; omega) costs 0 (by omega)
    (by unfold MAX_BLOCK_SIGOPS_COST; omega) h]
  simp

/-- `checkConnectBlock`'s fee loop: `if totalFees < lastTotalFees` is the only guard -/
def goFees (fees : List Int) : Bool := accLoop INT64_MAX fees 0

theorem fees_loop_is_rule (fees : List Int) (h : ∀ f ∈ fees, 0 ≤ f ∧ f < 2 ^ 63) :
    goFees fees = decide (sumInt fees ≤ INT64_MAX) := by
  unfold goFees
  rw [accLoop_eq INT64_MAX (by unfold INT64_MAX; omega) fees 0 (by omega) (by unfold INT64_MAX; omega) h]
  simp

end BV.C01.Loops
