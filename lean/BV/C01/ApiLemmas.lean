import BV.C01.Loops
import BV.C01.Model
namespace BV.C01.ApiLemmas
open BV.C01 BV.C01.Loops

/-- `CheckTransactionSanity` answers "ok" exactly when the transaction-level sanity rules hold for it -/
theorem txSanity_ok_iff (t : TxFacts) :
    txSanityClass t = "ok" ↔
      (t.ins.isEmpty = false ∧ t.outs.isEmpty = false ∧ t.strippedSize ≤ MAX_BLOCK_BASE_SIZE ∧
       (t.outs.all moneyRange && moneyRange t.outSum) = true ∧ t.dupInputs = false ∧
       (t.isCoinbase = true → MIN_COINBASE_SCRIPT_LEN ≤ t.script0Len ∧ t.script0Len ≤ MAX_COINBASE_SCRIPT_LEN) ∧
       (t.isCoinbase = false → t.ins.any (·.null) = false)) := by
  unfold txSanityClass
  by_cases h1 : t.ins.isEmpty = true
  · rw [if_pos h1]
    exact ⟨fun h => absurd h (by decide), fun ⟨a, _⟩ => by rw [a] at h1; cases h1⟩
  rw [if_neg h1]
  by_cases h2 : t.outs.isEmpty = true
  · rw [if_pos h2]
    exact ⟨fun h => absurd h (by decide), fun ⟨_, a, _⟩ => by rw [a] at h2; cases h2⟩
  rw [if_neg h2]
  by_cases h3 : t.strippedSize > MAX_BLOCK_BASE_SIZE
  · rw [if_pos h3]
    exact ⟨fun h => absurd h (by decide), fun ⟨_, _, a, _⟩ => by omega⟩
  rw [if_neg h3]
  cases h4 : (t.outs.all moneyRange && moneyRange t.outSum) with
  | false =>
    rw [if_pos (by rfl)]
    exact ⟨fun h => absurd h (by decide), fun ⟨_, _, _, a, _⟩ => by cases a⟩
  | true =>
  rw [if_neg (by decide)]
  by_cases h5 : t.dupInputs = true
  · rw [if_pos h5]
    exact ⟨fun h => absurd h (by decide), fun ⟨_, _, _, _, a, _⟩ => by rw [a] at h5; cases h5⟩
  rw [if_neg h5]
  have b1 : t.ins.isEmpty = false := by simpa using h1
  have b2 : t.outs.isEmpty = false := by simpa using h2
  have b5 : t.dupInputs = false := by simpa using h5
  by_cases h6 : t.isCoinbase = true
  · rw [if_pos h6]
    by_cases h7 : (decide (t.script0Len < MIN_COINBASE_SCRIPT_LEN) || decide (t.script0Len > MAX_COINBASE_SCRIPT_LEN)) = true
    · rw [if_pos h7]
      simp only [Bool.or_eq_true, decide_eq_true_eq] at h7
      exact ⟨fun h => absurd h (by decide), fun ⟨_, _, _, _, _, a, _⟩ => by have := a h6; omega⟩
    · rw [if_neg h7]
      simp only [Bool.or_eq_true, decide_eq_true_eq, not_or] at h7
      exact ⟨fun _ => ⟨b1, b2, by omega, rfl, b5, fun _ => by omega, fun a => by rw [a] at h6; cases h6⟩, fun _ => rfl⟩
  · rw [if_neg h6]
    have b6 : t.isCoinbase = false := by simpa using h6
    by_cases h8 : t.ins.any (·.null) = true
    · rw [if_pos h8]
      exact ⟨fun h => absurd h (by decide), fun ⟨_, _, _, _, _, _, a⟩ => by rw [a b6] at h8; cases h8⟩
    · rw [if_neg h8]
      exact ⟨fun _ => ⟨b1, b2, by omega, rfl, b5, (fun a => by rw [a] at b6; cases b6), fun _ => by simpa using h8⟩,
        fun _ => rfl⟩


theorem sumAmounts_cons (i : InFacts) (rest : List InFacts) :
    sumInt ((i :: rest).map (·.amount)) = i.amount + sumInt (rest.map (·.amount)) := by
  simp [sumInt]

theorem moneyRange_iff (v : Int) : moneyRange v = true ↔ 0 ≤ v ∧ v ≤ MAX_MONEY := by
  unfold moneyRange
  rw [Bool.and_eq_true]
  exact ⟨fun ⟨a, b⟩ => ⟨decide_eq_true_iff.mp a, decide_eq_true_iff.mp b⟩,
    fun ⟨a, b⟩ => ⟨decide_eq_true_iff.mpr a, decide_eq_true_iff.mpr b⟩⟩

theorem amounts_nonneg (ins : List InFacts) (h : ∀ i ∈ ins, moneyRange i.amount = true) :
    0 ≤ sumInt (ins.map (·.amount)) := by
  apply sumInt_nonneg
  intro x hx
  rw [List.mem_map] at hx
  obtain ⟨i, hi, rfl⟩ := hx
  exact ((moneyRange_iff _).mp (h i hi)).1

/-- the input loop of `CheckTransactionInputs` succeeds exactly when every input exists, is mature and in the
    money range and the total stays in range; it then returns the total -/
theorem inputsLoop_ok_iff (height maturity : Int) : ∀ (ins : List InFacts) (acc tot : Int),
    0 ≤ acc → acc ≤ MAX_MONEY →
    (inputsLoop height maturity ins acc = .ok tot ↔
      (∀ i ∈ ins, i.avail = true ∧ i.null = false ∧
          (i.isCb = true → maturity ≤ height - i.originHeight) ∧ moneyRange i.amount = true) ∧
      acc + sumInt (ins.map (·.amount)) ≤ MAX_MONEY ∧ tot = acc + sumInt (ins.map (·.amount)))
  | [], acc, tot, _, h1 => by
    unfold inputsLoop
    simp only [List.map_nil, sumInt, List.foldr_nil, Int.add_zero, Except.ok.injEq, List.not_mem_nil,
      false_imp_iff, implies_true, true_and]
    exact ⟨fun h => ⟨h1, h.symm⟩, fun h => h.2.symm⟩
  | i :: rest, acc, tot, h0, h1 => by
    unfold inputsLoop
    rw [sumAmounts_cons]
    by_cases c1 : (!i.avail || i.null) = true
    · rw [if_pos c1]
      constructor
      · intro h; cases h
      · intro ⟨h, _⟩
        have := h i List.mem_cons_self
        rw [this.1, this.2.1] at c1; cases c1
    rw [if_neg c1]
    have a1 : i.avail = true ∧ i.null = false := by
      cases ha : i.avail <;> cases hn : i.null <;> simp [ha, hn] at c1 ⊢
    by_cases c2 : (i.isCb && decide (height - i.originHeight < maturity)) = true
    · rw [if_pos c2]
      rw [Bool.and_eq_true, decide_eq_true_eq] at c2
      constructor
      · intro h; cases h
      · intro ⟨h, _⟩
        have := (h i List.mem_cons_self).2.2.1 c2.1
        omega
    rw [if_neg c2]
    have a2 : i.isCb = true → maturity ≤ height - i.originHeight := by
      intro hc
      rw [Bool.and_eq_true, decide_eq_true_eq, not_and] at c2
      have := c2 hc; omega
    by_cases c3 : (!moneyRange i.amount) = true
    · rw [if_pos c3]
      constructor
      · intro h; cases h
      · intro ⟨h, _⟩
        have := (h i List.mem_cons_self).2.2.2
        rw [this] at c3; cases c3
    rw [if_neg c3]
    have a3 : moneyRange i.amount = true := by simpa using c3
    have a3' := (moneyRange_iff _).mp a3
    by_cases c4 : (!moneyRange (acc + i.amount)) = true
    · rw [if_pos c4]
      constructor
      · intro h; cases h
      · intro ⟨h, hs, _⟩
        have hr := amounts_nonneg rest (fun j hj => (h j (List.mem_cons_of_mem _ hj)).2.2.2)
        have : moneyRange (acc + i.amount) = true := (moneyRange_iff _).mpr ⟨by omega, by omega⟩
        rw [this] at c4; cases c4
    rw [if_neg c4]
    have a4 : moneyRange (acc + i.amount) = true := by simpa using c4
    have a4' := (moneyRange_iff _).mp a4
    rw [inputsLoop_ok_iff height maturity rest (acc + i.amount) tot a4'.1 a4'.2]
    constructor
    · intro ⟨h, hs, ht⟩
      refine ⟨?_, by omega, by omega⟩
      intro j hj
      rcases List.mem_cons.mp hj with rfl | hj
      · exact ⟨a1.1, a1.2, a2, a3⟩
      · exact h j hj
    · intro ⟨h, hs, ht⟩
      exact ⟨fun j hj => h j (List.mem_cons_of_mem _ hj), by omega, by omega⟩

end BV.C01.ApiLemmas
