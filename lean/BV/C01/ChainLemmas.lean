/-
C01 chain machine — invariant and its preservation by every step.
-/
import BV.C01.Chain
namespace BV.C01.Chain
variable {β : Type}

/-- `l` (tip first) ends in the genesis block and every other block passes all three checks on its own suffix -/
def ChainOk (O : Oracle β) (g : Blk β) : List (Blk β) → Prop
  | [] => False
  | b :: rest => (rest = [] ∧ b = g) ∨
      (O.sane b = true ∧ O.ctxOk rest b = true ∧ O.connOk rest b = true ∧ ChainOk O g rest)

/-- an indexed node: genesis, or a sane block whose recorded ancestors are its parent's node and which
    passed the context checks on them -/
def NodeOk (O : Oracle β) (g : Blk β) (nodes : List (Node β)) (n : Node β) : Prop :=
  match n.anc with
  | [] => n.blk = g
  | p :: rest => O.sane n.blk = true ∧ O.ctxOk n.anc n.blk = true ∧ n.blk.parent = p.hash ∧
      (∃ m ∈ nodes, m.blk = p ∧ m.anc = rest)

structure Inv (O : Oracle β) (g : Blk β) (s : State β) : Prop where
  nodup : (s.nodes.map (fun n => n.blk.hash)).Nodup
  nodeOk : ∀ n ∈ s.nodes, NodeOk O g s.nodes n
  validOk : ∀ n ∈ s.nodes, n.valid = true → n.anc = [] ∨ O.connOk n.anc n.blk = true
  failedOk : ∀ n ∈ s.nodes, n.failed = true → n.anc ≠ [] ∧ O.connOk n.anc n.blk = false
  bestNode : ∃ t ∈ s.nodes, t.blk :: t.anc = s.best
  bestOk : ChainOk O g s.best
  orphSane : ∀ o ∈ s.orphans, O.sane o = true

/-! ### lookup -/

theorem lookup_some {s : State β} {h : Nat} {m : Node β} (hl : lookup s h = some m) :
    m ∈ s.nodes ∧ m.blk.hash = h := by
  unfold lookup at hl
  refine ⟨List.mem_of_find?_eq_some hl, ?_⟩
  have := List.find?_some hl
  simpa using this

theorem node_unique : ∀ {nodes : List (Node β)}, (nodes.map (fun n => n.blk.hash)).Nodup →
    ∀ {m m' : Node β}, m ∈ nodes → m' ∈ nodes → m.blk.hash = m'.blk.hash → m = m'
  | [], _, _, _, hm, _, _ => by cases hm
  | x :: xs, hnd, m, m', hm, hm', hh => by
    simp only [List.map_cons, List.nodup_cons, List.mem_map, not_exists, not_and] at hnd
    rcases List.mem_cons.mp hm with rfl | hm1
    · rcases List.mem_cons.mp hm' with rfl | hm2
      · rfl
      · exact absurd hh.symm (hnd.1 m' hm2)
    · rcases List.mem_cons.mp hm' with rfl | hm2
      · exact absurd hh (hnd.1 m hm1)
      · exact node_unique hnd.2 hm1 hm2 hh

theorem lookup_eq {s : State β} (hnd : (s.nodes.map (fun n => n.blk.hash)).Nodup)
    {m : Node β} (hm : m ∈ s.nodes) : lookup s m.blk.hash = some m := by
  cases hl : lookup s m.blk.hash with
  | none =>
    unfold lookup at hl
    rw [List.find?_eq_none] at hl
    have := hl m hm
    simp at this
  | some m' =>
    have h' := lookup_some hl
    rw [node_unique hnd h'.1 hm h'.2]

theorem lookup_none {s : State β} {h : Nat} (hl : lookup s h = none) :
    ∀ n ∈ s.nodes, n.blk.hash ≠ h := by
  unfold lookup at hl
  rw [List.find?_eq_none] at hl
  intro n hn
  have := hl n hn
  simpa using this

/-! ### ChainOk -/

theorem chainOk_genesis_mem (O : Oracle β) (g : Blk β) : ∀ l, ChainOk O g l → g ∈ l
  | [], h => by cases h
  | b :: rest, h => by
    rcases h with ⟨_, rfl⟩ | ⟨_, _, _, h4⟩
    · exact List.mem_cons_self
    · exact List.mem_cons_of_mem _ (chainOk_genesis_mem O g rest h4)

theorem chainOk_suffix (O : Oracle β) (g : Blk β) : ∀ (pre l : List (Blk β)), l ≠ [] →
    ChainOk O g (pre ++ l) → ChainOk O g l
  | [], _, _, h => h
  | b :: pre, l, hl, h => by
    rcases h with ⟨h1, _⟩ | ⟨_, _, _, h4⟩
    · exfalso
      cases pre <;> cases l <;> simp_all
    · exact chainOk_suffix O g pre l hl h4

/-! ### marking -/

def Keeps (f : Node β → Node β) : Prop := ∀ n, (f n).blk = n.blk ∧ (f n).anc = n.anc

theorem keeps_setValid : Keeps (setValid : Node β → Node β) := fun _ => ⟨rfl, rfl⟩
theorem keeps_setFailed : Keeps (setFailed : Node β → Node β) := fun _ => ⟨rfl, rfl⟩
theorem keeps_setInvAnc : Keeps (setInvAnc : Node β → Node β) := fun _ => ⟨rfl, rfl⟩

def upd (f : Node β → Node β) (h : Nat) (n : Node β) : Node β := if n.blk.hash == h then f n else n

theorem upd_blk {f : Node β → Node β} (hk : Keeps f) (h : Nat) (n : Node β) :
    (upd f h n).blk = n.blk ∧ (upd f h n).anc = n.anc := by
  unfold upd; split
  · exact hk n
  · exact ⟨rfl, rfl⟩

theorem mark_nodes (f : Node β → Node β) (h : Nat) (s : State β) :
    (mark f h s).nodes = s.nodes.map (upd f h) := rfl

theorem mark_hashes {f : Node β → Node β} (hk : Keeps f) (h : Nat) (s : State β) :
    (mark f h s).nodes.map (fun n => n.blk.hash) = s.nodes.map (fun n => n.blk.hash) := by
  rw [mark_nodes, List.map_map]
  apply List.map_congr_left
  intro n _
  simp [(upd_blk hk h n).1]

/-- same index skeleton (blocks and recorded ancestors), same active chain, same orphans -/
structure SameSkel (s s' : State β) : Prop where
  best : s'.best = s.best
  orphans : s'.orphans = s.orphans
  fwd : ∀ m ∈ s.nodes, ∃ m' ∈ s'.nodes, m'.blk = m.blk ∧ m'.anc = m.anc
  bwd : ∀ m' ∈ s'.nodes, ∃ m ∈ s.nodes, m'.blk = m.blk ∧ m'.anc = m.anc

theorem SameSkel.refl (s : State β) : SameSkel s s :=
  ⟨rfl, rfl, fun m hm => ⟨m, hm, rfl, rfl⟩, fun m hm => ⟨m, hm, rfl, rfl⟩⟩

theorem SameSkel.trans {s s' s'' : State β} (a : SameSkel s s') (b : SameSkel s' s'') : SameSkel s s'' := by
  refine ⟨by rw [b.best, a.best], by rw [b.orphans, a.orphans], ?_, ?_⟩
  · intro m hm
    obtain ⟨m', hm', e1, e2⟩ := a.fwd m hm
    obtain ⟨m'', hm'', e3, e4⟩ := b.fwd m' hm'
    exact ⟨m'', hm'', by rw [e3, e1], by rw [e4, e2]⟩
  · intro m'' hm''
    obtain ⟨m', hm', e1, e2⟩ := b.bwd m'' hm''
    obtain ⟨m, hm, e3, e4⟩ := a.bwd m' hm'
    exact ⟨m, hm, by rw [e1, e3], by rw [e2, e4]⟩

theorem sameSkel_mark {f : Node β → Node β} (hk : Keeps f) (h : Nat) (s : State β) :
    SameSkel s (mark f h s) := by
  refine ⟨rfl, rfl, ?_, ?_⟩
  · intro m hm
    exact ⟨upd f h m, by rw [mark_nodes]; exact List.mem_map_of_mem hm, (upd_blk hk h m).1, (upd_blk hk h m).2⟩
  · intro m' hm'
    rw [mark_nodes, List.mem_map] at hm'
    obtain ⟨m, hm, rfl⟩ := hm'
    exact ⟨m, hm, (upd_blk hk h m).1, (upd_blk hk h m).2⟩

/-- marking keeps the invariant provided a freshly set `valid` / `failed` flag is justified -/
theorem inv_mark (O : Oracle β) (g : Blk β) {f : Node β → Node β} (hk : Keeps f) (h : Nat) {s : State β}
    (hi : Inv O g s)
    (hv : ∀ n ∈ s.nodes, (upd f h n).valid = true → n.anc = [] ∨ O.connOk n.anc n.blk = true)
    (hf : ∀ n ∈ s.nodes, (upd f h n).failed = true → n.anc ≠ [] ∧ O.connOk n.anc n.blk = false) :
    Inv O g (mark f h s) := by
  have ss := sameSkel_mark hk h s
  refine ⟨?_, ?_, ?_, ?_, ?_, hi.bestOk, hi.orphSane⟩
  · rw [mark_hashes hk]; exact hi.nodup
  · intro n' hn'
    rw [mark_nodes, List.mem_map] at hn'
    obtain ⟨n, hn, rfl⟩ := hn'
    have hok := hi.nodeOk n hn
    have e := upd_blk hk h n
    unfold NodeOk at hok ⊢
    rw [e.1, e.2]
    cases hanc : n.anc with
    | nil => rw [hanc] at hok; exact hok
    | cons p rest =>
      rw [hanc] at hok
      obtain ⟨h1, h2, h3, m, hm, hm1, hm2⟩ := hok
      obtain ⟨m', hm', e1, e2⟩ := ss.fwd m hm
      exact ⟨h1, h2, h3, m', hm', by rw [e1, hm1], by rw [e2, hm2]⟩
  · intro n' hn' hval
    rw [mark_nodes, List.mem_map] at hn'
    obtain ⟨n, hn, rfl⟩ := hn'
    have e := upd_blk hk h n
    rw [e.1, e.2]
    exact hv n hn hval
  · intro n' hn' hfl
    rw [mark_nodes, List.mem_map] at hn'
    obtain ⟨n, hn, rfl⟩ := hn'
    have e := upd_blk hk h n
    rw [e.1, e.2]
    exact hf n hn hfl
  · obtain ⟨t, ht, hb⟩ := hi.bestNode
    obtain ⟨t', ht', e1, e2⟩ := ss.fwd t ht
    exact ⟨t', ht', by rw [e1, e2]; exact hb⟩

theorem upd_invAnc_valid (h : Nat) (n : Node β) : (upd setInvAnc h n).valid = n.valid := by
  unfold upd; split <;> rfl
theorem upd_invAnc_failed (h : Nat) (n : Node β) : (upd setInvAnc h n).failed = n.failed := by
  unfold upd; split <;> rfl

theorem inv_mark_invAnc (O : Oracle β) (g : Blk β) (h : Nat) {s : State β} (hi : Inv O g s) :
    Inv O g (mark setInvAnc h s) :=
  inv_mark O g keeps_setInvAnc h hi
    (fun n hn hv => hi.validOk n hn (by rw [upd_invAnc_valid] at hv; exact hv))
    (fun n hn hf => hi.failedOk n hn (by rw [upd_invAnc_failed] at hf; exact hf))

theorem inv_mark_valid (O : Oracle β) (g : Blk β) (h : Nat) {s : State β} (hi : Inv O g s)
    (hj : ∀ n ∈ s.nodes, n.blk.hash = h → n.anc = [] ∨ O.connOk n.anc n.blk = true) :
    Inv O g (mark setValid h s) := by
  refine inv_mark O g keeps_setValid h hi ?_ ?_
  · intro n hn hv
    unfold upd at hv
    split at hv
    · rename_i hh
      exact hj n hn (by simpa using hh)
    · exact hi.validOk n hn hv
  · intro n hn hf
    unfold upd at hf
    split at hf
    · exact hi.failedOk n hn hf
    · exact hi.failedOk n hn hf

theorem inv_mark_failed (O : Oracle β) (g : Blk β) (h : Nat) {s : State β} (hi : Inv O g s)
    (hj : ∀ n ∈ s.nodes, n.blk.hash = h → n.anc ≠ [] ∧ O.connOk n.anc n.blk = false) :
    Inv O g (mark setFailed h s) := by
  refine inv_mark O g keeps_setFailed h hi ?_ ?_
  · intro n hn hv
    unfold upd at hv
    split at hv
    · exact hi.validOk n hn hv
    · exact hi.validOk n hn hv
  · intro n hn hf
    unfold upd at hf
    split at hf
    · rename_i hh
      exact hj n hn (by simpa using hh)
    · exact hi.failedOk n hn hf

/-! ### paths through the index -/

/-- `path` is the recorded path (block :: ancestors) of some indexed node -/
def NodePath (s : State β) (path : List (Blk β)) : Prop := ∃ m ∈ s.nodes, m.blk :: m.anc = path

theorem nodePath_sameSkel {s s' : State β} (ss : SameSkel s s') {path : List (Blk β)}
    (h : NodePath s path) : NodePath s' path := by
  obtain ⟨m, hm, e⟩ := h
  obtain ⟨m', hm', e1, e2⟩ := ss.fwd m hm
  exact ⟨m', hm', by rw [e1, e2]; exact e⟩

theorem nodePath_tail (O : Oracle β) (g : Blk β) {s : State β} (hi : Inv O g s) {a p : Blk β}
    {rest : List (Blk β)} (h : NodePath s (a :: p :: rest)) : NodePath s (p :: rest) := by
  obtain ⟨m, hm, e⟩ := h
  have hok := hi.nodeOk m hm
  unfold NodeOk at hok
  have e2 : m.anc = p :: rest := by injection e
  rw [e2] at hok
  obtain ⟨_, _, _, m', hm', e3, e4⟩ := hok
  exact ⟨m', hm', by rw [e3, e4]⟩

/-- every suffix of a recorded path is a recorded path -/
theorem nodePath_suffix (O : Oracle β) (g : Blk β) {s : State β} (hi : Inv O g s) :
    ∀ (pre : List (Blk β)) (a : Blk β) (suf : List (Blk β)), NodePath s (pre ++ a :: suf) → NodePath s (a :: suf)
  | [], _, _, h => h
  | b :: pre, a, suf, h => by
    cases pre with
    | nil => exact nodePath_tail O g hi h
    | cons c pre' =>
      exact nodePath_suffix O g hi (c :: pre') a suf (nodePath_tail O g hi h)

/-- a recorded path whose head block's hash occurs on the active chain is a suffix of the active chain -/
theorem onBest_suffix (O : Oracle β) (g : Blk β) {s : State β} (hi : Inv O g s) {a : Blk β}
    {rest : List (Blk β)} (hp : NodePath s (a :: rest)) (hb : onBest s a.hash = true) :
    ∃ pre, s.best = pre ++ a :: rest := by
  unfold onBest at hb
  rw [List.any_eq_true] at hb
  obtain ⟨b, hbm, hbh⟩ := hb
  obtain ⟨pre, suf, hsplit⟩ := List.append_of_mem hbm
  obtain ⟨t, ht, htb⟩ := hi.bestNode
  have hnp : NodePath s (pre ++ b :: suf) := ⟨t, ht, by rw [htb, hsplit]⟩
  obtain ⟨m', hm', e'⟩ := nodePath_suffix O g hi pre b suf hnp
  obtain ⟨m, hm, e⟩ := hp
  have hb1 : m'.blk = b := by injection e'
  have ha1 : m.blk = a := by injection e
  have hh : m'.blk.hash = m.blk.hash := by rw [hb1, ha1]; simpa using hbh
  have := node_unique hi.nodup hm' hm hh
  subst this
  exact ⟨pre, by rw [hsplit, ← e', e]⟩

theorem genesis_onBest (O : Oracle β) (g : Blk β) {s : State β} (hi : Inv O g s) : onBest s g.hash = true := by
  unfold onBest
  rw [List.any_eq_true]
  exact ⟨g, chainOk_genesis_mem O g _ hi.bestOk, by simp⟩

/-! ### getReorganizeNodes / verifyReorganizationValidity -/

theorem preCheck_inv (O : Oracle β) (g : Blk β) {s : State β} (hi : Inv O g s) :
    ∀ l, Inv O g (preCheck s l).1 ∧ SameSkel s (preCheck s l).1
  | [] => ⟨hi, SameSkel.refl s⟩
  | a :: rest => by
    have ih := preCheck_inv O g hi rest
    unfold preCheck
    split
    · exact ⟨hi, SameSkel.refl s⟩
    · split
      · exact ⟨hi, SameSkel.refl s⟩
      · split
        · exact ⟨hi, SameSkel.refl s⟩
        · dsimp only
          split
          · exact ⟨inv_mark_invAnc O g _ ih.1, ih.2.trans (sameSkel_mark keeps_setInvAnc _ _)⟩
          · exact ih

theorem onBest_sameSkel {s s' : State β} (ss : SameSkel s s') (h : Nat) : onBest s' h = onBest s h := by
  unfold onBest; rw [ss.best]

theorem verifyPath_inv (O : Oracle β) (g : Blk β) {s : State β} (hi : Inv O g s) :
    ∀ path, NodePath s path →
      Inv O g (verifyPath O s path).1 ∧ SameSkel s (verifyPath O s path).1 ∧
      ((verifyPath O s path).2 = true → ChainOk O g path)
  | [], h => by obtain ⟨m, _, e⟩ := h; cases e
  | a :: rest, hp => by
    unfold verifyPath
    split
    · -- reached the active chain
      rename_i hb
      refine ⟨hi, SameSkel.refl s, fun _ => ?_⟩
      obtain ⟨pre, e⟩ := onBest_suffix O g hi hp hb
      exact chainOk_suffix O g pre (a :: rest) (by simp) (by rw [← e]; exact hi.bestOk)
    · rename_i hb
      -- `rest` is not empty: otherwise `a` is the genesis block, which is on the active chain
      obtain ⟨m0, hm0, e0⟩ := hp
      have ea : m0.blk = a := by injection e0
      have er : m0.anc = rest := by injection e0
      cases hrest : rest with
      | nil =>
        exfalso
        have hok := hi.nodeOk m0 hm0
        unfold NodeOk at hok
        rw [er, hrest] at hok
        simp only [] at hok
        have : a = g := by rw [← ea]; exact hok
        rw [this] at hb
        exact hb (genesis_onBest O g hi)
      | cons p rest' =>
        have hp' : NodePath s (a :: p :: rest') := ⟨m0, hm0, by rw [ea, er, hrest]⟩
        have ih := verifyPath_inv O g hi (p :: rest') (nodePath_tail O g hi hp')
        obtain ⟨ih1, ih2, ih3⟩ := ih
        -- the node of `a` in the state after the recursive call
        obtain ⟨m1, hm1, e1a, e1r⟩ := ih2.fwd m0 hm0
        have hl : lookup (verifyPath O s (p :: rest')).1 a.hash = some m1 := by
          have := lookup_eq ih1.nodup hm1
          rw [e1a, ea] at this
          exact this
        dsimp only
        split
        · exact ⟨inv_mark_invAnc O g _ ih1, ih2.trans (sameSkel_mark keeps_setInvAnc _ _), fun h => by cases h⟩
        · rename_i hok
          have hok' : (verifyPath O s (p :: rest')).2 = true := by simpa using hok
          have hch := ih3 hok'
          rw [hl]
          simp only []
          have hnode := ih1.nodeOk m1 hm1
          unfold NodeOk at hnode
          have e1r' : m1.anc = p :: rest' := by rw [e1r, er, hrest]
          rw [e1r'] at hnode
          obtain ⟨hs, hc, _, _⟩ := hnode
          have uniq : ∀ n ∈ (verifyPath O s (p :: rest')).1.nodes, n.blk.hash = a.hash → n = m1 := by
            intro n hn hh
            exact node_unique ih1.nodup hn hm1 (by rw [hh, e1a, ea])
          split
          · rename_i hv
            refine ⟨ih1, ih2, fun _ => ?_⟩
            rcases ih1.validOk m1 hm1 hv with h0 | h1
            · rw [e1r'] at h0; cases h0
            · right
              rw [e1r', e1a, ea] at h1
              rw [e1a, ea] at hs
              rw [e1a, ea] at hc
              exact ⟨hs, hc, h1, hch⟩
          · split
            · rename_i hconn
              refine ⟨inv_mark_valid O g _ ih1 ?_, ih2.trans (sameSkel_mark keeps_setValid _ _), fun _ => ?_⟩
              · intro n hn hh
                rw [uniq n hn hh]
                exact Or.inr hconn
              · right
                rw [e1r', e1a, ea] at hconn
                rw [e1a, ea] at hs
                rw [e1a, ea] at hc
                exact ⟨hs, hc, hconn, hch⟩
            · rename_i hconn
              refine ⟨inv_mark_failed O g _ ih1 ?_, ih2.trans (sameSkel_mark keeps_setFailed _ _), fun h => by cases h⟩
              intro n hn hh
              rw [uniq n hn hh]
              refine ⟨by rw [e1r']; simp, by simpa using hconn⟩

/-! ### connectBestChain / maybeAcceptBlock / processOrphans / ProcessBlock -/

theorem inv_setBest (O : Oracle β) (g : Blk β) {s : State β} (hi : Inv O g s) {path : List (Blk β)}
    (hp : NodePath s path) (hc : ChainOk O g path) : Inv O g { s with best := path } :=
  ⟨hi.nodup, hi.nodeOk, hi.validOk, hi.failedOk, hp, hc, hi.orphSane⟩

theorem connectBest_inv (O : Oracle β) (g : Blk β) {s : State β} (hi : Inv O g s) {n : Node β}
    (hn : n ∈ s.nodes) (hne : n.anc ≠ []) : Inv O g (connectBest O s n).1 := by
  unfold connectBest
  have uniq : ∀ x ∈ s.nodes, x.blk.hash = n.blk.hash → x = n :=
    fun x hx hh => node_unique hi.nodup hx hn hh
  split
  · exact hi
  · rename_i t tl hbest
    split
    · rename_i hpar
      -- the recorded ancestors of `n` are the active chain
      have hanc : n.anc = s.best := by
        have hok := hi.nodeOk n hn
        unfold NodeOk at hok
        cases ha : n.anc with
        | nil => exact absurd ha hne
        | cons p rest =>
          rw [ha] at hok
          obtain ⟨_, _, hlink, m, hm, e1, e2⟩ := hok
          obtain ⟨tn, htn, etn⟩ := hi.bestNode
          rw [hbest] at etn
          have etb : tn.blk = t := by injection etn
          have hh : m.blk.hash = tn.blk.hash := by
            rw [e1, etb, ← hlink]; simpa using hpar
          have := node_unique hi.nodup hm htn hh
          subst this
          rw [hbest, ← etn, e1, e2]
      split
      · rename_i hconn
        have hi' : Inv O g (mark setValid n.blk.hash s) :=
          inv_mark_valid O g _ hi (fun x hx hh => by rw [uniq x hx hh]; exact Or.inr hconn)
        have ss := sameSkel_mark keeps_setValid n.blk.hash s
        have hok := hi.nodeOk n hn
        unfold NodeOk at hok
        refine inv_setBest O g hi' (nodePath_sameSkel ss ⟨n, hn, rfl⟩) ?_
        right
        cases ha : n.anc with
        | nil => exact absurd ha hne
        | cons p rest =>
          rw [ha] at hok
          obtain ⟨h1, h2, _, _⟩ := hok
          rw [ha] at hconn
          refine ⟨h1, h2, hconn, ?_⟩
          rw [← ha, hanc]; exact hi.bestOk
      · rename_i hconn
        exact inv_mark_failed O g _ hi
          (fun x hx hh => by rw [uniq x hx hh]; exact ⟨hne, by simpa using hconn⟩)
    · split
      · exact hi
      · split
        · exact hi
        · dsimp only
          have pc := preCheck_inv O g hi (n.blk :: n.anc)
          split
          · exact pc.1
          · have hp : NodePath (preCheck s (n.blk :: n.anc)).1 (n.blk :: n.anc) :=
              nodePath_sameSkel pc.2 ⟨n, hn, rfl⟩
            have v := verifyPath_inv O g pc.1 (n.blk :: n.anc) hp
            split
            · rename_i hv
              exact inv_setBest O g v.1 (nodePath_sameSkel v.2.1 hp) (v.2.2 hv)
            · exact v.1

/-- the index after a new node has been appended -/
theorem inv_addNode (O : Oracle β) (g : Blk β) {s : State β} (hi : Inv O g s) {b : Blk β} {p : Node β}
    (hnew : lookup s b.hash = none) (hp : lookup s b.parent = some p)
    (hs : O.sane b = true) (hc : O.ctxOk (p.blk :: p.anc) b = true) :
    Inv O g { s with nodes := s.nodes ++ [⟨b, p.blk :: p.anc, p.workSum + b.work, false, false, false⟩] } := by
  have hpm := lookup_some hp
  refine ⟨?_, ?_, ?_, ?_, ?_, hi.bestOk, hi.orphSane⟩
  · simp only [List.map_append, List.map_cons, List.map_nil]
    rw [List.nodup_append]
    refine ⟨hi.nodup, by simp, ?_⟩
    intro x hx y hy
    simp only [List.mem_singleton] at hy
    subst hy
    rw [List.mem_map] at hx
    obtain ⟨n, hn, rfl⟩ := hx
    exact lookup_none hnew n hn
  · intro n hn
    simp only [List.mem_append, List.mem_singleton] at hn
    rcases hn with hn | rfl
    · have hok := hi.nodeOk n hn
      unfold NodeOk at hok ⊢
      cases ha : n.anc with
      | nil => rw [ha] at hok; exact hok
      | cons q rest =>
        rw [ha] at hok
        obtain ⟨h1, h2, h3, m, hm, e1, e2⟩ := hok
        exact ⟨h1, h2, h3, m, List.mem_append_left _ hm, e1, e2⟩
    · unfold NodeOk
      exact ⟨hs, hc, by rw [hpm.2], p, List.mem_append_left _ hpm.1, rfl, rfl⟩
  · intro n hn hv
    simp only [List.mem_append, List.mem_singleton] at hn
    rcases hn with hn | rfl
    · exact hi.validOk n hn hv
    · cases hv
  · intro n hn hf
    simp only [List.mem_append, List.mem_singleton] at hn
    rcases hn with hn | rfl
    · exact hi.failedOk n hn hf
    · cases hf
  · obtain ⟨t, ht, e⟩ := hi.bestNode
    exact ⟨t, List.mem_append_left _ ht, e⟩

theorem accept_inv (O : Oracle β) (g : Blk β) {s : State β} (hi : Inv O g s) {b : Blk β}
    (hs : O.sane b = true) : Inv O g (accept O s b).1 := by
  unfold accept
  split
  · exact hi
  · rename_i hnew
    split
    · exact hi
    · rename_i p hp
      split
      · exact hi
      · dsimp only
        split
        · exact hi
        · rename_i hc
          have hnew' : lookup s b.hash = none := by
            cases h : lookup s b.hash with
            | none => rfl
            | some _ => rw [h] at hnew; simp at hnew
          have hc' : O.ctxOk (p.blk :: p.anc) b = true := by simpa using hc
          have hi' := inv_addNode O g hi hnew' hp hs hc'
          exact connectBest_inv O g hi' (by simp) (by simp)

theorem acceptAll_inv (O : Oracle β) (g : Blk β) : ∀ (ks : List (Blk β)) {s : State β}, Inv O g s →
    (∀ k ∈ ks, O.sane k = true) → Inv O g (acceptAll O s ks).1
  | [], _, hi, _ => hi
  | k :: ks, s, hi, hs => by
    unfold acceptAll
    dsimp only
    exact acceptAll_inv O g ks (accept_inv O g hi (hs k List.mem_cons_self))
      (fun k' hk' => hs k' (List.mem_cons_of_mem _ hk'))

theorem processOrphans_inv (O : Oracle β) (g : Blk β) : ∀ (fuel : Nat) {s : State β} (hs : List Nat),
    Inv O g s → Inv O g (processOrphans O fuel s hs)
  | 0, _, _, hi => hi
  | _ + 1, _, [], hi => hi
  | fuel + 1, s, h :: hs, hi => by
    unfold processOrphans
    dsimp only
    apply processOrphans_inv O g fuel
    apply acceptAll_inv O g
    · exact ⟨hi.nodup, hi.nodeOk, hi.validOk, hi.failedOk, hi.bestNode, hi.bestOk,
        fun o ho => hi.orphSane o (List.mem_filter.mp ho).1⟩
    · intro k hk
      exact hi.orphSane k (List.mem_filter.mp hk).1

theorem step_inv (O : Oracle β) (g : Blk β) {s : State β} (hi : Inv O g s) (b : Blk β) :
    Inv O g (step O s b).1 := by
  unfold step
  split
  · exact hi
  · split
    · exact hi
    · rename_i hs
      have hs' : O.sane b = true := by simpa using hs
      split
      · refine ⟨hi.nodup, hi.nodeOk, hi.validOk, hi.failedOk, hi.bestNode, hi.bestOk, ?_⟩
        intro o ho
        simp only [List.mem_append, List.mem_singleton] at ho
        rcases ho with ho | rfl
        · exact hi.orphSane o ho
        · exact hs'
      · dsimp only
        split
        · exact accept_inv O g hi hs'
        · exact processOrphans_inv O g _ _ (accept_inv O g hi hs')

theorem init_inv (O : Oracle β) (g : Blk β) : Inv O g (init g) := by
  refine ⟨by simp [init], ?_, ?_, ?_, ?_, ?_, ?_⟩
  · intro n hn
    simp only [init, List.mem_singleton] at hn
    subst hn
    simp [NodeOk]
  · intro n hn _
    simp only [init, List.mem_singleton] at hn
    subst hn
    exact Or.inl rfl
  · intro n hn hf
    simp only [init, List.mem_singleton] at hn
    subst hn
    cases hf
  · exact ⟨_, List.mem_singleton.mpr rfl, rfl⟩
  · exact Or.inl ⟨rfl, rfl⟩
  · intro o ho; cases ho

theorem foldl_inv (O : Oracle β) (g : Blk β) : ∀ (bs : List (Blk β)) {s : State β}, Inv O g s →
    Inv O g (bs.foldl (fun s b => (step O s b).1) s)
  | [], _, hi => hi
  | b :: bs, _, hi => foldl_inv O g bs (step_inv O g hi b)

theorem run_inv (O : Oracle β) (g : Blk β) (bs : List (Blk β)) : Inv O g (run O g bs) :=
  foldl_inv O g bs (init_inv O g)

/-! ### the index only grows (blocks and recorded ancestors are never dropped or altered) -/

def Grows (s s' : State β) : Prop := ∀ m ∈ s.nodes, ∃ m' ∈ s'.nodes, m'.blk = m.blk ∧ m'.anc = m.anc

theorem Grows.refl (s : State β) : Grows s s := fun m hm => ⟨m, hm, rfl, rfl⟩

theorem Grows.trans {s s' s'' : State β} (a : Grows s s') (b : Grows s' s'') : Grows s s'' := by
  intro m hm
  obtain ⟨m', hm', e1, e2⟩ := a m hm
  obtain ⟨m'', hm'', e3, e4⟩ := b m' hm'
  exact ⟨m'', hm'', by rw [e3, e1], by rw [e4, e2]⟩

theorem preCheck_sameSkel (s : State β) : ∀ l, SameSkel s (preCheck s l).1
  | [] => SameSkel.refl s
  | a :: rest => by
    have ih := preCheck_sameSkel s rest
    unfold preCheck
    split
    · exact SameSkel.refl s
    · split
      · exact SameSkel.refl s
      · split
        · exact SameSkel.refl s
        · dsimp only
          split
          · exact ih.trans (sameSkel_mark keeps_setInvAnc _ _)
          · exact ih

theorem verifyPath_sameSkel (O : Oracle β) (s : State β) : ∀ l, SameSkel s (verifyPath O s l).1
  | [] => SameSkel.refl s
  | a :: rest => by
    have ih := verifyPath_sameSkel O s rest
    unfold verifyPath
    split
    · exact SameSkel.refl s
    · dsimp only
      split
      · exact ih.trans (sameSkel_mark keeps_setInvAnc _ _)
      · split
        · exact ih
        · split
          · exact ih
          · split
            · exact ih.trans (sameSkel_mark keeps_setValid _ _)
            · exact ih.trans (sameSkel_mark keeps_setFailed _ _)

theorem connectBest_grows (O : Oracle β) (s : State β) (n : Node β) : Grows s (connectBest O s n).1 := by
  unfold connectBest
  split
  · exact Grows.refl s
  · split
    · split
      · exact (sameSkel_mark keeps_setValid _ s).fwd
      · exact (sameSkel_mark keeps_setFailed _ s).fwd
    · split
      · exact Grows.refl s
      · split
        · exact Grows.refl s
        · dsimp only
          have pc := preCheck_sameSkel s (n.blk :: n.anc)
          split
          · exact pc.fwd
          · have v := verifyPath_sameSkel O (preCheck s (n.blk :: n.anc)).1 (n.blk :: n.anc)
            split
            · exact Grows.trans pc.fwd v.fwd
            · exact Grows.trans pc.fwd v.fwd

theorem accept_grows (O : Oracle β) (s : State β) (b : Blk β) : Grows s (accept O s b).1 := by
  unfold accept
  split
  · exact Grows.refl s
  · split
    · exact Grows.refl s
    · split
      · exact Grows.refl s
      · dsimp only
        split
        · exact Grows.refl s
        · refine Grows.trans ?_ (connectBest_grows O _ _)
          intro m hm
          exact ⟨m, List.mem_append_left _ hm, rfl, rfl⟩

theorem acceptAll_grows (O : Oracle β) : ∀ (ks : List (Blk β)) (s : State β), Grows s (acceptAll O s ks).1
  | [], s => Grows.refl s
  | k :: ks, s => by
    unfold acceptAll
    dsimp only
    exact Grows.trans (accept_grows O s k) (acceptAll_grows O ks _)

theorem processOrphans_grows (O : Oracle β) : ∀ (fuel : Nat) (s : State β) (hs : List Nat),
    Grows s (processOrphans O fuel s hs)
  | 0, s, _ => Grows.refl s
  | _ + 1, s, [] => Grows.refl s
  | fuel + 1, s, h :: hs => by
    unfold processOrphans
    dsimp only
    refine Grows.trans ?_ (processOrphans_grows O fuel _ _)
    refine Grows.trans ?_ (acceptAll_grows O _ _)
    intro m hm
    exact ⟨m, hm, rfl, rfl⟩

/-- a block that passes sanity and context checks on a known, not-known-invalid parent is indexed -/
theorem accept_indexed (O : Oracle β) {s : State β} {b : Blk β} {p : Node β}
    (hnew : lookup s b.hash = none) (hp : lookup s b.parent = some p)
    (hpf : p.failed = false) (hpi : p.invalidAnc = false) (hc : O.ctxOk (p.blk :: p.anc) b = true) :
    (∃ n ∈ (accept O s b).1.nodes, n.blk = b ∧ n.anc = p.blk :: p.anc) ∧
    ((accept O s b).2 = .mainChain ∨ (accept O s b).2 = .sideChain ∨ (accept O s b).2 = .rejConnect) := by
  unfold accept
  rw [hnew, hp]
  simp only [Option.isSome_none, Bool.false_eq_true, if_false, hpf, hpi, Bool.or_self, hc, Bool.not_true]
  constructor
  · have := connectBest_grows O
      { s with nodes := s.nodes ++ [⟨b, p.blk :: p.anc, p.workSum + b.work, false, false, false⟩] }
      ⟨b, p.blk :: p.anc, p.workSum + b.work, false, false, false⟩
    obtain ⟨m', hm', e1, e2⟩ := this ⟨b, p.blk :: p.anc, p.workSum + b.work, false, false, false⟩ (by simp)
    exact ⟨m', hm', e1, e2⟩
  · unfold connectBest
    split
    · simp
    · split
      · split <;> simp
      · split
        · simp
        · split
          · simp
          · dsimp only
            split
            · simp
            · split <;> simp

end BV.C01.Chain
