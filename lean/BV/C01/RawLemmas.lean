import BV.C01.Raw
import BV.C01.Model
import BV.C01.Lemmas
namespace BV.C01.RawLemmas
open BV.C01 BV.C01.Raw

/-- forget what the context says about an input -/
def stripIn (i : InFacts) : InFacts :=
  { null := i.null, seq := i.seq, avail := false, isCb := false, originHeight := 0, originPrevMTP := 0, amount := 0,
    p2shSigops := 0, witSigops := 0, failsAlways := false, failsUnder := 0 }

def stripTx (t : TxFacts) : TxFacts := { t with ins := t.ins.map stripIn, overwrites := false }

/-- the part of a description the sanity stage reads: the block itself, the proof-of-work limit and the clock -/
def stripD (d : Desc) : Desc :=
  { P := ⟨0, 0, 0, 0, 0, 0, false, 0, 0, d.P.powLimit, 0, false⟩
    C := ⟨0, 0, 0, 0, d.C.now⟩
    H := d.H
    B := ⟨d.B.strippedSize, 0, d.B.txs.map stripTx, d.B.merkleOk, d.B.dupTxids, 0, 0⟩ }

theorem isCoinbase_strip (t : TxFacts) : (stripTx t).isCoinbase = t.isCoinbase := by
  unfold TxFacts.isCoinbase stripTx
  cases h : t.ins with
  | nil => simp
  | cons i rest => cases rest <;> simp [stripIn]

theorem filter_strip (txs : List TxFacts) :
    (txs.map stripTx).filter (fun t => !t.isCoinbase) = (txs.filter (fun t => !t.isCoinbase)).map stripTx := by
  rw [List.filter_map]
  congr 1
  apply List.filter_congr
  intro t _
  simp [isCoinbase_strip]

theorem outSum_strip (t : TxFacts) : (stripTx t).outSum = t.outSum := rfl

@[simp] theorem strip_outs (t : TxFacts) : (stripTx t).outs = t.outs := rfl
@[simp] theorem strip_ins (t : TxFacts) : (stripTx t).ins = t.ins.map stripIn := rfl
@[simp] theorem strip_size (t : TxFacts) : (stripTx t).strippedSize = t.strippedSize := rfl
@[simp] theorem strip_dup (t : TxFacts) : (stripTx t).dupInputs = t.dupInputs := rfl
@[simp] theorem strip_s0 (t : TxFacts) : (stripTx t).script0Len = t.script0Len := rfl
@[simp] theorem strip_sig (t : TxFacts) : (stripTx t).legacySigops = t.legacySigops := rfl
@[simp] theorem strip_null (i : InFacts) : (stripIn i).null = i.null := rfl

/-- every sanity-stage rule reads only the stripped description -/
theorem stage0_strip (r : Rule) (h : stage r = 0) (d : Desc) : ruleOk r d = ruleOk r (stripD d) := by
  cases r <;> simp [stage] at h
  case firstCoinbase =>
    simp only [ruleOk, stripD]
    cases d.B.txs with
    | nil => rfl
    | cons t rest => simp [isCoinbase_strip]
  case multiCoinbase =>
    simp only [ruleOk, stripD]
    cases d.B.txs with
    | nil => rfl
    | cons t rest => simp [List.all_map, Function.comp_def, isCoinbase_strip]
  all_goals
    simp [ruleOk, stripD, List.all_map, Function.comp_def, isCoinbase_strip, filter_strip, outSum_strip, List.map_map]
  all_goals rfl

theorem stageOk0_strip (d : Desc) : stageOk 0 d = stageOk 0 (stripD d) := by
  unfold stageOk
  refine List.all_congr rfl ?_
  intro r
  by_cases h : stage r = 0
  · rw [stage0_strip r h d]
  · have hb : (stage r != 0) = true := bne_iff_ne.mpr h
    rw [hb, Bool.true_or, Bool.true_or]

theorem stripIn_inFacts (u u' : BV.C03.Spec.UtxoSet) (c c' : List BV.C09.Hdr) (i : BV.C08.TxIn) (w : List Bytes)
    (b : Bool × Nat) : stripIn (inFacts u c i w b) = stripIn (inFacts u' c' i w b) := by
  have key : ∀ (u : BV.C03.Spec.UtxoSet) (c : List BV.C09.Hdr), stripIn (inFacts u c i w b) =
      ⟨isNull i, i.2.2.2, false, false, 0, 0, 0, 0, 0, false, 0⟩ := by
    intro u c
    unfold inFacts
    dsimp only
    generalize (if isNull i = true then none else u (idNat i.1, i.2.1)) = o
    cases o <;> rfl
  rw [key u c, key u' c']

theorem stripTx_txFacts (u u' : BV.C03.Spec.UtxoSet) (c c' : List BV.C09.Hdr) (t : BV.C08.Tx)
    (bits : List (Bool × Nat)) : stripTx (txFacts u c t bits) = stripTx (txFacts u' c' t bits) := by
  unfold txFacts stripTx
  simp only [List.map_map]
  congr 1
  apply List.map_congr_left
  intro x _
  exact stripIn_inFacts u u' c c' x.1.1 x.1.2 x.2

theorem strip_txsFacts (h h' : Nat) (c c' : List BV.C09.Hdr) : ∀ (txs : List BV.C08.Tx) (u u' : BV.C03.Spec.UtxoSet)
    (bits : List (List (Bool × Nat))),
    (txsFacts h c u txs bits).map stripTx = (txsFacts h' c' u' txs bits).map stripTx
  | [], _, _, _ => rfl
  | t :: rest, u, u', bits => by
    unfold txsFacts
    simp only [List.map_cons]
    rw [stripTx_txFacts u u' c c' t (bits.headD [])]
    congr 1
    exact strip_txsFacts h h' c c' rest _ _ _

/-- the sanity-stage part of the derived description does not depend on the ancestors -/
theorem strip_describe (n : Net) (now : Int) (anc anc' : List BV.C08.Block) (blk : BV.C08.Block) (len : Nat)
    (bits : List (List (Bool × Nat))) :
    stripD (describe n now anc blk len bits) = stripD (describe n now anc' blk len bits) := by
  unfold describe stripD
  simp only []
  congr 2
  exact strip_txsFacts _ _ _ _ _ _ _ _

/-! ### the chain machine on raw blocks -/

/-- what a delivered block is: its serialized bytes and the script-verdict oracle pairs of its inputs -/
abbrev RawBody := Bytes × List (List (Bool × Nat))

/-- the description of a raw block on its own raw ancestor list (parent first, genesis last, as the chain machine
    records it) -/
def DRaw (n : Net) (now : Int) (anc : List (Chain.Blk RawBody)) (b : Chain.Blk RawBody) : Desc :=
  deriveD ⟨n, now, (anc.map (fun a => a.body.1)).reverse, b.body.1, b.body.2⟩

theorem contextFree_raw (n : Net) (now : Int) : Lemmas.ContextFree (DRaw n now) := by
  intro anc b
  unfold DRaw deriveD
  dsimp only
  cases decBlock b.body.1 with
  | none => rfl
  | some blk =>
    dsimp only
    rw [stageOk0_strip, stageOk0_strip (describe n now _ blk _ _)]
    rw [strip_describe n now _ (List.filterMap decBlock (List.map (fun a => a.body.1) ([] : List (Chain.Blk RawBody))).reverse)]

end BV.C01.RawLemmas
