import BV.C01.Lemmas
namespace BV.C01.PermLemmas
open BV.C01

theorem sumInt_perm {l l' : List Int} (h : l.Perm l') : sumInt l = sumInt l' := by
  induction h with
  | nil => rfl
  | cons x _ ih => simp only [sumInt, List.foldr_cons] at ih ⊢; omega
  | swap x y l => simp only [sumInt, List.foldr_cons]; omega
  | trans _ _ ih1 ih2 => exact ih1.trans ih2

theorem isCoinbase_perm (t : TxFacts) (ins' : List InFacts) (h : t.ins.Perm ins') :
    ({ t with ins := ins' } : TxFacts).isCoinbase = t.isCoinbase := by
  unfold TxFacts.isCoinbase
  cases hi : t.ins with
  | nil => rw [hi] at h; rw [h.nil_eq]
  | cons a rest =>
    cases rest with
    | nil =>
      rw [hi] at h
      have := h.length_eq
      cases ins' with
      | nil => simp at this
      | cons b r' =>
        cases r' with
        | nil =>
          have hm : a ∈ [b] := h.subset List.mem_cons_self
          simp only [List.mem_singleton] at hm
          subst hm; rfl
        | cons c r'' => simp at this
    | cons b rest' =>
      rw [hi] at h
      have := h.length_eq
      cases ins' with
      | nil => simp at this
      | cons x r' =>
        cases r' with
        | nil => simp at this
        | cons y r'' => rfl

/-- Everything the rules read from the inputs of a transaction is independent of the POSITION of the inputs:
    coinbase shape, "all inputs exist", input sum and fee, finality, the BIP68 verdict, the sigop cost, and every
    per-input test (`all p`) a rule applies. -/
theorem tx_predicates_position_independent (t : TxFacts) (ins' : List InFacts) (h : t.ins.Perm ins')
    (height cutoff mtp : Int) (p2sh segwit : Bool) (p : InFacts → Bool) :
    let t' : TxFacts := { t with ins := ins' }
    t'.isCoinbase = t.isCoinbase ∧ t'.allAvail = t.allAvail ∧ t'.inSum = t.inSum ∧ t'.fee = t.fee ∧
    t'.final height cutoff = t.final height cutoff ∧ t'.seqLocksOk height mtp = t.seqLocksOk height mtp ∧
    t'.sigopCost p2sh segwit = t.sigopCost p2sh segwit ∧ ins'.all p = t.ins.all p := by
  intro t'
  have hc : t'.isCoinbase = t.isCoinbase := isCoinbase_perm t ins' h
  have hall : ∀ q : InFacts → Bool, ins'.all q = t.ins.all q := fun q => (h.all_eq (f := q)).symm
  have hsum : ∀ f : InFacts → Int, sumInt (ins'.map f) = sumInt (t.ins.map f) := fun f => (sumInt_perm (h.map f)).symm
  have ha : t'.allAvail = t.allAvail := hall _
  have hs : t'.inSum = t.inSum := hsum _
  refine ⟨hc, ha, hs, ?_, ?_, ?_, ?_, hall p⟩
  · show (if t'.isCoinbase || !t'.allAvail then 0 else t'.inSum - t'.outSum) = _
    rw [hc, ha, hs]; rfl
  · show (t.lockTime = 0 || _ || ins'.all _) = _
    rw [hall]; rfl
  · show (decide (t.version < 2) || t'.isCoinbase || ins'.all _) = _
    rw [hc, hall]; rfl
  · unfold TxFacts.sigopCost
    rw [hc]
    show t.legacySigops * _ + (if _ then sumInt (ins'.map _) * _ else 0) + (if _ then sumInt (ins'.map _) else 0) = _
    rw [hsum, hsum]

end BV.C01.PermLemmas
