/-
C01 Spec — "a block satisfies every consensus rule in its context", stated directly over a
*block description*: the facts the rules talk about (header numbers, context numbers derived from
the block's OWN ancestors, block-level facts, per-transaction and per-input facts).  Every rule is
one decidable predicate `ruleOk r d`; a block is valid iff all of them hold (`Valid`).
Primitive results (hash-as-number, expected bits, median time past, merkle comparison, sizes,
sigop counts, script verdicts per flag) are input facts: they are the subject of C09/C13/C06/C03.
Core-only.
-/
namespace BV.C01

/-! ### protocol constants (pinned against the code's values in Props) -/
def MAX_BLOCK_BASE_SIZE : Int := 1000000
def MAX_BLOCK_WEIGHT : Int := 4000000
def MAX_BLOCK_SIGOPS_COST : Int := 80000
def WITNESS_SCALE_FACTOR : Int := 4
def MAX_FUTURE_BLOCK_TIME : Int := 7200
def MIN_COINBASE_SCRIPT_LEN : Int := 2
def MAX_COINBASE_SCRIPT_LEN : Int := 100
def MAX_MONEY : Int := 2100000000000000
def LOCKTIME_THRESHOLD : Int := 500000000
def SEQUENCE_FINAL : Nat := 0xffffffff
def SEQ_LOCKTIME_DISABLE : Nat := 0x80000000   -- bit 31
def SEQ_LOCKTIME_TYPE : Nat := 0x00400000      -- bit 22
def SEQ_LOCKTIME_MASK : Nat := 0x0000ffff
def SEQ_LOCKTIME_GRANULARITY : Nat := 9
def MAX_TIMEWARP : Int := 600
def BIP16_SWITCH_TIME : Int := 1333238400      -- 1 Apr 2012 00:00:00 UTC
def BIP34_IMPLIES_BIP30_LIMIT : Int := 1983702
def BASE_SUBSIDY : Int := 5000000000
def INT64_MAX : Int := 9223372036854775807

/-! script verification flags (bit mask used by the per-input script facts) -/
def F_P2SH : Nat := 1
def F_DERSIG : Nat := 2
def F_CLTV : Nat := 4
def F_CSV : Nat := 8
def F_WITNESS : Nat := 16      -- BIP141/143/147 package (witness + NULLDUMMY)
def F_TAPROOT : Nat := 32

/-- consensus parameters of the network -/
structure Params where
  bip34H : Int
  bip65H : Int
  bip66H : Int
  csvH : Int            -- 0 = never; otherwise the CSV package is active for every height ≥ csvH
  segH : Int            -- same for segwit
  tapH : Int            -- same for taproot
  bip94 : Bool
  maturity : Int
  subsidyInterval : Int
  powLimit : Int
  blocksPerRetarget : Int
  bip34HashOk : Bool    -- the block at `bip34H` on this block's ancestor path has the configured BIP34 hash
  deriving Repr, DecidableEq

/-- what the block's own ancestors determine -/
structure Ctx where
  height : Int          -- parent height + 1
  prevMTP : Int         -- median time past of the parent
  prevTime : Int        -- parent timestamp
  expectedBits : Nat    -- required difficulty (C09)
  now : Int             -- network-adjusted time of the validating node
  deriving Repr, DecidableEq

structure Header where
  version : Int         -- int32
  bits : Nat
  time : Int
  target : Int          -- compact `bits` expanded (C09 `compactToBig`)
  hashNum : Nat         -- block hash read as a 256-bit number
  deriving Repr, DecidableEq

/-- one transaction input, with what the utxo set (fold of the ancestors + earlier txs of this block) says -/
structure InFacts where
  null : Bool           -- previous outpoint is the null outpoint
  seq : Nat             -- nSequence
  avail : Bool          -- referenced output exists and is unspent at this point
  isCb : Bool           -- it was created by a coinbase
  originHeight : Int    -- height of the block that created it
  originPrevMTP : Int   -- median time past of the block before the one that created it
  amount : Int
  p2shSigops : Int      -- precise sigops of the redeem script when the output is P2SH, else 0
  witSigops : Int       -- witness sigop cost of this input
  failsAlways : Bool    -- script pair fails under every flag set
  failsUnder : Nat      -- mask: the script pair fails iff one of these flags is enforced
  deriving Repr, DecidableEq

structure TxFacts where
  version : Nat         -- tx version read as uint32
  lockTime : Int
  ins : List InFacts
  outs : List Int       -- output values
  strippedSize : Int
  dupInputs : Bool      -- two inputs reference the same outpoint
  script0Len : Int      -- length of the first input's signature script
  legacySigops : Int    -- imprecise count over all scriptSigs and scriptPubKeys
  hasWitness : Bool
  overwrites : Bool     -- some output's outpoint (txid, i) is currently unspent (BIP30)
  deriving Repr, DecidableEq

structure BlockFacts where
  strippedSize : Int
  totalSize : Int
  txs : List TxFacts
  merkleOk : Bool       -- header merkle root equals the computed one (C13)
  dupTxids : Bool       -- two transactions have the same txid
  commit : Nat          -- witness commitment: 0 absent, 1 present and valid, 2 present and invalid
  cbHeight : Int        -- height minimally serialized at the start of the coinbase script, or -1
  deriving Repr, DecidableEq

structure Desc where
  P : Params
  C : Ctx
  H : Header
  B : BlockFacts
  deriving Repr, DecidableEq

/-! ### derived notions -/

def deployed (h : Int) (height : Int) : Bool := h ≠ 0 && decide (h ≤ height)
def Desc.csv (d : Desc) : Bool := deployed d.P.csvH d.C.height
def Desc.segwit (d : Desc) : Bool := deployed d.P.segH d.C.height
def Desc.taproot (d : Desc) : Bool := deployed d.P.tapH d.C.height
/-- BIP16 is keyed on the block time; BIP141 presupposes it -/
def Desc.p2sh (d : Desc) : Bool := decide (BIP16_SWITCH_TIME ≤ d.H.time) || d.segwit

/-- the script flags the protocol enforces for this block -/
def Desc.flags (d : Desc) : Nat :=
  (if d.p2sh then F_P2SH else 0) +
  (if d.P.bip66H ≤ d.C.height then F_DERSIG else 0) +
  (if d.P.bip65H ≤ d.C.height then F_CLTV else 0) +
  (if d.csv then F_CSV else 0) +
  (if d.segwit then F_WITNESS else 0) +
  (if d.taproot then F_TAPROOT else 0)

def TxFacts.isCoinbase (t : TxFacts) : Bool :=
  match t.ins with
  | [i] => i.null
  | _ => false

def sumInt (l : List Int) : Int := l.foldr (· + ·) 0

def TxFacts.outSum (t : TxFacts) : Int := sumInt t.outs
def TxFacts.inSum (t : TxFacts) : Int := sumInt (t.ins.map (·.amount))
/-- every input refers to an existing unspent output -/
def TxFacts.allAvail (t : TxFacts) : Bool := t.ins.all (fun i => !i.null && i.avail)
/-- fee of a transaction whose inputs all exist (a coinbase, or a tx that cannot be connected, contributes none) -/
def TxFacts.fee (t : TxFacts) : Int := if t.isCoinbase || !t.allAvail then 0 else t.inSum - t.outSum

/-- subsidy: 50 BTC halved every `interval` blocks (C09) -/
def subsidy (height interval : Int) : Int :=
  if interval = 0 then BASE_SUBSIDY
  else
    let q := Int.tdiv height interval
    if q < 0 then 0 else if q ≥ 64 then 0 else BASE_SUBSIDY / (2 ^ q.toNat : Nat)

def Desc.weight (d : Desc) : Int := d.B.strippedSize * (WITNESS_SCALE_FACTOR - 1) + d.B.totalSize

/-- sigop cost of one tx under the enforced flags -/
def TxFacts.sigopCost (t : TxFacts) (p2sh segwit : Bool) : Int :=
  t.legacySigops * WITNESS_SCALE_FACTOR +
  (if p2sh && !t.isCoinbase then sumInt (t.ins.map (·.p2shSigops)) * WITNESS_SCALE_FACTOR else 0) +
  (if segwit && !t.isCoinbase then sumInt (t.ins.map (·.witSigops)) else 0)

def Desc.sigopCost (d : Desc) : Int := sumInt (d.B.txs.map (·.sigopCost d.p2sh d.segwit))

/-- lock-time cutoff: median time past once CSV (BIP113) is active, else the block time -/
def Desc.lockCutoff (d : Desc) : Int := if d.csv then d.C.prevMTP else d.H.time

/-- `IsFinalTx` -/
def TxFacts.final (t : TxFacts) (height cutoff : Int) : Bool :=
  t.lockTime = 0 ||
  decide (t.lockTime < (if t.lockTime < LOCKTIME_THRESHOLD then height else cutoff)) ||
  t.ins.all (fun i => i.seq = SEQUENCE_FINAL)

/-- BIP68 for one input: the input is spendable in a block of `height` whose parent MTP is `mtp` -/
def InFacts.seqLockOk (i : InFacts) (height mtp : Int) : Bool :=
  if i.seq / SEQ_LOCKTIME_DISABLE % 2 = 1 then true
  else
    let rel : Int := (i.seq % (SEQ_LOCKTIME_MASK + 1) : Nat)
    if i.seq / SEQ_LOCKTIME_TYPE % 2 = 1 then
      decide (i.originPrevMTP + rel * 2 ^ SEQ_LOCKTIME_GRANULARITY - 1 < mtp)
    else
      decide (i.originHeight + rel - 1 < height)

def TxFacts.seqLocksOk (t : TxFacts) (height mtp : Int) : Bool :=
  t.version < 2 || t.isCoinbase || t.ins.all (fun i => i.null || !i.avail || i.seqLockOk height mtp)

def InFacts.scriptOk (i : InFacts) (flags : Nat) : Bool :=
  !i.failsAlways && (i.failsUnder &&& flags) = 0

/-! ### the rules -/

inductive Rule
  | powTarget | powHash | bits | timeOld | timeNew | timewarp | version
  | noTx | baseSize | weight | firstCoinbase | multiCoinbase
  | txNoInputs | txNoOutputs | txTooBig | outValue | dupInputs | cbScriptLen | nullPrevout
  | merkle | dupTx | sigopsLegacy | sigopsCost
  | finality | bip34Height | witnessCommit | unexpectedWitness
  | bip30 | missingInput | immature | inValue | spendTooHigh | feeRange | coinbaseValue
  | seqLocks | scripts
  deriving DecidableEq, Repr

def Rule.all : List Rule :=
  [.powTarget, .powHash, .bits, .timeOld, .timeNew, .timewarp, .version,
   .noTx, .baseSize, .weight, .firstCoinbase, .multiCoinbase,
   .txNoInputs, .txNoOutputs, .txTooBig, .outValue, .dupInputs, .cbScriptLen, .nullPrevout,
   .merkle, .dupTx, .sigopsLegacy, .sigopsCost,
   .finality, .bip34Height, .witnessCommit, .unexpectedWitness,
   .bip30, .missingInput, .immature, .inValue, .spendTooHigh, .feeRange, .coinbaseValue,
   .seqLocks, .scripts]

def moneyRange (v : Int) : Bool := decide (0 ≤ v) && decide (v ≤ MAX_MONEY)

/-- BIP30 is enforced unless BIP34 makes duplicates impossible (Core's `IsBIP30Unspendable`/BIP34 test;
    the two historic mainnet exceptions are not reachable with synthetic parameters and are omitted). -/
def Desc.bip30Enforced (d : Desc) : Bool :=
  !(decide (d.P.bip34H < d.C.height) && decide (d.C.height < BIP34_IMPLIES_BIP30_LIMIT) && d.P.bip34HashOk)

def ruleOk (r : Rule) (d : Desc) : Bool :=
  let txs := d.B.txs
  let nonCb := txs.filter (fun t => !t.isCoinbase)
  match r with
  | .powTarget => decide (0 < d.H.target) && decide (d.H.target ≤ d.P.powLimit)
  | .powHash => decide ((d.H.hashNum : Int) ≤ d.H.target)
  | .bits => d.H.bits = d.C.expectedBits
  | .timeOld => decide (d.C.prevMTP < d.H.time)
  | .timeNew => decide (d.H.time ≤ d.C.now + MAX_FUTURE_BLOCK_TIME)
  | .timewarp =>
      !d.P.bip94 || Int.tmod d.C.height d.P.blocksPerRetarget ≠ 0 ||
        decide (d.C.prevTime - MAX_TIMEWARP ≤ d.H.time)
  | .version =>
      !((decide (d.H.version < 2) && decide (d.P.bip34H ≤ d.C.height)) ||
        (decide (d.H.version < 3) && decide (d.P.bip66H ≤ d.C.height)) ||
        (decide (d.H.version < 4) && decide (d.P.bip65H ≤ d.C.height)))
  | .noTx => !txs.isEmpty
  | .baseSize => decide (d.B.strippedSize ≤ MAX_BLOCK_BASE_SIZE)
  | .weight => !d.segwit || decide (d.weight ≤ MAX_BLOCK_WEIGHT)
  | .firstCoinbase => match txs with | [] => true | t :: _ => t.isCoinbase
  | .multiCoinbase => match txs with | [] => true | _ :: rest => rest.all (fun t => !t.isCoinbase)
  | .txNoInputs => txs.all (fun t => !t.ins.isEmpty)
  | .txNoOutputs => txs.all (fun t => !t.outs.isEmpty)
  | .txTooBig => txs.all (fun t => decide (t.strippedSize ≤ MAX_BLOCK_BASE_SIZE))
  | .outValue => txs.all (fun t => t.outs.all moneyRange && moneyRange t.outSum)
  | .dupInputs => txs.all (fun t => !t.dupInputs)
  | .cbScriptLen => txs.all (fun t => !t.isCoinbase ||
      (decide (MIN_COINBASE_SCRIPT_LEN ≤ t.script0Len) && decide (t.script0Len ≤ MAX_COINBASE_SCRIPT_LEN)))
  | .nullPrevout => nonCb.all (fun t => t.ins.all (fun i => !i.null))
  | .merkle => d.B.merkleOk
  | .dupTx => !d.B.dupTxids
  | .sigopsLegacy => decide (sumInt (txs.map (·.legacySigops)) * WITNESS_SCALE_FACTOR ≤ MAX_BLOCK_SIGOPS_COST)
  | .sigopsCost => decide (d.sigopCost ≤ MAX_BLOCK_SIGOPS_COST)
  | .finality => txs.all (fun t => t.final d.C.height d.lockCutoff)
  | .bip34Height => txs.isEmpty ||
      !(decide (2 ≤ d.H.version) && decide (d.P.bip34H ≤ d.C.height)) || d.B.cbHeight = d.C.height
  | .witnessCommit => !d.segwit || d.B.commit ≠ 2
  | .unexpectedWitness =>
      -- witness data needs a commitment, and there is none to be had before segwit is active
      (d.segwit && d.B.commit ≠ 0) || txs.all (fun t => !t.hasWitness)
  | .bip30 => !d.bip30Enforced || txs.all (fun t => !t.overwrites)
  | .missingInput => nonCb.all (fun t => t.ins.all (fun i => i.null || i.avail))
  | .immature => nonCb.all (fun t => t.ins.all (fun i =>
      !(i.avail && i.isCb) || decide (d.P.maturity ≤ d.C.height - i.originHeight)))
  | .inValue => nonCb.all (fun t => !t.allAvail || (t.ins.all (fun i => moneyRange i.amount) && moneyRange t.inSum))
  | .spendTooHigh => nonCb.all (fun t => !t.allAvail || decide (t.outSum ≤ t.inSum))
  | .feeRange => decide (sumInt (txs.map (·.fee)) ≤ INT64_MAX)
  | .coinbaseValue => match txs with
      | [] => true
      | cb :: _ => decide (cb.outSum ≤ subsidy d.C.height d.P.subsidyInterval + sumInt (txs.map (·.fee)))
  | .seqLocks => !d.csv || txs.all (fun t => t.seqLocksOk d.C.height d.C.prevMTP)
  | .scripts => nonCb.all (fun t => t.ins.all (fun i => i.null || !i.avail || i.scriptOk d.flags))

/-- the property's "satisfies every consensus rule in its context" -/
def Valid (d : Desc) : Prop := ∀ r : Rule, ruleOk r d = true

/-- rule classes: the granularity at which a rejection reason is compared with the implementation -/
def Rule.cls : Rule → String
  | .powTarget | .bits => "difficulty"
  | .powHash => "highhash"
  | .timeOld => "time-old"
  | .timeNew => "time-new"
  | .timewarp => "timewarp"
  | .version => "version"
  | .noTx => "notx"
  | .baseSize | .weight | .txTooBig => "size"
  | .firstCoinbase | .multiCoinbase => "coinbase-pos"
  | .txNoInputs | .txNoOutputs => "tx-empty"
  | .outValue | .inValue => "value"
  | .spendTooHigh => "spend"
  | .dupInputs => "dup-inputs"
  | .cbScriptLen => "cb-script-len"
  | .nullPrevout => "null-prevout"
  | .merkle => "merkle"
  | .dupTx => "dup-tx"
  | .sigopsLegacy | .sigopsCost => "sigops"
  | .finality | .seqLocks => "nonfinal"
  | .bip34Height => "bip34"
  | .witnessCommit | .unexpectedWitness => "witness"
  | .bip30 => "bip30"
  | .missingInput => "missing"
  | .immature => "immature"
  | .feeRange => "fees"
  | .coinbaseValue => "cb-value"
  | .scripts => "script"

end BV.C01
