/-
C01 property theorems.  Only statements of the property + non-vacuity examples live here;
helper lemmas are in Lemmas.lean / ChainLemmas.lean.
-/
import BV.C01.Lemmas
import BV.Generated.C01
namespace BV.C01

/-! ### the decision procedure is the conjunction of the rules -/

/-- `validBlock` accepts exactly the descriptions that satisfy every rule predicate. -/
theorem valid_iff_all_rules (d : Desc) : validBlock d = .ok () ↔ Valid d :=
  Lemmas.validBlock_ok_iff d

/-- a rejection names a rule that really is violated -/
theorem reject_names_violated_rule (d : Desc) (r : Rule) (h : validBlock d = .error r) :
    ruleOk r d = false := Lemmas.validBlock_error d r h

/-! ### pinned constants (regenerated from the tree on every run) -/

theorem pin_maxBlockBaseSize : Generated.C01.maxBlockBaseSize = MAX_BLOCK_BASE_SIZE := by decide
theorem pin_maxBlockWeight : Generated.C01.maxBlockWeight = MAX_BLOCK_WEIGHT := by decide
theorem pin_maxBlockSigOpsCost : Generated.C01.maxBlockSigOpsCost = MAX_BLOCK_SIGOPS_COST := by decide
theorem pin_witnessScaleFactor : Generated.C01.witnessScaleFactor = WITNESS_SCALE_FACTOR := by decide
theorem pin_maxTimeOffsetSeconds : Generated.C01.maxTimeOffsetSeconds = MAX_FUTURE_BLOCK_TIME := by decide
theorem pin_minCoinbaseScriptLen : Generated.C01.minCoinbaseScriptLen = MIN_COINBASE_SCRIPT_LEN := by decide
theorem pin_maxCoinbaseScriptLen : Generated.C01.maxCoinbaseScriptLen = MAX_COINBASE_SCRIPT_LEN := by decide
theorem pin_maxSatoshi : Generated.C01.maxSatoshi = MAX_MONEY := by decide
theorem pin_lockTimeThreshold : Generated.C01.lockTimeThreshold = LOCKTIME_THRESHOLD := by decide
theorem pin_bip16Activation : Generated.C01.bip16Activation = BIP16_SWITCH_TIME := by decide
theorem pin_seqDisabled : Generated.C01.sequenceLockTimeDisabled = (SEQ_LOCKTIME_DISABLE : Int) := by decide
theorem pin_seqIsSeconds : Generated.C01.sequenceLockTimeIsSeconds = (SEQ_LOCKTIME_TYPE : Int) := by decide
theorem pin_seqMask : Generated.C01.sequenceLockTimeMask = (SEQ_LOCKTIME_MASK : Int) := by decide
theorem pin_seqGranularity : Generated.C01.sequenceLockTimeGranularity = (SEQ_LOCKTIME_GRANULARITY : Int) := by decide
theorem pin_seqFinal : Generated.C01.maxTxInSequenceNum = (SEQUENCE_FINAL : Int) := by decide

end BV.C01
