/-
C01 property theorems.  Only statements of the property + non-vacuity examples live here;
helper lemmas are in Lemmas.lean / ChainLemmas.lean.
-/
import BV.C01.Lemmas
import BV.Generated.C01
namespace BV.C01

/-! ### the decision procedure is the conjunction of the rules -/

/-- `validBlock` accepts exactly the descriptions that satisfy every rule predicate. -/
theorem valid_iff_all_rules (d : Desc) : validBlock d = .ok () ↔ Valid d :=
  Lemmas.validBlock_ok_iff d

/-- a rejection names a rule that really is violated -/
theorem reject_names_violated_rule (d : Desc) (r : Rule) (h : validBlock d = .error r) :
    ruleOk r d = false := Lemmas.validBlock_error d r h

/-! ### the chain machine with the rule checks instantiated by `validBlock`

`D anc b` is any derivation of the block description from the block `b` and its OWN ancestor list `anc`
(parent first, genesis last) — nothing else is an argument.  `ContextFree D` says the sanity-stage rules do
not read the context part.  Histories `bs` are arbitrary lists of delivered blocks: orphans, unrelated
forks, duplicates and every arrival order are universally quantified. -/

section chain
open Chain Lemmas
variable {β : Type} (D : List (Blk β) → Blk β → Desc) (g : Blk β)

/-- Every block on the active chain, in every reachable state, satisfies every rule in the context of its
    own ancestors (the part of the chain below it). -/
theorem active_sound (hD : ContextFree D) (bs : List (Blk β)) :
    AllValid D g (run (oracleOf D) g bs).best :=
  allValid_of_chainOk D hD g _ (run_inv (oracleOf D) g bs).bestOk

/-- pointwise form: a block at any position of the active chain is valid given exactly the blocks below it -/
theorem active_sound_at (hD : ContextFree D) (bs : List (Blk β)) (pre : List (Blk β)) (b : Blk β)
    (anc : List (Blk β)) (h : (run (oracleOf D) g bs).best = pre ++ b :: anc) (hne : anc ≠ []) :
    validBlock (D anc b) = .ok () := by
  have hc := chainOk_suffix (oracleOf D) g pre (b :: anc) (by simp)
    (by rw [← h]; exact (run_inv (oracleOf D) g bs).bestOk)
  rcases hc with ⟨h1, _⟩ | ⟨h0, h1, h2, _⟩
  · exact absurd h1 hne
  · exact (oracle_all_iff D hD anc b).mp ⟨h0, h1, h2⟩

/-- The validity flag a node carries is `validBlock` of (block, own ancestors): a node marked valid satisfies
    every rule, a node marked failed violates one. -/
theorem verdict_is_validBlock (hD : ContextFree D) (bs : List (Blk β)) (n : Node β)
    (hn : n ∈ (run (oracleOf D) g bs).nodes) (hne : n.anc ≠ []) :
    (n.valid = true → validBlock (D n.anc n.blk) = .ok ()) ∧
    (n.failed = true → validBlock (D n.anc n.blk) ≠ .ok ()) := by
  have hi := run_inv (oracleOf D) g bs
  have hok := hi.nodeOk n hn
  unfold NodeOk at hok
  cases ha : n.anc with
  | nil => exact absurd ha hne
  | cons p rest =>
    rw [ha] at hok
    obtain ⟨h0, h1, _, _⟩ := hok
    constructor
    · intro hv
      rcases hi.validOk n hn hv with e | h2
      · exact absurd e hne
      · rw [ha] at h2
        exact (oracle_all_iff D hD (p :: rest) n.blk).mp ⟨h0, h1, h2⟩
    · intro hf hval
      have h2 := (hi.failedOk n hn hf).2
      rw [ha] at h2
      have := ((oracle_all_iff D hD (p :: rest) n.blk).mpr hval).2.2
      rw [this] at h2
      cases h2

/-- The verdict depends only on the block and its ancestor path: two arbitrary histories that both validated
    the same block on the same ancestors assigned the same flags, and that flag is `validBlock`. -/
theorem verdict_depends_only_on_ancestors (hD : ContextFree D) (bs₁ bs₂ : List (Blk β)) (n₁ n₂ : Node β)
    (h₁ : n₁ ∈ (run (oracleOf D) g bs₁).nodes) (h₂ : n₂ ∈ (run (oracleOf D) g bs₂).nodes)
    (hb : n₁.blk = n₂.blk) (ha : n₁.anc = n₂.anc) (hne : n₁.anc ≠ [])
    (c₁ : (n₁.valid || n₁.failed) = true) (c₂ : (n₂.valid || n₂.failed) = true) :
    n₁.valid = n₂.valid ∧ n₁.failed = n₂.failed ∧
      (n₁.valid = true ↔ validBlock (D n₁.anc n₁.blk) = .ok ()) := by
  have v₁ := verdict_is_validBlock D g hD bs₁ n₁ h₁ hne
  have v₂ := verdict_is_validBlock D g hD bs₂ n₂ h₂ (by rw [← ha]; exact hne)
  rw [← ha, ← hb] at v₂
  cases hv1 : n₁.valid <;> cases hf1 : n₁.failed <;> cases hv2 : n₂.valid <;> cases hf2 : n₂.failed <;>
    simp_all

/-- The reorganisation path applies the same check as the tip-extension path: whichever of the two validated a
    node, its flags are the value of the connect-stage oracle on the node's own ancestors (and never both). -/
theorem reorg_path_same_checks (bs : List (Blk β)) (O : Oracle β) (n : Node β)
    (hn : n ∈ (run O g bs).nodes) (hne : n.anc ≠ []) (c : (n.valid || n.failed) = true) :
    n.valid = O.connOk n.anc n.blk ∧ n.failed = !O.connOk n.anc n.blk := by
  have hi := run_inv O g bs
  cases hv : n.valid <;> cases hf : n.failed
  · simp [hv, hf] at c
  · have := (hi.failedOk n hn hf).2
    simp [this]
  · rcases hi.validOk n hn hv with e | h
    · exact absurd e hne
    · simp [h]
  · rcases hi.validOk n hn hv with e | h
    · exact absurd e hne
    · have := (hi.failedOk n hn hf).2
      rw [h] at this; cases this

/-- Whatever is indexed passed the sanity and context stages on its own ancestors. -/
theorem indexed_sound (bs : List (Blk β)) (O : Oracle β) (n : Node β)
    (hn : n ∈ (run O g bs).nodes) (hne : n.anc ≠ []) :
    O.sane n.blk = true ∧ O.ctxOk n.anc n.blk = true := by
  have hok := (run_inv O g bs).nodeOk n hn
  unfold NodeOk at hok
  cases ha : n.anc with
  | nil => exact absurd ha hne
  | cons p rest =>
    rw [ha] at hok
    obtain ⟨h0, h1, _, _⟩ := hok
    exact ⟨h0, by first | exact h1 | (rw [ha]; exact h1)⟩

/-- Completeness of storage (partial: "accepted" is shown as "indexed on its ancestors and never marked failed
    unless the connect stage really fails"; that a valid block with more work always *becomes* active also
    needs chain selection, which is property C02).  A new block whose parent is indexed and not known invalid
    and which passes the sanity and context stages is indexed by `step`. -/
theorem stored_complete_partial (bs : List (Blk β)) (O : Oracle β) (b : Blk β) (p : Node β)
    (hnew : lookup (run O g bs) b.hash = none)
    (hno : (run O g bs).orphans.any (fun o => o.hash == b.hash) = false)
    (hp : lookup (run O g bs) b.parent = some p) (hpf : p.failed = false) (hpi : p.invalidAnc = false)
    (hs : O.sane b = true) (hc : O.ctxOk (p.blk :: p.anc) b = true) :
    ∃ n ∈ (run O g (bs ++ [b])).nodes, n.blk = b ∧ n.anc = p.blk :: p.anc ∧
      (n.failed = true → O.connOk n.anc n.blk = false) ∧
      (O.connOk n.anc n.blk = true → n.failed = false) := by
  have hrun : run O g (bs ++ [b]) = (step O (run O g bs) b).1 := by
    unfold run; rw [List.foldl_append]; rfl
  have hi' : Inv O g (run O g (bs ++ [b])) := run_inv O g _
  have key : ∃ n ∈ (step O (run O g bs) b).1.nodes, n.blk = b ∧ n.anc = p.blk :: p.anc := by
    have acc := accept_indexed O hnew hp hpf hpi hc
    unfold step
    rw [hnew, hno, hp]
    simp only [Option.isSome_none, Bool.or_self, Bool.false_eq_true, if_false, hs, Bool.not_true,
      Option.isNone_some]
    split
    · exact acc.1
    · obtain ⟨n, hn, e1, e2⟩ := acc.1
      obtain ⟨n', hn', e3, e4⟩ := processOrphans_grows O _ _ _ n hn
      exact ⟨n', hn', by rw [e3, e1], by rw [e4, e2]⟩
  obtain ⟨n, hn, e1, e2⟩ := key
  rw [← hrun] at hn
  refine ⟨n, hn, e1, e2, fun hf => (hi'.failedOk n hn hf).2, fun hconn => ?_⟩
  cases hf : n.failed with
  | false => rfl
  | true => have := (hi'.failedOk n hn hf).2; rw [hconn] at this; cases this

end chain

/-! ### pinned constants (regenerated from the tree on every run) -/

theorem pin_maxBlockBaseSize : Generated.C01.maxBlockBaseSize = MAX_BLOCK_BASE_SIZE := by decide
theorem pin_maxBlockWeight : Generated.C01.maxBlockWeight = MAX_BLOCK_WEIGHT := by decide
theorem pin_maxBlockSigOpsCost : Generated.C01.maxBlockSigOpsCost = MAX_BLOCK_SIGOPS_COST := by decide
theorem pin_witnessScaleFactor : Generated.C01.witnessScaleFactor = WITNESS_SCALE_FACTOR := by decide
theorem pin_maxTimeOffsetSeconds : Generated.C01.maxTimeOffsetSeconds = MAX_FUTURE_BLOCK_TIME := by decide
theorem pin_minCoinbaseScriptLen : Generated.C01.minCoinbaseScriptLen = MIN_COINBASE_SCRIPT_LEN := by decide
theorem pin_maxCoinbaseScriptLen : Generated.C01.maxCoinbaseScriptLen = MAX_COINBASE_SCRIPT_LEN := by decide
theorem pin_maxSatoshi : Generated.C01.maxSatoshi = MAX_MONEY := by decide
theorem pin_lockTimeThreshold : Generated.C01.lockTimeThreshold = LOCKTIME_THRESHOLD := by decide
theorem pin_bip16Activation : Generated.C01.bip16Activation = BIP16_SWITCH_TIME := by decide
theorem pin_seqDisabled : Generated.C01.sequenceLockTimeDisabled = (SEQ_LOCKTIME_DISABLE : Int) := by decide
theorem pin_seqIsSeconds : Generated.C01.sequenceLockTimeIsSeconds = (SEQ_LOCKTIME_TYPE : Int) := by decide
theorem pin_seqMask : Generated.C01.sequenceLockTimeMask = (SEQ_LOCKTIME_MASK : Int) := by decide
theorem pin_seqGranularity : Generated.C01.sequenceLockTimeGranularity = (SEQ_LOCKTIME_GRANULARITY : Int) := by decide
theorem pin_seqFinal : Generated.C01.maxTxInSequenceNum = (SEQUENCE_FINAL : Int) := by decide

end BV.C01
