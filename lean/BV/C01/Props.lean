/-
C01 property theorems.  Only statements of the property + non-vacuity examples live here;
helper lemmas are in Lemmas.lean / ChainLemmas.lean.
-/
import BV.C01.Lemmas
import BV.C01.Loops
import BV.C01.ChainUnique
import BV.C01.ChainComplete
import BV.C01.HeightLemmas
import BV.C01.ApiLemmas
import BV.C01.RawLemmas
import BV.C01.C13Lemmas
import BV.C01.PermLemmas
import BV.Generated.C01
import BV.C09.Model
namespace BV.C01

/-! ### the decision procedure is the conjunction of the rules -/

/-- `validBlock` accepts exactly the descriptions that satisfy every rule predicate. -/
theorem valid_iff_all_rules (d : Desc) : validBlock d = .ok () ↔ Valid d :=
  Lemmas.validBlock_ok_iff d

/-- a rejection names a rule that really is violated -/
theorem reject_names_violated_rule (d : Desc) (r : Rule) (h : validBlock d = .error r) :
    ruleOk r d = false := Lemmas.validBlock_error d r h

/-- when exactly one rule is violated, the decision procedure reports that rule -/
theorem single_violation_reported (d : Desc) (r : Rule) (h : violated d = [r]) : validBlock d = .error r := by
  unfold validBlock firstViolation
  have : Rule.all.find? (fun r => !ruleOk r d) = (violated d).head? := by
    unfold violated; rw [List.head?_filter]
  rw [this, h]
  rfl

/-- the witness flag is never enforced without the P2SH flag (what the script engine demands; F-C01-a) -/
theorem witness_flag_implies_p2sh (d : Desc) (h : d.segwit = true) : d.p2sh = true := by
  unfold Desc.p2sh; rw [h]; simp

/-- witness data is only admissible under an active segwit deployment with a commitment present (F-C01-b) -/
theorem witness_needs_active_commitment (d : Desc) (h : ruleOk .unexpectedWitness d = true)
    (t : TxFacts) (ht : t ∈ d.B.txs) (hw : t.hasWitness = true) : d.segwit = true ∧ d.B.commit ≠ 0 := by
  simp only [ruleOk, Bool.or_eq_true, Bool.and_eq_true, List.all_eq_true] at h
  rcases h with ⟨h1, h2⟩ | h
  · exact ⟨h1, by simpa using h2⟩
  · have := h t ht
    rw [hw] at this; cases this

/-! ### the chain machine with the rule checks instantiated by `validBlock`

`D anc b` is any derivation of the block description from the block `b` and its OWN ancestor list `anc`
(parent first, genesis last) — nothing else is an argument.  `ContextFree D` says the sanity-stage rules do
not read the context part.  Histories `bs` are arbitrary lists of delivered blocks: orphans, unrelated
forks, duplicates and every arrival order are universally quantified. -/

section chain
open Chain Lemmas
variable {β : Type} (D : List (Blk β) → Blk β → Desc) (g : Blk β)

/-- Every block on the active chain, in every reachable state, satisfies every rule in the context of its
    own ancestors (the part of the chain below it). -/
theorem active_sound (hD : ContextFree D) (bs : List (Blk β)) :
    AllValid D g (run (oracleOf D) g bs).best :=
  allValid_of_chainOk D hD g _ (run_inv (oracleOf D) g bs).bestOk

/-- pointwise form: a block at any position of the active chain is valid given exactly the blocks below it -/
theorem active_sound_at (hD : ContextFree D) (bs : List (Blk β)) (pre : List (Blk β)) (b : Blk β)
    (anc : List (Blk β)) (h : (run (oracleOf D) g bs).best = pre ++ b :: anc) (hne : anc ≠ []) :
    validBlock (D anc b) = .ok () := by
  have hc := chainOk_suffix (oracleOf D) g pre (b :: anc) (by simp)
    (by rw [← h]; exact (run_inv (oracleOf D) g bs).bestOk)
  rcases hc with ⟨h1, _⟩ | ⟨h0, h1, h2, _⟩
  · exact absurd h1 hne
  · exact (oracle_all_iff D hD anc b).mp ⟨h0, h1, h2⟩

/-- The validity flag a node carries is `validBlock` of (block, own ancestors): a node marked valid satisfies
    every rule, a node marked failed violates one. -/
theorem verdict_is_validBlock (hD : ContextFree D) (bs : List (Blk β)) (n : Node β)
    (hn : n ∈ (run (oracleOf D) g bs).nodes) (hne : n.anc ≠ []) :
    (n.valid = true → validBlock (D n.anc n.blk) = .ok ()) ∧
    (n.failed = true → validBlock (D n.anc n.blk) ≠ .ok ()) := by
  have hi := run_inv (oracleOf D) g bs
  have hok := hi.nodeOk n hn
  unfold NodeOk at hok
  cases ha : n.anc with
  | nil => exact absurd ha hne
  | cons p rest =>
    rw [ha] at hok
    obtain ⟨h0, h1, _, _⟩ := hok
    constructor
    · intro hv
      rcases hi.validOk n hn hv with e | h2
      · exact absurd e hne
      · rw [ha] at h2
        exact (oracle_all_iff D hD (p :: rest) n.blk).mp ⟨h0, h1, h2⟩
    · intro hf hval
      have h2 := (hi.failedOk n hn hf).2
      rw [ha] at h2
      have := ((oracle_all_iff D hD (p :: rest) n.blk).mpr hval).2.2
      rw [this] at h2
      cases h2

/-- The verdict depends only on the block and its ancestor path: two arbitrary histories that both validated
    the same block on the same ancestors assigned the same flags, and that flag is `validBlock`. -/
theorem verdict_depends_only_on_ancestors (hD : ContextFree D) (bs₁ bs₂ : List (Blk β)) (n₁ n₂ : Node β)
    (h₁ : n₁ ∈ (run (oracleOf D) g bs₁).nodes) (h₂ : n₂ ∈ (run (oracleOf D) g bs₂).nodes)
    (hb : n₁.blk = n₂.blk) (ha : n₁.anc = n₂.anc) (hne : n₁.anc ≠ [])
    (c₁ : (n₁.valid || n₁.failed) = true) (c₂ : (n₂.valid || n₂.failed) = true) :
    n₁.valid = n₂.valid ∧ n₁.failed = n₂.failed ∧
      (n₁.valid = true ↔ validBlock (D n₁.anc n₁.blk) = .ok ()) := by
  have v₁ := verdict_is_validBlock D g hD bs₁ n₁ h₁ hne
  have v₂ := verdict_is_validBlock D g hD bs₂ n₂ h₂ (by rw [← ha]; exact hne)
  rw [← ha, ← hb] at v₂
  cases hv1 : n₁.valid <;> cases hf1 : n₁.failed <;> cases hv2 : n₂.valid <;> cases hf2 : n₂.failed <;>
    simp_all

/-- The ancestor path itself is a function of the block: if block hashes are collision free over everything
    delivered in two arbitrary histories, both record the same ancestors for the same block. -/
theorem anc_depends_only_on_block (O : Oracle β) (bs₁ bs₂ : List (Blk β))
    (hinj : ∀ a ∈ g :: (bs₁ ++ bs₂), ∀ b ∈ g :: (bs₁ ++ bs₂), a.hash = b.hash → a = b)
    (n₁ n₂ : Node β) (h₁ : n₁ ∈ (run O g bs₁).nodes) (h₂ : n₂ ∈ (run O g bs₂).nodes)
    (hb : n₁.blk = n₂.blk) : n₁.anc = n₂.anc := by
  have w₁ := run_within O g bs₁ (g :: (bs₁ ++ bs₂)) List.mem_cons_self
    (fun b hb => List.mem_cons_of_mem _ (List.mem_append_left _ hb))
  have w₂ := run_within O g bs₂ (g :: (bs₁ ++ bs₂)) List.mem_cons_self
    (fun b hb => List.mem_cons_of_mem _ (List.mem_append_right _ hb))
  exact (anc_unique O g _ hinj (run_inv O g bs₁) (run_inv O g bs₂) w₁ w₂ n₁.anc n₁ n₂ h₁ h₂ rfl hb).symm

/-- Hence the verdict depends only on the block (hash collisions aside): unrelated blocks, orphans, forks and
    the arrival order — everything in which the two histories may differ — cannot change it. -/
theorem verdict_depends_only_on_block (hD : ContextFree D) (bs₁ bs₂ : List (Blk β))
    (hinj : ∀ a ∈ g :: (bs₁ ++ bs₂), ∀ b ∈ g :: (bs₁ ++ bs₂), a.hash = b.hash → a = b)
    (n₁ n₂ : Node β) (h₁ : n₁ ∈ (run (oracleOf D) g bs₁).nodes) (h₂ : n₂ ∈ (run (oracleOf D) g bs₂).nodes)
    (hb : n₁.blk = n₂.blk) (hne : n₁.anc ≠ [])
    (c₁ : (n₁.valid || n₁.failed) = true) (c₂ : (n₂.valid || n₂.failed) = true) :
    n₁.valid = n₂.valid ∧ n₁.failed = n₂.failed ∧
      (n₁.valid = true ↔ validBlock (D n₁.anc n₁.blk) = .ok ()) :=
  verdict_depends_only_on_ancestors D g hD bs₁ bs₂ n₁ n₂ h₁ h₂ hb
    (anc_depends_only_on_block g (oracleOf D) bs₁ bs₂ hinj n₁ n₂ h₁ h₂ hb) hne c₁ c₂

/-- The reorganisation path applies the same check as the tip-extension path: whichever of the two validated a
    node, its flags are the value of the connect-stage oracle on the node's own ancestors (and never both). -/
theorem reorg_path_same_checks (bs : List (Blk β)) (O : Oracle β) (n : Node β)
    (hn : n ∈ (run O g bs).nodes) (hne : n.anc ≠ []) (c : (n.valid || n.failed) = true) :
    n.valid = O.connOk n.anc n.blk ∧ n.failed = !O.connOk n.anc n.blk := by
  have hi := run_inv O g bs
  cases hv : n.valid <;> cases hf : n.failed
  · simp [hv, hf] at c
  · have := (hi.failedOk n hn hf).2
    simp [this]
  · rcases hi.validOk n hn hv with e | h
    · exact absurd e hne
    · simp [h]
  · rcases hi.validOk n hn hv with e | h
    · exact absurd e hne
    · have := (hi.failedOk n hn hf).2
      rw [h] at this; cases this

/-- Whatever is indexed passed the sanity and context stages on its own ancestors. -/
theorem indexed_sound (bs : List (Blk β)) (O : Oracle β) (n : Node β)
    (hn : n ∈ (run O g bs).nodes) (hne : n.anc ≠ []) :
    O.sane n.blk = true ∧ O.ctxOk n.anc n.blk = true := by
  have hok := (run_inv O g bs).nodeOk n hn
  unfold NodeOk at hok
  cases ha : n.anc with
  | nil => exact absurd ha hne
  | cons p rest =>
    rw [ha] at hok
    obtain ⟨h0, h1, _, _⟩ := hok
    exact ⟨h0, by first | exact h1 | (rw [ha]; exact h1)⟩

/-- Completeness of storage (partial: "accepted" is shown as "indexed on its ancestors and never marked failed
    unless the connect stage really fails"; that a valid block with more work always *becomes* active also
    needs chain selection, which is property C02).  A new block whose parent is indexed and not known invalid
    and which passes the sanity and context stages is indexed by `step`. -/
theorem stored_complete_partial (bs : List (Blk β)) (O : Oracle β) (b : Blk β) (p : Node β)
    (hnew : lookup (run O g bs) b.hash = none)
    (hno : (run O g bs).orphans.any (fun o => o.hash == b.hash) = false)
    (hp : lookup (run O g bs) b.parent = some p) (hpf : p.failed = false) (hpi : p.invalidAnc = false)
    (hs : O.sane b = true) (hc : O.ctxOk (p.blk :: p.anc) b = true) :
    ∃ n ∈ (run O g (bs ++ [b])).nodes, n.blk = b ∧ n.anc = p.blk :: p.anc ∧
      (n.failed = true → O.connOk n.anc n.blk = false) ∧
      (O.connOk n.anc n.blk = true → n.failed = false) := by
  have hrun : run O g (bs ++ [b]) = (step O (run O g bs) b).1 := by
    unfold run; rw [List.foldl_append]; rfl
  have hi' : Inv O g (run O g (bs ++ [b])) := run_inv O g _
  have key : ∃ n ∈ (step O (run O g bs) b).1.nodes, n.blk = b ∧ n.anc = p.blk :: p.anc := by
    have acc := accept_indexed O hnew hp hpf hpi hc
    unfold step
    rw [hnew, hno, hp]
    simp only [Option.isSome_none, Bool.or_self, Bool.false_eq_true, if_false, hs, Bool.not_true,
      Option.isNone_some]
    split
    · exact acc.1
    · obtain ⟨n, hn, e1, e2⟩ := acc.1
      obtain ⟨n', hn', e3, e4⟩ := processOrphans_grows O _ _ _ n hn
      exact ⟨n', hn', by rw [e3, e1], by rw [e4, e2]⟩
  obtain ⟨n, hn, e1, e2⟩ := key
  rw [← hrun] at hn
  refine ⟨n, hn, e1, e2, fun hf => (hi'.failedOk n hn hf).2, fun hconn => ?_⟩
  cases hf : n.failed with
  | false => rfl
  | true => have := (hi'.failedOk n hn hf).2; rw [hconn] at this; cases this

/-- The invalid-ancestor mark is sound: it is only ever put on a node one of whose ancestors really fails the
    connect-stage check on its own ancestors. -/
theorem invalid_ancestor_sound (bs : List (Blk β)) (O : Oracle β) (n : Node β)
    (hn : n ∈ (run O g bs).nodes) (hia : n.invalidAnc = true) : HasBad O n.anc :=
  run_invA O g bs n hn hia

/-- Every block that satisfies the rules is accepted: in every reachable state, a new block whose parent is
    indexed and which — like each of its ancestors — satisfies every rule on its own ancestors is never rejected
    by `ProcessBlock` (it is connected or kept as a side-chain block; which of the two is chain selection, C02). -/
theorem valid_block_accepted (hD : ContextFree D) (bs : List (Blk β)) (b : Blk β) (p : Node β)
    (hnew : lookup (run (oracleOf D) g bs) b.hash = none)
    (hno : (run (oracleOf D) g bs).orphans.any (fun o => o.hash == b.hash) = false)
    (hp : lookup (run (oracleOf D) g bs) b.parent = some p)
    (hv : AllValid D g (b :: p.blk :: p.anc)) :
    (step (oracleOf D) (run (oracleOf D) g bs) b).2 = .mainChain ∨
    (step (oracleOf D) (run (oracleOf D) g bs) b).2 = .sideChain := by
  have hc := chainOk_of_allValid D hD g _ hv
  have hi := run_inv (oracleOf D) g bs
  have ha := run_invA (oracleOf D) g bs
  have acc := accept_complete (oracleOf D) g hi ha hnew hp hc
  have hs : (oracleOf D).sane b = true := by
    rcases hc with ⟨h, _⟩ | ⟨h, _⟩
    · cases h
    · exact h
  unfold step
  rw [hnew, hno, hp]
  simp only [Option.isSome_none, Bool.or_self, Bool.false_eq_true, if_false, hs, Bool.not_true,
    Option.isNone_some]
  rcases acc with h | h
  · rw [h]; left; rfl
  · rw [h]; right; rfl

end chain

/-! ### each numeric rule holds exactly up to its limit (for every description) -/

theorem weight_limit_exact (d : Desc) (h : d.segwit = true) :
    ruleOk .weight d = true ↔ d.weight ≤ 4000000 := by
  simp only [ruleOk, h, MAX_BLOCK_WEIGHT, Bool.not_true, Bool.false_or]
  exact decide_eq_true_iff

theorem weight_boundary (d : Desc) (h : d.segwit = true) :
    (d.weight = 4000000 → ruleOk .weight d = true) ∧ (d.weight = 4000001 → ruleOk .weight d = false) := by
  constructor
  · intro e; rw [weight_limit_exact d h]; omega
  · intro e
    cases hr : ruleOk .weight d with
    | false => rfl
    | true => have := (weight_limit_exact d h).mp hr; omega

theorem base_size_limit_exact (d : Desc) : ruleOk .baseSize d = true ↔ d.B.strippedSize ≤ 1000000 := by
  simp only [ruleOk, MAX_BLOCK_BASE_SIZE]
  exact decide_eq_true_iff

theorem sigop_limit_exact (d : Desc) : ruleOk .sigopsCost d = true ↔ d.sigopCost ≤ 80000 := by
  simp only [ruleOk, MAX_BLOCK_SIGOPS_COST]
  exact decide_eq_true_iff

theorem sigop_boundary (d : Desc) :
    (d.sigopCost = 80000 → ruleOk .sigopsCost d = true) ∧ (d.sigopCost = 80001 → ruleOk .sigopsCost d = false) := by
  constructor
  · intro e; rw [sigop_limit_exact d]; omega
  · intro e
    cases hr : ruleOk .sigopsCost d with
    | false => rfl
    | true => have := (sigop_limit_exact d).mp hr; omega

theorem coinbase_script_len_exact (d : Desc) :
    ruleOk .cbScriptLen d = true ↔
      ∀ t ∈ d.B.txs, t.isCoinbase = true → 2 ≤ t.script0Len ∧ t.script0Len ≤ 100 := by
  simp only [ruleOk, MIN_COINBASE_SCRIPT_LEN, MAX_COINBASE_SCRIPT_LEN, List.all_eq_true, Bool.or_eq_true,
    Bool.not_eq_true', Bool.and_eq_true]
  constructor
  · intro h t ht hc
    rcases h t ht with h1 | h1
    · rw [hc] at h1; cases h1
    · exact ⟨decide_eq_true_iff.mp h1.1, decide_eq_true_iff.mp h1.2⟩
  · intro h t ht
    cases hc : t.isCoinbase with
    | false => exact Or.inl rfl
    | true => exact Or.inr ⟨decide_eq_true_iff.mpr (h t ht hc).1, decide_eq_true_iff.mpr (h t ht hc).2⟩

theorem timestamp_bounds_exact (d : Desc) :
    (ruleOk .timeOld d = true ↔ d.C.prevMTP < d.H.time) ∧
    (ruleOk .timeNew d = true ↔ d.H.time ≤ d.C.now + 7200) := by
  simp only [ruleOk, MAX_FUTURE_BLOCK_TIME]
  exact ⟨decide_eq_true_iff, decide_eq_true_iff⟩


theorem maturity_exact (d : Desc) :
    ruleOk .immature d = true ↔
      ∀ t ∈ d.B.txs, t.isCoinbase = false → ∀ i ∈ t.ins, i.avail = true → i.isCb = true →
        d.P.maturity ≤ d.C.height - i.originHeight := by
  simp only [ruleOk, List.all_eq_true, List.mem_filter, Bool.or_eq_true, Bool.not_eq_true',
    Bool.and_eq_false_iff, and_imp]
  constructor
  · intro h t ht hc i hi ha hcb
    rcases h t ht (by simp [hc]) i hi with (h1 | h1) | h1
    · rw [ha] at h1; cases h1
    · rw [hcb] at h1; cases h1
    · exact decide_eq_true_iff.mp h1
  · intro h t ht hc i hi
    have hc' : t.isCoinbase = false := by simpa using hc
    cases ha : i.avail with
    | false => exact Or.inl (Or.inl rfl)
    | true =>
      cases hcb : i.isCb with
      | false => exact Or.inl (Or.inr rfl)
      | true => exact Or.inr (decide_eq_true_iff.mpr (h t ht hc' i hi ha hcb))

theorem coinbase_value_exact (d : Desc) (cb : TxFacts) (rest : List TxFacts) (h : d.B.txs = cb :: rest) :
    ruleOk .coinbaseValue d = true ↔
      cb.outSum ≤ subsidy d.C.height d.P.subsidyInterval + sumInt (d.B.txs.map (·.fee)) := by
  simp only [ruleOk, h]
  exact decide_eq_true_iff

theorem max_money_exact (d : Desc) :
    ruleOk .outValue d = true ↔
      ∀ t ∈ d.B.txs, (∀ v ∈ t.outs, 0 ≤ v ∧ v ≤ 2100000000000000) ∧
        0 ≤ t.outSum ∧ t.outSum ≤ 2100000000000000 := by
  simp only [ruleOk, moneyRange, MAX_MONEY, List.all_eq_true, Bool.and_eq_true]
  constructor
  · intro h t ht
    obtain ⟨h1, h2, h3⟩ := h t ht
    exact ⟨fun v hv => ⟨decide_eq_true_iff.mp (h1 v hv).1, decide_eq_true_iff.mp (h1 v hv).2⟩,
      decide_eq_true_iff.mp h2, decide_eq_true_iff.mp h3⟩
  · intro h t ht
    obtain ⟨h1, h2, h3⟩ := h t ht
    exact ⟨fun v hv => ⟨decide_eq_true_iff.mpr (h1 v hv).1, decide_eq_true_iff.mpr (h1 v hv).2⟩,
      decide_eq_true_iff.mpr h2, decide_eq_true_iff.mpr h3⟩

theorem timewarp_exact (d : Desc) (h94 : d.P.bip94 = true)
    (hfirst : Int.tmod d.C.height d.P.blocksPerRetarget = 0) :
    ruleOk .timewarp d = true ↔ d.C.prevTime - 600 ≤ d.H.time := by
  simp only [ruleOk, h94, hfirst, MAX_TIMEWARP, Bool.not_true, Bool.false_or, ne_eq, not_true_eq_false,
    decide_false]
  exact decide_eq_true_iff

theorem version_gate_exact (d : Desc) :
    ruleOk .version d = true ↔
      ¬ ((d.H.version < 2 ∧ d.P.bip34H ≤ d.C.height) ∨ (d.H.version < 3 ∧ d.P.bip66H ≤ d.C.height) ∨
         (d.H.version < 4 ∧ d.P.bip65H ≤ d.C.height)) := by
  simp only [ruleOk, Bool.not_eq_true', Bool.or_eq_false_iff, Bool.and_eq_false_iff, decide_eq_false_iff_not,
    not_or, not_and]
  constructor
  · rintro ⟨⟨h1, h2⟩, h3⟩
    refine ⟨fun a b => ?_, fun a b => ?_, fun a b => ?_⟩
    · rcases h1 with h | h <;> omega
    · rcases h2 with h | h <;> omega
    · rcases h3 with h | h <;> omega
  · rintro ⟨h1, h2, h3⟩
    refine ⟨⟨?_, ?_⟩, ?_⟩
    · by_cases a : d.H.version < 2
      · exact Or.inr (h1 a)
      · exact Or.inl a
    · by_cases a : d.H.version < 3
      · exact Or.inr (h2 a)
      · exact Or.inl a
    · by_cases a : d.H.version < 4
      · exact Or.inr (h3 a)
      · exact Or.inl a

/-- BIP68 height lock on one input: spendable iff its age reaches the masked sequence value -/
theorem seqlock_height_exact (i : InFacts) (height mtp : Int)
    (hen : i.seq / SEQ_LOCKTIME_DISABLE % 2 = 0) (hty : i.seq / SEQ_LOCKTIME_TYPE % 2 = 0) :
    i.seqLockOk height mtp = true ↔ ((i.seq % 65536 : Nat) : Int) ≤ height - i.originHeight := by
  unfold InFacts.seqLockOk
  simp only [hen, hty, SEQ_LOCKTIME_MASK]
  constructor
  · intro h
    have := decide_eq_true_iff.mp h
    omega
  · intro h
    apply decide_eq_true_iff.mpr
    omega

/-- BIP68 time lock on one input, in 512-second units against the two median times -/
theorem seqlock_time_exact (i : InFacts) (height mtp : Int)
    (hen : i.seq / SEQ_LOCKTIME_DISABLE % 2 = 0) (hty : i.seq / SEQ_LOCKTIME_TYPE % 2 = 1) :
    i.seqLockOk height mtp = true ↔ ((i.seq % 65536 : Nat) : Int) * 512 ≤ mtp - i.originPrevMTP := by
  unfold InFacts.seqLockOk
  simp only [hen, hty, SEQ_LOCKTIME_MASK, SEQ_LOCKTIME_GRANULARITY]
  constructor
  · intro h
    have := decide_eq_true_iff.mp h
    omega
  · intro h
    apply decide_eq_true_iff.mpr
    omega

/-- the proof-of-work rules are C09's `checkProofOfWork` on the same numbers -/
theorem pow_rules_are_c09 (d : Desc) (hash : List UInt8)
    (ht : d.H.target = BV.C09.compactToBig d.H.bits) (hh : d.H.hashNum = BV.C09.hashToBig hash) :
    (ruleOk .powTarget d = true ∧ ruleOk .powHash d = true) ↔
      BV.C09.checkProofOfWork d.H.bits hash d.P.powLimit = .ok := by
  simp only [ruleOk, Bool.and_eq_true, ht, hh]
  unfold BV.C09.checkProofOfWork
  simp only []
  constructor
  · rintro ⟨⟨h1, h2⟩, h3⟩
    have h1 := decide_eq_true_iff.mp h1
    have h2 := decide_eq_true_iff.mp h2
    have h3 := decide_eq_true_iff.mp h3
    rw [if_neg (by omega), if_neg (by omega), if_neg (by omega)]
  · intro h
    split at h
    · cases h
    · split at h
      · cases h
      · split at h
        · cases h
        · exact ⟨⟨decide_eq_true_iff.mpr (by omega), decide_eq_true_iff.mpr (by omega)⟩,
            decide_eq_true_iff.mpr (by omega)⟩

/-- the subsidy is C09's `calcBlockSubsidy` -/
theorem subsidy_is_c09 (height interval : Int) :
    subsidy height interval = (BV.C09.calcBlockSubsidy height interval : Int) := by
  unfold subsidy BV.C09.calcBlockSubsidy
  by_cases h0 : interval = 0
  · rw [if_pos h0, if_pos h0]; rfl
  · rw [if_neg h0, if_neg h0]
    dsimp only
    by_cases h1 : Int.tdiv height interval < 0
    · rw [if_pos h1, if_pos h1]; rfl
    · rw [if_neg h1, if_neg h1]
      by_cases h2 : Int.tdiv height interval ≥ 64
      · have h3 : (Int.tdiv height interval).toNat ≥ 64 := by omega
        rw [if_pos h2, if_pos h3]; rfl
      · have h3 : ¬ (Int.tdiv height interval).toNat ≥ 64 := by omega
        rw [if_neg h2, if_neg h3, Nat.shiftRight_eq_div_pow]
        unfold BASE_SUBSIDY BV.C09.Spec.BASE_SUBSIDY
        rw [Int.natCast_ediv]
        rfl


/-! ### btcd's accumulating loops (int64 wrap-around, early exit) decide the declarative rules -/

/-- `last := acc; acc += x; if acc < last || acc > limit {err}` over non-negative int64 summands decides
    exactly "the total does not exceed the limit" (the overflow guard never lets a wrapped total through). -/
theorem go_acc_loop_exact (limit : Int) (hl : limit < 2 ^ 63) (xs : List Int) (acc : Int)
    (h0 : 0 ≤ acc) (h1 : acc ≤ limit) (hx : ∀ x ∈ xs, 0 ≤ x ∧ x < 2 ^ 63) :
    Loops.accLoop limit xs acc = decide (acc + sumInt xs ≤ limit) :=
  Loops.accLoop_eq limit hl xs acc h0 h1 hx

/-- the output loop of `CheckTransactionSanity` is the per-transaction clause of rule `outValue` -/
theorem go_output_loop_is_rule (t : TxFacts) :
    Loops.goOutputs t.outs 0 = (t.outs.all moneyRange && moneyRange t.outSum) :=
  Loops.outputs_loop_is_rule t

/-- the sigop accumulators of `checkBlockSanity` / `checkConnectBlock` are the rule `total ≤ 80000` -/
theorem go_sigop_loop_is_rule (costs : List Int) (h : ∀ c ∈ costs, 0 ≤ c ∧ c < 2 ^ 63) :
    Loops.goSigops costs = decide (sumInt costs ≤ MAX_BLOCK_SIGOPS_COST) :=
  Loops.sigops_loop_is_rule costs h

/-- the fee accumulator of `checkConnectBlock` (guard `totalFees < lastTotalFees`) is rule `feeRange` -/
theorem go_fee_loop_is_rule (fees : List Int) (h : ∀ f ∈ fees, 0 ≤ f ∧ f < 2 ^ 63) :
    Loops.goFees fees = decide (sumInt fees ≤ INT64_MAX) :=
  Loops.fees_loop_is_rule fees h

example : Loops.goOutputs [2100000000000000] 0 = true ∧ Loops.goOutputs [2100000000000000, 1] 0 = false ∧
    Loops.goOutputs [-1] 0 = false := by decide

/-! ### the stand-alone exported checks (mirrors used by the `api` / `txs` ops) against the rule predicates -/

/-- `CheckTransactionSanity` (mirror `txSanityClass`, compared with the real function on every `api`/`txs` case)
    answers "ok" exactly when the transaction-level sanity rules hold for the transaction. -/
theorem go_check_tx_sanity_is_rules (t : TxFacts) :
    txSanityClass t = "ok" ↔
      (t.ins.isEmpty = false ∧ t.outs.isEmpty = false ∧ t.strippedSize ≤ MAX_BLOCK_BASE_SIZE ∧
       (t.outs.all moneyRange && moneyRange t.outSum) = true ∧ t.dupInputs = false ∧
       (t.isCoinbase = true → MIN_COINBASE_SCRIPT_LEN ≤ t.script0Len ∧ t.script0Len ≤ MAX_COINBASE_SCRIPT_LEN) ∧
       (t.isCoinbase = false → t.ins.any (·.null) = false)) :=
  ApiLemmas.txSanity_ok_iff t

/-- The input loop of `CheckTransactionInputs` (mirror `inputsLoop`) succeeds exactly when every input exists, is
    not null, is mature if it is a coinbase output, has an amount in the money range and the total stays in
    range; the value returned is the total (the rule clauses missingInput, immature, inValue for one tx). -/
theorem go_input_loop_is_rules (height maturity : Int) (ins : List InFacts) (acc tot : Int)
    (h0 : 0 ≤ acc) (h1 : acc ≤ MAX_MONEY) :
    inputsLoop height maturity ins acc = .ok tot ↔
      (∀ i ∈ ins, i.avail = true ∧ i.null = false ∧
          (i.isCb = true → maturity ≤ height - i.originHeight) ∧ moneyRange i.amount = true) ∧
      acc + sumInt (ins.map (·.amount)) ≤ MAX_MONEY ∧ tot = acc + sumInt (ins.map (·.amount)) :=
  ApiLemmas.inputsLoop_ok_iff height maturity ins acc tot h0 h1

/-! ### BIP34: `ExtractCoinbaseHeight` / `CheckSerializedHeight` on the script bytes -/

/-- For every height a block can have (0 ≤ h < 2^31) the canonical push of the height — what `AddInt64` emits —
    followed by anything is read back as that height. -/
theorem bip34_height_roundtrip (h : Nat) (hh : h < 2147483648) (rest : List Nat) :
    extractHeight (pushInt (h : Int) ++ rest) = .ok (h : Int) :=
  Height.extractHeight_canonical h hh rest

/-- `CheckSerializedHeight` accepts a canonical coinbase script exactly for its own height. -/
theorem bip34_check_exact (h : Nat) (hh : h < 2147483648) (rest : List Nat) (want : Int) :
    checkSerializedHeight (pushInt (h : Int) ++ rest) want = decide ((h : Int) = want) :=
  Height.checkSerializedHeight_canonical h hh rest want

/-- Whatever height is extracted, the script starts with the canonical (minimal) push of that height: a
    non-minimal or truncated encoding is never accepted. -/
theorem bip34_extract_sound (s : List Nat) (h : Int) (hs : extractHeight s = .ok h) :
    isPrefixOf (pushInt h) s = true :=
  Height.extractHeight_sound s h hs

example : checkSerializedHeight [3, 0x40, 0x0d, 0x03, 0x51] 200000 = true ∧
    checkSerializedHeight [2, 0x09, 0x00] 9 = false ∧ checkSerializedHeight [4, 0x09, 0x00] 9 = false ∧
    checkSerializedHeight [0x60] 16 = true ∧ checkSerializedHeight [1, 0x10] 16 = false := by decide

/-! ### position independence -/

/-- Everything the rules read from the inputs of a transaction is independent of the position of the inputs
    (the violating input may be first, in the middle or last). -/
theorem tx_predicates_position_independent (t : TxFacts) (ins' : List InFacts) (h : t.ins.Perm ins')
    (height cutoff mtp : Int) (p2sh segwit : Bool) (p : InFacts → Bool) :
    let t' : TxFacts := { t with ins := ins' }
    t'.isCoinbase = t.isCoinbase ∧ t'.allAvail = t.allAvail ∧ t'.inSum = t.inSum ∧ t'.fee = t.fee ∧
    t'.final height cutoff = t.final height cutoff ∧ t'.seqLocksOk height mtp = t.seqLocksOk height mtp ∧
    t'.sigopCost p2sh segwit = t.sigopCost p2sh segwit ∧ ins'.all p = t.ins.all p :=
  PermLemmas.tx_predicates_position_independent t ins' h height cutoff mtp p2sh segwit p

/-! ### the clock -/

/-- the description with the node's clock moved -/
def Desc.atTime (d : Desc) (now : Int) : Desc := { d with C := { d.C with now := now } }

/-- `timeNew` is the only rule that reads the clock -/
theorem only_timeNew_reads_clock (d : Desc) (now : Int) (r : Rule) (hr : r ≠ .timeNew) :
    ruleOk r (d.atTime now) = ruleOk r d := by
  cases r <;> first | exact absurd rfl hr | rfl

/-- a block that is valid stays valid when the clock advances; a block rejected ONLY for being too far in the
    future becomes valid once the clock has caught up (a rejection for time must leave no trace) -/
theorem valid_when_clock_advances (d : Desc) (now : Int) (hnow : d.C.now ≤ now) (h : Valid d) : Valid (d.atTime now) := by
  intro r
  by_cases hr : r = .timeNew
  · subst hr
    have := h .timeNew
    simp only [ruleOk, Desc.atTime] at this ⊢
    have h1 := decide_eq_true_iff.mp this
    exact decide_eq_true_iff.mpr (by omega)
  · rw [only_timeNew_reads_clock d now r hr]; exact h r

theorem future_block_valid_later (d : Desc) (h : ∀ r, r ≠ .timeNew → ruleOk r d = true) :
    Valid (d.atTime (d.H.time - MAX_FUTURE_BLOCK_TIME)) := by
  intro r
  by_cases hr : r = .timeNew
  · subst hr
    simp only [ruleOk, Desc.atTime]
    exact decide_eq_true_iff.mpr (by omega)
  · rw [only_timeNew_reads_clock d _ r hr]; exact h r hr

/-! ### composition: the description derived from raw bytes through the sibling models (C08, C09, C13, C03, C14) -/

section raw
open Raw RawLemmas

/-- Every fact of the derived description is the sibling model's function of the decoded raw data: height = length
    of the ancestor chain, median time past and expected bits = C09 on the ancestor headers, target = C09's
    compact expansion, hash number = C09 `hashToBig` of C08's block hash, merkle comparison = C13's merkle root of
    C08's txids, per-transaction facts = fold over C03's utxo set of the block's own ancestors. -/
theorem raw_facts_are_sibling_specs (n : Net) (now : Int) (anc : List BV.C08.Block) (blk : BV.C08.Block) (len : Nat)
    (bits : List (List (Bool × Nat))) :
    (describe n now anc blk len bits).C.height = anc.length ∧
    (describe n now anc blk len bits).C.prevMTP = BV.C09.calcPastMedianTime (chain09 anc) ∧
    (describe n now anc blk len bits).C.expectedBits =
      (BV.C09.calcNextRequiredDifficulty n.pow (chain09 anc) (hdrTime blk.1)).getD 0 ∧
    (describe n now anc blk len bits).H.target = BV.C09.compactToBig (hdrBits blk.1) ∧
    (describe n now anc blk len bits).H.hashNum = BV.C09.hashToBig (BV.C08.blockHash blk.1) ∧
    (describe n now anc blk len bits).B.merkleOk =
      (hdrMerkle blk.1 == BV.C13.Spec.mroot hashPair zero32 (blk.2.map BV.C08.txid)) ∧
    (describe n now anc blk len bits).B.txs =
      txsFacts anc.length (chain09 anc) (BV.C03.Spec.utxoOf ((anc.drop 1).filterMap block03)) blk.2 bits ∧
    (describe n now anc blk len bits).B.commit = commitStatus blk.2 ∧
    (describe n now anc blk len bits).B.totalSize = len :=
  ⟨rfl, rfl, rfl, rfl, rfl, rfl, rfl, rfl, rfl⟩

/-- the deployment gates of the derived description are C14's state of the deployment on the ancestor headers -/
theorem raw_deployments_are_c14 (n : Net) (now : Int) (anc : List BV.C08.Block) (blk : BV.C08.Block) (len : Nat)
    (bits : List (List (Bool × Nat))) (hne : anc ≠ []) :
    (describe n now anc blk len bits).csv = (BV.C14.Spec.state n.vb n.csv (node14 anc) == .active) ∧
    (describe n now anc blk len bits).segwit = (BV.C14.Spec.state n.vb n.seg (node14 anc) == .active) ∧
    (describe n now anc blk len bits).taproot = (BV.C14.Spec.state n.vb n.tap (node14 anc) == .active) := by
  have hl : (1 : Int) ≤ (anc.length : Int) := by
    cases anc with
    | nil => exact absurd rfl hne
    | cons a r => simp only [List.length_cons]; omega
  have key : ∀ (d : BV.C14.Dep),
      deployed (if active14 n d anc then (1 : Int) else 0) (anc.length : Int) =
        (BV.C14.Spec.state n.vb d (node14 anc) == .active) := by
    intro d
    unfold deployed active14
    cases BV.C14.Spec.state n.vb d (node14 anc) == .active
    · simp
    · simp [hl]
  exact ⟨key n.csv, key n.seg, key n.tap⟩

/-- the proof-of-work rules on the derived description are C09's `checkProofOfWork` on C08's header hash -/
theorem raw_pow_is_c09 (n : Net) (now : Int) (anc : List BV.C08.Block) (blk : BV.C08.Block) (len : Nat)
    (bits : List (List (Bool × Nat))) :
    (ruleOk .powTarget (describe n now anc blk len bits) = true ∧
      ruleOk .powHash (describe n now anc blk len bits) = true) ↔
    BV.C09.checkProofOfWork (hdrBits blk.1) (BV.C08.blockHash blk.1) n.pow.powLimit = .ok :=
  pow_rules_are_c09 (describe n now anc blk len bits) (BV.C08.blockHash blk.1) rfl rfl

/-- the finality rule is C13's `isFinal` (Core's `IsFinalTx`) on the same lock time, sequences, height and cutoff -/
theorem finality_rule_is_c13 (t : TxFacts) (lt : Nat) (hlt : t.lockTime = (lt : Int)) (height cutoff : Int) :
    t.final height cutoff = BV.C13.Spec.isFinal lt (t.ins.map (·.seq)) height cutoff :=
  C13Lemmas.final_is_c13 t lt hlt height cutoff

/-- the BIP68 rule on the inputs of a transaction is C13's `CalculateSequenceLocks` / `EvaluateSequenceLocks` -/
theorem bip68_rule_is_c13 (ins : List InFacts) (height mtp : Int) (hh : 0 ≤ height) (hm : 0 ≤ mtp) :
    ins.all (fun i => i.seqLockOk height mtp) = true ↔
      BV.C13.Spec.locksSatisfied (BV.C13.Spec.sequenceLocks true (ins.map C13Lemmas.seqInput)).1
        (BV.C13.Spec.sequenceLocks true (ins.map C13Lemmas.seqInput)).2 height mtp = true :=
  C13Lemmas.seqLocks_all_is_c13 ins height mtp hh hm

/-- the sigop facts of a derived transaction are C13's counters on C08's decoded scripts, the spent scripts coming
    from C03's utxo set -/
theorem raw_sigops_are_c13 (u : BV.C03.Spec.UtxoSet) (c : List BV.C09.Hdr) (t : BV.C08.Tx) (bits : List (Bool × Nat)) :
    (txFacts u c t bits).legacySigops =
      (((t.2.1.map (fun i => BV.C13.Spec.sigOps false i.2.2.1)).sum +
        (t.2.2.1.map (fun o => BV.C13.Spec.sigOps false o.2)).sum : Nat) : Int) := rfl

/-- the sanity stage of the derived description does not read the ancestors -/
theorem raw_context_free (n : Net) (now : Int) : Lemmas.ContextFree (DRaw n now) := contextFree_raw n now

/-- **The verdict from raw data.**  With the chain machine run on raw blocks (serialized bytes + script oracle
    pairs) and the rule checks instantiated by `validBlock ∘ deriveD`, the flag a node receives — in ANY two
    delivery histories — is `validBlock` of the description derived, through the sibling models, from the block's
    own bytes, the bytes of its own ancestors, the network parameters and the clock, and from nothing else. -/
theorem validBlock_from_raw (n : Net) (now : Int) (g : Chain.Blk RawBody) (bs₁ bs₂ : List (Chain.Blk RawBody))
    (n₁ n₂ : Chain.Node RawBody)
    (h₁ : n₁ ∈ (Chain.run (Lemmas.oracleOf (DRaw n now)) g bs₁).nodes)
    (h₂ : n₂ ∈ (Chain.run (Lemmas.oracleOf (DRaw n now)) g bs₂).nodes)
    (hb : n₁.blk = n₂.blk) (ha : n₁.anc = n₂.anc) (hne : n₁.anc ≠ [])
    (c₁ : (n₁.valid || n₁.failed) = true) (c₂ : (n₂.valid || n₂.failed) = true) :
    n₁.valid = n₂.valid ∧ n₁.failed = n₂.failed ∧
      (n₁.valid = true ↔
        validBlock (deriveD ⟨n, now, (n₁.anc.map (fun a => a.body.1)).reverse, n₁.blk.body.1, n₁.blk.body.2⟩) = .ok ()) :=
  verdict_depends_only_on_ancestors (DRaw n now) g (contextFree_raw n now) bs₁ bs₂ n₁ n₂ h₁ h₂ hb ha hne c₁ c₂

/-- … and, hash collisions aside, of the block's own bytes alone. -/
theorem validBlock_from_raw_block (n : Net) (now : Int) (g : Chain.Blk RawBody) (bs₁ bs₂ : List (Chain.Blk RawBody))
    (hinj : ∀ a ∈ g :: (bs₁ ++ bs₂), ∀ b ∈ g :: (bs₁ ++ bs₂), a.hash = b.hash → a = b)
    (n₁ n₂ : Chain.Node RawBody)
    (h₁ : n₁ ∈ (Chain.run (Lemmas.oracleOf (DRaw n now)) g bs₁).nodes)
    (h₂ : n₂ ∈ (Chain.run (Lemmas.oracleOf (DRaw n now)) g bs₂).nodes)
    (hb : n₁.blk = n₂.blk) (hne : n₁.anc ≠ [])
    (c₁ : (n₁.valid || n₁.failed) = true) (c₂ : (n₂.valid || n₂.failed) = true) :
    n₁.valid = n₂.valid ∧ n₁.failed = n₂.failed ∧
      (n₁.valid = true ↔ validBlock (DRaw n now n₁.anc n₁.blk) = .ok ()) :=
  verdict_depends_only_on_block (DRaw n now) g (contextFree_raw n now) bs₁ bs₂ hinj n₁ n₂ h₁ h₂ hb hne c₁ c₂

/-- every block on the active chain of the raw machine satisfies every rule on the description derived from
    its own bytes and the bytes of the blocks below it -/
theorem active_sound_raw (n : Net) (now : Int) (g : Chain.Blk RawBody) (bs : List (Chain.Blk RawBody)) :
    Lemmas.AllValid (DRaw n now) g (Chain.run (Lemmas.oracleOf (DRaw n now)) g bs).best :=
  active_sound (DRaw n now) g (contextFree_raw n now) bs

/-- completeness on raw data: a new raw block whose parent is indexed and whose whole path — derived from the
    bytes — satisfies every rule is never rejected -/
theorem valid_block_accepted_raw (n : Net) (now : Int) (g : Chain.Blk RawBody) (bs : List (Chain.Blk RawBody))
    (b : Chain.Blk RawBody) (p : Chain.Node RawBody)
    (hnew : Chain.lookup (Chain.run (Lemmas.oracleOf (DRaw n now)) g bs) b.hash = none)
    (hno : (Chain.run (Lemmas.oracleOf (DRaw n now)) g bs).orphans.any (fun o => o.hash == b.hash) = false)
    (hp : Chain.lookup (Chain.run (Lemmas.oracleOf (DRaw n now)) g bs) b.parent = some p)
    (hv : Lemmas.AllValid (DRaw n now) g (b :: p.blk :: p.anc)) :
    (Chain.step (Lemmas.oracleOf (DRaw n now)) (Chain.run (Lemmas.oracleOf (DRaw n now)) g bs) b).2 = .mainChain ∨
    (Chain.step (Lemmas.oracleOf (DRaw n now)) (Chain.run (Lemmas.oracleOf (DRaw n now)) g bs) b).2 = .sideChain :=
  valid_block_accepted (DRaw n now) g (contextFree_raw n now) bs b p hnew hno hp hv

end raw

/-! ### non-vacuity -/

def exCoinbase : TxFacts :=
  { version := 1, lockTime := 0, ins := [⟨true, 0xffffffff, false, false, 0, 0, 0, 0, 0, false, 0⟩],
    outs := [5000000000], strippedSize := 100, dupInputs := false, script0Len := 5, legacySigops := 0,
    hasWitness := false, overwrites := false }

def exDesc : Desc :=
  { P := ⟨1, 1, 1, 1, 1, 1, false, 100, 150, 2 ^ 255 - 1, 2016, false⟩
    C := ⟨9, 1000, 1100, 0x207fffff, 5000⟩
    H := ⟨0x20000000, 0x207fffff, 1700, 0x7fffff * 2 ^ 232, 5⟩
    B := ⟨200, 236, [exCoinbase], true, false, 0, 9⟩ }

/-- a concrete description that satisfies every rule, and one satoshi more in the coinbase breaks exactly one -/
example : Valid exDesc := (Lemmas.firstViolation_none exDesc).mp (by decide)
example : firstViolation { exDesc with B := { exDesc.B with txs := [{ exCoinbase with outs := [5000000001] }] } }
    = some .coinbaseValue := by decide
example : violated { exDesc with B := { exDesc.B with txs := [{ exCoinbase with outs := [5000000001] }] } }
    = [.coinbaseValue] := by decide

section
open Chain Lemmas
/-- a derivation that ignores the context is context free: the hypothesis of the chain theorems is satisfiable -/
example : ContextFree (fun (_ : List (Blk Unit)) (_ : Blk Unit) => exDesc) := fun _ _ => rfl

def exO : Oracle Unit := ⟨fun _ => true, fun _ _ => true, fun _ b => b.hash != 5⟩
def exB (h p : Nat) : Blk Unit := ⟨h, p, 1, ()⟩
/-- G(0) ← 1 ← 2 on the main chain; 4 arrives before its parent 3 (orphan), 3 ← 4 ← 6 overtakes by reorganisation;
    5 (child of 2... delivered on the old branch) fails the connect check and never becomes active. -/
example : ((run exO (exB 0 99) [exB 1 0, exB 2 1, exB 4 3, exB 3 0, exB 6 4, exB 5 6]).best.map (·.hash)) = [6, 4, 3, 0] := by
  decide
example : ((run exO (exB 0 99) [exB 1 0, exB 2 1, exB 4 3, exB 3 0, exB 6 4, exB 5 6]).nodes.map
    (fun n => (n.blk.hash, n.valid, n.failed))) =
    [(0, true, false), (1, true, false), (2, true, false), (3, true, false), (4, true, false), (6, true, false),
     (5, false, true)] := by
  decide
end

/-! ### pinned constants (regenerated from the tree on every run) -/

theorem pin_maxBlockBaseSize : Generated.C01.maxBlockBaseSize = MAX_BLOCK_BASE_SIZE := by decide
theorem pin_maxBlockWeight : Generated.C01.maxBlockWeight = MAX_BLOCK_WEIGHT := by decide
theorem pin_maxBlockSigOpsCost : Generated.C01.maxBlockSigOpsCost = MAX_BLOCK_SIGOPS_COST := by decide
theorem pin_witnessScaleFactor : Generated.C01.witnessScaleFactor = WITNESS_SCALE_FACTOR := by decide
theorem pin_maxTimeOffsetSeconds : Generated.C01.maxTimeOffsetSeconds = MAX_FUTURE_BLOCK_TIME := by decide
theorem pin_minCoinbaseScriptLen : Generated.C01.minCoinbaseScriptLen = MIN_COINBASE_SCRIPT_LEN := by decide
theorem pin_maxCoinbaseScriptLen : Generated.C01.maxCoinbaseScriptLen = MAX_COINBASE_SCRIPT_LEN := by decide
theorem pin_maxSatoshi : Generated.C01.maxSatoshi = MAX_MONEY := by decide
theorem pin_lockTimeThreshold : Generated.C01.lockTimeThreshold = LOCKTIME_THRESHOLD := by decide
theorem pin_bip16Activation : Generated.C01.bip16Activation = BIP16_SWITCH_TIME := by decide
theorem pin_seqDisabled : Generated.C01.sequenceLockTimeDisabled = (SEQ_LOCKTIME_DISABLE : Int) := by decide
theorem pin_seqIsSeconds : Generated.C01.sequenceLockTimeIsSeconds = (SEQ_LOCKTIME_TYPE : Int) := by decide
theorem pin_seqMask : Generated.C01.sequenceLockTimeMask = (SEQ_LOCKTIME_MASK : Int) := by decide
theorem pin_seqGranularity : Generated.C01.sequenceLockTimeGranularity = (SEQ_LOCKTIME_GRANULARITY : Int) := by decide
theorem pin_baseSubsidy : Generated.C01.baseSubsidy = BASE_SUBSIDY := by decide
theorem pin_maxTimeWarp : Generated.C01.maxTimeWarpSecs = MAX_TIMEWARP := by decide
theorem pin_bip30Limit : Generated.C01.bip34ReenableBIP30Height = BIP34_IMPLIES_BIP30_LIMIT := by decide
/-- BIP34 applies to block versions ≥ 2 (the literal in rule `bip34Height`), the MTP window is C09's 11 -/
theorem pin_heightVersion : Generated.C01.serializedHeightVersion = 2 := by decide
theorem pin_medianTimeBlocks : Generated.C01.medianTimeBlocks = (BV.C09.Spec.MEDIAN_TIME_SPAN : Int) := by decide
/-- the witness nonce is 32 bytes and the commitment script 38 (what the harness's own commitment check uses) -/
theorem pin_witnessNonceLen : Generated.C01.coinbaseWitnessDataLen = 32 := by decide
theorem pin_witnessCommitLen : Generated.C01.coinbaseWitnessPkScriptLength = 38 := by decide
theorem pin_seqFinal : Generated.C01.maxTxInSequenceNum = (SEQUENCE_FINAL : Int) := by decide

end BV.C01
