import BV.C01.Model
namespace BV.C01.Height
open BV.C01

theorem isPrefixOf_append : ∀ (a b : List Nat), isPrefixOf a (a ++ b) = true
  | [], _ => rfl
  | x :: xs, b => by simp [isPrefixOf, isPrefixOf_append xs b]

/-- a data push whose first four bytes decode to `h` and which IS the canonical push of `h` is read back as `h` -/
theorem extract_push (op : Nat) (data rest : List Nat) (h : Nat)
    (hlen : data.length = op) (h1 : 1 ≤ op) (h4 : op ≤ 4)
    (hdec : data.getD 0 0 + 256 * data.getD 1 0 + 65536 * data.getD 2 0 + 16777216 * data.getD 3 0 = h)
    (hh : h < 2147483648) (hpush : pushInt (h : Int) = op :: data) :
    extractHeight (op :: data ++ rest) = .ok (h : Int) := by
  show extractHeight (op :: (data ++ rest)) = _
  unfold extractHeight
  dsimp only
  rw [if_neg (by omega), if_neg (by omega)]
  rw [if_neg (by rw [List.length_append]; omega)]
  have ht : ((data ++ rest).take op).take 4 = data := by
    rw [← hlen, List.take_left']
    · exact List.take_of_length_le (by omega)
    · rfl
  rw [ht, hdec]
  have hu : (if h ≥ 2147483648 then (h : Int) - 4294967296 else (h : Int)) = (h : Int) := if_neg (by omega)
  rw [hu, hpush]
  have : isPrefixOf (op :: data) (op :: (data ++ rest)) = true := isPrefixOf_append (op :: data) rest
  rw [this]; rfl

theorem snb_nonneg (h : Nat) (bs : List Nat) (hm : magBytes h = bs) :
    scriptNumBytes (h : Int) = if bs.getLastD 0 ≥ 128 then bs ++ [0] else bs := by
  unfold scriptNumBytes
  simp only [Int.natAbs_natCast, hm]
  have : ¬ ((h : Int) < 0) := by omega
  simp only [this, if_false]

theorem pushInt_big (h : Nat) (h17 : 17 ≤ h) : pushInt (h : Int) = (scriptNumBytes h).length :: scriptNumBytes h := by
  unfold pushInt
  rw [if_neg (by omega), if_neg (by omega)]

/-- For every height a block can have, the canonical BIP34 push (what `AddInt64` emits), followed by anything,
    is read back by `ExtractCoinbaseHeight` as that height. -/
theorem extractHeight_canonical (h : Nat) (hh : h < 2147483648) (rest : List Nat) :
    extractHeight (pushInt (h : Int) ++ rest) = .ok (h : Int) := by
  by_cases h0 : h = 0
  · subst h0; rfl
  by_cases h16 : h ≤ 16
  · have : pushInt (h : Int) = [0x50 + h] := by
      unfold pushInt
      rw [if_neg (by omega), if_pos (Or.inr ⟨by omega, by omega⟩)]
      congr 1 <;> omega
    rw [this]
    show extractHeight ((0x50 + h) :: rest) = _
    unfold extractHeight
    dsimp only
    rw [if_neg (by omega), if_pos ⟨by omega, by omega⟩]
    congr 1 <;> omega
  have h17 : 17 ≤ h := by omega
  by_cases r1 : h < 128
  · have hm : magBytes h = [h] := by unfold magBytes; rw [if_pos (by omega)]
    have hs : scriptNumBytes (h : Int) = [h] := by
      rw [snb_nonneg h _ hm]; simp only [List.getLastD_cons, List.getLastD_nil]; rw [if_neg (by omega)]
    have hp : pushInt (h : Int) = 1 :: [h] := by rw [pushInt_big h h17, hs]; rfl
    rw [hp]
    exact extract_push 1 [h] rest h rfl (by omega) (by omega) (by simp) hh hp
  by_cases r2 : h < 256
  · have hm : magBytes h = [h] := by unfold magBytes; rw [if_pos (by omega)]
    have hs : scriptNumBytes (h : Int) = [h, 0] := by
      rw [snb_nonneg h _ hm]; simp only [List.getLastD_cons, List.getLastD_nil]; rw [if_pos (by omega)]; rfl
    have hp : pushInt (h : Int) = 2 :: [h, 0] := by rw [pushInt_big h h17, hs]; rfl
    rw [hp]
    exact extract_push 2 [h, 0] rest h rfl (by omega) (by omega) (by simp) hh hp
  by_cases r3 : h < 32768
  · have hm : magBytes h = [h % 256, h / 256] := by
      unfold magBytes; rw [if_neg (by omega), if_pos (by omega)]
    have hs : scriptNumBytes (h : Int) = [h % 256, h / 256] := by
      rw [snb_nonneg h _ hm]; simp only [List.getLastD_cons, List.getLastD_nil]; rw [if_neg (by omega)]
    have hp : pushInt (h : Int) = 2 :: [h % 256, h / 256] := by rw [pushInt_big h h17, hs]; rfl
    rw [hp]
    exact extract_push 2 _ rest h rfl (by omega) (by omega) (by simp; omega) hh hp
  by_cases r4 : h < 65536
  · have hm : magBytes h = [h % 256, h / 256] := by
      unfold magBytes; rw [if_neg (by omega), if_pos (by omega)]
    have hs : scriptNumBytes (h : Int) = [h % 256, h / 256, 0] := by
      rw [snb_nonneg h _ hm]; simp only [List.getLastD_cons, List.getLastD_nil]; rw [if_pos (by omega)]; rfl
    have hp : pushInt (h : Int) = 3 :: [h % 256, h / 256, 0] := by rw [pushInt_big h h17, hs]; rfl
    rw [hp]
    exact extract_push 3 _ rest h rfl (by omega) (by omega) (by simp; omega) hh hp
  by_cases r5 : h < 8388608
  · have hm : magBytes h = [h % 256, h / 256 % 256, h / 65536] := by
      unfold magBytes; rw [if_neg (by omega), if_neg (by omega), if_pos (by omega)]
    have hs : scriptNumBytes (h : Int) = [h % 256, h / 256 % 256, h / 65536] := by
      rw [snb_nonneg h _ hm]; simp only [List.getLastD_cons, List.getLastD_nil]; rw [if_neg (by omega)]
    have hp : pushInt (h : Int) = 3 :: [h % 256, h / 256 % 256, h / 65536] := by rw [pushInt_big h h17, hs]; rfl
    rw [hp]
    exact extract_push 3 _ rest h rfl (by omega) (by omega) (by simp; omega) hh hp
  by_cases r6 : h < 16777216
  · have hm : magBytes h = [h % 256, h / 256 % 256, h / 65536] := by
      unfold magBytes; rw [if_neg (by omega), if_neg (by omega), if_pos (by omega)]
    have hs : scriptNumBytes (h : Int) = [h % 256, h / 256 % 256, h / 65536, 0] := by
      rw [snb_nonneg h _ hm]; simp only [List.getLastD_cons, List.getLastD_nil]; rw [if_pos (by omega)]; rfl
    have hp : pushInt (h : Int) = 4 :: [h % 256, h / 256 % 256, h / 65536, 0] := by
      rw [pushInt_big h h17, hs]; rfl
    rw [hp]
    exact extract_push 4 _ rest h rfl (by omega) (by omega) (by simp; omega) hh hp
  · have hm : magBytes h = [h % 256, h / 256 % 256, h / 65536 % 256, h / 16777216] := by
      unfold magBytes; rw [if_neg (by omega), if_neg (by omega), if_neg (by omega)]
    have hs : scriptNumBytes (h : Int) = [h % 256, h / 256 % 256, h / 65536 % 256, h / 16777216] := by
      rw [snb_nonneg h _ hm]; simp only [List.getLastD_cons, List.getLastD_nil]; rw [if_neg (by omega)]
    have hp : pushInt (h : Int) = 4 :: [h % 256, h / 256 % 256, h / 65536 % 256, h / 16777216] := by
      rw [pushInt_big h h17, hs]; rfl
    rw [hp]
    exact extract_push 4 _ rest h rfl (by omega) (by omega) (by simp; omega) hh hp

/-- hence `CheckSerializedHeight` accepts the canonical coinbase script of the block's own height and rejects it
    for any other wanted height -/
theorem checkSerializedHeight_canonical (h : Nat) (hh : h < 2147483648) (rest : List Nat) (want : Int) :
    checkSerializedHeight (pushInt (h : Int) ++ rest) want = decide ((h : Int) = want) := by
  unfold checkSerializedHeight
  rw [extractHeight_canonical h hh rest]
  show ((h : Int) == want) = decide ((h : Int) = want)
  by_cases e : (h : Int) = want
  · simp [e]
  · simp [e]

/-- whatever height `ExtractCoinbaseHeight` returns, the script starts with the canonical push of that height -/
theorem extractHeight_sound (s : List Nat) (h : Int) (hs : extractHeight s = .ok h) :
    isPrefixOf (pushInt h) s = true := by
  unfold extractHeight at hs
  cases s with
  | nil => cases hs
  | cons op rest =>
    dsimp only at hs
    split at hs
    · rename_i h0
      cases hs
      subst h0
      rfl
    · split at hs
      · rename_i hr
        cases hs
        have : pushInt ((op : Int) - 0x50) = [op] := by
          unfold pushInt
          rw [if_neg (by omega), if_pos (Or.inr ⟨by omega, by omega⟩)]
          congr 1 <;> omega
        rw [this]
        simp [isPrefixOf]
      · split at hs
        · cases hs
        · generalize (if (List.take 4 (List.take op rest)).getD 0 0 + 256 * (List.take 4 (List.take op rest)).getD 1 0 +
              65536 * (List.take 4 (List.take op rest)).getD 2 0 +
              16777216 * (List.take 4 (List.take op rest)).getD 3 0 ≥ 2147483648 then
            (((List.take 4 (List.take op rest)).getD 0 0 + 256 * (List.take 4 (List.take op rest)).getD 1 0 +
              65536 * (List.take 4 (List.take op rest)).getD 2 0 +
              16777216 * (List.take 4 (List.take op rest)).getD 3 0 : Nat) : Int) - 4294967296
            else (((List.take 4 (List.take op rest)).getD 0 0 + 256 * (List.take 4 (List.take op rest)).getD 1 0 +
              65536 * (List.take 4 (List.take op rest)).getD 2 0 +
              16777216 * (List.take 4 (List.take op rest)).getD 3 0 : Nat) : Int)) = H at hs
          by_cases hp : isPrefixOf (pushInt H) (op :: rest) = true
          · rw [if_pos hp] at hs
            cases hs
            exact hp
          · rw [if_neg hp] at hs
            cases hs

end BV.C01.Height
