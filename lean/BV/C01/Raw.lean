/-
C01 Raw — the block description DERIVED from raw data through the sibling models, instead of being supplied
as facts:

  C08  wire codec: decoding of the serialized blocks, txid / wtxid / block hash, serialized sizes
  C09  compact target, hash as a number, median time past, expected difficulty bits (subsidy: `subsidy_is_c09`)
  C13  merkle root, witness commitment, signature-operation counts, BIP34 height
  C03  the utxo set as the fold of the block's OWN ancestor chain (and of the earlier transactions of the block)
  C14  deployment state (CSV, segwit, taproot) on the ancestor header chain

Input: network parameters, the node's clock, the serialized ancestor chain (genesis first), the serialized
candidate, and one oracle pair per input for the script verdict (the interpreter is C06's subject).
Core-only, executable.
-/
import BV.Common.Hex
import BV.Common.Sha256
import BV.C08.Model
import BV.C09.Model
import BV.C13.Model
import BV.C03.Spec
import BV.C14.Spec
import BV.C01.Spec
namespace BV.C01.Raw
open BV.C01

abbrev Bytes := List UInt8

/-- what `chaincfg.Params` fixes -/
structure Net where
  bip34H : Int
  bip65H : Int
  bip66H : Int
  vb : BV.C14.Net
  csv : BV.C14.Dep
  seg : BV.C14.Dep
  tap : BV.C14.Dep
  bip94 : Bool
  maturity : Int
  subsidyInterval : Int
  pow : BV.C09.Params
  bip34Hash : Option Bytes

structure Input where
  net : Net
  now : Int
  anc : List Bytes                       -- serialized ancestor blocks, genesis first
  blk : Bytes                            -- serialized candidate
  scripts : List (List (Bool × Nat))     -- per transaction, per input: (failsAlways, failsUnder)

/-! ### C08: decoding, ids, sizes -/

def decBlock (b : Bytes) : Option BV.C08.Block :=
  match (BV.C08.block .witness).dec b with
  | .ok (blk, []) => some blk
  | _ => none

def dsha (b : Bytes) : Bytes := BV.Sha256.hash2List b
def zero32 : Bytes := List.replicate 32 0
def idNat (h : Bytes) : Nat := BV.Hex.leToNat h

def txStrippedSize (t : BV.C08.Tx) : Nat :=
  ((BV.Codec.u32le).enc t.1 ++ BV.C08.txBodyBase.enc t.2).length

def hdrVersion (h : BV.C08.BlockHeader) : Nat := h.1
def hdrPrev (h : BV.C08.BlockHeader) : Bytes := h.2.1
def hdrMerkle (h : BV.C08.BlockHeader) : Bytes := h.2.2.1
def hdrTime (h : BV.C08.BlockHeader) : Nat := h.2.2.2.1
def hdrBits (h : BV.C08.BlockHeader) : Nat := h.2.2.2.2.1

def toInt32 (n : Nat) : Int := if n % 2 ^ 32 < 2 ^ 31 then ((n % 2 ^ 32 : Nat) : Int) else ((n % 2 ^ 32 : Nat) : Int) - 2 ^ 32

/-! ### C13 transaction view of a C08 transaction -/

def tx13 (t : BV.C08.Tx) : BV.C13.Tx :=
  let ins := t.2.1
  let wits := t.2.2.2.1
  { version := t.1
    ins := (ins.zip (wits ++ List.replicate ins.length [])).map
      (fun (i, w) => { prevHash := i.1, prevIdx := i.2.1, script := i.2.2.1, seq := i.2.2.2, witness := w })
    outs := t.2.2.1.map (fun o => { value := o.1, pk := o.2 })
    lockTime := t.2.2.2.2 }

/-! ### C03: the utxo set of the ancestor chain -/

def int64OfNat (n : Nat) : Int := if n < 2 ^ 63 then (n : Int) else (n : Int) - 2 ^ 64

def tx03 (t : BV.C08.Tx) : BV.C03.Tx :=
  { id := idNat (BV.C08.txid t)
    ins := t.2.1.map (fun i => (idNat i.1, i.2.1))
    outs := t.2.2.1.map (fun o => { amount := int64OfNat o.1, script := o.2 }) }

def block03 (b : BV.C08.Block) : Option BV.C03.Block :=
  match b.2 with
  | [] => none
  | cb :: rest => some { id := idNat (BV.C08.blockHash b.1), cb := tx03 cb, txs := rest.map tx03 }

/-- the utxo set the candidate sees: C03's fold over the blocks above genesis of its own ancestor chain -/
def utxoOfAncestors (anc : List BV.C08.Block) : BV.C03.Spec.UtxoSet :=
  BV.C03.Spec.utxoOf ((anc.drop 1).filterMap block03)

/-! ### C09: header context -/

/-- ancestor headers, tip first, as C09 reads them -/
def chain09 (anc : List BV.C08.Block) : List BV.C09.Hdr :=
  (anc.map (fun b => (⟨(hdrTime b.1 : Int), hdrBits b.1⟩ : BV.C09.Hdr))).reverse

/-- median time past of the ancestor at height `k` (tip-first chain `c` of `n` headers, heights n-1 … 0) -/
def mtpAt (c : List BV.C09.Hdr) (k : Int) : Int :=
  if k < 0 then BV.C09.calcPastMedianTime (c.drop (c.length - 1))
  else BV.C09.calcPastMedianTime (c.drop (c.length - 1 - k.toNat))

/-! ### C14: deployment state on the ancestor header chain -/

def node14 (anc : List BV.C08.Block) : BV.C14.Node :=
  (anc.map (fun b => (⟨idNat (BV.C08.blockHash b.1), hdrVersion b.1, (hdrTime b.1 : Int)⟩ : BV.C14.Hdr))).reverse

def active14 (n : Net) (d : BV.C14.Dep) (anc : List BV.C08.Block) : Bool :=
  BV.C14.Spec.state n.vb d (node14 anc) == .active

/-! ### per-transaction facts -/

def isNull (i : BV.C08.TxIn) : Bool := i.1 == zero32 && i.2.1 == 0xffffffff

def hasDupPrev : List (Bytes × Nat) → Bool
  | [] => false
  | x :: xs => xs.contains x || hasDupPrev xs

def legacySigops (t : BV.C08.Tx) : Nat :=
  (t.2.1.map (fun i => BV.C13.Spec.sigOps false i.2.2.1)).sum + (t.2.2.1.map (fun o => BV.C13.Spec.sigOps false o.2)).sum

def inFacts (u : BV.C03.Spec.UtxoSet) (c : List BV.C09.Hdr) (i : BV.C08.TxIn) (w : List Bytes)
    (bits : Bool × Nat) : InFacts :=
  let null := isNull i
  match (if null then none else u (idNat i.1, i.2.1)) with
  | none =>
    { null := null, seq := i.2.2.2, avail := false, isCb := false, originHeight := 0, originPrevMTP := 0,
      amount := 0, p2shSigops := 0, witSigops := 0, failsAlways := bits.1, failsUnder := bits.2 }
  | some e =>
    { null := null, seq := i.2.2.2, avail := true, isCb := e.coinbase, originHeight := e.height,
      originPrevMTP := mtpAt c ((e.height : Int) - 1), amount := e.amount,
      -- Core's GetP2SHSigOpCount: only P2SH outputs count (C13's `p2shSigOps` is the generic CScript method)
      p2shSigops := if BV.C13.Spec.isP2SH e.script then BV.C13.Spec.p2shSigOps i.2.2.1 e.script else 0,
      witSigops := BV.C13.Spec.witnessSigOps i.2.2.1 e.script w,
      failsAlways := bits.1, failsUnder := bits.2 }

def txFacts (u : BV.C03.Spec.UtxoSet) (c : List BV.C09.Hdr) (t : BV.C08.Tx) (bits : List (Bool × Nat)) : TxFacts :=
  let ins := t.2.1
  let wits := t.2.2.2.1 ++ List.replicate ins.length []
  let bits := bits ++ List.replicate ins.length (false, 0)
  let id := idNat (BV.C08.txid t)
  { version := t.1
    lockTime := t.2.2.2.2
    ins := ((ins.zip wits).zip bits).map (fun ((i, w), b) => inFacts u c i w b)
    outs := t.2.2.1.map (fun o => int64OfNat o.1)
    strippedSize := txStrippedSize t
    dupInputs := hasDupPrev (ins.map (fun i => (i.1, i.2.1)))
    script0Len := match ins with | i :: _ => i.2.2.1.length | [] => 0
    legacySigops := legacySigops t
    hasWitness := BV.C08.hasWitness t.2
    overwrites := (List.range t.2.2.1.length).any (fun k => (u (id, k)).isSome) }

/-- the transactions of the candidate against the utxo set as it evolves inside the block (C03 `applyTx`; a
    coinbase-shaped transaction spends nothing) -/
def txsFacts (height : Nat) (c : List BV.C09.Hdr) :
    BV.C03.Spec.UtxoSet → List BV.C08.Tx → List (List (Bool × Nat)) → List TxFacts
  | _, [], _ => []
  | u, t :: rest, bits =>
    let f := txFacts u c t (bits.headD [])
    f :: txsFacts height c (BV.C03.Spec.applyTx height f.isCoinbase u (tx03 t)) rest (bits.drop 1)

/-! ### block-level facts (C13) -/

def hashPair (a b : Bytes) : Bytes := dsha (a ++ b)

def merkleRoot (txs : List BV.C08.Tx) : Bytes := BV.C13.Spec.mroot hashPair zero32 (txs.map BV.C08.txid)

def witnessRoot (txs : List BV.C08.Tx) : Bytes :=
  BV.C13.Spec.mroot hashPair zero32 (BV.C13.leafHashes BV.C08.txid BV.C08.wtxid zero32 true txs)

/-- 0 absent, 1 present and valid, 2 present and invalid -/
def commitStatus (txs : List BV.C08.Tx) : Nat :=
  match txs with
  | [] => 0
  | cb :: _ =>
    if (BV.C13.extractWitnessCommitment (tx13 cb)).isNone then 0
    else match BV.C13.validateWitnessCommitment dsha (some (witnessRoot txs)) (txs.map tx13) with
      | .ok => 1
      | _ => 2

def cbHeightOf (txs : List BV.C08.Tx) : Int :=
  match txs with
  | cb :: _ =>
    match cb.2.1 with
    | i :: _ => match BV.C13.extractCoinbaseHeight i.2.2.1 with | .ok h => h | _ => -1
    | [] => -1
  | [] => -1

/-! ### the derivation -/

/-- the description of a decoded candidate `blk` (of `len` serialized bytes) on the decoded ancestor chain `anc`
    (genesis first): every fact is a sibling-model function of the decoded data -/
def describe (n : Net) (now : Int) (anc : List BV.C08.Block) (blk : BV.C08.Block) (len : Nat)
    (scripts : List (List (Bool × Nat))) : Desc :=
  let hdr := blk.1
  let txs := blk.2
  let height := anc.length
  let c := chain09 anc
  let on := fun (d : BV.C14.Dep) => if active14 n d anc then (1 : Int) else 0
  { P :=
      { bip34H := n.bip34H, bip65H := n.bip65H, bip66H := n.bip66H, csvH := on n.csv, segH := on n.seg,
        tapH := on n.tap, bip94 := n.bip94, maturity := n.maturity, subsidyInterval := n.subsidyInterval,
        powLimit := n.pow.powLimit, blocksPerRetarget := n.pow.blocksPerRetarget,
        bip34HashOk := match n.bip34Hash with
          | none => false
          | some h => match anc[n.bip34H.toNat]? with
            | some a => decide (0 ≤ n.bip34H) && BV.C08.blockHash a.1 == h
            | none => false }
    C :=
      { height := height, prevMTP := BV.C09.calcPastMedianTime c,
        prevTime := match c with | h :: _ => h.time | [] => 0,
        expectedBits := (BV.C09.calcNextRequiredDifficulty n.pow c (hdrTime hdr)).getD 0, now := now }
    H :=
      { version := toInt32 (hdrVersion hdr), bits := hdrBits hdr, time := hdrTime hdr,
        target := BV.C09.compactToBig (hdrBits hdr), hashNum := BV.C09.hashToBig (BV.C08.blockHash hdr) }
    B :=
      { strippedSize := 80 + BV.Codec.varintSize txs.length + (txs.map txStrippedSize).sum, totalSize := len,
        txs := txsFacts height c (utxoOfAncestors anc) txs scripts,
        merkleOk := hdrMerkle hdr == merkleRoot txs,
        dupTxids := hasDupPrev (txs.map (fun t => (BV.C08.txid t, 0))),
        commit := commitStatus txs, cbHeight := cbHeightOf txs } }

/-- a description no block satisfies (an undecodable candidate) -/
def undecodable (n : Net) (now : Int) : Desc :=
  { P := ⟨n.bip34H, n.bip65H, n.bip66H, 0, 0, 0, n.bip94, n.maturity, n.subsidyInterval, n.pow.powLimit,
          n.pow.blocksPerRetarget, false⟩
    C := ⟨0, 0, 0, 0, now⟩
    H := ⟨0, 0, 0, 0, 0⟩
    B := ⟨0, 0, [], false, false, 0, -1⟩ }

/-- from the raw bytes: ancestors that do not decode are dropped (indexed blocks always decode), an undecodable
    candidate gets the unsatisfiable description -/
def deriveD (r : Input) : Desc :=
  match decBlock r.blk with
  | some blk => describe r.net r.now (r.anc.filterMap decBlock) blk r.blk.length r.scripts
  | none => undecodable r.net r.now

/-- strict form used by the driver: everything must decode -/
def derive (r : Input) : Option Desc := do
  let anc ← r.anc.mapM decBlock
  let blk ← decBlock r.blk
  pure (describe r.net r.now anc blk r.blk.length r.scripts)

end BV.C01.Raw
