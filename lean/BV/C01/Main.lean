import BV.Common.Loop
import BV.C01.Driver
/-! `drv_c01`: one case per input line `C01 <op> <args…>`, one canonical result line back.
Imports only core-only modules so that it links as a native executable. -/
def main : IO Unit := BV.Loop.run "C01" BV.C01.Driver.handle
