/- C01 line-protocol driver (core-only).

  C01 blk <mode> <recipe> <P> <C> <H> <B> <S> <tx>…
    mode   VC = compare verdict and rule class, V = verdict only
    recipe opaque to Lean (how the Go side rebuilds the scenario)
    P  bip34H,bip65H,bip66H,csvH,segH,tapH,bip94,maturity,subsidyInterval,powLimit(hex),blocksPerRetarget,bip34HashOk
    C  height,prevMTP,prevTime,expectedBits(hex),now
    H  version,bits(hex),time,hashNum(hex)
    B  strippedSize,totalSize,merkleOk,dupTxids,commit,cbHeight
    S  hOk,hFail,inOk,skipPow,store,nowAdd   best-chain height the scenario ends with if the candidate is valid / invalid;
                        whether a valid candidate ends on the active chain; the delivery skips the hash-vs-target
                        comparison; the delivery stores blocks (0 for a template check)
  answer: accept|reject[:classes] in=<candidate on the active chain> h=<best height> st=<candidate stored (HaveBlock)>
  C01 rblk <mode> <recipe> <net> <csv> <seg> <tap> <now> <S> <scriptbits> <block hex> <ancestor block hex, genesis first>…
       the description is DERIVED from the raw bytes through the sibling models (C08, C09, C13, C03, C14)
       net  bip34H,bip65H,bip66H,bip94,maturity,subsidyInterval,powLimit(hex),powLimitBits(hex),noRetarget,reduceMinDiff,
            minDiffReductionTime,targetTimespan,targetTimePerBlock,adjFactor,vbWindow,vbThreshold,bip34Hash(hex|-)
       dep  bit:start|-:timeout|-:minHeight:customThreshold:alwaysActive
       scriptbits  per tx "/"-separated, per input "failsAlways.failsUnder" ","-separated, ~ = no inputs
  C01 rcmp <mode> <recipe> <facts as in blk> # <raw tokens as in rblk after the recipe>
       "same" iff the harness's own facts ARE the description derived from the raw bytes
  C01 api <mode> <recipe> <same facts>   the stand-alone exported checks on the candidate, nothing delivered
  C01 par <blk|api case> | <case> | …    several cases run concurrently on separate chain instances
    tx version;lockTime;strippedSize;dupInputs;script0Len;legacySigops;hasWitness;overwrites;outs;ins
       outs  v_v_v…  (v*k = k copies), ~ = none
       ins   in/in/…  ~ = none; in = null:seq:avail:isCb:originHeight:originPrevMTP:amount:p2shSigops:witSigops:failsAlways:failsUnder
-/
import BV.Common.Hex
import BV.C09.Model
import BV.C01.Model
import BV.C01.Raw
namespace BV.C01.Driver
open BV.Hex

def pBool? (s : String) : Option Bool :=
  if s == "1" then some true else if s == "0" then some false else none

def pIn? (s : String) : Option InFacts :=
  match s.splitOn ":" with
  | [nl, sq, av, cb, oh, om, am, ps, ws, fa, fu] => do
    pure ⟨← pBool? nl, ← sq.toNat?, ← pBool? av, ← pBool? cb, ← oh.toInt?, ← om.toInt?, ← am.toInt?,
          ← ps.toInt?, ← ws.toInt?, ← pBool? fa, ← fu.toNat?⟩
  | _ => none

def pOut? (s : String) : Option (List Int) :=
  match s.splitOn "*" with
  | [v] => do pure [← v.toInt?]
  | [v, k] => do pure (List.replicate (← k.toNat?) (← v.toInt?))
  | _ => none

def pList? {α} (sep : String) (f : String → Option α) (s : String) : Option (List α) :=
  if s == "~" then some [] else (s.splitOn sep).mapM f

def pTx? (s : String) : Option TxFacts :=
  match s.splitOn ";" with
  | [ver, lt, ss, di, sl, ls, hw, ow, outs, ins] => do
    let outs ← pList? "_" pOut? outs
    pure { version := ← ver.toNat?, lockTime := ← lt.toInt?, ins := ← pList? "/" pIn? ins,
           outs := outs.flatten, strippedSize := ← ss.toInt?, dupInputs := ← pBool? di,
           script0Len := ← sl.toInt?, legacySigops := ← ls.toInt?, hasWitness := ← pBool? hw,
           overwrites := ← pBool? ow }
  | _ => none

def pParams? (s : String) : Option Params :=
  match s.splitOn "," with
  | [a, b, c, cs, sg, tp, b94, mat, si, pl, bpr, hok] => do
    pure ⟨← a.toInt?, ← b.toInt?, ← c.toInt?, ← cs.toInt?, ← sg.toInt?, ← tp.toInt?, ← pBool? b94,
          ← mat.toInt?, ← si.toInt?, ((← hexToNat? pl : Nat) : Int), ← bpr.toInt?, ← pBool? hok⟩
  | _ => none

def pCtx? (s : String) : Option Ctx :=
  match s.splitOn "," with
  | [h, m, t, eb, now] => do pure ⟨← h.toInt?, ← m.toInt?, ← t.toInt?, ← hexToNat? eb, ← now.toInt?⟩
  | _ => none

def pHeader? (s : String) : Option Header :=
  match s.splitOn "," with
  | [v, b, t, hn] => do
    let bits ← hexToNat? b
    pure ⟨← v.toInt?, bits, ← t.toInt?, BV.C09.compactToBig bits, ← hexToNat? hn⟩
  | _ => none

def pBlock? (s : String) (txs : List TxFacts) : Option BlockFacts :=
  match s.splitOn "," with
  | [ss, ts, mo, dt, cm, ch] => do
    pure ⟨← ss.toInt?, ← ts.toInt?, txs, ← pBool? mo, ← pBool? dt, ← cm.toNat?, ← ch.toInt?⟩
  | _ => none

structure Scen where
  hOk : Int
  hFail : Int
  inOk : Nat
  skipPow : Bool     -- the delivery skips the hash-vs-target comparison (BFNoPoWCheck, template check)
  store : Bool       -- the delivery stores blocks (false for a template check)

def pScen? (s : String) : Option Scen :=
  match s.splitOn "," with
  | [a, b, c, d, e, _nowAdd] => do pure ⟨← a.toInt?, ← b.toInt?, ← c.toNat?, ← pBool? d, ← pBool? e⟩
  | _ => none

def b01 (b : Bool) : String := if b then "1" else "0"

/-- the rules that apply to the delivery -/
def viol (sc : Scen) (d : Desc) : List Rule :=
  (violated d).filter (fun r => !(sc.skipPow && r == .powHash))

def answer (mode : String) (d : Desc) (sc : Scen) : String :=
  let v := viol sc d
  let stored := sc.store && (v.filter (fun r => stage r != 2)).isEmpty
  if v.isEmpty then s!"accept in={sc.inOk} h={sc.hOk} st={b01 stored}"
  else if mode == "VC" then
    s!"reject:{String.intercalate "+" (dedup (v.map Rule.cls))} in=0 h={sc.hFail} st={b01 stored}"
  else s!"reject in=0 h={sc.hFail} st={b01 stored}"

def clsOf (mode : String) (rs : List Rule) : String :=
  if rs.isEmpty then "ok"
  else if mode == "VC" then String.intercalate "+" (dedup (rs.map Rule.cls)) else "rej"

def joinC (l : List String) : String := if l.isEmpty then "~" else String.intercalate "," l

/-- the stand-alone exported checks on the candidate (nothing is delivered) -/
def apiAnswer (mode : String) (d : Desc) : String :=
  let v := violated d
  let txs := d.B.txs
  let sanity := clsOf mode (v.filter (fun r => stage r == 0))
  let hs := clsOf mode (v.filter (fun r => r == .powTarget || r == .powHash || r == .timeNew))
  let pow := clsOf mode (v.filter (fun r => r == .powTarget || r == .powHash))
  let hc := clsOf mode (v.filter (fun r => r == .bits || r == .timeOld || r == .timewarp || r == .version))
  let okRej := fun (c : String) => if mode == "VC" || c == "ok" then c else "rej"
  let tx := joinC (txs.map (fun t => okRej (txSanityClass t)))
  let fin := joinC (txs.map (fun t => b01 (t.final d.C.height d.lockCutoff)))
  let sl := joinC (txs.map (fun t =>
    -- `CalcSequenceLock` reads the CSV deployment state as of the tip, not of the next block
    if t.ins.any (fun i => !i.null && !i.avail) || (deployed d.P.csvH (d.C.height - 1) != d.csv) then "-"
    else b01 (!d.csv || t.seqLocksOk d.C.height d.C.prevMTP)))
  let scr := joinC (txs.map (fun t =>
    if t.isCoinbase || t.ins.any (fun i => i.null || !i.avail) then "-"
    else b01 (t.ins.all (fun i => i.scriptOk d.flags))))
  let ins := joinC (txs.map (fun t =>
    let r := txInputsResult t d.C.height d.P.maturity
    if mode == "VC" || r.startsWith "fee:" then r else "rej"))
  let so := joinC (txs.map (fun t => toString t.legacySigops))
  let unav := fun (t : TxFacts) => !t.isCoinbase && t.ins.any (fun i => i.null || !i.avail)
  let cost := fun (b16 sw : Bool) => joinC (txs.map (fun t => if unav t then "-" else txSigOpCostResult t b16 sw))
  let cbh := match txs with
    | t :: _ => if t.ins.isEmpty then "-" else if d.B.cbHeight = d.C.height then "ok" else "bip34"
    | [] => "-"
  let wc := match txs with
    | [] => "notx"
    | t :: _ => if t.ins.isEmpty then "tx-empty"
      else if d.B.commit == 2 then "witness"
      else if d.B.commit == 0 && txs.any (·.hasWitness) then "witness" else "ok"
  s!"sanity={sanity} hs={hs} pow={pow} hc={hc} tx={tx} fin={fin} sl={sl} in={ins} so={so} " ++
  s!"c00={cost false false} c01={cost false true} c10={cost true false} c11={cost true true} " ++
  -- `CountP2SHSigOps`: the first missing input is an error
  let p2 := joinC (txs.map (fun t =>
    if t.isCoinbase then "0"
    else if t.ins.any (fun i => i.null || !i.avail) then "-"
    else toString (sumInt (t.ins.map (·.p2shSigops)))))
  s!"w={d.weight} cbh={cbh} wc={wc} sub={subsidy d.C.height d.P.subsidyInterval} sc={scr} p2={p2} " ++
  s!"hv={b01 (decide (2 ≤ d.H.version))} val=ok"

def parseDesc? : List String → Option (Desc × Scen)
  | p :: c :: h :: b :: s :: txs =>
    match pParams? p, pCtx? c, pHeader? h, txs.mapM pTx?, pScen? s with
    | some p, some c, some h, some txs, some sc =>
      match pBlock? b txs with
      | some b => some (⟨p, c, h, b⟩, sc)
      | none => none
    | _, _, _, _, _ => none
  | _ => none

/-- split a token list at the separator token "|" -/
def splitBar : List String → List (List String)
  | [] => [[]]
  | t :: rest =>
    match splitBar rest with
    | [] => [[t]]
    | g :: gs => if t == "|" then [] :: g :: gs else (t :: g) :: gs

/-! ### raw lines: the description is derived through the sibling models (BV.C01.Raw) -/

def pOptInt? (s : String) : Option (Option Int) := if s == "-" then some none else s.toInt?.map some

def pDep? (s : String) : Option BV.C14.Dep :=
  match s.splitOn ":" with
  | [bit, st, to, mh, ct, aa] => do
    pure ⟨← bit.toNat?, ← pOptInt? st, ← pOptInt? to, ← mh.toNat?, ← ct.toNat?, ← aa.toNat?⟩
  | _ => none

def pNet? (s : String) (d1 d2 d3 : String) : Option Raw.Net :=
  match s.splitOn "," with
  | [a, b, c, b94, mat, si, pl, plb, nr, rmd, mdrt, tts, ttpb, af, vw, vt, bh] => do
    let pow : BV.C09.Params := ⟨((← hexToNat? pl : Nat) : Int), ← hexToNat? plb, ← pBool? nr, ← pBool? rmd,
      ← mdrt.toInt?, ← tts.toInt?, ← ttpb.toInt?, ← af.toInt?, ← pBool? b94⟩
    pure { bip34H := ← a.toInt?, bip65H := ← b.toInt?, bip66H := ← c.toInt?, vb := ⟨← vw.toNat?, ← vt.toNat?⟩,
           csv := ← pDep? d1, seg := ← pDep? d2, tap := ← pDep? d3, bip94 := ← pBool? b94, maturity := ← mat.toInt?,
           subsidyInterval := ← si.toInt?, pow := pow,
           bip34Hash := ← (if bh == "-" then some none else (hexToList? bh).map some) }
  | _ => none

def pBit? (s : String) : Option (Bool × Nat) :=
  match s.splitOn "." with
  | [a, b] => do pure (← pBool? a, ← b.toNat?)
  | _ => none

def pBits? (s : String) : Option (List (List (Bool × Nat))) :=
  (s.splitOn "/").mapM (fun g => pList? "," pBit? g)

def handleRaw : List String → String
  | mode :: _recipe :: net :: d1 :: d2 :: d3 :: now :: sc :: bits :: blk :: anc =>
    if mode != "VC" && mode != "V" then "bad-op" else
    match pNet? net d1 d2 d3, now.toInt?, pScen? sc, pBits? bits, hexToList? blk, anc.mapM hexToList? with
    | some n, some now, some sc, some bits, some blk, some anc =>
      match Raw.derive ⟨n, now, anc, blk, bits⟩ with
      | some d => answer mode d sc
      | none => "undecodable"
    | _, _, _, _, _, _ => "bad-op"
  | _ => "bad-op"

/-- debugging aid: the derived per-transaction sigop facts -/
def handleRawDbg : List String → String
  | _mode :: _recipe :: net :: d1 :: d2 :: d3 :: now :: _sc :: bits :: blk :: anc =>
    match pNet? net d1 d2 d3, now.toInt?, pBits? bits, hexToList? blk, anc.mapM hexToList? with
    | some n, some now, some bits, some blk, some anc =>
      match Raw.derive ⟨n, now, anc, blk, bits⟩ with
      | some d => s!"cost={d.sigopCost} p2sh={d.p2sh} seg={d.segwit} " ++ String.intercalate " " (d.B.txs.map (fun t =>
          s!"[{t.legacySigops};{t.ins.map (·.p2shSigops)};{t.ins.map (·.witSigops)};{t.ins.map (·.avail)}]"))
      | none => "undecodable"
    | _, _, _, _, _ => "bad-op"
  | _ => "bad-op"

/-- `rcmp`: the facts the harness extracted with its own arithmetic against the description derived from the raw
    bytes through the sibling models: they must be the same description (deployment gates compared as booleans) -/
def handleCmp : List String → String
  | _mode :: _recipe :: p :: c :: h :: b :: s :: rest =>
    -- rest = tx facts … "#" raw tokens
    let txToks := rest.takeWhile (· != "#")
    match parseDesc? (p :: c :: h :: b :: s :: txToks), (rest.dropWhile (· != "#")).drop 1 with
    | some (d, _), net :: d1 :: d2 :: d3 :: now :: _sc :: bits :: blk :: anc =>
      match pNet? net d1 d2 d3, now.toInt?, pBits? bits, hexToList? blk, anc.mapM hexToList? with
      | some n, some now, some bits, some blk, some anc =>
        match Raw.derive ⟨n, now, anc, blk, bits⟩ with
        | some r =>
          let diffs := (if r.C == d.C then [] else ["C"]) ++ (if r.H == d.H then [] else ["H"]) ++
            (if r.B == d.B then [] else ["B"]) ++
            (if r.csv == d.csv && r.segwit == d.segwit && r.taproot == d.taproot then [] else ["dep"]) ++
            (if r.P.bip34HashOk == d.P.bip34HashOk && r.P.powLimit == d.P.powLimit &&
                r.P.blocksPerRetarget == d.P.blocksPerRetarget then [] else ["P"])
          if diffs.isEmpty then "same" else "diff:" ++ String.intercalate "," diffs
        | none => "undecodable"
      | _, _, _, _, _ => "bad-op"
    | _, _ => "bad-op"
  | _ => "bad-op"

def handleOne : List String → String
  | "rcmp" :: rest => handleCmp rest
  | "rdbg" :: rest => handleRawDbg rest
  | "rblk" :: rest => handleRaw rest
  | "blk" :: mode :: _recipe :: rest =>
    if mode != "VC" && mode != "V" then "bad-op" else
    match parseDesc? rest with
    | some (d, sc) => answer mode d sc
    | none => "bad-op"
  | "api" :: mode :: _recipe :: rest =>
    if mode != "VC" && mode != "V" then "bad-op" else
    match parseDesc? rest with
    | some (d, _) => apiAnswer mode d
    | none => "bad-op"
  | _ => "bad-op"

def soloTx (h cut : Int) (t : TxFacts) (total : Int) : String :=
  s!"san={if txSanityClass t == "ok" then "ok" else "rej"} cb={b01 t.isCoinbase} so={t.legacySigops} fin={b01 (t.final h cut)} " ++
  s!"w={t.strippedSize * (WITNESS_SCALE_FACTOR - 1) + total}"

def cbhAnswer (script : List Nat) (want : Int) : String :=
  let e := match extractHeight script with
    | .ok h => s!"h:{h}"
    | .error _ => "rej"
  s!"{e} chk={if checkSerializedHeight script want then "ok" else "bip34"}"

def handle : List String → String
  | ["txs", h, cut, _hex, total, tx] =>
    match h.toInt?, cut.toInt?, total.toInt?, pTx? tx with
    | some h, some cut, some total, some t => soloTx h cut t total
    | _, _, _, _ => "bad-op"
  | ["cbh", script, want] =>
    match (if script == "-" then some [] else hexToList? script), want.toInt? with
    | some bs, some w => cbhAnswer (bs.map (·.toNat)) w
    | _, _ => "bad-op"
  | ["sub", h, iv] =>
    match h.toInt?, iv.toInt? with
    | some h, some iv => toString (subsidy h iv)
    | _, _ => "bad-op"
  | "par" :: rest => String.intercalate " | " ((splitBar rest).map handleOne)
  | l => handleOne l

end BV.C01.Driver
