/- C01 line-protocol driver (core-only).

  C01 blk <mode> <recipe> <P> <C> <H> <B> <S> <tx>…
    mode   VC = compare verdict and rule class, V = verdict only
    recipe opaque to Lean (how the Go side rebuilds the scenario)
    P  bip34H,bip65H,bip66H,csvH,segH,tapH,bip94,maturity,subsidyInterval,powLimit(hex),blocksPerRetarget,bip34HashOk
    C  height,prevMTP,prevTime,expectedBits(hex),now
    H  version,bits(hex),time,hashNum(hex)
    B  strippedSize,totalSize,merkleOk,dupTxids,commit,cbHeight
    S  hOk,hFail,inOk   best-chain height the scenario ends with if the candidate is valid / invalid; whether a
                        valid candidate ends on the active chain (0 for a template check, which stores nothing)
    tx version;lockTime;strippedSize;dupInputs;script0Len;legacySigops;hasWitness;overwrites;outs;ins
       outs  v_v_v…  (v*k = k copies), ~ = none
       ins   in/in/…  ~ = none; in = null:seq:avail:isCb:originHeight:originPrevMTP:amount:p2shSigops:witSigops:failsAlways:failsUnder
-/
import BV.Common.Hex
import BV.C09.Model
import BV.C01.Model
namespace BV.C01.Driver
open BV.Hex

def pBool? (s : String) : Option Bool :=
  if s == "1" then some true else if s == "0" then some false else none

def pIn? (s : String) : Option InFacts :=
  match s.splitOn ":" with
  | [nl, sq, av, cb, oh, om, am, ps, ws, fa, fu] => do
    pure ⟨← pBool? nl, ← sq.toNat?, ← pBool? av, ← pBool? cb, ← oh.toInt?, ← om.toInt?, ← am.toInt?,
          ← ps.toInt?, ← ws.toInt?, ← pBool? fa, ← fu.toNat?⟩
  | _ => none

def pOut? (s : String) : Option (List Int) :=
  match s.splitOn "*" with
  | [v] => do pure [← v.toInt?]
  | [v, k] => do pure (List.replicate (← k.toNat?) (← v.toInt?))
  | _ => none

def pList? {α} (sep : String) (f : String → Option α) (s : String) : Option (List α) :=
  if s == "~" then some [] else (s.splitOn sep).mapM f

def pTx? (s : String) : Option TxFacts :=
  match s.splitOn ";" with
  | [ver, lt, ss, di, sl, ls, hw, ow, outs, ins] => do
    let outs ← pList? "_" pOut? outs
    pure { version := ← ver.toNat?, lockTime := ← lt.toInt?, ins := ← pList? "/" pIn? ins,
           outs := outs.flatten, strippedSize := ← ss.toInt?, dupInputs := ← pBool? di,
           script0Len := ← sl.toInt?, legacySigops := ← ls.toInt?, hasWitness := ← pBool? hw,
           overwrites := ← pBool? ow }
  | _ => none

def pParams? (s : String) : Option Params :=
  match s.splitOn "," with
  | [a, b, c, cs, sg, tp, b94, mat, si, pl, bpr, hok] => do
    pure ⟨← a.toInt?, ← b.toInt?, ← c.toInt?, ← cs.toInt?, ← sg.toInt?, ← tp.toInt?, ← pBool? b94,
          ← mat.toInt?, ← si.toInt?, ((← hexToNat? pl : Nat) : Int), ← bpr.toInt?, ← pBool? hok⟩
  | _ => none

def pCtx? (s : String) : Option Ctx :=
  match s.splitOn "," with
  | [h, m, t, eb, now] => do pure ⟨← h.toInt?, ← m.toInt?, ← t.toInt?, ← hexToNat? eb, ← now.toInt?⟩
  | _ => none

def pHeader? (s : String) : Option Header :=
  match s.splitOn "," with
  | [v, b, t, hn] => do
    let bits ← hexToNat? b
    pure ⟨← v.toInt?, bits, ← t.toInt?, BV.C09.compactToBig bits, ← hexToNat? hn⟩
  | _ => none

def pBlock? (s : String) (txs : List TxFacts) : Option BlockFacts :=
  match s.splitOn "," with
  | [ss, ts, mo, dt, cm, ch] => do
    pure ⟨← ss.toInt?, ← ts.toInt?, txs, ← pBool? mo, ← pBool? dt, ← cm.toNat?, ← ch.toInt?⟩
  | _ => none

def pScen? (s : String) : Option (Int × Int × Nat) :=
  match s.splitOn "," with
  | [a, b, c] => do pure (← a.toInt?, ← b.toInt?, ← c.toNat?)
  | _ => none

def answer (mode : String) (d : Desc) (hOk hFail : Int) (inOk : Nat) : String :=
  match validBlock d with
  | .ok _ => s!"accept in={inOk} h={hOk}"
  | .error _ =>
    if mode == "VC" then s!"reject:{String.intercalate "+" (violatedClasses d)} in=0 h={hFail}"
    else s!"reject in=0 h={hFail}"

def handle : List String → String
  | "blk" :: mode :: _recipe :: p :: c :: h :: b :: s :: txs =>
    if mode != "VC" && mode != "V" then "bad-op" else
    match pParams? p, pCtx? c, pHeader? h, txs.mapM pTx?, pScen? s with
    | some p, some c, some h, some txs, some (hOk, hFail, inOk) =>
      match pBlock? b txs with
      | some b => answer mode ⟨p, c, h, b⟩ hOk hFail inOk
      | none => "bad-op"
    | _, _, _, _, _ => "bad-op"
  | _ => "bad-op"

end BV.C01.Driver
