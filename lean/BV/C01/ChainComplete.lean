/-
C01 chain machine — completeness: the invalid-ancestor mark is sound, and a block whose whole path satisfies
the checks is never rejected.
-/
import BV.C01.ChainLemmas
namespace BV.C01.Chain
variable {β : Type}

/-- some non-genesis block of the path fails the connect check on its own suffix -/
def HasBad (O : Oracle β) : List (Blk β) → Prop
  | [] => False
  | a :: suf => (suf ≠ [] ∧ O.connOk suf a = false) ∨ HasBad O suf

theorem not_hasBad_of_chainOk (O : Oracle β) (g : Blk β) : ∀ l, ChainOk O g l → ¬ HasBad O l
  | [], h, _ => h
  | a :: suf, h, hb => by
    rcases h with ⟨h1, _⟩ | ⟨_, _, h3, h4⟩
    · subst h1
      rcases hb with ⟨hne, _⟩ | hb
      · exact hne rfl
      · exact hb
    · rcases hb with ⟨_, hc⟩ | hb
      · rw [h3] at hc; cases hc
      · exact not_hasBad_of_chainOk O g suf h4 hb

/-- the invalid-ancestor mark is only put on nodes one of whose ancestors really fails -/
def InvA (O : Oracle β) (s : State β) : Prop := ∀ n ∈ s.nodes, n.invalidAnc = true → HasBad O n.anc

theorem invA_mark (O : Oracle β) {f : Node β → Node β} (hk : Keeps f) (h : Nat) {s : State β}
    (hj : ∀ n ∈ s.nodes, (upd f h n).invalidAnc = true → HasBad O n.anc) :
    InvA O (mark f h s) := by
  intro n' hn' hia
  rw [mark_nodes, List.mem_map] at hn'
  obtain ⟨n, hn, rfl⟩ := hn'
  rw [(upd_blk hk h n).2]
  exact hj n hn hia

theorem invA_mark_valid (O : Oracle β) (h : Nat) {s : State β} (ha : InvA O s) : InvA O (mark setValid h s) :=
  invA_mark O keeps_setValid h (fun n hn hia => ha n hn (by unfold upd at hia; split at hia <;> exact hia))

theorem invA_mark_failed (O : Oracle β) (h : Nat) {s : State β} (ha : InvA O s) : InvA O (mark setFailed h s) :=
  invA_mark O keeps_setFailed h (fun n hn hia => ha n hn (by unfold upd at hia; split at hia <;> exact hia))

theorem invA_mark_invAnc (O : Oracle β) (h : Nat) {s : State β} (ha : InvA O s)
    (hj : ∀ n ∈ s.nodes, n.blk.hash = h → HasBad O n.anc) : InvA O (mark setInvAnc h s) := by
  refine invA_mark O keeps_setInvAnc h ?_
  intro n hn hia
  unfold upd at hia
  split at hia
  · rename_i hh
    exact hj n hn (by simpa using hh)
  · exact ha n hn hia

/-- the node of the head of a recorded path, found by hash -/
theorem lookup_of_nodePath (O : Oracle β) (g : Blk β) {s : State β} (hi : Inv O g s) {a : Blk β}
    {rest : List (Blk β)} (hp : NodePath s (a :: rest)) :
    ∃ m, lookup s a.hash = some m ∧ m ∈ s.nodes ∧ m.blk = a ∧ m.anc = rest := by
  obtain ⟨m, hm, e⟩ := hp
  have ea : m.blk = a := by injection e
  have er : m.anc = rest := by injection e
  refine ⟨m, ?_, hm, ea, er⟩
  have := lookup_eq hi.nodup hm
  rw [ea] at this; exact this

theorem rest_ne_nil (O : Oracle β) (g : Blk β) {s : State β} (hi : Inv O g s) {a : Blk β}
    {rest : List (Blk β)} (hp : NodePath s (a :: rest)) (hb : ¬ onBest s a.hash = true) : rest ≠ [] := by
  intro hr
  obtain ⟨m, hm, e⟩ := hp
  have ea : m.blk = a := by injection e
  have er : m.anc = rest := by injection e
  have hok := hi.nodeOk m hm
  unfold NodeOk at hok
  rw [er, hr] at hok
  simp only [] at hok
  rw [← ea, hok] at hb
  exact hb (genesis_onBest O g hi)

theorem preCheck_invA (O : Oracle β) (g : Blk β) {s : State β} (hi : Inv O g s) (ha : InvA O s) :
    ∀ l, NodePath s l → InvA O (preCheck s l).1 ∧ ((preCheck s l).2 = true → HasBad O l)
  | [], _ => ⟨ha, fun h => by simp [preCheck] at h⟩
  | a :: rest, hp => by
    obtain ⟨m, hl, hm, ea, er⟩ := lookup_of_nodePath O g hi hp
    unfold preCheck
    split
    · exact ⟨ha, fun h => by cases h⟩
    · rename_i hb
      rw [hl]
      dsimp only
      split
      · rename_i hbad
        refine ⟨ha, fun _ => ?_⟩
        rw [Bool.or_eq_true] at hbad
        rcases hbad with hf | hia
        · have := hi.failedOk m hm hf
          rw [er, ea] at this
          exact Or.inl this
        · have := ha m hm hia
          rw [er] at this
          exact Or.inr this
      · have hne := rest_ne_nil O g hi hp hb
        cases hrest : rest with
        | nil => exact absurd hrest hne
        | cons p rest' =>
          have hp' : NodePath s (p :: rest') := by
            apply nodePath_tail O g hi (a := a)
            rw [← hrest]; exact hp
          have ih := preCheck_invA O g hi ha (p :: rest') hp'
          have pinv := preCheck_inv O g hi (p :: rest')
          split
          · rename_i hfound
            refine ⟨?_, fun _ => Or.inr (ih.2 hfound)⟩
            apply invA_mark_invAnc O _ ih.1
            intro n hn hh
            obtain ⟨n0, hn0, e1, e2⟩ := pinv.2.bwd n hn
            have : n0 = m := node_unique hi.nodup hn0 hm (by rw [← e1, hh, ea])
            rw [e2, this, er, hrest]
            exact ih.2 hfound
          · rename_i hnf
            exact ⟨ih.1, fun h => by cases h⟩

theorem verifyPath_invA (O : Oracle β) (g : Blk β) {s : State β} (hi : Inv O g s) (ha : InvA O s) :
    ∀ l, NodePath s l → InvA O (verifyPath O s l).1 ∧ ((verifyPath O s l).2 = false → HasBad O l)
  | [], _ => ⟨ha, fun h => by simp [verifyPath] at h⟩
  | a :: rest, hp => by
    unfold verifyPath
    split
    · exact ⟨ha, fun h => by cases h⟩
    · rename_i hb
      have hne := rest_ne_nil O g hi hp hb
      cases hrest : rest with
      | nil => exact absurd hrest hne
      | cons p rest' =>
        have hp' : NodePath s (p :: rest') := by
          apply nodePath_tail O g hi (a := a)
          rw [← hrest]; exact hp
        have ih := verifyPath_invA O g hi ha (p :: rest') hp'
        have vinv := verifyPath_inv O g hi (p :: rest') hp'
        have hpr : NodePath (verifyPath O s (p :: rest')).1 (a :: p :: rest') :=
          nodePath_sameSkel vinv.2.1 (by rw [← hrest]; exact hp)
        obtain ⟨m, hl, hm, ea, er⟩ := lookup_of_nodePath O g vinv.1 hpr
        dsimp only
        split
        · rename_i hfail
          have hfail' : (verifyPath O s (p :: rest')).2 = false := by simpa using hfail
          refine ⟨?_, fun _ => Or.inr (ih.2 hfail')⟩
          apply invA_mark_invAnc O _ ih.1
          intro n hn hh
          have : n = m := node_unique vinv.1.nodup hn hm (by rw [hh, ea])
          rw [this, er]
          exact ih.2 hfail'
        · rw [hl]
          dsimp only
          split
          · exact ⟨ih.1, fun h => by cases h⟩
          · split
            · exact ⟨invA_mark_valid O _ ih.1, fun h => by cases h⟩
            · rename_i hconn
              refine ⟨invA_mark_failed O _ ih.1, fun _ => Or.inl ⟨by simp, ?_⟩⟩
              rw [er, ea] at hconn
              simpa using hconn

theorem invA_setBest (O : Oracle β) {s : State β} (p : List (Blk β)) (ha : InvA O s) :
    InvA O { s with best := p } := ha

theorem connectBest_invA (O : Oracle β) (g : Blk β) {s : State β} (hi : Inv O g s) (ha : InvA O s)
    {n : Node β} (hn : n ∈ s.nodes) : InvA O (connectBest O s n).1 := by
  unfold connectBest
  split
  · exact ha
  · split
    · split
      · exact invA_setBest O _ (invA_mark_valid O _ ha)
      · exact invA_mark_failed O _ ha
    · split
      · exact ha
      · split
        · exact ha
        · dsimp only
          have hp : NodePath s (n.blk :: n.anc) := ⟨n, hn, rfl⟩
          have pa := preCheck_invA O g hi ha (n.blk :: n.anc) hp
          have pc := preCheck_inv O g hi (n.blk :: n.anc)
          split
          · exact pa.1
          · have hp' := nodePath_sameSkel pc.2 hp
            have va := verifyPath_invA O g pc.1 pa.1 (n.blk :: n.anc) hp'
            split
            · exact invA_setBest O _ va.1
            · exact va.1

theorem invA_addNode (O : Oracle β) {s : State β} (ha : InvA O s) (b : Blk β) (anc : List (Blk β)) (w : Nat) :
    InvA O { s with nodes := s.nodes ++ [⟨b, anc, w, false, false, false⟩] } := by
  intro n hn hia
  simp only [List.mem_append, List.mem_singleton] at hn
  rcases hn with hn | rfl
  · exact ha n hn hia
  · cases hia

theorem accept_invA (O : Oracle β) (g : Blk β) {s : State β} (hi : Inv O g s) (ha : InvA O s) {b : Blk β}
    (hs : O.sane b = true) : InvA O (accept O s b).1 := by
  unfold accept
  split
  · exact ha
  · rename_i hnew
    split
    · exact ha
    · rename_i p hp
      split
      · exact ha
      · dsimp only
        split
        · exact ha
        · rename_i hc
          have hnew' : lookup s b.hash = none := by
            cases h : lookup s b.hash with
            | none => rfl
            | some _ => rw [h] at hnew; simp at hnew
          have hc' : O.ctxOk (p.blk :: p.anc) b = true := by simpa using hc
          exact connectBest_invA O g (inv_addNode O g hi hnew' hp hs hc') (invA_addNode O ha _ _ _) (by simp)

theorem acceptAll_invA (O : Oracle β) (g : Blk β) : ∀ (ks : List (Blk β)) {s : State β}, Inv O g s → InvA O s →
    (∀ k ∈ ks, O.sane k = true) → InvA O (acceptAll O s ks).1
  | [], _, _, ha, _ => ha
  | k :: ks, s, hi, ha, hs => by
    unfold acceptAll
    dsimp only
    exact acceptAll_invA O g ks (accept_inv O g hi (hs k List.mem_cons_self))
      (accept_invA O g hi ha (hs k List.mem_cons_self)) (fun k' hk' => hs k' (List.mem_cons_of_mem _ hk'))

theorem processOrphans_invA (O : Oracle β) (g : Blk β) : ∀ (fuel : Nat) {s : State β} (hs : List Nat),
    Inv O g s → InvA O s → InvA O (processOrphans O fuel s hs)
  | 0, _, _, _, ha => ha
  | _ + 1, _, [], _, ha => ha
  | fuel + 1, s, x :: xs, hi, ha => by
    unfold processOrphans
    dsimp only
    have hi1 : Inv O g { s with orphans := s.orphans.filter (fun o => !(o.parent == x)) } :=
      ⟨hi.nodup, hi.nodeOk, hi.validOk, hi.failedOk, hi.bestNode, hi.bestOk,
        fun o ho => hi.orphSane o (List.mem_filter.mp ho).1⟩
    have hk : ∀ k ∈ s.orphans.filter (fun o => o.parent == x), O.sane k = true :=
      fun k hk => hi.orphSane k (List.mem_filter.mp hk).1
    exact processOrphans_invA O g fuel _ (acceptAll_inv O g _ hi1 hk) (acceptAll_invA O g _ hi1 ha hk)

theorem step_invA (O : Oracle β) (g : Blk β) {s : State β} (hi : Inv O g s) (ha : InvA O s) (b : Blk β) :
    InvA O (step O s b).1 := by
  unfold step
  split
  · exact ha
  · split
    · exact ha
    · rename_i hs
      have hs' : O.sane b = true := by simpa using hs
      split
      · exact ha
      · dsimp only
        split
        · exact accept_invA O g hi ha hs'
        · exact processOrphans_invA O g _ _ (accept_inv O g hi hs') (accept_invA O g hi ha hs')

theorem foldl_invA (O : Oracle β) (g : Blk β) : ∀ (bs : List (Blk β)) {s : State β}, Inv O g s → InvA O s →
    InvA O (bs.foldl (fun s b => (step O s b).1) s)
  | [], _, _, ha => ha
  | b :: bs, _, hi, ha => foldl_invA O g bs (step_inv O g hi b) (step_invA O g hi ha b)

theorem run_invA (O : Oracle β) (g : Blk β) (bs : List (Blk β)) : InvA O (run O g bs) := by
  apply foldl_invA O g bs (init_inv O g)
  intro n hn hia
  simp only [init, List.mem_singleton] at hn
  subst hn; cases hia

/-! ### a block whose whole path passes the checks is never rejected -/

theorem connectBest_complete (O : Oracle β) (g : Blk β) {s : State β} (hi : Inv O g s) (ha : InvA O s)
    {n : Node β} (hn : n ∈ s.nodes) (hconn : O.connOk n.anc n.blk = true)
    (hok : ChainOk O g (n.blk :: n.anc)) :
    (connectBest O s n).2 = .mainChain ∨ (connectBest O s n).2 = .sideChain := by
  unfold connectBest
  cases hbest : s.best with
  | nil => right; rfl
  | cons t tl =>
    dsimp only
    by_cases hpar : (n.blk.parent == t.hash) = true
    · rw [if_pos hpar, if_pos hconn]; left; rfl
    · rw [if_neg hpar]
      cases hl : lookup s t.hash with
      | none => right; rfl
      | some tn =>
        dsimp only
        by_cases hw : n.workSum ≤ tn.workSum
        · rw [if_pos hw]; right; rfl
        · rw [if_neg hw]
          have hnp : NodePath s (n.blk :: n.anc) := ⟨n, hn, rfl⟩
          have pa := preCheck_invA O g hi ha (n.blk :: n.anc) hnp
          have pc := preCheck_inv O g hi (n.blk :: n.anc)
          by_cases hbad : (preCheck s (n.blk :: n.anc)).2 = true
          · exact absurd (pa.2 hbad) (not_hasBad_of_chainOk O g _ hok)
          · rw [if_neg hbad]
            have va := verifyPath_invA O g pc.1 pa.1 (n.blk :: n.anc) (nodePath_sameSkel pc.2 hnp)
            by_cases hv : (verifyPath O (preCheck s (n.blk :: n.anc)).1 (n.blk :: n.anc)).2 = true
            · rw [if_pos hv]; left; rfl
            · have hv' : (verifyPath O (preCheck s (n.blk :: n.anc)).1 (n.blk :: n.anc)).2 = false := by
                simpa using hv
              exact absurd (va.2 hv') (not_hasBad_of_chainOk O g _ hok)

theorem accept_complete (O : Oracle β) (g : Blk β) {s : State β} (hi : Inv O g s) (ha : InvA O s)
    {b : Blk β} {p : Node β} (hnew : lookup s b.hash = none) (hp : lookup s b.parent = some p)
    (hc : ChainOk O g (b :: p.blk :: p.anc)) :
    (accept O s b).2 = .mainChain ∨ (accept O s b).2 = .sideChain := by
  have hpm := lookup_some hp
  have hok := hc
  rcases hc with ⟨h, _⟩ | ⟨hs, hctx, hconn, hrest⟩
  · cases h
  -- the parent is not known invalid
  have hpf : p.failed = false := by
    cases hf : p.failed with
    | false => rfl
    | true =>
      have := hi.failedOk p hpm.1 hf
      rcases hrest with ⟨h1, _⟩ | ⟨_, _, h3, _⟩
      · exact absurd h1 this.1
      · rw [h3] at this; cases this.2
  have hpi : p.invalidAnc = false := by
    cases hia : p.invalidAnc with
    | false => rfl
    | true =>
      have hb := ha p hpm.1 hia
      rcases hrest with ⟨h1, _⟩ | ⟨_, _, _, h4⟩
      · rw [h1] at hb; exact absurd hb (by simp [HasBad])
      · exact absurd hb (not_hasBad_of_chainOk O g _ h4)
  have hi' := inv_addNode O g hi hnew hp hs hctx
  have ha' := invA_addNode O ha b (p.blk :: p.anc) (p.workSum + b.work)
  unfold accept
  rw [hnew, hp]
  simp only [Option.isSome_none, Bool.false_eq_true, if_false, hpf, hpi, Bool.or_self, hctx, Bool.not_true]
  exact connectBest_complete O g hi' ha' (List.mem_append_right _ (List.mem_singleton.mpr rfl)) hconn hok

end BV.C01.Chain
