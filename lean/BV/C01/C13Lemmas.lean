import BV.C13.LemmasBip68
import BV.C01.Spec
namespace BV.C01.C13Lemmas
open BV.C01

/-- the finality rule is C13's `isFinal` (Core's `IsFinalTx`) on the same numbers -/
theorem final_is_c13 (t : TxFacts) (lt : Nat) (hlt : t.lockTime = (lt : Int)) (height cutoff : Int) :
    t.final height cutoff = BV.C13.Spec.isFinal lt (t.ins.map (·.seq)) height cutoff := by
  rw [Bool.eq_iff_iff]
  unfold TxFacts.final BV.C13.Spec.isFinal
  rw [hlt]
  have eT : LOCKTIME_THRESHOLD = ((BV.C13.Spec.LOCKTIME_THRESHOLD : Nat) : Int) := by decide
  have eF : SEQUENCE_FINAL = BV.C13.Spec.SEQUENCE_FINAL := by decide
  have hif : (if (lt : Int) < LOCKTIME_THRESHOLD then height else cutoff) =
      (if lt < BV.C13.Spec.LOCKTIME_THRESHOLD then height else cutoff) := by
    rw [eT]
    by_cases h : lt < BV.C13.Spec.LOCKTIME_THRESHOLD
    · rw [if_pos h, if_pos (by omega)]
    · rw [if_neg h, if_neg (by omega)]
  rw [hif, eF]
  simp only [Bool.or_eq_true, decide_eq_true_eq, List.all_eq_true, List.mem_map, forall_exists_index, and_imp,
    forall_apply_eq_imp_iff₂]
  constructor
  · rintro ((h | h) | h)
    · exact Or.inl (by omega)
    · exact Or.inr (Or.inl h)
    · exact Or.inr (Or.inr h)
  · rintro (h | h | h)
    · exact Or.inl (Or.inl (by omega))
    · exact Or.inl (Or.inr h)
    · exact Or.inr h

def seqInput (i : InFacts) : BV.C13.Spec.SeqInput := ⟨i.seq, i.originHeight, i.originPrevMTP⟩

/-- the BIP68 rule for one input is C13's `inputMature` -/
theorem seqLockOk_is_c13 (i : InFacts) (height mtp : Int) :
    i.seqLockOk height mtp = true ↔ BV.C13.Lemmas.inputMature (seqInput i) height mtp := by
  unfold InFacts.seqLockOk BV.C13.Lemmas.inputMature seqInput
  have e1 : SEQ_LOCKTIME_DISABLE = BV.C13.Spec.SEQ_DISABLE_FLAG := by decide
  have e2 : SEQ_LOCKTIME_TYPE = BV.C13.Spec.SEQ_TYPE_FLAG := by decide
  have e3 : SEQ_LOCKTIME_MASK + 1 = 65536 := by decide
  have e4 : BV.C13.Spec.SEQ_MASK + 1 = 65536 := by decide
  have e5 : (2 : Int) ^ SEQ_LOCKTIME_GRANULARITY = 512 := by decide
  have e6 : (2 : Nat) ^ BV.C13.Spec.SEQ_GRANULARITY = 512 := by decide
  rw [e1, e2, e3, e4, e5, e6]
  dsimp only
  by_cases hd : i.seq / BV.C13.Spec.SEQ_DISABLE_FLAG % 2 = 1
  · rw [if_pos hd]
    exact ⟨fun _ => Or.inl hd, fun _ => rfl⟩
  · rw [if_neg hd]
    by_cases ht : i.seq / BV.C13.Spec.SEQ_TYPE_FLAG % 2 = 1
    · rw [if_pos ht, decide_eq_true_eq]
      constructor
      · intro h
        refine Or.inr (Or.inl ⟨ht, ?_⟩)
        omega
      · intro h
        rcases h with h | ⟨_, h⟩ | ⟨h, _⟩
        · exact absurd h hd
        · omega
        · exact absurd ht h
    · rw [if_neg ht, decide_eq_true_eq]
      constructor
      · intro h
        exact Or.inr (Or.inr ⟨ht, by omega⟩)
      · intro h
        rcases h with h | ⟨h, _⟩ | ⟨_, h⟩
        · exact absurd h hd
        · exact absurd h ht
        · omega

/-- for a block at a non-negative height and median time: every input passes the BIP68 rule iff C13's
    `CalculateSequenceLocks` / `EvaluateSequenceLocks` accept the transaction -/
theorem seqLocks_all_is_c13 (ins : List InFacts) (height mtp : Int) (hh : 0 ≤ height) (hm : 0 ≤ mtp) :
    ins.all (fun i => i.seqLockOk height mtp) = true ↔
      BV.C13.Spec.locksSatisfied (BV.C13.Spec.sequenceLocks true (ins.map seqInput)).1
        (BV.C13.Spec.sequenceLocks true (ins.map seqInput)).2 height mtp = true := by
  rw [BV.C13.Lemmas.locksSatisfied_iff_all_inputs (ins.map seqInput) height mtp hh hm, List.all_eq_true]
  constructor
  · intro h x hx
    rw [List.mem_map] at hx
    obtain ⟨i, hi, rfl⟩ := hx
    exact (seqLockOk_is_c13 i height mtp).mp (h i hi)
  · intro h i hi
    exact (seqLockOk_is_c13 i height mtp).mpr (h (seqInput i) (List.mem_map_of_mem hi))

end BV.C01.C13Lemmas
