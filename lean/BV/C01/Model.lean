/-
C01 Model — the executable decision procedure.

`validBlock` walks the rules in the order btcd applies them (checkBlockSanity → checkBlockContext →
checkConnectBlock) and stops at the first one that fails, returning it.  The accumulating loops of
the Go code (output-value sum with int64 wrap-around, sigop and fee accumulators) are mirrored in
`Loops` and proved equal to the declarative rule predicates of the Spec in Lemmas.lean.
Core-only.
-/
import BV.C01.Spec
namespace BV.C01

/-- first rule (in btcd's order) that the description violates -/
def firstViolation (d : Desc) : Option Rule := Rule.all.find? (fun r => !ruleOk r d)

/-- the decision procedure -/
def validBlock (d : Desc) : Except Rule Unit :=
  match firstViolation d with
  | some r => .error r
  | none => .ok ()

/-- every violated rule -/
def violated (d : Desc) : List Rule := Rule.all.filter (fun r => !ruleOk r d)

def dedup : List String → List String
  | [] => []
  | x :: xs => if xs.contains x then dedup xs else x :: dedup xs

/-- classes of the violated rules (each once, in rule order of last occurrence) -/
def violatedClasses (d : Desc) : List String := dedup ((violated d).map Rule.cls)

end BV.C01
