/-
C01 Model — the executable decision procedure.

`validBlock` walks the rules in the order btcd applies them (checkBlockSanity → checkBlockContext →
checkConnectBlock) and stops at the first one that fails, returning it.  The accumulating loops of
the Go code (output-value sum with int64 wrap-around, sigop and fee accumulators) are mirrored in
`Loops` and proved equal to the declarative rule predicates of the Spec in Lemmas.lean.
Core-only.
-/
import BV.C01.Spec
namespace BV.C01

/-- first rule (in btcd's order) that the description violates -/
def firstViolation (d : Desc) : Option Rule := Rule.all.find? (fun r => !ruleOk r d)

/-- the decision procedure -/
def validBlock (d : Desc) : Except Rule Unit :=
  match firstViolation d with
  | some r => .error r
  | none => .ok ()

/-- every violated rule -/
def violated (d : Desc) : List Rule := Rule.all.filter (fun r => !ruleOk r d)

def dedup : List String → List String
  | [] => []
  | x :: xs => if xs.contains x then dedup xs else x :: dedup xs

/-- classes of the violated rules (each once, in rule order of last occurrence) -/
def violatedClasses (d : Desc) : List String := dedup ((violated d).map Rule.cls)

/-- 0 = checkBlockSanity (context free), 1 = checkBlockContext, 2 = checkConnectBlock -/
def stage : Rule → Nat
  | .powTarget | .powHash | .timeNew | .noTx | .baseSize | .firstCoinbase | .multiCoinbase
  | .txNoInputs | .txNoOutputs | .txTooBig | .outValue | .dupInputs | .cbScriptLen | .nullPrevout
  | .merkle | .dupTx | .sigopsLegacy => 0
  | .bits | .timeOld | .timewarp | .version | .finality | .bip34Height | .witnessCommit
  | .unexpectedWitness | .weight => 1
  | .bip30 | .missingInput | .immature | .inValue | .spendTooHigh | .feeRange | .coinbaseValue
  | .seqLocks | .scripts | .sigopsCost => 2

def stageOk (k : Nat) (d : Desc) : Bool := Rule.all.all (fun r => stage r != k || ruleOk r d)


/-- classes of the violated rules of one stage -/
def stageClasses (k : Nat) (d : Desc) : List String :=
  dedup (((violated d).filter (fun r => stage r == k)).map Rule.cls)

/-! ### the stand-alone exported checks of validate.go / weight.go / chain.go on one transaction -/

/-- `CheckTransactionSanity`: the class of the first failing check, in the code's order -/
def txSanityClass (t : TxFacts) : String :=
  if t.ins.isEmpty then "tx-empty"
  else if t.outs.isEmpty then "tx-empty"
  else if t.strippedSize > MAX_BLOCK_BASE_SIZE then "size"
  else if !(t.outs.all moneyRange && moneyRange t.outSum) then "value"
  else if t.dupInputs then "dup-inputs"
  else if t.isCoinbase then
    (if t.script0Len < MIN_COINBASE_SCRIPT_LEN || t.script0Len > MAX_COINBASE_SCRIPT_LEN then "cb-script-len" else "ok")
  else if t.ins.any (·.null) then "null-prevout"
  else "ok"

/-- the input loop of `CheckTransactionInputs`: first failing class or the running total -/
def inputsLoop (height maturity : Int) : List InFacts → Int → Except String Int
  | [], total => .ok total
  | i :: rest, total =>
    if !i.avail || i.null then .error "missing"
    else if i.isCb && decide (height - i.originHeight < maturity) then .error "immature"
    else if !moneyRange i.amount then .error "value"
    else if !moneyRange (total + i.amount) then .error "value"
    else inputsLoop height maturity rest (total + i.amount)

/-- `CheckTransactionInputs`: "fee:<n>" or the class of the first failing check -/
def txInputsResult (t : TxFacts) (height maturity : Int) : String :=
  if t.isCoinbase then "fee:0"
  else match inputsLoop height maturity t.ins 0 with
    | .error c => c
    | .ok total => if total < t.outSum then "spend" else s!"fee:{total - t.outSum}"

/-- `GetSigOpCost(tx, isCoinBase, view, bip16, segwit)`; with bip16 a missing input makes the function return
    (0, nil) — the code swallows the error of `CountP2SHSigOps` — which is mirrored here -/
def txSigOpCostResult (t : TxFacts) (bip16 segwit : Bool) : String :=
  let missing := t.ins.any (fun i => !i.avail || i.null)
  let base := t.legacySigops * WITNESS_SCALE_FACTOR
  if bip16 && !t.isCoinbase && missing then "0"
  else
    let c1 := if bip16 && !t.isCoinbase then base + sumInt (t.ins.map (·.p2shSigops)) * WITNESS_SCALE_FACTOR else base
    if segwit && !t.isCoinbase then
      (if missing then "missing" else toString (c1 + sumInt (t.ins.map (·.witSigops))))
    else toString c1

/-! ### BIP34: `ExtractCoinbaseHeight` / `CheckSerializedHeight` on the coinbase script (bytes as `Nat`s < 256) -/

/-- little-endian magnitude bytes of `m < 2^32`, without leading (most significant) zero bytes; `m ≠ 0` -/
def magBytes (m : Nat) : List Nat :=
  if m < 256 then [m]
  else if m < 65536 then [m % 256, m / 256]
  else if m < 16777216 then [m % 256, m / 256 % 256, m / 65536]
  else [m % 256, m / 256 % 256, m / 65536 % 256, m / 16777216]

/-- `scriptNum.Bytes()` for `v ≠ 0`, `|v| < 2^32`: magnitude plus sign bit (an extra byte when bit 7 is taken) -/
def scriptNumBytes (v : Int) : List Nat :=
  let b := magBytes v.natAbs
  let last := b.getLastD 0
  if last ≥ 128 then b ++ [if v < 0 then 128 else 0]
  else if v < 0 then b.dropLast ++ [last + 128] else b

/-- `ScriptBuilder.AddInt64(v).Script()` for an int32 `v`: OP_0, OP_1NEGATE / OP_1..OP_16, or a minimal data push -/
def pushInt (v : Int) : List Nat :=
  if v = 0 then [0]
  else if v = -1 ∨ (1 ≤ v ∧ v ≤ 16) then [(0x50 + v).toNat]
  else (scriptNumBytes v).length :: scriptNumBytes v

def isPrefixOf : List Nat → List Nat → Bool
  | [], _ => true
  | _ :: _, [] => false
  | a :: as, b :: bs => a == b && isPrefixOf as bs

inductive HeightErr | missing | bad
  deriving DecidableEq, Repr

/-- `ExtractCoinbaseHeight`: only the first four pushed bytes are read, then `compareScript` demands that the
    script starts with the canonical push of the value read -/
def extractHeight (s : List Nat) : Except HeightErr Int :=
  match s with
  | [] => .error .missing
  | op :: rest =>
    if op = 0 then .ok 0
    else if 0x51 ≤ op ∧ op ≤ 0x60 then .ok ((op : Int) - 0x50)
    else if rest.length < op then .error .missing
    else
      let b := (rest.take op).take 4
      let u := b.getD 0 0 + 256 * b.getD 1 0 + 65536 * b.getD 2 0 + 16777216 * b.getD 3 0
      let h : Int := if u ≥ 2147483648 then (u : Int) - 4294967296 else (u : Int)
      if isPrefixOf (pushInt h) s then .ok h else .error .bad

/-- `CheckSerializedHeight` -/
def checkSerializedHeight (s : List Nat) (want : Int) : Bool :=
  match extractHeight s with
  | .ok h => h == want
  | .error _ => false

end BV.C01
