import BV.C01.ChainLemmas
namespace BV.C01.Chain
variable {β : Type}

/-! ### everything indexed or parked was delivered -/

def Within (U : List (Blk β)) (s : State β) : Prop :=
  (∀ n ∈ s.nodes, n.blk ∈ U) ∧ (∀ o ∈ s.orphans, o ∈ U)

theorem within_sameSkel {U : List (Blk β)} {s s' : State β} (ss : SameSkel s s') (h : Within U s) :
    Within U s' := by
  constructor
  · intro n hn
    obtain ⟨m, hm, e, _⟩ := ss.bwd n hn
    rw [e]; exact h.1 m hm
  · intro o ho
    rw [ss.orphans] at ho; exact h.2 o ho

theorem within_setBest {U : List (Blk β)} {s : State β} (p : List (Blk β)) (h : Within U s) :
    Within U { s with best := p } := ⟨h.1, h.2⟩

theorem connectBest_within (O : Oracle β) {U : List (Blk β)} {s : State β} (n : Node β) (h : Within U s) :
    Within U (connectBest O s n).1 := by
  unfold connectBest
  split
  · exact h
  · split
    · split
      · exact within_setBest _ (within_sameSkel (sameSkel_mark keeps_setValid _ s) h)
      · exact within_sameSkel (sameSkel_mark keeps_setFailed _ s) h
    · split
      · exact h
      · split
        · exact h
        · dsimp only
          have pc := within_sameSkel (preCheck_sameSkel s (n.blk :: n.anc)) h
          split
          · exact pc
          · have v := within_sameSkel (verifyPath_sameSkel O (preCheck s (n.blk :: n.anc)).1 (n.blk :: n.anc)) pc
            split
            · exact within_setBest _ v
            · exact v

theorem accept_within (O : Oracle β) {U : List (Blk β)} {s : State β} {b : Blk β} (h : Within U s)
    (hb : b ∈ U) : Within U (accept O s b).1 := by
  unfold accept
  split
  · exact h
  · split
    · exact h
    · split
      · exact h
      · dsimp only
        split
        · exact h
        · apply connectBest_within
          constructor
          · intro n hn
            simp only [List.mem_append, List.mem_singleton] at hn
            rcases hn with hn | rfl
            · exact h.1 n hn
            · exact hb
          · exact h.2

theorem acceptAll_within (O : Oracle β) {U : List (Blk β)} : ∀ (ks : List (Blk β)) {s : State β},
    Within U s → (∀ k ∈ ks, k ∈ U) → Within U (acceptAll O s ks).1
  | [], _, h, _ => h
  | k :: ks, s, h, hk => by
    unfold acceptAll
    dsimp only
    exact acceptAll_within O ks (accept_within O h (hk k List.mem_cons_self))
      (fun k' hk' => hk k' (List.mem_cons_of_mem _ hk'))

theorem processOrphans_within (O : Oracle β) {U : List (Blk β)} : ∀ (fuel : Nat) {s : State β} (hs : List Nat),
    Within U s → Within U (processOrphans O fuel s hs)
  | 0, _, _, h => h
  | _ + 1, _, [], h => h
  | fuel + 1, s, x :: xs, h => by
    unfold processOrphans
    dsimp only
    apply processOrphans_within O fuel
    apply acceptAll_within O
    · exact ⟨h.1, fun o ho => h.2 o (List.mem_filter.mp ho).1⟩
    · intro k hk
      exact h.2 k (List.mem_filter.mp hk).1

theorem step_within (O : Oracle β) {U : List (Blk β)} {s : State β} {b : Blk β} (h : Within U s)
    (hb : b ∈ U) : Within U (step O s b).1 := by
  unfold step
  split
  · exact h
  · split
    · exact h
    · split
      · refine ⟨h.1, ?_⟩
        intro o ho
        simp only [List.mem_append, List.mem_singleton] at ho
        rcases ho with ho | rfl
        · exact h.2 o ho
        · exact hb
      · dsimp only
        split
        · exact accept_within O h hb
        · exact processOrphans_within O _ _ (accept_within O h hb)

theorem foldl_within (O : Oracle β) {U : List (Blk β)} : ∀ (bs : List (Blk β)) {s : State β}, Within U s →
    (∀ b ∈ bs, b ∈ U) → Within U (bs.foldl (fun s b => (step O s b).1) s)
  | [], _, h, _ => h
  | b :: bs, _, h, hb =>
    foldl_within O bs (step_within O h (hb b List.mem_cons_self)) (fun b' hb' => hb b' (List.mem_cons_of_mem _ hb'))

/-- every indexed or orphaned block is the genesis block or one of the delivered blocks (or any superset `U`) -/
theorem run_within (O : Oracle β) (g : Blk β) (bs : List (Blk β)) (U : List (Blk β)) (hg : g ∈ U)
    (hU : ∀ b ∈ bs, b ∈ U) : Within U (run O g bs) := by
  unfold run
  apply foldl_within O bs _ hU
  constructor
  · intro n hn
    simp only [init, List.mem_singleton] at hn
    subst hn; exact hg
  · intro o ho; cases ho

/-! ### the ancestor path is a function of the block -/

theorem chainOk_last (O : Oracle β) (g : Blk β) : ∀ l, ChainOk O g l → ∃ pre, l = pre ++ [g]
  | [], h => by cases h
  | b :: rest, h => by
    rcases h with ⟨h1, h2⟩ | ⟨_, _, _, h4⟩
    · exact ⟨[], by rw [h1, h2]; rfl⟩
    · obtain ⟨pre, e⟩ := chainOk_last O g rest h4
      exact ⟨b :: pre, by rw [e]; rfl⟩

theorem genesis_node (O : Oracle β) (g : Blk β) {s : State β} (hi : Inv O g s) :
    ∃ n ∈ s.nodes, n.blk = g ∧ n.anc = [] := by
  obtain ⟨pre, e⟩ := chainOk_last O g _ hi.bestOk
  obtain ⟨t, ht, hb⟩ := hi.bestNode
  have hp : NodePath s (pre ++ g :: []) := ⟨t, ht, by rw [hb, e]⟩
  obtain ⟨m, hm, em⟩ := nodePath_suffix O g hi pre g [] hp
  exact ⟨m, hm, by injection em, by injection em⟩

/-- a node carrying the genesis block is the genesis node -/
theorem anc_nil_of_genesis (O : Oracle β) (g : Blk β) {s : State β} (hi : Inv O g s) {n : Node β}
    (hn : n ∈ s.nodes) (hg : n.blk = g) : n.anc = [] := by
  obtain ⟨γ, hγ, e1, e2⟩ := genesis_node O g hi
  have := node_unique hi.nodup hn hγ (by rw [hg, e1])
  rw [this]; exact e2

/-- Under collision-freeness of the hashes of the delivered blocks, two indexes (reached by ANY two histories
    over those blocks) record the same ancestor path for the same block. -/
theorem anc_unique (O : Oracle β) (g : Blk β) (U : List (Blk β))
    (hinj : ∀ a ∈ U, ∀ b ∈ U, a.hash = b.hash → a = b)
    {s₁ s₂ : State β} (i₁ : Inv O g s₁) (i₂ : Inv O g s₂) (w₁ : Within U s₁) (w₂ : Within U s₂) :
    ∀ (l : List (Blk β)) (n₁ n₂ : Node β), n₁ ∈ s₁.nodes → n₂ ∈ s₂.nodes → n₁.anc = l → n₁.blk = n₂.blk →
      n₂.anc = l
  | [], n₁, n₂, h₁, h₂, hl, hb => by
    have hok := i₁.nodeOk n₁ h₁
    unfold NodeOk at hok
    rw [hl] at hok
    exact anc_nil_of_genesis O g i₂ h₂ (by rw [← hb]; exact hok)
  | p :: rest, n₁, n₂, h₁, h₂, hl, hb => by
    have hok₁ := i₁.nodeOk n₁ h₁
    unfold NodeOk at hok₁
    rw [hl] at hok₁
    obtain ⟨_, _, hlink₁, m₁, hm₁, e₁, r₁⟩ := hok₁
    have hok₂ := i₂.nodeOk n₂ h₂
    unfold NodeOk at hok₂
    cases ha₂ : n₂.anc with
    | nil =>
      exfalso
      rw [ha₂] at hok₂
      have : n₁.anc = [] := anc_nil_of_genesis O g i₁ h₁ (by rw [hb]; exact hok₂)
      rw [hl] at this; cases this
    | cons p₂ rest₂ =>
      rw [ha₂] at hok₂
      obtain ⟨_, _, hlink₂, m₂, hm₂, e₂, r₂⟩ := hok₂
      have hp : p = p₂ := by
        apply hinj p (by rw [← e₁]; exact w₁.1 m₁ hm₁) p₂ (by rw [← e₂]; exact w₂.1 m₂ hm₂)
        rw [← hlink₁, ← hlink₂, hb]
      have := anc_unique O g U hinj i₁ i₂ w₁ w₂ rest m₁ m₂ hm₁ hm₂ r₁ (by rw [e₁, e₂, hp])
      rw [← hp, ← r₂, this]

end BV.C01.Chain
