/-
C07 helper lemmas: signature cache soundness, HashCache map laws.
-/
import BV.C07.Model
set_option linter.unusedSimpArgs false
namespace BV.C07.CacheLemmas
open BV.C07 BV.C07.Model

/-- every cached triple passes the real verification -/
def Inv (V : Bytes → Bytes → Bytes → Bool) (c : SigCache) : Prop :=
  ∀ e ∈ c.validSigs, V e.1 e.2.sig e.2.pubKey = true

theorem inv_new (V : Bytes → Bytes → Bytes → Bool) (n : Nat) : Inv V (SigCache.new n) := by
  intro e he; simp [SigCache.new] at he

theorem mem_of_lookup {α : Type} (l : List (Bytes × α)) (k : Bytes) (v : α)
    (h : l.lookup k = some v) : (k, v) ∈ l := by
  induction l with
  | nil => simp at h
  | cons x xs ih =>
    obtain ⟨k', v'⟩ := x
    simp only [List.lookup_cons] at h
    by_cases hk : (k == k') = true
    · simp only [hk] at h
      have : k = k' := by simpa using hk
      subst this
      simp at h; subst h; simp
    · have hk' : (k == k') = false := by simpa using hk
      simp only [hk'] at h
      exact List.mem_cons_of_mem _ (ih h)

theorem exists_sound (V : Bytes → Bytes → Bytes → Bool) (c : SigCache) (hinv : Inv V c)
    (h s p : Bytes) (hex : c.exists h s p = true) : V h s p = true := by
  unfold SigCache.exists at hex
  cases hl : c.validSigs.lookup h with
  | none => simp [hl] at hex
  | some e =>
    simp only [hl, Bool.and_eq_true, beq_iff_eq] at hex
    have := hinv _ (mem_of_lookup _ _ _ hl)
    simp only at this
    rw [hex.1, hex.2] at this
    exact this

theorem inv_add (V : Bytes → Bytes → Bytes → Bool) (c : SigCache) (hinv : Inv V c)
    (victim : Nat) (h s p : Bytes) (hv : V h s p = true) : Inv V (c.add victim h s p) := by
  unfold SigCache.add
  by_cases h0 : c.maxEntries = 0
  · simp [h0]; exact hinv
  · simp only [h0, if_false]
    intro e he
    simp only [List.mem_cons] at he
    rcases he with rfl | he
    · exact hv
    · have he' := (List.mem_filter.mp he).1
      split at he'
      · exact hinv e (List.mem_of_mem_eraseIdx he')
      · exact hinv e he'

theorem verifySig_sound (V : Bytes → Bytes → Bytes → Bool) (c : SigCache) (hinv : Inv V c)
    (r : SigReq) :
    ((verifySig V c r).1 = true → V r.sigHash r.sig r.pubKey = true) ∧ Inv V (verifySig V c r).2 := by
  unfold verifySig
  by_cases hex : c.exists r.sigHash r.sig r.pubKey = true
  · simp only [hex, if_true]
    exact ⟨fun _ => exists_sound V c hinv _ _ _ hex, hinv⟩
  · by_cases hv : V r.sigHash r.sig r.pubKey = true
    · simp only [hex, hv, if_true, if_false, Bool.false_eq_true]
      exact ⟨fun _ => trivial, inv_add V c hinv _ _ _ _ hv⟩
    · simp only [hex, hv, if_false, Bool.false_eq_true]
      exact ⟨fun h => (by cases h), hinv⟩

theorem runVerify_sound (V : Bytes → Bytes → Bytes → Bool) (rs : List SigReq) :
    ∀ (c : SigCache), Inv V c → ∀ x ∈ runVerify V c rs, x.2 = true →
      V x.1.sigHash x.1.sig x.1.pubKey = true := by
  induction rs with
  | nil => intro c _ x hx; simp [runVerify] at hx
  | cons r rs ih =>
    intro c hinv x hx hres
    have hs := verifySig_sound V c hinv r
    simp only [runVerify, List.mem_cons] at hx
    rcases hx with rfl | hx
    · exact hs.1 hres
    · exact ih _ hs.2 x hx hres

/-- a cache does not change any answer: with or without it, "valid" means the real check passes,
and a passing real check is answered "valid" -/
theorem verifySig_complete (V : Bytes → Bytes → Bytes → Bool) (c : SigCache) (r : SigReq)
    (hv : V r.sigHash r.sig r.pubKey = true) : (verifySig V c r).1 = true := by
  unfold verifySig
  by_cases hex : c.exists r.sigHash r.sig r.pubKey = true <;> simp [hex, hv]

/-! ### HashCache -/

theorem hashCache_get_add (c : HashCache) (txid : Bytes) (s : SigHashes) :
    (c.add txid s).get txid = some s := by
  simp [HashCache.add, HashCache.get, List.lookup_cons]

theorem lookup_filter_ne (c : HashCache) (txid t : Bytes) (h : t ≠ txid) :
    (c.filter (fun e => e.1 != txid)).lookup t = c.lookup t := by
  induction c with
  | nil => rfl
  | cons x xs ih =>
    obtain ⟨k, v⟩ := x
    by_cases hk : k = txid
    · subst hk
      have : (t == k) = false := by simpa using h
      simp [List.filter_cons, List.lookup_cons, this, ih]
    · have hk' : (k != txid) = true := by simpa using hk
      simp only [List.filter_cons, hk', if_true, List.lookup_cons, ih]

theorem hashCache_get_add_ne (c : HashCache) (txid t : Bytes) (s : SigHashes) (h : t ≠ txid) :
    (c.add txid s).get t = c.get t := by
  have : (t == txid) = false := by simpa using h
  simp only [HashCache.add, HashCache.get, List.lookup_cons, this]
  exact lookup_filter_ne c txid t h

theorem hashCache_get_purge (c : HashCache) (txid : Bytes) : (c.purge txid).get txid = none := by
  simp only [HashCache.purge, HashCache.get]
  induction c with
  | nil => rfl
  | cons x xs ih =>
    obtain ⟨k, v⟩ := x
    by_cases hk : k = txid
    · subst hk; simp [List.filter_cons, ih]
    · have hk' : (k != txid) = true := by simpa using hk
      have hk2 : (txid == k) = false := by
        simp; exact fun h => hk h.symm
      simp only [List.filter_cons, hk', if_true, List.lookup_cons, hk2, ih]

end BV.C07.CacheLemmas
