/-
C07 helper lemmas: model = spec for the three digest forms, cache = no cache.
-/
import BV.C07.Spec
import BV.C07.Model
import BV.C07.SerLemmas
set_option linter.unusedSimpArgs false
namespace BV.C07.Lemmas
open BV.C07 BV.C07.Spec BV.C07.Model

/-! ### hash type predicates -/

theorem acp_false_iff (ht : UInt32) : acp ht = false ↔ (ht &&& 0x80) = 0 := by
  simp [acp]
theorem acp_true_iff (ht : UInt32) : acp ht = true ↔ (ht &&& 0x80) ≠ 0 := by
  simp [acp]
theorem isNone_iff (ht : UInt32) : isNone ht = true ↔ (ht &&& 0x1f) = 2 := by
  simp [isNone, base]
theorem isSingle_iff (ht : UInt32) : isSingle ht = true ↔ (ht &&& 0x1f) = 3 := by
  simp [isSingle, base]

/-! ### NewTxSigHashes input classification -/

def isV0Input (fetch : OutPoint → TxOut) (i : TxIn) : Bool :=
  isCoinbaseOutPoint i.prev || !isPayToTaproot (fetch i.prev).pkScript
def isV1Input (fetch : OutPoint → TxOut) (i : TxIn) : Bool :=
  !isCoinbaseOutPoint i.prev && isPayToTaproot (fetch i.prev).pkScript

theorem scanInputs_eq (fetch : OutPoint → TxOut) (l : List TxIn) (v0 v1 : Bool) :
    scanInputs fetch l v0 v1 = (v0 || l.any (isV0Input fetch), v1 || l.any (isV1Input fetch)) := by
  induction l generalizing v0 v1 with
  | nil => simp [scanInputs]
  | cons i rest ih =>
    unfold scanInputs
    by_cases hc : isCoinbaseOutPoint i.prev = true
    · simp [hc, ih, isV0Input, isV1Input]
    · by_cases ht : isPayToTaproot (fetch i.prev).pkScript = true
      · cases v0 <;> simp [hc, ht, ih, isV0Input, isV1Input]
      · cases v1 <;> simp [hc, ht, ih, isV0Input, isV1Input]

theorem hasV0_iff (fetch : OutPoint → TxOut) (tx : Tx) :
    (scanInputs fetch tx.ins false false).1 = tx.ins.any (isV0Input fetch) := by
  simp [scanInputs_eq]
theorem hasV1_iff (fetch : OutPoint → TxOut) (tx : Tx) :
    (scanInputs fetch tx.ins false false).2 = tx.ins.any (isV1Input fetch) := by
  simp [scanInputs_eq]

def outOfOpt : Option Bytes → Out
  | some d => .digest d
  | none => .err

theorem newTxSigHashes_v0 (H : Bytes → Bytes) (tx : Tx) (fetch : OutPoint → TxOut)
    (h : (scanInputs fetch tx.ins false false).1 = true) :
    (newTxSigHashes H tx fetch).hashPrevOutsV0 = (freshSigHashes H tx fetch).hashPrevOutsV0 ∧
    (newTxSigHashes H tx fetch).hashSequenceV0 = (freshSigHashes H tx fetch).hashSequenceV0 ∧
    (newTxSigHashes H tx fetch).hashOutputsV0 = (freshSigHashes H tx fetch).hashOutputsV0 := by
  simp [newTxSigHashes, freshSigHashes, h]

theorem newTxSigHashes_v1 (H : Bytes → Bytes) (tx : Tx) (fetch : OutPoint → TxOut)
    (h : (scanInputs fetch tx.ins false false).2 = true) :
    (newTxSigHashes H tx fetch).hashInputAmountsV1 = (freshSigHashes H tx fetch).hashInputAmountsV1 ∧
    (newTxSigHashes H tx fetch).hashInputScriptsV1 = (freshSigHashes H tx fetch).hashInputScriptsV1 := by
  simp [newTxSigHashes, freshSigHashes, h]

theorem newTxSigHashes_base (H : Bytes → Bytes) (tx : Tx) (fetch : OutPoint → TxOut) :
    (newTxSigHashes H tx fetch).hashPrevOutsV1 = (freshSigHashes H tx fetch).hashPrevOutsV1 ∧
    (newTxSigHashes H tx fetch).hashSequenceV1 = (freshSigHashes H tx fetch).hashSequenceV1 ∧
    (newTxSigHashes H tx fetch).hashOutputsV1 = (freshSigHashes H tx fetch).hashOutputsV1 := by
  simp [newTxSigHashes, freshSigHashes]

/-- the witness digest reads only the three V0 midstates -/
theorem wit_reads_v0 (H : Bytes → Bytes) (sub : Bytes) (a b : SigHashes) (ht : UInt32) (tx : Tx)
    (idx : Nat) (amt : UInt64)
    (h1 : a.hashPrevOutsV0 = b.hashPrevOutsV0) (h2 : a.hashSequenceV0 = b.hashSequenceV0)
    (h3 : a.hashOutputsV0 = b.hashOutputsV0) :
    calcWitnessSignatureHashRaw H sub a ht tx idx amt =
      calcWitnessSignatureHashRaw H sub b ht tx idx amt := by
  unfold calcWitnessSignatureHashRaw
  rw [h1, h2, h3]

theorem wit_cache_eq_nocache (H : Bytes → Bytes) (sub : Bytes) (ht : UInt32) (tx : Tx)
    (fetch : OutPoint → TxOut) (idx : Nat) (amt : UInt64)
    (h : (scanInputs fetch tx.ins false false).1 = true) :
    calcWitnessSignatureHashRaw H sub (newTxSigHashes H tx fetch) ht tx idx amt =
      calcWitnessSignatureHashRaw H sub (freshSigHashes H tx fetch) ht tx idx amt := by
  have := newTxSigHashes_v0 H tx fetch h
  exact wit_reads_v0 H sub _ _ ht tx idx amt this.1 this.2.1 this.2.2

theorem p2wpkh_scriptcode (sub : Bytes) (h : isWitnessPubKeyHashScript sub = true) :
    [0x19] ++ [0x76] ++ [0xa9] ++ [0x14] ++ (sub.drop 2).take 20 ++ [0x88] ++ [(0xac : UInt8)] =
      varBytes (p2pkhScript (sub.drop 2)) := by
  have hl : sub.length = 22 := by
    simp [isWitnessPubKeyHashScript] at h; exact h.1.1
  have h20 : (sub.drop 2).length = 20 := by simp [hl]
  have ht : (sub.drop 2).take 20 = sub.drop 2 := by
    apply List.take_of_length_le; omega
  rw [ht]
  unfold varBytes p2pkhScript
  have : ([0x76, 0xa9, 0x14] ++ List.drop 2 sub ++ [0x88, (0xac : UInt8)]).length = 25 := by
    simp [h20]
  rw [this]
  simp [varint]

theorem wit_fresh_eq_spec (H : Bytes → Bytes) (sub : Bytes) (ht : UInt32) (tx : Tx)
    (fetch : OutPoint → TxOut) (idx : Nat) (amt : UInt64) :
    calcWitnessSignatureHashRaw H sub (freshSigHashes H tx fetch) ht tx idx amt =
      outOfOpt (bip143Digest H (witScriptCode sub) ht tx idx amt) := by
  unfold calcWitnessSignatureHashRaw bip143Digest bip143Msg
  cases hi : tx.ins[idx]? with
  | none => simp [outOfOpt]
  | some inp =>
    simp only [Option.map_some, outOfOpt]
    congr 1
    unfold dH
    congr 2
    -- piece by piece
    have e1 : (if (ht &&& 0x80) = 0 then (freshSigHashes H tx fetch).hashPrevOutsV0 else zero32) =
        hashPrevouts H ht tx := by
      unfold hashPrevouts
      by_cases ha : (ht &&& 0x80) = 0
      · simp [ha, (acp_false_iff ht).mpr ha, freshSigHashes, calcHashPrevOuts, dH, outPointSer]
      · have : acp ht = true := (acp_true_iff ht).mpr ha
        simp [ha, this]
    have e2 : (if (ht &&& 0x80) = 0 ∧ (ht &&& 0x1f) ≠ 3 ∧ (ht &&& 0x1f) ≠ 2
        then (freshSigHashes H tx fetch).hashSequenceV0 else zero32) = hashSequence H ht tx := by
      unfold hashSequence
      by_cases ha : (ht &&& 0x80) = 0 <;> by_cases hs : (ht &&& 0x1f) = 3 <;>
        by_cases hn : (ht &&& 0x1f) = 2 <;>
        simp [ha, hs, hn, acp, isSingle, isNone, base, freshSigHashes, calcHashSequence, dH]
    have e4 : (if isWitnessPubKeyHashScript sub then
        [0x19] ++ [0x76] ++ [0xa9] ++ [0x14] ++ (sub.drop 2).take 20 ++ [0x88] ++ [(0xac : UInt8)]
        else varBytes sub) = varBytes (witScriptCode sub) := by
      unfold witScriptCode
      have : isP2WPKH sub = isWitnessPubKeyHashScript sub := rfl
      rw [this]
      by_cases hw : isWitnessPubKeyHashScript sub = true
      · simp only [hw, if_true]; exact p2wpkh_scriptcode sub hw
      · simp [hw]
    have e6 : (if (ht &&& 0x1f) ≠ 3 ∧ (ht &&& 0x1f) ≠ 2 then (freshSigHashes H tx fetch).hashOutputsV0
        else if (ht &&& 0x1f) = 3 ∧ idx < tx.outs.length then
          singleOutputHash H tx.outs[idx]?
        else zero32) = hashOutputs H ht tx idx := by
      unfold hashOutputs
      by_cases hs : (ht &&& 0x1f) = 3
      · have hn : ¬ (ht &&& 0x1f) = 2 := by rw [hs]; decide
        cases ho : tx.outs[idx]? with
        | none =>
          simp [hs, isSingle, isNone, base, singleOutputHash]
        | some o =>
          have : idx < tx.outs.length := by
            rcases List.getElem?_eq_some_iff.mp ho with ⟨h, _⟩; exact h
          simp [hs, isSingle, isNone, base, this, dH, singleOutputHash]
      · by_cases hn : (ht &&& 0x1f) = 2
        · simp [hn, isSingle, isNone, base]
        · simp [hs, hn, isSingle, isNone, base, freshSigHashes, calcHashOutputs, dH]
    rw [e1, e2, e4, e6]
    simp [outPointSer, List.append_assoc]


def outOfExcept : Except TapErr Bytes → Out
  | .ok d => .digest d
  | .error _ => .err

theorem valid_iff (ht : UInt32) : isValidTaprootSigHash ht = true ↔ ht ∈ validTaprootHashTypes := by
  simp [isValidTaprootSigHash, validTaprootHashTypes, or_assoc]

theorem getD_map_of_getElem? {α β : Type} (l : List α) (f : α → β) (i : Nat) (d : β) (a : α)
    (h : l[i]? = some a) : (l.map f).getD i d = f a := by
  simp [List.getD, h]

theorem valid_conds (ht : UInt32) (hv : ht ∈ validTaprootHashTypes) :
    (((ht &&& 0x80) ≠ 0x80) ↔ acp ht = false) ∧ (((ht &&& 0x80) = 0x80) ↔ acp ht = true) ∧
    (((ht &&& 0x1f) = 3) ↔ (ht &&& 3) = 3) := by
  simp only [validTaprootHashTypes, List.mem_cons, List.not_mem_nil, or_false] at hv
  rcases hv with h | h | h | h | h | h | h <;> subst h <;> decide

theorem tap_fresh_eq_spec (H : Bytes → Bytes) (ht : UInt32) (tx : Tx) (fetch : OutPoint → TxOut)
    (idx : Nat) (annex : Option Bytes) (ext : Option TapExt)
    (hk : ∀ e, ext = some e → e.keyVersion = 0) :
    calcTaprootSignatureHashRaw H (freshSigHashes H tx fetch) ht tx idx fetch
        (mkOpts H annex (ext.map (fun e => (e.leafHash, e.codeSepPos)))) =
      outOfExcept (bip341Digest H ht tx (tx.ins.map (fun i => fetch i.prev)) idx annex ext) := by
  unfold calcTaprootSignatureHashRaw bip341Digest bip341Msg
  by_cases hv : ht ∈ validTaprootHashTypes
  · have hv' := (valid_iff ht).mpr hv
    obtain ⟨c1, c2, c3⟩ := valid_conds ht hv
    simp only [hv', Bool.not_true, Bool.false_eq_true, if_false, hv, not_true_eq_false, c1, c2, c3]
    cases hi : tx.ins[idx]? with
    | none => simp [outOfExcept, Except.map]
    | some inp =>
      have hsp := getD_map_of_getElem? tx.ins (fun i => fetch i.prev) idx ⟨0, []⟩ inp hi
      simp only [hsp]
      cases ext with
      | none =>
        by_cases h3 : (ht &&& 3) = 3
        · have h2 : ¬ (ht &&& 3) = 2 := by rw [h3]; decide
          cases ho : tx.outs[idx]? with
          | none =>
            have hlen : tx.outs.length ≤ idx := by simpa using ho
            simp [h3, outOfExcept, Except.map, hlen]
          | some o =>
            have hlen : ¬ tx.outs.length ≤ idx := by
              rcases List.getElem?_eq_some_iff.mp ho with ⟨h, _⟩; omega
            cases ha : acp ht <;> cases annex <;>
            simp [h3, outOfExcept, Except.map, hlen, mkOpts, withAnnex, withBaseTapscriptVersion,
              writeDigestExtensions, freshSigHashes, calcHashPrevOuts, calcHashSequence, calcHashOutputs,
              calcHashInputAmounts, calcHashInputScripts, taggedH, Model.tapSighashTag, Spec.tapSighashTag,
              outPointSer, txOutSer, List.flatMap_map]
        · cases ha : acp ht <;> cases annex <;> by_cases h2 : (ht &&& 3) = 2 <;>
          simp [h3, h2, outOfExcept, Except.map, mkOpts, withAnnex, withBaseTapscriptVersion,
            writeDigestExtensions, freshSigHashes, calcHashPrevOuts, calcHashSequence, calcHashOutputs,
            calcHashInputAmounts, calcHashInputScripts, taggedH, Model.tapSighashTag, Spec.tapSighashTag,
            outPointSer, txOutSer, List.flatMap_map]
      | some e =>
        have hke := hk e rfl
        by_cases h3 : (ht &&& 3) = 3
        · have h2 : ¬ (ht &&& 3) = 2 := by rw [h3]; decide
          cases ho : tx.outs[idx]? with
          | none =>
            have hlen : tx.outs.length ≤ idx := by simpa using ho
            simp [h3, outOfExcept, Except.map, hlen]
          | some o =>
            have hlen : ¬ tx.outs.length ≤ idx := by
              rcases List.getElem?_eq_some_iff.mp ho with ⟨h, _⟩; omega
            cases ha : acp ht <;> cases annex <;>
            simp [h3, outOfExcept, Except.map, hlen, mkOpts, withAnnex, withBaseTapscriptVersion,
              writeDigestExtensions, freshSigHashes, calcHashPrevOuts, calcHashSequence, calcHashOutputs,
              calcHashInputAmounts, calcHashInputScripts, taggedH, Model.tapSighashTag, Spec.tapSighashTag,
              outPointSer, txOutSer, List.flatMap_map, hke]
        · cases ha : acp ht <;> cases annex <;> by_cases h2 : (ht &&& 3) = 2 <;>
          simp [h3, h2, outOfExcept, Except.map, mkOpts, withAnnex, withBaseTapscriptVersion,
            writeDigestExtensions, freshSigHashes, calcHashPrevOuts, calcHashSequence, calcHashOutputs,
            calcHashInputAmounts, calcHashInputScripts, taggedH, Model.tapSighashTag, Spec.tapSighashTag,
            outPointSer, txOutSer, List.flatMap_map, hke]
  · have hv' : isValidTaprootSigHash ht = false := by
      cases h : isValidTaprootSigHash ht
      · rfl
      · exact absurd ((valid_iff ht).mp h) hv
    simp [hv', hv, outOfExcept, Except.map]


/-- the taproot digest reads only the five V1 midstates -/
theorem tap_reads_v1 (H : Bytes → Bytes) (a b : SigHashes) (ht : UInt32) (tx : Tx) (idx : Nat)
    (fetch : OutPoint → TxOut) (o : TaprootSigHashOptions)
    (h1 : a.hashPrevOutsV1 = b.hashPrevOutsV1) (h2 : a.hashSequenceV1 = b.hashSequenceV1)
    (h3 : a.hashOutputsV1 = b.hashOutputsV1) (h4 : a.hashInputAmountsV1 = b.hashInputAmountsV1)
    (h5 : a.hashInputScriptsV1 = b.hashInputScriptsV1) :
    calcTaprootSignatureHashRaw H a ht tx idx fetch o =
      calcTaprootSignatureHashRaw H b ht tx idx fetch o := by
  unfold calcTaprootSignatureHashRaw
  rw [h1, h2, h3, h4, h5]

theorem tap_cache_eq_nocache (H : Bytes → Bytes) (ht : UInt32) (tx : Tx)
    (fetch : OutPoint → TxOut) (idx : Nat) (o : TaprootSigHashOptions)
    (h : (scanInputs fetch tx.ins false false).2 = true) :
    calcTaprootSignatureHashRaw H (newTxSigHashes H tx fetch) ht tx idx fetch o =
      calcTaprootSignatureHashRaw H (freshSigHashes H tx fetch) ht tx idx fetch o := by
  have b := newTxSigHashes_base H tx fetch
  have v := newTxSigHashes_v1 H tx fetch h
  exact tap_reads_v1 H _ _ ht tx idx fetch o b.1 b.2.1 b.2.2 v.1 v.2

theorem single_outputs (outs : List TxOut) (idx : Nat) (h : idx < outs.length) :
    (outs.take (idx + 1)).mapIdx (fun i (o : TxOut) =>
        if i < idx then ({ value := 0xffffffffffffffff, pkScript := [] } : TxOut) else o) =
      List.replicate idx blankOut ++ (outs[idx]?).toList := by
  apply List.ext_getElem?
  intro i
  simp only [List.getElem?_mapIdx, List.getElem?_take]
  by_cases h1 : i < idx
  · have : i < outs.length := by omega
    have h3 : i < idx + 1 := by omega
    simp [h1, h3, List.getElem?_append_left, List.getElem?_replicate, this, blankOut,
      List.getElem?_eq_getElem this]
  · by_cases h2 : i = idx
    · subst h2
      simp [List.getElem?_append_right, List.getElem?_eq_getElem h]
    · have : idx + 1 ≤ i := by omega
      have h4 : ¬ i < idx + 1 := by omega
      rw [if_neg h4]
      symm
      apply List.getElem?_eq_none
      simp [List.getElem?_eq_getElem h]
      omega

theorem flatMap_mapIdx {α β : Type} (l : List α) (g : Nat → α → β) (f : β → Bytes) :
    (l.mapIdx g).flatMap f = (l.mapIdx (fun i a => f (g i a))).flatten := by
  rw [List.flatMap_def]
  congr 1
  apply List.ext_getElem?
  intro i
  simp [List.getElem?_mapIdx, Function.comp_def]

theorem drop_take_one {α : Type} (l : List α) (i : Nat) (h : i < l.length) :
    (l.drop i).take 1 = [l[i]] := by
  rw [List.drop_eq_getElem_cons h, List.take_succ_cons, List.take_zero]


/-- the per-input copy made by `calcSignatureHash` (script blanked / replaced, sequence zeroed) -/
def copyIn (sc : Bytes) (z : Bool) (idx i : Nat) (inp : TxIn) : TxIn :=
  let a : TxIn := if i = idx then { inp with script := sc } else { inp with script := [] }
  if z then (if i ≠ idx then { a with sequence := 0 } else a) else a

theorem legacy_input_pointwise (sc : Bytes) (ht : UInt32) (idx i : Nat) (inp : TxIn) :
    txInSer (copyIn sc (isNone ht || isSingle ht) idx i inp) = legacyInputSer sc ht idx i inp := by
  unfold legacyInputSer txInSer copyIn
  by_cases hi : i = idx <;> cases hn : isNone ht <;> cases hs : isSingle ht <;> simp [hi, hn, hs]

theorem legacy_ser_all (sc : Bytes) (ht : UInt32) (idx : Nat) (ins : List TxIn) :
    (ins.mapIdx (copyIn sc (isNone ht || isSingle ht) idx)).flatMap txInSer =
      (ins.mapIdx (legacyInputSer sc ht idx)).flatten := by
  rw [flatMap_mapIdx]
  congr 1
  apply List.ext_getElem?
  intro i
  simp [List.getElem?_mapIdx, legacy_input_pointwise]

theorem legacy_ser_one (sc : Bytes) (ht : UInt32) (idx : Nat) (ins : List TxIn)
    (hi : idx < ins.length) :
    (((ins.mapIdx (copyIn sc (isNone ht || isSingle ht) idx)).drop idx).take 1).flatMap txInSer =
      legacyInputSer sc ht idx idx ins[idx] := by
  rw [drop_take_one _ _ (by simpa using hi)]
  simp [legacy_input_pointwise]

/-- the (inputs, outputs) pair the model serializes -/
theorem legacy_insOuts (sc : Bytes) (ht : UInt32) (tx : Tx) (idx : Nat)
    (hdeg : ¬ ((ht &&& 0x1f) = 3 ∧ idx ≥ tx.outs.length)) :
    (if (ht &&& 0x1f) = 2 then
        ((tx.ins.mapIdx (fun i (inp : TxIn) =>
            if i = idx then { inp with script := sc } else { inp with script := [] })).mapIdx
          (fun i (inp : TxIn) => if i ≠ idx then { inp with sequence := 0 } else inp), ([] : List TxOut))
      else if (ht &&& 0x1f) = 3 then
        ((tx.ins.mapIdx (fun i (inp : TxIn) =>
            if i = idx then { inp with script := sc } else { inp with script := [] })).mapIdx
          (fun i (inp : TxIn) => if i ≠ idx then { inp with sequence := 0 } else inp),
         (tx.outs.take (idx + 1)).mapIdx (fun i (o : TxOut) =>
            if i < idx then ({ value := 0xffffffffffffffff, pkScript := [] } : TxOut) else o))
      else (tx.ins.mapIdx (fun i (inp : TxIn) =>
            if i = idx then { inp with script := sc } else { inp with script := [] }), tx.outs)) =
      (tx.ins.mapIdx (copyIn sc (isNone ht || isSingle ht) idx), legacyOutputs ht idx tx.outs) := by
  by_cases hn : (ht &&& 0x1f) = 2
  · have h1 : isNone ht = true := (isNone_iff ht).mpr hn
    simp [hn, h1, legacyOutputs, List.mapIdx_mapIdx]
    congr 1; funext i inp; unfold copyIn; by_cases h : i = idx <;> simp [h]
  · have h1 : isNone ht = false := by
      cases h : isNone ht; rfl; exact absurd ((isNone_iff ht).mp h) hn
    by_cases hs : (ht &&& 0x1f) = 3
    · have h2 : isSingle ht = true := (isSingle_iff ht).mpr hs
      have hlt : idx < tx.outs.length := Nat.lt_of_not_le (fun h => hdeg ⟨hs, h⟩)
      simp [hn, hs, h1, h2, legacyOutputs, List.mapIdx_mapIdx, single_outputs _ _ hlt]
      congr 1; funext i inp; unfold copyIn; by_cases h : i = idx <;> simp [h]
    · have h2 : isSingle ht = false := by
        cases h : isSingle ht; rfl; exact absurd ((isSingle_iff ht).mp h) hs
      simp [hn, hs, h1, h2, legacyOutputs]
      have : (fun i (inp : TxIn) =>
          if i = idx then ({ prev := inp.prev, script := sc, sequence := inp.sequence, witness := inp.witness } : TxIn)
          else { prev := inp.prev, script := [], sequence := inp.sequence, witness := inp.witness }) =
          copyIn sc false idx := by
        funext i inp; unfold copyIn; by_cases h : i = idx <;> simp [h]
      rw [this]

theorem legacy_core_eq_spec (H : Bytes → Bytes) (sc : Bytes) (ht : UInt32) (tx : Tx) (idx : Nat)
    (hi : idx < tx.ins.length) :
    calcSignatureHashCore H sc ht tx idx = outOfOpt (legacyDigest H sc ht tx idx) := by
  unfold calcSignatureHashCore legacyDigest legacyMsg
  have hget : tx.ins[idx]? = some tx.ins[idx] := List.getElem?_eq_getElem hi
  rw [hget]
  simp only []
  by_cases hdeg : (ht &&& 0x1f) = 3 ∧ idx ≥ tx.outs.length
  · have : isSingle ht = true ∧ idx ≥ tx.outs.length := ⟨(isSingle_iff ht).mpr hdeg.1, hdeg.2⟩
    simp [hdeg, this, outOfOpt, legacyDigestOf, Model.oneHash, Spec.oneHash]
  · have hdeg' : ¬ (isSingle ht = true ∧ idx ≥ tx.outs.length) := by
      intro h; exact hdeg ⟨(isSingle_iff ht).mp h.1, h.2⟩
    rw [if_neg hdeg, if_neg hdeg', legacy_insOuts sc ht tx idx hdeg]
    by_cases ha : (ht &&& 0x80) = 0
    · have ha' : acp ht = false := (acp_false_iff ht).mpr ha
      simp [ha, ha', outOfOpt, legacyDigestOf, dH, txSerNoWitness, legacy_ser_all, List.append_assoc]
    · have ha' : acp ht = true := (acp_true_iff ht).mpr ha
      have hlen : ¬ idx ≥ (tx.ins.mapIdx (copyIn sc (isNone ht || isSingle ht) idx)).length := by
        simp; exact hi
      simp only [ne_eq, ha, not_false_eq_true, if_true, hlen, if_false, ha']
      simp [outOfOpt, legacyDigestOf, dH, txSerNoWitness, legacy_ser_one _ _ _ _ hi, List.append_assoc,
        List.length_take, List.length_drop]
      have hm : min 1 (tx.ins.length - idx) = 1 := by omega
      rw [hm]


/-- when the nil variant does not panic, the digest does not read the midstate at all -/
theorem wit_nil_unread (H : Bytes → Bytes) (sub : Bytes) (sh : SigHashes) (ht : UInt32) (tx : Tx)
    (idx : Nat) (amt : UInt64)
    (h : ¬ ((ht &&& 0x80) = 0 ∨ ((ht &&& 0x1f) ≠ 3 ∧ (ht &&& 0x1f) ≠ 2))) :
    calcWitnessSignatureHashRawNil H sub ht tx idx amt =
      calcWitnessSignatureHashRaw H sub sh ht tx idx amt := by
  unfold calcWitnessSignatureHashRawNil calcWitnessSignatureHashRaw
  have h1 : ¬ (ht &&& 0x80) = 0 := fun e => h (Or.inl e)
  have h2 : ¬ ((ht &&& 0x1f) ≠ 3 ∧ (ht &&& 0x1f) ≠ 2) := fun e => h (Or.inr e)
  cases hi : tx.ins[idx]? with
  | none => rfl
  | some inp => simp [h, h1, h2]

theorem tap_nil_unread (H : Bytes → Bytes) (sh : SigHashes) (ht : UInt32) (tx : Tx)
    (idx : Nat) (fetch : OutPoint → TxOut) (o : TaprootSigHashOptions)
    (h : ¬ ((ht &&& 0x80) ≠ 0x80 ∨ ((ht &&& 3) ≠ 3 ∧ (ht &&& 3) ≠ 2))) :
    calcTaprootSignatureHashRawNil H ht tx idx fetch o =
      calcTaprootSignatureHashRaw H sh ht tx idx fetch o := by
  unfold calcTaprootSignatureHashRawNil calcTaprootSignatureHashRaw
  have h1 : ¬ (ht &&& 0x80) ≠ 0x80 := fun e => h (Or.inl e)
  have h2 : ¬ ((ht &&& 3) ≠ 3 ∧ (ht &&& 3) ≠ 2) := fun e => h (Or.inr e)
  cases hv : isValidTaprootSigHash ht
  · simp
  · cases hi : tx.ins[idx]? with
    | none => simp
    | some inp => simp [h, h1, h2]


/-- a caller option as the pair the Spec's `requested*` functions read -/
def optView : TapOpt → Option Bytes × Option (UInt32 × Bytes)
  | .annex a => (some a, none)
  | .base p l => (none, some (p, l))

/-- options in "normal form": what `mkOpts` builds from an annex and an extension -/
def normOpts (H : Bytes → Bytes) (annex : Option Bytes) (e : TapExt) : TaprootSigHashOptions :=
  mkOpts H annex (some (e.leafHash, e.codeSepPos))

theorem applyOpt_norm (H : Bytes → Bytes) (annex : Option Bytes) (e : TapExt) (o : TapOpt) :
    applyOpt H (normOpts H annex e) o =
      normOpts H (match (optView o).1 with | some a => some a | none => annex)
        (match (optView o).2 with | some (p, l) => ⟨l, 0, p⟩ | none => e) := by
  cases o <;> cases annex <;>
    simp [applyOpt, normOpts, mkOpts, withAnnex, withBaseTapscriptVersion, optView]

theorem requestedAnnex_cons (a : Option Bytes) (v : Option Bytes × Option (UInt32 × Bytes))
    (rest : List (Option Bytes × Option (UInt32 × Bytes))) :
    (match requestedAnnex (v :: rest) with | some x => some x | none => a) =
      (match requestedAnnex rest with
        | some x => some x
        | none => (match v.1 with | some y => some y | none => a)) := by
  obtain ⟨v1, v2⟩ := v
  simp only [requestedAnnex]
  cases requestedAnnex rest <;> cases v1 <;> simp

theorem applyOpts_norm (H : Bytes → Bytes) (l : List TapOpt) : ∀ (annex : Option Bytes) (e : TapExt),
    applyOpts H l (normOpts H annex e) =
      normOpts H (match requestedAnnex (l.map optView) with | some x => some x | none => annex)
        (requestedExt e (l.map optView)) := by
  induction l with
  | nil => intro annex e; cases annex <;> simp [applyOpts, requestedAnnex, requestedExt]
  | cons o rest ih =>
    intro annex e
    simp only [applyOpts, List.foldl_cons, List.map_cons]
    have := ih (match (optView o).1 with | some a => some a | none => annex)
      (match (optView o).2 with | some (p, l) => ⟨l, 0, p⟩ | none => e)
    simp only [applyOpts] at this
    rw [applyOpt_norm, this, requestedAnnex_cons]
    cases hv : optView o with
    | mk v1 v2 =>
      cases v2 with
      | none => simp [requestedExt]
      | some b => obtain ⟨p, l⟩ := b; simp [requestedExt]


theorem requestedExt_kv (l : List (Option Bytes × Option (UInt32 × Bytes))) :
    ∀ d : TapExt, d.keyVersion = 0 → (requestedExt d l).keyVersion = 0 := by
  induction l with
  | nil => intro d h; simpa [requestedExt] using h
  | cons v rest ih =>
    intro d h
    obtain ⟨a, b⟩ := v
    cases b with
    | none => simpa [requestedExt] using ih d h
    | some pl => obtain ⟨p, l⟩ := pl; simpa [requestedExt] using ih ⟨l, 0, p⟩ rfl

theorem tapHash_eq (H : Bytes → Bytes) (v : UInt8) (s : Bytes) :
    Model.tapHash H v s = Spec.tapLeafHash H v s := rfl

end BV.C07.Lemmas
