/-
C07 property theorems. Only statements of the property + non-vacuity examples live here;
helper lemmas are in Lemmas.lean.
-/
import BV.C07.Spec
import BV.C07.Model
import BV.Generated.C07
namespace BV.C07
open Spec

/-! ### pinning of regenerated facts (T2): a changed constant in /repo breaks these -/

theorem pin_sighash_consts :
    Generated.C07.sigHashDefault = SIGHASH_DEFAULT.toNat ∧ Generated.C07.sigHashOld = 0 ∧
    Generated.C07.sigHashAll = SIGHASH_ALL.toNat ∧ Generated.C07.sigHashNone = SIGHASH_NONE.toNat ∧
    Generated.C07.sigHashSingle = SIGHASH_SINGLE.toNat ∧
    Generated.C07.sigHashAnyOneCanPay = SIGHASH_ANYONECANPAY.toNat ∧
    Generated.C07.sigHashMask = SIGHASH_MASK.toNat := by decide

theorem pin_taproot_consts :
    Generated.C07.blankCodeSepValue = BLANK_CODESEP.toNat ∧
    Generated.C07.baseSigHashExtFlag = 0 ∧ Generated.C07.tapscriptSighashExtFlag = 1 ∧
    Generated.C07.taprootAnnexTag = 0x50 ∧ Generated.C07.baseLeafVersion = 0xc0 ∧
    Generated.C07.opCodeSeparator = OP_CODESEPARATOR.toNat := by decide

theorem pin_tagTapSighash :
    Generated.C07.tagTapSighash = tapSighashTag.map (fun x => (x.toNat : Int)) ∧
    Model.tapSighashTag = tapSighashTag := by decide

/-- the hash types `calcTaprootSignatureHashRaw` accepts, over the whole byte range -/
theorem pin_validTaprootSigHashes :
    Generated.C07.validTaprootSigHashes = validTaprootHashTypes.map (fun x => (x.toNat : Int)) := by
  decide

end BV.C07
