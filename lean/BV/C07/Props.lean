/-
C07 property theorems. Only statements of the property + non-vacuity examples live here;
helper lemmas are in SerLemmas / ScriptLemmas / Lemmas / Commit / CacheLemmas.
`H` is single SHA-256, abstract: every theorem holds for any function in its place.
-/
import BV.C07.Lemmas
import BV.C07.ScriptLemmas
import BV.C07.Commit
import BV.C07.CommitLegacy
import BV.C07.CacheKey
import BV.C07.ExpectLemmas
import BV.C07.CacheLemmas
import BV.Generated.C07
set_option linter.unusedSimpArgs false
namespace BV.C07
open Spec Model

/-! ### model = spec: the digests btcd computes are the ones the specifications define -/

/-- Legacy, exported entry point `CalcSignatureHash`: for every script (parsing or not), every 32-bit
hash type, every transaction and every valid input index, the result is the Spec digest: code
separators removed at opcode boundaries, the SIGHASH_SINGLE constant, NONE/SINGLE/ANYONECANPAY. -/
theorem legacy_model_eq_spec (H : Bytes → Bytes) (script : Bytes) (ht : UInt32) (tx : Tx) (idx : Nat)
    (hi : idx < tx.ins.length) :
    CalcSignatureHash H script ht tx idx = Lemmas.outOfOpt (legacySigHash H script ht tx idx) := by
  unfold CalcSignatureHash legacySigHash
  cases hp : parses script
  · have : parse script = none := by simp [parse, parses] at hp ⊢; simp [hp]
    simp [stripOp, this, Lemmas.outOfOpt]
  · rw [Lemmas.removeOpcodeRaw_eq_stripOp script OP_CODESEPARATOR hp]
    simp only [Bool.not_true, Bool.false_eq_true, if_false, calcSignatureHash]
    exact Lemmas.legacy_core_eq_spec H _ ht tx idx hi

/-- Legacy, the unexported `calcSignatureHash` the interpreter calls (scripts were parsed before). -/
theorem legacy_raw_model_eq_spec (H : Bytes → Bytes) (script : Bytes) (ht : UInt32) (tx : Tx)
    (idx : Nat) (hi : idx < tx.ins.length) (hp : parses script = true) :
    calcSignatureHash H script ht tx idx = Lemmas.outOfOpt (legacySigHash H script ht tx idx) := by
  have := legacy_model_eq_spec H script ht tx idx hi
  simpa [CalcSignatureHash, hp] using this

/-- The SIGHASH_SINGLE quirk, stated: without a matching output the digest is the constant 1
whatever the transaction, the script and the remaining hash type bits are. -/
theorem legacy_single_bug (H : Bytes → Bytes) (sc : Bytes) (ht : UInt32) (tx : Tx) (idx : Nat)
    (hi : idx < tx.ins.length) (hs : isSingle ht = true) (ho : tx.outs.length ≤ idx) :
    legacyDigest H sc ht tx idx = some Spec.oneHash := by
  simp [legacyDigest, legacyMsg, List.getElem?_eq_getElem hi, hs, ho, legacyDigestOf]

/-- btcd's offset-based `removeOpcodeRaw` = removal of the opcode at token level. -/
theorem removeOpcodeRaw_eq_spec (s : Bytes) (op : UInt8) (h : parses s = true) :
    stripOp op s = some (removeOpcodeRaw s op) := Lemmas.removeOpcodeRaw_eq_stripOp s op h

/-- btcd's `removeOpcodeByData` = FindAndDelete of canonical pushes of the signature. -/
theorem removeOpcodeByData_eq_spec (s sig : Bytes) (h : parses s = true) :
    findAndDelete s sig = some (removeOpcodeByData s sig) :=
  Lemmas.removeOpcodeByData_eq_findAndDelete s sig h

/-- What the interpreter's legacy CHECKSIG signs: FindAndDelete of the signature, then the digest
(which removes the code separators) = the Spec digest over `legacyScriptCode`. -/
theorem engine_legacy_digest (H : Bytes → Bytes) (sub sig : Bytes) (ht : UInt32) (tx : Tx) (idx : Nat)
    (hi : idx < tx.ins.length) (hp : parses sub = true) :
    calcSignatureHash H (removeOpcodeByData sub sig).1 ht tx idx =
      Lemmas.outOfOpt ((legacyScriptCode sub sig).bind (fun sc => legacyDigest H sc ht tx idx)) := by
  obtain ⟨ts, hts⟩ := Lemmas.parse_of_parses sub hp
  have hfd := Lemmas.removeOpcodeByData_eq_findAndDelete sub sig hp
  by_cases hsig : sig = []
  · subst hsig
    have : (removeOpcodeByData sub []).1 = sub := by simp [removeOpcodeByData]
    rw [this, legacy_raw_model_eq_spec H sub ht tx idx hi hp]
    simp [legacySigHash, stripOp, legacyScriptCode, hts]
  · have hs' : (removeOpcodeByData sub sig).1 =
        (ts.filter (fun t => !(isCanonicalPush t.op t.data && t.data == sig))).flatMap (·.raw) := by
      simp only [findAndDelete, hsig, if_false, hts, Option.map_some, Option.some.injEq] at hfd
      rw [← hfd]
    have hparse := Lemmas.parse_filter sub ts (fun t => !(isCanonicalPush t.op t.data && t.data == sig)) hts
    rw [hs', legacy_raw_model_eq_spec H _ ht tx idx hi (Lemmas.parses_of_parse _ _ hparse)]
    simp only [legacySigHash, stripOp, legacyScriptCode, hts, hparse, Option.map_some, Option.bind_some]
    have hd : decide (sig ≠ []) = true := by simpa using hsig
    simp only [hd, Bool.true_and]


/-- BIP143 with the midstates of `NewTxSigHashes`, provided they were computed for a transaction
with at least one non-taproot input (`hasV0Inputs`, which holds whenever the signed input is v0). -/
theorem wit_model_eq_spec (H : Bytes → Bytes) (sub : Bytes) (ht : UInt32) (tx : Tx)
    (fetch : OutPoint → TxOut) (idx : Nat) (amt : UInt64)
    (hv0 : (scanInputs fetch tx.ins false false).1 = true) :
    calcWitnessSignatureHashRaw H sub (newTxSigHashes H tx fetch) ht tx idx amt =
      Lemmas.outOfOpt (bip143Digest H (witScriptCode sub) ht tx idx amt) := by
  rw [Lemmas.wit_cache_eq_nocache H sub ht tx fetch idx amt hv0]
  exact Lemmas.wit_fresh_eq_spec H sub ht tx fetch idx amt

/-- BIP341/342 with the midstates of `NewTxSigHashes` (computed with at least one taproot input),
every hash type (invalid ones are errors), annex, tapscript extension with any code separator
position. The Go options always set key version 0. -/
theorem tap_model_eq_spec (H : Bytes → Bytes) (ht : UInt32) (tx : Tx) (fetch : OutPoint → TxOut)
    (idx : Nat) (annex : Option Bytes) (ext : Option TapExt)
    (hk : ∀ e, ext = some e → e.keyVersion = 0)
    (hv1 : (scanInputs fetch tx.ins false false).2 = true) :
    calcTaprootSignatureHashRaw H (newTxSigHashes H tx fetch) ht tx idx fetch
        (mkOpts H annex (ext.map (fun e => (e.leafHash, e.codeSepPos)))) =
      Lemmas.outOfExcept (bip341Digest H ht tx (tx.ins.map (fun i => fetch i.prev)) idx annex ext) := by
  rw [Lemmas.tap_cache_eq_nocache H ht tx fetch idx _ hv1]
  exact Lemmas.tap_fresh_eq_spec H ht tx fetch idx annex ext hk

/-- Exported `CalcTapscriptSignaturehash` with ANY list of caller options (annex / base-tapscript
options, any order, repeated): the digest is the BIP341/342 digest for what the caller requested --
the last annex given, the last explicit (code separator position, leaf hash) given, defaulting to the
hash of the leaf and the blank position. (A default appended AFTER the caller's options would break
this theorem's model; the differential class `tap-api-options` ties the model to the code.) -/
theorem tapscript_api_eq_spec (H : Bytes → Bytes) (ht : UInt32) (tx : Tx) (fetch : OutPoint → TxOut)
    (idx : Nat) (leafVersion : UInt8) (script : Bytes) (caller : List TapOpt)
    (hv1 : (scanInputs fetch tx.ins false false).2 = true) :
    CalcTapscriptSignaturehash H (newTxSigHashes H tx fetch) ht tx idx fetch leafVersion script caller =
      Lemmas.outOfExcept (bip341Digest H ht tx (tx.ins.map (fun i => fetch i.prev)) idx
        (requestedAnnex (caller.map Lemmas.optView))
        (some (requestedExt ⟨tapLeafHash H leafVersion script, 0, BLANK_CODESEP⟩
          (caller.map Lemmas.optView)))) := by
  unfold CalcTapscriptSignaturehash
  have h0 : applyOpts H (.base 0xffffffff (tapHash H leafVersion script) :: caller) {} =
      applyOpts H caller (Lemmas.normOpts H none ⟨tapLeafHash H leafVersion script, 0, BLANK_CODESEP⟩) := by
    simp [applyOpts, applyOpt, Lemmas.normOpts, mkOpts, withBaseTapscriptVersion, Lemmas.tapHash_eq,
      BLANK_CODESEP]
  rw [h0, Lemmas.applyOpts_norm]
  have hk := Lemmas.requestedExt_kv (caller.map Lemmas.optView)
    ⟨tapLeafHash H leafVersion script, 0, BLANK_CODESEP⟩ rfl
  have := tap_model_eq_spec H ht tx fetch idx (requestedAnnex (caller.map Lemmas.optView))
    (some (requestedExt ⟨tapLeafHash H leafVersion script, 0, BLANK_CODESEP⟩ (caller.map Lemmas.optView)))
    (fun e he => by cases he; exact hk) hv1
  cases hra : requestedAnnex (caller.map Lemmas.optView) <;> simp only [hra] at this ⊢ <;>
    simpa [Lemmas.normOpts] using this

/-- Exported `CalcTaprootSignatureHash` (key path, no options) -/
theorem taproot_api_eq_spec (H : Bytes → Bytes) (ht : UInt32) (tx : Tx) (fetch : OutPoint → TxOut)
    (idx : Nat) (hv1 : (scanInputs fetch tx.ins false false).2 = true) :
    CalcTaprootSignatureHash H (newTxSigHashes H tx fetch) ht tx idx fetch =
      Lemmas.outOfExcept (bip341Digest H ht tx (tx.ins.map (fun i => fetch i.prev)) idx none none) := by
  have := tap_model_eq_spec H ht tx fetch idx none none (fun e he => by cases he) hv1
  simpa [CalcTaprootSignatureHash, applyOpts, mkOpts] using this


/-- the taproot digest is defined exactly for hash types {0,1,2,3,0x81,0x82,0x83} -/
theorem taproot_hashtype_valid_iff (ht : UInt32) :
    isValidTaprootSigHash ht = true ↔ ht ∈ validTaprootHashTypes := Lemmas.valid_iff ht


/-- Legacy with an index that is not an input (never done by the interpreter, possible through the
raw function): ANYONECANPAY slices `TxIn[idx:idx+1]` out of range -- a Go panic -- unless the
SIGHASH_SINGLE early return fires first. -/
theorem legacy_idx_out_of_range_panics (H : Bytes → Bytes) (sc : Bytes) (ht : UInt32) (tx : Tx)
    (idx : Nat) (hi : tx.ins.length ≤ idx) (ha : (ht &&& 0x80) ≠ 0)
    (hs : ¬ ((ht &&& 0x1f) = 3 ∧ idx ≥ tx.outs.length)) :
    calcSignatureHashCore H sc ht tx idx = .panic := by
  unfold calcSignatureHashCore
  simp only [hs, if_false, ha, ne_eq, not_false_eq_true, if_true]
  by_cases h2 : (ht &&& 0x1f) = 2
  · simp [h2, hi]
  · by_cases h3 : (ht &&& 0x1f) = 3
    · simp [h2, h3, hi]
    · simp [h2, h3, hi]

/-- Signer and verifier compute the same BIP143 digest: the helper signs
`calcWitnessSignatureHashRaw(sub, midstate, hashType)` and appends `byte(hashType)`; the interpreter
recomputes with that byte. For a one-byte hash type and any midstate computed for a transaction
with a v0 input (supplied or not on either side) the two digests coincide. -/
theorem signer_verifier_same_digest_wit (H : Bytes → Bytes) (sub : Bytes) (ht : UInt32) (tx : Tx)
    (idx : Nat) (amt : UInt64) (fetch : OutPoint → TxOut) (supplied : Option SigHashes)
    (hb : ht.toNat < 256)
    (hs : supplied = none ∨ supplied = some (newTxSigHashes H tx fetch)) :
    engineWitnessDigest H supplied sub (UInt32.ofNat (UInt8.ofNat ht.toNat).toNat) tx idx amt fetch =
      calcWitnessSignatureHashRaw H sub (newTxSigHashes H tx fetch) ht tx idx amt := by
  have hht : UInt32.ofNat (UInt8.ofNat ht.toNat).toNat = ht := by
    apply UInt32.toNat_inj.mp
    simp [UInt8.toNat_ofNat', Nat.mod_eq_of_lt hb]
  rw [hht]
  rcases hs with rfl | rfl <;> rfl


/-! ### cache = no cache -/

/-- BIP143 digest with precomputed midstates = digest with every midstate computed from scratch. -/
theorem cache_eq_nocache_wit (H : Bytes → Bytes) (sub : Bytes) (ht : UInt32) (tx : Tx)
    (fetch : OutPoint → TxOut) (idx : Nat) (amt : UInt64)
    (hv0 : (scanInputs fetch tx.ins false false).1 = true) :
    calcWitnessSignatureHashRaw H sub (newTxSigHashes H tx fetch) ht tx idx amt =
      calcWitnessSignatureHashRaw H sub (freshSigHashes H tx fetch) ht tx idx amt :=
  Lemmas.wit_cache_eq_nocache H sub ht tx fetch idx amt hv0

theorem cache_eq_nocache_tap (H : Bytes → Bytes) (ht : UInt32) (tx : Tx)
    (fetch : OutPoint → TxOut) (idx : Nat) (o : TaprootSigHashOptions)
    (hv1 : (scanInputs fetch tx.ins false false).2 = true) :
    calcTaprootSignatureHashRaw H (newTxSigHashes H tx fetch) ht tx idx fetch o =
      calcTaprootSignatureHashRaw H (freshSigHashes H tx fetch) ht tx idx fetch o :=
  Lemmas.tap_cache_eq_nocache H ht tx fetch idx o hv1

/-- the side conditions hold whenever the input being signed is of the matching kind: the
classification loop (with its `continue` and early `break`) finds it -/
theorem midstate_present_for_signed_input (fetch : OutPoint → TxOut) (tx : Tx) (idx : Nat)
    (inp : TxIn) (hi : tx.ins[idx]? = some inp) :
    (Lemmas.isV0Input fetch inp = true → (scanInputs fetch tx.ins false false).1 = true) ∧
    (Lemmas.isV1Input fetch inp = true → (scanInputs fetch tx.ins false false).2 = true) := by
  rw [Lemmas.hasV0_iff, Lemmas.hasV1_iff]
  have hm := Commit.mem_of_getElem? hi
  constructor <;> intro h <;> exact List.any_eq_true.mpr ⟨inp, hm, h⟩

/-- ...and are needed: midstates computed for a transaction without v0 inputs carry zero V0 hashes
(an API precondition of `NewTxSigHashes`, not reachable from the interpreter) -/
theorem midstate_v0_absent (H : Bytes → Bytes) (tx : Tx) (fetch : OutPoint → TxOut)
    (h : (scanInputs fetch tx.ins false false).1 = false) :
    (newTxSigHashes H tx fetch).hashPrevOutsV0 = zero32 ∧
    (newTxSigHashes H tx fetch).hashSequenceV0 = zero32 ∧
    (newTxSigHashes H tx fetch).hashOutputsV0 = zero32 := by
  simp [newTxSigHashes, h]

/-- `sigHashes == nil` is allowed exactly where the digest never reads a midstate
(ANYONECANPAY with NONE or SINGLE): there the result equals the result with ANY midstate. -/
theorem nil_midstate_unread_wit (H : Bytes → Bytes) (sub : Bytes) (sh : SigHashes) (ht : UInt32)
    (tx : Tx) (idx : Nat) (amt : UInt64)
    (h : ¬ ((ht &&& 0x80) = 0 ∨ ((ht &&& 0x1f) ≠ 3 ∧ (ht &&& 0x1f) ≠ 2))) :
    calcWitnessSignatureHashRawNil H sub ht tx idx amt =
      calcWitnessSignatureHashRaw H sub sh ht tx idx amt :=
  Lemmas.wit_nil_unread H sub sh ht tx idx amt h

theorem nil_midstate_unread_tap (H : Bytes → Bytes) (sh : SigHashes) (ht : UInt32) (tx : Tx)
    (idx : Nat) (fetch : OutPoint → TxOut) (o : TaprootSigHashOptions)
    (h : ¬ ((ht &&& 0x80) ≠ 0x80 ∨ ((ht &&& 3) ≠ 3 ∧ (ht &&& 3) ≠ 2))) :
    calcTaprootSignatureHashRawNil H ht tx idx fetch o =
      calcTaprootSignatureHashRaw H sh ht tx idx fetch o :=
  Lemmas.tap_nil_unread H sh ht tx idx fetch o h

/-- Inside the interpreter the digest is the same whether `NewEngine` was given the precomputed
midstate of the transaction or none (segwit v0 always; taproot since the fix of F-C07-a, before
which a nil midstate was dereferenced). -/
theorem engine_digest_with_or_without_midstate (H : Bytes → Bytes) (sub : Bytes) (ht : UInt32)
    (tx : Tx) (idx : Nat) (amt : UInt64) (fetch : OutPoint → TxOut) (o : TaprootSigHashOptions) :
    engineWitnessDigest H none sub ht tx idx amt fetch =
      engineWitnessDigest H (some (newTxSigHashes H tx fetch)) sub ht tx idx amt fetch ∧
    engineTaprootDigest H none ht tx idx fetch o =
      engineTaprootDigest H (some (newTxSigHashes H tx fetch)) ht tx idx fetch o :=
  ⟨rfl, rfl⟩

/-- HashCache is a map: what `AddSigHashes` stored is what `GetSigHashes` returns, other
transactions are unaffected, `PurgeSigHashes` removes. -/
theorem hashcache_laws (c : HashCache) (txid t : Bytes) (s : SigHashes) :
    (c.add txid s).get txid = some s ∧ (t ≠ txid → (c.add txid s).get t = c.get t) ∧
    (c.purge txid).get txid = none :=
  ⟨CacheLemmas.hashCache_get_add c txid s, CacheLemmas.hashCache_get_add_ne c txid t s,
   CacheLemmas.hashCache_get_purge c txid⟩

/-- HashCache is keyed by txid = double-SHA256 of the witness-free serialization. Two well-formed
transactions with the same txid (barring a collision of that hash: `H_inj`) have the same
midstates -- the witnesses may differ -- so an entry found under a txid is the right one. -/
theorem hashcache_key_sound (H : Bytes → Bytes) (fetch : OutPoint → TxOut) (t₁ t₂ : Tx)
    (w₁ : t₁.wf) (w₂ : t₂.wf)
    (H_inj : dH H (txSerNoWitness t₁) = dH H (txSerNoWitness t₂) →
      txSerNoWitness t₁ = txSerNoWitness t₂)
    (htxid : dH H (txSerNoWitness t₁) = dH H (txSerNoWitness t₂)) :
    newTxSigHashes H t₁ fetch = newTxSigHashes H t₂ fetch :=
  Commit.newTxSigHashes_of_same_txid_preimage H fetch t₁ t₂ w₁ w₂ (H_inj htxid)

/-- the witness-free serialization (hence the txid preimage) is injective on version, inputs
(outpoint, signature script, sequence), outputs and lock time -/
theorem txSerNoWitness_injective (t₁ t₂ : Tx) (w₁ : t₁.wf) (w₂ : t₂.wf)
    (h : txSerNoWitness t₁ = txSerNoWitness t₂) :
    t₁.version = t₂.version ∧ t₁.ins.map Commit.inTriple = t₂.ins.map Commit.inTriple ∧
      t₁.outs = t₂.outs ∧ t₁.lockTime = t₂.lockTime :=
  Commit.txSerNoWitness_inj t₁ t₂ w₁ w₂ h

/-! ### commits to exactly the specified data -/

/-- two signing contexts that agree on the committed fields have the same legacy message
(including the degenerate SIGHASH_SINGLE case) -/
theorem independent_of_uncommitted_legacy (sc : Bytes) (ht : UInt32) (idx : Nat) (c₁ c₂ : Ctx)
    (h : AgreeOn (legacyCommitted ht idx) c₁ c₂) :
    legacyMsgC sc ht idx c₁ = legacyMsgC sc ht idx c₂ := Commit.legacy_independent sc ht idx c₁ c₂ h

theorem independent_of_uncommitted_bip143 (H : Bytes → Bytes) (sc : Bytes) (ht : UInt32) (idx : Nat)
    (c₁ c₂ : Ctx) (h : AgreeOn (bip143Committed ht idx) c₁ c₂) :
    bip143MsgC H sc ht idx c₁ = bip143MsgC H sc ht idx c₂ :=
  Commit.bip143_independent H sc ht idx c₁ c₂ h

theorem independent_of_uncommitted_bip341 (H : Bytes → Bytes) (ht : UInt32) (idx : Nat)
    (annex : Option Bytes) (ext : Option TapExt) (c₁ c₂ : Ctx)
    (h : AgreeOn (bip341Committed ht idx) c₁ c₂) :
    bip341MsgC H ht idx annex ext c₁ = bip341MsgC H ht idx annex ext c₂ :=
  Commit.bip341_independent H ht idx annex ext c₁ c₂ h

/-- equal BIP143 messages ⇒ agreement on every committed field, given that the inner double-SHA256
has no collision among (and no zero image on) the strings hashed for these two transactions -/
theorem injective_on_committed_bip143 (H : Bytes → Bytes) (sc : Bytes) (ht : UInt32) (idx : Nat)
    (c₁ c₂ : Ctx) (w₁ : c₁.wf) (w₂ : c₂.wf)
    (hok : HashOK (dH H) (bip143Hashed idx c₁.tx ++ bip143Hashed idx c₂.tx))
    (m : Bytes) (h₁ : bip143MsgC H sc ht idx c₁ = some m) (h₂ : bip143MsgC H sc ht idx c₂ = some m) :
    AgreeOn (bip143Committed ht idx) c₁ c₂ :=
  Commit.bip143_injective H sc ht idx c₁ c₂ w₁ w₂ hok m h₁ h₂

theorem injective_on_committed_bip341 (H : Bytes → Bytes) (ht : UInt32) (idx : Nat)
    (annex : Option Bytes) (ext : Option TapExt) (c₁ c₂ : Ctx) (w₁ : c₁.wf) (w₂ : c₂.wf)
    (hok : HashOK H (bip341Hashed idx c₁ ++ bip341Hashed idx c₂))
    (m : Bytes) (h₁ : bip341MsgC H ht idx annex ext c₁ = .ok m)
    (h₂ : bip341MsgC H ht idx annex ext c₂ = .ok m) :
    AgreeOn (bip341Committed ht idx) c₁ c₂ :=
  Commit.bip341_injective H ht idx annex ext c₁ c₂ w₁ w₂ hok m h₁ h₂

/-- Legacy (non-degenerate case: a message, not the constant 1): the message contains no inner
hashes, so equal messages force equal committed fields with no hash hypothesis at all. -/
theorem injective_on_committed_legacy (sc : Bytes) (ht : UInt32) (idx : Nat) (c₁ c₂ : Ctx)
    (w₁ : c₁.tx.wf) (w₂ : c₂.tx.wf) (hsc : sc.length < 2^64)
    (m : Bytes) (h₁ : legacyMsgC sc ht idx c₁ = some (.msg m))
    (h₂ : legacyMsgC sc ht idx c₂ = some (.msg m)) :
    AgreeOn (legacyCommitted ht idx) c₁ c₂ :=
  Commit.legacy_injective sc ht idx c₁ c₂ w₁ w₂ hsc m h₁ h₂

/-- lifting to digests: `H_inj` = the outer hash does not collide on the two messages -/
theorem digest_commits_bip143 (H : Bytes → Bytes) (sc : Bytes) (ht : UInt32) (idx : Nat)
    (c₁ c₂ : Ctx) (w₁ : c₁.wf) (w₂ : c₂.wf)
    (hok : HashOK (dH H) (bip143Hashed idx c₁.tx ++ bip143Hashed idx c₂.tx))
    (m₁ m₂ : Bytes) (h₁ : bip143MsgC H sc ht idx c₁ = some m₁) (h₂ : bip143MsgC H sc ht idx c₂ = some m₂)
    (H_inj : dH H m₁ = dH H m₂ → m₁ = m₂) (hd : dH H m₁ = dH H m₂) :
    AgreeOn (bip143Committed ht idx) c₁ c₂ := by
  have := H_inj hd; subst this
  exact Commit.bip143_injective H sc ht idx c₁ c₂ w₁ w₂ hok m₁ h₁ h₂

theorem digest_commits_legacy (H : Bytes → Bytes) (sc : Bytes) (ht : UInt32) (idx : Nat) (c₁ c₂ : Ctx)
    (w₁ : c₁.tx.wf) (w₂ : c₂.tx.wf) (hsc : sc.length < 2^64)
    (m₁ m₂ : Bytes) (h₁ : legacyMsgC sc ht idx c₁ = some (.msg m₁))
    (h₂ : legacyMsgC sc ht idx c₂ = some (.msg m₂))
    (H_inj : dH H m₁ = dH H m₂ → m₁ = m₂) (hd : dH H m₁ = dH H m₂) :
    AgreeOn (legacyCommitted ht idx) c₁ c₂ := by
  have := H_inj hd; subst this
  exact Commit.legacy_injective sc ht idx c₁ c₂ w₁ w₂ hsc m₁ h₁ h₂

theorem digest_commits_bip341 (H : Bytes → Bytes) (ht : UInt32) (idx : Nat)
    (annex : Option Bytes) (ext : Option TapExt) (c₁ c₂ : Ctx) (w₁ : c₁.wf) (w₂ : c₂.wf)
    (hok : HashOK H (bip341Hashed idx c₁ ++ bip341Hashed idx c₂))
    (m₁ m₂ : Bytes) (h₁ : bip341MsgC H ht idx annex ext c₁ = .ok m₁)
    (h₂ : bip341MsgC H ht idx annex ext c₂ = .ok m₂)
    (H_inj : taggedH H Spec.tapSighashTag m₁ = taggedH H Spec.tapSighashTag m₂ → m₁ = m₂)
    (hd : taggedH H Spec.tapSighashTag m₁ = taggedH H Spec.tapSighashTag m₂) :
    AgreeOn (bip341Committed ht idx) c₁ c₂ := by
  have := H_inj hd; subst this
  exact Commit.bip341_injective H ht idx annex ext c₁ c₂ w₁ w₂ hok m₁ h₁ h₂

/-! ### the expectation used for the signing cases is agreement on the committed set -/

/-- The answer the driver gives for a helper-signed input after a mutation ("verified" iff
`Expect.stillVerifies`) is exactly: the original and the mutated context agree on `Committed ht idx`
(for taproot also on the annex of the signed input; for legacy with the SIGHASH_SINGLE
degenerate case handled as `legacy_single_bug` says). -/
theorem expectation_iff_agree (ht : UInt32) (idx : Nat) (c₁ c₂ : Ctx) :
    (Expect.stillVerifies .wit ht idx c₁ c₂ = true ↔ AgreeOn (bip143Committed ht idx) c₁ c₂) ∧
    (Expect.stillVerifies .tap ht idx c₁ c₂ = true ↔
      AgreeOn (bip341Committed ht idx) c₁ c₂ ∧ Expect.ownAnnex idx c₁ = Expect.ownAnnex idx c₂) ∧
    (Expect.degenerate ht idx c₁ = false → Expect.degenerate ht idx c₂ = false →
      (Expect.stillVerifies .legacy ht idx c₁ c₂ = true ↔ AgreeOn (legacyCommitted ht idx) c₁ c₂)) ∧
    (Expect.degenerate ht idx c₁ = true → Expect.degenerate ht idx c₂ = true →
      Expect.stillVerifies .legacy ht idx c₁ c₂ = true) ∧
    (Expect.degenerate ht idx c₁ ≠ Expect.degenerate ht idx c₂ →
      Expect.stillVerifies .legacy ht idx c₁ c₂ = false) := by
  refine ⟨?_, ?_, ?_, ?_, ?_⟩
  · simp only [Expect.stillVerifies]
    exact Expect.byFields_iff _ c₁ c₂
  · simp only [Expect.stillVerifies, Bool.and_eq_true, beq_iff_eq]
    rw [show (fun f => !Expect.committed .tap ht idx f) = (fun f => !bip341Committed ht idx f) from rfl,
      Expect.byFields_iff]
  · intro h1 h2
    simp only [Expect.stillVerifies, h1, h2, Bool.false_and, Bool.false_eq_true, if_false, bne_self_eq_false]
    exact Expect.byFields_iff _ c₁ c₂
  · intro h1 h2
    simp [Expect.stillVerifies, h1, h2]
  · intro h
    cases h1 : Expect.degenerate ht idx c₁ <;> cases h2 : Expect.degenerate ht idx c₂ <;>
      simp_all [Expect.stillVerifies]

/-! ### signature cache -/

/-- Over any history of checks against one cache (any capacity, any eviction choices), an answer
"valid" -- cache hit or not -- implies that the real verification `V` accepts the triple. -/
theorem sigcache_sound (V : Bytes → Bytes → Bytes → Bool) (maxEntries : Nat) (rs : List SigReq) :
    ∀ x ∈ runVerify V (SigCache.new maxEntries) rs, x.2 = true →
      V x.1.sigHash x.1.sig x.1.pubKey = true :=
  CacheLemmas.runVerify_sound V rs _ (CacheLemmas.inv_new V maxEntries)

/-- and the cache never turns a passing check into a failure -/
theorem sigcache_complete (V : Bytes → Bytes → Bytes → Bool) (c : SigCache) (r : SigReq)
    (hv : V r.sigHash r.sig r.pubKey = true) : (verifySig V c r).1 = true :=
  CacheLemmas.verifySig_complete V c r hv

/-! ### non-vacuity of the hypotheses -/

def exCtx : Ctx :=
  ⟨⟨1, [⟨⟨List.replicate 32 7, 0⟩, [], 0xffffffff, []⟩], [⟨5, [0x51]⟩], 0⟩, [⟨9, [0x52]⟩]⟩
/-- a 32-byte-output function without collisions on the strings of `exCtx` -/
def exH (b : Bytes) : Bytes := (b ++ List.replicate 32 1).take 32

example : exCtx.wf := by decide
example : HashOK (dH exH) (bip143Hashed 0 exCtx.tx ++ bip143Hashed 0 exCtx.tx) :=
  ⟨by decide, by decide, by decide⟩
example : HashOK exH (bip341Hashed 0 exCtx ++ bip341Hashed 0 exCtx) :=
  ⟨by decide, by decide, by decide⟩
example : (bip143MsgC exH [0xac] 1 0 exCtx).isSome = true := by decide
example : ∃ m, legacyMsgC [0xac] 1 0 exCtx = some (.msg m) := ⟨_, rfl⟩
example : ∃ m, bip341MsgC exH 0 0 none none exCtx = .ok m := ⟨_, rfl⟩
example : (scanInputs (fun _ => ⟨0, []⟩) exCtx.tx.ins false false).1 = true := by decide

example : (scanInputs (fun _ => ⟨0, 0x51 :: 0x20 :: List.replicate 32 0⟩) exCtx.tx.ins false false).2 = true := by
  decide
example : ¬ (((0x82 : UInt32) &&& 0x80) = 0 ∨ (((0x82 : UInt32) &&& 0x1f) ≠ 3 ∧ ((0x82 : UInt32) &&& 0x1f) ≠ 2)) := by
  decide
example : ¬ (((0x83 : UInt32) &&& 0x80) ≠ 0x80 ∨ (((0x83 : UInt32) &&& 3) ≠ 3 ∧ ((0x83 : UInt32) &&& 3) ≠ 2)) := by
  decide
example : parses [0x51, 0xab, 0x02, 0x01, 0x02, 0xac] = true := by decide

/-! ### pinning of regenerated facts (T2): a changed constant in /repo breaks these -/

theorem pin_sighash_consts :
    Generated.C07.sigHashDefault = SIGHASH_DEFAULT.toNat ∧ Generated.C07.sigHashOld = 0 ∧
    Generated.C07.sigHashAll = SIGHASH_ALL.toNat ∧ Generated.C07.sigHashNone = SIGHASH_NONE.toNat ∧
    Generated.C07.sigHashSingle = SIGHASH_SINGLE.toNat ∧
    Generated.C07.sigHashAnyOneCanPay = SIGHASH_ANYONECANPAY.toNat := by decide

/-- exported protocol constants only (internal identifiers such as sigHashMask / blankCodeSepValue /
the ext-flag constants are not pinned: their effect is observed through the digests) -/
theorem pin_taproot_consts :
    Generated.C07.taprootAnnexTag = 0x50 ∧ Generated.C07.baseLeafVersion = 0xc0 ∧
    Generated.C07.opCodeSeparator = OP_CODESEPARATOR.toNat := by decide

theorem pin_tagTapSighash :
    Generated.C07.tagTapSighash = Spec.tapSighashTag.map (fun x => (x.toNat : Int)) ∧
    Model.tapSighashTag = Spec.tapSighashTag ∧
    Generated.C07.tagTapLeaf = Spec.tapLeafTag.map (fun x => (x.toNat : Int)) := by decide

/-- the hash types `calcTaprootSignatureHashRaw` accepts, over the whole byte range -/
theorem pin_validTaprootSigHashes :
    Generated.C07.validTaprootSigHashes = validTaprootHashTypes.map (fun x => (x.toNat : Int)) := by
  decide

end BV.C07
