/-
C07 helper lemmas: the legacy message determines the fields in `legacyCommitted` (pure
prefix-decodability: the message contains no inner hashes).
-/
import BV.C07.Commit
import BV.C07.Lemmas
set_option linter.unusedSimpArgs false
namespace BV.C07.Commit
open BV.C07 BV.C07.Spec

/-- what the legacy message records of input `i` -/
def legacyTriple (sc : Bytes) (ht : UInt32) (idx i : Nat) (inp : TxIn) : OutPoint × Bytes × UInt32 :=
  (inp.prev, if i = idx then sc else [], if i ≠ idx ∧ (isNone ht ∨ isSingle ht) then 0 else inp.sequence)

def enc3 (t : OutPoint × Bytes × UInt32) : Bytes := outPointSer t.1 ++ varBytes t.2.1 ++ le32 t.2.2

theorem enc3_pd : PD (fun t : OutPoint × Bytes × UInt32 => t.1.wf ∧ t.2.1.length < 2^64) enc3 := by
  intro a b r s ha hb h
  unfold enc3 at h
  simp only [List.append_assoc] at h
  have a1 := List.append_inj h (by rw [length_outPointSer _ ha.1, length_outPointSer _ hb.1])
  have a2 := varBytes_pd _ _ _ _ ha.2 hb.2 a1.2
  have a3 := List.append_inj a2.2 (by simp [length_le32])
  obtain ⟨a1', a2', a3'⟩ := a
  obtain ⟨b1', b2', b3'⟩ := b
  simp only [Prod.mk.injEq]
  exact ⟨⟨outPointSer_inj ha.1 hb.1 a1.1, a2.1, le32_inj a3.1⟩, a3.2⟩

theorem legacyInputSer_eq (sc : Bytes) (ht : UInt32) (idx i : Nat) (inp : TxIn) :
    legacyInputSer sc ht idx i inp = enc3 (legacyTriple sc ht idx i inp) := rfl

theorem legacy_ins_flatten (sc : Bytes) (ht : UInt32) (idx : Nat) (ins : List TxIn) :
    (ins.mapIdx (legacyInputSer sc ht idx)).flatten =
      (ins.mapIdx (legacyTriple sc ht idx)).flatMap enc3 := by
  rw [Lemmas.flatMap_mapIdx]
  rfl


theorem legacyOutputs_wf (ht : UInt32) (idx : Nat) (t : Tx) (w : t.wf)
    (hs : isSingle ht = true → idx < t.outs.length) :
    (∀ o ∈ legacyOutputs ht idx t.outs, o.wf) ∧ (legacyOutputs ht idx t.outs).length < 2^64 := by
  unfold legacyOutputs
  cases isNone ht
  · cases hsg : isSingle ht
    · simp only [Bool.false_eq_true, if_false]; exact ⟨w.2.1, w.2.2.2⟩
    · simp only [Bool.false_eq_true, if_false, if_true]
      constructor
      · intro o ho
        simp only [List.mem_append, List.mem_replicate, Option.mem_toList] at ho
        rcases ho with ⟨_, rfl⟩ | ho
        · simp [blankOut, TxOut.wf]
        · exact w.2.1 o (mem_of_getElem? ho)
      · cases ho : t.outs[idx]? with
        | none =>
          have : t.outs.length ≤ idx := by simpa using ho
          have := hs hsg
          omega
        | some o =>
          have : idx < t.outs.length := (List.getElem?_eq_some_iff.mp ho).1
          have := w.2.2.2
          simp; omega
  · simp


theorem counted_list_pd {α : Type} {P : α → Prop} {enc : α → Bytes} (hpd : PD P enc)
    (l₁ l₂ : List α) (t₁ t₂ : Bytes) (h1 : ∀ x ∈ l₁, P x) (h2 : ∀ x ∈ l₂, P x)
    (n1 : l₁.length < 2^64) (n2 : l₂.length < 2^64)
    (h : varint l₁.length ++ (l₁.flatMap enc ++ t₁) = varint l₂.length ++ (l₂.flatMap enc ++ t₂)) :
    l₁ = l₂ ∧ t₁ = t₂ := by
  have a := varint_pd n1 n2 h
  exact flatMap_pd_append hpd l₁ l₂ t₁ t₂ h1 h2 a.1 a.2

theorem legacy_injective (sc : Bytes) (ht : UInt32) (idx : Nat) (c₁ c₂ : Ctx)
    (w₁ : c₁.tx.wf) (w₂ : c₂.tx.wf) (hsc : sc.length < 2^64)
    (m : Bytes) (h₁ : legacyMsgC sc ht idx c₁ = some (.msg m))
    (h₂ : legacyMsgC sc ht idx c₂ = some (.msg m)) :
    AgreeOn (legacyCommitted ht idx) c₁ c₂ := by
  unfold legacyMsgC legacyMsg at h₁ h₂
  cases hi1 : c₁.tx.ins[idx]? with
  | none => simp [hi1] at h₁
  | some i1 =>
  cases hi2 : c₂.tx.ins[idx]? with
  | none => simp [hi2] at h₂
  | some i2 =>
  simp only [hi1, hi2] at h₁ h₂
  by_cases hd1 : isSingle ht = true ∧ idx ≥ c₁.tx.outs.length
  case pos => simp [hd1] at h₁
  by_cases hd2 : isSingle ht = true ∧ idx ≥ c₂.tx.outs.length
  case pos => simp [hd2] at h₂
  simp only [hd1, hd2, if_false, Option.some.injEq, LegacyPre.msg.injEq] at h₁ h₂
  have E := h₁.trans h₂.symm
  clear h₁ h₂
  have hs1 : isSingle ht = true → idx < c₁.tx.outs.length := fun h => Nat.lt_of_not_le (fun h' => hd1 ⟨h, h'⟩)
  have hs2 : isSingle ht = true → idx < c₂.tx.outs.length := fun h => Nat.lt_of_not_le (fun h' => hd2 ⟨h, h'⟩)
  have wo1 := legacyOutputs_wf ht idx c₁.tx w₁ hs1
  have wo2 := legacyOutputs_wf ht idx c₂.tx w₂ hs2
  have wp1 : i1.prev.wf := (w₁.1 i1 (mem_of_getElem? hi1)).1
  have wp2 : i2.prev.wf := (w₂.1 i2 (mem_of_getElem? hi2)).1
  simp only [List.append_assoc] at E
  have s1 := List.append_inj E (by simp [length_le32])
  have eV := le32_inj s1.1
  have wt : ∀ (t : Tx), t.wf → ∀ x ∈ t.ins.mapIdx (legacyTriple sc ht idx), x.1.wf ∧ x.2.1.length < 2^64 := by
    intro t w x hx
    rcases List.mem_iff_getElem?.mp hx with ⟨i, hi⟩
    rw [List.getElem?_mapIdx] at hi
    cases hti : t.ins[i]? with
    | none => simp [hti] at hi
    | some inp =>
      simp only [hti, Option.map_some, Option.some.injEq] at hi
      subst hi
      refine ⟨(w.1 inp (mem_of_getElem? hti)).1, ?_⟩
      unfold legacyTriple
      by_cases h : i = idx <;> simp [h, hsc]
  -- the input part
  have hIn : (acp ht = false → c₁.tx.ins.mapIdx (legacyTriple sc ht idx) = c₂.tx.ins.mapIdx (legacyTriple sc ht idx)) ∧
      i1.prev = i2.prev ∧ i1.sequence = i2.sequence ∧
      (varint (legacyOutputs ht idx c₁.tx.outs).length ++ ((legacyOutputs ht idx c₁.tx.outs).flatMap txOutSer ++
          (le32 c₁.tx.lockTime ++ le32 ht)) =
       varint (legacyOutputs ht idx c₂.tx.outs).length ++ ((legacyOutputs ht idx c₂.tx.outs).flatMap txOutSer ++
          (le32 c₂.tx.lockTime ++ le32 ht))) := by
    have e := s1.2
    cases ha : acp ht
    · simp only [ha, Bool.false_eq_true, if_false, List.append_assoc, legacy_ins_flatten] at e
      have a := counted_list_pd enc3_pd _ _ _ _ (wt _ w₁) (wt _ w₂)
        (by simpa using w₁.2.2.1) (by simpa using w₂.2.2.1) (by simpa using e)
      have hi1' := congrArg (fun l => l[idx]?) a.1
      simp only [List.getElem?_mapIdx, hi1, hi2, Option.map_some, Option.some.injEq, legacyTriple,
        Prod.mk.injEq] at hi1'
      refine ⟨fun _ => a.1, hi1'.1, ?_, a.2⟩
      simpa using hi1'.2.2
    · simp only [ha, if_true, List.append_assoc] at e
      have a1 := List.append_inj e rfl
      have a2 := enc3_pd (legacyTriple sc ht idx idx i1) (legacyTriple sc ht idx idx i2) _ _
        ⟨wp1, by simpa [legacyTriple] using hsc⟩ ⟨wp2, by simpa [legacyTriple] using hsc⟩ a1.2
      simp only [legacyTriple, Prod.mk.injEq] at a2
      refine ⟨fun h => (by cases h), a2.1.1, ?_, a2.2⟩
      simpa using a2.1.2.2
  obtain ⟨hTri, ePrev, eSeq, hT⟩ := hIn
  have hO := counted_list_pd txOutSer_pd _ _ _ _ wo1.1 wo2.1 wo1.2 wo2.2 hT
  have eLt := le32_inj (List.append_inj hO.2 (by simp [length_le32])).1
  have fTri : acp ht = false → ∀ i : Nat,
      (c₁.tx.ins[i]?).map (legacyTriple sc ht idx i) = (c₂.tx.ins[i]?).map (legacyTriple sc ht idx i) := by
    intro ha i
    have := congrArg (fun l => l[i]?) (hTri ha)
    simpa [List.getElem?_mapIdx] using this
  have fPrevAll : acp ht = false → ∀ i : Nat,
      (c₁.tx.ins[i]?).map TxIn.prev = (c₂.tx.ins[i]?).map TxIn.prev := by
    intro ha i
    have := fTri ha i
    cases h1 : c₁.tx.ins[i]? <;> cases h2 : c₂.tx.ins[i]? <;> simp [h1, h2, legacyTriple] at this ⊢
    exact this.1
  have fSeqAll : acp ht = false → isNone ht = false → isSingle ht = false → ∀ i : Nat,
      (c₁.tx.ins[i]?).map TxIn.sequence = (c₂.tx.ins[i]?).map TxIn.sequence := by
    intro ha hn hs i
    have := fTri ha i
    cases h1 : c₁.tx.ins[i]? <;> cases h2 : c₂.tx.ins[i]? <;> simp [h1, h2, legacyTriple, hn, hs] at this ⊢
    exact this.2
  have fOuts : isNone ht = false → isSingle ht = false → c₁.tx.outs = c₂.tx.outs := by
    intro hn hs
    have := hO.1
    simpa [legacyOutputs, hn, hs] using this
  have fOut : isSingle ht = true → c₁.tx.outs[idx]? = c₂.tx.outs[idx]? := by
    intro hs
    have hn := single_not_none ht hs
    have := hO.1
    simp only [legacyOutputs, hn, hs, Bool.false_eq_true, if_false, if_true] at this
    have := List.append_cancel_left this
    have l1 := hs1 hs
    have l2 := hs2 hs
    have g1 : c₁.tx.outs[idx]? = some c₁.tx.outs[idx] := List.getElem?_eq_getElem l1
    have g2 : c₂.tx.outs[idx]? = some c₂.tx.outs[idx] := List.getElem?_eq_getElem l2
    rw [g1, g2] at this ⊢
    simpa using this
  intro f hf
  cases f with
  | version => simp [Field.get, eV]
  | lockTime => simp [Field.get, eLt]
  | nIns =>
    simp only [legacyCommitted, Bool.not_eq_true'] at hf
    have := congrArg List.length (hTri hf)
    simpa [Field.get] using this
  | nOuts =>
    simp only [legacyCommitted, Bool.and_eq_true, Bool.not_eq_true'] at hf
    simp [Field.get, fOuts hf.1 hf.2]
  | prevout i =>
    simp only [legacyCommitted, Bool.or_eq_true, Bool.not_eq_true', beq_iff_eq] at hf
    simp only [Field.get, Val.op.injEq]
    rcases hf with ha | rfl
    · exact fPrevAll ha i
    · simp [hi1, hi2, ePrev]
  | sequence i =>
    simp only [legacyCommitted, Bool.or_eq_true, Bool.and_eq_true, Bool.not_eq_true', beq_iff_eq] at hf
    simp only [Field.get, Val.seq.injEq]
    rcases hf with rfl | ha
    · simp [hi1, hi2, eSeq]
    · exact fSeqAll ha.1.1 ha.1.2 ha.2 i
  | scriptSig i => simp [legacyCommitted] at hf
  | witness i => simp [legacyCommitted] at hf
  | output j =>
    simp only [legacyCommitted] at hf
    simp only [Field.get, Val.out.injEq]
    cases hn : isNone ht
    · cases hs : isSingle ht
      · rw [fOuts hn hs]
      · simp only [hn, hs, Bool.false_eq_true, if_false, if_true, beq_iff_eq] at hf
        rw [hf]; exact fOut hs
    · simp [hn] at hf
  | spentAmount i => simp [legacyCommitted] at hf
  | spentScript i => simp [legacyCommitted] at hf


end BV.C07.Commit
