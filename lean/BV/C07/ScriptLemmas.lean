/-
C07 helper lemmas about script tokenisation: btcd's offset-based removal loops compute the
token-level filters of the Spec (on scripts that parse).
-/
import BV.C07.Spec
import BV.C07.Model
set_option linter.unusedSimpArgs false
namespace BV.C07.Lemmas
open BV.C07 BV.C07.Spec BV.C07.Model

theorem nextTok_raw (s : Bytes) (t : Tok) (r : Bytes) (h : nextTok s = some (t, r)) :
    t.raw ++ r = s := by
  unfold nextTok at h
  cases s with
  | nil => simp at h
  | cons op rest =>
    simp only at h
    by_cases hp : isPushOp op = true
    · simp only [hp, if_true] at h
      generalize hdrLen op = hb at h
      generalize (if hb = 0 then op.toNat else leNat (rest.take hb)) = n at h
      by_cases c1 : rest.length < hb
      · simp [c1] at h
      · by_cases c2 : n ≥ 2^31
        · simp [c1, c2] at h
        · by_cases c3 : (rest.drop hb).length < n
          · exfalso
            simp [c1, c2] at h
            simp at c3
            omega
          · simp only [c1, c2, c3, if_false, Option.some.injEq, Prod.mk.injEq] at h
            rw [← h.1, ← h.2]
            simp
    · simp only [hp, Bool.false_eq_true, if_false, Option.some.injEq, Prod.mk.injEq] at h
      rw [← h.1, ← h.2]; simp

theorem tokenize_raw (f : Nat) : ∀ s, (tokenize f s).2 = true → ((tokenize f s).1).flatMap (·.raw) = s := by
  induction f with
  | zero => intro s h; cases s <;> simp [tokenize] at h ⊢
  | succ f ih =>
    intro s h
    cases s with
    | nil => simp [tokenize]
    | cons b bs =>
      unfold tokenize at h ⊢
      cases hn : nextTok (b :: bs) with
      | none => simp [hn] at h
      | some p =>
        obtain ⟨t, r⟩ := p
        simp only [hn] at h ⊢
        have := ih r h
        simp only [List.flatMap_cons, this]
        exact nextTok_raw _ _ _ hn

/-- generic form of the two removal loops: what they compute in terms of the token list -/
theorem rawLoop_spec (op : UInt8) (f : Nat) : ∀ (rest consumed : Bytes) (result : Option Bytes),
    removeOpcodeRawLoop op f rest consumed result =
      (consumed ++ ((tokenize f rest).1).flatMap (·.raw),
       match result with
       | some r => some (r ++ (((tokenize f rest).1).filter (fun t => t.op != op)).flatMap (·.raw))
       | none =>
         if ((tokenize f rest).1).any (fun t => t.op == op) then
           some (consumed ++ (((tokenize f rest).1).filter (fun t => t.op != op)).flatMap (·.raw))
         else none) := by
  induction f with
  | zero =>
    intro rest consumed result
    cases rest <;> cases result <;> simp [removeOpcodeRawLoop, tokenize]
  | succ f ih =>
    intro rest consumed result
    cases rest with
    | nil => cases result <;> simp [removeOpcodeRawLoop, tokenize, nextTok]
    | cons b bs =>
      unfold removeOpcodeRawLoop tokenize
      cases hn : nextTok (b :: bs) with
      | none => cases result <;> simp
      | some p =>
        obtain ⟨t, r⟩ := p
        simp only [ih]
        by_cases ho : t.op = op
        · cases result <;> simp [ho]
        · cases result <;> simp [ho, List.append_assoc]

theorem removeOpcodeRaw_eq_stripOp (s : Bytes) (op : UInt8) (h : parses s = true) :
    stripOp op s = some (removeOpcodeRaw s op) := by
  unfold stripOp parse removeOpcodeRaw
  unfold parses at h
  have hraw := tokenize_raw s.length s h
  rw [rawLoop_spec]
  cases hts : tokenize s.length s with
  | mk ts ok =>
    rw [hts] at h hraw
    simp only at h hraw
    simp only [h, if_true, Option.map_some, Option.some.injEq]
    by_cases hl : s.length = 0
    · have : s = [] := List.length_eq_zero_iff.mp hl
      subst this
      simp [tokenize] at hts
      obtain ⟨rfl, _⟩ := hts
      simp
    · simp only [hl, if_false]
      by_cases hany : ts.any (fun t => t.op == op) = true
      · simp [hany]
      · simp only [hany]
        have : ts.filter (fun t => t.op != op) = ts := by
          apply List.filter_eq_self.mpr
          intro t ht
          simp only [List.any_eq_true, not_exists, not_and] at hany
          have := hany t ht
          simpa using this
        simp [this, hraw]



def matchTok (d : Bytes) (t : Tok) : Bool := isCanonicalPush t.op t.data && t.data == d

theorem dataLoop_spec (d : Bytes) (f : Nat) :
    ∀ (rest consumed : Bytes) (result : Option Bytes) (m : Bool),
    removeOpcodeByDataLoop d f rest consumed result m =
      (match result with
       | some r => some (r ++ (((tokenize f rest).1).filter
           (fun t => !(matchTok d t))).flatMap (·.raw))
       | none =>
         if ((tokenize f rest).1).any (matchTok d) then
           some (consumed ++ (((tokenize f rest).1).filter
             (fun t => !(matchTok d t))).flatMap (·.raw))
         else none,
       m || ((tokenize f rest).1).any (matchTok d)) := by
  induction f with
  | zero =>
    intro rest consumed result m
    cases rest <;> cases result <;> simp [removeOpcodeByDataLoop, tokenize]
  | succ f ih =>
    intro rest consumed result m
    cases rest with
    | nil => cases result <;> simp [removeOpcodeByDataLoop, tokenize, nextTok]
    | cons b bs =>
      unfold removeOpcodeByDataLoop tokenize
      have hp : ∀ t : Tok, (isCanonicalPush t.op t.data && t.data == d) = matchTok d t := fun _ => rfl
      simp only [hp]
      cases hn : nextTok (b :: bs) with
      | none => cases result <;> simp
      | some p =>
        obtain ⟨t, r⟩ := p
        simp only [ih]
        by_cases ho : matchTok d t = true
        · cases result <;> simp [ho]
        · cases result <;> simp [ho, List.append_assoc]

theorem removeOpcodeByData_eq_findAndDelete (s sig : Bytes) (h : parses s = true) :
    findAndDelete s sig = some (removeOpcodeByData s sig) := by
  unfold findAndDelete parse removeOpcodeByData
  unfold parses at h
  have hraw := tokenize_raw s.length s h
  rw [dataLoop_spec]
  have hp : (fun t : Tok => isCanonicalPush t.op t.data && t.data == sig) = matchTok sig := rfl
  have hp' : (fun t : Tok => !(isCanonicalPush t.op t.data && t.data == sig)) = (fun t => !(matchTok sig t)) := rfl
  rw [hp, hp']
  cases hts : tokenize s.length s with
  | mk ts ok =>
    rw [hts] at h hraw
    simp only at h hraw
    by_cases hsig : sig = []
    · subst hsig; simp [h]
    · have hsl : ¬ sig.length = 0 := by
        intro hc; exact hsig (List.length_eq_zero_iff.mp hc)
      simp only [hsig, if_false, h, if_true, Option.map_some, Option.some.injEq]
      by_cases hl : s.length = 0
      · have : s = [] := List.length_eq_zero_iff.mp hl
        subst this
        simp [tokenize] at hts
        obtain ⟨rfl, _⟩ := hts
        simp
      · simp only [hl, hsl, or_self, if_false, Bool.false_or]
        by_cases hany : ts.any (matchTok sig) = true
        · simp [hany]
        · simp only [hany]
          have : ts.filter (fun t => !(matchTok sig t)) = ts := by
            apply List.filter_eq_self.mpr
            intro t ht
            simp only [List.any_eq_true, not_exists, not_and] at hany
            have := hany t ht
            simpa using this
          simp [this, hraw]


/-- a token re-parses as itself whatever follows it -/
def TokWF (t : Tok) : Prop := ∀ r' : Bytes, nextTok (t.raw ++ r') = some (t, r')

theorem nextTok_wf (s : Bytes) (t : Tok) (r : Bytes) (h : nextTok s = some (t, r)) : TokWF t := by
  intro r'
  unfold nextTok at h
  cases s with
  | nil => simp at h
  | cons op rest =>
    simp only at h
    by_cases hp : isPushOp op = true
    · simp only [hp, if_true] at h
      generalize hhb : hdrLen op = hb at h
      by_cases c1 : rest.length < hb
      · simp [c1] at h
      · simp only [c1, if_false] at h
        generalize hn : (if hb = 0 then op.toNat else leNat (rest.take hb)) = n at h
        by_cases c2 : n ≥ 2^31
        · simp [c2] at h
        · by_cases c3 : (rest.drop hb).length < n
          · exfalso
            simp [c2] at h
            simp at c3
            omega
          · simp only [c2, c3, if_false, Option.some.injEq, Prod.mk.injEq] at h
            obtain ⟨ht, _⟩ := h
            subst ht
            have hlen : hb + n ≤ rest.length := by
              simp at c3 c1; omega
            simp only [List.cons_append]
            unfold nextTok
            simp only [hp, if_true, hhb]
            have l1 : (rest.take (hb + n) ++ r').length = hb + n + r'.length := by
              simp [List.length_take]; omega
            have t1 : (rest.take (hb + n) ++ r').take hb = rest.take hb := by
              rw [List.take_append_of_le_length (by simp only [List.length_append, List.length_drop, List.length_take]; omega)]
              rw [List.take_take]; congr 1; omega
            have c1' : ¬ (rest.take (hb + n) ++ r').length < hb := by rw [l1]; omega
            simp only [c1', if_false, t1, hn, c2]
            have d1 : (rest.take (hb + n) ++ r').drop hb = (rest.take (hb + n)).drop hb ++ r' := by
              rw [List.drop_append_of_le_length (by simp only [List.length_append, List.length_drop, List.length_take]; omega)]
            have c3' : ¬ ((rest.take (hb + n) ++ r').drop hb).length < n := by
              rw [d1]
              simp only [List.length_append, List.length_drop, List.length_take]
              omega
            simp only [c3', if_false, Option.some.injEq, Prod.mk.injEq, Tok.mk.injEq, true_and]
            refine ⟨⟨?_, ?_⟩, ?_⟩
            · rw [d1, List.take_append_of_le_length (by simp only [List.length_append, List.length_drop, List.length_take]; omega)]
              rw [List.drop_take]
              rw [List.take_take]
              congr 1; omega
            · rw [List.take_append_of_le_length (by simp only [List.length_append, List.length_drop, List.length_take]; omega)]
              rw [List.take_take]; simp
            · rw [List.drop_append_of_le_length (by simp only [List.length_append, List.length_drop, List.length_take]; omega)]
              have : (rest.take (hb + n)).drop (hb + n) = [] := by
                apply List.drop_of_length_le; simp only [List.length_take]; omega
              rw [this]; rfl
    · simp only [hp, Bool.false_eq_true, if_false, Option.some.injEq, Prod.mk.injEq] at h
      obtain ⟨ht, _⟩ := h
      subst ht
      simp only [List.cons_append, List.nil_append]
      unfold nextTok
      simp [hp]


theorem tokWF_raw_ne_nil (t : Tok) (h : TokWF t) : t.raw ≠ [] := by
  intro e
  have := h []
  rw [e] at this
  simp [nextTok] at this

theorem tokenize_all_wf (f : Nat) : ∀ s, ∀ t ∈ (tokenize f s).1, TokWF t := by
  induction f with
  | zero => intro s t ht; cases s <;> simp [tokenize] at ht
  | succ f ih =>
    intro s t ht
    cases s with
    | nil => simp [tokenize] at ht
    | cons b bs =>
      unfold tokenize at ht
      cases hn : nextTok (b :: bs) with
      | none => simp [hn] at ht
      | some p =>
        obtain ⟨t0, r⟩ := p
        simp only [hn, List.mem_cons] at ht
        rcases ht with rfl | ht
        · exact nextTok_wf _ _ _ hn
        · exact ih r t ht

theorem tokenize_flatMap_raw (ts : List Tok) (hwf : ∀ t ∈ ts, TokWF t) :
    ∀ f, (ts.flatMap (·.raw)).length ≤ f → tokenize f (ts.flatMap (·.raw)) = (ts, true) := by
  induction ts with
  | nil => intro f _; cases f <;> simp [tokenize]
  | cons t ts ih =>
    intro f hf
    have hw := hwf t (by simp)
    have hne := tokWF_raw_ne_nil t hw
    simp only [List.flatMap_cons] at hf ⊢
    cases hr : t.raw with
    | nil => exact absurd hr hne
    | cons b bs =>
      cases f with
      | zero => simp [hr] at hf
      | succ f =>
        have hnt := hw (ts.flatMap (·.raw))
        rw [hr] at hnt
        simp only [List.cons_append] at hnt ⊢
        unfold tokenize
        simp only [hnt]
        have := ih (fun t ht => hwf t (by simp [ht])) f (by
          simp only [hr, List.length_append, List.length_cons] at hf; omega)
        rw [this]

/-- removing tokens from a script that parses gives a script that parses to the remaining tokens -/
theorem parse_filter (s : Bytes) (ts : List Tok) (p : Tok → Bool) (h : parse s = some ts) :
    parse ((ts.filter p).flatMap (·.raw)) = some (ts.filter p) := by
  have hall : ∀ t ∈ ts, TokWF t := by
    unfold parse at h
    cases hts : tokenize s.length s with
    | mk ts' ok =>
      rw [hts] at h
      simp only at h
      by_cases hok : ok = true
      · simp only [hok, if_true, Option.some.injEq] at h
        subst h
        have := tokenize_all_wf s.length s
        rw [hts] at this
        exact this
      · simp [hok] at h
  have hwf : ∀ t ∈ ts.filter p, TokWF t := fun t ht => hall t (List.mem_filter.mp ht).1
  unfold parse
  rw [tokenize_flatMap_raw _ hwf _ (Nat.le_refl _)]
  simp


theorem parse_of_parses (s : Bytes) (h : parses s = true) : ∃ ts, parse s = some ts := by
  unfold parses at h
  unfold parse
  cases hts : tokenize s.length s with
  | mk ts ok =>
    rw [hts] at h
    simp only at h
    exact ⟨ts, by simp [h]⟩

theorem parses_of_parse (s : Bytes) (ts : List Tok) (h : parse s = some ts) : parses s = true := by
  unfold parse at h
  unfold parses
  cases hts : tokenize s.length s with
  | mk ts' ok =>
    rw [hts] at h
    simp only at h ⊢
    cases ok <;> simp at h ⊢


end BV.C07.Lemmas
