/- C07 line-protocol driver (core-only). -/
import Std.Data.HashMap
import BV.Common.Hex
import BV.Common.Sha256
import BV.C07.Spec
import BV.C07.Model
import BV.C07.Expect
namespace BV.C07.Driver
open BV.Hex BV.C07

def sha (b : Bytes) : Bytes := BV.Sha256.hashList b

def u32? (s : String) : Option UInt32 := do
  let n ← s.toNat?
  if n < 2^32 then some (UInt32.ofNat n) else none

/-- signed 64-bit decimal → bit pattern -/
def i64? (s : String) : Option UInt64 := do
  let i ← s.toInt?
  if i < -(2^63 : Int) ∨ i ≥ (2^63 : Int) then none
  else some (UInt64.ofNat (i % (2^64 : Int)).toNat)

/-- signed 32-bit decimal → bit pattern -/
def i32? (s : String) : Option UInt32 := do
  let i ← s.toInt?
  if i < -(2^31 : Int) ∨ i ≥ (2^31 : Int) then none
  else some (UInt32.ofNat (i % (2^32 : Int)).toNat)

def listOf? {α : Type} (sep : String) (p : String → Option α) (s : String) : Option (List α) :=
  if s == "-" then some [] else (s.splitOn sep).mapM p

/-- input: `hash:index:script:seq:w1.w2…` -/
def txIn? (s : String) : Option TxIn :=
  match s.splitOn ":" with
  | [h, i, sc, sq, w] => do
    let h ← hexToList? h
    if h.length ≠ 32 then none
    let i ← u32? i
    let sc ← hexToList? sc
    let sq ← u32? sq
    let w ← listOf? "." hexToList? w
    pure ⟨⟨h, i⟩, sc, sq, w⟩
  | _ => none

/-- output: `value:script` -/
def txOut? (s : String) : Option TxOut :=
  match s.splitOn ":" with
  | [v, sc] => do
    let v ← i64? v
    let sc ← hexToList? sc
    pure ⟨v, sc⟩
  | _ => none

/-- tx: `version/ins/outs/locktime` -/
def tx? (s : String) : Option Tx :=
  match s.splitOn "/" with
  | [v, ins, outs, lt] => do
    let v ← i32? v
    let ins ← listOf? "," txIn? ins
    let outs ← listOf? "," txOut? outs
    let lt ← u32? lt
    pure ⟨v, ins, outs, lt⟩
  | _ => none

def spent? (s : String) : Option (List TxOut) := listOf? "," txOut? s

/-- the fetcher the harness builds: keyed by outpoint, first occurrence wins -/
def mkFetchMap (tx : Tx) (spent : List TxOut) : Std.HashMap OutPoint TxOut :=
  (tx.ins.zip spent).foldl (fun m p => if m.contains p.1.prev then m else m.insert p.1.prev p.2) {}

/-- (built once per case: a hash map instead of a linear search, usable with 65537 inputs) -/
@[noinline] def fetchOf (m : Std.HashMap OutPoint TxOut) (o : OutPoint) : TxOut := m.getD o ⟨0, []⟩

/-- usage: `let m := mkFetchMap tx spent; … fetchOf m` (the map must be let-bound as a value) -/

def showOut : Model.Out → String
  | .digest d => listToHex d
  | .err => "err"
  | .panic => "panic"

def handleLegacy (api : Bool) (tx : Tx) (idx : Nat) (ht : UInt32) (script : Bytes) : String :=
  -- outside the property's domain: not an input / unparsed script handed to the unexported function
  if idx ≥ tx.ins.length then "out-of-domain" else
  if !api && !parses script then "out-of-domain" else
  -- Spec where it is defined (script parses, idx is an input); the model of the code otherwise
  match Spec.legacySigHash sha script ht tx idx with
  | some d => listToHex d
  | none =>
    if api then showOut (Model.CalcSignatureHash sha script ht tx idx)
    else showOut (Model.calcSignatureHash sha script ht tx idx)

def handleWit (api : Bool) (tx : Tx) (spent : List TxOut) (idx : Nat) (ht : UInt32) (sub : Bytes)
    (amt : UInt64) : String :=
  let m := mkFetchMap tx spent
  let fetch := fetchOf m
  let sh := Model.newTxSigHashes sha tx fetch
  -- midstate computed for a transaction without a v0 input: API precondition violated
  if !(Model.scanInputs fetch tx.ins false false).1 then "out-of-domain" else
  if idx ≥ tx.ins.length then "rejected" else
  if (!api || parses sub) then
    match Spec.bip143Digest sha (Spec.witScriptCode sub) ht tx idx amt with
    | some d => listToHex d
    | none => "err"
  else if api then showOut (Model.CalcWitnessSigHash sha sub sh ht tx idx amt)
  else showOut (Model.calcWitnessSignatureHashRaw sha sub sh ht tx idx amt)

def handleTap (tx : Tx) (spent : List TxOut) (idx : Nat) (ht : UInt32) (annex : Option Bytes)
    (ext : Option Spec.TapExt) : String :=
  let m := mkFetchMap tx spent
  let fetch := fetchOf m
  if !(Model.scanInputs fetch tx.ins false false).2 then "out-of-domain" else
  if idx ≥ tx.ins.length then "rejected" else
  if true then
    match Spec.bip341Digest sha ht tx (tx.ins.map (fun i => fetch i.prev)) idx annex ext with
    | .ok d => listToHex d
    | .error _ => "err"
  else
    let sh := Model.newTxSigHashes sha tx fetch
    showOut (Model.calcTaprootSignatureHashRaw sha sh ht tx idx fetch
      (Model.mkOpts sha annex (ext.map (fun e => (e.leafHash, e.codeSepPos)))))

/-- caller options of the exported taproot entry points, applied in order over the defaults:
`A.<annex>` = WithAnnex, `B.<pos>.<leafhash>` = WithBaseTapscriptVersion -/
def applyOpts : List String → Option Bytes × Option Spec.TapExt → Option (Option Bytes × Option Spec.TapExt)
  | [], st => some st
  | o :: rest, (annex, ext) =>
    match o.splitOn "." with
    | ["A", a] => do
      let a ← hexToList? a
      applyOpts rest (some a, ext)
    | ["B", pos, lh] => do
      let pos ← u32? pos
      let lh ← hexToList? lh
      applyOpts rest (annex, some ⟨lh, 0, pos⟩)
    | _ => none

/-- exported CalcTaprootSignatureHash (leaf `x`) / CalcTapscriptSignaturehash with a supplied (`c`)
or nil (`n`) midstate and any caller option list -/
def handleTapOpt (tx : Tx) (spent : List TxOut) (idx : Nat) (ht : UInt32) (cache : String)
    (annex : Option Bytes) (ext : Option Spec.TapExt) : String :=
  -- nil midstate: outside the documented domain; rejection or the supplied-midstate digest are admissible
  if cache == "n" then "nil-rejected-or-equal"
  else handleTap tx spent idx ht annex ext

def annex? (s : String) : Option (Option Bytes) :=
  if s == "x" then some none else (hexToList? s).map some

def ext? (s : String) : Option (Option Spec.TapExt) :=
  if s == "x" then some none else
  match s.splitOn ":" with
  | [lh, cs] => do
    let lh ← hexToList? lh
    let cs ← u32? cs
    pure (some ⟨lh, 0, cs⟩)
  | _ => none

/-- sigcache op: `a:hash:sig:pk` add, `e:hash:sig:pk` exists.
sigcache history at the property level: for every Exists, was the triple ever added (by value)?
(A hit on anything else is unsound -- the harness marks it `U`; misses are always admissible: capacity,
overwriting and eviction are internal.) The capacity token is ignored. -/
def sigCacheRun (_cap : Nat) (ops : List String) : Option String := do
  let mut added : List (Bytes × Bytes × Bytes) := []
  let mut out : List String := []
  for o in ops do
    match o.splitOn ":" with
    | ["x", _] => pure ()   -- the caller overwrites its own buffers: entries are values
    | [k, h, s, p] =>
      let h ← hexToList? h
      let s ← hexToList? s
      let p ← hexToList? p
      if k == "a" then added := (h, s, p) :: added
      else if k == "e" then out := out ++ [if added.contains (h, s, p) then "1" else "0"]
      else none
    | _ => none
  pure (if out.isEmpty then "-" else String.intercalate "," out)

/-- the midstate as the property sees it: V0 hashes only for a transaction with a v0 input,
taproot-only hashes only with a taproot input -/
def showMidFor (s : Model.SigHashes) (v : Bool × Bool) : String :=
  listToHex (s.hashPrevOutsV1 ++ s.hashSequenceV1 ++ s.hashOutputsV1) ++ ":" ++
  (if v.1 then listToHex (s.hashPrevOutsV0 ++ s.hashSequenceV0 ++ s.hashOutputsV0) else "-") ++ ":" ++
  (if v.2 then listToHex (s.hashInputScriptsV1 ++ s.hashInputAmountsV1) else "-")

def parseTxs : Nat → List String → Option (List (Tx × List TxOut) × List String)
  | 0, rest => some ([], rest)
  | n+1, t :: s :: rest => do
    let tx ← tx? t
    let sp ← spent? s
    if sp.length ≠ tx.ins.length then none
    let (l, r) ← parseTxs n rest
    pure ((tx, sp) :: l, r)
  | _, _ => none

def hashCacheRun (txs : List (Tx × List TxOut)) (ops : List String) : Option String := do
  let mut c : Model.HashCache := []
  let mut out : List String := []
  for o in ops do
    match o.splitOn ":" with
    | [k, i] =>
      let i ← i.toNat?
      let (tx, sp) ← txs[i]?
      let txid := sha (sha (txSerNoWitness tx))
      let m := mkFetchMap tx sp
      if k == "a" then c := c.add txid (Model.newTxSigHashes sha tx (fetchOf m))
      else if k == "g" then out := out ++ [match c.get txid with
        | some s => showMidFor s (Model.scanInputs (fetchOf m) tx.ins false false) | none => "none"]
      else if k == "c" then out := out ++ [if (c.get txid).isSome then "1" else "0"]
      else if k == "p" then c := c.purge txid
      else if k == "m" then pure ()   -- the caller scribbles over its transaction: midstates are values
      else none
    | _ => none
  pure (if out.isEmpty then "-" else String.intercalate "," out)

def splitBar (ts : List String) : List (List String) :=
  let (acc, cur) := ts.foldl (fun (st : List (List String) × List String) t =>
    if t == "|" then (st.1 ++ [st.2], []) else (st.1, st.2 ++ [t])) ([], [])
  acc ++ [cur]

def midReuse (tx1 : Tx) (sp1 : List TxOut) (tx2 : Tx) (sp2 : List TxOut) (idx : Nat) (ht : UInt32) :
    String :=
  let m1 := mkFetchMap tx1 sp1
  let m2 := mkFetchMap tx2 sp2
  let f1 := fetchOf m1
  let sh1 := Model.newTxSigHashes sha tx1 f1
  let sh2 := Model.newTxSigHashes sha tx2 (fetchOf m2)
  let k1 := Model.scanInputs f1 tx1.ins false false
  let k2 := Model.scanInputs (fetchOf m2) tx2.ins false false
  showMidFor sh1 k1 ++ "," ++
    (if k1.1 then showOut (Model.calcWitnessSignatureHashRaw sha [0xac] sh1 ht tx1 idx 12345) else "-") ++ "," ++
    (if k1.2 then showOut (Model.calcTaprootSignatureHashRaw sha sh1 ht tx1 idx f1 {}) else "-") ++ "," ++
    showMidFor sh2 k2

partial def handle : List String → String
  | "conc" :: rest => String.intercalate "|" ((splitBar rest).map handle)
  | "sigconc" :: cap :: rest =>
    match cap.toNat? with
    | some cap => String.intercalate "|" ((splitBar rest).map (fun h => (sigCacheRun (cap - cap + 1000000) h).getD "bad-op"))
    | none => "bad-op"
  | "hashconc" :: n :: rest =>
    match n.toNat? with
    | some n =>
      match parseTxs n rest with
      | some (txs, ops) =>
        String.intercalate "|" ((splitBar ops).map (fun o => (hashCacheRun txs o).getD "bad-op"))
      | none => "bad-op"
    | none => "bad-op"
  | ["midreuse", t1, s1, t2, s2, idx, ht] =>
    match tx? t1, spent? s1, tx? t2, spent? s2, idx.toNat?, u32? ht with
    | some t1, some s1, some t2, some s2, some idx, some ht =>
      if s1.length ≠ t1.ins.length ∨ s2.length ≠ t2.ins.length then "bad-op" else midReuse t1 s1 t2 s2 idx ht
    | _, _, _, _, _, _ => "bad-op"
  | ["sigevict", _, _, _] => "sound"
  | "hashcache" :: n :: rest =>
    match n.toNat? with
    | some n =>
      match parseTxs n rest with
      | some (txs, ops) => (hashCacheRun txs ops).getD "bad-op"
      | none => "bad-op"
    | none => "bad-op"
  | "sigcache" :: cap :: ops =>
    match cap.toNat? with
    | some cap => (sigCacheRun (cap - cap + 1000000) ops).getD "bad-op"
    | none => "bad-op"
  | ["sign", form, _mode, _cache, ht, idx, otx, osp, mtx, msp] =>
    -- `ht` may be a `+`-separated list: one hash type per signature the input carries (co-signers of a
    -- multisig may each choose their own); every one of them must still verify
    match Expect.Form.parse? form, (ht.splitOn "+").mapM u32?, idx.toNat?, tx? otx, spent? osp, tx? mtx, spent? msp with
    | some form, some hts, some idx, some otx, some osp, some mtx, some msp =>
      if idx ≥ mtx.ins.length ∨ idx ≥ msp.length then "bad-op" else
      if hts.all (fun ht => Expect.stillVerifies form ht idx ⟨otx, osp⟩ ⟨mtx, msp⟩) then "verified" else "failed"
    | _, _, _, _, _, _, _ => "bad-op"
  -- SignTxOutput on a pkScript class it cannot sign must return an error (never a script)
  | ["signclass", _class, _obs] => "err"
  -- helper-signed at exec time, unmutated: must verify
  | ["signexec", _kind, _seed, _ht, _nIn, _nOut, _idx] => "verified"
  | ["helper", form, ht, idx, _nIns, nOuts, _obs] =>
    match Expect.Form.parse? form, u32? ht, idx.toNat?, nOuts.toNat? with
    | some form, some ht, some idx, some nOuts =>
      if Expect.helperErrs form ht idx nOuts then "err" else "ok"
    | _, _, _, _ => "bad-op"
  | ["legacyvec", tx, idx, ht, script, want] =>
    match tx? tx, idx.toNat?, u32? ht, hexToList? script with
    | some tx, some idx, some ht, some script =>
      match Spec.legacySigHash sha script ht tx idx with
      | some d => if listToHex d == want then "match" else listToHex d
      | none => "err"
    | _, _, _, _ => "bad-op"
  | [op, tx, idx, ht, script] =>
    if op == "legacy" || op == "legacyapi" then
      match tx? tx, idx.toNat?, u32? ht, hexToList? script with
      | some tx, some idx, some ht, some script => handleLegacy (op == "legacyapi") tx idx ht script
      | _, _, _, _ => "bad-op"
    else "bad-op"
  | ["tapapi", tx, sp, idx, ht, annex, leaf] =>
    -- exported CalcTaprootSignatureHash / CalcTapscriptSignaturehash (leaf = `ver:script`)
    match tx? tx, spent? sp, idx.toNat?, u32? ht, annex? annex with
    | some tx, some sp, some idx, some ht, some annex =>
      if sp.length ≠ tx.ins.length then "bad-op" else
      if leaf == "x" then handleTap tx sp idx ht none none else
      match leaf.splitOn ":" with
      | [v, sc] =>
        match v.toNat?, hexToList? sc with
        | some v, some sc =>
          if v ≥ 256 then "bad-op" else
          handleTap tx sp idx ht annex
            (some ⟨Spec.tapLeafHash sha (UInt8.ofNat v) sc, 0, Spec.BLANK_CODESEP⟩)
        | _, _ => "bad-op"
      | _ => "bad-op"
    | _, _, _, _, _ => "bad-op"
  | ["tapopt", tx, sp, idx, ht, cache, _fetcher, leaf, opts] =>
    match tx? tx, spent? sp, idx.toNat?, u32? ht with
    | some tx, some sp, some idx, some ht =>
      if sp.length ≠ tx.ins.length then "bad-op" else
      if leaf == "x" then handleTapOpt tx sp idx ht cache none none else
      match leaf.splitOn ":" with
      | [v, sc] =>
        match v.toNat?, hexToList? sc with
        | some v, some sc =>
          if v ≥ 256 then "bad-op" else
          let dflt : Option Bytes × Option Spec.TapExt :=
            (none, some ⟨Spec.tapLeafHash sha (UInt8.ofNat v) sc, 0, Spec.BLANK_CODESEP⟩)
          match applyOpts (if opts == "-" then [] else opts.splitOn ",") dflt with
          | some (annex, ext) => handleTapOpt tx sp idx ht cache annex ext
          | none => "bad-op"
        | _, _ => "bad-op"
      | _ => "bad-op"
    | _, _, _, _ => "bad-op"
  -- nil midstate: outside the documented domain; rejection or the supplied-midstate digest are admissible
  | ["witapinil", _, _, _, _, _] => "nil-rejected-or-equal"
  | ["witnil", _, _, _, _, _] => "nil-rejected-or-equal"
  | ["tapnil", _, _, _, _, _, _] => "nil-rejected-or-equal"
  | [op, tx, sp, idx, ht, sub, amt] =>
    if op == "wit" || op == "witapi" then
      match tx? tx, spent? sp, idx.toNat?, u32? ht, hexToList? sub, i64? amt with
      | some tx, some sp, some idx, some ht, some sub, some amt =>
        if sp.length ≠ tx.ins.length then "bad-op" else handleWit (op == "witapi") tx sp idx ht sub amt
      | _, _, _, _, _, _ => "bad-op"
    else if op == "tap" then
      match tx? tx, spent? sp, idx.toNat?, u32? ht, annex? sub, ext? amt with
      | some tx, some sp, some idx, some ht, some annex, some ext =>
        if sp.length ≠ tx.ins.length then "bad-op" else handleTap tx sp idx ht annex ext
      | _, _, _, _, _, _ => "bad-op"
    else "bad-op"
  | ["rmop", script, op] =>
    match hexToList? script, op.toNat? with
    | some s, some o =>
      if o ≥ 256 then "bad-op" else
      match Spec.stripOp (UInt8.ofNat o) s with
      | some r => listToHexTok r
      | none => "out-of-domain"
    | _, _ => "bad-op"
  | ["rmdata", script, data] =>
    match hexToList? script, hexToList? data with
    | some s, some d =>
      match Spec.findAndDelete s d with
      | some (r, m) => listToHexTok r ++ " " ++ (if m then "1" else "0")
      | none => "out-of-domain"
    | _, _ => "bad-op"
  | _ => "bad-op"

end BV.C07.Driver
