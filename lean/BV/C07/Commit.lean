/-
C07 helper lemmas: "commits to exactly": the messages depend only on the committed fields, and
(with collision-freeness of the inner hashes on the strings involved) determine them.
-/
import BV.C07.Spec
import BV.C07.SerLemmas
set_option linter.unusedSimpArgs false
namespace BV.C07.Commit
open BV.C07 BV.C07.Spec

/-! ### from field agreement to equality of projections, and back -/

theorem map_eq_of_forall {α β : Type} (l₁ l₂ : List α) (p : α → β)
    (h : ∀ i : Nat, (l₁[i]?).map p = (l₂[i]?).map p) : l₁.map p = l₂.map p := by
  apply List.ext_getElem?
  intro i
  simp [List.getElem?_map, h i]

theorem forall_of_map_eq {α β : Type} (l₁ l₂ : List α) (p : α → β)
    (h : l₁.map p = l₂.map p) (i : Nat) : (l₁[i]?).map p = (l₂[i]?).map p := by
  have := congrArg (fun l => l[i]?) h
  simpa [List.getElem?_map] using this

theorem length_eq_of_map_eq {α β : Type} (l₁ l₂ : List α) (p : α → β)
    (h : l₁.map p = l₂.map p) : l₁.length = l₂.length := by
  have := congrArg List.length h
  simpa using this

theorem flatMap_comp {α β : Type} (l : List α) (p : α → β) (f : β → Bytes) :
    l.flatMap (fun a => f (p a)) = (l.map p).flatMap f := by
  rw [List.flatMap_map]

/-! ### what agreement on a committed set gives -/

section agree
variable {S : Field → Bool} {c₁ c₂ : Ctx} (h : AgreeOn S c₁ c₂)
include h

theorem ag_version (hs : S .version = true) : c₁.tx.version = c₂.tx.version := by
  have := h _ hs; simpa [Field.get] using this
theorem ag_lockTime (hs : S .lockTime = true) : c₁.tx.lockTime = c₂.tx.lockTime := by
  have := h _ hs; simpa [Field.get] using this
theorem ag_prevout (i : Nat) (hs : S (.prevout i) = true) :
    (c₁.tx.ins[i]?).map TxIn.prev = (c₂.tx.ins[i]?).map TxIn.prev := by
  have := h _ hs; simpa [Field.get] using this
theorem ag_sequence (i : Nat) (hs : S (.sequence i) = true) :
    (c₁.tx.ins[i]?).map TxIn.sequence = (c₂.tx.ins[i]?).map TxIn.sequence := by
  have := h _ hs; simpa [Field.get] using this
theorem ag_output (j : Nat) (hs : S (.output j) = true) : c₁.tx.outs[j]? = c₂.tx.outs[j]? := by
  have := h _ hs; simpa [Field.get] using this
theorem ag_amount (i : Nat) (hs : S (.spentAmount i) = true) :
    (c₁.spent[i]?).map TxOut.value = (c₂.spent[i]?).map TxOut.value := by
  have := h _ hs; simpa [Field.get] using this
theorem ag_script (i : Nat) (hs : S (.spentScript i) = true) :
    (c₁.spent[i]?).map TxOut.pkScript = (c₂.spent[i]?).map TxOut.pkScript := by
  have := h _ hs; simpa [Field.get] using this
theorem ag_nIns (hs : S .nIns = true) : c₁.tx.ins.length = c₂.tx.ins.length := by
  have := h _ hs; simpa [Field.get] using this
theorem ag_nOuts (hs : S .nOuts = true) : c₁.tx.outs.length = c₂.tx.outs.length := by
  have := h _ hs; simpa [Field.get] using this

theorem ag_all_prevouts (hs : ∀ i, S (.prevout i) = true) :
    c₁.tx.ins.map TxIn.prev = c₂.tx.ins.map TxIn.prev :=
  map_eq_of_forall _ _ _ (fun i => ag_prevout h i (hs i))
theorem ag_all_sequences (hs : ∀ i, S (.sequence i) = true) :
    c₁.tx.ins.map TxIn.sequence = c₂.tx.ins.map TxIn.sequence :=
  map_eq_of_forall _ _ _ (fun i => ag_sequence h i (hs i))
theorem ag_all_outputs (hs : ∀ j, S (.output j) = true) : c₁.tx.outs = c₂.tx.outs :=
  List.ext_getElem? (fun j => ag_output h j (hs j))
theorem ag_all_amounts (hs : ∀ i, S (.spentAmount i) = true) :
    c₁.spent.map TxOut.value = c₂.spent.map TxOut.value :=
  map_eq_of_forall _ _ _ (fun i => ag_amount h i (hs i))
theorem ag_all_scripts (hs : ∀ i, S (.spentScript i) = true) :
    c₁.spent.map TxOut.pkScript = c₂.spent.map TxOut.pkScript :=
  map_eq_of_forall _ _ _ (fun i => ag_script h i (hs i))
end agree

theorem single_not_none (ht : UInt32) (h : isSingle ht = true) : isNone ht = false := by
  simp only [isSingle, beq_iff_eq] at h
  simp [isNone, h]

/-! ### BIP143: independence of uncommitted fields -/

theorem bip143_independent (H : Bytes → Bytes) (sc : Bytes) (ht : UInt32) (idx : Nat)
    (c₁ c₂ : Ctx) (h : AgreeOn (bip143Committed ht idx) c₁ c₂) :
    bip143MsgC H sc ht idx c₁ = bip143MsgC H sc ht idx c₂ := by
  have hv := ag_version h rfl
  have hl := ag_lockTime h rfl
  have hp := ag_prevout h idx (by simp [bip143Committed])
  have hs := ag_sequence h idx (by simp [bip143Committed])
  have ha := ag_amount h idx (by simp [bip143Committed])
  have e1 : hashPrevouts H ht c₁.tx = hashPrevouts H ht c₂.tx := by
    unfold hashPrevouts
    cases hacp : acp ht
    · have := ag_all_prevouts h (fun i => by simp [bip143Committed, hacp])
      rw [flatMap_comp c₁.tx.ins TxIn.prev outPointSer, flatMap_comp c₂.tx.ins TxIn.prev outPointSer, this]
    · simp
  have e2 : hashSequence H ht c₁.tx = hashSequence H ht c₂.tx := by
    unfold hashSequence
    by_cases hc : (!acp ht && !isSingle ht && !isNone ht) = true
    · have hc' := hc
      simp only [Bool.and_eq_true, Bool.not_eq_true'] at hc'
      have := ag_all_sequences h (fun i => by simp [bip143Committed, hc'.1.1, hc'.1.2, hc'.2])
      rw [if_pos hc, if_pos hc, flatMap_comp c₁.tx.ins TxIn.sequence le32,
        flatMap_comp c₂.tx.ins TxIn.sequence le32, this]
    · simp [hc]
  have e3 : hashOutputs H ht c₁.tx idx = hashOutputs H ht c₂.tx idx := by
    unfold hashOutputs
    cases hsg : isSingle ht <;> cases hn : isNone ht
    · have := ag_all_outputs h (fun j => by simp [bip143Committed, hsg, hn])
      simp [this]
    · simp
    · have := ag_output h idx (by simp [bip143Committed, hsg, hn])
      simp [this]
    · exact absurd hn (by simp [single_not_none ht hsg])
  unfold bip143MsgC bip143Msg Ctx.amount
  rw [e1, e2, e3, hv, hl, ha]
  cases h1 : c₁.tx.ins[idx]? <;> cases h2 : c₂.tx.ins[idx]? <;> simp [h1, h2] at hp hs ⊢
  simp [hp, hs]

theorem getD_congr (s₁ s₂ : List TxOut) (idx : Nat)
    (hv : (s₁[idx]?).map TxOut.value = (s₂[idx]?).map TxOut.value)
    (hs : (s₁[idx]?).map TxOut.pkScript = (s₂[idx]?).map TxOut.pkScript) :
    s₁.getD idx ⟨0, []⟩ = s₂.getD idx ⟨0, []⟩ := by
  simp only [List.getD]
  cases h1 : s₁[idx]? <;> cases h2 : s₂[idx]? <;> simp [h1, h2] at hv hs ⊢
  rename_i a b
  cases a; cases b; simp_all

theorem bip341_independent (H : Bytes → Bytes) (ht : UInt32) (idx : Nat) (annex : Option Bytes)
    (ext : Option TapExt) (c₁ c₂ : Ctx) (h : AgreeOn (bip341Committed ht idx) c₁ c₂) :
    bip341MsgC H ht idx annex ext c₁ = bip341MsgC H ht idx annex ext c₂ := by
  have hv := ag_version h rfl
  have hl := ag_lockTime h rfl
  have hp := ag_prevout h idx (by simp [bip341Committed])
  have hs := ag_sequence h idx (by simp [bip341Committed])
  have ha := ag_amount h idx (by simp [bip341Committed])
  have hsc := ag_script h idx (by simp [bip341Committed])
  have hsp := getD_congr _ _ idx ha hsc
  have eA : (if !acp ht then
        H (c₁.tx.ins.flatMap (fun i => outPointSer i.prev)) ++
        H (c₁.spent.flatMap (fun o => le64 o.value)) ++
        H (c₁.spent.flatMap (fun o => varBytes o.pkScript)) ++
        H (c₁.tx.ins.flatMap (fun i => le32 i.sequence)) else []) =
      (if !acp ht then
        H (c₂.tx.ins.flatMap (fun i => outPointSer i.prev)) ++
        H (c₂.spent.flatMap (fun o => le64 o.value)) ++
        H (c₂.spent.flatMap (fun o => varBytes o.pkScript)) ++
        H (c₂.tx.ins.flatMap (fun i => le32 i.sequence)) else []) := by
    cases hacp : acp ht
    · have h1 := ag_all_prevouts h (fun i => by simp [bip341Committed, hacp])
      have h2 := ag_all_sequences h (fun i => by simp [bip341Committed, hacp])
      have h3 := ag_all_amounts h (fun i => by simp [bip341Committed, hacp])
      have h4 := ag_all_scripts h (fun i => by simp [bip341Committed, hacp])
      rw [flatMap_comp c₁.tx.ins TxIn.prev outPointSer, flatMap_comp c₂.tx.ins TxIn.prev outPointSer,
        flatMap_comp c₁.tx.ins TxIn.sequence le32, flatMap_comp c₂.tx.ins TxIn.sequence le32,
        flatMap_comp c₁.spent TxOut.value le64, flatMap_comp c₂.spent TxOut.value le64,
        flatMap_comp c₁.spent TxOut.pkScript varBytes, flatMap_comp c₂.spent TxOut.pkScript varBytes,
        h1, h2, h3, h4]
    · simp
  have eB : (if (ht &&& 3) != 2 && (ht &&& 3) != 3 then H (c₁.tx.outs.flatMap txOutSer) else []) =
      (if (ht &&& 3) != 2 && (ht &&& 3) != 3 then H (c₂.tx.outs.flatMap txOutSer) else []) := by
    by_cases hc : ((ht &&& 3) != 2 && (ht &&& 3) != 3) = true
    · have hc' := hc
      simp only [Bool.and_eq_true, bne_iff_ne, ne_eq] at hc'
      have := ag_all_outputs h (fun j => by simp [bip341Committed, hc'.1, hc'.2])
      rw [this]
    · simp [hc]
  have eO : (ht &&& 3) = 3 → c₁.tx.outs[idx]? = c₂.tx.outs[idx]? := by
    intro h3
    have h2 : ¬ (ht &&& 3) = 2 := by rw [h3]; decide
    exact ag_output h idx (by simp [bip341Committed, h3, h2])
  unfold bip341MsgC bip341Msg
  rw [eA, eB, hv, hl, hsp]
  by_cases hvalid : ht ∈ validTaprootHashTypes
  · simp only [hvalid, not_true_eq_false, if_false]
    cases h1 : c₁.tx.ins[idx]? <;> cases h2 : c₂.tx.ins[idx]? <;> simp [h1, h2] at hp hs ⊢
    by_cases h3 : (ht &&& 3) = 3
    · have := eO h3
      have hlen : (c₁.tx.outs.length ≤ idx) = (c₂.tx.outs.length ≤ idx) := by
        have e1 := @List.getElem?_eq_none_iff _ c₁.tx.outs idx
        have e2 := @List.getElem?_eq_none_iff _ c₂.tx.outs idx
        rw [this] at e1
        exact propext (e1.symm.trans e2)
      simp [h3, this, hlen, hp, hs]
    · simp [h3, hp, hs]
  · simp [hvalid]


theorem legacy_independent (sc : Bytes) (ht : UInt32) (idx : Nat)
    (c₁ c₂ : Ctx) (h : AgreeOn (legacyCommitted ht idx) c₁ c₂) :
    legacyMsgC sc ht idx c₁ = legacyMsgC sc ht idx c₂ := by
  have hv := ag_version h rfl
  have hl := ag_lockTime h rfl
  have hp := ag_prevout h idx (by simp [legacyCommitted])
  have hs := ag_sequence h idx (by simp [legacyCommitted])
  have eO : legacyOutputs ht idx c₁.tx.outs = legacyOutputs ht idx c₂.tx.outs := by
    unfold legacyOutputs
    cases hn : isNone ht
    · cases hsg : isSingle ht
      · have := ag_all_outputs h (fun j => by simp [legacyCommitted, hsg, hn])
        simp [this]
      · have := ag_output h idx (by simp [legacyCommitted, hsg, hn])
        simp [this]
    · simp
  have eDeg : isSingle ht = true → (c₁.tx.outs.length ≤ idx) = (c₂.tx.outs.length ≤ idx) := by
    intro hsg
    have := ag_output h idx (by simp [legacyCommitted, hsg, single_not_none ht hsg])
    have e1 := @List.getElem?_eq_none_iff _ c₁.tx.outs idx
    have e2 := @List.getElem?_eq_none_iff _ c₂.tx.outs idx
    rw [this] at e1
    exact propext (e1.symm.trans e2)
  have eI : acp ht = false →
      varint c₁.tx.ins.length ++ (c₁.tx.ins.mapIdx (legacyInputSer sc ht idx)).flatten =
      varint c₂.tx.ins.length ++ (c₂.tx.ins.mapIdx (legacyInputSer sc ht idx)).flatten := by
    intro hacp
    have hn := ag_nIns h (by simp [legacyCommitted, hacp])
    have : c₁.tx.ins.mapIdx (legacyInputSer sc ht idx) = c₂.tx.ins.mapIdx (legacyInputSer sc ht idx) := by
      apply List.ext_getElem?
      intro i
      simp only [List.getElem?_mapIdx]
      have hpi := ag_prevout h i (by simp [legacyCommitted, hacp])
      by_cases hc : i ≠ idx ∧ (isNone ht = true ∨ isSingle ht = true)
      · cases h1 : c₁.tx.ins[i]? <;> cases h2 : c₂.tx.ins[i]? <;> simp [h1, h2] at hpi ⊢
        simp [legacyInputSer, hc, hpi]
      · have hsi : (c₁.tx.ins[i]?).map TxIn.sequence = (c₂.tx.ins[i]?).map TxIn.sequence := by
          by_cases hi : i = idx
          · rw [hi]; exact hs
          · have hc' : isNone ht = false ∧ isSingle ht = false := by
              cases hn' : isNone ht <;> cases hs' : isSingle ht <;> simp_all
            exact ag_sequence h i (by simp [legacyCommitted, hacp, hc'.1, hc'.2])
        cases h1 : c₁.tx.ins[i]? <;> cases h2 : c₂.tx.ins[i]? <;> simp [h1, h2] at hpi hsi ⊢
        simp [legacyInputSer, hc, hpi, hsi]
    rw [this, hn]
  unfold legacyMsgC legacyMsg
  rw [eO, hv, hl]
  cases h1 : c₁.tx.ins[idx]? <;> cases h2 : c₂.tx.ins[idx]? <;> simp [h1, h2] at hp hs ⊢
  by_cases hsg : isSingle ht = true
  · by_cases hd : c₂.tx.outs.length ≤ idx
    · have hd1 : c₁.tx.outs.length ≤ idx := by rw [eDeg hsg]; exact hd
      simp [hsg, hd, hd1]
    · have hd1 : ¬ c₁.tx.outs.length ≤ idx := by rw [eDeg hsg]; exact hd
      cases hacp : acp ht
      · simp [hsg, hd, hd1, eI hacp]
      · simp [hsg, hd, hd1, legacyInputSer, hp, hs]
  · cases hacp : acp ht
    · simp [hsg, eI hacp]
    · simp [hsg, legacyInputSer, hp, hs]


theorem length_zero32 : zero32.length = 32 := by simp [zero32]

theorem mem_of_getElem? {α : Type} {l : List α} {i : Nat} {a : α} (h : l[i]? = some a) : a ∈ l := by
  rcases List.getElem?_eq_some_iff.mp h with ⟨hl, rfl⟩
  exact List.getElem_mem hl

theorem outPointSer_ne_nil (o : OutPoint) (h : o.wf) : outPointSer o ≠ [] := by
  intro e; have := congrArg List.length e; rw [length_outPointSer o h] at this; simp at this

theorem prevs_eq_of_ser (t₁ t₂ : Tx) (w₁ : t₁.wf) (w₂ : t₂.wf)
    (h : t₁.ins.flatMap (fun i => outPointSer i.prev) = t₂.ins.flatMap (fun i => outPointSer i.prev)) :
    t₁.ins.map TxIn.prev = t₂.ins.map TxIn.prev := by
  rw [flatMap_comp t₁.ins TxIn.prev outPointSer, flatMap_comp t₂.ins TxIn.prev outPointSer] at h
  refine flatMap_pd_eq outPointSer_pd outPointSer_ne_nil _ _ ?_ ?_ h
  · intro x hx; simp only [List.mem_map] at hx; obtain ⟨i, hi, rfl⟩ := hx; exact (w₁.1 i hi).1
  · intro x hx; simp only [List.mem_map] at hx; obtain ⟨i, hi, rfl⟩ := hx; exact (w₂.1 i hi).1

theorem seqs_eq_of_ser (t₁ t₂ : Tx)
    (h : t₁.ins.flatMap (fun i => le32 i.sequence) = t₂.ins.flatMap (fun i => le32 i.sequence)) :
    t₁.ins.map TxIn.sequence = t₂.ins.map TxIn.sequence := by
  rw [flatMap_comp t₁.ins TxIn.sequence le32, flatMap_comp t₂.ins TxIn.sequence le32] at h
  exact flatMap_pd_eq le32_pd (fun a _ => le32_ne_nil a) _ _ (fun _ _ => trivial) (fun _ _ => trivial) h

theorem outs_eq_of_ser (t₁ t₂ : Tx) (w₁ : t₁.wf) (w₂ : t₂.wf)
    (h : t₁.outs.flatMap txOutSer = t₂.outs.flatMap txOutSer) : t₁.outs = t₂.outs :=
  flatMap_pd_eq txOutSer_pd (fun a _ => txOutSer_ne_nil a) _ _ w₁.2.1 w₂.2.1 h

theorem bip143_injective (H : Bytes → Bytes) (sc : Bytes) (ht : UInt32) (idx : Nat)
    (c₁ c₂ : Ctx) (w₁ : c₁.wf) (w₂ : c₂.wf)
    (hok : HashOK (dH H) (bip143Hashed idx c₁.tx ++ bip143Hashed idx c₂.tx))
    (m : Bytes) (h₁ : bip143MsgC H sc ht idx c₁ = some m) (h₂ : bip143MsgC H sc ht idx c₂ = some m) :
    AgreeOn (bip143Committed ht idx) c₁ c₂ := by
  unfold bip143MsgC bip143Msg at h₁ h₂
  cases hi1 : c₁.tx.ins[idx]? with
  | none => simp [hi1] at h₁
  | some i1 =>
  cases hi2 : c₂.tx.ins[idx]? with
  | none => simp [hi2] at h₂
  | some i2 =>
  simp only [hi1, hi2, Option.some.injEq] at h₁ h₂
  have E := h₁.trans h₂.symm
  -- membership of the hashed strings
  have mP1 : c₁.tx.ins.flatMap (fun i => outPointSer i.prev) ∈
      bip143Hashed idx c₁.tx ++ bip143Hashed idx c₂.tx := by simp [bip143Hashed]
  have mP2 : c₂.tx.ins.flatMap (fun i => outPointSer i.prev) ∈
      bip143Hashed idx c₁.tx ++ bip143Hashed idx c₂.tx := by simp [bip143Hashed]
  have mS1 : c₁.tx.ins.flatMap (fun i => le32 i.sequence) ∈
      bip143Hashed idx c₁.tx ++ bip143Hashed idx c₂.tx := by simp [bip143Hashed]
  have mS2 : c₂.tx.ins.flatMap (fun i => le32 i.sequence) ∈
      bip143Hashed idx c₁.tx ++ bip143Hashed idx c₂.tx := by simp [bip143Hashed]
  have mO1 : c₁.tx.outs.flatMap txOutSer ∈
      bip143Hashed idx c₁.tx ++ bip143Hashed idx c₂.tx := by simp [bip143Hashed]
  have mO2 : c₂.tx.outs.flatMap txOutSer ∈
      bip143Hashed idx c₁.tx ++ bip143Hashed idx c₂.tx := by simp [bip143Hashed]
  have mo1 : ∀ o, c₁.tx.outs[idx]? = some o → txOutSer o ∈
      bip143Hashed idx c₁.tx ++ bip143Hashed idx c₂.tx := by
    intro o ho; simp [bip143Hashed, ho]
  have mo2 : ∀ o, c₂.tx.outs[idx]? = some o → txOutSer o ∈
      bip143Hashed idx c₁.tx ++ bip143Hashed idx c₂.tx := by
    intro o ho; simp [bip143Hashed, ho]
  -- piece lengths
  have lP : ∀ c : Ctx, (c = c₁ ∨ c = c₂) → (hashPrevouts H ht c.tx).length = 32 := by
    intro c hc; unfold hashPrevouts
    cases acp ht
    · rcases hc with rfl | rfl <;> simp [hok.len _ mP1, hok.len _ mP2]
    · simp [length_zero32]
  have lS : ∀ c : Ctx, (c = c₁ ∨ c = c₂) → (hashSequence H ht c.tx).length = 32 := by
    intro c hc; unfold hashSequence
    by_cases hcond : (!acp ht && !isSingle ht && !isNone ht) = true
    · rcases hc with rfl | rfl <;> simp [hcond, hok.len _ mS1, hok.len _ mS2]
    · simp [hcond, length_zero32]
  have lO : ∀ c : Ctx, (c = c₁ ∨ c = c₂) → (hashOutputs H ht c.tx idx).length = 32 := by
    intro c hc; unfold hashOutputs
    by_cases hcond : (!isSingle ht && !isNone ht) = true
    · rcases hc with rfl | rfl <;> simp [hcond, hok.len _ mO1, hok.len _ mO2]
    · simp only [hcond, if_false]
      cases isSingle ht
      · simp [length_zero32]
      · rcases hc with rfl | rfl
        · cases ho : c.tx.outs[idx]? with
          | none => simp [length_zero32]
          | some o => simp [hok.len _ (mo1 o ho)]
        · cases ho : c.tx.outs[idx]? with
          | none => simp [length_zero32]
          | some o => simp [hok.len _ (mo2 o ho)]
  have wp1 : i1.prev.wf := (w₁.1.1 i1 (mem_of_getElem? hi1)).1
  have wp2 : i2.prev.wf := (w₂.1.1 i2 (mem_of_getElem? hi2)).1
  -- peel the message
  simp only [List.append_assoc] at E
  have s1 := List.append_inj E (by simp [length_le32])
  have s2 := List.append_inj s1.2 (by rw [lP c₁ (Or.inl rfl), lP c₂ (Or.inr rfl)])
  have s3 := List.append_inj s2.2 (by rw [lS c₁ (Or.inl rfl), lS c₂ (Or.inr rfl)])
  have s4 := List.append_inj s3.2 (by rw [length_outPointSer _ wp1, length_outPointSer _ wp2])
  have s5 := List.append_inj s4.2 rfl
  have s6 := List.append_inj s5.2 (by simp [length_le64])
  have s7 := List.append_inj s6.2 (by simp [length_le32])
  have s8 := List.append_inj s7.2 (by rw [lO c₁ (Or.inl rfl), lO c₂ (Or.inr rfl)])
  have s9 := List.append_inj s8.2 (by simp [length_le32])
  have eV := le32_inj s1.1
  have ePrev := outPointSer_inj wp1 wp2 s4.1
  have eAmt := le64_inj s6.1
  have eSeq := le32_inj s7.1
  have eLt := le32_inj s9.1
  have eHP := s2.1
  have eHS := s3.1
  have eHO := s8.1
  -- consequences of the inner hashes being equal
  have fPrev : acp ht = false → c₁.tx.ins.map TxIn.prev = c₂.tx.ins.map TxIn.prev := by
    intro ha
    unfold hashPrevouts at eHP
    simp only [ha, Bool.not_false, if_true] at eHP
    exact prevs_eq_of_ser _ _ w₁.1 w₂.1 (hok.inj _ mP1 _ mP2 eHP)
  have fSeq : acp ht = false → isSingle ht = false → isNone ht = false →
      c₁.tx.ins.map TxIn.sequence = c₂.tx.ins.map TxIn.sequence := by
    intro ha hs hn
    unfold hashSequence at eHS
    simp only [ha, hs, hn, Bool.not_false, Bool.and_self, if_true] at eHS
    exact seqs_eq_of_ser _ _ (hok.inj _ mS1 _ mS2 eHS)
  have fOuts : isSingle ht = false → isNone ht = false → c₁.tx.outs = c₂.tx.outs := by
    intro hs hn
    unfold hashOutputs at eHO
    simp only [hs, hn, Bool.not_false, Bool.and_self, if_true] at eHO
    exact outs_eq_of_ser _ _ w₁.1 w₂.1 (hok.inj _ mO1 _ mO2 eHO)
  have fOut : isSingle ht = true → c₁.tx.outs[idx]? = c₂.tx.outs[idx]? := by
    intro hs
    unfold hashOutputs at eHO
    simp only [hs, Bool.not_true, Bool.false_and, Bool.false_eq_true, if_false, if_true] at eHO
    cases ho1 : c₁.tx.outs[idx]? with
    | none =>
      cases ho2 : c₂.tx.outs[idx]? with
      | none => rfl
      | some o2 =>
        simp only [ho1, ho2] at eHO
        exact absurd eHO.symm (hok.nz _ (mo2 o2 ho2))
    | some o1 =>
      cases ho2 : c₂.tx.outs[idx]? with
      | none =>
        simp only [ho1, ho2] at eHO
        exact absurd eHO (hok.nz _ (mo1 o1 ho1))
      | some o2 =>
        simp only [ho1, ho2] at eHO
        have := hok.inj _ (mo1 o1 ho1) _ (mo2 o2 ho2) eHO
        have := txOutSer_pd.inj (w₁.1.2.1 o1 (mem_of_getElem? ho1)) (w₂.1.2.1 o2 (mem_of_getElem? ho2)) this
        rw [this]
  have hlt1 : idx < c₁.spent.length := by
    rw [w₁.2.1]; exact (List.getElem?_eq_some_iff.mp hi1).1
  have hlt2 : idx < c₂.spent.length := by
    rw [w₂.2.1]; exact (List.getElem?_eq_some_iff.mp hi2).1
  have fAmt : (c₁.spent[idx]?).map TxOut.value = (c₂.spent[idx]?).map TxOut.value := by
    unfold Ctx.amount at eAmt
    rw [List.getElem?_eq_getElem hlt1, List.getElem?_eq_getElem hlt2] at eAmt ⊢
    simpa using eAmt
  -- field by field
  intro f hf
  cases f with
  | version => simp [Field.get, eV]
  | lockTime => simp [Field.get, eLt]
  | nIns =>
    simp only [bip143Committed, Bool.not_eq_true'] at hf
    simp [Field.get, length_eq_of_map_eq _ _ _ (fPrev hf)]
  | nOuts =>
    simp only [bip143Committed, Bool.and_eq_true, Bool.not_eq_true'] at hf
    simp [Field.get, fOuts hf.2 hf.1]
  | prevout i =>
    simp only [bip143Committed, Bool.or_eq_true, Bool.not_eq_true', beq_iff_eq] at hf
    simp only [Field.get, Val.op.injEq]
    rcases hf with ha | rfl
    · exact forall_of_map_eq _ _ _ (fPrev ha) i
    · simp [hi1, hi2, ePrev]
  | sequence i =>
    simp only [bip143Committed, Bool.or_eq_true, Bool.and_eq_true, Bool.not_eq_true', beq_iff_eq] at hf
    simp only [Field.get, Val.seq.injEq]
    rcases hf with rfl | ha
    · simp [hi1, hi2, eSeq]
    · exact forall_of_map_eq _ _ _ (fSeq ha.1.1 ha.2 ha.1.2) i
  | scriptSig i => simp [bip143Committed] at hf
  | witness i => simp [bip143Committed] at hf
  | output j =>
    simp only [bip143Committed] at hf
    simp only [Field.get, Val.out.injEq]
    cases hn : isNone ht
    · cases hs : isSingle ht
      · rw [fOuts hs hn]
      · simp only [hn, hs, Bool.false_eq_true, if_false, if_true, beq_iff_eq] at hf
        rw [hf]; exact fOut hs
    · simp [hn] at hf
  | spentAmount i =>
    simp only [bip143Committed, beq_iff_eq] at hf
    simp only [Field.get, Val.amt.injEq]
    rw [hf]; exact fAmt
  | spentScript i => simp [bip143Committed] at hf


theorem amounts_eq_of_ser (s₁ s₂ : List TxOut)
    (h : s₁.flatMap (fun o => le64 o.value) = s₂.flatMap (fun o => le64 o.value)) :
    s₁.map TxOut.value = s₂.map TxOut.value := by
  rw [flatMap_comp s₁ TxOut.value le64, flatMap_comp s₂ TxOut.value le64] at h
  exact flatMap_pd_eq le64_pd (fun a _ => le64_ne_nil a) _ _ (fun _ _ => trivial) (fun _ _ => trivial) h

theorem scripts_eq_of_ser (s₁ s₂ : List TxOut) (w₁ : ∀ o ∈ s₁, o.wf) (w₂ : ∀ o ∈ s₂, o.wf)
    (h : s₁.flatMap (fun o => varBytes o.pkScript) = s₂.flatMap (fun o => varBytes o.pkScript)) :
    s₁.map TxOut.pkScript = s₂.map TxOut.pkScript := by
  rw [flatMap_comp s₁ TxOut.pkScript varBytes, flatMap_comp s₂ TxOut.pkScript varBytes] at h
  refine flatMap_pd_eq varBytes_pd (fun a _ => varBytes_ne_nil a) _ _ ?_ ?_ h
  · intro x hx; simp only [List.mem_map] at hx; obtain ⟨o, ho, rfl⟩ := hx; exact w₁ o ho
  · intro x hx; simp only [List.mem_map] at hx; obtain ⟨o, ho, rfl⟩ := hx; exact w₂ o ho

theorem split_if (b : Bool) (X₁ X₂ Y T₁ T₂ : Bytes)
    (h : (if b = true then X₁ else Y) ++ T₁ = (if b = true then X₂ else Y) ++ T₂) :
    (b = true → X₁ ++ T₁ = X₂ ++ T₂) ∧ (b = false → T₁ = T₂) := by
  cases b
  · simp at h; simp [h]
  · simp at h; simp [h]

theorem bip341_injective (H : Bytes → Bytes) (ht : UInt32) (idx : Nat) (annex : Option Bytes)
    (ext : Option TapExt) (c₁ c₂ : Ctx) (w₁ : c₁.wf) (w₂ : c₂.wf)
    (hok : HashOK H (bip341Hashed idx c₁ ++ bip341Hashed idx c₂))
    (m : Bytes) (h₁ : bip341MsgC H ht idx annex ext c₁ = .ok m)
    (h₂ : bip341MsgC H ht idx annex ext c₂ = .ok m) :
    AgreeOn (bip341Committed ht idx) c₁ c₂ := by
  unfold bip341MsgC bip341Msg at h₁ h₂
  by_cases hvalid : ht ∈ validTaprootHashTypes
  case neg => simp [hvalid] at h₁
  simp only [hvalid, not_true_eq_false, if_false] at h₁ h₂
  cases hi1 : c₁.tx.ins[idx]? with
  | none => simp [hi1] at h₁
  | some i1 =>
  cases hi2 : c₂.tx.ins[idx]? with
  | none => simp [hi2] at h₂
  | some i2 =>
  simp only [hi1, hi2] at h₁ h₂
  by_cases hd1 : ((ht &&& 3) == 3) = true ∧ idx ≥ c₁.tx.outs.length
  case pos => simp [hd1] at h₁
  by_cases hd2 : ((ht &&& 3) == 3) = true ∧ idx ≥ c₂.tx.outs.length
  case pos => simp [hd2] at h₂
  simp only [hd1, hd2, if_false, Except.ok.injEq] at h₁ h₂
  have E := h₁.trans h₂.symm
  clear h₁ h₂
  have hlt1 : idx < c₁.spent.length := by
    rw [w₁.2.1]; exact (List.getElem?_eq_some_iff.mp hi1).1
  have hlt2 : idx < c₂.spent.length := by
    rw [w₂.2.1]; exact (List.getElem?_eq_some_iff.mp hi2).1
  have hg1 : c₁.spent.getD idx ⟨0, []⟩ = c₁.spent[idx] := by simp [List.getD, List.getElem?_eq_getElem hlt1]
  have hg2 : c₂.spent.getD idx ⟨0, []⟩ = c₂.spent[idx] := by simp [List.getD, List.getElem?_eq_getElem hlt2]
  rw [hg1, hg2] at E
  -- membership of the hashed strings
  have mem : ∀ x, (x ∈ bip341Hashed idx c₁ ∨ x ∈ bip341Hashed idx c₂) →
      x ∈ bip341Hashed idx c₁ ++ bip341Hashed idx c₂ := by
    intro x hx; exact List.mem_append.mpr hx
  have mP1 := mem (c₁.tx.ins.flatMap (fun i => outPointSer i.prev)) (Or.inl (by simp [bip341Hashed]))
  have mP2 := mem (c₂.tx.ins.flatMap (fun i => outPointSer i.prev)) (Or.inr (by simp [bip341Hashed]))
  have mA1 := mem (c₁.spent.flatMap (fun o => le64 o.value)) (Or.inl (by simp [bip341Hashed]))
  have mA2 := mem (c₂.spent.flatMap (fun o => le64 o.value)) (Or.inr (by simp [bip341Hashed]))
  have mC1 := mem (c₁.spent.flatMap (fun o => varBytes o.pkScript)) (Or.inl (by simp [bip341Hashed]))
  have mC2 := mem (c₂.spent.flatMap (fun o => varBytes o.pkScript)) (Or.inr (by simp [bip341Hashed]))
  have mS1 := mem (c₁.tx.ins.flatMap (fun i => le32 i.sequence)) (Or.inl (by simp [bip341Hashed]))
  have mS2 := mem (c₂.tx.ins.flatMap (fun i => le32 i.sequence)) (Or.inr (by simp [bip341Hashed]))
  have mO1 := mem (c₁.tx.outs.flatMap txOutSer) (Or.inl (by simp [bip341Hashed]))
  have mO2 := mem (c₂.tx.outs.flatMap txOutSer) (Or.inr (by simp [bip341Hashed]))
  have mo1 : ∀ o, c₁.tx.outs[idx]? = some o → txOutSer o ∈ bip341Hashed idx c₁ ++ bip341Hashed idx c₂ := by
    intro o ho; exact mem _ (Or.inl (by simp [bip341Hashed, ho]))
  have mo2 : ∀ o, c₂.tx.outs[idx]? = some o → txOutSer o ∈ bip341Hashed idx c₁ ++ bip341Hashed idx c₂ := by
    intro o ho; exact mem _ (Or.inr (by simp [bip341Hashed, ho]))
  simp only [List.append_assoc, List.cons_append, List.nil_append, List.cons.injEq, true_and] at E
  have s1 := List.append_inj E (by simp [length_le32])
  have s2 := List.append_inj s1.2 (by simp [length_le32])
  have eV := le32_inj s1.1
  have eLt := le32_inj s2.1
  have lenA : (if (!acp ht) = true then
            H (List.flatMap (fun i => outPointSer i.prev) c₁.tx.ins) ++
              (H (List.flatMap (fun o => le64 o.value) c₁.spent) ++
                (H (List.flatMap (fun o => varBytes o.pkScript) c₁.spent) ++
                  H (List.flatMap (fun i => le32 i.sequence) c₁.tx.ins)))
          else []).length = (if (!acp ht) = true then
            H (List.flatMap (fun i => outPointSer i.prev) c₂.tx.ins) ++
              (H (List.flatMap (fun o => le64 o.value) c₂.spent) ++
                (H (List.flatMap (fun o => varBytes o.pkScript) c₂.spent) ++
                  H (List.flatMap (fun i => le32 i.sequence) c₂.tx.ins)))
          else []).length := by
    cases acp ht
    · simp [hok.len _ mP1, hok.len _ mP2, hok.len _ mA1, hok.len _ mA2, hok.len _ mC1, hok.len _ mC2,
        hok.len _ mS1, hok.len _ mS2]
    · simp
  have s3 := List.append_inj s2.2 lenA
  have lenB : (if (ht &&& 3 != 2 && ht &&& 3 != 3) = true then H (List.flatMap txOutSer c₁.tx.outs) else []).length =
      (if (ht &&& 3 != 2 && ht &&& 3 != 3) = true then H (List.flatMap txOutSer c₂.tx.outs) else []).length := by
    by_cases hc : (ht &&& 3 != 2 && ht &&& 3 != 3) = true
    · simp [hc, hok.len _ mO1, hok.len _ mO2]
    · simp [hc]
  have s4 := List.append_inj s3.2 lenB
  have s5 := (List.cons.injEq _ _ _ _ ▸ s4.2 : _ ∧ _).2
  -- consequences
  have fAll : acp ht = false →
      c₁.tx.ins.map TxIn.prev = c₂.tx.ins.map TxIn.prev ∧
      c₁.spent.map TxOut.value = c₂.spent.map TxOut.value ∧
      c₁.spent.map TxOut.pkScript = c₂.spent.map TxOut.pkScript ∧
      c₁.tx.ins.map TxIn.sequence = c₂.tx.ins.map TxIn.sequence := by
    intro ha
    have e := s3.1
    simp only [ha, Bool.not_false, if_true] at e
    have a1 := List.append_inj e (by rw [hok.len _ mP1, hok.len _ mP2])
    have a2 := List.append_inj a1.2 (by rw [hok.len _ mA1, hok.len _ mA2])
    have a3 := List.append_inj a2.2 (by rw [hok.len _ mC1, hok.len _ mC2])
    exact ⟨prevs_eq_of_ser _ _ w₁.1 w₂.1 (hok.inj _ mP1 _ mP2 a1.1),
      amounts_eq_of_ser _ _ (hok.inj _ mA1 _ mA2 a2.1),
      scripts_eq_of_ser _ _ w₁.2.2 w₂.2.2 (hok.inj _ mC1 _ mC2 a3.1),
      seqs_eq_of_ser _ _ (hok.inj _ mS1 _ mS2 a3.2)⟩
  have fOuts : (ht &&& 3) ≠ 2 → (ht &&& 3) ≠ 3 → c₁.tx.outs = c₂.tx.outs := by
    intro h2 h3
    have e := s4.1
    have hc : (ht &&& 3 != 2 && ht &&& 3 != 3) = true := by simp [h2, h3]
    simp only [hc, if_true] at e
    exact outs_eq_of_ser _ _ w₁.1 w₂.1 (hok.inj _ mO1 _ mO2 e)
  have wp1 : i1.prev.wf := (w₁.1.1 i1 (mem_of_getElem? hi1)).1
  have wp2 : i2.prev.wf := (w₂.1.1 i2 (mem_of_getElem? hi2)).1
  have ws1 : c₁.spent[idx].wf := w₁.2.2 _ (List.getElem_mem hlt1)
  have ws2 : c₂.spent[idx].wf := w₂.2.2 _ (List.getElem_mem hlt2)
  have sC := split_if _ _ _ _ _ _ s5
  have fC : acp ht = true → i1.prev = i2.prev ∧ c₁.spent[idx].value = c₂.spent[idx].value ∧
      c₁.spent[idx].pkScript = c₂.spent[idx].pkScript ∧ i1.sequence = i2.sequence := by
    intro ha
    have e := sC.1 ha
    simp only [List.append_assoc] at e
    have a1 := List.append_inj e (by rw [length_outPointSer _ wp1, length_outPointSer _ wp2])
    have a2 := List.append_inj a1.2 (by simp [length_le64])
    have a3 := varBytes_pd _ _ _ _ ws1 ws2 a2.2
    have a4 := List.append_inj a3.2 (by simp [length_le32])
    exact ⟨outPointSer_inj wp1 wp2 a1.1, le64_inj a2.1, a3.1, le32_inj a4.1⟩
  have hT := (by
    cases ha : acp ht
    · exact sC.2 ha
    · have e := sC.1 ha
      simp only [List.append_assoc] at e
      have a1 := List.append_inj e (by rw [length_outPointSer _ wp1, length_outPointSer _ wp2])
      have a2 := List.append_inj a1.2 (by simp [length_le64])
      have a3 := varBytes_pd _ _ _ _ ws1 ws2 a2.2
      have a4 := List.append_inj a3.2 (by simp [length_le32])
      exact a4.2 : _ = _)
  have hE := List.append_cancel_right (List.append_inj hT rfl).2
  have fOut : (ht &&& 3) = 3 → c₁.tx.outs[idx]? = c₂.tx.outs[idx]? := by
    intro h3
    have hb : ((ht &&& 3) == 3) = true := by simp [h3]
    simp only [hb, if_true] at hE
    have l1 : ¬ idx ≥ c₁.tx.outs.length := fun h => hd1 ⟨hb, h⟩
    have l2 : ¬ idx ≥ c₂.tx.outs.length := fun h => hd2 ⟨hb, h⟩
    have g1 : c₁.tx.outs[idx]? = some c₁.tx.outs[idx] := List.getElem?_eq_getElem (by omega)
    have g2 : c₂.tx.outs[idx]? = some c₂.tx.outs[idx] := List.getElem?_eq_getElem (by omega)
    rw [g1, g2] at hE ⊢
    simp only at hE
    have := hok.inj _ (mo1 _ g1) _ (mo2 _ g2) hE
    have := txOutSer_pd.inj (w₁.1.2.1 _ (mem_of_getElem? g1)) (w₂.1.2.1 _ (mem_of_getElem? g2)) this
    rw [this]
  have gi1 : c₁.spent[idx]? = some c₁.spent[idx] := List.getElem?_eq_getElem hlt1
  have gi2 : c₂.spent[idx]? = some c₂.spent[idx] := List.getElem?_eq_getElem hlt2
  intro f hf
  cases f with
  | version => simp [Field.get, eV]
  | lockTime => simp [Field.get, eLt]
  | nIns =>
    simp only [bip341Committed, Bool.not_eq_true'] at hf
    simp [Field.get, length_eq_of_map_eq _ _ _ (fAll hf).1]
  | nOuts =>
    simp only [bip341Committed, Bool.and_eq_true, bne_iff_ne, ne_eq] at hf
    simp [Field.get, fOuts hf.1 hf.2]
  | prevout i =>
    simp only [bip341Committed, Bool.or_eq_true, Bool.not_eq_true', beq_iff_eq] at hf
    simp only [Field.get, Val.op.injEq]
    cases ha : acp ht
    · exact forall_of_map_eq _ _ _ (fAll ha).1 i
    · rcases hf with h | rfl
      · rw [ha] at h; cases h
      · simp [hi1, hi2, (fC ha).1]
  | sequence i =>
    simp only [bip341Committed, Bool.or_eq_true, Bool.not_eq_true', beq_iff_eq] at hf
    simp only [Field.get, Val.seq.injEq]
    cases ha : acp ht
    · exact forall_of_map_eq _ _ _ (fAll ha).2.2.2 i
    · rcases hf with h | rfl
      · rw [ha] at h; cases h
      · simp [hi1, hi2, (fC ha).2.2.2]
  | spentAmount i =>
    simp only [bip341Committed, Bool.or_eq_true, Bool.not_eq_true', beq_iff_eq] at hf
    simp only [Field.get, Val.amt.injEq]
    cases ha : acp ht
    · exact forall_of_map_eq _ _ _ (fAll ha).2.1 i
    · rcases hf with h | rfl
      · rw [ha] at h; cases h
      · simp [gi1, gi2, (fC ha).2.1]
  | spentScript i =>
    simp only [bip341Committed, Bool.or_eq_true, Bool.not_eq_true', beq_iff_eq] at hf
    simp only [Field.get, Val.bytes.injEq]
    cases ha : acp ht
    · exact forall_of_map_eq _ _ _ (fAll ha).2.2.1 i
    · rcases hf with h | rfl
      · rw [ha] at h; cases h
      · simp [gi1, gi2, (fC ha).2.2.1]
  | scriptSig i => simp [bip341Committed] at hf
  | witness i => simp [bip341Committed] at hf
  | output j =>
    simp only [bip341Committed] at hf
    simp only [Field.get, Val.out.injEq]
    by_cases h2 : (ht &&& 3) = 2
    · simp [h2] at hf
    · by_cases h3 : (ht &&& 3) = 3
      · have : j = idx := by
          rw [h3] at hf
          simpa using hf
        rw [this]; exact fOut h3
      · rw [fOuts h2 h3]


end BV.C07.Commit
