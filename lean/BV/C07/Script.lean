/-
C07: script tokenisation (opcode boundaries), shared by Spec (token-level definitions of
code-separator removal / FindAndDelete) and Model (mirror of btcd's offset-based loops).
Mirrors txscript/tokenizer.go `ScriptTokenizer.Next` for script version 0. Core-only.
-/
import BV.C07.Ser
namespace BV.C07

/-- little-endian value of a byte string -/
def leNat : Bytes → Nat
  | [] => 0
  | b :: bs => b.toNat + 256 * leNat bs

/-- One parsed opcode: value, pushed data, and the raw bytes it occupies in the script. -/
structure Tok where
  op : UInt8
  data : Bytes
  raw : Bytes
  deriving DecidableEq, Repr

/-- number of length-header bytes following the opcode byte (OP_PUSHDATA1/2/4), 0 otherwise -/
def hdrLen (op : UInt8) : Nat :=
  if op = 0x4c then 1 else if op = 0x4d then 2 else if op = 0x4e then 4 else 0

def isPushOp (op : UInt8) : Bool := decide (1 ≤ op.toNat ∧ op.toNat ≤ 0x4e)

/-- `ScriptTokenizer.Next`: the first opcode of `s` and the remaining script; `none` at the end of the
script and on a malformed push (data running past the end, or a PUSHDATA4 length ≥ 2^31). -/
def nextTok (s : Bytes) : Option (Tok × Bytes) :=
  match s with
  | [] => none
  | op :: r =>
    if isPushOp op then
      let hb := hdrLen op
      if r.length < hb then none else
      let n := if hb = 0 then op.toNat else leNat (r.take hb)
      if n ≥ 2^31 then none else
      if (r.drop hb).length < n then none else
      some (⟨op, (r.drop hb).take n, op :: r.take (hb + n)⟩, r.drop (hb + n))
    else some (⟨op, [], [op]⟩, r)

/-- Tokens parsed before the end / the first malformed push, and whether the whole script parsed. -/
def tokenize : Nat → Bytes → List Tok × Bool
  | _, [] => ([], true)
  | 0, _ :: _ => ([], false)
  | f+1, s =>
    match nextTok s with
    | none => ([], false)
    | some (t, r) => let (ts, ok) := tokenize f r; (t :: ts, ok)

/-- `checkScriptParses` -/
def parses (s : Bytes) : Bool := (tokenize s.length s).2

/-- the tokens of a script; `none` iff the script does not parse -/
def parse (s : Bytes) : Option (List Tok) :=
  let (ts, ok) := tokenize s.length s
  if ok then some ts else none

/-- txscript.isCanonicalPush -/
def isCanonicalPush (op : UInt8) (data : Bytes) : Bool :=
  if op.toNat > 0x60 then true
  else if op.toNat < 0x4c ∧ op.toNat > 0 ∧ data.length = 1 ∧ (data.headD 0).toNat ≤ 16 then false
  else if op = 0x4c ∧ data.length < 0x4c then false
  else if op = 0x4d ∧ data.length ≤ 0xff then false
  else if op = 0x4e ∧ data.length ≤ 0xffff then false
  else true

def OP_CODESEPARATOR : UInt8 := 0xab

end BV.C07
