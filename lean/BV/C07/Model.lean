/-
C07 Model: executable mirror of btcd's txscript sighash code
(sighash.go: calcSignatureHash / shallowCopyTx, calcWitnessSignatureHashRaw,
calcTaprootSignatureHashRaw + options; hashcache.go: NewTxSigHashes, HashCache;
script.go: removeOpcodeRaw, removeOpcodeByData; sigcache.go: SigCache). Core-only.
-/
import BV.C07.Ser
import BV.C07.Script
namespace BV.C07.Model
open BV.C07

inductive Out
  | digest (d : Bytes)
  | err
  | panic
  deriving DecidableEq, Repr

/-! ### script.go -/

/-- loop of `removeOpcodeRaw`: `consumed` = script[:prevOffset], `result` = nil or the filtered copy -/
def removeOpcodeRawLoop (opcode : UInt8) : Nat → Bytes → Bytes → Option Bytes → Bytes × Option Bytes
  | 0, _, consumed, result => (consumed, result)
  | f+1, rest, consumed, result =>
    match nextTok rest with
    | none => (consumed, result)
    | some (t, rest') =>
      let result' :=
        if t.op = opcode then (match result with | none => some consumed | some r => some r)
        else result.map (· ++ t.raw)
      removeOpcodeRawLoop opcode f rest' (consumed ++ t.raw) result'

/-- `removeOpcodeRaw(script, opcode)` -/
def removeOpcodeRaw (script : Bytes) (opcode : UInt8) : Bytes :=
  if script.length = 0 then script else
  match (removeOpcodeRawLoop opcode script.length script [] none).2 with
  | none => script
  | some r => r

/-- loop of `removeOpcodeByData` / `removeOpcodeCanonical` -/
def removeOpcodeByDataLoop (dataToRemove : Bytes) :
    Nat → Bytes → Bytes → Option Bytes → Bool → Option Bytes × Bool
  | 0, _, _, result, m => (result, m)
  | f+1, rest, consumed, result, m =>
    match nextTok rest with
    | none => (result, m)
    | some (t, rest') =>
      if isCanonicalPush t.op t.data && t.data == dataToRemove then
        removeOpcodeByDataLoop dataToRemove f rest' (consumed ++ t.raw)
          (match result with | none => some consumed | some r => some r) true
      else
        removeOpcodeByDataLoop dataToRemove f rest' (consumed ++ t.raw)
          (result.map (· ++ t.raw)) m

/-- `removeOpcodeByData(script, dataToRemove)` -/
def removeOpcodeByData (script dataToRemove : Bytes) : Bytes × Bool :=
  if script.length = 0 ∨ dataToRemove.length = 0 then (script, false) else
  match removeOpcodeByDataLoop dataToRemove script.length script [] none false with
  | (none, m) => (script, m)
  | (some r, m) => (r, m)

/-! ### legacy: calcSignatureHash -/

def oneHash : Bytes := 1 :: List.replicate 31 0

/-- `calcSignatureHash` after the code separators were removed from the script (the removal is
pure, so doing it before the early SIGHASH_SINGLE return changes nothing).
`panic`: the slice expression `txCopy.TxIn[idx:idx+1]` with `idx ≥ len`. -/
def calcSignatureHashCore (H : Bytes → Bytes) (sigScript : Bytes) (hashType : UInt32) (tx : Tx)
    (idx : Nat) : Out :=
  if (hashType &&& 0x1f) = 3 ∧ idx ≥ tx.outs.length then .digest oneHash else
  -- shallow copy; blank every script but the signed one
  let ins := tx.ins.mapIdx (fun i (inp : TxIn) =>
    if i = idx then { inp with script := sigScript } else { inp with script := [] })
  let zeroSeq (l : List TxIn) : List TxIn :=
    l.mapIdx (fun i (inp : TxIn) => if i ≠ idx then { inp with sequence := 0 } else inp)
  let insOuts : List TxIn × List TxOut :=
    if (hashType &&& 0x1f) = 2 then (zeroSeq ins, ([] : List TxOut))
    else if (hashType &&& 0x1f) = 3 then
      (zeroSeq ins, (tx.outs.take (idx + 1)).mapIdx (fun i (o : TxOut) =>
        if i < idx then ({ value := 0xffffffffffffffff, pkScript := [] } : TxOut) else o))
    else (ins, tx.outs)
  if (hashType &&& 0x80) ≠ 0 then
    if idx ≥ insOuts.1.length then .panic else
    .digest (H (H (txSerNoWitness ⟨tx.version, (insOuts.1.drop idx).take 1, insOuts.2, tx.lockTime⟩ ++
      le32 hashType)))
  else
    .digest (H (H (txSerNoWitness ⟨tx.version, insOuts.1, insOuts.2, tx.lockTime⟩ ++ le32 hashType)))

/-- `calcSignatureHash(sigScript, hashType, tx, idx)`; `H` = SHA-256. -/
def calcSignatureHash (H : Bytes → Bytes) (sigScript : Bytes) (hashType : UInt32) (tx : Tx)
    (idx : Nat) : Out :=
  calcSignatureHashCore H (removeOpcodeRaw sigScript 0xab) hashType tx idx

/-- exported `CalcSignatureHash`: parse check first -/
def CalcSignatureHash (H : Bytes → Bytes) (script : Bytes) (hashType : UInt32) (tx : Tx)
    (idx : Nat) : Out :=
  if !parses script then .err else calcSignatureHash H script hashType tx idx

/-! ### hashcache.go -/

structure SigHashes where
  hashPrevOutsV0 : Bytes
  hashSequenceV0 : Bytes
  hashOutputsV0 : Bytes
  hashPrevOutsV1 : Bytes
  hashSequenceV1 : Bytes
  hashOutputsV1 : Bytes
  hashInputScriptsV1 : Bytes
  hashInputAmountsV1 : Bytes
  deriving DecidableEq, Repr

def calcHashPrevOuts (H : Bytes → Bytes) (tx : Tx) : Bytes :=
  H (tx.ins.flatMap (fun i => i.prev.hash ++ le32 i.prev.index))
def calcHashSequence (H : Bytes → Bytes) (tx : Tx) : Bytes :=
  H (tx.ins.flatMap (fun i => le32 i.sequence))
def calcHashOutputs (H : Bytes → Bytes) (tx : Tx) : Bytes :=
  H (tx.outs.flatMap txOutSer)
def calcHashInputAmounts (H : Bytes → Bytes) (tx : Tx) (fetch : OutPoint → TxOut) : Bytes :=
  H (tx.ins.flatMap (fun i => le64 (fetch i.prev).value))
def calcHashInputScripts (H : Bytes → Bytes) (tx : Tx) (fetch : OutPoint → TxOut) : Bytes :=
  H (tx.ins.flatMap (fun i => varBytes (fetch i.prev).pkScript))

def isCoinbaseOutPoint (o : OutPoint) : Bool := o.index == 0xffffffff && o.hash == zero32

/-- `IsPayToTaproot` -/
def isPayToTaproot (s : Bytes) : Bool := s.length == 34 && s[0]? == some 0x51 && s[1]? == some 0x20

/-- the classification loop of `NewTxSigHashes` (with `continue` for coinbase inputs and the early
`break` once both kinds were seen): (hasV0Inputs, hasV1Inputs) -/
def scanInputs (fetch : OutPoint → TxOut) : List TxIn → Bool → Bool → Bool × Bool
  | [], v0, v1 => (v0, v1)
  | i :: rest, v0, v1 =>
    if isCoinbaseOutPoint i.prev then scanInputs fetch rest true v1
    else
      let v0' := if isPayToTaproot (fetch i.prev).pkScript then v0 else true
      let v1' := if isPayToTaproot (fetch i.prev).pkScript then true else v1
      if v0' && v1' then (v0', v1') else scanInputs fetch rest v0' v1'

/-- `NewTxSigHashes(tx, inputFetcher)` -/
def newTxSigHashes (H : Bytes → Bytes) (tx : Tx) (fetch : OutPoint → TxOut) : SigHashes :=
  let hasV0 := (scanInputs fetch tx.ins false false).1
  let hasV1 := (scanInputs fetch tx.ins false false).2
  let p1 := calcHashPrevOuts H tx
  let s1 := calcHashSequence H tx
  let o1 := calcHashOutputs H tx
  { hashPrevOutsV1 := p1, hashSequenceV1 := s1, hashOutputsV1 := o1,
    hashPrevOutsV0 := if hasV0 then H p1 else zero32,
    hashSequenceV0 := if hasV0 then H s1 else zero32,
    hashOutputsV0 := if hasV0 then H o1 else zero32,
    hashInputAmountsV1 := if hasV1 then calcHashInputAmounts H tx fetch else zero32,
    hashInputScriptsV1 := if hasV1 then calcHashInputScripts H tx fetch else zero32 }

/-- every midstate computed from scratch, unconditionally ("no cache") -/
def freshSigHashes (H : Bytes → Bytes) (tx : Tx) (fetch : OutPoint → TxOut) : SigHashes :=
  { hashPrevOutsV1 := calcHashPrevOuts H tx, hashSequenceV1 := calcHashSequence H tx,
    hashOutputsV1 := calcHashOutputs H tx,
    hashPrevOutsV0 := H (calcHashPrevOuts H tx), hashSequenceV0 := H (calcHashSequence H tx),
    hashOutputsV0 := H (calcHashOutputs H tx),
    hashInputAmountsV1 := calcHashInputAmounts H tx fetch,
    hashInputScriptsV1 := calcHashInputScripts H tx fetch }

/-- `HashCache`: txid-keyed map of midstates -/
abbrev HashCache := List (Bytes × SigHashes)
def HashCache.add (c : HashCache) (txid : Bytes) (s : SigHashes) : HashCache :=
  (txid, s) :: c.filter (fun e => e.1 != txid)
def HashCache.get (c : HashCache) (txid : Bytes) : Option SigHashes := c.lookup txid
def HashCache.purge (c : HashCache) (txid : Bytes) : HashCache := c.filter (fun e => e.1 != txid)

/-! ### BIP143: calcWitnessSignatureHashRaw -/

def isWitnessPubKeyHashScript (s : Bytes) : Bool :=
  s.length == 22 && s[0]? == some 0 && s[1]? == some 0x14

/-- double SHA-256 of `wire.WriteTxOut(tx.TxOut[idx])` (the index was bounds-checked by the caller) -/
def singleOutputHash (H : Bytes → Bytes) : Option TxOut → Bytes
  | some o => H (H (txOutSer o))
  | none => zero32

/-- `calcWitnessSignatureHashRaw(subScript, sigHashes, hashType, tx, idx, amt)` -/
def calcWitnessSignatureHashRaw (H : Bytes → Bytes) (subScript : Bytes) (sh : SigHashes)
    (hashType : UInt32) (tx : Tx) (idx : Nat) (amt : UInt64) : Out :=
  match tx.ins[idx]? with
  | none => .err
  | some txIn =>
    let b0 := le32 tx.version
    let b1 := if (hashType &&& 0x80) = 0 then sh.hashPrevOutsV0 else zero32
    let b2 :=
      if (hashType &&& 0x80) = 0 ∧ (hashType &&& 0x1f) ≠ 3 ∧ (hashType &&& 0x1f) ≠ 2
      then sh.hashSequenceV0 else zero32
    let b3 := txIn.prev.hash ++ le32 txIn.prev.index
    let b4 :=
      if isWitnessPubKeyHashScript subScript then
        [0x19] ++ [0x76] ++ [0xa9] ++ [0x14] ++ (subScript.drop 2).take 20 ++ [0x88] ++ [0xac]
      else varBytes subScript
    let b5 := le64 amt ++ le32 txIn.sequence
    let b6 :=
      if (hashType &&& 0x1f) ≠ 3 ∧ (hashType &&& 0x1f) ≠ 2 then sh.hashOutputsV0
      else if (hashType &&& 0x1f) = 3 ∧ idx < tx.outs.length then
        singleOutputHash H tx.outs[idx]?
      else zero32
    .digest (H (H (b0 ++ b1 ++ b2 ++ b3 ++ b4 ++ b5 ++ b6 ++ le32 tx.lockTime ++ le32 hashType)))

def SigHashes.zero : SigHashes := ⟨zero32, zero32, zero32, zero32, zero32, zero32, zero32, zero32⟩

/-- `calcWitnessSignatureHashRaw` called with `sigHashes == nil`: the first read of a midstate is a
nil-pointer dereference; ANYONECANPAY|NONE and ANYONECANPAY|SINGLE never read one. -/
def calcWitnessSignatureHashRawNil (H : Bytes → Bytes) (subScript : Bytes) (hashType : UInt32)
    (tx : Tx) (idx : Nat) (amt : UInt64) : Out :=
  match tx.ins[idx]? with
  | none => .err
  | some _ =>
    if (hashType &&& 0x80) = 0 ∨ ((hashType &&& 0x1f) ≠ 3 ∧ (hashType &&& 0x1f) ≠ 2) then .panic
    else calcWitnessSignatureHashRaw H subScript SigHashes.zero hashType tx idx amt

/-- exported `CalcWitnessSigHash` -/
def CalcWitnessSigHash (H : Bytes → Bytes) (script : Bytes) (sh : SigHashes) (hashType : UInt32)
    (tx : Tx) (idx : Nat) (amt : UInt64) : Out :=
  if !parses script then .err else calcWitnessSignatureHashRaw H script sh hashType tx idx amt

/-! ### BIP341: calcTaprootSignatureHashRaw -/

structure TaprootSigHashOptions where
  extFlag : UInt8 := 0
  annexHash : Option Bytes := none
  tapLeafHash : Bytes := []
  keyVersion : UInt8 := 0
  codeSepPos : UInt32 := 0
  deriving DecidableEq, Repr

def withAnnex (H : Bytes → Bytes) (annex : Bytes) (o : TaprootSigHashOptions) :
    TaprootSigHashOptions := { o with annexHash := some (H (varBytes annex)) }

def withBaseTapscriptVersion (codeSepPos : UInt32) (tapLeafHash : Bytes)
    (o : TaprootSigHashOptions) : TaprootSigHashOptions :=
  { o with extFlag := 1, tapLeafHash := tapLeafHash, keyVersion := 0, codeSepPos := codeSepPos }

/-- the option list the callers build: tapscript extension first, then the annex -/
def mkOpts (H : Bytes → Bytes) (annex : Option Bytes) (ext : Option (Bytes × UInt32)) :
    TaprootSigHashOptions :=
  let o : TaprootSigHashOptions := {}
  let o := match ext with
    | some e => withBaseTapscriptVersion e.2 e.1 o
    | none => o
  match annex with
  | some a => withAnnex H a o
  | none => o

/-- the exported functional options a caller can pass -/
inductive TapOpt
  | annex (a : Bytes)                                  -- WithAnnex
  | base (codeSepPos : UInt32) (tapLeafHash : Bytes)   -- WithBaseTapscriptVersion
  deriving DecidableEq, Repr

def applyOpt (H : Bytes → Bytes) (o : TaprootSigHashOptions) : TapOpt → TaprootSigHashOptions
  | .annex a => withAnnex H a o
  | .base p l => withBaseTapscriptVersion p l o

/-- `for _, sigHashOpt := range sigHashOpts { sigHashOpt(opts) }` -/
def applyOpts (H : Bytes → Bytes) (l : List TapOpt) (o : TaprootSigHashOptions) :
    TaprootSigHashOptions := l.foldl (applyOpt H) o

def tapLeafTag : Bytes := [0x54, 0x61, 0x70, 0x4c, 0x65, 0x61, 0x66]

/-- `TapLeaf.TapHash` -/
def tapHash (H : Bytes → Bytes) (leafVersion : UInt8) (script : Bytes) : Bytes :=
  H (H tapLeafTag ++ H tapLeafTag ++ ([leafVersion] ++ varBytes script))

def isValidTaprootSigHash (hashType : UInt32) : Bool :=
  hashType == 0 || hashType == 1 || hashType == 2 || hashType == 3 ||
  hashType == 0x81 || hashType == 0x82 || hashType == 0x83

def writeDigestExtensions (o : TaprootSigHashOptions) : Bytes :=
  if o.extFlag = 0 then []
  else if o.extFlag = 1 then o.tapLeafHash ++ [o.keyVersion] ++ le32 o.codeSepPos
  else []

def tapSighashTag : Bytes := [0x54, 0x61, 0x70, 0x53, 0x69, 0x67, 0x68, 0x61, 0x73, 0x68]

/-- `calcTaprootSignatureHashRaw(sigHashes, hType, tx, idx, prevOutFetcher, opts...)` -/
def calcTaprootSignatureHashRaw (H : Bytes → Bytes) (sh : SigHashes) (hType : UInt32) (tx : Tx)
    (idx : Nat) (fetch : OutPoint → TxOut) (opts : TaprootSigHashOptions) : Out :=
  if !isValidTaprootSigHash hType then .err else
  match tx.ins[idx]? with
  | none => .err
  | some input =>
    let m0 := [(0x00 : UInt8)] ++ [hType.toUInt8] ++ le32 tx.version ++ le32 tx.lockTime
    let m1 :=
      if (hType &&& 0x80) ≠ 0x80 then
        sh.hashPrevOutsV1 ++ sh.hashInputAmountsV1 ++ sh.hashInputScriptsV1 ++ sh.hashSequenceV1
      else []
    let m2 := if (hType &&& 3) ≠ 3 ∧ (hType &&& 3) ≠ 2 then sh.hashOutputsV1 else []
    let spendType : UInt8 := opts.extFlag * 2 + (if opts.annexHash.isSome then 1 else 0)
    let m3 :=
      if (hType &&& 0x80) = 0x80 then
        let prevOut := fetch input.prev
        (input.prev.hash ++ le32 input.prev.index) ++ txOutSer prevOut ++ le32 input.sequence
      else le32 (UInt32.ofNat idx)
    let m4 := match opts.annexHash with | some a => a | none => []
    if (hType &&& 0x1f) = 3 then
      match tx.outs[idx]? with
      | none => .err
      | some txOut =>
        .digest (H (H tapSighashTag ++ H tapSighashTag ++
          (m0 ++ m1 ++ m2 ++ [spendType] ++ m3 ++ m4 ++ H (txOutSer txOut) ++ writeDigestExtensions opts)))
    else
      .digest (H (H tapSighashTag ++ H tapSighashTag ++
        (m0 ++ m1 ++ m2 ++ [spendType] ++ m3 ++ m4 ++ writeDigestExtensions opts)))

/-- `calcTaprootSignatureHashRaw` called with `sigHashes == nil` -/
def calcTaprootSignatureHashRawNil (H : Bytes → Bytes) (hType : UInt32) (tx : Tx)
    (idx : Nat) (fetch : OutPoint → TxOut) (opts : TaprootSigHashOptions) : Out :=
  if !isValidTaprootSigHash hType then .err else
  match tx.ins[idx]? with
  | none => .err
  | some _ =>
    if (hType &&& 0x80) ≠ 0x80 ∨ ((hType &&& 3) ≠ 3 ∧ (hType &&& 3) ≠ 2) then .panic
    else calcTaprootSignatureHashRaw H SigHashes.zero hType tx idx fetch opts

/-- exported `CalcTaprootSignatureHash`: no options -/
def CalcTaprootSignatureHash (H : Bytes → Bytes) (sh : SigHashes) (hType : UInt32) (tx : Tx)
    (idx : Nat) (fetch : OutPoint → TxOut) : Out :=
  calcTaprootSignatureHashRaw H sh hType tx idx fetch (applyOpts H [] {})

/-- exported `CalcTapscriptSignaturehash`: the default `WithBaseTapscriptVersion(blank, leafHash)`
FIRST, then the caller's options in the order given (later options win) -/
def CalcTapscriptSignaturehash (H : Bytes → Bytes) (sh : SigHashes) (hType : UInt32) (tx : Tx)
    (idx : Nat) (fetch : OutPoint → TxOut) (leafVersion : UInt8) (script : Bytes)
    (sigHashOpts : List TapOpt) : Out :=
  calcTaprootSignatureHashRaw H sh hType tx idx fetch
    (applyOpts H (.base 0xffffffff (tapHash H leafVersion script) :: sigHashOpts) {})

/-! ### sigvalidate.go: which midstate the interpreter's verifiers use -/

/-- `baseSegwitSigVerifier.Verify` and (since the fix of F-C07-a) `newTaprootSigVerifier`: the
midstate supplied to `NewEngine` if there is one, `NewTxSigHashes(tx, prevOuts)` otherwise. -/
def engineMidstate (H : Bytes → Bytes) (supplied : Option SigHashes) (tx : Tx)
    (fetch : OutPoint → TxOut) : SigHashes :=
  match supplied with
  | some s => s
  | none => newTxSigHashes H tx fetch

def engineWitnessDigest (H : Bytes → Bytes) (supplied : Option SigHashes) (sub : Bytes)
    (hashType : UInt32) (tx : Tx) (idx : Nat) (amt : UInt64) (fetch : OutPoint → TxOut) : Out :=
  calcWitnessSignatureHashRaw H sub (engineMidstate H supplied tx fetch) hashType tx idx amt

def engineTaprootDigest (H : Bytes → Bytes) (supplied : Option SigHashes) (hType : UInt32) (tx : Tx)
    (idx : Nat) (fetch : OutPoint → TxOut) (opts : TaprootSigHashOptions) : Out :=
  calcTaprootSignatureHashRaw H (engineMidstate H supplied tx fetch) hType tx idx fetch opts

/-! ### sigcache.go -/

structure SigCacheEntry where
  sig : Bytes
  pubKey : Bytes
  deriving DecidableEq, Repr

/-- `SigCache`: map sigHash ↦ (sig, pubKey) with a capacity. -/
structure SigCache where
  validSigs : List (Bytes × SigCacheEntry)    -- keys unique
  maxEntries : Nat
  deriving Repr

def SigCache.new (maxEntries : Nat) : SigCache := ⟨[], maxEntries⟩

def SigCache.exists (s : SigCache) (sigHash sig pubKey : Bytes) : Bool :=
  match s.validSigs.lookup sigHash with
  | some e => e.pubKey == pubKey && e.sig == sig
  | none => false

/-- `Add`; `victim` is the position Go's map iteration happens to start at when the cache is full
(any value: the eviction is "random"). -/
def SigCache.add (s : SigCache) (victim : Nat) (sigHash sig pubKey : Bytes) : SigCache :=
  if s.maxEntries = 0 then s else
  let m :=
    if s.validSigs.length + 1 > s.maxEntries then s.validSigs.eraseIdx (victim % s.validSigs.length)
    else s.validSigs
  { s with validSigs := (sigHash, ⟨sig, pubKey⟩) :: m.filter (fun e => e.1 != sigHash) }

/-- one signature check request: eviction position, sigHash, signature, public key -/
structure SigReq where
  victim : Nat
  sigHash : Bytes
  sig : Bytes
  pubKey : Bytes
  deriving Repr

/-- `baseSigVerifier.verifySig` / `taprootSigVerifier.verifySig` with a cache: a hit answers
"valid" without verifying; a miss verifies (`V` = the real ECDSA/Schnorr check) and records success. -/
def verifySig (V : Bytes → Bytes → Bytes → Bool) (c : SigCache) (r : SigReq) : Bool × SigCache :=
  if c.exists r.sigHash r.sig r.pubKey then (true, c)
  else if V r.sigHash r.sig r.pubKey then (true, c.add r.victim r.sigHash r.sig r.pubKey)
  else (false, c)

/-- a whole history of checks against one cache: each request with the answer it got -/
def runVerify (V : Bytes → Bytes → Bytes → Bool) : SigCache → List SigReq → List (SigReq × Bool)
  | _, [] => []
  | c, r :: rs => (r, (verifySig V c r).1) :: runVerify V (verifySig V c r).2 rs

end BV.C07.Model
