/-
C07 helper lemmas: the expectation the driver computes for the signing cases (`Expect.stillVerifies`)
is exactly agreement on the committed field set.
-/
import BV.C07.Expect
set_option linter.unusedSimpArgs false
namespace BV.C07.Expect
open BV.C07 BV.C07.Spec

/-- is the field within the index bounds `allFields nIn nOut` enumerates -/
def inRange (nIn nOut : Nat) : Field → Prop
  | .prevout i | .sequence i | .scriptSig i | .witness i | .spentAmount i | .spentScript i => i < nIn
  | .output j => j < nOut
  | _ => True

theorem mem_allFields (nIn nOut : Nat) (f : Field) : f ∈ allFields nIn nOut ↔ inRange nIn nOut f := by
  unfold allFields
  cases f <;> simp [inRange, List.mem_flatMap, List.mem_range]

/-- outside the bounds every field reads "absent" in both contexts -/
theorem get_out_of_range (c₁ c₂ : Ctx) (f : Field)
    (h : ¬ inRange (max (max c₁.tx.ins.length c₂.tx.ins.length) (max c₁.spent.length c₂.spent.length))
      (max c₁.tx.outs.length c₂.tx.outs.length) f) : f.get c₁ = f.get c₂ := by
  cases f <;> simp only [inRange, not_true_eq_false] at h <;> simp only [Field.get]
  case output j =>
    have h' := Nat.le_of_not_lt h
    simp only [Nat.max_le] at h'
    simp [List.getElem?_eq_none, h'.1, h'.2]
  all_goals
    (have h' := Nat.le_of_not_lt h
     simp only [Nat.max_le] at h'
     simp [List.getElem?_eq_none, h'.1.1, h'.1.2, h'.2.1, h'.2.2])

theorem byFields_iff (S : Field → Bool) (c₁ c₂ : Ctx) :
    ((diffFields c₁ c₂).all (fun f => !S f)) = true ↔ AgreeOn S c₁ c₂ := by
  unfold diffFields AgreeOn
  simp only [List.all_eq_true, List.mem_filter, Bool.not_eq_true', bne_iff_ne, ne_eq, and_imp]
  constructor
  · intro h f hf
    by_cases hr : f ∈ allFields (max (max c₁.tx.ins.length c₂.tx.ins.length) (max c₁.spent.length c₂.spent.length))
        (max c₁.tx.outs.length c₂.tx.outs.length)
    · by_cases he : f.get c₁ = f.get c₂
      · exact he
      · have := h f hr he; rw [hf] at this; cases this
    · exact get_out_of_range c₁ c₂ f (fun hin => hr ((mem_allFields _ _ f).mpr hin))
  · intro h f _ hne
    cases hs : S f
    · rfl
    · exact absurd (h f hs) hne

end BV.C07.Expect
