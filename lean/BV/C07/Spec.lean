/-
C07 Spec: the signature-hash messages (preimages) and digests as the Bitcoin specifications define
them -- legacy (Satoshi client `SignatureHash` / CTransactionSignatureSerializer), BIP143, BIP341 with
the BIP342 extension -- written byte-for-byte from those documents, plus the set of transaction
fields each hash type commits to. `H` is single SHA-256 (abstract in theorems, the reference
implementation in the driver). Core-only.
-/
import BV.C07.Ser
import BV.C07.Script
namespace BV.C07.Spec
open BV.C07

/-! ### hash type bits -/
def SIGHASH_DEFAULT : UInt32 := 0
def SIGHASH_ALL : UInt32 := 1
def SIGHASH_NONE : UInt32 := 2
def SIGHASH_SINGLE : UInt32 := 3
def SIGHASH_ANYONECANPAY : UInt32 := 0x80
def SIGHASH_MASK : UInt32 := 0x1f
def BLANK_CODESEP : UInt32 := 0xffffffff

def base (ht : UInt32) : UInt32 := ht &&& 0x1f
def acp (ht : UInt32) : Bool := (ht &&& 0x80) != 0
def isNone (ht : UInt32) : Bool := base ht == 2
def isSingle (ht : UInt32) : Bool := base ht == 3

/-! ### hashes -/
def dH (H : Bytes → Bytes) (b : Bytes) : Bytes := H (H b)
/-- BIP340 tagged hash -/
def taggedH (H : Bytes → Bytes) (tag msg : Bytes) : Bytes := H (H tag ++ H tag ++ msg)
/-- "TapSighash" -/
def tapSighashTag : Bytes := [0x54, 0x61, 0x70, 0x53, 0x69, 0x67, 0x68, 0x61, 0x73, 0x68]

/-! ### script code rules (legacy) -/

/-- the script with every opcode equal to `op` removed (token level); `none` if it does not parse -/
def stripOp (op : UInt8) (s : Bytes) : Option Bytes :=
  (parse s).map (fun ts => (ts.filter (fun t => t.op != op)).flatMap (·.raw))

/-- FindAndDelete as btcd applies it: remove every canonical push whose data equals `sig`
(nothing is removed for an empty `sig`); also reports whether something was removed. -/
def findAndDelete (s sig : Bytes) : Option (Bytes × Bool) :=
  if sig = [] then (parse s).map (fun _ => (s, false)) else
  (parse s).map (fun ts =>
    ((ts.filter (fun t => !(isCanonicalPush t.op t.data && t.data == sig))).flatMap (·.raw),
     ts.any (fun t => isCanonicalPush t.op t.data && t.data == sig)))

/-- The script code a legacy CHECKSIG commits to: the executed sub-script (from the last executed
code separator), minus every canonical push of the signature being checked (nothing for an empty
signature), minus every remaining OP_CODESEPARATOR -- all at opcode boundaries. -/
def legacyScriptCode (sub sig : Bytes) : Option Bytes :=
  (parse sub).map (fun ts =>
    ((ts.filter (fun t => !(decide (sig ≠ []) && (isCanonicalPush t.op t.data && t.data == sig)))).filter
      (fun t => t.op != OP_CODESEPARATOR)).flatMap (·.raw))

/-! ### legacy -/

/-- uint256 one, little endian: the SIGHASH_SINGLE out-of-range "digest" -/
def oneHash : Bytes := 1 :: List.replicate 31 0

def blankOut : TxOut := ⟨0xffffffffffffffff, []⟩

/-- CTransactionSignatureSerializer::SerializeInput for input `i` when signing input `idx` -/
def legacyInputSer (scriptCode : Bytes) (ht : UInt32) (idx i : Nat) (inp : TxIn) : Bytes :=
  outPointSer inp.prev ++
  varBytes (if i = idx then scriptCode else []) ++
  le32 (if i ≠ idx ∧ (isNone ht ∨ isSingle ht) then 0 else inp.sequence)

/-- the outputs that are serialized: none / blanks up to `idx` then output `idx` / all -/
def legacyOutputs (ht : UInt32) (idx : Nat) (outs : List TxOut) : List TxOut :=
  if isNone ht then []
  else if isSingle ht then List.replicate idx blankOut ++ (outs[idx]?).toList
  else outs

inductive LegacyPre
  | one                    -- SIGHASH_SINGLE with no matching output: the constant 1
  | msg (m : Bytes)
  deriving DecidableEq, Repr

/-- Legacy signature-hash message for input `idx` (must be a valid input index: `none` otherwise),
`scriptCode` already stripped of the signature and of code separators. -/
def legacyMsg (scriptCode : Bytes) (ht : UInt32) (tx : Tx) (idx : Nat) : Option LegacyPre :=
  match tx.ins[idx]? with
  | none => none
  | some inp =>
    if isSingle ht ∧ idx ≥ tx.outs.length then some .one else
    let ins :=
      if acp ht then varint 1 ++ legacyInputSer scriptCode ht idx idx inp
      else varint tx.ins.length ++ (tx.ins.mapIdx (legacyInputSer scriptCode ht idx)).flatten
    let outs := legacyOutputs ht idx tx.outs
    some (.msg (le32 tx.version ++ ins ++ varint outs.length ++ outs.flatMap txOutSer ++
      le32 tx.lockTime ++ le32 ht))

def legacyDigestOf (H : Bytes → Bytes) : LegacyPre → Bytes
  | .one => oneHash
  | .msg m => dH H m

def legacyDigest (H : Bytes → Bytes) (scriptCode : Bytes) (ht : UInt32) (tx : Tx) (idx : Nat) :
    Option Bytes :=
  (legacyMsg scriptCode ht tx idx).map (legacyDigestOf H)

/-- Digest for a sub-script that still contains code separators (what `CalcSignatureHash` gets):
they are removed first. `none`: script does not parse or `idx` is not an input. -/
def legacySigHash (H : Bytes → Bytes) (script : Bytes) (ht : UInt32) (tx : Tx) (idx : Nat) :
    Option Bytes :=
  match stripOp OP_CODESEPARATOR script with
  | none => none
  | some sc => legacyDigest H sc ht tx idx

/-! ### BIP143 -/

def isP2WPKH (s : Bytes) : Bool := s.length == 22 && s[0]? == some 0 && s[1]? == some 0x14

/-- BIP143 scriptCode for a P2WPKH program: `OP_DUP OP_HASH160 <20> OP_EQUALVERIFY OP_CHECKSIG` -/
def p2pkhScript (h20 : Bytes) : Bytes := [0x76, 0xa9, 0x14] ++ h20 ++ [0x88, 0xac]

/-- scriptCode of the sub-script btcd passes around: the P2PKH script for a P2WPKH program, the
witness script (from the last executed code separator) otherwise. -/
def witScriptCode (sub : Bytes) : Bytes :=
  if isP2WPKH sub then p2pkhScript (sub.drop 2) else sub

def hashPrevouts (H : Bytes → Bytes) (ht : UInt32) (tx : Tx) : Bytes :=
  if !acp ht then dH H (tx.ins.flatMap (fun i => outPointSer i.prev)) else zero32

def hashSequence (H : Bytes → Bytes) (ht : UInt32) (tx : Tx) : Bytes :=
  if !acp ht && !isSingle ht && !isNone ht then dH H (tx.ins.flatMap (fun i => le32 i.sequence))
  else zero32

def hashOutputs (H : Bytes → Bytes) (ht : UInt32) (tx : Tx) (idx : Nat) : Bytes :=
  if !isSingle ht && !isNone ht then dH H (tx.outs.flatMap txOutSer)
  else if isSingle ht then
    match tx.outs[idx]? with
    | some o => dH H (txOutSer o)
    | none => zero32
  else zero32

/-- BIP143 message; `none` iff `idx` is not an input. -/
def bip143Msg (H : Bytes → Bytes) (scriptCode : Bytes) (ht : UInt32) (tx : Tx) (idx : Nat)
    (amt : UInt64) : Option Bytes :=
  match tx.ins[idx]? with
  | none => none
  | some inp => some (
      le32 tx.version ++ hashPrevouts H ht tx ++ hashSequence H ht tx ++
      outPointSer inp.prev ++ varBytes scriptCode ++ le64 amt ++ le32 inp.sequence ++
      hashOutputs H ht tx idx ++ le32 tx.lockTime ++ le32 ht)

def bip143Digest (H : Bytes → Bytes) (scriptCode : Bytes) (ht : UInt32) (tx : Tx) (idx : Nat)
    (amt : UInt64) : Option Bytes :=
  (bip143Msg H scriptCode ht tx idx amt).map (dH H)

/-! ### BIP341 / BIP342 -/

/-- "TapLeaf" -/
def tapLeafTag : Bytes := [0x54, 0x61, 0x70, 0x4c, 0x65, 0x61, 0x66]

/-- BIP341 leaf hash: hash_TapLeaf(leaf_version || compact_size(script) || script) -/
def tapLeafHash (H : Bytes → Bytes) (leafVersion : UInt8) (script : Bytes) : Bytes :=
  taggedH H tapLeafTag ([leafVersion] ++ varBytes script)

/-- BIP342 extension data -/
structure TapExt where
  leafHash : Bytes
  keyVersion : UInt8
  codeSepPos : UInt32
  deriving DecidableEq, Repr

inductive TapErr | hashType | index | single
  deriving DecidableEq, Repr

def validTaprootHashTypes : List UInt32 := [0x00, 0x01, 0x02, 0x03, 0x81, 0x82, 0x83]

/-- What a caller of the tapscript digest API asks for: the annex of the last annex option (if any),
and leaf hash / code separator position of the last explicit base-tapscript option, else the hash of
the leaf being signed with the "no code separator executed" position 0xffffffff. Key version 0. -/
def requestedAnnex : List (Option Bytes × Option (UInt32 × Bytes)) → Option Bytes
  | [] => none
  | (a, _) :: rest => match requestedAnnex rest with
    | some x => some x
    | none => a

def requestedExt (dflt : TapExt) : List (Option Bytes × Option (UInt32 × Bytes)) → TapExt
  | [] => dflt
  | (_, b) :: rest =>
    requestedExt (match b with | some (p, l) => ⟨l, 0, p⟩ | none => dflt) rest

/-- BIP341 `SigMsg(hash_type, ext_flag)` preceded by the epoch byte 0x00, with the BIP342 extension
when `ext` is given. `spent` are the outputs spent by the inputs, in input order. -/
def bip341Msg (H : Bytes → Bytes) (ht : UInt32) (tx : Tx) (spent : List TxOut) (idx : Nat)
    (annex : Option Bytes) (ext : Option TapExt) : Except TapErr Bytes :=
  if ht ∉ validTaprootHashTypes then .error .hashType else
  match tx.ins[idx]? with
  | none => .error .index
  | some inp =>
    if (ht &&& 3) == 3 ∧ idx ≥ tx.outs.length then .error .single else
    let sp := spent.getD idx ⟨0, []⟩
    .ok (
      [0x00] ++ [ht.toUInt8] ++ le32 tx.version ++ le32 tx.lockTime ++
      (if !acp ht then
        H (tx.ins.flatMap (fun i => outPointSer i.prev)) ++
        H (spent.flatMap (fun o => le64 o.value)) ++
        H (spent.flatMap (fun o => varBytes o.pkScript)) ++
        H (tx.ins.flatMap (fun i => le32 i.sequence)) else []) ++
      (if (ht &&& 3) != 2 && (ht &&& 3) != 3 then H (tx.outs.flatMap txOutSer) else []) ++
      [UInt8.ofNat ((if ext.isSome then 2 else 0) + (if annex.isSome then 1 else 0))] ++
      (if acp ht then outPointSer inp.prev ++ le64 sp.value ++ varBytes sp.pkScript ++ le32 inp.sequence
        else le32 (UInt32.ofNat idx)) ++
      (match annex with | some a => H (varBytes a) | none => []) ++
      (if (ht &&& 3) == 3 then
        match tx.outs[idx]? with | some o => H (txOutSer o) | none => [] else []) ++
      (match ext with
        | some e => e.leafHash ++ [e.keyVersion] ++ le32 e.codeSepPos
        | none => []))

def bip341Digest (H : Bytes → Bytes) (ht : UInt32) (tx : Tx) (spent : List TxOut) (idx : Nat)
    (annex : Option Bytes) (ext : Option TapExt) : Except TapErr Bytes :=
  (bip341Msg H ht tx spent idx annex ext).map (taggedH H tapSighashTag)

/-! ### what each hash type commits to -/

/-- Transaction-level fields (of the spending transaction and of the outputs it spends). -/
inductive Field
  | version | lockTime
  | nIns | nOuts
  | prevout (i : Nat) | sequence (i : Nat) | scriptSig (i : Nat) | witness (i : Nat)
  | output (j : Nat)
  | spentAmount (i : Nat) | spentScript (i : Nat)
  deriving DecidableEq, Repr

/-- value of a field -/
inductive Val
  | u32 (x : UInt32) | nat (n : Nat)
  | op (o : Option OutPoint) | seq (s : Option UInt32) | bytes (b : Option Bytes)
  | wit (w : Option (List Bytes)) | out (o : Option TxOut) | amt (a : Option UInt64)
  deriving DecidableEq, Repr

/-- The signing context the three digests read: the transaction and the outputs it spends. -/
structure Ctx where
  tx : Tx
  spent : List TxOut
  deriving DecidableEq, Repr

def Field.get (c : Ctx) : Field → Val
  | .version => .u32 c.tx.version
  | .lockTime => .u32 c.tx.lockTime
  | .nIns => .nat c.tx.ins.length
  | .nOuts => .nat c.tx.outs.length
  | .prevout i => .op ((c.tx.ins[i]?).map (·.prev))
  | .sequence i => .seq ((c.tx.ins[i]?).map (·.sequence))
  | .scriptSig i => .bytes ((c.tx.ins[i]?).map (·.script))
  | .witness i => .wit ((c.tx.ins[i]?).map (·.witness))
  | .output j => .out c.tx.outs[j]?
  | .spentAmount i => .amt ((c.spent[i]?).map (·.value))
  | .spentScript i => .bytes ((c.spent[i]?).map (·.pkScript))

def AgreeOn (S : Field → Bool) (c₁ c₂ : Ctx) : Prop := ∀ f, S f = true → f.get c₁ = f.get c₂

/-- Legacy, for the non-degenerate case (not SIGHASH_SINGLE with a missing output, where NOTHING is
committed). The script code (after FindAndDelete and code-separator removal), `idx` and the hash
type are committed besides. No amounts, no scriptSigs (the signed input's scriptSig is replaced by
the script code), no witnesses. With ANYONECANPAY not even the number of inputs. With SINGLE the
number of outputs is not committed beyond `idx < nOuts`. -/
def legacyCommitted (ht : UInt32) (idx : Nat) : Field → Bool
  | .version | .lockTime => true
  | .nIns => !acp ht
  | .prevout i => !acp ht || i == idx
  | .sequence i => i == idx || (!acp ht && !isNone ht && !isSingle ht)
  | .nOuts => !isNone ht && !isSingle ht
  | .output j => if isNone ht then false else if isSingle ht then j == idx else true
  | _ => false

/-- BIP143: as legacy plus the amount of the spent output; with SINGLE and no matching output the
remaining fields are still committed. -/
def bip143Committed (ht : UInt32) (idx : Nat) : Field → Bool
  | .version | .lockTime => true
  | .nIns => !acp ht
  | .prevout i => !acp ht || i == idx
  | .sequence i => i == idx || (!acp ht && !isNone ht && !isSingle ht)
  | .nOuts => !isNone ht && !isSingle ht
  | .output j => if isNone ht then false else if isSingle ht then j == idx else true
  | .spentAmount i => i == idx
  | _ => false

/-- BIP341 (valid hash types): all prevouts, amounts, scriptPubKeys and sequences unless
ANYONECANPAY (then only those of input `idx`); outputs as before. `idx` itself, the annex and the
extension are committed besides. -/
def bip341Committed (ht : UInt32) (idx : Nat) : Field → Bool
  | .version | .lockTime => true
  | .nIns => !acp ht
  | .prevout i | .sequence i | .spentAmount i | .spentScript i => !acp ht || i == idx
  | .nOuts => (ht &&& 3) != 2 && (ht &&& 3) != 3
  | .output j => if (ht &&& 3) == 2 then false else if (ht &&& 3) == 3 then j == idx else true
  | _ => false

/-! ### the messages as functions of the signing context -/

def Ctx.wf (c : Ctx) : Prop :=
  c.tx.wf ∧ c.spent.length = c.tx.ins.length ∧ ∀ o ∈ c.spent, o.wf

instance (c : Ctx) : Decidable c.wf := by unfold Ctx.wf; infer_instance

/-- amount of the output spent by input `idx` -/
def Ctx.amount (c : Ctx) (idx : Nat) : UInt64 := ((c.spent[idx]?).map (·.value)).getD 0

def legacyMsgC (scriptCode : Bytes) (ht : UInt32) (idx : Nat) (c : Ctx) : Option LegacyPre :=
  legacyMsg scriptCode ht c.tx idx

def bip143MsgC (H : Bytes → Bytes) (scriptCode : Bytes) (ht : UInt32) (idx : Nat) (c : Ctx) :
    Option Bytes :=
  bip143Msg H scriptCode ht c.tx idx (c.amount idx)

def bip341MsgC (H : Bytes → Bytes) (ht : UInt32) (idx : Nat) (annex : Option Bytes)
    (ext : Option TapExt) (c : Ctx) : Except TapErr Bytes :=
  bip341Msg H ht c.tx c.spent idx annex ext

/-! ### collision-freeness hypotheses (explicit, about concrete finite sets of byte strings) -/

/-- `f` (a hash) behaves on the finite set `S`: 32-byte outputs, no collision inside `S`, no
element hashing to 32 zero bytes. -/
structure HashOK (f : Bytes → Bytes) (S : List Bytes) : Prop where
  len : ∀ a ∈ S, (f a).length = 32
  inj : ∀ a ∈ S, ∀ b ∈ S, f a = f b → a = b
  nz : ∀ a ∈ S, f a ≠ zero32

/-- the byte strings whose double-SHA256 enters the BIP143 message of input `idx` -/
def bip143Hashed (idx : Nat) (tx : Tx) : List Bytes :=
  [tx.ins.flatMap (fun i => outPointSer i.prev), tx.ins.flatMap (fun i => le32 i.sequence),
   tx.outs.flatMap txOutSer] ++ ((tx.outs[idx]?).toList.map txOutSer)

/-- the byte strings whose SHA256 enters the BIP341 message of input `idx` -/
def bip341Hashed (idx : Nat) (c : Ctx) : List Bytes :=
  [c.tx.ins.flatMap (fun i => outPointSer i.prev), c.spent.flatMap (fun o => le64 o.value),
   c.spent.flatMap (fun o => varBytes o.pkScript), c.tx.ins.flatMap (fun i => le32 i.sequence),
   c.tx.outs.flatMap txOutSer] ++ ((c.tx.outs[idx]?).toList.map txOutSer)

end BV.C07.Spec
