/-
C07: expectation for the signing-helper ops, computed from the Spec's committed-field sets:
a helper-signed input must verify, and after a mutation it must still verify iff no committed field
changed (`independent_of_uncommitted` / `injective_on_committed` + collision-freeness +
unforgeability are what justify the two directions). Core-only.
-/
import BV.C07.Spec
namespace BV.C07.Expect
open BV.C07 BV.C07.Spec

inductive Form | legacy | wit | tap
  deriving DecidableEq, Repr

def Form.parse? (s : String) : Option Form :=
  if s == "legacy" then some .legacy else if s == "wit" then some .wit
  else if s == "tap" then some .tap else none

/-- every field that exists in a context with at most `nIn` inputs / `nOut` outputs -/
def allFields (nIn nOut : Nat) : List Field :=
  [.version, .lockTime, .nIns, .nOuts] ++
  (List.range nIn).flatMap (fun i =>
    [.prevout i, .sequence i, .scriptSig i, .witness i, .spentAmount i, .spentScript i]) ++
  (List.range nOut).map .output

def diffFields (c₁ c₂ : Ctx) : List Field :=
  (allFields (max (max c₁.tx.ins.length c₂.tx.ins.length) (max c₁.spent.length c₂.spent.length))
    (max c₁.tx.outs.length c₂.tx.outs.length)).filter (fun f => f.get c₁ != f.get c₂)

def committed : Form → UInt32 → Nat → Field → Bool
  | .legacy => legacyCommitted
  | .wit => bip143Committed
  | .tap => bip341Committed

/-- legacy SIGHASH_SINGLE without a matching output: the digest is the constant 1 -/
def degenerate (ht : UInt32) (idx : Nat) (c : Ctx) : Bool :=
  isSingle ht && decide (idx ≥ c.tx.outs.length)

/-- the annex of a taproot witness: the last of at least two elements if it starts with 0x50 -/
def annexOf (w : List Bytes) : Option Bytes :=
  if w.length < 2 then none else
  match w.getLast? with
  | some a => if a.head? == some 0x50 then some a else none
  | none => none

def ownAnnex (idx : Nat) (c : Ctx) : Option Bytes :=
  match c.tx.ins[idx]? with
  | some i => annexOf i.witness
  | none => none

/-- must the signature made over `orig` (hash type `ht`, input `idx`) verify over `mutd`? -/
def stillVerifies (form : Form) (ht : UInt32) (idx : Nat) (orig mutd : Ctx) : Bool :=
  let byFields := (diffFields orig mutd).all (fun f => !committed form ht idx f)
  match form with
  | .legacy =>
    if degenerate ht idx orig && degenerate ht idx mutd then true
    else if degenerate ht idx orig != degenerate ht idx mutd then false
    else byFields
  | .tap => byFields && ownAnnex idx orig == ownAnnex idx mutd   -- the annex is committed (BIP341)
  | .wit => byFields

/-- does the helper for this form return an error (only the taproot digest can fail) -/
def helperErrs (form : Form) (ht : UInt32) (idx nOuts : Nat) : Bool :=
  match form with
  | .tap => !(validTaprootHashTypes.contains ht) || ((ht &&& 3) == 3 && decide (idx ≥ nOuts))
  | _ => false

end BV.C07.Expect
