/-
C07 helper lemmas: HashCache is keyed by txid (hash of the witness-free serialization). The
witness-free serialization determines everything the midstates are computed from, so -- up to
collisions of the txid hash -- a cached entry is the midstate of any transaction with that txid.
-/
import BV.C07.CommitLegacy
set_option linter.unusedSimpArgs false
namespace BV.C07.Commit
open BV.C07 BV.C07.Spec BV.C07.Model

def inTriple (i : TxIn) : OutPoint × Bytes × UInt32 := (i.prev, i.script, i.sequence)

theorem txInSer_eq (i : TxIn) : txInSer i = enc3 (inTriple i) := rfl

theorem txSerNoWitness_inj (t₁ t₂ : Tx) (w₁ : t₁.wf) (w₂ : t₂.wf)
    (h : txSerNoWitness t₁ = txSerNoWitness t₂) :
    t₁.version = t₂.version ∧ t₁.ins.map inTriple = t₂.ins.map inTriple ∧ t₁.outs = t₂.outs ∧
      t₁.lockTime = t₂.lockTime := by
  unfold txSerNoWitness at h
  have e1 : ∀ t : Tx, t.ins.flatMap txInSer = (t.ins.map inTriple).flatMap enc3 := by
    intro t; rw [List.flatMap_map]; rfl
  rw [e1 t₁, e1 t₂] at h
  simp only [List.append_assoc] at h
  have s1 := List.append_inj h (by simp [length_le32])
  have wt : ∀ t : Tx, t.wf → ∀ x ∈ t.ins.map inTriple, x.1.wf ∧ x.2.1.length < 2^64 := by
    intro t w x hx
    simp only [List.mem_map] at hx
    obtain ⟨i, hi, rfl⟩ := hx
    exact w.1 i hi
  have hlen : ∀ t : Tx, (t.ins.map inTriple).length = t.ins.length := by intro t; simp
  have s2 := counted_list_pd enc3_pd (t₁.ins.map inTriple) (t₂.ins.map inTriple) _ _
    (wt t₁ w₁) (wt t₂ w₂) (by rw [hlen]; exact w₁.2.2.1) (by rw [hlen]; exact w₂.2.2.1)
    (by rw [hlen, hlen]; exact s1.2)
  have s3 := counted_list_pd txOutSer_pd t₁.outs t₂.outs _ _ w₁.2.1 w₂.2.1 w₁.2.2.2 w₂.2.2.2 s2.2
  exact ⟨le32_inj s1.1, s2.1, s3.1, le32_inj s3.2⟩

theorem any_input_congr (p : OutPoint → Bool) (l₁ l₂ : List TxIn)
    (h : l₁.map TxIn.prev = l₂.map TxIn.prev) :
    l₁.any (fun i => p i.prev) = l₂.any (fun i => p i.prev) := by
  have e : ∀ l : List TxIn, l.any (fun i => p i.prev) = (l.map TxIn.prev).any p := by
    intro l; simp [List.any_map, Function.comp_def]
  rw [e l₁, e l₂, h]

/-- the midstates depend only on what the txid commits to (and on the prevout fetcher) -/
theorem newTxSigHashes_of_same_txid_preimage (H : Bytes → Bytes) (fetch : OutPoint → TxOut)
    (t₁ t₂ : Tx) (w₁ : t₁.wf) (w₂ : t₂.wf) (h : txSerNoWitness t₁ = txSerNoWitness t₂) :
    newTxSigHashes H t₁ fetch = newTxSigHashes H t₂ fetch := by
  obtain ⟨_, hins, houts, _⟩ := txSerNoWitness_inj t₁ t₂ w₁ w₂ h
  have hprev : t₁.ins.map TxIn.prev = t₂.ins.map TxIn.prev := by
    have := congrArg (List.map (fun x : OutPoint × Bytes × UInt32 => x.1)) hins
    simpa [List.map_map, Function.comp_def, inTriple] using this
  have hseq : t₁.ins.map TxIn.sequence = t₂.ins.map TxIn.sequence := by
    have := congrArg (List.map (fun x : OutPoint × Bytes × UInt32 => x.2.2)) hins
    simpa [List.map_map, Function.comp_def, inTriple] using this
  have eP : calcHashPrevOuts H t₁ = calcHashPrevOuts H t₂ := by
    unfold calcHashPrevOuts
    rw [flatMap_comp t₁.ins TxIn.prev (fun p => p.hash ++ le32 p.index),
      flatMap_comp t₂.ins TxIn.prev (fun p => p.hash ++ le32 p.index), hprev]
  have eS : calcHashSequence H t₁ = calcHashSequence H t₂ := by
    unfold calcHashSequence
    rw [flatMap_comp t₁.ins TxIn.sequence le32, flatMap_comp t₂.ins TxIn.sequence le32, hseq]
  have eO : calcHashOutputs H t₁ = calcHashOutputs H t₂ := by
    unfold calcHashOutputs; rw [houts]
  have eA : calcHashInputAmounts H t₁ fetch = calcHashInputAmounts H t₂ fetch := by
    unfold calcHashInputAmounts
    rw [flatMap_comp t₁.ins TxIn.prev (fun p => le64 (fetch p).value),
      flatMap_comp t₂.ins TxIn.prev (fun p => le64 (fetch p).value), hprev]
  have eC : calcHashInputScripts H t₁ fetch = calcHashInputScripts H t₂ fetch := by
    unfold calcHashInputScripts
    rw [flatMap_comp t₁.ins TxIn.prev (fun p => varBytes (fetch p).pkScript),
      flatMap_comp t₂.ins TxIn.prev (fun p => varBytes (fetch p).pkScript), hprev]
  have eScan : scanInputs fetch t₁.ins false false = scanInputs fetch t₂.ins false false := by
    rw [Lemmas.scanInputs_eq, Lemmas.scanInputs_eq]
    have a := any_input_congr (fun p => isCoinbaseOutPoint p || !isPayToTaproot (fetch p).pkScript) _ _ hprev
    have b := any_input_congr (fun p => !isCoinbaseOutPoint p && isPayToTaproot (fetch p).pkScript) _ _ hprev
    simp only [Bool.false_or]
    exact Prod.ext a b
  unfold newTxSigHashes
  rw [eP, eS, eO, eA, eC, eScan]

end BV.C07.Commit
