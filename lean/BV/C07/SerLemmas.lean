/-
C07: lemmas about the serializers: lengths, injectivity, prefix-decodability ("PD": the encoding of
a value followed by anything determines the value and the rest). Core-only.
-/
import BV.C07.Ser
namespace BV.C07

theorem length_leB (n x : Nat) : (leB n x).length = n := by
  induction n generalizing x with
  | zero => rfl
  | succ n ih => simp [leB, ih]

theorem u8_ofNat_inj {a b : Nat} (ha : a < 256) (hb : b < 256)
    (h : UInt8.ofNat a = UInt8.ofNat b) : a = b := by
  have := congrArg UInt8.toNat h
  simp [UInt8.toNat_ofNat'] at this
  omega

theorem leB_inj (n : Nat) : ∀ x y, x < 256 ^ n → y < 256 ^ n → leB n x = leB n y → x = y := by
  induction n with
  | zero => intro x y hx hy _; simp at hx hy; omega
  | succ n ih =>
    intro x y hx hy h
    simp only [leB, List.cons.injEq] at h
    have h1 := u8_ofNat_inj (Nat.mod_lt _ (by decide)) (Nat.mod_lt _ (by decide)) h.1
    have hx' : x / 256 < 256 ^ n := by
      rw [Nat.div_lt_iff_lt_mul (by decide)]; rw [Nat.pow_succ] at hx; exact hx
    have hy' : y / 256 < 256 ^ n := by
      rw [Nat.div_lt_iff_lt_mul (by decide)]; rw [Nat.pow_succ] at hy; exact hy
    have h2 := ih _ _ hx' hy' h.2
    omega

theorem length_le32 (x : UInt32) : (le32 x).length = 4 := length_leB _ _
theorem length_le64 (x : UInt64) : (le64 x).length = 8 := length_leB _ _

theorem le32_inj {x y : UInt32} (h : le32 x = le32 y) : x = y := by
  have := leB_inj 4 x.toNat y.toNat x.toNat_lt y.toNat_lt h
  exact UInt32.toNat_inj.mp this

theorem le64_inj {x y : UInt64} (h : le64 x = le64 y) : x = y := by
  have := leB_inj 8 x.toNat y.toNat x.toNat_lt y.toNat_lt h
  exact UInt64.toNat_inj.mp this

theorem varint_cases (n : Nat) (hn : n < 2^64) :
    (n < 0xfd ∧ varint n = [UInt8.ofNat n]) ∨
    (0xfd ≤ n ∧ n < 256^2 ∧ varint n = 0xfd :: leB 2 n) ∨
    (256^2 ≤ n ∧ n < 256^4 ∧ varint n = 0xfe :: leB 4 n) ∨
    (256^4 ≤ n ∧ n < 256^8 ∧ varint n = 0xff :: leB 8 n) := by
  unfold varint
  by_cases h1 : n < 0xfd
  · left; simp [h1]
  · by_cases h2 : n ≤ 0xffff
    · right; left; simp [h1, h2]; omega
    · by_cases h3 : n ≤ 0xffffffff
      · right; right; left; simp [h1, h2, h3]; omega
      · right; right; right; simp [h1, h2, h3]; omega

theorem u8_ofNat_ne {a : Nat} {b : UInt8} (ha : a < 256) (hb : a ≠ b.toNat) : UInt8.ofNat a ≠ b := by
  intro h; apply hb; rw [← h]; simp [UInt8.toNat_ofNat']; omega

theorem varint_pd {n m : Nat} (hn : n < 2^64) (hm : m < 2^64) {r s : Bytes}
    (h : varint n ++ r = varint m ++ s) : n = m ∧ r = s := by
  rcases varint_cases n hn with ⟨a1, e1⟩ | ⟨a1, a2, e1⟩ | ⟨a1, a2, e1⟩ | ⟨a1, a2, e1⟩ <;>
  rcases varint_cases m hm with ⟨b1, e2⟩ | ⟨b1, b2, e2⟩ | ⟨b1, b2, e2⟩ | ⟨b1, b2, e2⟩ <;>
  rw [e1, e2] at h <;> simp only [List.cons_append, List.nil_append, List.cons.injEq] at h
  · exact ⟨u8_ofNat_inj (by omega) (by omega) h.1, h.2⟩
  · exact absurd h.1 (u8_ofNat_ne (by omega) (by simp; omega))
  · exact absurd h.1 (u8_ofNat_ne (by omega) (by simp; omega))
  · exact absurd h.1 (u8_ofNat_ne (by omega) (by simp; omega))
  · exact absurd h.1.symm (u8_ofNat_ne (by omega) (by simp; omega))
  · have := List.append_inj h.2 (by simp [length_leB])
    exact ⟨leB_inj 2 _ _ a2 b2 this.1, this.2⟩
  · exact absurd h.1 (by decide)
  · exact absurd h.1 (by decide)
  · exact absurd h.1.symm (u8_ofNat_ne (by omega) (by simp; omega))
  · exact absurd h.1 (by decide)
  · have := List.append_inj h.2 (by simp [length_leB])
    exact ⟨leB_inj 4 _ _ a2 b2 this.1, this.2⟩
  · exact absurd h.1 (by decide)
  · exact absurd h.1.symm (u8_ofNat_ne (by omega) (by simp; omega))
  · exact absurd h.1 (by decide)
  · exact absurd h.1 (by decide)
  · have := List.append_inj h.2 (by simp [length_leB])
    exact ⟨leB_inj 8 _ _ a2 b2 this.1, this.2⟩

/-- `enc` is prefix-decodable on the domain `P` -/
def PD {α : Type} (P : α → Prop) (enc : α → Bytes) : Prop :=
  ∀ a b r s, P a → P b → enc a ++ r = enc b ++ s → a = b ∧ r = s

theorem PD.inj {α : Type} {P : α → Prop} {enc : α → Bytes} (h : PD P enc) {a b : α}
    (ha : P a) (hb : P b) (e : enc a = enc b) : a = b := by
  have := h a b [] [] ha hb (by simpa using e)
  exact this.1

theorem PD_of_fixed {α : Type} {P : α → Prop} {enc : α → Bytes} (k : Nat)
    (hlen : ∀ a, P a → (enc a).length = k)
    (hinj : ∀ a b, P a → P b → enc a = enc b → a = b) : PD P enc := by
  intro a b r s ha hb h
  have := List.append_inj h (by rw [hlen a ha, hlen b hb])
  exact ⟨hinj a b ha hb this.1, this.2⟩

theorem varBytes_pd : PD (fun b : Bytes => b.length < 2^64) varBytes := by
  intro a b r s ha hb h
  unfold varBytes at h
  rw [List.append_assoc, List.append_assoc] at h
  have h1 := varint_pd ha hb h
  have h2 := List.append_inj h1.2 h1.1
  exact h2

theorem flatMap_pd_append {α : Type} {P : α → Prop} {enc : α → Bytes} (hpd : PD P enc) :
    ∀ (l₁ l₂ : List α) (r s : Bytes), (∀ x ∈ l₁, P x) → (∀ x ∈ l₂, P x) → l₁.length = l₂.length →
      l₁.flatMap enc ++ r = l₂.flatMap enc ++ s → l₁ = l₂ ∧ r = s := by
  intro l₁
  induction l₁ with
  | nil =>
    intro l₂ r s _ _ hl h
    cases l₂ with
    | nil => simpa using h
    | cons b l₂ => simp at hl
  | cons a l₁ ih =>
    intro l₂ r s h1 h2 hl h
    cases l₂ with
    | nil => simp at hl
    | cons b l₂ =>
      simp only [List.flatMap_cons, List.append_assoc] at h
      have hab := hpd a b _ _ (h1 a (by simp)) (h2 b (by simp)) h
      have := ih l₂ r s (fun x hx => h1 x (by simp [hx])) (fun x hx => h2 x (by simp [hx]))
        (by simpa using hl) hab.2
      exact ⟨by rw [hab.1, this.1], this.2⟩

theorem flatMap_pd_eq {α : Type} {P : α → Prop} {enc : α → Bytes} (hpd : PD P enc)
    (hne : ∀ a, P a → enc a ≠ []) :
    ∀ (l₁ l₂ : List α), (∀ x ∈ l₁, P x) → (∀ x ∈ l₂, P x) →
      l₁.flatMap enc = l₂.flatMap enc → l₁ = l₂ := by
  intro l₁
  induction l₁ with
  | nil =>
    intro l₂ _ h2 h
    cases l₂ with
    | nil => rfl
    | cons b l₂ =>
      simp only [List.flatMap_nil, List.flatMap_cons] at h
      have := hne b (h2 b (by simp))
      have h' := h.symm
      simp [List.append_eq_nil_iff] at h'
      exact absurd h'.1 this
  | cons a l₁ ih =>
    intro l₂ h1 h2 h
    cases l₂ with
    | nil =>
      simp only [List.flatMap_nil, List.flatMap_cons] at h
      have := hne a (h1 a (by simp))
      simp [List.append_eq_nil_iff] at h
      exact absurd h.1 this
    | cons b l₂ =>
      simp only [List.flatMap_cons] at h
      have hab := hpd a b _ _ (h1 a (by simp)) (h2 b (by simp)) h
      have := ih l₂ (fun x hx => h1 x (by simp [hx])) (fun x hx => h2 x (by simp [hx])) hab.2
      rw [hab.1, this]

/-! ### the transaction pieces -/

theorem length_outPointSer (o : OutPoint) (h : o.wf) : (outPointSer o).length = 36 := by
  unfold outPointSer; unfold OutPoint.wf at h; simp [h, length_le32]

theorem outPointSer_inj {a b : OutPoint} (ha : a.wf) (hb : b.wf)
    (h : outPointSer a = outPointSer b) : a = b := by
  unfold outPointSer at h
  unfold OutPoint.wf at ha hb
  have := List.append_inj h (by rw [ha, hb])
  cases a; cases b
  simp only [OutPoint.mk.injEq]
  exact ⟨this.1, le32_inj this.2⟩

theorem outPointSer_pd : PD OutPoint.wf outPointSer :=
  PD_of_fixed 36 length_outPointSer (fun _ _ ha hb h => outPointSer_inj ha hb h)

theorem txOutSer_pd : PD TxOut.wf txOutSer := by
  intro a b r s ha hb h
  unfold txOutSer at h
  rw [List.append_assoc, List.append_assoc] at h
  have h1 := List.append_inj h (by simp [length_le64])
  have h2 := varBytes_pd _ _ _ _ ha hb h1.2
  cases a; cases b
  simp only [TxOut.mk.injEq]
  exact ⟨⟨le64_inj h1.1, h2.1⟩, h2.2⟩

theorem txOutSer_ne_nil (o : TxOut) : txOutSer o ≠ [] := by
  intro h
  have := congrArg List.length h
  simp [txOutSer, length_le64] at this

theorem varBytes_ne_nil (b : Bytes) : varBytes b ≠ [] := by
  unfold varBytes varint
  split
  · simp
  · split
    · simp
    · split <;> simp

theorem le32_ne_nil (x : UInt32) : le32 x ≠ [] := by
  intro h; have := congrArg List.length h; simp [length_le32] at this
theorem le64_ne_nil (x : UInt64) : le64 x ≠ [] := by
  intro h; have := congrArg List.length h; simp [length_le64] at this

theorem le32_pd : PD (fun _ : UInt32 => True) le32 :=
  PD_of_fixed 4 (fun a _ => length_le32 a) (fun _ _ _ _ h => le32_inj h)
theorem le64_pd : PD (fun _ : UInt64 => True) le64 :=
  PD_of_fixed 8 (fun a _ => length_le64 a) (fun _ _ _ _ h => le64_inj h)


end BV.C07
