/-
C07: abstract transaction type and the wire serializers the signature-hash preimages are built from
(little-endian integers, CompactSize varint, var-bytes, outpoint, txin, txout, tx without witness).
Core-only. Lemmas (lengths, prefix-decodability) are in `SerLemmas.lean`.
-/
namespace BV.C07

abbrev Bytes := List UInt8

/-- `n` little-endian bytes of `x` (truncating, like Go's `PutUintNN` after a conversion). -/
def leB : Nat → Nat → Bytes
  | 0, _ => []
  | n+1, x => UInt8.ofNat (x % 256) :: leB n (x / 256)

def le32 (x : UInt32) : Bytes := leB 4 x.toNat
def le64 (x : UInt64) : Bytes := leB 8 x.toNat

/-- Bitcoin CompactSize (wire.WriteVarInt). Defined for every Nat; canonical for `n < 2^64`. -/
def varint (n : Nat) : Bytes :=
  if n < 0xfd then [UInt8.ofNat n]
  else if n ≤ 0xffff then 0xfd :: leB 2 n
  else if n ≤ 0xffffffff then 0xfe :: leB 4 n
  else 0xff :: leB 8 n

/-- wire.WriteVarBytes -/
def varBytes (b : Bytes) : Bytes := varint b.length ++ b

structure OutPoint where
  hash : Bytes          -- 32 bytes (wf)
  index : UInt32
  deriving DecidableEq, Repr, Hashable

structure TxIn where
  prev : OutPoint
  script : Bytes        -- signature script
  sequence : UInt32
  witness : List Bytes
  deriving DecidableEq, Repr

structure TxOut where
  value : UInt64        -- bit pattern of Go's int64 (`uint64(to.Value)`)
  pkScript : Bytes
  deriving DecidableEq, Repr

structure Tx where
  version : UInt32      -- bit pattern of Go's int32 (`uint32(msg.Version)`)
  ins : List TxIn
  outs : List TxOut
  lockTime : UInt32
  deriving DecidableEq, Repr

def outPointSer (o : OutPoint) : Bytes := o.hash ++ le32 o.index
def txOutSer (o : TxOut) : Bytes := le64 o.value ++ varBytes o.pkScript
def txInSer (i : TxIn) : Bytes := outPointSer i.prev ++ varBytes i.script ++ le32 i.sequence

/-- MsgTx.SerializeNoWitness -/
def txSerNoWitness (tx : Tx) : Bytes :=
  le32 tx.version ++ varint tx.ins.length ++ tx.ins.flatMap txInSer ++
    varint tx.outs.length ++ tx.outs.flatMap txOutSer ++ le32 tx.lockTime

def zero32 : Bytes := List.replicate 32 0

/-- Domain on which the serializers are injective: 32-byte outpoint hashes, lengths below 2^64. -/
def OutPoint.wf (o : OutPoint) : Prop := o.hash.length = 32
def TxIn.wf (i : TxIn) : Prop := i.prev.wf ∧ i.script.length < 2^64
def TxOut.wf (o : TxOut) : Prop := o.pkScript.length < 2^64
def Tx.wf (t : Tx) : Prop :=
  (∀ i ∈ t.ins, i.wf) ∧ (∀ o ∈ t.outs, o.wf) ∧ t.ins.length < 2^64 ∧ t.outs.length < 2^64

instance (o : OutPoint) : Decidable o.wf := by unfold OutPoint.wf; infer_instance
instance (i : TxIn) : Decidable i.wf := by unfold TxIn.wf; infer_instance
instance (o : TxOut) : Decidable o.wf := by unfold TxOut.wf; infer_instance
instance (t : Tx) : Decidable t.wf := by unfold Tx.wf; infer_instance

end BV.C07
