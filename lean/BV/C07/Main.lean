import BV.Common.Loop
import BV.C07.Driver
/-! `drv_c07`: one case per input line `C07 <op> <args…>`, one canonical result line back.
Imports only core-only modules so that it links as a native executable. -/
def main : IO Unit := BV.Loop.run "C07" BV.C07.Driver.handle
