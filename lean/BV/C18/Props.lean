/-
C18 property theorems. Only statements of the property + non-vacuity examples live here;
helper lemmas are in HsLemmas.lean (handshake automaton) and PipeLemmas.lean (pipeline).
-/
import BV.C18.HsLemmas
import BV.C18.PipeLemmas
import BV.C18.Explain
import BV.C18.OrderLemmas
import BV.C18.Trickle
import BV.C18.SelfConn
import BV.Generated.C18
namespace BV.C18
open Spec

/-! ## Part 1 — handshake automaton, for every input sequence -/

/-- No listener other than OnVersion / OnSendAddrV2 / OnVerAck is invoked before a complete and
valid version/verack exchange: for every configuration and every sequence of remote tokens, each
application callback in the trace is preceded by the remote's acceptable version read and
delivered, our version and verack written, and the remote's verack read and delivered. -/
theorem no_delivery_before_handshake (c : Cfg) (ts : List Tok) :
    NoDeliveryBeforeHandshake c (run c ts).2 := HsLemmas.run_noDelivery c ts

/-- The same over the BIP324 transport (both sides v2), and on an inbound v2 peer that was
downgraded by a v1 remote (that run IS a v1 run, see `Model.runV2dgIn`). -/
theorem no_delivery_before_handshake_v2 (c : Cfg) (ts : List Tok) :
    NoDeliveryBeforeHandshake c (runV2 c ts).2 := HsLemmas.runV2_noDelivery c ts

/-- An inbound v2 peer whose v1 remote does not open with a well-formed `version` delivers
nothing at all (it either answers with its v2 key or sees an empty stream). -/
theorem v2_inbound_nonversion_delivers_nothing (c : Cfg) (ts : List Tok)
    (h : ∀ v b rest, ts ≠ .version v b :: rest) :
    runV2dgIn c ts = .keyOnly ∨ runV2dgIn c ts = .nothing := by
  cases ts with
  | nil => exact Or.inr rfl
  | cons t rest =>
    cases t with
    | version v b => exact absurd rfl (h v b rest)
    | _ => exact Or.inl rfl

/-- The hypothesis-free statement is not vacuous: a well-formed exchange does deliver. -/
example : Ev.cb .getaddr ∈ (run ⟨true, 70016, false, false, false⟩
    [.version 70015 false, .msg .verack, .msg .getaddr]).2 := by decide

/-- The negotiated protocol version is the minimum of ours and the remote's (as uint32), for
every accepted first version message and whatever follows. -/
theorem negotiated_min (c : Cfg) (v : Nat) (self : Bool) (ts : List Tok)
    (h : self = true → c.allowSelf = true) :
    (run c (.version v self :: ts)).1.pver = min c.ours v ∧
      (run c (.version v self :: ts)).1.versionKnown = true :=
  HsLemmas.negotiated_min c v self ts h

/-- Conversely the version is only ever "known" through an accepted first version message, and
then it is that minimum. -/
theorem version_known_only_by_first_version (c : Cfg) (ts : List Tok)
    (h : (run c ts).1.versionKnown = true) :
    ∃ v self rest, ts = .version v self :: rest ∧ (self = true → c.allowSelf = true) ∧
      (run c ts).1.pver = min c.ours v := HsLemmas.versionKnown_only c ts h

example : (run ⟨false, 70016, false, false, false⟩ [.version 60002 false, .msg .verack]).1.pver = 60002 := by
  decide

/-- Once closed the peer reads nothing and emits nothing. -/
theorem closed_absorbing (c : Cfg) (ts : List Tok) (s : St) (h : s.phase = .closed) :
    runFrom c s ts = (s, []) := HsLemmas.runFrom_closed c ts s h

private theorem init_fst (c : Cfg) : (init c).1 = ⟨.awaitVersion, c.ours, false, false⟩ := by
  unfold init; cases c.inbound <;> rfl

/-- Self connections (nonce in our sent-nonce cache, `AllowSelfConns` off) are refused: the peer
closes right after reading the version, delivers nothing, writes nothing more, and never records
the version. -/
theorem rejects_self (c : Cfg) (v : Nat) (ts : List Tok) (h : c.allowSelf = false) :
    run c (.version v true :: ts) =
      (⟨.closed, c.ours, false, false⟩, (init c).2 ++ [Ev.rd (.version v true)]) := by
  unfold run
  simp only [List.cons_append, runFrom, init_fst]
  have hs : step c ⟨.awaitVersion, c.ours, false, false⟩ (.version v true) =
      (⟨.closed, c.ours, false, false⟩, [Ev.rd (.version v true)]) := by
    simp [step, classify, stepAwaitVersion, h, St.close]
  rw [hs, HsLemmas.runFrom_closed c _ _ rfl]
  simp

/-- The ordering obligation behind `Tok.version _ self`: with the code's program order
(`sentNonces.Add` in `localVersionMsg` BEFORE the version message's first byte can be observed by
the remote), under every interleaving of the outbound goroutine with the inbound peer's check, the
check sees the nonce in the cache. (Ghost assumption: fewer than the cache's 50 entries are
registered by other peers in between.) -/
theorem self_nonce_registered_before_visible (sched : List SelfConn.Choice) (b : Bool)
    (h : (SelfConn.exec (SelfConn.init SelfConn.codeOrder) sched).checked = some b) : b = true :=
  (SelfConn.good_exec sched _ SelfConn.good_init).2 b h

/-- The order matters: emitting before registering admits a schedule in which the inbound side
does not recognise its own process's nonce. -/
theorem self_nonce_order_matters :
    ∃ sched, (SelfConn.exec (SelfConn.init [.emit, .register]) sched).checked = some false :=
  ⟨[.o, .i, .o], by decide⟩

/-- A node that connects to itself refuses the connection under every scheduling of its two
peers: whatever flag the inbound side's check produced, it is `true`, so `rejects_self` applies —
the inbound peer closes right after reading the version, delivers nothing and never records it. -/
theorem self_connection_refused (c : Cfg) (hallow : c.allowSelf = false) (v : Nat) (ts : List Tok)
    (sched : List SelfConn.Choice) (b : Bool)
    (h : (SelfConn.exec (SelfConn.init SelfConn.codeOrder) sched).checked = some b) :
    run c (.version v b :: ts) =
      (⟨.closed, c.ours, false, false⟩, (init c).2 ++ [Ev.rd (.version v b)]) := by
  rw [self_nonce_registered_before_visible sched b h]
  exact rejects_self c v ts hallow

/-- Obsolete versions (below `MinAcceptableProtocolVersion`) are refused: the peer closes, never
acknowledges, and the only listener invoked is `OnVersion`. -/
theorem rejects_obsolete (c : Cfg) (v : Nat) (self : Bool) (ts : List Tok)
    (hv : v < MinAcceptableProtocolVersion) :
    (run c (.version v self :: ts)).1.phase = .closed ∧
    (run c (.version v self :: ts)).1.verAck = false ∧
    Ev.wr .verack ∉ (run c (.version v self :: ts)).2 ∧
    NoAppCallbacks (run c (.version v self :: ts)).2 := by
  unfold run
  simp only [List.cons_append, runFrom, init_fst]
  have hs : (step c ⟨.awaitVersion, c.ours, false, false⟩ (.version v self)).1.phase = .closed ∧
      (step c ⟨.awaitVersion, c.ours, false, false⟩ (.version v self)).1.verAck = false ∧
      Ev.wr .verack ∉ (step c ⟨.awaitVersion, c.ours, false, false⟩ (.version v self)).2 ∧
      ∀ k, Ev.cb k ∈ (step c ⟨.awaitVersion, c.ours, false, false⟩ (.version v self)).2 →
        k = .version := by
    simp only [step, classify, stepAwaitVersion]
    by_cases h1 : (!c.allowSelf && self) = true
    · simp [h1, St.close]
    · by_cases h2 : c.rejectVersion = true
      · simp only [h1, h2, if_true]
        refine ⟨rfl, rfl, ?_, ?_⟩
        · simp [wrReject]
        · intro k; simp [wrReject]
      · simp only [h1, h2, hv, if_true]
        refine ⟨rfl, rfl, ?_, ?_⟩
        · simp [wrReject]
        · intro k; simp [wrReject]
  rw [HsLemmas.runFrom_closed c _ _ hs.1]
  refine ⟨hs.1, hs.2.1, ?_, ?_⟩
  · have hin : Ev.wr .verack ∉ (init c).2 := by unfold init; cases c.inbound <;> simp
    simp only [List.append_nil, List.mem_append, not_or]
    exact ⟨hin, hs.2.2.1⟩
  · intro k hk
    simp only [List.append_nil, List.mem_append] at hk
    rcases hk with hk | hk
    · unfold init at hk; cases hc : c.inbound <;> simp [hc] at hk
    · rw [hs.2.2.2 k hk]; rfl

/-- Wrong-network traffic is never delivered, in any state; it closes the connection unless the
peer is past the handshake on the regression-test network with a localhost remote (where btcd
deliberately tolerates malformed messages), in which case it is dropped. -/
theorem rejects_wrongnet (c : Cfg) (s : St) (ts : List Tok) :
    NoCallbacks (runFrom c s [.wrongMagic]).2 ∧
    ((c.allowMalformed = true ∧ s.phase = .ready ∧ (step c s .wrongMagic).1 = s) ∨
     ((step c s .wrongMagic).1.phase = .closed ∧
       runFrom c s (.wrongMagic :: ts) = runFrom c s [.wrongMagic])) := by
  have key : (∀ k, Ev.cb k ∉ (step c s .wrongMagic).2) ∧
      ((c.allowMalformed = true ∧ s.phase = .ready ∧ (step c s .wrongMagic).1 = s) ∨
        (step c s .wrongMagic).1.phase = .closed) := by
    unfold step
    cases hph : s.phase with
    | closed => simp [hph]
    | awaitVersion => simp [classify, stepAwaitVersion, St.close]
    | awaitVerack => simp [classify, stepAwaitVerack, St.close]
    | ready =>
      by_cases ham : c.allowMalformed = true
      · simp [classify, stepReady, ham]
      · simp only [classify, stepReady, ham]
        refine ⟨?_, Or.inr rfl⟩
        intro k; simp [wrReject]
  refine ⟨?_, ?_⟩
  · intro k; simpa [runFrom] using key.1 k
  · rcases key.2 with h | h
    · exact Or.inl h
    · refine Or.inr ⟨h, ?_⟩
      simp [runFrom, HsLemmas.runFrom_closed c _ _ h]

/-- A message other than `version` as the first message closes the connection with nothing
delivered. -/
theorem message_before_version_closes (c : Cfg) (s : St) (t : Tok) (h : s.phase = .awaitVersion)
    (ht : ∀ v b, t ≠ .version v b) :
    (step c s t).1.phase = .closed ∧ NoCallbacks (step c s t).2 := by
  unfold step
  simp only [h]
  cases hr : classify s.pver t with
  | version v b => exact absurd (HsLemmas.classify_version _ _ _ _ hr) (ht v b)
  | ping n => exact ⟨rfl, by intro k; simp [stepAwaitVersion, wrReject]⟩
  | other k' => exact ⟨rfl, by intro k; simp [stepAwaitVersion, wrReject]⟩
  | _ => exact ⟨rfl, by intro k; simp [stepAwaitVersion]⟩

/-- A second `version` message — during the verack wait or after the handshake — closes the
connection with nothing delivered (after the handshake a duplicate-reject is written when the
negotiated version knows reject messages). -/
theorem duplicate_version_closes (c : Cfg) (s : St) (v : Nat) (b : Bool)
    (h : s.phase = .awaitVerack ∨ s.phase = .ready) :
    (step c s (.version v b)).1.phase = .closed ∧ NoCallbacks (step c s (.version v b)).2 ∧
    (s.phase = .ready → (step c s (.version v b)).2 =
      Ev.rd (.version v b) :: wrReject s.pver .version rejectDuplicate) := by
  unfold step
  rcases h with h | h
  · simp only [h, classify, stepAwaitVerack]
    exact ⟨by simp [St.close], by intro k; simp, by intro hh; cases hh⟩
  · simp only [h, classify, stepReady]
    exact ⟨by simp [St.close], by intro k; simp [wrReject], by simp⟩

/-- A second `verack` after the handshake closes the connection with nothing delivered. -/
theorem duplicate_verack_closes (c : Cfg) (s : St) (h : s.phase = .ready)
    (hp : Kind.verack.minPver ≤ s.pver) :
    (step c s (.msg .verack)).1.phase = .closed ∧ NoCallbacks (step c s (.msg .verack)).2 ∧
    (step c s (.msg .verack)).2 =
      Ev.rd (.other .verack) :: wrReject s.pver .verack rejectDuplicate := by
  unfold step
  simp only [h, classify, hp, if_true, stepReady]
  exact ⟨by simp [St.close], by intro k; simp [wrReject], by simp⟩

example : Kind.verack.minPver ≤ 209 := by decide

/-! ## Part 2 — the send pipeline, for every schedule of the model

`Pipe.exec c (Pipe.init ids) sched` runs an arbitrary schedule (any interleaving of
`QueueMessage` callers, `Disconnect`, connection loss, `queueHandler` and `outHandler` actions,
including choices that are not enabled — they stutter) from the initial state in which the
distinct messages `ids` are still to be queued. -/

open Pipe in
/-- FIFO: what has been written to the connection is always a prefix of the order in which
messages entered `outputQueue`; and until the disconnect request nothing is dropped or reordered:
the queue order is exactly written ++ in flight ++ sendQueue ++ pendingMsgs ++ outputQueue. -/
theorem fifo_order (c : Pipe.Cfg) (ids : List Nat) (sched : List Choice) :
    (exec c (Pipe.init ids) sched).written <+: (exec c (Pipe.init ids) sched).sent ∧
    ((exec c (Pipe.init ids) sched).disc = false →
      (exec c (Pipe.init ids) sched).sent =
        (exec c (Pipe.init ids) sched).written ++ (exec c (Pipe.init ids) sched).oh.unwritten ++
        (exec c (Pipe.init ids) sched).sendQ ++ (exec c (Pipe.init ids) sched).pending ++
        (exec c (Pipe.init ids) sched).outQ) := by
  have h := (fifo_exec c sched _ (ctl_init ids) (fifo_init ids)).2
  obtain ⟨t, ht⟩ := h.pre
  exact ⟨⟨t, ht.symm⟩, h.eq⟩

open Pipe in
/-- Only messages queued before the disconnect request reach the wire. -/
theorem written_queued_before_disconnect (c : Pipe.Cfg) (ids : List Nat) (sched : List Choice)
    (m : Nat) (hm : m ∈ (exec c (Pipe.init ids) sched).written) :
    m ∈ (exec c (Pipe.init ids) sched).sentBefore :=
  (fifo_exec c sched _ (ctl_init ids) (fifo_init ids)).2.wsub m hm

open Pipe in
/-- Program order reaches the wire: if the same goroutine queues `p` right before `m`
(`c.pred m = some p`, with `pred` ranging over the queued messages), then in every reachable state
`m` entered `outputQueue` only after `p` did — and hence, `written` being a prefix of that order,
`m` is written only after `p` was. -/
theorem program_order_preserved (c : Pipe.Cfg) (ids : List Nat)
    (hp : ∀ m p, c.pred m = some p → p ∈ ids) (sched : List Choice) (a b : List Nat) (m p : Nat)
    (hw : (exec c (Pipe.init ids) sched).written = a ++ m :: b) (hpm : c.pred m = some p) :
    p ∈ a := by
  have hord := (ord_exec c ids hp sched _ (ord_init c ids)).ord
  obtain ⟨t, ht⟩ := (fifo_exec c sched _ (ctl_init ids) (fifo_init ids)).2.pre
  have := ordered_sound c.pred _ [] hord a m (b ++ t) p (by rw [ht, hw]; simp) hpm
  simpa using this

open Pipe in
/-- No completion signal is ever delivered twice. -/
theorem done_at_most_once (c : Pipe.Cfg) (ids : List Nat) (hn : ids.Nodup) (sched : List Choice)
    (m : Nat) : (exec c (Pipe.init ids) sched).done.count m ≤ 1 :=
  done_count_le ids hn _ (inv_exec c ids hn sched _ (inv_init ids)) m

open Pipe in
/-- Once both handlers have returned, every message that entered `outputQueue` before the
disconnect request has exactly one completion signal (written, skipped, or drained). -/
theorem done_exactly_once (c : Pipe.Cfg) (ids : List Nat) (hn : ids.Nodup) (sched : List Choice)
    (hf : final (exec c (Pipe.init ids) sched) = true) (m : Nat)
    (hm : m ∈ (exec c (Pipe.init ids) sched).sentBefore) :
    (exec c (Pipe.init ids) sched).done.count m = 1 :=
  Pipe.done_exactly_once ids hn _ (inv_exec c ids hn sched _ (inv_init ids)) hf m hm

open Pipe in
/-- Complete accounting: when moreover no caller is still inside `QueueMessage` and the buffer is
empty, every message has exactly one completion signal. -/
theorem all_done_once (c : Pipe.Cfg) (ids : List Nat) (hn : ids.Nodup) (sched : List Choice)
    (hf : final (exec c (Pipe.init ids) sched) = true)
    (h0 : (exec c (Pipe.init ids) sched).todo = []) (h1 : (exec c (Pipe.init ids) sched).checked = [])
    (h2 : (exec c (Pipe.init ids) sched).outQ = []) (m : Nat) (hm : m ∈ ids) :
    (exec c (Pipe.init ids) sched).done.count m = 1 :=
  Pipe.all_done_once ids hn _ (inv_exec c ids hn sched _ (inv_init ids)) hf h0 h1 h2 m hm

open Pipe in
/-- Adjudication of the late-send race: in a final state a message without completion signal is
either a `QueueMessage` call that has not returned (not started, or between the `Connected()`
check and the channel send), or one whose channel send completed after the disconnect request.
A call that RETURNED before the disconnect request was made is in `sentBefore` (or was signalled
at once) and is covered by `done_exactly_once`: only calls still in flight at the disconnect
request can lose their signal. -/
theorem unsignalled_only_in_flight (c : Pipe.Cfg) (ids : List Nat) (hn : ids.Nodup)
    (sched : List Choice) (hf : final (exec c (Pipe.init ids) sched) = true) (m : Nat)
    (hm : m ∈ ids) (h0 : (exec c (Pipe.init ids) sched).done.count m = 0) :
    m ∈ (exec c (Pipe.init ids) sched).todo ∨ m ∈ (exec c (Pipe.init ids) sched).checked ∨
      (m ∈ (exec c (Pipe.init ids) sched).outQ ∧ m ∉ (exec c (Pipe.init ids) sched).sentBefore) :=
  unsignalled_in_flight ids hn _ (inv_exec c ids hn sched _ (inv_init ids)) hf m hm h0

open Pipe in
/-- The one way a completion signal can be missing: a caller that passed the `Connected()`
check before the disconnect request and completes its channel send only after `queueHandler`'s
cleanup loop has finished. The message stays in the buffer; this is outside "queued before the
disconnect request". -/
theorem late_send_can_be_lost :
    ∃ sched : List Choice,
      final (exec ⟨50, 1, 1, 1, false, false, fun _ => none⟩ (Pipe.init [0]) sched) = true ∧
      (exec ⟨50, 1, 1, 1, false, false, fun _ => none⟩ (Pipe.init [0]) sched).done.count 0 = 0 ∧
      (exec ⟨50, 1, 1, 1, false, false, fun _ => none⟩ (Pipe.init [0]) sched).outQ = [0] :=
  ⟨[.start, .check 0, .disconnect, .qQuit, .qStep, .qStep, .oQuit, .oStep, .oStep, .iExit, .sInQuit,
    .sOutQuit, .send 0], by decide⟩

open Pipe in
/-- Termination, part 1: every enabled action strictly decreases `measure`, so a schedule can
contain at most `measure s` enabled actions (from any state, reachable or not). -/
theorem all_terminate_bounded (c : Pipe.Cfg) (s : Sys) (sched : List Choice) :
    effective c s sched ≤ Pipe.measure s := by
  have := effective_le c sched s; omega

open Pipe in
/-- Termination, part 2 (repaired stall handler): after the disconnect request, in every
reachable state in which a handler goroutine (queue, out, in, stall) is still alive, one of their
actions is enabled — so when nothing is enabled any more all of them have returned. In
particular `outHandler` never blocks for good on `stallControl`, `sendDoneQueue` or
`queueQuit`, and `queueHandler` never on `sendQueue`. -/
theorem all_terminate (c : Pipe.Cfg) (hfix : c.stallBug = false) (hdb : c.drainBug = false)
    (hcd : 1 ≤ c.capDone) (hcs : 1 ≤ c.capStall) (ids : List Nat)
    (sched : List Choice)
    (hd : (exec c (Pipe.init ids) sched).disc = true)
    (hq : ∀ ch, stepOpt c (exec c (Pipe.init ids) sched) ch = none) :
    final (exec c (Pipe.init ids) sched) = true := by
  cases hf : final (exec c (Pipe.init ids) sched) with
  | true => rfl
  | false =>
    obtain ⟨ch, _, hen⟩ := progress c hdb hcd hcs _ (fifo_exec c sched _ (ctl_init ids) (fifo_init ids)).1
      (stall_exec c hfix sched _ (stall_init ids)) hd hf
    simp [hq ch] at hen

set_option maxRecDepth 8000 in
open Pipe in
/-- The hypotheses of `all_terminate` are satisfiable: a complete run. -/
example : ∃ sched : List Choice,
    (exec ⟨50, 1, 1, 1, false, false, fun _ => none⟩ (Pipe.init [0, 1]) sched).disc = true ∧
    final (exec ⟨50, 1, 1, 1, false, false, fun _ => none⟩ (Pipe.init [0, 1]) sched) = true ∧
    (exec ⟨50, 1, 1, 1, false, false, fun _ => none⟩ (Pipe.init [0, 1]) sched).written = [0] ∧
    (exec ⟨50, 1, 1, 1, false, false, fun _ => none⟩ (Pipe.init [0, 1]) sched).done = [0, 1] :=
  ⟨[.start, .check 0, .send 0, .check 1, .send 1, .qRecvOut, .oRecv, .oStep, .sRecv, .oStep, .oStep,
    .oStep, .qRecvOut, .disconnect, .qQuit, .qStep, .qStep, .qStep, .oQuit, .oStep, .oStep, .iExit,
    .sInQuit, .sOutQuit], by decide⟩

set_option maxRecDepth 8000 in
open Pipe in
/-- F-C18-a, the stall handler as it was before the repair (`stallBug = true`): there is a
schedule after which `outHandler` is blocked for good on its second `stallControl` send made
after the stall handler left (it left after observing the closed `inQuit` twice): no handler
action is enabled, the handlers are not all done, and message 1 — queued before the disconnect
request — never gets its completion signal. `all_terminate` and `done_exactly_once` (whose
`final` hypothesis can then never be met) exclude this for the repaired handler. -/
theorem stall_bug_deadlocks :
    ∃ sched : List Choice,
      let s := exec ⟨50, 1, 1, 1, false, true, fun _ => none⟩ (Pipe.init [0, 1]) sched
      s.disc = true ∧ final s = false ∧ s.oh = .holding 1 ∧ s.todo = [] ∧ s.checked = [] ∧
      1 ∈ s.sentBefore ∧ s.done.count 1 = 0 ∧
      (∀ ch ∈ [Choice.disconnect, .qRecvOut, .qRecvDone, .qQuit, .qStep, .oRecv, .oQuit, .oStep,
        .iExit, .sRecv, .sInQuit, .sOutQuit, .start, .abandon, .aStep],
        stepOpt ⟨50, 1, 1, 1, false, true, fun _ => none⟩ s ch = none) :=
  ⟨[.start, .check 0, .send 0, .check 1, .send 1, .qRecvOut, .qRecvOut, .disconnect, .iExit,
    .sInQuit, .sInQuit, .oRecv, .oStep, .oStep, .oStep, .oStep, .qRecvDone, .oRecv, .qQuit, .qStep, .qStep],
    by decide⟩

open Pipe in
/-- F-C18-b, before the repair (`drainBug = true`): messages queued while the handshake is in
progress are never signalled when the peer is disconnected before its handlers start — the
system is stuck (nothing enabled), not final, and message 0, queued before the disconnect
request, has no completion signal. With the repair (`drainBug = false`) `all_terminate` and
`done_exactly_once` cover this path: `final` includes the drained state. -/
theorem unstarted_without_drain_loses :
    ∃ sched : List Choice,
      let s := exec ⟨50, 1, 1, 1, true, false, fun _ => none⟩ (Pipe.init [0]) sched
      s.disc = true ∧ final s = false ∧ s.todo = [] ∧ s.checked = [] ∧ 0 ∈ s.sentBefore ∧
      s.done.count 0 = 0 ∧
      (∀ ch ∈ [Choice.disconnect, .qRecvOut, .qRecvDone, .qQuit, .qStep, .oRecv, .oQuit, .oStep,
        .iExit, .sRecv, .sInQuit, .sOutQuit, .start, .abandon, .aStep],
        stepOpt ⟨50, 1, 1, 1, true, false, fun _ => none⟩ s ch = none) :=
  ⟨[.check 0, .send 0, .disconnect, .abandon], by decide⟩

open Pipe in
/-- The repaired path: queued during the handshake, negotiation fails, everything is signalled
once. -/
example :
    final (exec ⟨50, 1, 1, 1, false, false, fun _ => none⟩ (Pipe.init [0, 1, 2])
      [.check 0, .send 0, .check 1, .send 1, .check 2, .send 2, .disconnect, .abandon,
       .aStep, .aStep, .aStep, .aStep]) = true ∧
    (exec ⟨50, 1, 1, 1, false, false, fun _ => none⟩ (Pipe.init [0, 1, 2])
      [.check 0, .send 0, .check 1, .send 1, .check 2, .send 2, .disconnect, .abandon,
       .aStep, .aStep, .aStep, .aStep]).done = [0, 1, 2] := by decide

/-! ## Part 3 — inventory trickle (batching loop of `queueHandler`'s trickle tick)

The batch size is an internal tuning value: the statements hold for every positive size. -/

/-- The trickled `inv` messages carry exactly the queued inventory that survived the
known-inventory filter, in queue order (nothing dropped, duplicated or reordered by batching). -/
theorem trickle_preserves_order (max : Nat) (l : List Nat) :
    (Trickle.batch max l []).flatten = l := by
  simpa using Trickle.batch_flatten max l []

/-- No trickled `inv` message is empty or has more than the batch size entries. -/
theorem trickle_batches_bounded (max : Nat) (hmax : 0 < max) (l : List Nat) (c : List Nat)
    (h : c ∈ Trickle.batch max l []) : 0 < c.length ∧ c.length ≤ max :=
  Trickle.batch_sizes max hmax l [] (by simpa using hmax) c h

/-- Every trickled `inv` message but the last is full. -/
theorem trickle_batches_full (max : Nat) (hmax : 0 < max) (l : List Nat) (pre : List (List Nat))
    (c : List Nat) (post : List (List Nat))
    (h : Trickle.batch max l [] = pre ++ c :: post) (hp : post ≠ []) : c.length = max :=
  Trickle.batch_full max hmax l [] (by simpa using hmax) pre c post h hp

/-! ## Constants regenerated from the tree -/


/-! Channel capacities, timer intervals, the trickle batch size and the known-inventory cache size are
internal tuning values of the implementation, not protocol: they are not pinned. The models take
them as parameters (read from the tree by the harness) and the theorems hold for every value ≥ 1. -/


theorem pin_maxProtocolVersion : Generated.C18.maxProtocolVersion = MaxProtocolVersion := by decide
theorem pin_defaultProtocolVersion :
    Generated.C18.defaultProtocolVersion = MaxProtocolVersion := by decide
theorem pin_minAcceptable :
    Generated.C18.minAcceptableProtocolVersion = MinAcceptableProtocolVersion := by decide
theorem pin_bip0031 : Generated.C18.bip0031Version = BIP0031Version := by decide
theorem pin_bip0035 : Generated.C18.bip0035Version = BIP0035Version := by decide
theorem pin_bip0037 : Generated.C18.bip0037Version = BIP0037Version := by decide
theorem pin_rejectVersion : Generated.C18.rejectVersion = RejectVersion := by decide
theorem pin_sendHeaders : Generated.C18.sendHeadersVersion = SendHeadersVersion := by decide
theorem pin_feeFilter : Generated.C18.feeFilterVersion = FeeFilterVersion := by decide
theorem pin_addrV2 : Generated.C18.addrV2Version = AddrV2Version := by decide
theorem pin_rejectCodes :
    [Generated.C18.rejectMalformed, Generated.C18.rejectInvalid, Generated.C18.rejectObsolete,
      Generated.C18.rejectDuplicate] =
    [(rejectMalformed : Int), rejectInvalid, rejectObsolete, rejectDuplicate] := by decide

end BV.C18
