/-
C18 model, part 4: the `Push*` convenience entry points of a ready peer
(`PushGetBlocksMsg` / `PushGetHeadersMsg` back-to-back duplicate filter, `PushAddrMsg` /
`PushAddrV2Msg` truncation, `PushRejectMsg` version gate, `QueueMessageWithEncoding`). Core-only.
-/
namespace BV.C18.Push

def maxAddrPerMsg : Nat := 1000
def rejectVersion : Nat := 70002

inductive Op
  | getBlocks (begin stop : Nat)    -- begin = 0: empty locator
  | getHeaders (begin stop : Nat)
  | addr (n : Nat)
  | addrV2 (n : Nat)
  | reject (code : Nat)
  | queueEnc (id : Nat)
  deriving DecidableEq, Repr

inductive Out
  | getBlocks (begin stop : Nat) | getHeaders (begin stop : Nat)
  | addr (n : Nat) | addrV2 (n : Nat) | reject (code : Nat) | pong (id : Nat)
  deriving DecidableEq, Repr

/-- previous request: (begin hash if the locator was non-empty, stop hash) -/
abbrev Prev := Option (Option Nat × Nat)

structure St where
  prevGB : Prev
  prevGH : Prev

def isDup (prev : Prev) (b s : Nat) : Bool :=
  match prev with
  | some (some pb, ps) => b != 0 && pb == b && ps == s
  | _ => false

def remember (b s : Nat) : Prev := some (if b = 0 then none else some b, s)

/-- (messages queued, value returned to the caller if any) -/
def step (pver : Nat) (st : St) : Op → St × List Out × Option (Nat)
  | .getBlocks b s =>
    if isDup st.prevGB b s then (st, [], none)
    else ({ st with prevGB := remember b s }, [.getBlocks b s], none)
  | .getHeaders b s =>
    if isDup st.prevGH b s then (st, [], none)
    else ({ st with prevGH := remember b s }, [.getHeaders b s], none)
  | .addr n => (st, if n = 0 then [] else [.addr (min n maxAddrPerMsg)], some (min n maxAddrPerMsg))
  | .addrV2 n => (st, if n = 0 then [] else [.addrV2 n], some n)
  | .reject code => (st, if rejectVersion ≤ pver then [.reject code] else [], none)
  | .queueEnc id => (st, [.pong id], none)

def run (pver : Nat) : St → List Op → List Out × List (Op × Nat)
  | _, [] => ([], [])
  | st, op :: ops =>
    let (st', o, r) := step pver st op
    let (os, rs) := run pver st' ops
    (o ++ os, (match r with | some v => [(op, v)] | none => []) ++ rs)

end BV.C18.Push
