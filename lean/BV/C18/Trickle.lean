/-
C18 model, part 3: the inventory trickle of `queueHandler` (`QueueInventory` → `invSendQueue` →
on each trickle tick: drop what became known, batch into `inv` messages of at most
`maxInvTrickleSize` entries, in queue order). Core-only.
-/
namespace BV.C18.Trickle

/-- The batching loop of the trickle tick: `cur` is the `inv` message being filled. -/
def batch (max : Nat) : List Nat → List Nat → List (List Nat)
  | [], cur => if cur.isEmpty then [] else [cur]
  | x :: xs, cur =>
    if max ≤ (cur ++ [x]).length then (cur ++ [x]) :: batch max xs []
    else batch max xs (cur ++ [x])

theorem batch_flatten (max : Nat) : ∀ (l cur : List Nat), (batch max l cur).flatten = cur ++ l
  | [], cur => by
    unfold batch
    cases cur <;> simp
  | x :: xs, cur => by
    unfold batch
    split
    · simp [batch_flatten max xs []]
    · simp [batch_flatten max xs (cur ++ [x])]

theorem batch_sizes (max : Nat) (hmax : 0 < max) : ∀ (l cur : List Nat), cur.length < max →
    ∀ c ∈ batch max l cur, 0 < c.length ∧ c.length ≤ max
  | [], cur, hc, c, hm => by
    unfold batch at hm
    cases cur with
    | nil => simp at hm
    | cons a t =>
      simp at hm
      subst hm
      exact ⟨by simp, by omega⟩
  | x :: xs, cur, hc, c, hm => by
    unfold batch at hm
    split at hm
    · rename_i hge
      simp only [List.mem_cons] at hm
      rcases hm with hm | hm
      · subst hm
        simp only [List.length_append, List.length_cons, List.length_nil] at hge ⊢
        omega
      · exact batch_sizes max hmax xs [] (by simpa using hmax) c hm
    · rename_i hlt
      exact batch_sizes max hmax xs (cur ++ [x]) (by omega) c hm

/-- Every full batch but possibly the last has exactly `max` entries. -/
theorem batch_full (max : Nat) (hmax : 0 < max) : ∀ (l cur : List Nat), cur.length < max →
    ∀ pre c post, batch max l cur = pre ++ c :: post → post ≠ [] → c.length = max
  | [], cur, _, pre, c, post, h, hp => by
    unfold batch at h
    cases cur with
    | nil => cases pre <;> simp at h
    | cons a t =>
      simp only [List.isEmpty_cons, Bool.false_eq_true, if_false] at h
      cases pre with
      | nil => simp at h; exact absurd h.2 hp
      | cons p ps => cases ps <;> simp at h
  | x :: xs, cur, hc, pre, c, post, h, hp => by
    unfold batch at h
    split at h
    · rename_i hge
      cases pre with
      | nil =>
        simp only [List.nil_append, List.cons.injEq] at h
        rw [← h.1]
        simp only [List.length_append, List.length_cons, List.length_nil] at hge ⊢
        omega
      | cons p ps =>
        simp only [List.cons_append, List.cons.injEq] at h
        exact batch_full max hmax xs [] (by simpa using hmax) ps c post h.2 hp
    · rename_i hlt
      exact batch_full max hmax xs (cur ++ [x]) (by omega) pre c post h hp

end BV.C18.Trickle

namespace BV.C18.Trickle

/-! ### the known-inventory cache (`lru.Cache`, most recently used first) -/

/-- `Contains` marks the entry as most recently used. -/
def lruContains (l : List Nat) (x : Nat) : Bool × List Nat :=
  if l.contains x then (true, x :: l.erase x) else (false, l)

/-- `Add`: move to front if present, else insert and evict the least recently used. -/
def lruAdd (limit : Nat) (l : List Nat) (x : Nat) : List Nat :=
  if l.contains x then x :: l.erase x else (x :: l).take limit

/-- `QueueInventory` for a sequence of transaction inventory: skipped when known. -/
def enqueue : List Nat → List Nat → List Nat → List Nat × List Nat
  | lru, queue, [] => (lru, queue)
  | lru, queue, x :: xs =>
    let (c, lru') := lruContains lru x
    enqueue lru' (if c then queue else queue ++ [x]) xs

/-- The filtering pass of one trickle tick (what became known meanwhile is dropped; what is
sent becomes known). -/
def fresh (limit : Nat) : List Nat → List Nat → List Nat × List Nat
  | lru, [] => (lru, [])
  | lru, x :: xs =>
    let (c, lru') := lruContains lru x
    if c then fresh limit lru' xs
    else
      let (l2, r) := fresh limit (lruAdd limit lru' x) xs
      (l2, x :: r)

/-- Scenario of the `inv` op: ids 1..k made known, 1..n queued, k+1..k+d queued again. The batch
size and the cache limit are internal tuning values of the implementation: they are read from
the tree by the harness and passed in. -/
def scenario (maxBatch limit n k d : Nat) : List (List Nat) :=
  let lru0 := (List.range k).foldl (fun l i => lruAdd limit l (i + 1)) []
  let (lru1, q1) := enqueue lru0 [] ((List.range n).map (· + 1))
  let (lru2, q2) := enqueue lru1 q1 ((List.range d).map (· + k + 1))
  batch maxBatch (fresh limit lru2 q2).2 []

def checksum (l : List Nat) : Nat :=
  (l.zipIdx.foldl (fun acc (x, i) => (acc + (i + 1) * x) % 1000000007) 0)

end BV.C18.Trickle
