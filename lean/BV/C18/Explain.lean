/-
C18: trace inclusion for the pipeline. From what a real run showed (messages on the wire in
order, completion-signal counts, which `QueueMessage` calls returned before the disconnect
request) `witness` builds a schedule of the model; `explains` runs the model on it and answers
whether the model's final state shows exactly that observation. "ok" therefore means: SOME
schedule of the model (to which every theorem of Props part 2 applies) produces this trace.
Core-only.
-/
import BV.C18.Pipe
namespace BV.C18.Pipe

/-- What the harness observed. Message id = producer * 1000 + index. -/
structure Obs where
  nProd : Nat
  nMsg : Nat
  written : List Nat
  /-- ids with no completion signal -/
  lost : List Nat
  /-- ids with more than one completion signal -/
  multi : List Nat
  /-- ids whose `QueueMessage` call had returned before the disconnect request was made -/
  before : List Nat
  /-- ids whose `QueueMessage` call started after `Disconnect()` had returned -/
  after : List Nat
  leak : Bool
  /-- channel capacities of the tree under test: outputQueue, sendQueue, sendDoneQueue, stallControl -/
  caps : Nat × Nat × Nat × Nat
  deriving Repr

def Obs.prodIds (o : Obs) (i : Nat) : List Nat := (List.range o.nMsg).map (fun j => i * 1000 + j)

def Obs.ids (o : Obs) : List Nat := (List.range o.nProd).flatMap o.prodIds

/-- Program order of the callers: each producer queues its messages one after the other. -/
def progPred (m : Nat) : Option Nat := if m % 1000 = 0 then none else some (m - 1)

/-- Channel capacities are read from the tree by the harness and passed on the line. -/
def obsCfg (cap capSend capDone capStall : Nat) : Cfg :=
  ⟨cap, capSend, capDone, capStall, false, false, progPred⟩

/-- Per producer: (sent-before-disconnect but not written, lost one if any, the rest). -/
def Obs.split (o : Obs) (i : Nat) : List Nat × Option Nat × List Nat :=
  let rest := (o.prodIds i).filter (fun x => !o.written.contains x)
  match rest.find? (fun x => o.lost.contains x) with
  | some l => (rest.takeWhile (· ≠ l), some l, (rest.dropWhile (· ≠ l)).drop 1)
  | none => (rest.takeWhile (fun x => o.before.contains x), none,
             rest.dropWhile (fun x => o.before.contains x))

def witness (o : Obs) : List Choice :=
  let prods := List.range o.nProd
  let wPart := o.written.flatMap (fun m =>
    [.check m, .send m, .qRecvOut, .oRecv, .oStep, .sRecv, .oStep, .oStep, .oStep, .qRecvDone])
  let sentPart := prods.flatMap (fun i => (o.split i).1.flatMap (fun x => [.check x, .send x, .qRecvOut]))
  let lostChecks := prods.flatMap (fun i => match (o.split i).2.1 with
    | some l => [Choice.check l] | none => [])
  let imm1 := prods.flatMap (fun i => match (o.split i).2.1 with
    | some _ => [] | none => (o.split i).2.2.map Choice.check)
  let k := o.nProd * o.nMsg + 4
  let handlers := [Choice.qQuit] ++ List.replicate k .qStep ++ [.oQuit] ++ List.replicate k .oStep ++
    [.iExit, .sInQuit, .sOutQuit]
  let lostSends := prods.flatMap (fun i => match (o.split i).2.1 with
    | some l => [Choice.send l] | none => [])
  let imm2 := prods.flatMap (fun i => match (o.split i).2.1 with
    | some _ => (o.split i).2.2.map Choice.check | none => [])
  [Choice.start] ++ wPart ++ sentPart ++ lostChecks ++ [.disconnect] ++ imm1 ++ handlers ++ lostSends ++ imm2

/-- `none` = explained; `some reason` otherwise. -/
def unexplained (o : Obs) : Option String :=
  if o.leak then some "goroutine-leak"
  else if !o.multi.isEmpty then some "done-signalled-twice"
  else if o.nProd > 1000 ∨ o.nMsg > 1000 ∨ o.caps.1 = 0 ∨ o.caps.2.1 = 0 ∨ o.caps.2.2.1 = 0 ∨ o.caps.2.2.2 = 0 then
    some "bad-config"
  else
    let s := exec (obsCfg o.caps.1 o.caps.2.1 o.caps.2.2.1 o.caps.2.2.2) (init o.ids) (witness o)
    if !final s then some "model-not-final"
    else if s.written != o.written then some "written-order-not-producible"
    else if !(s.todo.isEmpty && s.checked.isEmpty) then some "calls-not-producible"
    else if !(o.ids.all (fun x => s.done.count x == (if o.lost.contains x then 0 else 1))) then
      some "done-counts-not-producible"
    else if !(o.before.all (fun x => s.sentBefore.contains x)) then
      some "queued-before-disconnect-not-producible"
    else if !(o.after.all (fun x => !o.lost.contains x && !o.written.contains x)) then
      -- `check` with the flag set signals at once and never queues
      some "called-after-disconnect-not-signalled-at-once"
    else if !(o.lost.all (fun x => o.ids.contains x)) || !(o.before.all (fun x => o.ids.contains x)) then
      some "unknown-id"
    else none

/-- Handler actions that bring a disconnected, started peer to its final state. -/
def shutdown (k : Nat) : List Choice :=
  [Choice.qQuit] ++ List.replicate k .qStep ++ [.oQuit] ++ List.replicate k .oStep ++
    [.iExit, .sInQuit, .sOutQuit]

/-- `n` messages queued while the handshake is still in progress; then either the negotiation
fails (the handlers are never started) or it completes, everything is written, and the remote
closes. -/
def prestartRun (n : Nat) (fail : Bool) : Sys :=
  let ids := List.range n
  let q := ids.flatMap (fun m => [Choice.check m, .send m])
  -- the harness queues at most as many messages as `outputQueue` holds
  let cfg := obsCfg (n + 1) 1 1 1
  if fail then
    exec cfg (init ids) (q ++ [.disconnect, .abandon] ++ List.replicate (n + 1) .aStep)
  else
    exec cfg (init ids) (q ++ [.start] ++
      ids.flatMap (fun _ => [Choice.qRecvOut, .oRecv, .oStep, .sRecv, .oStep, .oStep, .oStep, .qRecvDone]) ++
      [.disconnect] ++ shutdown (n + 4))

def prestartAnswer (n : Nat) (fail : Bool) : String :=
  let s := prestartRun n fail
  let ids := List.range n
  let once := (ids.filter (fun m => s.done.count m == 1)).length
  let multi := (ids.filter (fun m => s.done.count m > 1)).length
  if final s then s!"done={once}/{n} multi={multi} written={s.written.length}"
  else "model-not-final"

def explains (o : Obs) : Bool := (unexplained o).isNone

end BV.C18.Pipe
