/-
C18 helper lemmas for the handshake automaton.
-/
import BV.C18.Spec
namespace BV.C18.HsLemmas
open BV.C18 BV.C18.Spec

/-! ### scanning formulation of `NoDeliveryBeforeHandshake` -/

/-- `scan c pre es`: every application callback in `es` is preceded (within `pre ++ …`) by a
complete handshake. -/
def scan (c : Cfg) : List Ev → List Ev → Prop
  | _, [] => True
  | pre, e :: es =>
    (∀ k, e = Ev.cb k → isHandshakeKind k = false → HandshakeDone c pre) ∧ scan c (pre ++ [e]) es

theorem scan_append (c : Cfg) : ∀ (a b pre : List Ev),
    scan c pre (a ++ b) ↔ scan c pre a ∧ scan c (pre ++ a) b
  | [], b, pre => by simp [scan]
  | e :: a, b, pre => by
    simp only [List.cons_append, scan, scan_append c a b (pre ++ [e]), List.append_assoc,
      List.nil_append, and_assoc]

theorem scan_sound (c : Cfg) : ∀ (es pre0 : List Ev), scan c pre0 es →
    ∀ pre k post, es = pre ++ Ev.cb k :: post → isHandshakeKind k = false →
      HandshakeDone c (pre0 ++ pre)
  | [], _, _, pre, k, post, h, _ => by
    cases pre <;> simp at h
  | e :: es, pre0, hs, pre, k, post, h, hk => by
    cases pre with
    | nil =>
      simp only [List.nil_append, List.cons.injEq] at h
      simpa using hs.1 k h.1 hk
    | cons p pre' =>
      simp only [List.cons_append, List.cons.injEq] at h
      have := scan_sound c es (pre0 ++ [e]) hs.2 pre' k post h.2 hk
      simpa [h.1] using this

theorem noDelivery_of_scan (c : Cfg) (es : List Ev) (h : scan c [] es) :
    NoDeliveryBeforeHandshake c es := by
  intro pre k post he hk
  simpa using scan_sound c es [] h pre k post he hk

/-! ### monotonicity -/

/-- First half of the exchange: version read, delivered, ours and our verack written. -/
def PartA (c : Cfg) (es : List Ev) : Prop :=
  c.rejectVersion = false ∧
  (∃ v self, Ev.rd (.version v self) ∈ es ∧ acceptableVersion c v self) ∧
  Ev.cb .version ∈ es ∧ Ev.wr (.version c.ours) ∈ es ∧ Ev.wr .verack ∈ es

theorem done_iff (c : Cfg) (es : List Ev) :
    HandshakeDone c es ↔ PartA c es ∧ Ev.rd (.other .verack) ∈ es ∧ Ev.cb .verack ∈ es := by
  unfold HandshakeDone PartA
  constructor
  · rintro ⟨a, b, c, d, e, f, g⟩; exact ⟨⟨a, b, c, d, e⟩, f, g⟩
  · rintro ⟨⟨a, b, c, d, e⟩, f, g⟩; exact ⟨a, b, c, d, e, f, g⟩

theorem partA_mono (c : Cfg) (a b : List Ev) (h : PartA c a) : PartA c (a ++ b) := by
  obtain ⟨h0, ⟨v, self, h1, h1'⟩, h2, h3, h4⟩ := h
  exact ⟨h0, ⟨v, self, List.mem_append_left _ h1, h1'⟩, List.mem_append_left _ h2,
    List.mem_append_left _ h3, List.mem_append_left _ h4⟩

theorem done_mono (c : Cfg) (a b : List Ev) (h : HandshakeDone c a) : HandshakeDone c (a ++ b) := by
  rw [done_iff] at *
  exact ⟨partA_mono c a b h.1, List.mem_append_left _ h.2.1, List.mem_append_left _ h.2.2⟩

/-! ### the invariant tying automaton state to the trace so far -/

def R (c : Cfg) (s : St) (acc : List Ev) : Prop :=
  (s.phase = .ready → HandshakeDone c acc) ∧
  (s.phase = .awaitVerack → PartA c acc) ∧
  (s.phase = .awaitVersion → c.inbound = false → Ev.wr (.version c.ours) ∈ acc)

theorem R_init (c : Cfg) : R c (init c).1 (init c).2 := by
  unfold init R
  cases hin : c.inbound <;> simp

theorem wrReject_scan (c : Cfg) (pre : List Ev) (p : Nat) (cmd : RCmd) (code : Nat) :
    scan c pre (wrReject p cmd code) := by
  unfold wrReject; split <;> simp [scan]

theorem R_closed (c : Cfg) (s : St) (acc : List Ev) : R c s.close acc := by
  simp [R, St.close]

/-- awaitVersion step. -/
theorem step_awaitVersion (c : Cfg) (s : St) (acc : List Ev) (r : Rd)
    (hph : s.phase = .awaitVersion) (hR : R c s acc) :
    scan c acc (Ev.rd r :: (stepAwaitVersion c s r).2) ∧
      R c (stepAwaitVersion c s r).1 (acc ++ Ev.rd r :: (stepAwaitVersion c s r).2) := by
  have hout := hR.2.2 hph
  cases r with
  | version v self =>
    unfold stepAwaitVersion
    simp only []
    by_cases h1 : (!c.allowSelf && self) = true
    · simp only [h1, if_true]
      exact ⟨by simp [scan], R_closed c s _⟩
    · simp only [h1]
      by_cases h2 : c.rejectVersion = true
      · simp only [h2, if_true]
        refine ⟨?_, by simp [R, St.close]⟩
        simp only [scan, List.cons_append, List.nil_append, reduceCtorEq, false_implies,
          implies_true, true_and]
        refine ⟨by intro k hk hk'; cases hk; simp [isHandshakeKind] at hk', ?_⟩
        exact wrReject_scan c _ _ _ _
      · simp only [h2]
        by_cases h3 : v < MinAcceptableProtocolVersion
        · simp only [h3, if_true]
          refine ⟨?_, by simp [R, St.close]⟩
          simp only [scan, List.cons_append, List.nil_append, reduceCtorEq, false_implies,
            implies_true, true_and]
          refine ⟨by intro k hk hk'; cases hk; simp [isHandshakeKind] at hk', ?_⟩
          exact wrReject_scan c _ _ _ _
        · simp only [h3]
          have hself : self = true → c.allowSelf = true := by
            intro hs; subst hs
            cases ha : c.allowSelf <;> simp [ha] at h1 ⊢
          have hrv : c.rejectVersion = false := by
            cases hr : c.rejectVersion <;> simp [hr] at h2 ⊢
          refine ⟨?_, ?_⟩
          · cases hin : c.inbound <;> by_cases h4 : AddrV2Version ≤ min s.pver v <;>
              simp [scan, h4, isHandshakeKind]
          · refine ⟨by simp, ?_, by simp⟩
            intro _
            refine ⟨hrv, ⟨v, self, by simp, ⟨by omega, hself⟩⟩, by simp, ?_, by simp⟩
            cases hin : c.inbound
            · have := hout hin
              simp [this]
            · simp
  | ping n =>
    unfold stepAwaitVersion
    exact ⟨by simp [scan, wrReject_scan], R_closed c s _⟩
  | other k =>
    unfold stepAwaitVersion
    exact ⟨by simp [scan, wrReject_scan], R_closed c s _⟩
  | unknown => unfold stepAwaitVersion; exact ⟨by simp [scan], R_closed c s _⟩
  | merr => unfold stepAwaitVersion; exact ⟨by simp [scan], R_closed c s _⟩
  | eof => unfold stepAwaitVersion; exact ⟨by simp [scan], R_closed c s _⟩
  | ueof => unfold stepAwaitVersion; exact ⟨by simp [scan], R_closed c s _⟩


/-- awaitVerack step. -/
theorem step_awaitVerack (c : Cfg) (s : St) (acc : List Ev) (r : Rd)
    (hph : s.phase = .awaitVerack) (hR : R c s acc) :
    scan c acc (Ev.rd r :: (stepAwaitVerack c s r).2) ∧
      R c (stepAwaitVerack c s r).1 (acc ++ Ev.rd r :: (stepAwaitVerack c s r).2) := by
  have hA := hR.2.1 hph
  have keep : ∀ e : List Ev, R c s (acc ++ e) := by
    intro e
    refine ⟨by simp [hph], fun _ => partA_mono c acc e hA, by simp [hph]⟩
  cases r with
  | other k =>
    cases k
    case verack =>
      unfold stepAwaitVerack
      refine ⟨by simp [scan, isHandshakeKind], ?_⟩
      refine ⟨fun _ => ?_, by simp, by simp⟩
      rw [done_iff]
      exact ⟨partA_mono c acc _ hA, by simp, by simp⟩
    case sendaddrv2 =>
      unfold stepAwaitVerack
      by_cases h : AddrV2Version ≤ s.pver
      · simp only [h, if_true]; exact ⟨by simp [scan, isHandshakeKind], keep _⟩
      · simp only [h, if_false]; exact ⟨by simp [scan], keep _⟩
    all_goals (unfold stepAwaitVerack; exact ⟨by simp [scan], R_closed c s _⟩)
  | unknown => unfold stepAwaitVerack; exact ⟨by simp [scan], keep _⟩
  | version v self => unfold stepAwaitVerack; exact ⟨by simp [scan], R_closed c s _⟩
  | ping n => unfold stepAwaitVerack; exact ⟨by simp [scan], R_closed c s _⟩
  | merr => unfold stepAwaitVerack; exact ⟨by simp [scan], R_closed c s _⟩
  | eof => unfold stepAwaitVerack; exact ⟨by simp [scan], R_closed c s _⟩
  | ueof => unfold stepAwaitVerack; exact ⟨by simp [scan], R_closed c s _⟩

/-- ready step. -/
theorem step_ready (c : Cfg) (s : St) (acc : List Ev) (r : Rd)
    (hph : s.phase = .ready) (hR : R c s acc) :
    scan c acc (Ev.rd r :: (stepReady c s r).2) ∧
      R c (stepReady c s r).1 (acc ++ Ev.rd r :: (stepReady c s r).2) := by
  have hD := hR.1 hph
  have keep : ∀ e : List Ev, R c s (acc ++ e) := by
    intro e
    refine ⟨fun _ => done_mono c acc e hD, by simp [hph], by simp [hph]⟩
  have hD1 : ∀ e : List Ev, HandshakeDone c (acc ++ e) := fun e => done_mono c acc e hD
  cases r with
  | other k =>
    cases k
    case verack =>
      unfold stepReady; exact ⟨by simp [scan, wrReject_scan], R_closed c s _⟩
    case sendaddrv2 =>
      unfold stepReady; exact ⟨by simp [scan], R_closed c s _⟩
    all_goals
      (unfold stepReady
       refine ⟨?_, keep _⟩
       simp only [Kind.hasListener, if_true, if_false, Bool.false_eq_true, scan, reduceCtorEq,
         false_implies, implies_true, true_and, and_true]
       try (intro k hk _; exact hD1 _))
  | ping n =>
    unfold stepReady
    refine ⟨?_, keep _⟩
    by_cases h : BIP0031Version < s.pver
    · simp only [h, if_true, scan, List.cons_append, List.nil_append, reduceCtorEq, false_implies,
        implies_true, true_and, and_true]
      intro k _ _; simpa using hD1 _
    · simp only [h, if_false, scan, List.nil_append, reduceCtorEq, false_implies,
        implies_true, true_and, and_true]
      intro k _ _; exact hD1 _
  | unknown => unfold stepReady; exact ⟨by simp [scan], keep _⟩
  | version v self => unfold stepReady; exact ⟨by simp [scan, wrReject_scan], R_closed c s _⟩
  | merr =>
    unfold stepReady
    by_cases h : c.allowMalformed = true
    · simp only [h, if_true]; exact ⟨by simp [scan], keep _⟩
    · simp only [h]; exact ⟨by simp [scan, wrReject_scan], R_closed c s _⟩
  | eof => unfold stepReady; exact ⟨by simp [scan], R_closed c s _⟩
  | ueof => unfold stepReady; exact ⟨by simp [scan, wrReject_scan], R_closed c s _⟩

theorem step_inv (c : Cfg) (s : St) (acc : List Ev) (t : Tok) (hR : R c s acc) :
    scan c acc (step c s t).2 ∧ R c (step c s t).1 (acc ++ (step c s t).2) := by
  unfold step
  cases hph : s.phase with
  | closed => simpa [scan] using hR
  | awaitVersion => exact step_awaitVersion c s acc _ hph hR
  | awaitVerack => exact step_awaitVerack c s acc _ hph hR
  | ready => exact step_ready c s acc _ hph hR

theorem runFrom_scan (c : Cfg) : ∀ (ts : List Tok) (s : St) (acc : List Ev), R c s acc →
    scan c acc (runFrom c s ts).2
  | [], _, _, _ => by simp [runFrom, scan]
  | t :: ts, s, acc, hR => by
    have h := step_inv c s acc t hR
    simp only [runFrom]
    rw [scan_append]
    exact ⟨h.1, runFrom_scan c ts _ _ h.2⟩

theorem run_noDelivery (c : Cfg) (ts : List Tok) : NoDeliveryBeforeHandshake c (run c ts).2 := by
  apply noDelivery_of_scan
  unfold run
  simp only []
  rw [scan_append]
  refine ⟨?_, ?_⟩
  · unfold init; cases c.inbound <;> simp [scan]
  · have := runFrom_scan c (ts ++ [.eof]) (init c).1 ([] ++ (init c).2) (by simpa using R_init c)
    simpa using this


theorem runV2_noDelivery (c : Cfg) (ts : List Tok) : NoDeliveryBeforeHandshake c (runV2 c ts).2 := by
  apply noDelivery_of_scan
  unfold runV2
  simp only []
  rw [scan_append]
  refine ⟨?_, ?_⟩
  · unfold init; cases c.inbound <;> simp [scan]
  · have := runFrom_scan c ts (init c).1 ([] ++ (init c).2) (by simpa using R_init c)
    simpa using this

/-! ### closed is absorbing; the negotiated version is fixed by the first message -/

theorem runFrom_closed (c : Cfg) : ∀ (ts : List Tok) (s : St), s.phase = .closed →
    runFrom c s ts = (s, [])
  | [], _, _ => rfl
  | t :: ts, s, h => by
    have hs : step c s t = (s, []) := by unfold step; simp [h]
    simp [runFrom, hs, runFrom_closed c ts s h]

theorem wrReject_noCb (p : Nat) (cmd : RCmd) (code : Nat) (k : Kind) :
    Ev.cb k ∉ wrReject p cmd code := by
  unfold wrReject; split <;> simp

/-- After the version phase, a step never changes the negotiated version. -/
theorem step_stable (c : Cfg) (s : St) (t : Tok) (h : s.phase ≠ .awaitVersion) :
    (step c s t).1.pver = s.pver ∧ (step c s t).1.versionKnown = s.versionKnown ∧
      (step c s t).1.phase ≠ .awaitVersion := by
  unfold step
  cases hph : s.phase with
  | awaitVersion => exact absurd hph h
  | closed => simp [hph]
  | awaitVerack =>
    simp only []
    generalize classify s.pver t = r
    unfold stepAwaitVerack
    cases r with
    | other k => cases k <;> simp [St.close, hph] <;> split <;> simp [hph]
    | _ => simp [St.close, hph]
  | ready =>
    simp only []
    generalize classify s.pver t = r
    unfold stepReady
    cases r with
    | other k => cases k <;> simp [St.close, hph]
    | merr => by_cases ham : c.allowMalformed = true <;> simp [St.close, hph, ham]
    | _ => simp [St.close, hph]

theorem runFrom_stable (c : Cfg) : ∀ (ts : List Tok) (s : St), s.phase ≠ .awaitVersion →
    (runFrom c s ts).1.pver = s.pver ∧ (runFrom c s ts).1.versionKnown = s.versionKnown
  | [], _, _ => by simp [runFrom]
  | t :: ts, s, h => by
    have h1 := step_stable c s t h
    have h2 := runFrom_stable c ts (step c s t).1 h1.2.2
    simp only [runFrom]
    exact ⟨h2.1.trans h1.1, h2.2.trans h1.2.1⟩

theorem classify_version (p : Nat) (t : Tok) (v : Nat) (b : Bool)
    (h : classify p t = .version v b) : t = .version v b := by
  cases t <;> simp only [classify] at h <;> (try split at h) <;> simp_all

theorem negotiated_min (c : Cfg) (v : Nat) (self : Bool) (ts : List Tok)
    (h : self = true → c.allowSelf = true) :
    (run c (.version v self :: ts)).1.pver = min c.ours v ∧
      (run c (.version v self :: ts)).1.versionKnown = true := by
  have h1 : (!c.allowSelf && self) = false := by
    cases self <;> simp_all
  unfold run
  simp only [List.cons_append, runFrom]
  have hi : (init c).1 = ⟨.awaitVersion, c.ours, false, false⟩ := by
    unfold init; cases c.inbound <;> rfl
  rw [hi]
  have key : (step c ⟨.awaitVersion, c.ours, false, false⟩ (.version v self)).1.pver = min c.ours v ∧
      (step c ⟨.awaitVersion, c.ours, false, false⟩ (.version v self)).1.versionKnown = true ∧
      (step c ⟨.awaitVersion, c.ours, false, false⟩ (.version v self)).1.phase ≠ .awaitVersion := by
    simp only [step, classify, stepAwaitVersion, h1]
    by_cases h2 : c.rejectVersion = true
    · simp [h2, St.close]
    · by_cases h3 : v < MinAcceptableProtocolVersion
      · simp [h2, h3, St.close]
      · simp [h2, h3]
  have st := runFrom_stable c (ts ++ [.eof])
    (step c ⟨.awaitVersion, c.ours, false, false⟩ (.version v self)).1 key.2.2
  exact ⟨st.1.trans key.1, st.2.trans key.2.1⟩

/-- `versionKnown` can only come from an accepted first `version` message. -/
theorem versionKnown_only (c : Cfg) (ts : List Tok) (h : (run c ts).1.versionKnown = true) :
    ∃ v self rest, ts = .version v self :: rest ∧ (self = true → c.allowSelf = true) ∧
      (run c ts).1.pver = min c.ours v := by
  have hi : (init c).1 = ⟨.awaitVersion, c.ours, false, false⟩ := by
    unfold init; cases c.inbound <;> rfl
  -- a first step that does not see an accepted version closes with versionKnown = false
  have closes : ∀ (t : Tok) (rest : List Tok),
      (∀ v b, t = .version v b → (!c.allowSelf && b) = true) →
      (runFrom c ⟨.awaitVersion, c.ours, false, false⟩ (t :: rest)).1.versionKnown = false := by
    intro t rest ht
    simp only [runFrom]
    have hs : (step c ⟨.awaitVersion, c.ours, false, false⟩ t).1 =
        ⟨.closed, c.ours, false, false⟩ := by
      simp only [step]
      cases hr : classify c.ours t with
      | version v b =>
        have := classify_version _ _ _ _ hr
        have hb := ht v b this
        simp [stepAwaitVersion, hb, St.close]
      | _ => simp [stepAwaitVersion, St.close]
    rw [hs, runFrom_closed c rest _ rfl]
  cases ts with
  | nil =>
    exfalso
    have := closes .eof [] (by intro v b hh; cases hh)
    unfold run at h
    simp only [List.nil_append, hi] at h
    rw [this] at h; cases h
  | cons t rest =>
    by_cases hv : ∃ v b, t = .version v b ∧ (b = true → c.allowSelf = true)
    · obtain ⟨v, b, rfl, hb⟩ := hv
      exact ⟨v, b, rest, rfl, hb, (negotiated_min c v b rest hb).1⟩
    · exfalso
      have := closes t (rest ++ [.eof]) (by
        intro v b hh
        cases hb : b <;> cases ha : c.allowSelf <;> simp
        all_goals (apply hv; refine ⟨v, b, hh, ?_⟩; simp [hb, ha]))
      unfold run at h
      simp only [List.cons_append, hi] at h
      rw [this] at h; cases h

end BV.C18.HsLemmas
