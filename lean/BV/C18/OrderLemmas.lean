/-
C18 helper lemmas: program order of the callers is preserved into `outputQueue`
(and therefore onto the wire).
-/
import BV.C18.PipeLemmas
namespace BV.C18.Pipe

/-- `ordered pred pre l`: every element of `l` has its program-order predecessor among `pre` or
the elements of `l` before it. -/
def ordered (pred : Nat → Option Nat) : List Nat → List Nat → Prop
  | _, [] => True
  | pre, m :: l => (∀ p, pred m = some p → p ∈ pre) ∧ ordered pred (pre ++ [m]) l

theorem ordered_append (pred : Nat → Option Nat) : ∀ (a b pre : List Nat),
    ordered pred pre (a ++ b) ↔ ordered pred pre a ∧ ordered pred (pre ++ a) b
  | [], b, pre => by simp [ordered]
  | m :: a, b, pre => by
    simp only [List.cons_append, ordered, ordered_append pred a b (pre ++ [m]), List.append_assoc,
      List.nil_append, and_assoc]

theorem ordered_sound (pred : Nat → Option Nat) : ∀ (l pre0 : List Nat), ordered pred pre0 l →
    ∀ a m b p, l = a ++ m :: b → pred m = some p → p ∈ pre0 ++ a
  | [], _, _, a, m, b, p, h, _ => by cases a <;> simp at h
  | x :: l, pre0, ho, a, m, b, p, h, hp => by
    cases a with
    | nil =>
      simp only [List.nil_append, List.cons.injEq] at h
      have := ho.1 p (by rw [h.1]; exact hp)
      simpa using this
    | cons y a' =>
      simp only [List.cons_append, List.cons.injEq] at h
      have := ordered_sound pred l (pre0 ++ [x]) ho.2 a' m b p h.2 hp
      simpa [h.1] using this

structure OrdInv (c : Cfg) (ids : List Nat) (s : Sys) : Prop where
  /-- a call that is over either queued its message or saw the disconnect flag -/
  over : ∀ x, x ∈ ids → x ∉ s.todo → x ∉ s.checked → (x ∈ s.sent ∨ s.disc = true)
  /-- a call past its check has its predecessor queued -/
  chk : ∀ m ∈ s.checked, ∀ p, c.pred m = some p → p ∈ s.sent
  ord : ordered c.pred [] s.sent

theorem ord_init (c : Cfg) (ids : List Nat) : OrdInv c ids (init ids) := by
  constructor
  · intro x hx hx'; simp [init] at hx'; exact absurd hx hx'
  · intro m hm; simp [init] at hm
  · simp [init, ordered]

theorem ord_step (c : Cfg) (ids : List Nat) (hp : ∀ m p, c.pred m = some p → p ∈ ids)
    (s : Sys) (ch : Choice) (h : OrdInv c ids s) : OrdInv c ids (step c s ch) := by
  obtain ⟨h1, h2, h3⟩ := h
  unfold step
  cases ch <;> simp only [stepOpt, hStep]
  case check m =>
    split
    · rename_i hg
      split <;> simp only [Option.getD_some]
      · rename_i hd
        refine ⟨fun x _ _ _ => Or.inr hd, h2, h3⟩
      · rename_i hd
        refine ⟨?_, ?_, h3⟩
        · intro x hx hx1 hx2
          simp only [List.mem_append, List.mem_singleton, not_or] at hx2
          refine h1 x hx ?_ hx2.1
          intro hxt
          exact hx1 ((List.mem_erase_of_ne hx2.2).2 hxt)
        · intro m' hm' p hpm
          simp only [List.mem_append, List.mem_singleton] at hm'
          rcases hm' with hm' | hm'
          · exact h2 m' hm' p hpm
          · subst hm'
            have hg2 := hg.2 p hpm
            rcases h1 p (hp _ p hpm) hg2.1 hg2.2 with hs | hdisc
            · exact hs
            · exact absurd hdisc hd
    · exact ⟨h1, h2, h3⟩
  case send m =>
    split
    · rename_i hg
      simp only [Option.getD_some]
      refine ⟨?_, ?_, ?_⟩
      · intro x hx hx1 hx2
        by_cases hxm : x = m
        · left; simp [hxm]
        · have : x ∉ s.checked := fun hc => hx2 ((List.mem_erase_of_ne hxm).2 hc)
          rcases h1 x hx hx1 this with hs | hd
          · left; exact List.mem_append_left _ hs
          · right; exact hd
      · intro m' hm' p hpm
        exact List.mem_append_left _ (h2 m' (List.mem_of_mem_erase hm') p hpm)
      · rw [ordered_append]
        refine ⟨h3, ?_⟩
        simp only [ordered, List.nil_append, and_true]
        intro p hpm
        exact h2 m hg.1 p hpm
    · exact ⟨h1, h2, h3⟩
  all_goals (repeat' split)
  all_goals (simp only [Option.getD_some, Option.getD_none])
  all_goals (first | exact ⟨h1, h2, h3⟩ | skip)
  all_goals (refine ⟨?_, h2, h3⟩; intro x hx hx1 hx2; first | exact Or.inr rfl | exact h1 x hx hx1 hx2)

theorem ord_exec (c : Cfg) (ids : List Nat) (hp : ∀ m p, c.pred m = some p → p ∈ ids) :
    ∀ (sched : List Choice) (s : Sys), OrdInv c ids s → OrdInv c ids (exec c s sched)
  | [], _, h => h
  | ch :: rest, s, h => ord_exec c ids hp rest _ (ord_step c ids hp s ch h)

end BV.C18.Pipe
