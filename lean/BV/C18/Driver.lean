/- C18 line-protocol driver (core-only). Stub until the property's model lands. -/
namespace BV.C18.Driver

def handle : List String → String
  | _ => "unimplemented"

end BV.C18.Driver
