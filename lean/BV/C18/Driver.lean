/- C18 line-protocol driver (core-only). -/
import BV.C18.Model
import BV.C18.Explain
import BV.C18.Trickle
import BV.C18.Push
namespace BV.C18.Driver
open BV.C18

def kindName : Kind → String
  | .version => "version" | .verack => "verack" | .sendaddrv2 => "sendaddrv2"
  | .ping => "ping" | .pong => "pong" | .getaddr => "getaddr" | .addr => "addr"
  | .mempool => "mempool" | .sendheaders => "sendheaders" | .feefilter => "feefilter"
  | .inv => "inv" | .headers => "headers" | .getheaders => "getheaders"
  | .getblocks => "getblocks" | .getdata => "getdata" | .notfound => "notfound"
  | .reject => "reject" | .filterclear => "filterclear" | .cfcheckpt => "cfcheckpt"

def allKinds : List Kind :=
  [.version, .verack, .sendaddrv2, .ping, .pong, .getaddr, .addr, .mempool, .sendheaders,
   .feefilter, .inv, .headers, .getheaders, .getblocks, .getdata, .notfound, .reject,
   .filterclear, .cfcheckpt]

def parseKind? (s : String) : Option Kind := allKinds.find? (fun k => kindName k == s)

def parseBool? (s : String) : Option Bool :=
  if s == "1" then some true else if s == "0" then some false else none

/-- nonce of the flush ping the scripted remote uses (`F`) -/
def flushNonce : Nat := 0xF1F1F1F1F1F1F1F1

def parseTok? (s : String) : Option Tok :=
  match s.splitOn ":" with
  | ["v", p, self] => do
    let p ← p.toNat?
    let b ← parseBool? self
    if p < 2^32 then pure (.version p b) else none
  | ["m", k] => do
    let k ← parseKind? k
    if k = .version ∨ k = .ping then none else pure (.msg k)
  | ["p", n] => do
    let n ← n.toNat?
    if n < 2^64 then pure (.ping n) else none
  | ["F"] => some (.ping flushNonce)
  | ["pe"] => some .pingEmpty
  | ["ps"] => some .pingShort
  | ["unk"] => some .unknown
  | ["magic"] => some .wrongMagic
  | ["cksum"] => some .badChecksum
  | ["badcmd"] => some .badCommand
  | ["extra"] => some .extraBytes
  | ["big"] => some .oversize
  | ["mpl"] => some .overMpl
  | ["trunc"] => some .trunc
  | _ => none

def parseToks? (s : String) : Option (List Tok) :=
  -- "S" is a pause of the scripted remote: no bytes on the wire
  if s == "-" then some [] else ((s.splitOn ",").filter (· != "S")).mapM parseTok?

def rdName : Rd → String
  | .version _ _ => "version" | .ping _ => "ping" | .other k => kindName k
  | .unknown => "unknown" | .merr => "merr" | .eof => "eof" | .ueof => "ueof"

def rcmdName : RCmd → String
  | .version => "version" | .verack => "verack" | .malformed => "malformed"

def wName : W → String
  | .version a => s!"version({a})" | .verack => "verack" | .sendaddrv2 => "sendaddrv2"
  | .pong n => s!"pong({n})" | .reject c code => s!"reject({rcmdName c}/{code})"

def joinOrDash (xs : List String) : String :=
  if xs.isEmpty then "-" else ",".intercalate xs

def render (s : St) (es : List Ev) : String :=
  let rds := es.filterMap (fun e => match e with | .rd r => some (rdName r) | _ => none)
  let cbs := es.filterMap (fun e => match e with | .cb k => some (kindName k) | _ => none)
  let ws := es.filterMap (fun e => match e with | .wr w => some (wName w) | _ => none)
  let b (x : Bool) : String := if x then "1" else "0"
  let ack := match ackPver s with | some p => toString p | none => "-"
  s!"rd={joinOrDash rds} cb={joinOrDash cbs} w={joinOrDash ws} pver={s.pver} vk={b s.versionKnown} va={b s.verAck} ack={ack} wh={b (wantsHeaders es)} wa={b (wantsAddrV2 es)} wit={b (witnessEnabled s es)}"

def parseNats? (s : String) : Option (List Nat) :=
  if s == "-" then some [] else (s.splitOn ",").mapM (fun (x : String) => x.toNat?)

def parseMulti? (s : String) : Option (List Nat) :=
  if s == "-" then some [] else (s.splitOn ",").mapM (fun (x : String) =>
    match x.splitOn ":" with
    | [a, _] => a.toNat?
    | _ => none)

def field? (pre : String) (s : String) : Option String :=
  if s.startsWith pre then some (s.drop pre.length).toString else none

def handleTrace : List String → String
  | [np, nm, _mode, w, lost, multi, before, after, leak, note, caps] =>
    -- a caller, the disconnect or the handshake that never returned is outside every schedule
    if note != "note=-" then "unexplained:" ++ note else
    match np.toNat?, nm.toNat?, (field? "w=" w).bind parseNats?, (field? "lost=" lost).bind parseNats?,
          (field? "multi=" multi).bind parseMulti?, (field? "before=" before).bind parseNats?,
          (field? "after=" after).bind parseNats?, (field? "leak=" leak).bind parseBool?,
          (field? "caps=" caps).bind parseNats? with
    | some np, some nm, some w, some lost, some multi, some before, some after, some leak,
      some [c0, c1, c2, c3] =>
      match Pipe.unexplained ⟨np, nm, w, lost, multi, before, after, leak, (c0, c1, c2, c3)⟩ with
      | none => "ok"
      | some r => "unexplained:" ++ r
    | _, _, _, _, _, _, _, _, _ => "bad-op"
  | _ => "bad-op"

def handleHs : List String → String
  | [dir, ours, allowSelf, net, host, rejVer, toks] =>
    match (if dir == "in" then some true else if dir == "out" then some false else none),
          ours.toNat?, parseBool? allowSelf,
          (if net == "reg" then some true else if net == "main" then some false else none),
          (if host == "local" then some true else if host == "remote" then some false else none),
          parseBool? rejVer, parseToks? toks with
    | some inbound, some ours, some as, some reg, some loc, some rv, some ts =>
      if ours = 0 ∨ ours ≥ 2^32 then "bad-op" else
      let (s, es) := run ⟨inbound, ours, as, reg && loc, rv⟩ ts
      render s es
    | _, _, _, _, _, _, _ => "bad-op"
  | _ => "bad-op"

def closedLine (c : Cfg) (w : String) : String :=
  s!"rd=- cb=- w={w} pver={c.ours} vk=0 va=0 ack=- wh=0 wa=0 wit=0"

def handleHs2 : List String → String
  | [tr, dir, ours, allowSelf, net, host, rejVer, toks, toks2] =>
    match (if dir == "in" then some true else if dir == "out" then some false else none),
          ours.toNat?, parseBool? allowSelf,
          (if net == "reg" then some true else if net == "main" then some false else none),
          (if host == "local" then some true else if host == "remote" then some false else none),
          parseBool? rejVer, parseToks? toks, parseToks? toks2 with
    | some inbound, some ours, some as, some reg, some loc, some rv, some ts, some ts2 =>
      if ours = 0 ∨ ours ≥ 2^32 then "bad-op" else
      let c : Cfg := ⟨inbound, ours, as, reg && loc, rv⟩
      if tr == "v2" then
        let (s, es) := runV2 c ts
        render s es ++ " dg=0"
      else if tr == "v2dg" then
        if inbound then
          match runV2dgIn c ts with
          | .v1 (s, es) => render s es ++ " dg=0"
          | .keyOnly => closedLine c "v2key" ++ " dg=0"
          | .nothing => closedLine c "-" ++ " dg=0"
        else if v2dgOutDowngrade ts then
          let (s, es) := run c ts2
          closedLine c "v2key" ++ " dg=1 || " ++ render s es
        else closedLine c "v2key" ++ " dg=0"
      else "bad-op"
    | _, _, _, _, _, _, _, _ => "bad-op"
  | _ => "bad-op"

def parsePushOp? (s : String) : Option Push.Op :=
  match s.splitOn ":" with
  | ["gb", b, e] => do pure (.getBlocks (← b.toNat?) (← e.toNat?))
  | ["gh", b, e] => do pure (.getHeaders (← b.toNat?) (← e.toNat?))
  | ["addr", n] => do pure (.addr (← n.toNat?))
  | ["a2", n] => do let n ← n.toNat?; if n ≤ 1000 then pure (.addrV2 n) else none
  | ["rej", c] => do let c ← c.toNat?; if c < 256 then pure (.reject c) else none
  | ["qe", i] => do pure (.queueEnc (← i.toNat?))
  | _ => none

def pushOutName : Push.Out → String
  | .getBlocks b s => s!"b({b},{s})" | .getHeaders b s => s!"h({b},{s})"
  | .addr n => s!"addr({n})" | .addrV2 n => s!"addrv2({n})"
  | .reject c => s!"reject(tx/{c}/9)" | .pong i => s!"pong({i})"

def handlePush : List String → String
  | [ours, theirs, ops] =>
    match ours.toNat?, theirs.toNat?, (if ops == "-" then some [] else (ops.splitOn ",").mapM parsePushOp?) with
    | some ours, some theirs, some ops =>
      if min ours theirs ≤ 60000 ∨ ours ≥ 2^31 ∨ theirs ≥ 2^31 then "bad-op" else
      let (outs, rets) := Push.run (min ours theirs) ⟨none, none⟩ ops
      let rs := rets.map (fun (op, v) => match op with
        | .addr _ => s!"addr={v}/true/true"
        | _ => s!"a2={v}/true")
      s!"w={joinOrDash (outs.map pushOutName)} ret={joinOrDash rs} bytes=ok"
    | _, _, _ => "bad-op"
  | _ => "bad-op"

/-- Two real peers of one process connected back to back. What each side receives is what the
other side's automaton writes: the inbound peer gets the outbound peer's version (its nonce is in
the process's cache: `self_nonce_registered_before_visible`), and, only when self connections are
allowed, the rest of a regular exchange. -/
def handleSelfConn : List String → String
  | [allow, oursO, oursI, _sched] =>
    match parseBool? allow, oursO.toNat?, oursI.toNat? with
    | some allow, some oO, some oI =>
      if oO = 0 ∨ oI = 0 ∨ oO ≥ 2^31 ∨ oI ≥ 2^31 then "bad-op" else
      let neg := min oO oI
      let rest : List Tok :=
        if allow ∧ MinAcceptableProtocolVersion ≤ neg then
          (if AddrV2Version ≤ neg then [.msg .sendaddrv2] else []) ++ [.msg .verack]
        else []
      let inToks : List Tok := .version oO true :: (if allow then rest else [])
      let outToks : List Tok := if allow then .version oI true :: rest else []
      let (si, ei) := run ⟨true, oI, allow, false, false⟩ inToks
      let (so, eo) := run ⟨false, oO, allow, false, false⟩ outToks
      let cbs (es : List Ev) := joinOrDash (es.filterMap (fun e => match e with | .cb k => some (kindName k) | _ => none))
      let b (x : Bool) : String := if x then "1" else "0"
      s!"in: cb={cbs ei} pver={si.pver} vk={b si.versionKnown} va={b si.verAck} | out: cb={cbs eo} pver={so.pver} vk={b so.versionKnown} va={b so.verAck}"
    | _, _, _ => "bad-op"
  | _ => "bad-op"

def handle : List String → String
  | "trace" :: rest => handleTrace rest
  | "selfconn" :: rest => handleSelfConn rest
  | "push" :: rest => handlePush rest
  | "hs2" :: rest => handleHs2 rest
  | ["inv", n, k, d, b, maxBatch, limit] =>
    match n.toNat?, k.toNat?, d.toNat?, b.toNat?, maxBatch.toNat?, limit.toNat? with
    | some n, some k, some d, some b, some maxBatch, some limit =>
      if n > 20000 ∨ k > n ∨ k + d > n ∨ b > 40 ∨ maxBatch = 0 then "bad-op" else
      let batches := Trickle.scenario maxBatch limit n k d
      let sizes := batches.map (fun c => toString c.length)
      s!"blocks={b} tx={joinOrDash sizes} sum={Trickle.checksum batches.flatten}"
    | _, _, _, _, _, _ => "bad-op"
  | ["racerun", _, _, _] =>
    -- the model has no data: a race-detector run of the harness must be clean and agree
    "build=ok races=0 mism=0"
  | ["par", subs] => "|".intercalate ((subs.splitOn "|").map (fun sub => handleHs (sub.splitOn ";")))
  | ["prestart", dir, n, mode] =>
    match n.toNat? with
    | some n =>
      if (dir == "in" || dir == "out") && n ≤ 5000 && (mode == "fail" || mode == "ok" || mode == "disc") then
        -- "disc" (Disconnect during the unfinished handshake) takes the same abandon/drain path
        Pipe.prestartAnswer n (mode != "ok")
      else "bad-op"
    | none => "bad-op"
  | ["leakhunt", n, seed] =>
    -- `all_terminate`: after the disconnect request every process of the model finishes
    match n.toNat?, seed.toNat? with
    | some n, some _ => if n ≤ 100000 then "leaks=0 unsignalled=0" else "bad-op"
    | _, _ => "bad-op"
  | ["hs", dir, ours, allowSelf, net, host, rejVer, toks] =>
    match (if dir == "in" then some true else if dir == "out" then some false else none),
          ours.toNat?, parseBool? allowSelf,
          (if net == "reg" then some true else if net == "main" then some false else none),
          (if host == "local" then some true else if host == "remote" then some false else none),
          parseBool? rejVer, parseToks? toks with
    | some inbound, some ours, some as, some reg, some loc, some rv, some ts =>
      if ours = 0 ∨ ours ≥ 2^32 then "bad-op" else
      let (s, es) := run ⟨inbound, ours, as, reg && loc, rv⟩ ts
      render s es
    | _, _, _, _, _, _, _ => "bad-op"
  | _ => "bad-op"

end BV.C18.Driver
